(** Facts about the string / dict / interpolation layer of Model/Config.v. *)
From Coq Require Import List Ascii Bool Arith Lia Permutation.
From RV Require Import Model.Config.
Import ListNotations.
Open Scope list_scope.
Open Scope char_scope.

(** * Strings *)
Lemma str_eqb_refl a : str_eqb a a = true.
Proof. induction a; simpl; auto. rewrite Ascii.eqb_refl. auto. Qed.

Lemma str_eqb_eq a b : str_eqb a b = true -> a = b.
Proof.
  revert b. induction a; destruct b; simpl; try discriminate; auto.
  intros H. apply andb_prop in H. destruct H as [H1 H2]. apply Ascii.eqb_eq in H1. subst. f_equal. auto.
Qed.

Lemma str_eqb_neq a b : a <> b -> str_eqb a b = false.
Proof. intros H. destruct (str_eqb a b) eqn:E; auto. apply str_eqb_eq in E. contradiction. Qed.

Lemma str_eq_dec (a b : str) : {a = b} + {a <> b}.
Proof. destruct (str_eqb a b) eqn:E; [left; apply str_eqb_eq; auto|right; intros ->; rewrite str_eqb_refl in E; discriminate]. Qed.

(** * Dicts *)
Lemma dget_notin {V} k (d : list (str * V)) : ~ In k (map fst d) -> dget k d = None.
Proof.
  induction d as [|[k' v] d IH]; simpl; auto. intros H.
  rewrite str_eqb_neq by (intros ->; apply H; auto). apply IH. intros X. apply H. auto.
Qed.

Lemma dget_some_in {V} k (d : list (str * V)) v : dget k d = Some v -> In (k, v) d.
Proof.
  induction d as [|[k' v'] d IH]; simpl; try discriminate.
  destruct (str_eqb k k') eqn:E.
  - intros [= ->]. apply str_eqb_eq in E. subst. auto.
  - intros H. right. auto.
Qed.

Lemma dget_none_notin {V} k (d : list (str * V)) : dget k d = None -> ~ In k (map fst d).
Proof.
  induction d as [|[k' v'] d IH]; simpl; auto.
  destruct (str_eqb k k') eqn:E; try discriminate.
  intros H [X|X]; [subst; rewrite str_eqb_refl in E; discriminate|]. apply IH; auto.
Qed.

Lemma dget_in_nodup {V} k (v : V) d : NoDup (map fst d) -> In (k, v) d -> dget k d = Some v.
Proof.
  induction d as [|[k' v'] d IH]; simpl; [tauto|].
  intros ND [X|X].
  - inversion X; subst. rewrite str_eqb_refl. auto.
  - inversion ND; subst. rewrite str_eqb_neq; auto.
    intros ->. apply H1. apply in_map_iff. exists (k', v). auto.
Qed.

Lemma dget_app_last {V} k (v : V) d : ~ In k (map fst d) -> dget k (d ++ [(k, v)]) = Some v.
Proof.
  induction d as [|[k' v'] d IH]; simpl; intros H.
  - rewrite str_eqb_refl. auto.
  - rewrite str_eqb_neq by (intros ->; apply H; auto). apply IH. intros X. apply H. auto.
Qed.

Lemma dset_notin {V} k (v : V) d : ~ In k (map fst d) -> dset k v d = d ++ [(k, v)].
Proof.
  induction d as [|[k' v'] d IH]; simpl; auto. intros H.
  rewrite str_eqb_neq by (intros ->; apply H; auto). f_equal. apply IH. intros X. apply H. auto.
Qed.

Lemma dset_app_last {V} k (v v0 : V) d : ~ In k (map fst d) -> dset k v (d ++ [(k, v0)]) = d ++ [(k, v)].
Proof.
  induction d as [|[k' v'] d IH]; simpl; intros H.
  - rewrite str_eqb_refl. auto.
  - rewrite str_eqb_neq by (intros ->; apply H; auto). f_equal. apply IH. intros X. apply H. auto.
Qed.

Lemma dget_split {V} k (d : list (str * V)) v :
  dget k d = Some v -> exists l1 l2, d = l1 ++ (k, v) :: l2 /\ ~ In k (map fst l1).
Proof.
  induction d as [|[k' v'] d IH]; simpl; try discriminate.
  destruct (str_eqb k k') eqn:E.
  - intros [= ->]. apply str_eqb_eq in E. subst. exists [], d. simpl. auto.
  - intros H. destruct (IH H) as (l1 & l2 & -> & Hn). exists ((k', v') :: l1), l2. split; auto.
    simpl. intros [X|X]; [subst; rewrite str_eqb_refl in E; discriminate|auto].
Qed.

Lemma dset_split {V} k (v v' : V) l1 l2 :
  ~ In k (map fst l1) -> dset k v' (l1 ++ (k, v) :: l2) = l1 ++ (k, v') :: l2.
Proof.
  induction l1 as [|[k1 v1] l1 IH]; simpl; intros H.
  - rewrite str_eqb_refl. auto.
  - rewrite str_eqb_neq by (intros ->; apply H; auto). f_equal. apply IH. intros X. apply H. auto.
Qed.

(** * Interpolation of literal text *)
Lemma is_dollar_eq c : is_dollar c = true -> c = "$".
Proof. unfold is_dollar. apply Ascii.eqb_eq. Qed.

Lemma scan_escape resolve v : scan resolve None (escape v) = Ok v.
Proof.
  induction v as [|c r IH]; simpl; auto.
  destruct (is_dollar c) eqn:E.
  - apply is_dollar_eq in E. subst. simpl. rewrite IH. reflexivity.
  - simpl. rewrite E. rewrite IH. reflexivity.
Qed.

Lemma scan_nodollar resolve v : has_dollar v = false -> scan resolve None v = Ok v.
Proof.
  induction v as [|c r IH]; simpl; auto. intros H. apply orb_false_iff in H. destruct H as [H1 H2].
  rewrite H1. rewrite IH; auto.
Qed.

Definition nodollar (c : ascii) : bool := negb (is_dollar c).

Lemma strip_dd_escape v : strip_dd (escape v) = filter nodollar v.
Proof.
  induction v as [|c r IH]; auto.
  cbn [escape filter]. unfold nodollar at 1. destruct (is_dollar c) eqn:E.
  - apply is_dollar_eq in E. subst. cbn. exact IH.
  - cbn [negb]. rewrite <- IH. cbn [strip_dd]. destruct (escape r) as [|c' r'] eqn:Er.
    + reflexivity.
    + rewrite E. cbn [andb]. reflexivity.
Qed.

Lemma strip_dd_nodollar v : has_dollar v = false -> strip_dd v = v.
Proof.
  induction v as [|c r IH]; auto. cbn [has_dollar existsb]. intros H.
  apply orb_false_iff in H. destruct H as [H1 H2]. fold (has_dollar r) in H2.
  cbn [strip_dd]. destruct r as [|c' r']; auto. rewrite H1. cbn [andb]. f_equal. apply IH. auto.
Qed.

Lemma has_dollar_filter v : has_dollar (filter nodollar v) = false.
Proof.
  induction v as [|c r IH]; auto. cbn [filter]. unfold nodollar at 1. destruct (is_dollar c) eqn:E; cbn [negb]; auto.
  cbn [has_dollar existsb]. rewrite E. exact IH.
Qed.

Lemma refs_ok_nodollar s : has_dollar s = false -> refs_ok None s = true.
Proof.
  induction s as [|c r IH]; simpl; auto. intros H. apply orb_false_iff in H. destruct H as [H1 H2].
  rewrite H1. auto.
Qed.

(** [literal e v]: the raw text [e] is accepted by read_dict and always reads back as [v],
    whatever the other options and the environment are. *)
Definition literal (e v : str) : Prop :=
  before_set_ok e = true /\ forall resolve, scan resolve None e = Ok v.

Lemma literal_escape v : literal (escape v) v.
Proof.
  split; [|intros; apply scan_escape].
  unfold before_set_ok. rewrite strip_dd_escape. apply refs_ok_nodollar, has_dollar_filter.
Qed.

Lemma literal_nodollar v : has_dollar v = false -> literal v v.
Proof.
  intros H. split; [|intros; apply scan_nodollar; auto].
  unfold before_set_ok. rewrite strip_dd_nodollar by auto. apply refs_ok_nodollar; auto.
Qed.

Lemma interp_literal cfg env p fuel top sect e v :
  (forall resolve, scan resolve None e = Ok v) -> interp cfg env p (S fuel) top sect e = Ok v.
Proof. intros H. cbn [interp]. apply H. Qed.

(** * str.replace leaves strings without an occurrence alone *)
Lemma replace_not_contains old new s : contains old s = false -> replace old new s = s.
Proof.
  destruct old as [|a o].
  - destruct s; simpl; discriminate.
  - unfold replace. induction s as [|c r IH]; auto.
    intros H. cbn [contains] in H. apply orb_false_iff in H. destruct H as [H1 H2].
    cbn [replace_aux]. rewrite H1. f_equal. auto.
Qed.

(** * split / join *)
Lemma split_nonempty c s : split c s <> [].
Proof.
  destruct s as [|x r]; simpl; [discriminate|].
  destruct (Ascii.eqb x c); [discriminate|]. destruct (split c r); discriminate.
Qed.

Definition glue (c : ascii) (parts : list str) : str := flat_map (fun p => c :: p) parts.

Lemma glue_split c s : glue c (split c s) = c :: s.
Proof.
  induction s as [|x r IH]; simpl; auto.
  destruct (Ascii.eqb x c) eqn:E.
  - apply Ascii.eqb_eq in E. subst. simpl. rewrite IH. reflexivity.
  - destruct (split c r) as [|h t] eqn:Es; [exfalso; eapply split_nonempty; eauto|].
    simpl in *. injection IH as IH. rewrite IH. reflexivity.
Qed.

Lemma split_inj c a b : split c a = split c b -> a = b.
Proof. intros H. assert (X : c :: a = c :: b) by (rewrite <- !glue_split, H; auto). injection X; auto. Qed.

Lemma fold_join_nonempty cfg parts path :
  join_guard cfg = true -> path <> [] ->
  fold_left (join cfg) parts path = path ++ glue (sep cfg) parts.
Proof.
  intros Hg. revert path. induction parts as [|p r IH]; intros path Hp; simpl.
  - rewrite app_nil_r. auto.
  - unfold join at 2. rewrite Hg. destruct path as [|x path]; [contradiction|]. cbn [is_nil andb].
    rewrite IH by (destruct path; discriminate). rewrite <- app_assoc. reflexivity.
Qed.

Definition name_ok (cfg : config_cfg) (s : str) : bool :=
  match s with [] => false | c :: _ => negb (Ascii.eqb c (sep cfg)) end.

(** Walking down the parts of a well-formed section name rebuilds the name. *)
Lemma fold_join_split cfg n :
  join_guard cfg = true -> name_ok cfg n = true -> fold_left (join cfg) (split (sep cfg) n) [] = n.
Proof.
  intros Hg Hn. pose proof (glue_split (sep cfg) n) as G.
  destruct n as [|x r]; [discriminate|]. simpl in Hn. apply negb_true_iff in Hn.
  cbn [split] in *. rewrite Hn in *.
  destruct (split (sep cfg) r) as [|h t] eqn:Es; [exfalso; eapply split_nonempty; eauto|].
  cbn [fold_left]. unfold join at 2. rewrite Hg. cbn [is_nil andb].
  rewrite fold_join_nonempty by (auto; discriminate).
  unfold glue in *. cbn [flat_map] in G. injection G as G. cbn [app]. f_equal. exact G.
Qed.
