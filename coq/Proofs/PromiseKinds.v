(** Which callback runs: every invocation [EvCall p r isres arg k] executes the resolver (if
    [isres]) or the rejector (otherwise) that registration [r] put on promise [p]. Holds for
    every configuration. *)
From Coq Require Import List ZArith Bool Arith Lia.
From RV Require Import Model.Promise Proofs.PromiseBase.
Import ListNotations.
Open Scope list_scope.

Definition reg_ok (lg : list event) (p r : nat) (i : bool) (k : cbk) : Prop :=
  exists cres crej, In (EvReg r p cres crej) lg /\ k = if i then cres else crej.
Definition cb_ok (lg : list event) (p : nat) (i : bool) (x : cb) : Prop := reg_ok lg p (rid x) i (kind x).

Record K (s : state) : Prop := {
  k_heap : forall p pr, nth_error (heap s) p = Some pr ->
             Forall (cb_ok (log s) p true) (ress pr) /\ Forall (cb_ok (log s) p false) (rejs pr);
  k_stack : forall p i a cbs, In (FNotify p i a cbs) (stack s) -> Forall (cb_ok (log s) p i) cbs;
  k_log : forall p r i a k, In (EvCall p r i a k) (log s) -> reg_ok (log s) p r i k }.

Lemma reg_ok_mono : forall lg e p r i k, reg_ok lg p r i k -> reg_ok (e :: lg) p r i k.
Proof. intros lg e p r i k (a & b & H & E). exists a, b. split; [right; auto|auto]. Qed.

Lemma forall_cb_mono : forall lg e p i l, Forall (cb_ok lg p i) l -> Forall (cb_ok (e :: lg) p i) l.
Proof. intros. eapply Forall_impl; [|exact H]. intros x. apply reg_ok_mono. Qed.

Section Kinds.
Variable c : cfg.

Lemma k_emit : forall s e, match e with EvCall _ _ _ _ _ => False | _ => True end -> K s -> K (emit e s).
Proof.
  intros s e He [A B C]. constructor; simpl.
  - intros p pr H. destruct (A p pr H). split; apply forall_cb_mono; auto.
  - intros p i a cbs H. apply forall_cb_mono. eauto.
  - intros p r i a k [E|H]; [subst e; destruct He|]. apply reg_ok_mono. eauto.
Qed.

Lemma k_set_stack : forall s stk',
  (forall p i a cbs, In (FNotify p i a cbs) stk' -> In (FNotify p i a cbs) (stack s)) -> K s -> K (set_stack stk' s).
Proof. intros s stk' Hs [A B C]. constructor; simpl; auto. intros; eauto. Qed.

Lemma k_push_other : forall s f, is_notify f = false -> K s -> K (push f s).
Proof.
  intros. unfold push. apply k_set_stack; auto. intros p i a cbs [E|I]; [subst f; discriminate|auto].
Qed.

Lemma k_pop : forall s f rest, stack s = f :: rest -> K s -> K (set_stack rest s).
Proof. intros. apply k_set_stack; auto. intros. rewrite H. right. auto. Qed.

Lemma k_set_alls : forall s a, K s -> K (set_alls a s).
Proof. intros s a [A B C]. constructor; simpl; auto. Qed.
Lemma k_set_waits : forall s a, K s -> K (set_waits a s).
Proof. intros s a [A B C]. constructor; simpl; auto. Qed.
Lemma k_set_rid : forall s n, K s -> K (set_rid n s).
Proof. intros s n [A B C]. constructor; simpl; auto. Qed.

Lemma k_alloc : forall s, K s -> K (alloc s).
Proof.
  intros s [A B C]. constructor; simpl; auto. intros p pr H.
  destruct (Nat.lt_ge_cases p (length (heap s))) as [L|L].
  - rewrite nth_error_snoc_lt in H; auto.
  - assert (p = length (heap s)).
    { assert (p < length (heap s ++ [mkprom Pending [] [] false])) by (apply nth_error_Some; congruence).
      rewrite app_length in H0. simpl in H0. lia. }
    subst p. rewrite nth_error_snoc_eq in H. inversion H; subst pr. simpl. split; constructor.
Qed.

(** Replace the lists of [p] by lists that are still fine, optionally pushing a loop made of fine callbacks. *)
Lemma k_upd : forall s p f, K s ->
  (forall pr, nth_error (heap s) p = Some pr ->
     Forall (cb_ok (log s) p true) (ress (f pr)) /\ Forall (cb_ok (log s) p false) (rejs (f pr))) ->
  K (set_heap (upd p f (heap s)) s).
Proof.
  intros s p f [A B C] Hf. constructor; simpl; auto. intros p' pr' H.
  destruct (Nat.eq_dec p p') as [<-|N].
  - destruct (nth_error (heap s) p) as [pr|] eqn:Hp.
    + rewrite (nth_error_upd_same _ _ _ _ _ Hp) in H. inversion H; subst pr'. auto.
    + rewrite nth_error_upd_none in H; auto. discriminate.
  - rewrite nth_error_upd_other in H; auto.
Qed.

Lemma k_push_notify : forall s p i v l, K s -> Forall (cb_ok (log s) p i) l -> K (push (FNotify p i v l) s).
Proof.
  intros s p i v l [A B C] Hl. constructor; simpl; auto.
  intros p' i' a' cbs' [E|H]; [inversion E; subst; auto|eauto].
Qed.

Lemma k_notify : forall p s, K s -> K (notify c p s).
Proof.
  intros p s Ks. unfold notify. destruct (nth_error (heap s) p) as [pr|] eqn:Hp; auto.
  destruct (take_cbs pr) as [[[i v] l]|] eqn:Ht; auto.
  assert (Hl : Forall (cb_ok (log s) p i) l).
  { destruct (k_heap _ Ks p pr Hp) as (H1 & H2). unfold take_cbs in Ht.
    destruct (st pr); inversion Ht; subst; auto. }
  assert (Hgo : forall b, K (push (FNotify p i v l) (set_heap (upd p (clear_lists b) (heap s)) s))).
  { intros b. apply k_push_notify; [|exact Hl]. apply k_upd; auto. intros. simpl. split; constructor. }
  destruct (mode c); [apply Hgo|]. destruct (busy pr); [auto|apply Hgo].
Qed.

Lemma k_settle : forall t o s, K s -> K (settle c t o s).
Proof.
  intros t o s Ks. unfold settle. destruct (nth_error (heap s) t) as [pr|] eqn:Hp.
  2:{ apply k_emit; simpl; auto. }
  assert (K1 : K (emit (EvTry t o) s)) by (apply k_emit; simpl; auto).
  destruct (guard_settled c && negb (is_pending (st pr))); auto.
  apply k_notify. apply (k_upd (emit (EvTry t o) s)); auto.
  intros pr' H. simpl. apply (k_heap _ K1 t pr' H).
Qed.

Lemma k_register : forall p r a b s, K s -> K (register c p r a b s).
Proof.
  intros p r a b s Ks. unfold register. cbv zeta.
  assert (K1 : K (emit (EvReg r p a b) s)) by (apply k_emit; simpl; auto).
  assert (K2 : K (set_heap (upd p (fun pr => mkprom (st pr) (ress pr ++ [mkcb r a]) (rejs pr ++ [mkcb r b]) (busy pr))
                                (heap (emit (EvReg r p a b) s))) (emit (EvReg r p a b) s))).
  { apply k_upd; auto. intros pr H. destruct (k_heap _ K1 p pr H) as (H1 & H2). simpl.
    split; apply Forall_app; split; auto; constructor; auto; exists a, b; simpl; auto. }
  destruct (then_notifies c); [apply k_notify|]; exact K2.
Qed.

Lemma k_do_then : forall q mk s, K s -> K (do_then c q mk s).
Proof.
  intros q mk s Ks. unfold do_then. destruct (q <? length (heap s)).
  - apply k_register. apply k_set_rid. apply k_alloc. auto.
  - apply k_emit; simpl; auto.
Qed.

Lemma k_call : forall s p i v x cbs rest, stack s = FNotify p i v (x :: cbs) :: rest -> K s ->
  K (emit (EvCall p (rid x) i v (kind x)) (push (FNotify p i v cbs) (set_stack rest s))).
Proof.
  intros s p i v x cbs rest Hs [A B C].
  assert (Hx : Forall (cb_ok (log s) p i) (x :: cbs)) by (eapply B; rewrite Hs; left; reflexivity).
  inversion Hx; subst. constructor; simpl.
  - intros p' pr H. destruct (A p' pr H). split; apply forall_cb_mono; auto.
  - intros p' i' a' cbs' [E|H]; apply forall_cb_mono; [inversion E; subst; auto|].
    eapply B. rewrite Hs. right. eauto.
  - intros p' r i' a k [E|H]; apply reg_ok_mono; [inversion E; subst; auto|eauto].
Qed.

Ltac k_tac :=
  repeat first
    [ assumption
    | apply k_settle
    | apply k_do_then
    | apply k_alloc
    | apply k_set_alls
    | apply k_set_waits
    | apply k_push_other; [reflexivity|]
    | apply k_emit; [exact I|] ].

Ltac split_if := match goal with |- context [if ?b then _ else _] => destruct b end.

Lemma k_invoke : forall k arg s, K s -> K (invoke c k arg s).
Proof.
  intros k arg s Ks. destruct k; unfold invoke; try (k_tac; fail).
  - cbn [alls push set_stack]. destruct (nth_error (alls s) a); [|k_tac]. split_if; k_tac.
  - cbn [alls push set_stack]. destruct (nth_error (alls s) a); k_tac.
  - cbn [waits push set_stack]. destruct (nth_error (waits s) w); [|k_tac]. split_if; k_tac.
Qed.

Lemma k_finish : forall v t s, K s -> K (finish c v t s).
Proof.
  intros v t s Ks. destruct v; unfold finish; try (k_tac; fail).
  destruct (adopt_returned c); [|k_tac]. destruct (p <? length (heap s)); k_tac.
Qed.

Lemma k_exec_act : forall a arg s, K s -> K (exec_act c a arg s).
Proof. intros a arg s Ks. destruct a; unfold exec_act; k_tac. Qed.

Lemma k_step : forall s s', K s -> step c s = Some s' -> K s'.
Proof.
  intros s s' Ks H. unfold step in H. destruct (stack s) as [|fr rest] eqn:Hs; [discriminate|].
  inversion H; subst s'; clear H.
  assert (K0 : K (set_stack rest s)) by (eapply k_pop; eauto).
  destruct fr.
  - destruct cbs as [|x cbs].
    + destruct (mode c); auto. cbn [heap set_stack].
      destruct (nth_error (heap s) p) as [pr|] eqn:Hp; auto.
      destruct (k_heap _ K0 p pr Hp) as (H1 & H2).
      destruct (if isres then ress pr else rejs pr) as [|y l] eqn:El.
      * apply (k_upd (set_stack rest s)); auto. intros pr' H'. simpl. apply (k_heap _ K0 p pr' H').
      * apply k_push_notify.
        -- apply (k_upd (set_stack rest s)); auto. intros. simpl. split; constructor.
        -- simpl. rewrite <- El. destruct isres; auto.
    + apply k_invoke. apply k_call; auto.
  - destruct acts as [|a acts].
    + destruct k as [|[e|z] t]; k_tac.
    + apply k_exec_act. k_tac.
  - apply k_finish; auto.
  - destruct rest0 as [|q qs].
    + destruct (n =? 0); [|auto]. cbn [alls set_stack]. destruct (nth_error (alls s) a); k_tac.
    + k_tac.
  - destruct rest0 as [|q qs].
    + destruct (n =? 0); [|auto]. cbn [waits set_stack]. destruct (nth_error (waits s) w); k_tac.
    + k_tac.
Qed.

Lemma k_init : forall prog, K (init prog).
Proof.
  intros. constructor; simpl.
  - intros p pr H. destruct p; discriminate.
  - intros p i a cbs [E|[]]. discriminate.
  - intros p r i a k [].
Qed.

Theorem reach_K : forall prog s, reach c prog s -> K s.
Proof. induction 1; [apply k_init|eapply k_step; eauto]. Qed.

(** The statement used by Props/C13.v. *)
Theorem called_is_registered_callback : forall prog s, reach c prog s ->
  forall p r isres arg k, In (EvCall p r isres arg k) (log s) ->
  exists cres crej, In (EvReg r p cres crej) (log s) /\ k = if isres then cres else crej.
Proof. intros prog s R p r i a k H. exact (k_log _ (reach_K prog s R) p r i a k H). Qed.
End Kinds.
