(** C20 — invariants of the recording machine, for every event sequence. *)
From Coq Require Import List Arith Bool Ascii Permutation Lia.
From RV Require Import Base.Decimal Model.Bencode Model.CallGraph Proofs.CallGraphHash.
Import ListNotations.
Open Scope list_scope.

Lemma mem_h_In h l : mem_h h l = true <-> In h l.
Proof.
  unfold mem_h. rewrite existsb_exists. split.
  - intros (x & Hx & E). destruct (beqb_spec h x); [now subst|discriminate].
  - intros Hin. exists h. split; auto. apply beqb_refl.
Qed.
Lemma mem_n_In n l : mem_n n l = true <-> In n l.
Proof.
  unfold mem_n. rewrite existsb_exists. split.
  - intros (x & Hx & E). apply Nat.eqb_eq in E. now subst.
  - intros Hin. exists n. split; auto. apply Nat.eqb_refl.
Qed.

Lemma filter_none {A} (f : A -> bool) l : (forall x, In x l -> f x = false) -> filter f l = [].
Proof.
  induction l as [|x l IH]; simpl; intros Hf; auto. rewrite (Hf x (or_introl eq_refl)). apply IH. auto.
Qed.

Lemma NoDup_snoc {A} (l : list A) x : NoDup l -> ~ In x l -> NoDup (l ++ [x]).
Proof.
  induction l as [|y l IH]; simpl; intros Hn Hx.
  - repeat constructor; auto.
  - inversion Hn; subst. constructor.
    + intros Hin. apply in_app_or in Hin. destruct Hin as [Hin|[->|[]]]; auto.
    + apply IH; auto.
Qed.

Lemma new_edges_spec known p k cs q c i :
  In (q, c, i) (new_edges known p k cs) ->
  q = p /\ exists i0, i = k + i0 /\ nth_error cs i0 = Some c /\ In c known.
Proof.
  revert k. induction cs as [|x cs IH]; simpl; intros k Hin; [contradiction|].
  destruct (mem_h x known) eqn:E.
  - destruct Hin as [[= <- <- <-]|Hin].
    + split; auto. exists 0. rewrite Nat.add_0_r. repeat split; auto. now apply mem_h_In.
    + destruct (IH _ Hin) as (-> & i0 & -> & Hn & Hk). split; auto. exists (S i0). repeat split; auto. lia.
  - destruct (IH _ Hin) as (-> & i0 & -> & Hn & Hk). split; auto. exists (S i0). repeat split; auto. lia.
Qed.

Lemma new_edges_complete known p k cs i0 c :
  nth_error cs i0 = Some c -> In c known -> In (p, c, k + i0) (new_edges known p k cs).
Proof.
  revert k i0. induction cs as [|x cs IH]; intros k i0 Hn Hk; [destruct i0; discriminate|].
  simpl. destruct i0 as [|i0]; simpl in Hn.
  - injection Hn as ->. rewrite (proj2 (mem_h_In c known) Hk). rewrite Nat.add_0_r. now left.
  - replace (k + S i0) with (S k + i0) by lia. destruct (mem_h x known); [right|]; now apply IH.
Qed.

Section Inv.
  Variable H : bytes -> hash.
  Variable C : cfg.

  Notation call_hash := (call_hash H C).
  Notation record_node := (record_node H C).
  Notation step := (step H C).
  Notation run := (run H C).

  (** The graph part of the database. *)
  Record graph_ok (cn : list cnrow) (ed : list (hash * hash * nat)) : Prop := {
    g_merkle : forall row, In row cn -> exists cs,
        cn_hash row = call_hash (cn_task row) (cn_args row) (cn_value row) cs /\
        (forall c i, In (cn_hash row, c, i) ed -> nth_error cs i = Some c /\ In c (map cn_hash cn));
    g_parent : forall p c i, In (p, c, i) ed -> In p (map cn_hash cn);
    g_pk : NoDup (map cn_hash cn)
  }.

  Lemma graph_ok_init : graph_ok [] [].
  Proof. constructor; simpl; intros; try contradiction. constructor. Qed.

  Lemma record_node_graph t a r cs s :
    graph_ok (cns s) (edges s) ->
    graph_ok (cns (snd (record_node t a r cs s))) (edges (snd (record_node t a r cs s))).
  Proof.
    intros G. unfold CallGraph.record_node. destruct (recorded s _) eqn:E; simpl; [exact G|].
    set (h := call_hash t a r cs) in *.
    assert (Hn : ~ In h (map cn_hash (cns s))).
    { intros Hin. apply mem_h_In in Hin. unfold recorded, node_hashes in E. congruence. }
    destruct G as [G1 G2 G3]. constructor.
    - intros row Hin. apply in_app_or in Hin. destruct Hin as [Hin|[<-|[]]].
      + destruct (G1 row Hin) as (cs0 & E0 & He). exists cs0. split; auto.
        intros c i Hed. apply in_app_or in Hed. destruct Hed as [Hed|Hed].
        * destruct (He c i Hed) as [A B]. split; auto. rewrite map_app. apply in_or_app. now left.
        * apply new_edges_spec in Hed. destruct Hed as [Eq _]. exfalso. apply Hn. rewrite <- Eq.
          now apply in_map.
      + simpl. exists cs. split; [reflexivity|]. intros c i Hed. apply in_app_or in Hed. destruct Hed as [Hed|Hed].
        * exfalso. apply Hn. eapply G2; eauto.
        * apply new_edges_spec in Hed. destruct Hed as (_ & i0 & -> & Hnth & Hk). simpl. split; auto.
          rewrite map_app. apply in_or_app. now left.
    - intros p c i Hed. rewrite map_app. apply in_or_app. apply in_app_or in Hed. destruct Hed as [Hed|Hed].
      + left. eapply G2; eauto.
      + apply new_edges_spec in Hed. destruct Hed as [-> _]. right. now left.
    - rewrite map_app. simpl. apply NoDup_snoc; auto.
  Qed.

  (** Every step either leaves the graph tables alone or is one [record_node]. *)
  Lemma job_start_graph i s : cns (job_start i s) = cns s /\ edges (job_start i s) = edges s.
  Proof. unfold job_start. destruct (has_job _ _); simpl; auto. Qed.
  Lemma job_end_graph i h c s : cns (job_end i h c s) = cns s /\ edges (job_end i h c s) = edges s.
  Proof.
    unfold job_end. destruct (job_start_graph i s) as [A B].
    destruct (match h with Some x => recorded (job_start i s) x | None => true end); simpl; auto.
  Qed.

  Lemma finish_graph i ok cached a r ch vt jt et s :
    (cns (finish H C i ok cached a r ch vt jt et s) = cns s /\ edges (finish H C i ok cached a r ch vt jt et s) = edges s) \/
    exists t cs, cns (finish H C i ok cached a r ch vt jt et s) = cns (snd (record_node t a r cs s)) /\
                 edges (finish H C i ok cached a r ch vt jt et s) = edges (snd (record_node t a r cs s)).
  Proof.
    unfold finish. set (cs := child_hashes (jh s) ch). set (known := lookup_jh (ji_id i) (jh s)).
    destruct (ji_prov i).
    - set (keep := match known with Some _ => if ok then true else reject_adopts C | None => false end).
      assert (D : (exists h, (match known, keep with Some h, true => (h, s) | _, _ => record_node (ji_task i) a r cs s end) = (h, s))
                  \/ (match known, keep with Some h, true => (h, s) | _, _ => record_node (ji_task i) a r cs s end)
                     = record_node (ji_task i) a r cs s).
      { destruct known; [destruct keep|]; eauto. }
      destruct D as [[h D]|D]; rewrite D.
      + left. destruct (record_job_tags _ _ _ _ _ _) as [tb d]. destruct d; simpl; auto.
        destruct (job_end_graph i (Some h) cached (with_tags (with_jh s (set_jh (ji_id i) h (jh s))) tb false)) as [A B].
        rewrite A, B. simpl. auto.
      + right. exists (ji_task i), cs. destruct (record_node (ji_task i) a r cs s) as [h s1] eqn:E. simpl.
        destruct (record_job_tags _ _ _ _ _ _) as [tb d]. destruct d; simpl; auto.
        destruct (job_end_graph i (Some h) cached (with_tags (with_jh s1 (set_jh (ji_id i) h (jh s1))) tb false)) as [A B].
        rewrite A, B. simpl. auto.
    - left. destruct ok; simpl; auto.
  Qed.

  Lemma step_graph s e : graph_ok (cns s) (edges s) -> graph_ok (cns (step s e)) (edges (step s e)).
  Proof.
    intros G. unfold CallGraph.step. destruct (dead s && negb (is_newrun e)); [exact G|]. destruct e as [i|j nocse|j ad|j ok cached a r ch vt jt et|].
    - destruct (lookup_info _ _); [exact G|]. destruct (ji_prov i); simpl; auto.
      match goal with |- graph_ok (cns (job_start i ?x)) _ => destruct (job_start_graph i x) as [A B]; rewrite A, B end.
      exact G.
    - destruct (lookup_info _ _); [|exact G]. destruct (reg_guard C && _); simpl; auto.
    - destruct (lookup_info _ _); [|exact G]. destruct (adopt_hash _ _); simpl; auto.
    - destruct (lookup_info _ _) as [i|]; [|exact G].
      destruct (finish_graph i ok cached a r ch vt jt et s) as [[A B]|(t & cs & A & B)]; rewrite A, B; auto.
      now apply record_node_graph.
    - simpl. exact G.
  Qed.

  Lemma run_graph evs s : graph_ok (cns s) (edges s) -> graph_ok (cns (run s evs)) (edges (run s evs)).
  Proof.
    revert s. induction evs as [|e evs IH]; intros s G; simpl; auto. apply IH. now apply step_graph.
  Qed.

  Theorem nodes_merkle evs :
    graph_ok (cns (run init evs)) (edges (run init evs)).
  Proof. apply run_graph. apply graph_ok_init. Qed.

  (** Edges of a node are fixed when it is first recorded: exactly the positions of the child hash
      list whose hash is a recorded node at that moment; later events never touch them. *)
  Definition edges_of (p : hash) (ed : list (hash * hash * nat)) : list (hash * hash * nat) :=
    filter (fun e => bytes_eqb (fst (fst e)) p) ed.

  Lemma edges_of_app p a b : edges_of p (a ++ b) = edges_of p a ++ edges_of p b.
  Proof. unfold edges_of. apply filter_app. Qed.

  Lemma edges_of_new_other known p q k cs : p <> q -> edges_of p (new_edges known q k cs) = [].
  Proof.
    intros N. revert k. induction cs as [|x cs IH]; intros k; simpl; auto.
    destruct (mem_h x known); simpl; auto. destruct (beqb_spec q p); [congruence|]. auto.
  Qed.
  Lemma edges_of_new_self known q k cs : edges_of q (new_edges known q k cs) = new_edges known q k cs.
  Proof.
    revert k. induction cs as [|x cs IH]; intros k; simpl; auto.
    destruct (mem_h x known); simpl; auto. rewrite beqb_refl. f_equal. auto.
  Qed.

  Lemma record_node_edges_stable t a r cs s p :
    graph_ok (cns s) (edges s) -> In p (map cn_hash (cns s)) ->
    edges_of p (edges (snd (record_node t a r cs s))) = edges_of p (edges s).
  Proof.
    intros G Hin. unfold CallGraph.record_node. destruct (recorded s _) eqn:E; simpl; auto.
    rewrite edges_of_app, edges_of_new_other, app_nil_r; auto.
    intros ->. apply mem_h_In in Hin. unfold recorded, node_hashes in E. congruence.
  Qed.

  Lemma record_node_edges_new t a r cs s :
    graph_ok (cns s) (edges s) -> recorded s (call_hash t a r cs) = false ->
    edges_of (call_hash t a r cs) (edges (snd (record_node t a r cs s))) =
    new_edges (map cn_hash (cns s)) (call_hash t a r cs) 0 cs.
  Proof.
    intros G E. unfold CallGraph.record_node. rewrite E. simpl. rewrite edges_of_app, edges_of_new_self.
    replace (edges_of _ (edges s)) with (@nil (hash * hash * nat)); auto.
    symmetry. apply filter_none. intros [[p c] i] Hin. simpl.
    destruct (beqb_spec p (call_hash t a r cs)) as [->|]; auto.
    exfalso. apply (g_parent _ _ G) in Hin. apply mem_h_In in Hin. unfold recorded, node_hashes in E. congruence.
  Qed.

  Lemma step_edges_stable s e p :
    graph_ok (cns s) (edges s) -> In p (map cn_hash (cns s)) ->
    edges_of p (edges (step s e)) = edges_of p (edges s) /\ In p (map cn_hash (cns (step s e))).
  Proof.
    intros G Hin. unfold CallGraph.step. destruct (dead s && negb (is_newrun e)); [auto|].
    destruct e as [i|j nocse|j ad|j ok cached a r ch vt jt et|].
    - destruct (lookup_info _ _); [auto|]. destruct (ji_prov i); simpl; auto.
      match goal with |- context [job_start i ?x] => destruct (job_start_graph i x) as [A B]; rewrite A, B end. auto.
    - destruct (lookup_info _ _); [|auto]. destruct (reg_guard C && _); simpl; auto.
    - destruct (lookup_info _ _); [|auto]. destruct (adopt_hash _ _); simpl; auto.
    - destruct (lookup_info _ _) as [i|]; [|auto].
      destruct (finish_graph i ok cached a r ch vt jt et s) as [[A B]|(t & cs & A & B)]; rewrite A, B; auto.
      split; [now apply record_node_edges_stable|].
      unfold CallGraph.record_node. destruct (recorded s _); simpl; auto. rewrite map_app. apply in_or_app. now left.
    - simpl. auto.
  Qed.

  Theorem edges_stable evs s p :
    graph_ok (cns s) (edges s) -> In p (map cn_hash (cns s)) ->
    edges_of p (edges (run s evs)) = edges_of p (edges s).
  Proof.
    revert s. induction evs as [|e evs IH]; intros s G Hin; simpl; auto.
    destruct (step_edges_stable s e p G Hin) as [A B]. rewrite IH; auto. now apply step_graph.
  Qed.
End Inv.
