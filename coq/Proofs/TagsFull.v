(** C24: the stronger invariant of the reachable tag tables (any variant, any history):
    the TagEdit table is exactly the parent lists, and a row is superseded iff it is not current. *)
From Coq Require Import List Arith Bool PeanoNat Lia.
From RV Require Import Model.Tags Proofs.TagsBase Proofs.TagsInv.
Import ListNotations.
Open Scope list_scope.

Definition FI (s : state) : Prop :=
  (forall c r p, nth_error (rows s) c = Some r -> In p (r_par r) -> In (p, c) (edits s)) /\
  (forall i r, nth_error (rows s) i = Some r -> (r_cur r = false <-> superseded s i = true)).

Lemma superseded_spec s i : superseded s i = true <-> exists c, In (i, c) (edits s).
Proof.
  unfold superseded. rewrite existsb_exists. split.
  - intros [[p c] [H1 H2]]. simpl in H2. apply Nat.eqb_eq in H2. subst. eauto.
  - intros [c H]. exists (i, c). split; [assumption|apply Nat.eqb_refl].
Qed.

Lemma FI_init : FI init.
Proof. split; simpl; intros [|?] ? ; intros; discriminate. Qed.

Lemma commit_batch_cases2 s cs ps :
  commit_batch s cs ps = DbError s \/ commit_batch s cs ps = Done s \/
  (commit_batch s cs ps = Done (cb_state s cs ps) /\ NoDup (cb_new_cs s cs ps) /\ cs <> []).
Proof.
  rewrite commit_batch_unfold. destruct (has_dup content_eqb (cb_new_cs s cs ps)) eqn:E1; [tauto|].
  apply (has_dup_false_NoDup content_eqb _ content_eqb_eq) in E1.
  destruct (has_dup edit_eqb _); [tauto|].
  destruct (cb_new_cs s cs ps) eqn:E2, (cb_new_es s cs ps) eqn:E3; try tauto;
    right; right; (split; [reflexivity|]); (split; [assumption|]);
    intros ->; unfold cb_new_cs, cb_new_es in *; simpl in *; discriminate.
Qed.

Lemma find_from_map_nodup ps l : NoDup l -> forall i m c, nth_error l m = Some c ->
  find_from i c ps (map (fun c => mkRow c ps true) l) = Some (i + m).
Proof.
  induction 1 as [|a l Hn Hd IH]; intros i [|m] c H; simpl in H; try discriminate.
  - injection H as ->. simpl. unfold row_is. simpl. rewrite content_eqb_refl.
    assert (list_eqb ps ps = true) as -> by now apply list_eqb_eq. simpl. now rewrite Nat.add_0_r.
  - simpl. unfold row_is at 1. simpl.
    assert (content_eqb a c = false) as ->.
    { destruct (content_eqb a c) eqn:E; [|reflexivity]. apply content_eqb_eq in E. subst.
      apply nth_error_In in H. contradiction. }
    simpl. rewrite (IH (S i) m c H). f_equal. lia.
Qed.

Lemma cb_idx_new s cs ps m c :
  NoDup (cb_new_cs s cs ps) -> nth_error (cb_new_cs s cs ps) m = Some c ->
  cb_idx s cs ps c = length (rows s) + m.
Proof.
  intros Hn Hm. unfold cb_idx, cb_rows1. rewrite find_from_app.
  assert (find_from 0 c ps (rows s) = None) as ->.
  { apply nth_error_In in Hm. unfold cb_new_cs in Hm. apply filter_In in Hm. destruct Hm as [_ Hm].
    unfold exists_row, find_id in Hm. destruct (find_from 0 c ps (rows s)); [discriminate|reflexivity]. }
  now rewrite (find_from_map_nodup ps _ Hn _ m c Hm).
Qed.

Lemma wanted_in s cs ps p c0 :
  In c0 cs -> In p ps -> In (p, cb_idx s cs ps c0) (edits s ++ cb_new_es s cs ps).
Proof.
  intros Hc Hp. apply in_or_app. destruct (mem_edit (p, cb_idx s cs ps c0) (edits s)) eqn:E.
  - left. now apply mem_edit_In.
  - right. unfold cb_new_es. apply filter_In. split; [|now rewrite E].
    apply in_flat_map. exists c0. split; [assumption|]. apply in_map_iff. eauto.
Qed.

Lemma new_es_in s cs ps p c : In (p, c) (cb_new_es s cs ps) -> In p ps.
Proof.
  unfold cb_new_es. intros H. apply filter_In in H. destruct H as [H _]. apply in_flat_map in H.
  destruct H as [c0 [_ H]]. apply in_map_iff in H. destruct H as [p0 [[= -> _] Hp]]. assumption.
Qed.

Lemma cb_state_FI s cs ps :
  LI s -> valid_parents s ps -> FI s -> NoDup (cb_new_cs s cs ps) -> cs <> [] -> FI (cb_state s cs ps).
Proof.
  intros [W E] V [E' C] Hn Hcs. unfold valid_parents in V. rewrite Forall_forall in V. split.
  - intros c r p H Hp. simpl in H |- *. apply inval_nth_inv in H. destruct H as [r0 [H [_ [Hpar _]]]].
    rewrite Hpar in Hp. unfold cb_rows1 in H.
    destruct (Nat.lt_ge_cases c (length (rows s))) as [L|L].
    + rewrite nth_error_app1 in H by assumption. apply in_or_app. left. eapply E'; eassumption.
    + rewrite nth_error_app2 in H by assumption. rewrite nth_error_map in H.
      destruct (nth_error (cb_new_cs s cs ps) (c - length (rows s))) as [c0|] eqn:Em; [|discriminate].
      simpl in H. injection H as <-. simpl in Hp.
      assert (X := cb_idx_new s cs ps _ c0 Hn Em).
      replace c with (cb_idx s cs ps c0) by lia. apply wanted_in; [|assumption].
      apply nth_error_In in Em. unfold cb_new_cs in Em. apply filter_In in Em. tauto.
  - intros i r H. simpl in H. apply inval_nth_inv in H. destruct H as [r0 [H [_ [_ Hcur]]]].
    simpl in Hcur. rewrite superseded_spec. simpl.
    apply cb_rows1_nth in H. destruct H as [H|[L [c [_ ->]]]].
    + split.
      * intros Hf. rewrite Hcur in Hf. apply andb_false_iff in Hf. destruct Hf as [Hf|Hf].
        -- apply (C i r0 H) in Hf. apply superseded_spec in Hf. destruct Hf as [c Hc]. exists c. apply in_or_app. tauto.
        -- apply negb_false_iff in Hf. apply mem_In in Hf. destruct cs as [|c0 cs0]; [congruence|].
           exists (cb_idx s (c0 :: cs0) ps c0). apply wanted_in; [now left|assumption].
      * intros [c Hc]. apply in_app_or in Hc. rewrite Hcur. apply andb_false_iff. destruct Hc as [Hc|Hc].
        -- left. apply (C i r0 H). apply superseded_spec. eauto.
        -- right. apply negb_false_iff. apply mem_In. eapply new_es_in; eassumption.
    + simpl in Hcur. assert (mem i ps = false) as Hm.
      { apply mem_false. intros Hi. apply V in Hi. lia. }
      rewrite Hm in Hcur. simpl in Hcur. rewrite Hcur. split; [discriminate|].
      intros [c0 Hc]. exfalso. apply in_app_or in Hc. destruct Hc as [Hc|Hc].
      * destruct (E _ _ Hc) as [r1 [H1 H2]]. assert (X := W _ _ H1). rewrite Forall_forall in X.
        apply X in H2. assert (c0 < length (rows s)) by (apply nth_error_Some; congruence). lia.
      * apply new_es_in in Hc. apply V in Hc. lia.
Qed.

Lemma commit_batch_FI s cs ps :
  LI s -> valid_parents s ps -> FI s -> out_ok FI (commit_batch s cs ps).
Proof.
  intros HL V HF. destruct (commit_batch_cases2 s cs ps) as [-> | [-> | [-> [Hn Hc]]]]; simpl; try assumption.
  now apply cb_state_FI.
Qed.

(** any property kept by every commit is kept by record_tags *)
Lemma record_tags_pres (P : state -> Prop)
  (Hcb : forall s cs ps, LI s -> valid_parents s ps -> P s -> out_ok P (commit_batch s cs ps)) g f :
  forall s e tags parents update new,
  LI s -> valid_parents s parents -> P s -> out_ok P (record_tags g f s e tags parents update new).
Proof.
  induction f as [|f IH]; intros s e tags parents update new HL HV HP; [exact I|].
  rewrite record_tags_unfold. destruct tags as [|c0 tags0]; [simpl; assumption|].
  set (tags := c0 :: tags0) in *. cbv zeta.
  assert (HV' := rt_parents_valid g s e tags parents update HV).
  set (ps := rt_parents g s e tags parents update) in *.
  destruct (update || new).
  - set (l := filter (is_sup s ps) _).
    assert (forall s', LI s' -> ext s s' -> P s' ->
              match go_sup (fun s' c i => record_tags g f s' e [c] [i] false true) s ps s' l with
              | Done s1 => LI s1 /\ ext s s1 /\ P s1
              | DbError s1 | CliError s1 => P s1
              | OutOfFuel => True
              end) as Hgo.
    { induction l as [|c l IHl]; intros s' L' E' P'; simpl; [tauto|].
      destruct (find_id s c ps) as [i|] eqn:Ei; [|now apply IHl].
      assert (valid_parents s' [i]) as Vi.
      { constructor; [|constructor]. apply find_id_lt in Ei. destruct E' as [LL _]. lia. }
      assert (X := record_tags_LI g f s' e [c] [i] false true L' Vi).
      specialize (IH s' e [c] [i] false true L' Vi P').
      destruct (record_tags g f s' e [c] [i] false true) as [s''| s''| s''|]; simpl in IH, X |- *; try exact I; try assumption.
      destruct X as [L'' E'']. apply IHl; [assumption| |assumption]. eapply ext_trans; eassumption. }
    specialize (Hgo s HL (ext_refl s) HP).
    destruct (go_sup _ s ps s l) as [s1|s1|s1|]; simpl in Hgo |- *; try assumption.
    destruct Hgo as [L1 [E1 P1]]. apply Hcb; try assumption. eapply ext_valid; eassumption.
  - apply Hcb; assumption.
Qed.

Lemma step_FI g s o : LI s -> FI s -> out_ok FI (step g s o).
Proof.
  intros HL HF. destruct o as [e tags|e tags|e pairs keys]; simpl.
  - apply (record_tags_pres FI commit_batch_FI); [assumption|constructor|assumption].
  - apply (record_tags_pres FI commit_batch_FI); [assumption|constructor|assumption].
  - destruct pairs, keys; simpl; try assumption;
      (apply (record_tags_pres FI commit_batch_FI); [assumption|apply ids_from_valid|assumption]).
Qed.

Lemma run_FI g ops : forall s s', LI s -> FI s -> run g s ops = Some s' -> FI s'.
Proof.
  induction ops as [|o ops IH]; intros s s' HL HF; simpl.
  - now intros [= <-].
  - assert (X := step_LI g s o HL). assert (Y := step_FI g s o HL HF).
    destruct (step g s o) as [s1|s1|s1|]; simpl in X, Y; try discriminate;
      intros R; apply (IH s1 s'); try assumption; apply X.
Qed.
