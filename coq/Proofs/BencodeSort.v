From Coq Require Import List ZArith Ascii Bool Lia Arith Permutation.
From RV Require Import Base.Decimal Model.Bencode.
Import ListNotations.
Open Scope list_scope.

(** * [bytes_ltb] is a strict total order *)
Lemma ltb_irrefl a : bytes_ltb a a = false.
Proof. induction a as [|x a IH]; simpl; auto. now rewrite Nat.ltb_irrefl. Qed.

Lemma ltb_trans : forall a b c, bytes_ltb a b = true -> bytes_ltb b c = true -> bytes_ltb a c = true.
Proof.
  induction a as [|x a IH]; intros [|y b] [|z c]; simpl; auto; try discriminate.
  destruct (Nat.ltb_spec (nat_of_ascii x) (nat_of_ascii y)), (Nat.ltb_spec (nat_of_ascii y) (nat_of_ascii x)),
    (Nat.ltb_spec (nat_of_ascii y) (nat_of_ascii z)), (Nat.ltb_spec (nat_of_ascii z) (nat_of_ascii y)),
    (Nat.ltb_spec (nat_of_ascii x) (nat_of_ascii z)), (Nat.ltb_spec (nat_of_ascii z) (nat_of_ascii x));
    try lia; try discriminate; auto.
  apply IH.
Qed.

Lemma nat_of_ascii_inj x y : nat_of_ascii x = nat_of_ascii y -> x = y.
Proof. intros H. rewrite <- (ascii_nat_embedding x), <- (ascii_nat_embedding y). now rewrite H. Qed.

Lemma ltb_total : forall a b, bytes_ltb a b = false -> bytes_ltb b a = false -> a = b.
Proof.
  induction a as [|x a IH]; intros [|y b]; simpl; auto; try discriminate.
  destruct (Nat.ltb_spec (nat_of_ascii x) (nat_of_ascii y)), (Nat.ltb_spec (nat_of_ascii y) (nat_of_ascii x));
    try discriminate; try lia.
  intros H1 H2. f_equal; [apply nat_of_ascii_inj; lia | now apply IH].
Qed.

Lemma ltb_asym a b : bytes_ltb a b = true -> bytes_ltb b a = false.
Proof.
  intros H. destruct (bytes_ltb b a) eqn:E; auto.
  generalize (ltb_trans _ _ _ H E). now rewrite ltb_irrefl.
Qed.

(** * Sortedness *)
Section Sort.
  Context {A : Type}.
  Implicit Types l : list (bytes * A).

  Definition lt_all (k : bytes) l := Forall (fun kv => bytes_ltb k (fst kv) = true) l.

  Lemma keys_sorted_cons k v l : keys_sorted ((k, v) :: l) = true <-> lt_all k l /\ keys_sorted l = true.
  Proof.
    revert k v. induction l as [|[k' v'] l IH]; intros k v.
    - simpl. split; auto. intros _. split; [constructor|auto].
    - change (keys_sorted ((k, v) :: (k', v') :: l)) with (bytes_ltb k k' && keys_sorted ((k', v') :: l)).
      rewrite andb_true_iff. split.
      + intros [H1 H2]. split; auto. constructor; auto.
        apply IH in H2. destruct H2 as [H2 _]. eapply Forall_impl; [|exact H2].
        intros kv Hkv. eapply ltb_trans; eauto.
      + intros [H1 H2]. inversion H1; subst. auto.
  Qed.

  Lemma insert_perm k v l : Permutation (insert_kv k v l) ((k, v) :: l).
  Proof.
    induction l as [|[k' v'] l IH]; simpl; auto.
    destruct (bytes_ltb k' k); auto.
    eapply perm_trans; [apply perm_skip, IH|apply perm_swap].
  Qed.

  Lemma sort_perm l : Permutation (sort_kvs l) l.
  Proof.
    induction l as [|[k v] l IH]; simpl; auto.
    eapply perm_trans; [apply insert_perm|]. now apply perm_skip.
  Qed.

  Lemma insert_sorted k v l :
    keys_sorted l = true -> ~ In k (map fst l) -> keys_sorted (insert_kv k v l) = true.
  Proof.
    induction l as [|[k' v'] l IH]; intros Hs Hn; [reflexivity|].
    cbn [insert_kv]. destruct (bytes_ltb k' k) eqn:E.
    - apply keys_sorted_cons in Hs. destruct Hs as [Hall Hs].
      apply keys_sorted_cons. split.
      + unfold lt_all. rewrite Forall_forall. intros kv Hin.
        apply (Permutation_in _ (insert_perm k v l)) in Hin. destruct Hin as [<-|Hin]; auto.
        unfold lt_all in Hall. rewrite Forall_forall in Hall. auto.
      + apply IH; auto. simpl in Hn. tauto.
    - apply keys_sorted_cons. split; auto.
      assert (Hk : bytes_ltb k k' = true).
      { destruct (bytes_ltb k k') eqn:E2; auto. exfalso. apply Hn. left. simpl.
        symmetry. now apply ltb_total. }
      constructor; auto. apply keys_sorted_cons in Hs. destruct Hs as [Hall _].
      eapply Forall_impl; [|exact Hall]. intros kv Hkv. eapply ltb_trans; eauto.
  Qed.

  Lemma sort_sorted l : NoDup (map fst l) -> keys_sorted (sort_kvs l) = true.
  Proof.
    induction l as [|[k v] l IH]; intros Hnd; [reflexivity|].
    simpl in Hnd. inversion Hnd; subst. simpl. apply insert_sorted; auto.
    intros Hin. apply H1. eapply Permutation_in; [|exact Hin].
    apply Permutation_map, sort_perm.
  Qed.

  Lemma sorted_perm_eq : forall l l', keys_sorted l = true -> keys_sorted l' = true ->
    Permutation l l' -> l = l'.
  Proof.
    induction l as [|[k v] l IH]; intros l' Hs Hs' Hp.
    - apply Permutation_nil in Hp. now subst.
    - destruct l' as [|[k' v'] l']; [apply Permutation_sym, Permutation_nil in Hp; discriminate|].
      apply keys_sorted_cons in Hs. apply keys_sorted_cons in Hs'.
      destruct Hs as [Ha Hs], Hs' as [Ha' Hs'].
      assert (E : (k, v) = (k', v')).
      { assert (H1 : In (k, v) ((k', v') :: l')) by (eapply Permutation_in; [exact Hp|now left]).
        assert (H2 : In (k', v') ((k, v) :: l)) by (eapply Permutation_in; [apply Permutation_sym; exact Hp|now left]).
        destruct H1 as [H1|H1]; auto. destruct H2 as [H2|H2]; auto.
        unfold lt_all in *. rewrite Forall_forall in Ha, Ha'.
        apply Ha' in H1. apply Ha in H2. simpl in *.
        apply ltb_asym in H1. congruence. }
      injection E as <- <-. f_equal. apply IH; auto. eapply Permutation_cons_inv; eauto.
  Qed.

  Theorem sort_perm_invariant l l' :
    NoDup (map fst l) -> Permutation l l' -> sort_kvs l = sort_kvs l'.
  Proof.
    intros Hnd Hp. apply sorted_perm_eq.
    - now apply sort_sorted.
    - apply sort_sorted. eapply Permutation_NoDup; [|exact Hnd]. now apply Permutation_map.
    - eapply perm_trans; [apply sort_perm|]. eapply perm_trans; [exact Hp|]. apply Permutation_sym, sort_perm.
  Qed.
End Sort.

(** * Python dicts: order of insertion is irrelevant *)
Lemma all_some_perm {A B} (f : A -> option B) l l' l1 :
  Permutation l l' -> all_some (map f l) = Some l1 ->
  exists l1', all_some (map f l') = Some l1' /\ Permutation l1 l1'.
Proof.
  intros Hp. revert l1. induction Hp as [|x l l' Hp IH|x y l|l l' l'' Hp1 IH1 Hp2 IH2]; intros l1 H.
  - simpl in *. injection H as <-. eauto.
  - simpl in *. destruct (f x) as [b|]; [|discriminate].
    destruct (all_some (map f l)) as [m|] eqn:E; [|discriminate]. simpl in H. injection H as <-.
    destruct (IH m eq_refl) as (m' & -> & Hm). simpl. eauto.
  - simpl in *. destruct (f y) as [b|]; [|discriminate]. destruct (f x) as [a|]; [|discriminate].
    destruct (all_some (map f l)) as [m|]; [|discriminate]. simpl in *. injection H as <-.
    eexists. split; [reflexivity|]. apply perm_swap.
  - destruct (IH1 _ H) as (m & Hm & P1). destruct (IH2 _ Hm) as (m' & Hm' & P2).
    exists m'. split; auto. eapply perm_trans; eauto.
Qed.

Lemma all_some_none_perm {A B} (f : A -> option B) l l' :
  Permutation l l' -> all_some (map f l) = None -> all_some (map f l') = None.
Proof.
  intros Hp H. destruct (all_some (map f l')) as [m|] eqn:E; auto.
  destruct (all_some_perm f l' l m (Permutation_sym Hp) E) as (m' & Hm & _). congruence.
Qed.

Lemma keys_homogeneous_spec {A} (kvs : list (pykey * A)) :
  keys_homogeneous kvs = true <->
  forall kv kv', In kv kvs -> In kv' kvs -> key_is_str (fst kv) = key_is_str (fst kv').
Proof.
  destruct kvs as [|[k v] r]; simpl.
  - split; auto. intros _ ? ? [].
  - rewrite forallb_forall. split.
    + intros H kv kv' [<-|H1] [<-|H2]; simpl; auto.
      * apply H in H2. apply eqb_prop in H2. auto.
      * apply H in H1. apply eqb_prop in H1. auto.
      * apply H in H1. apply H in H2. apply eqb_prop in H1. apply eqb_prop in H2. congruence.
    + intros H kv Hin. rewrite (H kv (k, v)); auto. apply eqb_reflx.
Qed.

Lemma keys_homogeneous_perm {A} (kvs kvs' : list (pykey * A)) :
  Permutation kvs kvs' -> keys_homogeneous kvs = keys_homogeneous kvs'.
Proof.
  intros Hp. apply eq_true_iff_eq. rewrite !keys_homogeneous_spec.
  split; intros H kv kv' H1 H2; apply H;
    first [eapply Permutation_in; [apply Permutation_sym; exact Hp|assumption] | eapply Permutation_in; [exact Hp|assumption]].
Qed.

Lemma all_some_fst {A B C} (f : A -> option (B * C)) (g : A -> B) l m :
  (forall a b, f a = Some b -> fst b = g a) ->
  all_some (map f l) = Some m -> map fst m = map g l.
Proof.
  intros Hf. revert m. induction l as [|a l IH]; intros m H; simpl in *.
  - injection H as <-. reflexivity.
  - destruct (f a) as [b|] eqn:E; [|discriminate].
    destruct (all_some (map f l)) as [m'|]; [|discriminate]. simpl in H. injection H as <-.
    simpl. f_equal; auto.
Qed.

Theorem abstract_dict_perm kvs kvs' :
  NoDup (map (fun kv => key_bytes (fst kv)) kvs) -> Permutation kvs kvs' ->
  abstract (PDict kvs) = abstract (PDict kvs').
Proof.
  intros Hnd Hp. cbn [abstract]. rewrite (keys_homogeneous_perm _ _ Hp).
  destruct (keys_homogeneous kvs'); auto.
  set (f := fun kv : pykey * pyval => let (k, v) := kv in option_map (pair (key_bytes k)) (abstract v)).
  destruct (all_some (map f kvs)) as [m|] eqn:E.
  - destruct (all_some_perm f kvs kvs' m Hp E) as (m' & -> & Hm). simpl. f_equal. f_equal.
    apply sort_perm_invariant; auto.
    rewrite (all_some_fst f (fun kv => key_bytes (fst kv)) kvs m); auto.
    intros [k v] b. unfold f. destruct (abstract v); simpl; [|discriminate]. now intros [= <-].
  - now rewrite (all_some_none_perm f kvs kvs' Hp E).
Qed.
