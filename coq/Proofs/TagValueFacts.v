(** Facts about Model/TagValue.v: display / re-parse round trip of tag values. *)
From Coq Require Import List NArith ZArith Ascii String Bool Permutation Lia.
From RV Require Import Base.Decimal Base.DecimalFacts Model.TagValue.
Import ListNotations.
Open Scope list_scope.

Definition jf3 : list N := [34; 91; 123]%N.
Definition inf3 : list infer_step := [TryInt; TryFloat; TryLiteral].

(** * What is assumed about CPython ([int], [float], [json]).  Every field is re-tested on
    the running interpreter by the check (harness/props/c34.py, "premise" obligations). *)
Record py_laws {F} (E : ext F) : Prop := {
  (* json.dumps of the three literals *)
  D_null : json_dumps E true JNull = u "null";
  D_true : json_dumps E true (JBool true) = u "true";
  D_false : json_dumps E true (JBool false) = u "false";
  (* json.dumps(int) is str(int), canonical decimal; int() reads it back *)
  D_int : forall z, json_dumps E true (JInt z) = dec_u z;
  I_dec : forall z, py_int E (dec_u z) = Some z;
  (* json.dumps(float) is float.__repr__ (or Infinity/-Infinity): not empty, does not start
     with a bracket or quote, int() rejects it, float() reads back the same float *)
  D_float : forall f, json_dumps E true (JFloat f) <> [] /\
                      first_in jf3 (json_dumps E true (JFloat f)) = false /\
                      py_int E (json_dumps E true (JFloat f)) = None /\
                      py_float E (json_dumps E true (JFloat f)) = Some f;
  (* first character of the JSON text of a str / list / dict *)
  D_str : forall s, exists r, json_dumps E true (JStr s) = 34%N :: r;
  D_list : forall l, exists r, json_dumps E true (JList l) = 91%N :: r;
  D_dict : forall kvs, exists r, json_dumps E true (JDict kvs) = 123%N :: r;
  (* int() and float() reject the words true / false / null *)
  I_lit : forall s l, lookup_lit lits3 s = Some l -> py_int E s = None /\ py_float E s = None;
  (* json.loads(json.dumps(v, sort_keys=True)) is v again, for str / list / dict values
     whose mappings have unique string keys *)
  J_rt : forall v, wf v -> json_routed v = true ->
                   exists v', json_loads E (json_dumps E true v) = Some v' /\ jeq v v'
}.

(** * Decimal text never starts with a bracket or a quote *)
Lemma dec_char_not_json c : is_dec_char c = true -> mem (N_of_ascii c) jf3 = false.
Proof.
  destruct c as [[] [] [] [] [] [] [] []]; vm_compute; intros; try reflexivity; discriminate.
Qed.

Lemma dec_u_shape z : exists c r, dec_u z = c :: r /\ mem c jf3 = false.
Proof.
  unfold dec_u. generalize (dec_of_Z_chars z) (dec_of_Z_nonempty z).
  destruct (dec_of_Z z) as [|c r]; [congruence|].
  intros H _. inversion H; subst. exists (N_of_ascii c), (map N_of_ascii r). split; [reflexivity|].
  now apply dec_char_not_json.
Qed.

Lemma ustr_eqb_refl s : ustr_eqb s s = true.
Proof. induction s; simpl; [reflexivity|]. now rewrite N.eqb_refl. Qed.

Lemma ustr_eqb_eq a b : ustr_eqb a b = true -> a = b.
Proof.
  revert b. induction a; destruct b; simpl; try discriminate; [reflexivity|].
  intros H. apply andb_true_iff in H as [H1 H2]. apply N.eqb_eq in H1. f_equal; auto.
Qed.

Lemma jeq_str_inv {F} s (v : jv F) : jeq (JStr s) v -> v = JStr s.
Proof. inversion 1; reflexivity. Qed.

Section Facts.
Context {F : Type}.
Variable E : ext F.

(** the type inference never turns a string into another string *)
Lemma infer_steps_str cfg steps s s' : infer_steps cfg E steps s = JStr s' -> s' = s.
Proof.
  induction steps as [|a steps IH]; simpl.
  - now intros [= ->].
  - destruct a.
    + destruct (py_int E s); [discriminate|exact IH].
    + destruct (py_float E s); [discriminate|exact IH].
    + destruct (lookup_lit (literals cfg) s) as [[]|]; try discriminate. exact IH.
Qed.

(** a configuration whose parser is the shipped one *)
Definition std_parse (cfg : tag_cfg) : Prop :=
  json_first cfg = jf3 /\ infer cfg = inf3 /\ literals cfg = lits3.

Lemma std_shipped : std_parse shipped. Proof. repeat split. Qed.
Lemma std_fixed : std_parse fixed. Proof. repeat split. Qed.

Lemma parse_infer cfg c r : std_parse cfg -> mem c jf3 = false ->
  parse_tag_value cfg E (c :: r) = POk (infer_steps cfg E inf3 (c :: r)).
Proof.
  intros (H1 & H2 & H3) Hc. unfold parse_tag_value. rewrite H1, H2. unfold first_in. now rewrite Hc.
Qed.

Lemma parse_json cfg c r : std_parse cfg -> mem c jf3 = true ->
  parse_tag_value cfg E (c :: r) =
  match json_loads E (c :: r) with Some v => POk v | None => PValueError end.
Proof.
  intros (H1 & H2 & H3) Hc. unfold parse_tag_value. rewrite H1. unfold first_in. now rewrite Hc.
Qed.

(** a string that parses to a string (outside the JSON route) parses to itself *)
Lemma parse_str_self cfg s s' : std_parse cfg -> first_in jf3 s = false ->
  parse_tag_value cfg E s = POk (JStr s') -> s' = s.
Proof.
  intros Hc Hf. destruct s as [|c r]; [discriminate|].
  simpl in Hf. rewrite (parse_infer cfg c r Hc Hf). intros H.
  assert (H' : infer_steps cfg E inf3 (c :: r) = JStr s') by congruence.
  exact (infer_steps_str cfg inf3 _ _ H').
Qed.

(** ** the JSON text of any JSON-compatible value parses back to it *)
Hypothesis L : py_laws E.

Lemma parse_dumps cfg v : std_parse cfg -> wf v ->
  exists v', parse_tag_value cfg E (json_dumps E true v) = POk v' /\ jeq v v'.
Proof.
  intros Hc Hwf.
  assert (Hrouted : forall c r, json_dumps E true v = c :: r -> mem c jf3 = true ->
                    json_routed v = true ->
                    exists v', parse_tag_value cfg E (json_dumps E true v) = POk v' /\ jeq v v').
  { intros c r Hd Hm Hr. destruct (J_rt E L v Hwf Hr) as (v' & Hl & Hj).
    exists v'. split; [|exact Hj]. rewrite Hd, (parse_json cfg c r Hc Hm), <- Hd, Hl. reflexivity. }
  assert (Hlitcase : forall s l, json_dumps E true v = s -> lookup_lit lits3 s = Some l ->
                     s <> [] -> first_in jf3 s = false ->
                     parse_tag_value cfg E (json_dumps E true v) = POk (lit_val l)).
  { intros s l Hd Hl Hne Hf. rewrite Hd. destruct s as [|c r]; [congruence|].
    simpl in Hf. rewrite (parse_infer cfg c r Hc Hf).
    destruct (I_lit E L _ _ Hl) as [Hi Hfl]. destruct Hc as (_ & _ & Hlits).
    simpl. now rewrite Hi, Hfl, Hlits, Hl. }
  destruct v as [|b|z|f|s|l|kvs].
  - exists JNull. split; [|constructor].
    apply (Hlitcase (u "null") LNone); [apply (D_null E L)|reflexivity|discriminate|reflexivity].
  - exists (JBool b). split; [|constructor]. destruct b.
    + apply (Hlitcase (u "true") LTrue); [apply (D_true E L)|reflexivity|discriminate|reflexivity].
    + apply (Hlitcase (u "false") LFalse); [apply (D_false E L)|reflexivity|discriminate|reflexivity].
  - exists (JInt z). split; [|constructor]. rewrite (D_int E L).
    destruct (dec_u_shape z) as (c & r & Hd & Hm). rewrite Hd, (parse_infer cfg c r Hc Hm), <- Hd.
    simpl. now rewrite (I_dec E L).
  - exists (JFloat f). split; [|constructor].
    destruct (D_float E L f) as (Hne & Hf & Hi & Hfl).
    destruct (json_dumps E true (JFloat f)) as [|c r] eqn:Hd; [congruence|].
    simpl in Hf. rewrite (parse_infer cfg c r Hc Hf). simpl. now rewrite Hi, Hfl.
  - destruct (D_str E L s) as (r & Hd). now apply (Hrouted _ _ Hd).
  - destruct (D_list E L l) as (r & Hd). now apply (Hrouted _ _ Hd).
  - destruct (D_dict E L kvs) as (r & Hd). now apply (Hrouted _ _ Hd).
Qed.

End Facts.

(** * Unfolding equations for the two guards *)
Section Unfold.
Context {F : Type}.
Variable E : ext F.

Lemma format_shipped_str s :
  format_tag_value shipped E (JStr s) =
  if has_sep [32; 44]%N s then FOk (json_dumps E true (JStr s))
  else match parse_tag_value shipped E s with
       | POk v => if is_str v then FOk s else FOk (json_dumps E true (JStr s))
       | PValueError => FValueError
       end.
Proof.
  unfold format_tag_value. cbn [str_guards shipped eval_guards eval_guard sort_keys].
  destruct (has_sep [32; 44]%N s); cbn [negb of_bool]; [reflexivity|].
  destruct (parse_tag_value shipped E s) as [v|]; [|reflexivity].
  destruct (is_str v); reflexivity.
Qed.

Lemma format_fixed_str s :
  format_tag_value fixed E (JStr s) =
  if has_sep [32; 44]%N s then FOk (json_dumps E true (JStr s))
  else if first_in jf3 s then FOk (json_dumps E true (JStr s))
  else match parse_tag_value fixed E s with
       | POk v => if is_str v then FOk s else FOk (json_dumps E true (JStr s))
       | PValueError => FValueError
       end.
Proof.
  unfold format_tag_value. cbn [str_guards fixed eval_guards eval_guard sort_keys].
  destruct (has_sep [32; 44]%N s); cbn [negb of_bool]; [reflexivity|].
  change [34; 91; 123]%N with jf3.
  destruct (first_in jf3 s); cbn [negb of_bool]; [reflexivity|].
  destruct (parse_tag_value fixed E s) as [v|]; [|reflexivity].
  destruct (is_str v); reflexivity.
Qed.

Lemma format_nonstr cfg v : is_str v = false -> sort_keys cfg = true ->
  format_tag_value cfg E v = FOk (json_dumps E true v).
Proof. intros H1 H2. destruct v; try discriminate; unfold format_tag_value; now rewrite H2. Qed.

(** outside the JSON route the parser cannot fail *)
Lemma parse_no_error cfg s : std_parse cfg -> first_in jf3 s = false ->
  parse_tag_value cfg E s <> PValueError.
Proof.
  intros Hc Hf. destruct s as [|c r]; [discriminate|]. unfold first_in in Hf.
  rewrite (parse_infer E cfg c r Hc Hf). discriminate.
Qed.

End Unfold.

(** * The repaired variant *)
Section Fixed.
Context {F : Type}.
Variable E : ext F.

(** the repaired [format_tag_value] never raises; no assumption on CPython is needed *)
Theorem format_total_fixed v : exists t, format_tag_value fixed E v = FOk t.
Proof.
  destruct (is_str v) eqn:Hs.
  - destruct v; try discriminate. rewrite format_fixed_str.
    destruct (has_sep _ s); [eexists; reflexivity|].
    destruct (first_in jf3 s) eqn:Hf; [eexists; reflexivity|].
    generalize (parse_no_error E fixed s std_fixed Hf).
    destruct (parse_tag_value fixed E s) as [v|]; [|congruence].
    intros _. destruct (is_str v); eexists; reflexivity.
  - rewrite (format_nonstr E fixed v Hs eq_refl). eexists; reflexivity.
Qed.

Hypothesis L : py_laws E.

Theorem roundtrip_fixed v : wf v ->
  exists t v', format_tag_value fixed E v = FOk t /\ parse_tag_value fixed E t = POk v' /\ jeq v v'.
Proof.
  intros Hwf.
  assert (Hd : exists t v', FOk (json_dumps E true v) = FOk t /\
                            parse_tag_value fixed E t = POk v' /\ jeq v v').
  { destruct (parse_dumps E L fixed v std_fixed Hwf) as (v' & Hp & Hj).
    exists (json_dumps E true v), v'. repeat split; assumption. }
  destruct (is_str v) eqn:Hs; [|now rewrite (format_nonstr E fixed v Hs eq_refl)].
  destruct v; try discriminate. rewrite format_fixed_str.
  destruct (has_sep _ s); [exact Hd|].
  destruct (first_in jf3 s) eqn:Hf; [exact Hd|].
  generalize (parse_no_error E fixed s std_fixed Hf).
  destruct (parse_tag_value fixed E s) as [v|] eqn:Hp; [|congruence].
  intros _. destruct v; cbn [is_str]; try exact Hd.
  assert (s0 = s) by exact (parse_str_self E fixed _ _ std_fixed Hf Hp). subst s0.
  exists s, (JStr s). repeat split; [exact Hp|constructor].
Qed.

(** strings that look like numbers, literals or JSON stay strings: exact equality *)
Theorem strings_stay_strings_fixed s :
  exists t, format_tag_value fixed E (JStr s) = FOk t /\ parse_tag_value fixed E t = POk (JStr s).
Proof.
  destruct (roundtrip_fixed (JStr s) I) as (t & v' & H1 & H2 & H3).
  apply jeq_str_inv in H3. subst v'. now exists t.
Qed.

(** scalars come back exactly, with their type *)
Theorem scalars_exact_fixed v : json_routed v = false ->
  exists t, format_tag_value fixed E v = FOk t /\ parse_tag_value fixed E t = POk v.
Proof.
  intros Hs. assert (Hwf : wf v) by (destruct v; try discriminate; exact I).
  destruct (roundtrip_fixed v Hwf) as (t & v' & H1 & H2 & H3).
  exists t. split; [exact H1|]. destruct v; try discriminate; inversion H3; subst; exact H2.
Qed.

End Fixed.

(** * As shipped *)
Section Shipped.
Context {F : Type}.
Variable E : ext F.

(** the strings the shipped guard gets wrong: they would go to json.loads (first
    character), pass the regex test, and json.loads either rejects them or returns a str *)
Definition shipped_bad (s : ustr) : Prop :=
  first_in jf3 s = true /\ has_sep [32; 44]%N s = false /\
  match json_loads E s with None => True | Some (JStr _) => True | Some _ => False end.

(** what happens on them: the formatter raises, or shows the text bare and it reads back
    as the *decoded* JSON string *)
Theorem shipped_bad_outcome s : shipped_bad s ->
  (json_loads E s = None /\ format_tag_value shipped E (JStr s) = FValueError) \/
  (exists s', json_loads E s = Some (JStr s') /\ format_tag_value shipped E (JStr s) = FOk s /\
              parse_tag_value shipped E s = POk (JStr s')).
Proof.
  intros (Hf & Hsep & Hl). destruct s as [|c r]; [discriminate|]. unfold first_in in Hf.
  rewrite format_shipped_str, Hsep, (parse_json E shipped c r std_shipped Hf).
  destruct (json_loads E (c :: r)) as [v|] eqn:Hj.
  - destruct v; try contradiction. right. exists s. repeat split; reflexivity.
  - left. split; reflexivity.
Qed.

Theorem format_raises_shipped :
  json_loads E (u "[abc") = None ->
  exists v, wf v /\ format_tag_value shipped E v = FValueError.
Proof.
  intros H. exists (JStr (u "[abc")). split; [exact I|].
  destruct (shipped_bad_outcome (u "[abc")) as [[_ H1]|(s' & H1 & _)].
  - repeat split. now rewrite H.
  - exact H1.
  - congruence.
Qed.

Theorem roundtrip_refuted_shipped :
  json_loads E (u """abc""") = Some (JStr (u "abc")) ->
  exists v t v', wf v /\ format_tag_value shipped E v = FOk t /\
                 parse_tag_value shipped E t = POk v' /\ ~ jeq v v'.
Proof.
  intros H. exists (JStr (u """abc""")), (u """abc"""), (JStr (u "abc")).
  destruct (shipped_bad_outcome (u """abc""")) as [[H1 _]|(s' & H1 & H2 & H3)].
  - repeat split. now rewrite H.
  - congruence.
  - rewrite H in H1. injection H1 as <-. repeat split; try assumption.
    intros Hj. apply jeq_str_inv in Hj. discriminate.
Qed.

Hypothesis L : py_laws E.

(** everything else round-trips as shipped *)
Theorem roundtrip_shipped_partial v : wf v ->
  (forall s, v = JStr s -> ~ shipped_bad s) ->
  exists t v', format_tag_value shipped E v = FOk t /\ parse_tag_value shipped E t = POk v' /\ jeq v v'.
Proof.
  intros Hwf Hgood.
  assert (Hd : exists t v', FOk (json_dumps E true v) = FOk t /\
                            parse_tag_value shipped E t = POk v' /\ jeq v v').
  { destruct (parse_dumps E L shipped v std_shipped Hwf) as (v' & Hp & Hj).
    exists (json_dumps E true v), v'. repeat split; assumption. }
  destruct (is_str v) eqn:Hs; [|now rewrite (format_nonstr E shipped v Hs eq_refl)].
  destruct v; try discriminate. specialize (Hgood s eq_refl).
  rewrite format_shipped_str.
  destruct (has_sep _ s) eqn:Hsep; [exact Hd|].
  destruct (first_in jf3 s) eqn:Hf.
  - destruct s as [|c r]; [discriminate|]. unfold first_in in Hf.
    rewrite (parse_json E shipped c r std_shipped Hf).
    destruct (json_loads E (c :: r)) as [v|] eqn:Hj.
    + destruct v; cbn [is_str]; try exact Hd.
      exfalso. apply Hgood. repeat split; try assumption. now rewrite Hj.
    + exfalso. apply Hgood. repeat split; try assumption. now rewrite Hj.
  - generalize (parse_no_error E shipped s std_shipped Hf).
    destruct (parse_tag_value shipped E s) as [v|] eqn:Hp; [|congruence].
    intros _. destruct v; cbn [is_str]; try exact Hd.
    assert (s0 = s) by exact (parse_str_self E shipped _ _ std_shipped Hf Hp). subst s0.
    exists s, (JStr s). repeat split; [exact Hp|constructor].
Qed.

End Shipped.
