(** Witnesses: the Handle fork key as shipped depends on (1) whether a job waited for limits and
    (2) the order in which sibling jobs reach `_exec_job_main_thread`.  (1) disappears when
    `_preprocess_args` runs once per job; (2) does not. *)
From Coq Require Import List ZArith Bool Arith Lia.
From RV Require Import Model.Timing Proofs.TimingBase Proofs.TimingStep.
Import ListNotations.
Open Scope list_scope.

(** ** (1) limits.  main() = [block(), use(H("h0"))], both tasks limited by the same resource.
    Every Handle state is passed to ONE call only. *)
Definition W1 : list texpr := [TL [TCall 1 []; TCall 2 [TH 0]]; TC (VInt 7); TC (VInt 8)].
(* limit 2: both run at once *)
Definition W1_unlimited : list op :=
  [OEnter 0 DStart; ODone 0; OEnter 1 DStart; OEnter 2 DStart; ODone 1; ODone 2; OResolve 1; OResolve 2; OResolve 0].
(* limit 1: `use` finds the resource taken, waits, and is re-nominated when `block` is done *)
Definition W1_serial : list op :=
  [OEnter 0 DStart; ODone 0; OEnter 1 DStart; OEnter 2 DWait; ODone 1; OEnter 2 DStart; OResolve 1; ODone 2;
   OResolve 2; OResolve 0].

(** the shape of notes/experiments/e7.py: main() = [use(h, 1), use(h, 2)] *)
Definition W1b : list texpr := [TL [TCall 1 [TH 0; TC (VInt 1)]; TCall 1 [TH 0; TC (VInt 2)]]; TP 1].

(** ** (2) sibling order (notes/experiments/e23.py): main() = [use(h, arg_a()), use(h, arg_b())] *)
Definition W2 : list texpr :=
  [TL [TCall 1 [TH 0; TCall 2 []]; TCall 1 [TH 0; TCall 3 []]]; TP 1; TC (VInt 1); TC (VInt 2)].
(* jobs: 0 main, 1 use(h, arg_a()), 2 arg_a(), 3 use(h, arg_b()), 4 arg_b() *)
Definition W2_a_first : list op :=
  [OEnter 0 DStart; ODone 0; OEnter 2 DStart; OEnter 4 DStart; ODone 2; OResolve 2; OEnter 1 DStart;
   ODone 4; OResolve 4; OEnter 3 DStart; ODone 1; OResolve 1; ODone 3; OResolve 3; OResolve 0].
Definition W2_b_first : list op :=
  [OEnter 0 DStart; ODone 0; OEnter 2 DStart; OEnter 4 DStart; ODone 4; OResolve 4; OEnter 3 DStart;
   ODone 2; OResolve 2; OEnter 1 DStart; ODone 3; OResolve 3; ODone 1; OResolve 1; OResolve 0].

Definition differ (c : cfg) (prog : list texpr) (ops1 ops2 : list op) : Prop :=
  exists s1 s2 r1 n1 r2 n2,
    run c (tbody prog) (init 0 []) ops1 = Some s1 /\ outcome s1 = Some (r1, n1) /\
    run c (tbody prog) (init 0 []) ops2 = Some s2 /\ outcome s2 = Some (r2, n2) /\
    n1 <> n2 /\ same_nodes (recorded s1) (recorded s2) = false.

Definition agree (c : cfg) (prog : list texpr) (ops1 ops2 : list op) : Prop :=
  exists s1 s2 r n,
    run c (tbody prog) (init 0 []) ops1 = Some s1 /\ outcome s1 = Some (r, n) /\
    run c (tbody prog) (init 0 []) ops2 = Some s2 /\ outcome s2 = Some (r, n) /\
    same_nodes (recorded s1) (recorded s2) = true.

Ltac show_differ :=
  unfold differ;
  match goal with
  | |- exists s1 s2 r1 n1 r2 n2, run ?c ?b ?i ?o1 = _ /\ _ /\ run _ _ _ ?o2 = _ /\ _ =>
      let x1 := eval vm_compute in (run c b i o1) in
      let x2 := eval vm_compute in (run c b i o2) in
      match x1 with Some ?s1 => match x2 with Some ?s2 =>
        let y1 := eval vm_compute in (outcome s1) in
        let y2 := eval vm_compute in (outcome s2) in
        match y1 with Some (?r1, ?n1) => match y2 with Some (?r2, ?n2) =>
          exists s1, s2, r1, n1, r2, n2;
          split; [vm_compute; reflexivity|]; split; [vm_compute; reflexivity|];
          split; [vm_compute; reflexivity|]; split; [vm_compute; reflexivity|];
          split; [let E := fresh "E" in
                  intro E; apply (f_equal (fun n => cnode_eqb n n2)) in E; vm_compute in E; discriminate E
                 | vm_compute; reflexivity]
        end end
      end end
  end.

Ltac show_agree :=
  unfold agree;
  match goal with
  | |- exists s1 s2 r n, run ?c ?b ?i ?o1 = _ /\ _ /\ run _ _ _ ?o2 = _ /\ _ =>
      let x1 := eval vm_compute in (run c b i o1) in
      let x2 := eval vm_compute in (run c b i o2) in
      match x1 with Some ?s1 => match x2 with Some ?s2 =>
        let y1 := eval vm_compute in (outcome s1) in
        match y1 with Some (?r1, ?n1) =>
          exists s1, s2, r1, n1; repeat split; vm_compute; reflexivity
        end
      end end
  end.

Lemma W1_shipped_differs : differ shipped W1 W1_unlimited W1_serial.
Proof. show_differ. Qed.

Lemma W1_fixed_agrees : agree fixed W1 W1_unlimited W1_serial.
Proof. show_agree. Qed.

Lemma W1b_shipped_differs : differ shipped W1b W1_unlimited W1_serial.
Proof. show_differ. Qed.

Lemma W1b_fixed_agrees : agree fixed W1b W1_unlimited W1_serial.
Proof. show_agree. Qed.

Lemma W2_shipped_differs : differ shipped W2 W2_a_first W2_b_first.
Proof. show_differ. Qed.

Lemma W2_fixed_differs : differ fixed W2 W2_a_first W2_b_first.
Proof. show_differ. Qed.

(** ** (3) one fork counter per EXECUTION instead of one per parent job (seeded change C07c).
    main() = [P(), Q()],  P() = [use(H("h0"))],  Q() = [use(H("h0")), 0]: two parents each pass their own fresh,
    un-keyed H("h0") — the same Handle state — to one child.  Every Handle state is passed to one call per
    parent.  With one counter per parent both forks are first forks; with one counter per execution the
    parent that finishes first gives its child key 1, the other key 2. *)
Definition W4 : list texpr :=
  [TL [TCall 1 []; TCall 2 []]; TL [TCall 3 [TH 0]]; TL [TCall 3 [TH 0]; TC (VInt 0)]; TC (VInt 8)].
(* P completes first: job 3 = use under P, job 4 = use under Q *)
Definition W4_p_first : list op :=
  [OEnter 0 DStart; ODone 0; OEnter 1 DStart; OEnter 2 DStart; ODone 1; OEnter 3 DStart; ODone 2; OEnter 4 DStart;
   ODone 3; ODone 4; OResolve 3; OResolve 4; OResolve 1; OResolve 2; OResolve 0].
(* Q completes first: job 3 = use under Q, job 4 = use under P *)
Definition W4_q_first : list op :=
  [OEnter 0 DStart; ODone 0; OEnter 1 DStart; OEnter 2 DStart; ODone 2; OEnter 3 DStart; ODone 1; OEnter 4 DStart;
   ODone 3; ODone 4; OResolve 3; OResolve 4; OResolve 1; OResolve 2; OResolve 0].

Lemma W4_per_execution_differs : differ per_execution W4 W4_p_first W4_q_first.
Proof. show_differ. Qed.

Lemma W4_per_parent_agrees : agree fixed W4 W4_p_first W4_q_first.
Proof. show_agree. Qed.

(** both executions satisfy the premise of the theorem for the per-parent counter *)
Lemma W4_linear :
  (exists s, run per_execution (tbody W4) (init 0 []) W4_p_first = Some s /\ linear_b s = true) /\
  (exists s, run per_execution (tbody W4) (init 0 []) W4_q_first = Some s /\ linear_b s = true).
Proof.
  split.
  - destruct (run per_execution (tbody W4) (init 0 []) W4_p_first) as [s|] eqn:R; [|vm_compute in R; discriminate].
    exists s. split; auto. assert (E : Some s = run per_execution (tbody W4) (init 0 []) W4_p_first) by (symmetry; exact R).
    vm_compute in E. injection E as ->. vm_compute. reflexivity.
  - destruct (run per_execution (tbody W4) (init 0 []) W4_q_first) as [s|] eqn:R; [|vm_compute in R; discriminate].
    exists s. split; auto. assert (E : Some s = run per_execution (tbody W4) (init 0 []) W4_q_first) by (symmetry; exact R).
    vm_compute in E. injection E as ->. vm_compute. reflexivity.
Qed.

(** the fork keys behind the difference *)
Example W1_keys :
  option_map (fun s => map job_pre s) (run shipped (tbody W1) (init 0 []) W1_serial)
  = Some [[]; []; [VHFork (VHInit 0) 2]] /\
  option_map (fun s => map job_pre s) (run shipped (tbody W1) (init 0 []) W1_unlimited)
  = Some [[]; []; [VHFork (VHInit 0) 1]].
Proof. split; vm_compute; reflexivity. Qed.

(** ** With `_preprocess_args` once per job, a re-entry changes nothing but the job's status tag. *)
Lemma once_per_job_reentry_inert c body s j d s' jb raw pre :
  pre_every_entry c = false ->
  get s j = Some jb -> j_st jb = SWait raw pre ->
  step c body s (OEnter j d) = Some s' ->
  (forall k, k <> j -> get s' k = get s k) /\
  exists st', get s' j = Some (with_st jb st') /\ st_raw st' = Some raw /\ st_pre st' = Some pre.
Proof.
  intros PE G S St. simpl in St. unfold get in G. rewrite G, S, PE in St.
  apply decide_spec in St as (st' & -> & En). split.
  - intros k N. now apply get_set_st_other.
  - exists st'. split; [now apply get_set_st_same|].
    destruct En as [->|[->|(k' & -> & _)]]; auto.
Qed.
