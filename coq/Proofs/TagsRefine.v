(** C24: the current tags refine the key-value model, for every history (no bound). *)
From Coq Require Import List Arith Bool PeanoNat Lia.
From RV Require Import Model.Tags Proofs.TagsBase Proofs.TagsInv Proofs.TagsFull Proofs.TagsSweep.
Import ListNotations.
Open Scope list_scope.

Lemma content_dec (a b : content) : {a = b} + {a <> b}.
Proof. repeat decide equality. Qed.

Definition Good (s : state) : Prop := LI s /\ FI s.

(** some current row carries content [c] *)
Definition curc (s : state) (c : content) : Prop :=
  exists i r, nth_error (rows s) i = Some r /\ r_cur r = true /\ r_c r = c.

(** [s'] extends [s], edits only grow, and no further row of [s'] is superseded *)
Definition R (s s' : state) : Prop :=
  ext s s' /\ incl (edits s) (edits s') /\ (forall p, superseded s' p = true -> superseded s p = true).

Lemma R_refl s : R s s.
Proof. split; [apply ext_refl|]. split; [apply incl_refl|auto]. Qed.

Lemma R_trans a b c : R a b -> R b c -> R a c.
Proof.
  intros [E1 [I1 S1]] [E2 [I2 S2]]. split; [eapply ext_trans; eassumption|].
  split; [eapply incl_tran; eassumption|auto].
Qed.

Lemma superseded_mono s s' p : incl (edits s) (edits s') -> superseded s p = true -> superseded s' p = true.
Proof. intros I H. apply superseded_spec in H. destruct H as [c H]. apply superseded_spec. exists c. now apply I. Qed.

Lemma superseded_lt s p : LI s -> superseded s p = true -> p < length (rows s).
Proof.
  intros [W E] H. apply superseded_spec in H. destruct H as [c H]. destruct (E _ _ H) as [r [H1 H2]].
  assert (X := W _ _ H1). rewrite Forall_forall in X. apply X in H2.
  assert (c < length (rows s)) by (apply nth_error_Some; congruence). lia.
Qed.

(* ------------------------------------------------------------------ commit_batch, in general *)
Lemma cb_idx_content s cs ps c : In c cs ->
  exists r, nth_error (cb_rows1 s cs ps) (cb_idx s cs ps c) = Some r /\ r_c r = c /\ r_par r = ps.
Proof.
  intros Hc. destruct (cb_idx_found s cs ps c Hc) as [j Hj]. unfold cb_idx. rewrite Hj.
  apply find_from_Some in Hj. destruct Hj as [n [r [-> [H1 [H2 H3]]]]]. simpl. eauto.
Qed.

Lemma NoDup_app_intro' {A} (l l' : list A) :
  NoDup l -> NoDup l' -> (forall x, In x l -> In x l' -> False) -> NoDup (l ++ l').
Proof.
  intros H1 H2 H3. induction H1 as [|a l Hn Hd IH]; simpl; [assumption|].
  constructor.
  - intros H. apply in_app_or in H. destruct H as [H|H]; [contradiction|]. apply (H3 a); [now left|assumption].
  - apply IH. intros x Hx. apply H3. now right.
Qed.

Lemma NoDup_map_pair (q : nat) (ps : list nat) : NoDup ps -> NoDup (map (fun p => (p, q)) ps).
Proof.
  induction 1 as [|a l Hn Hd IH]; simpl; constructor; [|assumption].
  intros H. apply in_map_iff in H. destruct H as [x [[= ->] Hx]]. contradiction.
Qed.

Lemma NoDup_wanted {A} (f : A -> nat) (ps : list nat) (cs : list A) :
  NoDup cs -> NoDup ps -> (forall a b, In a cs -> In b cs -> f a = f b -> a = b) ->
  NoDup (flat_map (fun c => map (fun p => (p, f c)) ps) cs).
Proof.
  intros Hc Hp Hinj. induction Hc as [|a cs Hn Hd IH]; simpl; [constructor|].
  apply NoDup_app_intro'.
  - now apply NoDup_map_pair.
  - apply IH. intros x y Hx Hy. apply Hinj; now right.
  - intros [p q] H1 H2. apply in_map_iff in H1. destruct H1 as [p0 [[= -> <-] _]].
    apply in_flat_map in H2. destruct H2 as [b [Hb H2]]. apply in_map_iff in H2.
    destruct H2 as [p1 [[= _ E] _]]. apply Hn. rewrite (Hinj a b); [assumption|now left|now right|congruence].
Qed.

Lemma commit_batch_cases3 s cs ps : NoDup cs -> NoDup ps ->
  (commit_batch s cs ps = Done s /\ cb_new_cs s cs ps = [] /\ cb_new_es s cs ps = []) \/
  (commit_batch s cs ps = Done (cb_state s cs ps) /\ NoDup (cb_new_cs s cs ps) /\ cs <> []).
Proof.
  intros Hc Hp. rewrite commit_batch_unfold.
  assert (NoDup (cb_new_cs s cs ps)) as N1 by (apply NoDup_filter; assumption).
  assert (NoDup (cb_new_es s cs ps)) as N2.
  { unfold cb_new_es. apply NoDup_filter. apply NoDup_wanted; try assumption.
    intros a b Ha Hb E. destruct (cb_idx_content s cs ps a Ha) as [r [H1 [H2 _]]].
    destruct (cb_idx_content s cs ps b Hb) as [r' [H1' [H2' _]]]. rewrite E in H1. congruence. }
  apply (has_dup_false_NoDup content_eqb _ content_eqb_eq) in N1 as D1. rewrite D1.
  apply (has_dup_false_NoDup edit_eqb _ edit_eqb_eq) in N2 as D2. rewrite D2.
  destruct (cb_new_cs s cs ps) eqn:E2, (cb_new_es s cs ps) eqn:E3; [left; tauto| | |];
    right; (split; [reflexivity|]); (split; [assumption|]);
    intros ->; unfold cb_new_cs, cb_new_es in *; simpl in *; discriminate.
Qed.

(** the parents of an existing row are not current, so a batch whose parents are current is new *)
Lemma fresh s c ps : Good s -> ps <> [] ->
  (forall p, In p ps -> exists r, nth_error (rows s) p = Some r /\ r_cur r = true) ->
  find_id s c ps = None.
Proof.
  intros [[W E] [E' C]] Hne Hcur. destruct (find_id s c ps) as [j|] eqn:Ej; [|reflexivity]. exfalso.
  unfold find_id in Ej. apply find_from_Some in Ej. destruct Ej as [n [r [-> [Hn [_ Hp]]]]]. simpl in *.
  destruct ps as [|p ps]; [congruence|]. destruct (Hcur p ltac:(now left)) as [rp [H1 H2]].
  assert (In (p, n) (edits s)) as He. { eapply E'; [eassumption|]. rewrite Hp. now left. }
  assert (superseded s p = true) as Hs by (apply superseded_spec; eauto).
  apply (C p rp H1) in Hs. congruence.
Qed.

Lemma cb_state_curc s cs ps : valid_parents s ps -> forall c',
  curc (cb_state s cs ps) c' <->
  (exists i r, nth_error (rows s) i = Some r /\ r_cur r = true /\ r_c r = c' /\ ~ In i ps) \/
  In c' (cb_new_cs s cs ps).
Proof.
  intros V c'. unfold valid_parents in V. rewrite Forall_forall in V. unfold curc. simpl. split.
  - intros [i [r [H [Hc Hcc]]]]. apply inval_nth_inv in H. destruct H as [r0 [H [Hc0 [_ Hcur]]]].
    simpl in Hcur. rewrite Hcur in Hc. apply andb_true_iff in Hc. destruct Hc as [Hc1 Hc2].
    apply negb_true_iff in Hc2. apply mem_false in Hc2.
    apply cb_rows1_nth in H. destruct H as [H|[L [c [Hin ->]]]].
    + left. exists i, r0. repeat split; try assumption. congruence.
    + right. simpl in Hc0. congruence.
  - intros [[i [r [H [Hc [Hcc Hni]]]]]|Hin].
    + exists i. rewrite inval_from_nth. unfold cb_rows1. rewrite nth_error_app1 by (apply nth_error_Some; congruence).
      rewrite H. simpl. apply mem_false in Hni. rewrite Hni. exists r. auto.
    + apply In_nth_error in Hin. destruct Hin as [m Hm].
      exists (length (rows s) + m). rewrite inval_from_nth. unfold cb_rows1.
      rewrite nth_error_app2 by lia. replace (length (rows s) + m - length (rows s)) with m by lia.
      rewrite nth_error_map, Hm. simpl.
      assert (mem (length (rows s) + m) ps = false) as ->.
      { apply mem_false. intros Hi. apply V in Hi. lia. }
      eexists. split; [reflexivity|]. simpl. auto.
Qed.

Lemma cb_state_R s cs ps :
  (forall p, In p ps -> superseded s p = true) -> R s (cb_state s cs ps).
Proof.
  intros Hs. split; [apply cb_state_ext|]. split; [simpl; apply incl_appl, incl_refl|].
  intros p H. apply superseded_spec in H. destruct H as [c H]. simpl in H. apply in_app_or in H.
  destruct H as [H|H]; [apply superseded_spec; eauto|]. apply new_es_in in H. now apply Hs.
Qed.

Lemma Good_cb_state s cs ps :
  Good s -> valid_parents s ps -> NoDup (cb_new_cs s cs ps) -> cs <> [] -> Good (cb_state s cs ps).
Proof. intros [HL HF] V N C. split; [now apply cb_state_LI|now apply cb_state_FI]. Qed.

(** a current row is not superseded, a superseded one is not current *)
Lemma sup_not_cur s i r : Good s -> nth_error (rows s) i = Some r -> superseded s i = true -> r_cur r = false.
Proof. intros [_ [_ C]] H Hs. now apply (C i r H). Qed.
Lemma notsup_cur s i r : Good s -> nth_error (rows s) i = Some r -> superseded s i = false -> r_cur r = true.
Proof.
  intros [_ [_ C]] H Hs. destruct (r_cur r) eqn:E; [reflexivity|]. apply (C i r H) in E. congruence.
Qed.

(** (A) a batch whose parents are all superseded already, and whose existing candidates are not
    superseded: afterwards exactly the old current contents plus the batch are current *)
Lemma commit_batch_A s cs ps :
  Good s -> valid_parents s ps -> NoDup cs -> NoDup ps ->
  (forall p, In p ps -> superseded s p = true) ->
  (forall c j, In c cs -> find_id s c ps = Some j -> superseded s j = false) ->
  match commit_batch s cs ps with
  | Done s' => Good s' /\ R s s' /\ (forall c', curc s' c' <-> curc s c' \/ In c' cs)
  | _ => False
  end.
Proof.
  intros HG V Nc Np Hsup Hex.
  assert (forall c, In c cs -> ~ In c (cb_new_cs s cs ps) -> curc s c) as Hold.
  { intros c Hc Hn. unfold cb_new_cs in Hn. rewrite filter_In in Hn.
    destruct (exists_row s c ps) eqn:Ee; [|exfalso; apply Hn; auto].
    unfold exists_row in Ee. destruct (find_id s c ps) as [j|] eqn:Ej; [|discriminate].
    assert (Hj := Hex c j Hc Ej). unfold find_id in Ej. apply find_from_Some in Ej.
    destruct Ej as [n [r [-> [Hn' [Hcc _]]]]]. simpl in *. exists n, r. split; [assumption|]. split; [|assumption].
    eapply notsup_cur; eassumption. }
  destruct (commit_batch_cases3 s cs ps Nc Np) as [[-> [E1 E2]]|[-> [N1 Hne]]].
  - split; [assumption|]. split; [apply R_refl|]. intros c'. split; [tauto|]. intros [H|H]; [assumption|].
    apply Hold; [assumption|]. rewrite E1. intros [].
  - split; [now apply Good_cb_state|]. split; [now apply cb_state_R|].
    intros c'. rewrite (cb_state_curc s cs ps V). split.
    + intros [[i [r [H [Hc [Hcc _]]]]]|H]; [left; exists i, r; auto|].
      right. unfold cb_new_cs in H. apply filter_In in H. tauto.
    + intros [[i [r [H [Hc Hcc]]]]|H].
      * left. exists i, r. repeat split; try assumption. intros Hi. apply Hsup in Hi.
        rewrite (sup_not_cur s i r HG H Hi) in Hc. discriminate.
      * destruct (in_dec content_dec c' (cb_new_cs s cs ps)) as [Hin|Hnin]; [now right|].
        left. destruct (Hold c' H Hnin) as [i [r [H1 [H2 H3]]]]. exists i, r. repeat split; try assumption.
        intros Hi. apply Hsup in Hi. rewrite (sup_not_cur s i r HG H1 Hi) in H2. discriminate.
Qed.

(* ------------------------------------------------------------------ the superseded walk *)
Lemma find_from_first i c ps l j : find_from i c ps l = Some j ->
  forall n r, nth_error l n = Some r -> r_c r = c -> r_par r = ps -> j <= i + n.
Proof.
  revert i. induction l as [|r0 l IH]; intros i; simpl; [discriminate|].
  destruct (row_is c ps r0) eqn:E.
  - intros [= <-] n r _ _ _. lia.
  - intros H [|n] r Hn Hc Hp; simpl in Hn.
    + injection Hn as ->. assert (row_is c ps r = true) by (apply row_is_spec; tauto). congruence.
    + specialize (IH (S i) H n r Hn Hc Hp). lia.
Qed.

Lemma find_id_exists s c ps n r :
  nth_error (rows s) n = Some r -> r_c r = c -> r_par r = ps -> exists j, find_id s c ps = Some j /\ j <= n.
Proof.
  intros Hn Hc Hp. unfold find_id. destruct (find_from 0 c ps (rows s)) as [j|] eqn:E.
  - exists j. split; [reflexivity|]. apply (find_from_first 0 c ps (rows s) j E n r Hn Hc Hp).
  - exfalso. rewrite find_from_None in E. apply (E r); [eapply nth_error_In; eassumption|tauto].
Qed.

Lemma rt_tags_In g tags c : In c (rt_tags g tags) <-> In c tags.
Proof.
  unfold rt_tags. destruct (dedupe g); [|tauto]. unfold nodupc.
  destruct (nodupc_acc_spec [] tags) as [_ H]. rewrite H. simpl. tauto.
Qed.

Lemma rt_tags_NoDup g tags : dedupe g = true \/ NoDup tags -> NoDup (rt_tags g tags).
Proof.
  unfold rt_tags. destruct (dedupe g); intros [H|H]; try discriminate; try assumption;
    destruct (nodupc_acc_spec [] tags) as [X _]; exact X.
Qed.

Lemma current_elsewhere_curc s c ps : current_elsewhere s c ps = true -> curc s c.
Proof.
  unfold current_elsewhere. rewrite existsb_exists. intros [i [Hi _]]. apply ids_from_spec in Hi.
  destruct Hi as [n [r [-> [Hn Hp]]]]. apply andb_true_iff in Hp. destruct Hp as [H1 H2].
  apply content_eqb_eq in H2. exists n, r. auto.
Qed.

Lemma rt_tags2_In g s e tags parents update c :
  In c (rt_tags2 g s e tags parents update) -> In c tags.
Proof.
  unfold rt_tags2. destruct (skip_current g); [rewrite filter_In; intros [H _]|intros H]; now apply rt_tags_In in H.
Qed.

Lemma rt_tags2_missing g s e tags parents update c :
  In c tags -> ~ In c (rt_tags2 g s e tags parents update) -> curc s c.
Proof.
  intros Hc Hn. apply (rt_tags_In g) in Hc. unfold rt_tags2 in Hn. destruct (skip_current g); [|contradiction].
  rewrite filter_In in Hn. destruct (current_elsewhere s c (rt_parents g s e tags parents update)) eqn:E.
  - eapply current_elsewhere_curc; eassumption.
  - exfalso. apply Hn. auto.
Qed.

Lemma rt_tags2_NoDup g s e tags parents update :
  NoDup (rt_tags g tags) -> NoDup (rt_tags2 g s e tags parents update).
Proof. intros H. unfold rt_tags2. destruct (skip_current g); [now apply NoDup_filter|assumption]. Qed.

Lemma is_sup_true s ps c : is_sup s ps c = true ->
  exists i r, find_id s c ps = Some i /\ superseded s i = true /\ nth_error (rows s) i = Some r /\
              r_c r = c /\ r_par r = ps.
Proof.
  unfold is_sup. destruct (find_id s c ps) as [i|] eqn:E; [|discriminate]. intros H.
  unfold find_id in E. assert (E' := E). apply find_from_Some in E. destruct E as [n [r [-> [H1 [H2 H3]]]]].
  exists (0 + n), r. auto.
Qed.

Lemma walk_A g f : forall s e c i ri,
  Good s -> nth_error (rows s) i = Some ri -> superseded s i = true ->
  match record_tags g f s e [c] [i] false true with
  | Done s' => Good s' /\ R s s' /\ (forall c', curc s' c' <-> curc s c' \/ c' = c)
  | OutOfFuel => True
  | _ => False
  end.
Proof.
  induction f as [|f IH]; intros s e c i ri HG Hi Hs; [exact I|].
  rewrite record_tags_unfold. cbv zeta. unfold rt_parents. simpl orb. cbv iota.
  destruct (rt_tags2_single g s e c [i] false) as [E|E].
  - rewrite E. simpl filter. destruct (is_sup s [i] c) eqn:Es; simpl.
    + destruct (is_sup_true _ _ _ Es) as [j [rj [Ej [Hsj [Hnj _]]]]]. rewrite Ej.
      specialize (IH s e c j rj HG Hnj Hsj).
      destruct (record_tags g f s e [c] [j] false true); simpl; assumption.
    + assert (X := commit_batch_A s [c] [i] HG).
      assert (valid_parents s [i]) as V.
      { constructor; [|constructor]. apply nth_error_Some. congruence. }
      specialize (X V ltac:(repeat constructor; simpl; tauto) ltac:(repeat constructor; simpl; tauto)).
      assert (forall p, In p [i] -> superseded s p = true) as Hp by (intros p [<-|[]]; assumption).
      assert (forall c0 j, In c0 [c] -> find_id s c0 [i] = Some j -> superseded s j = false) as Hex.
      { intros c0 j [<-|[]] Hj. unfold is_sup in Es. now rewrite Hj in Es. }
      specialize (X Hp Hex). destruct (commit_batch s [c] [i]); try contradiction.
      destruct X as [X1 [X2 X3]]. split; [assumption|]. split; [assumption|].
      intros c'. rewrite X3. simpl. intuition.
  - rewrite E. simpl. split; [assumption|]. split; [apply R_refl|].
    assert (curc s c) as Hc.
    { apply (rt_tags2_missing g s e [c] [i] false c); [now left|]. rewrite E. intros []. }
    intros c'. split; [tauto|]. intros [H| ->]; assumption.
Qed.

Lemma go_sup_A g f s e ps : forall l, (forall c, In c l -> is_sup s ps c = true) ->
  forall s', Good s' -> R s s' ->
  match go_sup (fun s' c i => record_tags g f s' e [c] [i] false true) s ps s' l with
  | Done s1 => Good s1 /\ R s s1 /\ (forall c', curc s1 c' <-> curc s' c' \/ In c' l)
  | OutOfFuel => True
  | _ => False
  end.
Proof.
  induction l as [|c l IHl]; intros Hl s' HG HR; simpl.
  - split; [assumption|]. split; [assumption|]. intros c'. tauto.
  - destruct (is_sup_true _ _ _ (Hl c ltac:(now left))) as [i [r [Ei [Hsi [Hni _]]]]]. rewrite Ei.
    destruct HR as [HE [HI HN]]. destruct HE as [HE1 HE2]. destruct (HE2 _ _ Hni) as [r' [Hni' _]].
    assert (X := walk_A g f s' e c i r' HG Hni' (superseded_mono _ _ _ HI Hsi)).
    destruct (record_tags g f s' e [c] [i] false true) as [s''| | |]; try contradiction; try exact I.
    destruct X as [G'' [R'' C'']].
    assert (R s s'') as RR by (eapply R_trans; [split; [split; eassumption|split; eassumption]|assumption]).
    specialize (IHl (fun c0 H => Hl c0 (or_intror H)) s'' G'' RR).
    destruct (go_sup _ s ps s'' l); try contradiction; try exact I.
    destruct IHl as [G1 [R1 C1]]. split; [assumption|]. split; [assumption|].
    intros c'. rewrite C1, C''. simpl. intuition.
Qed.

(* ------------------------------------------------------------------ whole calls *)
Lemma filter_split_In {A} (p : A -> bool) l x : In x l <-> In x (filter p l) \/ In x (filter (fun a => negb (p a)) l).
Proof. rewrite !filter_In. destruct (p x); simpl; intuition. Qed.

(** (A) new=True and every effective parent is superseded already (add; update/walk with nothing to replace) *)
Lemma record_tags_A g f s e tags parents update new :
  Good s -> update || new = true -> valid_parents s parents ->
  NoDup (rt_parents g s e tags parents update) ->
  (forall p, In p (rt_parents g s e tags parents update) -> superseded s p = true) ->
  NoDup (rt_tags g tags) ->
  match record_tags g (S f) s e tags parents update new with
  | Done s' => Good s' /\ (forall c', curc s' c' <-> curc s c' \/ In c' tags)
  | OutOfFuel => True
  | _ => False
  end.
Proof.
  intros HG Hn HV Np Hsup Nt. rewrite record_tags_unfold.
  destruct tags as [|c0 tags0]; [split; [assumption|]; intros c'; simpl; tauto|].
  set (tags := c0 :: tags0) in *. cbv zeta. rewrite Hn.
  assert (HV' := rt_parents_valid g s e tags parents update HV).
  set (ps := rt_parents g s e tags parents update) in *.
  set (t2 := rt_tags2 g s e tags parents update).
  assert (NoDup t2) as N2 by now apply rt_tags2_NoDup.
  assert (X := go_sup_A g f s e ps (filter (is_sup s ps) t2)
                        ltac:(intros c Hc; apply filter_In in Hc; tauto) s HG (R_refl s)).
  destruct (go_sup _ s ps s _) as [s1| | |]; try contradiction; try exact I.
  destruct X as [G1 [[E1 [I1 S1]] C1]].
  assert (Y := commit_batch_A s1 (filter (fun c => negb (is_sup s ps c)) t2) ps G1
                              (ext_valid _ _ _ E1 HV') (NoDup_filter _ _ N2) Np).
  assert (forall p, In p ps -> superseded s1 p = true) as Hs1.
  { intros p Hp. eapply superseded_mono; [eassumption|]. now apply Hsup. }
  assert (forall c j, In c (filter (fun c => negb (is_sup s ps c)) t2) -> find_id s1 c ps = Some j ->
                      superseded s1 j = false) as Hex.
  { intros c j Hc Hj. apply filter_In in Hc. destruct Hc as [_ Hc]. apply negb_true_iff in Hc.
    destruct (superseded s1 j) eqn:Es; [|reflexivity]. exfalso.
    assert (Hsj := S1 _ Es). destruct HG as [HL HF]. assert (Hlt := superseded_lt s j HL Hsj).
    destruct (nth_error (rows s) j) as [r|] eqn:Hr; [|apply nth_error_None in Hr; lia].
    destruct E1 as [_ E1]. destruct (E1 _ _ Hr) as [r1 [Hr1 [Hc1 Hp1]]].
    unfold find_id in Hj. assert (Hj' := Hj). apply find_from_Some in Hj. destruct Hj as [n [r1' [-> [Hn1 [Hcc Hpp]]]]].
    simpl in *. rewrite Hr1 in Hn1. injection Hn1 as <-.
    destruct (find_id_exists s c ps n r Hr ltac:(congruence) ltac:(congruence)) as [j0 [Hj0 Hle]].
    unfold is_sup in Hc. rewrite Hj0 in Hc.
    (* j0 also matches in s1, and n is the first match there *)
    unfold find_id in Hj0. assert (Hj0' := Hj0). apply find_from_Some in Hj0. destruct Hj0 as [n0 [r0 [-> [Hn0 [Hc0 Hp0]]]]].
    destruct (E1 _ _ Hn0) as [r0' [Hn0' [Hc0' Hp0']]].
    assert (0 + n <= 0 + n0) as Hle' by (apply (find_from_first 0 c ps (rows s1) _ Hj' n0 r0' Hn0'); congruence).
    simpl in *. assert (n0 = n) by lia. subst. congruence. }
  specialize (Y Hs1 Hex). destruct (commit_batch s1 _ ps); try contradiction.
  destruct Y as [G' [_ C']]. split; [assumption|]. intros c'. rewrite C', C1. split.
  - intros [[H|H]|H]; [tauto| |]; right; [apply filter_In in H|apply filter_In in H];
      destruct H as [H _]; eapply rt_tags2_In; eassumption.
  - intros [H|H]; [tauto|].
    destruct (in_dec content_dec c' t2) as [Hin|Hnin].
    + apply (filter_split_In (is_sup s ps)) in Hin. tauto.
    + left. left. eapply rt_tags2_missing; eassumption.
Qed.

Lemma filter_nil_all {A} (p : A -> bool) l : (forall x, In x l -> p x = false) -> filter p l = [].
Proof.
  induction l as [|a l IH]; intros H; simpl; [reflexivity|]. rewrite (H a ltac:(now left)).
  apply IH. intros x Hx. apply H. now right.
Qed.

Lemma filter_id_all {A} (p : A -> bool) l : (forall x, In x l -> p x = true) -> filter p l = l.
Proof.
  induction l as [|a l IH]; intros H; simpl; [reflexivity|]. rewrite (H a ltac:(now left)).
  f_equal. apply IH. intros x Hx. apply H. now right.
Qed.

(** (B) every effective parent is current (update / rm with something to replace): the batch is new *)
Lemma commit_batch_B s cs ps :
  Good s -> valid_parents s ps -> NoDup cs -> NoDup ps -> ps <> [] -> cs <> [] ->
  (forall p, In p ps -> exists r, nth_error (rows s) p = Some r /\ r_cur r = true) ->
  commit_batch s cs ps = Done (cb_state s cs ps) /\ Good (cb_state s cs ps) /\ cb_new_cs s cs ps = cs.
Proof.
  intros HG V Nc Np Hp Hc Hcur.
  assert (cb_new_cs s cs ps = cs) as En.
  { unfold cb_new_cs. apply filter_id_all. intros c _. unfold exists_row. now rewrite (fresh s c ps HG Hp Hcur). }
  destruct (commit_batch_cases3 s cs ps Nc Np) as [[_ [E1 _]]|[E [N1 _]]].
  - rewrite En in E1. congruence.
  - split; [assumption|]. split; [now apply Good_cb_state|assumption].
Qed.

Lemma record_tags_B g f s e tags new :
  Good s -> NoDup (rt_tags g tags) -> tags <> [] ->
  rt_parents g s e tags [] true <> [] ->
  (forall c, In c tags -> exists k v, c = CTag e k v) ->
  let ps := rt_parents g s e tags [] true in
  record_tags g (S f) s e tags [] true new = Done (cb_state s (rt_tags g tags) ps) /\
  Good (cb_state s (rt_tags g tags) ps) /\ cb_new_cs s (rt_tags g tags) ps = rt_tags g tags.
Proof.
  intros HG Nt Hne Hps Hshape ps. rewrite record_tags_unfold.
  destruct tags as [|c0 tags0]; [congruence|]. set (tags := c0 :: tags0) in *. cbv zeta. simpl orb. cbv iota.
  fold ps.
  assert (forall p, In p ps -> exists r, nth_error (rows s) p = Some r /\ r_cur r = true) as Hcur.
  { intros p Hp. unfold ps, rt_parents in Hp. simpl in Hp. apply ids_from_spec in Hp.
    destruct Hp as [n [r [-> [Hn Hm]]]]. exists r. split; [assumption|]. unfold cur_match in Hm.
    apply andb_true_iff in Hm. tauto. }
  assert (NoDup ps) as Np by (unfold ps, rt_parents; simpl; apply ids_from_NoDup).
  assert (valid_parents s ps) as V by (unfold ps, rt_parents; simpl; apply ids_from_valid).
  assert (rt_tags2 g s e tags [] true = rt_tags g tags) as E2.
  { unfold rt_tags2. destruct (skip_current g); [|reflexivity]. apply filter_id_all. intros c Hc.
    apply negb_true_iff. fold ps. destruct (current_elsewhere s c ps) eqn:Ece; [|reflexivity]. exfalso.
    unfold current_elsewhere in Ece. apply existsb_exists in Ece. destruct Ece as [i [Hi Hni]].
    apply negb_true_iff in Hni. apply mem_false in Hni. apply Hni. apply ids_from_spec in Hi.
    destruct Hi as [n [r [-> [Hn Hm]]]]. apply andb_true_iff in Hm. destruct Hm as [Hm1 Hm2].
    apply content_eqb_eq in Hm2. unfold ps, rt_parents. simpl. apply ids_from_spec. exists n, r.
    split; [reflexivity|]. split; [assumption|]. unfold cur_match. rewrite Hm1, Hm2. simpl.
    destruct (Hshape c ltac:(now apply rt_tags_In in Hc)) as [k [v ->]]. rewrite Nat.eqb_refl. simpl.
    apply mem_In. unfold keys_of. apply in_flat_map. exists (CTag e k v). split; [assumption|now left]. }
  rewrite E2.
  assert (forall c, is_sup s ps c = false) as Hns.
  { intros c. unfold is_sup. now rewrite (fresh s c ps HG Hps Hcur). }
  rewrite (filter_nil_all (is_sup s ps)) by (intros; apply Hns). simpl.
  rewrite (filter_id_all (fun c => negb (is_sup s ps c))) by (intros; now rewrite Hns).
  apply commit_batch_B; try assumption.
  intros E. assert (In c0 (rt_tags g tags)) as X by (apply rt_tags_In; now left). rewrite E in X. exact X.
Qed.

(* ------------------------------------------------------------------ commands against the model *)
Definition agree (s : state) (Sp : spec_state) : Prop :=
  forall e k v, curc s (CTag e k v) <-> spec_has Sp e k v = true.

Lemma spec_has_In Sp e k v : spec_has Sp e k v = true <-> In (e, k, v) Sp.
Proof.
  unfold spec_has. rewrite existsb_exists. split.
  - intros [[[e' k'] v'] [H1 H2]]. apply andb_true_iff in H2. destruct H2 as [H2 H3].
    apply andb_true_iff in H2. destruct H2 as [H2 H4]. apply Nat.eqb_eq in H2, H4. apply jval_eqb_eq in H3. now subst.
  - intros H. exists (e, k, v). split; [assumption|]. rewrite !Nat.eqb_refl. simpl. now apply jval_eqb_eq.
Qed.

Lemma pair_in_In l k v : pair_in l k v = true <-> In (k, v) l.
Proof.
  unfold pair_in. rewrite existsb_exists. split.
  - intros [[k' v'] [H1 H2]]. simpl in H2. apply andb_true_iff in H2. destruct H2 as [H2 H3].
    apply Nat.eqb_eq in H2. apply jval_eqb_eq in H3. now subst.
  - intros H. exists (k, v). split; [assumption|]. simpl. rewrite Nat.eqb_refl. simpl. now apply jval_eqb_eq.
Qed.

Lemma cur_pairs_curc s e k v : In (k, v) (cur_pairs s e) <-> curc s (CTag e k v).
Proof.
  unfold cur_pairs, curc. rewrite in_flat_map. split.
  - intros [r [Hr H]]. apply In_nth_error in Hr. destruct Hr as [i Hi]. exists i, r. split; [assumption|].
    destruct (r_c r) as [e' k' v'|] eqn:Ec; [|contradiction].
    destruct (r_cur r && (e' =? e)) eqn:Eb; [|contradiction]. destruct H as [[= -> ->]|[]].
    apply andb_true_iff in Eb. destruct Eb as [Eb1 Eb2]. apply Nat.eqb_eq in Eb2. subst. auto.
  - intros [i [r [Hi [Hc Hcc]]]]. exists r. split; [eapply nth_error_In; eassumption|].
    rewrite Hcc, Hc, Nat.eqb_refl. simpl. now left.
Qed.

Lemma in_ctag e tags e' k v : In (CTag e' k v) (map (ctag e) tags) <-> e' = e /\ In (k, v) tags.
Proof.
  rewrite in_map_iff. split.
  - intros [[k0 v0] [[= -> -> ->] H]]. auto.
  - intros [-> H]. exists (k, v). auto.
Qed.

Lemma NoDup_ctag e tags : NoDup tags -> NoDup (map (ctag e) tags).
Proof.
  induction 1 as [|[k v] l Hn Hd IH]; simpl; constructor; [|assumption].
  intros H. apply (in_ctag e l e k v) in H. tauto.
Qed.

Lemma pair_eqb_eq a b : pair_eqb a b = true <-> a = b.
Proof.
  destruct a, b. unfold pair_eqb. simpl. rewrite andb_true_iff, Nat.eqb_eq, jval_eqb_eq.
  split; [intros [-> ->]; reflexivity|intros [= -> ->]; auto].
Qed.

Lemma tags_ok g tags : dedupe g || negb (has_dup pair_eqb tags) = true -> dedupe g = true \/ NoDup tags.
Proof.
  intros H. apply orb_true_iff in H. destruct H as [H|H]; [now left|right].
  apply negb_true_iff in H. now apply (has_dup_false_NoDup pair_eqb _ pair_eqb_eq).
Qed.

Lemma keys_of_ctag g e tags k : In k (keys_of (rt_tags g (map (ctag e) tags))) <-> In k (map fst tags).
Proof.
  unfold keys_of. rewrite in_flat_map, in_map_iff. split.
  - intros [c [Hc Hk]]. apply rt_tags_In in Hc. apply in_map_iff in Hc. destruct Hc as [[k0 v0] [<- H]].
    simpl in Hk. destruct Hk as [<-|[]]. exists (k0, v0). auto.
  - intros [[k0 v0] [<- H]]. exists (CTag e k0 v0). split; [|now left].
    apply rt_tags_In. apply in_map_iff. exists (k0, v0). auto.
Qed.

Lemma fuel_S s n : fuel_for s n = S (length (rows s) + n + 2).
Proof. unfold fuel_for. lia. Qed.

Lemma step_add g s Sp e tags : Good s -> agree s Sp -> op_okb g (TAdd e tags) = true ->
  match step g s (TAdd e tags) with
  | Done s' => Good s' /\ agree s' (spec_step Sp (TAdd e tags))
  | OutOfFuel => True
  | _ => False
  end.
Proof.
  intros HG HA Hok. simpl step. rewrite fuel_S.
  assert (X := record_tags_A g (length (rows s) + length tags + 2) s e (map (ctag e) tags) [] false true HG
               eq_refl ltac:(constructor) ltac:(constructor) ltac:(intros p []) ).
  specialize (X ltac:(apply rt_tags_NoDup; destruct (tags_ok g tags Hok); [now left|right; now apply NoDup_ctag])).
  destruct (record_tags _ _ _ _ _ _ _ _); try contradiction; try exact I.
  destruct X as [G' C']. split; [assumption|]. intros e' k v. rewrite C', (HA e' k v), in_ctag.
  simpl. rewrite !spec_has_In, in_app_iff, in_map_iff. split.
  - intros [H|[-> H]]; [now right|]. left. exists (k, v). auto.
  - intros [[[k0 v0] [[= -> -> ->] H]]|H]; auto.
Qed.

Lemma step_update g s Sp e tags : Good s -> agree s Sp -> op_okb g (TUpdate e tags) = true ->
  match step g s (TUpdate e tags) with
  | Done s' => Good s' /\ agree s' (spec_step Sp (TUpdate e tags))
  | OutOfFuel => True
  | _ => False
  end.
Proof.
  intros HG HA Hok. destruct tags as [|t0 tags0].
  { simpl step. rewrite fuel_S, record_tags_unfold. simpl. split; [assumption|].
    intros e' k v. rewrite (HA e' k v), !spec_has_In.
    rewrite filter_In. destruct (e' =? e); simpl; tauto. }
  set (tags := t0 :: tags0) in *. cbn [step]. rewrite fuel_S.
  set (cs := map (ctag e) tags).
  assert (NoDup (rt_tags g cs)) as Nt.
  { apply rt_tags_NoDup. destruct (tags_ok g tags Hok); [now left|right; now apply NoDup_ctag]. }
  assert (forall i r, nth_error (rows s) i = Some r ->
            (In i (rt_parents g s e cs [] true) <->
             r_cur r = true /\ exists k v, r_c r = CTag e k v /\ In k (map fst tags))) as Hps.
  { intros i r Hi. unfold rt_parents. simpl. rewrite ids_from_spec. split.
    - intros [n [r' [-> [Hn Hm]]]]. simpl in Hi. rewrite Hi in Hn. injection Hn as <-.
      unfold cur_match in Hm. apply andb_true_iff in Hm. destruct Hm as [H1 H2]. split; [assumption|].
      destruct (r_c r) as [e' k v|]; [|discriminate]. apply andb_true_iff in H2. destruct H2 as [H2 H3].
      apply Nat.eqb_eq in H2. subst. apply mem_In in H3. apply keys_of_ctag in H3. eauto.
    - intros [Hc [k [v [Hcc Hk]]]]. exists i, r. split; [reflexivity|]. split; [assumption|].
      unfold cur_match. rewrite Hc, Hcc, Nat.eqb_refl. simpl. apply mem_In. now apply keys_of_ctag. }
  destruct (rt_parents g s e cs [] true) as [|p0 ps0] eqn:Ep.
  - (* nothing to replace: like add *)
    assert (X := record_tags_A g (length (rows s) + length tags + 2) s e cs [] true false HG
                 eq_refl ltac:(constructor)).
    rewrite Ep in X. specialize (X ltac:(constructor) ltac:(intros p []) Nt).
    destruct (record_tags _ _ _ _ _ _ _ _); try contradiction; try exact I.
    destruct X as [G' C']. split; [assumption|]. intros e' k v. rewrite C', (HA e' k v). unfold cs. rewrite in_ctag.
    unfold spec_step. rewrite !spec_has_In, in_app_iff, in_map_iff, filter_In. split.
    + intros [H|[-> H]]; [|left; exists (k, v); auto]. right. split; [assumption|].
      apply negb_true_iff. apply andb_false_iff. destruct (e' =? e) eqn:Ee; [right|now left].
      apply Nat.eqb_eq in Ee. subst. apply mem_false. intros Hk.
      apply spec_has_In, HA in H. destruct H as [i [r [Hi [Hc Hcc]]]].
      assert (In i []) as [] . apply (Hps i r Hi). split; [assumption|]. eauto.
    + intros [[[k0 v0] [[= -> -> ->] H]]|[H _]]; auto.
  - assert (B := record_tags_B g (length (rows s) + length tags + 2) s e cs false HG Nt).
    assert (cs <> []) as Hne by (unfold cs, tags; discriminate).
    specialize (B Hne ltac:(rewrite Ep; discriminate)
                  ltac:(intros c Hc; apply in_map_iff in Hc; destruct Hc as [[k v] [<- _]]; exists k, v; reflexivity)).
    cbv zeta in B. assert (V : valid_parents s (rt_parents g s e cs [] true)) by (unfold rt_parents; simpl; apply ids_from_valid).
    rewrite Ep in B, V. destruct B as [-> [G' En]]. split; [assumption|].
    intros e' k v. rewrite (cb_state_curc s _ _ V), En, rt_tags_In. unfold cs. rewrite in_ctag.
    unfold spec_step. rewrite !spec_has_In, in_app_iff, in_map_iff, filter_In. split.
    + intros [[i [r [Hi [Hc [Hcc Hni]]]]]|[-> H]]; [|left; exists (k, v); auto]. right. split.
      * apply spec_has_In, HA. exists i, r. auto.
      * apply negb_true_iff. apply andb_false_iff. destruct (e' =? e) eqn:Ee; [right|now left].
        apply Nat.eqb_eq in Ee. subst. apply mem_false. intros Hk. apply Hni. apply (Hps i r Hi). split; [assumption|]. eauto.
    + intros [[[k0 v0] [[= -> -> ->] H]]|[H Hn]]; [now right|]. left.
      apply spec_has_In, HA in H. destruct H as [i [r [Hi [Hc Hcc]]]]. exists i, r. repeat split; try assumption.
      intros Hin. apply (Hps i r Hi) in Hin. destruct Hin as [_ [k1 [v1 [Hc1 Hk1]]]]. rewrite Hcc in Hc1.
      injection Hc1 as -> -> ->. apply negb_true_iff in Hn. rewrite Nat.eqb_refl, andb_true_l in Hn.
      apply mem_false in Hn. contradiction.
Qed.

Lemma pair_match_ok g pairs k v :
  null_match g || negb (existsb (fun kv => jval_eqb (snd kv) VNull) pairs) = true ->
  pair_match g pairs k v = pair_in pairs k v.
Proof.
  unfold pair_match, pair_in. induction pairs as [|[k0 v0] l IH]; simpl; [reflexivity|]. intros H.
  destruct (null_match g) eqn:En; simpl in *.
  - rewrite (IH eq_refl). f_equal. destruct v0; reflexivity.
  - apply negb_true_iff in H. apply orb_false_iff in H. destruct H as [H1 H2].
    rewrite (IH ltac:(now apply negb_true_iff)). f_equal. destruct v0; [discriminate|reflexivity].
Qed.

Lemma step_rm_unfold g s e pairs keys : (pairs <> [] \/ keys <> []) ->
  step g s (TRm e pairs keys) =
  record_tags g (fuel_for s 1) s 0 [CDel]
              (ids_from 0 (cur_match e (fun k v => pair_match g pairs k v || mem k keys)) (rows s)) false false.
Proof. destruct pairs, keys; intros [H|H]; try congruence; reflexivity. Qed.

Lemma rm_core g f s ps : Good s -> NoDup ps -> valid_parents s ps ->
  (forall p, In p ps -> exists r, nth_error (rows s) p = Some r /\ r_cur r = true) ->
  match record_tags g (S f) s 0 [CDel] ps false false with
  | Done s' => Good s' /\
      (forall e' k v, curc s' (CTag e' k v) <->
         exists i r, nth_error (rows s) i = Some r /\ r_cur r = true /\ r_c r = CTag e' k v /\ ~ In i ps)
  | _ => False
  end.
Proof.
  intros HG Np V Hcur. rewrite record_tags_unfold. cbv zeta. unfold rt_parents. simpl orb. cbv iota.
  assert (rt_tags g [CDel] = [CDel]) as -> by (unfold rt_tags; destruct (dedupe g); reflexivity).
  assert (NoDup [CDel]) as Nc by (repeat constructor; simpl; tauto).
  destruct (commit_batch_cases3 s [CDel] ps Nc Np) as [[-> [E1 E2]]|[-> [N1 Hne]]].
  - split; [assumption|]. assert (ps = []) as ->.
    { destruct ps as [|q qs]; [reflexivity|]. exfalso.
      destruct (commit_batch_B s [CDel] (q :: qs) HG V Nc Np ltac:(discriminate) ltac:(discriminate) Hcur) as [_ [_ X]].
      rewrite X in E1. discriminate. }
    intros e' k v. unfold curc. split.
    + intros [i [r [Hi [Hc Hcc]]]]. exists i, r. repeat split; try assumption. intros [].
    + intros [i [r [Hi [Hc [Hcc _]]]]]. eauto.
  - split; [now apply Good_cb_state|]. intros e' k v. rewrite (cb_state_curc s [CDel] ps V). split.
    + intros [H|H]; [assumption|]. unfold cb_new_cs in H. apply filter_In in H. destruct H as [[H|[]] _]. discriminate.
    + intros H. now left.
Qed.

Lemma step_rm g s Sp e pairs keys : Good s -> agree s Sp -> op_okb g (TRm e pairs keys) = true ->
  match step g s (TRm e pairs keys) with
  | Done s' | CliError s' => Good s' /\ agree s' (spec_step Sp (TRm e pairs keys))
  | OutOfFuel => True
  | DbError _ => False
  end.
Proof.
  intros HG HA Hok. simpl in Hok.
  assert (forall k v, pair_match g pairs k v = pair_in pairs k v) as Hpm by (intros; now apply pair_match_ok).
  set (ps := ids_from 0 (cur_match e (fun k v => pair_match g pairs k v || mem k keys)) (rows s)).
  assert (forall i r, nth_error (rows s) i = Some r ->
            (In i ps <-> r_cur r = true /\ exists k v, r_c r = CTag e k v /\ (pair_in pairs k v || mem k keys) = true)) as Hps.
  { intros i r Hi. unfold ps. rewrite ids_from_spec. split.
    - intros [n [r' [-> [Hn Hm]]]]. simpl in Hi. rewrite Hi in Hn. injection Hn as <-.
      unfold cur_match in Hm. apply andb_true_iff in Hm. destruct Hm as [H1 H2]. split; [assumption|].
      destruct (r_c r) as [e' k v|]; [|discriminate]. apply andb_true_iff in H2. destruct H2 as [H2 H3].
      apply Nat.eqb_eq in H2. subst. rewrite Hpm in H3. eauto.
    - intros [Hc [k [v [Hcc Hk]]]]. exists i, r. split; [reflexivity|]. split; [assumption|].
      unfold cur_match. rewrite Hc, Hcc, Nat.eqb_refl, Hpm. simpl. assumption. }
  assert (forall s', (forall e' k v, curc s' (CTag e' k v) <->
                        exists i r, nth_error (rows s) i = Some r /\ r_cur r = true /\ r_c r = CTag e' k v /\ ~ In i ps) ->
                     agree s' (spec_step Sp (TRm e pairs keys))) as Hfin.
  { intros s' H e' k v. rewrite H. unfold spec_step. rewrite spec_has_In, filter_In. split.
    - intros [i [r [Hi [Hc [Hcc Hni]]]]]. split; [apply spec_has_In, HA; exists i, r; auto|].
      apply negb_true_iff. destruct (e' =? e) eqn:Ee; [|reflexivity]. simpl. apply Nat.eqb_eq in Ee. subst.
      destruct (pair_in pairs k v || mem k keys) eqn:Em; [|reflexivity]. exfalso. apply Hni.
      apply (Hps i r Hi). split; [assumption|]. eauto.
    - intros [H1 H2]. apply spec_has_In, HA in H1. destruct H1 as [i [r [Hi [Hc Hcc]]]].
      exists i, r. repeat split; try assumption. intros Hin. apply (Hps i r Hi) in Hin.
      destruct Hin as [_ [k1 [v1 [Hc1 Hk1]]]]. rewrite Hcc in Hc1. injection Hc1 as -> -> ->.
      rewrite Nat.eqb_refl, Hk1 in H2. discriminate. }
  assert (pairs = [] /\ keys = [] \/ (pairs <> [] \/ keys <> [])) as [[-> ->]|Hne].
  { destruct pairs, keys; [left; tauto| | |]; right; first [left; discriminate|right; discriminate]. }
  { (* `redun tag rm E` with nothing to remove *)
    simpl. split; [assumption|]. apply Hfin. intros e' k v. unfold curc. split.
    - intros [i [r [Hi [Hc Hcc]]]]. exists i, r. repeat split; try assumption. intros Hin.
      apply (Hps i r Hi) in Hin. destruct Hin as [_ [k1 [v1 [_ Hk1]]]]. discriminate.
    - intros [i [r [Hi [Hc [Hcc _]]]]]. eauto. }
  rewrite (step_rm_unfold g s e pairs keys Hne). fold ps. rewrite fuel_S.
  assert (X := rm_core g (length (rows s) + 1 + 2) s ps HG (ids_from_NoDup _ _ _) (ids_from_valid _ _)).
  specialize (X ltac:(intros p Hp; unfold ps in Hp; apply ids_from_spec in Hp;
                      destruct Hp as [n [r [-> [Hn Hm]]]]; exists r; split; [assumption|];
                      unfold cur_match in Hm; apply andb_true_iff in Hm; tauto)).
  destruct (record_tags _ _ _ _ _ _ _ _); try contradiction.
  destruct X as [G' C']. split; [assumption|]. now apply Hfin.
Qed.

Theorem run_refines g : forall ops s Sp s',
  Good s -> agree s Sp -> Forall (fun o => op_okb g o = true) ops -> run g s ops = Some s' ->
  Good s' /\ agree s' (fold_left spec_step ops Sp) /\ ~ In 1 (run_log g s ops).
Proof.
  induction ops as [|o ops IH]; intros s Sp s' HG HA Hok Hrun.
  - simpl in *. injection Hrun as <-. tauto.
  - inversion Hok as [|? ? Ho Hok']; subst. cbn [run run_log fold_left] in *.
    assert (match step g s o with
            | Done s1 | CliError s1 => Good s1 /\ agree s1 (spec_step Sp o)
            | OutOfFuel => True | DbError _ => False end) as X.
    { destruct o as [e tags|e tags|e pairs keys].
      - assert (Y := step_add g s Sp e tags HG HA Ho). destruct (step g s (TAdd e tags)); tauto.
      - assert (Y := step_update g s Sp e tags HG HA Ho). destruct (step g s (TUpdate e tags)); tauto.
      - exact (step_rm g s Sp e pairs keys HG HA Ho). }
    destruct (step g s o) as [s1|s1|s1|]; try contradiction; try discriminate;
      destruct X as [G1 A1]; destruct (IH s1 (spec_step Sp o) s' G1 A1 Hok' Hrun) as [H1 [H2 H3]];
      (split; [assumption|]); (split; [assumption|]); intros [H|H]; try discriminate; contradiction.
Qed.

Lemma Good_init : Good init.
Proof. split; [apply LI_init|apply FI_init]. Qed.

Lemma agree_init : agree init [].
Proof. intros e k v. split; [intros [[|i] [r [H _]]]; discriminate|discriminate]. Qed.
