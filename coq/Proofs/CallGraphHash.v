(** C20 — the call-node hash is a Merkle hash: equal hashes <-> equal components (children up to order). *)
From Coq Require Import List Arith Bool Ascii Permutation Sorting.Sorted.
From RV Require Import Base.Decimal Model.Bencode Proofs.BencodeFacts Proofs.BencodeSort Model.CallGraph.
Import ListNotations.
Open Scope list_scope.

Lemma beqb_spec a b : reflect (a = b) (bytes_eqb a b).
Proof.
  revert b. induction a as [|x a IH]; destruct b as [|y b]; simpl; try (constructor; congruence).
  destruct (Ascii.eqb_spec x y) as [->|N]; simpl.
  - destruct (IH b) as [->|N]; constructor; congruence.
  - constructor; congruence.
Qed.
Lemma beqb_refl a : bytes_eqb a a = true.
Proof. destruct (beqb_spec a a); congruence. Qed.

(** Order on byte strings used by [sorted]. *)
Definition ble (a b : bytes) : Prop := bytes_ltb b a = false.

Lemma ble_refl a : ble a a.
Proof. apply ltb_irrefl. Qed.
Lemma ble_antisym a b : ble a b -> ble b a -> a = b.
Proof. unfold ble. intros H1 H2. now apply ltb_total. Qed.
Lemma ble_total a b : ble a b \/ ble b a.
Proof.
  unfold ble. destruct (bytes_ltb b a) eqn:E; [right|now left]. now apply ltb_asym.
Qed.
Lemma ble_trans a b c : ble a b -> ble b c -> ble a c.
Proof.
  unfold ble. intros H1 H2. destruct (bytes_ltb c a) eqn:E; [|reflexivity].
  destruct (bytes_ltb a b) eqn:E1.
  - rewrite (ltb_trans c a b E E1) in H2. discriminate.
  - assert (a = b) by now apply ltb_total. subst. congruence.
Qed.

Lemma insert_b_perm x l : Permutation (insert_b x l) (x :: l).
Proof.
  induction l as [|y r IH]; simpl; [reflexivity|].
  destruct (bytes_ltb x y); [reflexivity|].
  eapply perm_trans; [apply perm_skip, IH|apply perm_swap].
Qed.
Lemma sort_b_perm l : Permutation (sort_b l) l.
Proof.
  induction l as [|x r IH]; simpl; [constructor|].
  eapply perm_trans; [apply insert_b_perm|]. now constructor.
Qed.

Lemma insert_b_sorted x l : StronglySorted ble l -> StronglySorted ble (insert_b x l).
Proof.
  induction l as [|y r IH]; simpl; intros Hs.
  - repeat constructor.
  - inversion Hs as [|? ? Hr Hall]; subst. destruct (bytes_ltb x y) eqn:E.
    + constructor; [exact Hs|]. constructor.
      * unfold ble. now apply ltb_asym.
      * eapply Forall_impl; [|exact Hall]. intros z Hz. eapply ble_trans; [|exact Hz].
        unfold ble. now apply ltb_asym.
    + constructor; [now apply IH|].
      assert (Hp := insert_b_perm x r).
      apply Forall_forall. intros z Hz. apply (Permutation_in _ Hp) in Hz. destruct Hz as [<-|Hz].
      * exact E.
      * rewrite Forall_forall in Hall. now apply Hall.
Qed.
Lemma sort_b_sorted l : StronglySorted ble (sort_b l).
Proof. induction l; simpl; [constructor|now apply insert_b_sorted]. Qed.

Lemma sorted_perm_unique : forall l l', StronglySorted ble l -> StronglySorted ble l' -> Permutation l l' -> l = l'.
Proof.
  induction l as [|x l IH]; intros l' Hs Hs' Hp.
  - apply Permutation_nil in Hp. now subst.
  - destruct l' as [|y l']; [apply Permutation_sym, Permutation_nil in Hp; discriminate|].
    inversion Hs as [|? ? Hl Hall]; subst. inversion Hs' as [|? ? Hl' Hall']; subst.
    assert (x = y).
    { assert (H1 : In x (y :: l')) by (eapply Permutation_in; [exact Hp|now left]).
      assert (H2 : In y (x :: l)) by (eapply Permutation_in; [apply Permutation_sym; exact Hp|now left]).
      destruct H1 as [->|H1]; [reflexivity|]. destruct H2 as [->|H2]; [reflexivity|].
      rewrite Forall_forall in Hall, Hall'. apply ble_antisym; auto. }
    subst. f_equal. apply IH; auto. eapply Permutation_cons_inv; eauto.
Qed.

Theorem sort_b_perm_iff l l' : sort_b l = sort_b l' <-> Permutation l l'.
Proof.
  split.
  - intros E. eapply perm_trans; [apply Permutation_sym, sort_b_perm|]. rewrite E. apply sort_b_perm.
  - intros Hp. apply sorted_perm_unique; try apply sort_b_sorted.
    eapply perm_trans; [apply sort_b_perm|]. eapply perm_trans; [exact Hp|]. apply Permutation_sym, sort_b_perm.
Qed.

Lemma map_BStr_inj l l' : map BStr l = map BStr l' -> l = l'.
Proof.
  revert l'. induction l as [|x l IH]; destruct l' as [|y l']; simpl; try congruence.
  intros [= -> E]. f_equal. now apply IH.
Qed.

(** The pre-image determines the components (no hash premise needed). *)
Theorem call_pre_inj t a r cs t' a' r' cs' :
  call_pre shipped_layout t a r cs = call_pre shipped_layout t' a' r' cs' ->
  t = t' /\ a = a' /\ r = r' /\ Permutation cs cs'.
Proof.
  unfold call_pre. intros E%enc_injective. unfold call_data in E. simpl in E.
  injection E as -> -> -> E. apply map_BStr_inj in E. repeat split; auto. now apply sort_b_perm_iff.
Qed.

Theorem call_pre_perm t a r cs cs' :
  Permutation cs cs' -> call_pre shipped_layout t a r cs = call_pre shipped_layout t a r cs'.
Proof.
  intros Hp. unfold call_pre, call_data. simpl. now rewrite (proj2 (sort_b_perm_iff cs cs') Hp).
Qed.

Section Hash.
  Variable H : bytes -> hash.
  Hypothesis H_inj : forall a b, H a = H b -> a = b.
  Variable C : cfg.
  Hypothesis C_layout : layout C = shipped_layout.

  Theorem call_hash_merkle t a r cs t' a' r' cs' :
    call_hash H C t a r cs = call_hash H C t' a' r' cs' <->
    t = t' /\ a = a' /\ r = r' /\ Permutation cs cs'.
  Proof.
    unfold call_hash. rewrite C_layout. split.
    - intros E%H_inj. now apply call_pre_inj.
    - intros (-> & -> & -> & Hp). f_equal. now apply call_pre_perm.
  Qed.
End Hash.
