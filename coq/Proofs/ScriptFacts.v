(** C29 — facts about Model/Script.v: strings, split/join, the EOF search, the here-document. *)
From Coq Require Import String List NArith ZArith Ascii Bool Arith Lia FinFun.
From RV Require Import Base.Decimal Base.DecimalFacts Model.Script.
Import ListNotations.
Open Scope list_scope.

(* ------------------------------------------------------------------ *)
(** * strings *)

Lemma str_eqb_eq a b : str_eqb a b = true <-> a = b.
Proof.
  revert b. induction a as [|x a IH]; destruct b as [|y b]; simpl; split; try easy.
  - intros [H1 H2]%andb_true_iff. apply N.eqb_eq in H1. apply IH in H2. congruence.
  - intros [= -> ->]. rewrite N.eqb_refl. simpl. now apply IH.
Qed.

Lemma str_eqb_refl a : str_eqb a a = true.
Proof. now apply str_eqb_eq. Qed.

Lemma str_eqb_neq a b : str_eqb a b = false <-> a <> b.
Proof.
  split.
  - intros H E. apply str_eqb_eq in E. congruence.
  - intros H. destruct (str_eqb a b) eqn:E; [apply str_eqb_eq in E; contradiction|reflexivity].
Qed.

Lemma mem_str_In x l : mem_str x l = true <-> In x l.
Proof.
  induction l as [|y l IH]; simpl; [easy|].
  rewrite orb_true_iff, IH, str_eqb_eq. intuition congruence.
Qed.

Lemma mem_str_not_In x l : mem_str x l = false <-> ~ In x l.
Proof.
  rewrite <- mem_str_In. destruct (mem_str x l); intuition congruence.
Qed.

Lemma starts_with_app p s : starts_with p (p ++ s) = true.
Proof. induction p; simpl; [reflexivity|]. now rewrite N.eqb_refl. Qed.

Lemma starts_with_spec p s : starts_with p s = true <-> exists r, s = p ++ r.
Proof.
  revert s. induction p as [|x p IH]; intros s; simpl.
  - split; [eauto|reflexivity].
  - destruct s as [|y s]; [split; [discriminate|intros [r [=]]]|].
    rewrite andb_true_iff, N.eqb_eq, IH. split.
    + intros [-> [r ->]]. eauto.
    + intros [r [= -> ->]]. eauto.
Qed.

(* ------------------------------------------------------------------ *)
(** * split / join *)

Lemma split_nl_nonempty s : split_nl s <> [].
Proof.
  induction s as [|c r IH]; simpl; [discriminate|].
  destruct (N.eqb c NL); [discriminate|]. destruct (split_nl r); [contradiction|discriminate].
Qed.

Lemma split_nl_app_nl a b : split_nl (a ++ NL :: b) = split_nl a ++ split_nl b.
Proof.
  induction a as [|c a IH]; simpl; [reflexivity|].
  destruct (N.eqb c NL); [now rewrite IH|].
  rewrite IH. generalize (split_nl_nonempty a). destruct (split_nl a); [contradiction|reflexivity].
Qed.

Lemma split_nl_noNL l : ~ In NL l -> split_nl l = [l].
Proof.
  induction l as [|c l IH]; simpl; [reflexivity|]. intros H.
  destruct (N.eqb_spec c NL) as [->|_]; [exfalso; auto|].
  rewrite IH by tauto. reflexivity.
Qed.

Lemma split_nl_lines_noNL s : Forall (fun l => ~ In NL l) (split_nl s).
Proof.
  induction s as [|c r IH]; simpl; [repeat constructor; auto|].
  destruct (N.eqb_spec c NL) as [->|Hc]; [constructor; auto|].
  destruct (split_nl r) as [|l ls]; [repeat constructor; simpl; intuition|].
  inversion IH; subst. constructor; [|assumption]. simpl. intuition.
Qed.

Lemma join_split_nl s : join_nl (split_nl s) = s.
Proof.
  induction s as [|c r IH]; simpl; [reflexivity|].
  destruct (N.eqb_spec c NL) as [->|Hc].
  - generalize (split_nl_nonempty r). destruct (split_nl r) eqn:E; [contradiction|].
    intros _. simpl in *. now rewrite IH.
  - generalize (split_nl_nonempty r). destruct (split_nl r) as [|l ls] eqn:E; [contradiction|].
    intros _. simpl in *. destruct ls; simpl in *; now rewrite <- IH.
Qed.

Lemma body_of_split s : body_of (split_nl s) = s ++ [NL].
Proof.
  unfold body_of. induction s as [|c r IH]; simpl; [reflexivity|].
  destruct (N.eqb_spec c NL) as [->|Hc]; simpl; [now rewrite IH|].
  generalize (split_nl_nonempty r). destruct (split_nl r) as [|l ls]; [contradiction|].
  intros _. simpl in *. now rewrite <- IH, <- !app_assoc.
Qed.

Lemma body_of_app a b : body_of (a ++ b) = body_of a ++ body_of b.
Proof. unfold body_of. now rewrite map_app, concat_app. Qed.

(** the text of a joined list of parts: whole lines before and after a given part *)
Lemma join_nl_cons x b : join_nl (x :: b) = x ++ concat (map (fun l => NL :: l) b).
Proof.
  revert x. induction b as [|z b IHb]; intros x.
  - simpl. now rewrite app_nil_r.
  - change (join_nl (x :: z :: b)) with (x ++ NL :: join_nl (z :: b)). rewrite IHb. reflexivity.
Qed.

Lemma join_nl_split a x b :
  join_nl (a ++ x :: b) = body_of a ++ x ++ concat (map (fun l => NL :: l) b).
Proof.
  induction a as [|y a IH].
  - apply join_nl_cons.
  - change ((y :: a) ++ x :: b) with (y :: (a ++ x :: b)).
    assert (E : join_nl (y :: a ++ x :: b) = y ++ NL :: join_nl (a ++ x :: b)).
    { destruct a; reflexivity. }
    rewrite E, IH. unfold body_of. simpl. now rewrite <- !app_assoc.
Qed.

(* ------------------------------------------------------------------ *)
(** * strip *)

Lemma lstrip_by_spec p s : exists a, s = a ++ lstrip_by p s /\ Forall (fun c => p c = true) a.
Proof.
  induction s as [|c r [a [E F]]]; simpl.
  - exists []. auto.
  - destruct (p c) eqn:Hc.
    + exists (c :: a). split; [simpl; congruence|constructor; auto].
    + exists []. auto.
Qed.

Lemma lstrip_by_head p s : match lstrip_by p s with [] => True | c :: _ => p c = false end.
Proof.
  induction s as [|c r IH]; simpl; [exact I|]. destruct (p c) eqn:E; [exact IH|exact E].
Qed.

Lemma rstrip_by_spec p s : exists b, s = rstrip_by p s ++ b /\ Forall (fun c => p c = true) b.
Proof.
  unfold rstrip_by. destruct (lstrip_by_spec p (rev s)) as [a [E F]].
  exists (rev a). split.
  - rewrite <- (rev_involutive s), E at 1. now rewrite rev_app_distr.
  - apply Forall_rev. exact F.
Qed.

Lemma strip_spec s :
  exists a b, s = a ++ strip s ++ b /\ Forall (fun c => is_space c = true) a /\ Forall (fun c => is_space c = true) b.
Proof.
  unfold strip. destruct (lstrip_by_spec is_space s) as [a [E F]].
  destruct (rstrip_by_spec is_space (lstrip_by is_space s)) as [b [E' F']].
  exists a, b. split; [|auto]. rewrite <- E'. exact E.
Qed.

(* ------------------------------------------------------------------ *)
(** * decimal candidates *)

Lemma N_of_ascii_inj a b : N_of_ascii a = N_of_ascii b -> a = b.
Proof. intros H. apply (f_equal ascii_of_N) in H. now rewrite !ascii_N_embedding in H. Qed.

Lemma of_bytes_inj a b : of_bytes a = of_bytes b -> a = b.
Proof.
  unfold of_bytes. revert b. induction a as [|x a IH]; destruct b; simpl; try easy.
  intros [= H1 H2]. f_equal; [now apply N_of_ascii_inj|now apply IH].
Qed.

Lemma str_of_nat_inj a b : str_of_nat a = str_of_nat b -> a = b.
Proof. unfold str_of_nat. intros H%of_bytes_inj. now apply dec_of_nat_inj. Qed.

Lemma str_of_nat_nonempty n : str_of_nat n <> [].
Proof.
  unfold str_of_nat, of_bytes, dec_of_nat. generalize (dec_of_Z_nonempty (Z.of_nat n)).
  destruct (dec_of_Z (Z.of_nat n)); [contradiction|discriminate].
Qed.

Definition is_digit_N (c : N) : bool := N.leb 48 c && N.leb c 57.

Lemma digit_N c : is_digit c = true -> is_digit_N (N_of_ascii c) = true.
Proof.
  unfold is_digit, is_digit_N. intros [H1 H2]%andb_true_iff.
  apply Nat.leb_le in H1, H2. apply andb_true_iff.
  assert (E : N.to_nat (N_of_ascii c) = nat_of_ascii c) by reflexivity.
  split; apply N.leb_le; lia.
Qed.

Lemma str_of_nat_digits n : Forall (fun c => is_digit_N c = true) (str_of_nat n).
Proof.
  unfold str_of_nat, of_bytes. apply Forall_map.
  eapply Forall_impl; [|apply dec_of_nat_chars]. intros c. apply digit_N.
Qed.

Lemma eof_cand_inj p i j : eof_cand p i = eof_cand p j -> i = j.
Proof.
  destruct i, j; simpl; intros H; try reflexivity.
  - exfalso. rewrite <- (app_nil_r p) in H at 1. apply app_inv_head in H.
    symmetry in H. now apply str_of_nat_nonempty in H.
  - exfalso. rewrite <- (app_nil_r p) in H at 2. apply app_inv_head in H.
    now apply str_of_nat_nonempty in H.
  - apply app_inv_head in H. now apply str_of_nat_inj.
Qed.

(** a character that is not a digit and not in the prefix is not in any candidate *)
Lemma eof_cand_chars p i c : ~ In c p -> is_digit_N c = false -> ~ In c (eof_cand p i).
Proof.
  intros Hp Hd. destruct i; simpl; [exact Hp|].
  rewrite in_app_iff. intros [H|H]; [auto|].
  generalize (str_of_nat_digits (S i)). rewrite Forall_forall. intros F. apply F in H. congruence.
Qed.

(* ------------------------------------------------------------------ *)
(** * the EOF search: pigeonhole *)

Lemma cands_nodup p n : NoDup (map (eof_cand p) (seq 0 n)).
Proof.
  apply FinFun.Injective_map_NoDup; [|apply seq_NoDup].
  intros i j. apply eof_cand_inj.
Qed.

Lemma eof_search_spec p lines : forall fuel i,
  (forall j, j < i -> In (eof_cand p j) lines) ->
  fuel + i = S (List.length lines) ->
  exists k, eof_search fuel p lines i = EofIs (eof_cand p k) /\ ~ In (eof_cand p k) lines /\
            (forall j, j < k -> In (eof_cand p j) lines).
Proof.
  induction fuel as [|f IH]; intros i Hall Hf.
  - exfalso. simpl in Hf. subst i.
    assert (Hincl : incl (map (eof_cand p) (seq 0 (S (List.length lines)))) lines).
    { intros x [j [<- Hj]]%in_map_iff. apply in_seq in Hj. apply Hall. lia. }
    apply NoDup_incl_length in Hincl; [|apply cands_nodup].
    rewrite map_length, seq_length in Hincl. lia.
  - simpl. destruct (mem_str (eof_cand p i) lines) eqn:E.
    + apply IH; [|lia]. intros j Hj. destruct (Nat.eq_dec j i) as [->|]; [now apply mem_str_In|apply Hall; lia].
    + exists i. split; [reflexivity|]. split; [now apply mem_str_not_In|exact Hall].
Qed.

Lemma get_command_eof_spec command p :
  exists k, get_command_eof command p = EofIs (eof_cand p k) /\
            ~ In (eof_cand p k) (split_nl command) /\
            (forall j, j < k -> In (eof_cand p j) (split_nl command)) /\
            k <= List.length (split_nl command).
Proof.
  unfold get_command_eof.
  destruct (eof_search_spec p (split_nl command) (S (List.length (split_nl command))) 0) as [k [E [H1 H2]]];
    [intros j Hj; lia|lia|].
  exists k. repeat split; auto.
  (* k candidates, all distinct, all among the lines *)
  assert (Hincl : incl (map (eof_cand p) (seq 0 k)) (split_nl command)).
  { intros x [j [<- Hj]]%in_map_iff. apply in_seq in Hj. apply H2. lia. }
  apply NoDup_incl_length in Hincl; [|apply cands_nodup].
  now rewrite map_length, seq_length in Hincl.
Qed.

(* ------------------------------------------------------------------ *)
(** * the here-document *)

Lemma find_heredoc_op_at p r : ~ In 60%N p -> find_heredoc_op (p ++ [60; 60; 34]%N ++ r) = Some (p, r).
Proof.
  induction p as [|c p IH]; intros H.
  - reflexivity.
  - assert (Hc : c <> 60%N) by (intros ->; apply H; now left).
    change ((c :: p) ++ [60; 60; 34]%N ++ r) with (c :: (p ++ [60; 60; 34]%N ++ r)).
    cbn [find_heredoc_op starts_with].
    destruct (N.eqb_spec 60 c) as [E|_]; [congruence|]. simpl andb. cbv iota.
    rewrite IH; [reflexivity|]. intros Hin. apply H. now right.
Qed.

Lemma until_quote_at d : ~ In 34%N d -> until_quote (d ++ [34%N]) = Some (d, []).
Proof.
  induction d as [|c d IH]; intros H; simpl; [reflexivity|].
  destruct (N.eqb_spec c 34) as [->|_]; [exfalso; apply H; now left|].
  rewrite IH; [reflexivity|]. intros Hin. apply H. now right.
Qed.

Lemma heredoc_op_at p d : ~ In 60%N p -> ~ In 34%N d ->
  heredoc_op (p ++ [60; 60; 34]%N ++ d ++ [34%N]) = Some (p, d).
Proof.
  intros Hp Hd. unfold heredoc_op. rewrite find_heredoc_op_at by assumption.
  now rewrite until_quote_at.
Qed.

Lemma sh_scan_body cmd d ls : forall acc rest, ~ In d ls ->
  sh_scan (Some (cmd, d, acc)) (ls ++ d :: rest)
  = sh_cons (ShHeredoc cmd d (body_of (rev acc ++ ls))) (sh_scan None rest).
Proof.
  induction ls as [|l ls IH]; intros acc rest H; simpl.
  - now rewrite str_eqb_refl, app_nil_r.
  - destruct (str_eqb l d) eqn:E; [apply str_eqb_eq in E; exfalso; apply H; now left|].
    rewrite IH by (intros Hin; apply H; now right). simpl. now rewrite <- app_assoc.
Qed.

Definition cat_cmd : str := lit "cat > ""$COMMAND_FILE"" ".

Lemma tpl_cat_eq : tpl_cat = cat_cmd ++ [60; 60; 34]%N.
Proof. vm_compute. reflexivity. Qed.

Lemma cat_cmd_no_lt : ~ In 60%N cat_cmd.
Proof. vm_compute. intuition discriminate. Qed.

Lemma NL_not_in_lit_lines :
  ~ In NL (lit "(") /\ ~ In NL (lit "# Save command to temp file.") /\ ~ In NL (lit "COMMAND_FILE=""$(mktemp)""")
  /\ ~ In NL tpl_cat.
Proof. repeat split; vm_compute; intuition discriminate. Qed.

Definition tail_text : str :=
  ln "" ++ ln "# Execute temp file." ++ ln "chmod +x ""$COMMAND_FILE""" ++ ln """$COMMAND_FILE"""
  ++ ln "RETCODE=$?" ++ ln "" ++ ln "# Remove temp file." ++ ln "rm ""$COMMAND_FILE""" ++ ln ""
  ++ ln "exit $RETCODE" ++ ln ")".

(** The wrapper produced from the shipped template, read by the shell model. *)
Lemma wrapper_read command e :
  ~ In e (split_nl command) -> ~ In 34%N e -> ~ In NL e ->
  sh_read (render_template shipped_template command e) = ShOk (wrapper_items e (command ++ [NL])).
Proof.
  intros Hfresh Hq Hnl.
  destruct NL_not_in_lit_lines as [N1 [N2 [N3 N4]]].
  assert (Hx : ~ In NL (tpl_cat ++ e ++ [34%N])).
  { rewrite !in_app_iff. intros [H|[H|H]]; [auto|auto|]. simpl in H. destruct H as [H|[]]. discriminate. }
  unfold sh_read.
  assert (E : render_template shipped_template command e =
              lit "(" ++ NL :: (lit "# Save command to temp file." ++ NL ::
              (lit "COMMAND_FILE=""$(mktemp)""" ++ NL :: ((tpl_cat ++ e ++ [34%N]) ++ NL ::
              (command ++ NL :: (e ++ NL :: tail_text)))))).
  { unfold render_template, shipped_template, tpl_head, tpl_tail, tail_text, ln. simpl concat.
    repeat rewrite <- app_assoc. simpl. reflexivity. }
  rewrite E. clear E.
  rewrite !split_nl_app_nl.
  rewrite (split_nl_noNL _ N1), (split_nl_noNL _ N2), (split_nl_noNL _ N3), (split_nl_noNL _ Hx),
          (split_nl_noNL _ Hnl).
  cbn [app].
  (* three opaque lines *)
  assert (H1 : heredoc_op (lit "(") = None) by (vm_compute; reflexivity).
  assert (H2 : heredoc_op (lit "# Save command to temp file.") = None) by (vm_compute; reflexivity).
  assert (H3 : heredoc_op (lit "COMMAND_FILE=""$(mktemp)""") = None) by (vm_compute; reflexivity).
  assert (H4 : heredoc_op (tpl_cat ++ e ++ [34%N]) = Some (cat_cmd, e)).
  { rewrite tpl_cat_eq, <- app_assoc. apply heredoc_op_at; [apply cat_cmd_no_lt|assumption]. }
  cbn [sh_scan]. rewrite H1, H2, H3, H4.
  rewrite sh_scan_body by assumption.
  simpl rev. simpl app at 1. rewrite body_of_split.
  assert (Ht : sh_scan None (split_nl tail_text) =
               ShOk [ShLine []; ShLine (lit "# Execute temp file."); ShLine (lit "chmod +x ""$COMMAND_FILE""");
                     ShLine (lit """$COMMAND_FILE"""); ShLine (lit "RETCODE=$?"); ShLine [];
                     ShLine (lit "# Remove temp file."); ShLine (lit "rm ""$COMMAND_FILE"""); ShLine [];
                     ShLine (lit "exit $RETCODE"); ShLine (lit ")"); ShLine []]).
  { vm_compute. reflexivity. }
  rewrite Ht. reflexivity.
Qed.

(* ------------------------------------------------------------------ *)
(** * nested values *)

Section nv_ind.
  Variable P : nv -> Prop.
  Hypothesis HLeaf : forall l, P (Leaf l).
  Hypothesis HList : forall xs, Forall P xs -> P (NList xs).
  Hypothesis HTuple : forall xs, Forall P xs -> P (NTuple xs).
  Hypothesis HDict : forall kvs, Forall (fun kv => P (fst kv) /\ P (snd kv)) kvs -> P (NDict kvs).

  Fixpoint nv_ind' (v : nv) : P v :=
    match v with
    | Leaf l => HLeaf l
    | NList xs => HList xs ((fix go (l : list nv) : Forall P l :=
                               match l with [] => Forall_nil _ | x :: r => Forall_cons _ (nv_ind' x) (go r) end) xs)
    | NTuple xs => HTuple xs ((fix go (l : list nv) : Forall P l :=
                               match l with [] => Forall_nil _ | x :: r => Forall_cons _ (nv_ind' x) (go r) end) xs)
    | NDict kvs => HDict kvs ((fix go (l : list (nv * nv)) : Forall (fun kv => P (fst kv) /\ P (snd kv)) l :=
                               match l with
                               | [] => Forall_nil _
                               | kv :: r => Forall_cons _ (conj (nv_ind' (fst kv)) (nv_ind' (snd kv))) (go r)
                               end) kvs)
    end.
End nv_ind.

Lemma flat_map_map {A B C} (f : A -> B) (g : B -> list C) l : flat_map g (map f l) = flat_map (fun x => g (f x)) l.
Proof. induction l; simpl; congruence. Qed.

Lemma flat_map_ext_Forall {A B} (f g : A -> list B) l : Forall (fun x => f x = g x) l -> flat_map f l = flat_map g l.
Proof. induction 1; simpl; congruence. Qed.

Lemma map_ext_Forall {A B} (f g : A -> B) l : Forall (fun x => f x = g x) l -> map f l = map g l.
Proof. induction 1; simpl; congruence. Qed.

Lemma map_flat_map {A B C} (f : B -> C) (g : A -> list B) l : map f (flat_map g l) = flat_map (fun x => map f (g x)) l.
Proof. induction l; simpl; [reflexivity|]. now rewrite map_app, IHl. Qed.

Lemma shape_map_ov f v : shape_ov (map_ov f v) = shape_nv v.
Proof.
  induction v using nv_ind'; simpl; try reflexivity.
  - f_equal. rewrite map_map. now apply map_ext_Forall.
  - f_equal. rewrite map_map. now apply map_ext_Forall.
  - f_equal. rewrite map_map. apply map_ext_Forall. eapply Forall_impl; [|exact H].
    intros [k v] [H1 H2]. simpl in *. congruence.
Qed.

Lemma shape_map_nv f v : shape_nv (map_nv f v) = shape_nv v.
Proof.
  induction v using nv_ind'; simpl; try reflexivity.
  - f_equal. rewrite map_map. now apply map_ext_Forall.
  - f_equal. rewrite map_map. now apply map_ext_Forall.
  - f_equal. rewrite map_map. apply map_ext_Forall. eapply Forall_impl; [|exact H].
    intros [k v] [H1 H2]. simpl in *. congruence.
Qed.

Lemma leaves_map_ov f v : oleaves_lr (map_ov f v) = map f (leaves_lr v).
Proof.
  induction v using nv_ind'; simpl; try reflexivity.
  - rewrite flat_map_map, map_flat_map. now apply flat_map_ext_Forall.
  - rewrite flat_map_map, map_flat_map. now apply flat_map_ext_Forall.
  - rewrite !flat_map_map, map_app, !map_flat_map. f_equal; apply flat_map_ext_Forall;
      (eapply Forall_impl; [|exact H]); intros [k v] [H1 H2]; simpl in *; assumption.
Qed.

Lemma leaves_map_nv f v : leaves_lr (map_nv f v) = map f (leaves_lr v).
Proof.
  induction v using nv_ind'; simpl; try reflexivity.
  - rewrite flat_map_map, map_flat_map. now apply flat_map_ext_Forall.
  - rewrite flat_map_map, map_flat_map. now apply flat_map_ext_Forall.
  - rewrite !flat_map_map, map_app, !map_flat_map. f_equal; apply flat_map_ext_Forall;
      (eapply Forall_impl; [|exact H]); intros [k v] [H1 H2]; simpl in *; assumption.
Qed.

(* ------------------------------------------------------------------ *)
(** * staging parts *)

Definition is_staging (l : leaf) : bool := match l with LStaging _ _ _ => true | _ => false end.

Definition stage_part (l : leaf) : part :=
  match l with LStaging k lo re => render_stage k lo re | _ => PSkip end.
Definition unstage_part (l : leaf) : part :=
  match l with LStaging k lo re => render_unstage k lo re | _ => PSkip end.

Lemma stage_inputs_some ls : forallb is_staging ls = true -> stage_inputs ls = Some (map stage_part ls).
Proof.
  induction ls as [|l ls IH]; simpl; [reflexivity|].
  intros [H1 H2]%andb_true_iff. destruct l; try discriminate. now rewrite IH.
Qed.

Lemma stage_inputs_none ls : forallb is_staging ls = false -> stage_inputs ls = None.
Proof.
  induction ls as [|l ls IH]; simpl; [discriminate|].
  destruct l; simpl; try reflexivity. intros H. now rewrite IH.
Qed.

Lemma unstage_outputs_eq ls : unstage_outputs ls = map unstage_part (filter is_staging ls).
Proof. induction ls as [|l ls IH]; simpl; [reflexivity|]. destruct l; simpl; congruence. Qed.

Definition is_user (p : part) : bool := match p with PUser _ => true | _ => false end.

Lemma stage_part_not_user l : is_user (stage_part l) = false.
Proof. destruct l; simpl; try reflexivity. unfold render_stage. now destruct (str_eqb local remote). Qed.
Lemma unstage_part_not_user l : is_user (unstage_part l) = false.
Proof. destruct l; simpl; try reflexivity. unfold render_unstage. now destruct (str_eqb local remote). Qed.
