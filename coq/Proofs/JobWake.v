(** No lost wake-up (C09): whenever a job waits for resources, some job holds units (its
    release re-checks the waiting list) or a (re-)nomination event is queued. *)
From Coq Require Import List ZArith Bool Arith Lia Permutation.
From RV Require Import Model.JobMachine Proofs.JobBase Proofs.JobRes Proofs.JobRes2 Proofs.JobRes3.
Import ListNotations.
Open Scope list_scope.

Definition has_holder (s : state) : bool := existsb jholds (jobs s).

Definition Wake (s : state) : Prop :=
  waiting s <> [] -> has_holder s = true \/ exec_ids (queue s) <> [].

Definition feasible (c : config) (l : list (nat * Z)) : Prop := within c (fun _ => 0%Z) l = true.
Definition Feas (c : config) (s : state) : Prop :=
  forall j x, getj s j = Some x -> feasible c (jlimits x).

Lemma held_no_holder l r : existsb jholds l = false -> held_list l r = 0%Z.
Proof.
  induction l as [|x l IH]; simpl; auto. intros H. apply orb_false_iff in H. destruct H as [H1 H2].
  unfold contrib. rewrite H1, IH by assumption. reflexivity.
Qed.

Lemma forallb_ext' {A} (f g : A -> bool) l : (forall x, f x = g x) -> forallb f l = forallb g l.
Proof. intros H. induction l as [|a l IH]; simpl; auto. now rewrite H, IH. Qed.

Lemma forallb_map' {A B} (f : B -> bool) (g : A -> B) l : forallb f (map g l) = forallb (fun x => f (g x)) l.
Proof. induction l as [|a l IH]; simpl; auto. now rewrite IH. Qed.

Lemma within_ext c u u' l : (forall r, u r = u' r) -> within c u l = within c u' l.
Proof. intros H. unfold within. apply forallb_ext'. intros p. now rewrite H. Qed.

Lemma demand_nil r : demand [] r = 0%Z.
Proof. reflexivity. Qed.

Lemma within_add_nil c u l : within c u (add_limits l []) = within c u l.
Proof.
  unfold add_limits. simpl. rewrite app_nil_r. unfold within. rewrite forallb_map'.
  apply forallb_ext'. intros p. simpl. rewrite demand_nil, Z.add_0_r. reflexivity.
Qed.

(** ** holders and queue under the primitive updates *)
Lemma has_holder_set_nth l n x y :
  nth_error l n = Some x -> jholds y = jholds x -> existsb jholds (set_nth l n y) = existsb jholds l.
Proof.
  revert n. induction l as [|a l IH]; intros [|n]; simpl; try discriminate.
  - intros [= ->] ->. reflexivity.
  - intros H1 H2. f_equal. now apply IH.
Qed.

Lemma has_holder_set_true l n x y :
  nth_error l n = Some x -> jholds y = true -> existsb jholds (set_nth l n y) = true.
Proof.
  revert n. induction l as [|a l IH]; intros [|n]; simpl; try discriminate.
  - intros _ ->. reflexivity.
  - intros H1 H2. rewrite (IH n H1 H2). apply orb_true_r.
Qed.

Lemma wake_same s s' :
  waiting s' = waiting s -> has_holder s' = has_holder s ->
  (exec_ids (queue s) <> [] -> exec_ids (queue s') <> []) -> Wake s -> Wake s'.
Proof. unfold Wake. intros -> -> Hq W Hne. destruct (W Hne); auto. Qed.

Lemma requeue_holder s j : has_holder (requeue s j) = has_holder s.
Proof.
  unfold requeue. destruct (getj s j) as [x|] eqn:Hx; auto.
  unfold has_holder. simpl. eapply has_holder_set_nth; eauto.
Qed.

Lemma requeue_waiting s j : waiting (requeue s j) = waiting s.
Proof. unfold requeue. destruct (getj s j); reflexivity. Qed.

Lemma requeue_exec_mono s j : exec_ids (queue s) <> [] -> exec_ids (queue (requeue s j)) <> [].
Proof.
  unfold requeue. destruct (getj s j); auto. simpl. rewrite exec_ids_app.
  intros H E. apply app_eq_nil in E. tauto.
Qed.

Lemma requeue_list_props l : forall s,
  has_holder (fold_left requeue l s) = has_holder s /\
  waiting (fold_left requeue l s) = waiting s /\
  (exec_ids (queue s) <> [] -> exec_ids (queue (fold_left requeue l s)) <> []).
Proof.
  induction l as [|j l IH]; intros s; simpl; auto.
  destruct (IH (requeue s j)) as (A & B & C). rewrite A, B, requeue_holder, requeue_waiting.
  repeat split; auto. intros H. apply C. now apply requeue_exec_mono.
Qed.

Lemma requeue_exec_new s j x : getj s j = Some x -> exec_ids (queue (requeue s j)) <> [].
Proof.
  intros Hx. unfold requeue. rewrite Hx. simpl. rewrite exec_ids_app. simpl.
  intros E. apply app_eq_nil in E. destruct E as [_ E]. discriminate.
Qed.

Section W.
Variable c : config.
Hypothesis Hfix : release_if_holds (vr c) = true.
Hypothesis Hlim : forall r, (0 <= limit_of c r)%Z.

(** The heart: after _check_jobs_pending_limits nobody is left waiting without a waker. *)
Lemma wake_check_pending s : Inv c s -> Feas c s -> Wake (check_pending_limits c s).
Proof.
  intros I F. unfold check_pending_limits.
  destruct (split_ready c s (waiting s) []) as [ready notready] eqn:E.
  destruct (requeue_list_props ready (set_waiting s notready)) as (A & B & C).
  unfold Wake. rewrite A, B. simpl. change (has_holder (set_waiting s notready)) with (has_holder s).
  intros Hne. destruct (has_holder s) eqn:Hh; auto. right.
  (* nobody holds anything: limits_used is 0 everywhere, so the first waiting job is ready *)
  destruct (waiting s) as [|j0 w] eqn:Ew.
  { simpl in E. injection E as <- <-. contradiction. }
  assert (Hj0 : j0 < length (jobs s)).
  { apply (i_bound _ _ I). left. unfold pend. rewrite Ew. apply in_or_app. right. now left. }
  destruct (getj s j0) as [x|] eqn:Hx; [|unfold getj in Hx; apply nth_error_None in Hx; lia].
  simpl in E. rewrite Hx in E.
  assert (Hw : within c (used s) (add_limits (jlimits x) []) = true).
  { rewrite within_add_nil. rewrite (within_ext c (used s) (fun _ => 0%Z)); [apply (F _ _ Hx)|].
    intros r. rewrite (i_used _ _ I), held_eq. now apply held_no_holder. }
  rewrite Hw in E. destruct (split_ready c s w (add_limits (jlimits x) [])) as [a b]. injection E as <- <-.
  simpl. apply (proj2 (proj2 (requeue_list_props a _))).
  apply (requeue_exec_new _ _ x). exact Hx.
Qed.

Lemma wake_skip s : recheck_on_skip (vr c) = true -> Inv c s -> Feas c s -> Wake (skip_wakeup c s).
Proof. intros Hr I F. unfold skip_wakeup. rewrite Hr. now apply wake_check_pending. Qed.
End W.
