(** C31 — facts about the assoc-list maps and [join_path] of Model/ValueStore.v. *)
From Coq Require Import List ZArith Bool Ascii Lia.
From RV Require Import Base.Decimal Base.Lit Model.ValueStore.
Import ListNotations.
Open Scope list_scope.

Lemma bytes_eq_iff a b : bytes_eq a b = true <-> a = b.
Proof.
  revert b. induction a as [|x a IH]; destruct b as [|y b]; simpl; split; intros E; try discriminate; auto.
  - apply andb_true_iff in E. destruct E as [E1 E2]. apply Ascii.eqb_eq in E1. apply IH in E2. congruence.
  - injection E as -> ->. apply andb_true_iff. split; [apply Ascii.eqb_refl|now apply IH].
Qed.
Lemma bytes_eq_refl a : bytes_eq a a = true.
Proof. now apply bytes_eq_iff. Qed.
Lemma bytes_eq_neq a b : a <> b -> bytes_eq a b = false.
Proof. intros N. destruct (bytes_eq a b) eqn:E; auto. apply bytes_eq_iff in E. contradiction. Qed.

Section Maps.
  Context {A : Type}.
  Implicit Types (m : list (bytes * A)) (k : bytes) (a : A).

  Lemma lookup_In k m a : lookup k m = Some a -> In (k, a) m.
  Proof.
    induction m as [|[k' a'] m IH]; simpl; [discriminate|].
    destruct (bytes_eq k k') eqn:E.
    - intros [= ->]. apply bytes_eq_iff in E. subst. now left.
    - intros L. right. auto.
  Qed.

  Lemma lookup_set_same k a m : lookup k (set_kv k a m) = Some a.
  Proof.
    induction m as [|[k' a'] m IH]; simpl.
    - now rewrite bytes_eq_refl.
    - destruct (bytes_eq k k') eqn:E; simpl; rewrite E; auto.
  Qed.

  Lemma lookup_set_other k k' a m : k <> k' -> lookup k' (set_kv k a m) = lookup k' m.
  Proof.
    intros N. induction m as [|[k2 a2] m IH]; simpl.
    - rewrite bytes_eq_neq; auto.
    - destruct (bytes_eq k k2) eqn:E; simpl.
      + apply bytes_eq_iff in E. subst k2. rewrite bytes_eq_neq; auto.
      + destruct (bytes_eq k' k2); auto.
  Qed.

  Lemma lookup_set_some k k' a m x : lookup k' m = Some x -> exists y, lookup k' (set_kv k a m) = Some y.
  Proof.
    intros L. destruct (bytes_eq k k') eqn:E.
    - apply bytes_eq_iff in E. subst. rewrite lookup_set_same. eauto.
    - rewrite lookup_set_other; eauto. intros ->. rewrite bytes_eq_refl in E. discriminate.
  Qed.

  Lemma In_set_kv k a m k' a' : In (k', a') (set_kv k a m) -> (k' = k /\ a' = a) \/ In (k', a') m.
  Proof.
    induction m as [|[k2 a2] m IH]; simpl.
    - intros [[= <- <-]|[]]. auto.
    - destruct (bytes_eq k k2) eqn:E; simpl.
      + apply bytes_eq_iff in E. subst k2. intros [[= <- <-]|I]; auto.
      + intros [E2|I]; auto. destruct (IH I); auto.
  Qed.

  Lemma In_remove_k k m x : In x (remove_k k m) -> In x m.
  Proof.
    induction m as [|[k2 a2] m IH]; simpl; auto.
    destruct (bytes_eq k k2); simpl; intuition.
  Qed.

  Lemma lookup_remove_same k m : lookup k (remove_k k m) = None.
  Proof.
    induction m as [|[k2 a2] m IH]; simpl; auto.
    destruct (bytes_eq k k2) eqn:E; simpl; auto. now rewrite E.
  Qed.

  Lemma lookup_remove_other k k' m : k <> k' -> lookup k' (remove_k k m) = lookup k' m.
  Proof.
    intros N. induction m as [|[k2 a2] m IH]; simpl; auto.
    destruct (bytes_eq k k2) eqn:E; simpl.
    - apply bytes_eq_iff in E. subst k2. rewrite bytes_eq_neq; auto.
    - now rewrite IH.
  Qed.

  Lemma set_kv_idem k a m : set_kv k a (set_kv k a m) = set_kv k a m.
  Proof.
    induction m as [|[k2 a2] m IH]; simpl.
    - now rewrite bytes_eq_refl.
    - destruct (bytes_eq k k2) eqn:E; simpl; rewrite E; auto. now rewrite IH.
  Qed.
End Maps.

Lemma blen_nil d : blen d = 0%Z <-> d = [].
Proof. unfold blen. destruct d; simpl; split; intros; try discriminate; auto; lia. Qed.

Lemma join_path_nonempty base name : name <> [] -> join_path base name <> [].
Proof.
  destruct name as [|c name]; [congruence|]. intros _. unfold join_path.
  destruct (Ascii.eqb c slash); [discriminate|].
  destruct base as [|b base]; [discriminate|].
  destruct (Ascii.eqb (last (b :: base) slash) slash); simpl; discriminate.
Qed.
