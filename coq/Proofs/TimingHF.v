(** Programs without Handles: every reachable state is "good" (preprocessing is the identity), for
    every configuration of `_preprocess_args` — so all complete runs agree (Proofs/TimingInv.v). *)
From Coq Require Import List ZArith Bool Arith Lia.
From RV Require Import Model.Timing Proofs.TimingBase Proofs.TimingSem Proofs.TimingStep Proofs.TimingInv.
Import ListNotations.
Open Scope list_scope.

Fixpoint hf_v (v : value) : bool :=
  match v with
  | VInt _ => true
  | VList l => forallb hf_v l
  | _ => false
  end.

Fixpoint hf_e (e : expr) : bool :=
  match e with
  | EVal v => hf_v v
  | EList l => forallb hf_e l
  | ECall _ a => forallb hf_e a
  end.

Definition hf_l (l : list value) : Prop := forallb hf_v l = true.

Section Prep.
  Variable c : cfg.

  Lemma prep_v_VList f l :
    prep_v c f (VList l) = let '(f', l') := prep_l c f l in (f', VList l').
  Proof.
    simpl.
    match goal with |- (let '(_, _) := ?g f l in _) = _ =>
      assert (E : forall f, g f l = prep_l c f l) end.
    { induction l as [|x l IH]; intro f0; simpl; auto.
      destruct (prep_v c f0 x) as [f1 x']. rewrite IH. reflexivity. }
    rewrite E. reflexivity.
  Qed.

  Lemma keys_hf k : forall v, hf_v v = true -> keys_v c k v = v.
  Proof.
    induction v as [n|l IH|n|h k0 IH|n t l IH] using value_ind'; simpl; intro H; try discriminate; auto.
    f_equal. induction IH as [|x l Hx Hl IHl]; simpl in *; auto.
    apply andb_true_iff in H as [H1 H2]. rewrite Hx, IHl; auto.
  Qed.

  Lemma keys_l_hf k l : hf_l l -> keys_l c k l = l.
  Proof.
    unfold hf_l, keys_l. induction l as [|x l IH]; simpl; auto. intro H. apply andb_true_iff in H as [H1 H2].
    rewrite keys_hf, IH; auto.
  Qed.

  Lemma prep_hf : forall v f, hf_v v = true -> prep_v c f v = (f, v).
  Proof.
    induction v as [n|l IH|n|h k0 IH|n t l IH] using value_ind'; intros f H; try discriminate; auto.
    rewrite prep_v_VList. simpl in H.
    assert (E : prep_l c f l = (f, l)).
    { revert f. induction IH as [|x l Hx Hl IHl]; intro f; simpl in *; auto.
      apply andb_true_iff in H as [H1 H2]. rewrite Hx, IHl; auto. }
    now rewrite E.
  Qed.

  Lemma prep_l_hf l f : hf_l l -> prep_l c f l = (f, l).
  Proof.
    unfold hf_l. revert f. induction l as [|x l IH]; intros f H; simpl in *; auto.
    apply andb_true_iff in H as [H1 H2]. rewrite prep_hf, IH; auto.
  Qed.
End Prep.

Lemma post_v_hf t pre : forall v, hf_v v = true -> post_v t pre v = v.
Proof.
  induction v as [n|l IH|n|h k0 IH|n t' l IH] using value_ind'; simpl; intro H; try discriminate; auto.
  f_equal. induction IH as [|x l Hx Hl IHl]; simpl in *; auto.
  apply andb_true_iff in H as [H1 H2]. rewrite Hx, IHl; auto.
Qed.

Lemma post_e_hf t pre : forall e, hf_e e = true -> post_e t pre e = e.
Proof.
  induction e as [v|l IH|t' l IH] using expr_ind'; simpl; intro H; auto.
  - now rewrite post_v_hf.
  - f_equal. induction IH as [|x l Hx Hl IHl]; simpl in *; auto.
    apply andb_true_iff in H as [H1 H2]. rewrite Hx, IHl; auto.
Qed.

Lemma subst_hf calls rs :
  (forall i r, nth_error rs i = Some (Some r) -> hf_v r = true) ->
  forall e v, hf_e e = true -> subst calls rs e = Some v -> hf_v v = true.
Proof.
  intro HR. induction e as [v0|l IH|t l IH] using expr_ind'; simpl; intros v H E.
  - inversion E. now subst.
  - destruct (mapM (subst calls rs) l) as [vs|] eqn:M; simpl in E; try discriminate. inversion E. subst. simpl.
    clear E. revert vs M. induction IH as [|x l Hx Hl IHl]; intros vs M; simpl in *.
    + inversion M. reflexivity.
    + apply andb_true_iff in H as [H1 H2].
      destruct (subst calls rs x) eqn:Sx; try discriminate. destruct (mapM (subst calls rs) l) eqn:Ml; try discriminate.
      inversion M. subst. simpl. rewrite (Hx _ H1 eq_refl). simpl. now apply IHl.
  - destruct (index_of (t, l) calls) as [i|]; try discriminate.
    destruct (nth_error rs i) as [[r|]|] eqn:N; try discriminate. inversion E. subst. eauto.
Qed.

Lemma mapM_subst_hf calls rs :
  (forall i r, nth_error rs i = Some (Some r) -> hf_v r = true) ->
  forall l vs, forallb hf_e l = true -> mapM (subst calls rs) l = Some vs -> hf_l vs.
Proof.
  intros HR l. unfold hf_l. induction l as [|x l IH]; intros vs H M; simpl in *.
  - inversion M. reflexivity.
  - apply andb_true_iff in H as [H1 H2].
    destruct (subst calls rs x) eqn:Sx; try discriminate. destruct (mapM (subst calls rs) l) eqn:Ml; try discriminate.
    inversion M. subst. simpl. rewrite (subst_hf _ _ HR _ _ H1 Sx). simpl. now apply IH.
Qed.

Definition hf_call (ca : call) : Prop := forallb hf_e (snd ca) = true.

Lemma calls_acc_hf : forall e acc, hf_e e = true -> Forall hf_call acc -> Forall hf_call (calls_acc e acc).
Proof.
  induction e as [v|l IH|t l IH] using expr_ind'; simpl; intros acc H A; auto.
  - revert acc A. induction IH as [|x l Hx Hl IHl]; intros acc A; simpl in *; auto.
    apply andb_true_iff in H as [H1 H2]. apply IHl; auto.
  - destruct (index_of (t, l) acc); auto.
    assert (A' : Forall hf_call (acc ++ [(t, l)])).
    { apply Forall_app. split; [auto | constructor; [exact H | constructor]]. }
    revert A'. generalize (acc ++ [(t, l)]). clear A.
    induction IH as [|x l0 Hx Hl IHl]; intros acc' A'; simpl in *; auto.
    apply andb_true_iff in H as [H1 H2]. apply IHl; auto.
Qed.

Lemma calls_of_hf e : hf_e e = true -> Forall hf_call (calls_of e).
Proof. intro H. apply calls_acc_hf; auto. Qed.

Section HF.
  Variable c : cfg.
  Variable body : nat -> list value -> expr.
  Variable t0 : nat.
  Variable args0 : list value.

  (** the program never makes a Handle *)
  Hypothesis body_hf : forall t args, hf_l args -> hf_e (body t args) = true.
  Hypothesis args0_hf : hf_l args0.

  Definition hf_st (st : status) : Prop :=
    match st with
    | SCreated => True
    | SWait raw pre | SRun raw pre | SColl raw pre _ => hf_l raw /\ pre = raw
    | SEval raw pre e _ _ => hf_l raw /\ pre = raw /\ hf_e e = true
    | SRes raw pre r _ _ => hf_l raw /\ pre = raw /\ hf_v r = true
    end.

  Definition HFinv (s : state) : Prop :=
    forall k kb, get s k = Some kb -> forallb hf_e (j_argx kb) = true /\ hf_st (j_st kb).

  Lemma HF_init : HFinv (init t0 args0).
  Proof.
    intros [|[|k]] kb G; simpl in G; try discriminate. inversion G. subst. simpl. split; auto.
    clear G. unfold hf_l in args0_hf. induction args0 as [|x l IH]; simpl in *; auto.
    apply andb_true_iff in args0_hf as [H1 H2]. rewrite H1. auto.
  Qed.

  Lemma HF_results s kids :
    HFinv s -> forall i r, nth_error (results s kids) i = Some (Some r) -> hf_v r = true.
  Proof.
    intros H i r N. unfold results in N.
    destruct (nth_error kids i) as [k|] eqn:Nk.
    - rewrite (map_nth_error _ _ _ Nk) in N. inversion N as [E].
      destruct (job_res s k) as [[r' n]|] eqn:JR; simpl in E; try discriminate. inversion E. subst.
      apply (job_res_SRes) in JR as (kb & raw & pre & ks & G & S).
      destruct (H _ _ G) as [_ HS]. rewrite S in HS. simpl in HS. tauto.
    - apply nth_error_None in Nk. assert (i < length (map (fun k => option_map fst (job_res s k)) kids))
        by (apply nth_error_Some; congruence). rewrite map_length in H0. lia.
  Qed.

  Lemma HF_good s : HFinv s -> good c s.
  Proof.
    intros H j jb raw pre G R P. destruct (H _ _ G) as [_ HS].
    assert (hf_l raw /\ pre = raw).
    { destruct (j_st jb); simpl in *; try discriminate; inversion R; inversion P; subst; tauto. }
    destruct H0 as [H1 ->]. unfold pre1. destruct (j_parent jb); now rewrite keys_l_hf.
  Qed.

  Lemma HF_step s o s' : HFinv s -> step c body s o = Some s' -> HFinv s'.
  Proof.
    intros H St. apply step_inv in St. intros k kb' G.
    destruct (job_origin _ _ _ _ _ _ _ St G) as [(kb & Gk & (P & T & A) & [E|JS])|(_ & NJ)].
    - destruct (H _ _ Gk) as [H1 H2]. rewrite <- A, E. auto.
    - destruct (H _ _ Gk) as [H1 H2]. rewrite <- A. split; auto.
      inversion JS as [raw0 pre0 st1 Hst Hps Hen Heq
                      | raw0 pre0 e0 kids0 f0 f1 Hst Heq
                      | raw0 pre0 Hst Hnew Heq
                      | raw0 pre0 e0 kids0 f0 r0 rns0 Hst Hsu Hm Heq
                      | raw0 pre0 k0 r0 n0 Hst Hjr Heq].
      + (* entry *)
        assert (R : hf_l raw0).
        { destruct Hst as [[Hst RA]|[pre1 Hst]].
          - unfold raw_args in RA. destruct (j_parent kb) as [p|].
            + destruct (nth_error s p) as [pb|] eqn:Gp; try discriminate.
              destruct (j_st pb) eqn:Sp; try discriminate.
              eapply mapM_subst_hf; [|exact H1|exact RA]. apply HF_results; auto.
            + eapply mapM_subst_hf; [|exact H1|exact RA]. intros i r N. destruct i; discriminate.
          - rewrite Hst in H2. simpl in H2. tauto. }
        assert (Pq : pre0 = raw0).
        { destruct Hps as [[_ Hps]|[[_ Hps]|(p & pb & praw & ppre & e & kids & f & _ & _ & _ & Hps)]].
          - rewrite Hps in H2. simpl in H2. tauto.
          - rewrite Hps. now apply keys_l_hf.
          - rewrite Hps, prep_l_hf; auto. }
        subst pre0. destruct Hen as [->|[->|(k' & -> & _)]]; simpl; auto.
      + rewrite Hst in H2. simpl in *. tauto.
      + rewrite Hst in H2. simpl in *. destruct H2 as [R ->]. repeat split; auto.
        rewrite post_e_hf; auto.
      + rewrite Hst in H2. simpl in *. destruct H2 as (R & -> & He). repeat split; auto.
        eapply subst_hf; [|exact He|exact Hsu]. apply HF_results; auto.
      + rewrite Hst in H2. simpl in *. destruct H2 as (R & ->). repeat split; auto.
        apply job_res_SRes in Hjr as (kb2 & raw2 & pre2 & ks & G2 & S2).
        destruct (H _ _ G2) as [_ HS]. rewrite S2 in HS. simpl in HS. tauto.
    - (* a fresh child: its argument expressions come from a handle-free result expression *)
      destruct NJ as (j0 & jb0 & raw0 & pre0 & i & ca & _ & G0 & S0 & _ & N & ->). simpl. split; auto.
      destruct (H _ _ G0) as [_ HS]. rewrite S0 in HS. simpl in HS. destruct HS as [R ->].
      assert (He : hf_e (post_e (j_task jb0) raw0 (body (j_task jb0) raw0)) = true)
        by (rewrite post_e_hf; auto).
      pose proof (calls_of_hf _ He) as F. rewrite Forall_forall in F. apply F. eapply nth_error_In; eauto.
  Qed.

  Lemma HF_good_run ops : forall s, HFinv s -> good_run c body s ops.
  Proof.
    induction ops as [|o r IH]; intros s H; simpl; split; try apply HF_good; auto.
    destruct (step c body s o) as [s'|] eqn:St; auto. apply IH. eapply HF_step; eauto.
  Qed.

  (** All complete executions of a Handle-free program return the same value and record the same
      root call node (hence the same call-node tree), whatever the order of entries and
      completions, whoever had to wait for limits, whichever duplicates were collapsed. *)
  Theorem handle_free_runs_agree ops1 ops2 s1 s2 r1 n1 r2 n2 :
    run c body (init t0 args0) ops1 = Some s1 -> outcome s1 = Some (r1, n1) ->
    run c body (init t0 args0) ops2 = Some s2 -> outcome s2 = Some (r2, n2) ->
    r1 = r2 /\ n1 = n2.
  Proof.
    intros R1 O1 R2 O2.
    eapply (good_runs_agree c body t0 args0 ops1 ops2 s1 s2); eauto; apply HF_good_run; apply HF_init.
  Qed.
End HF.
