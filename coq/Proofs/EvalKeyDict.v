(** The keyword side of the key: get_arg_defaults, the merged kwargs and the filtered dict,
    characterised as lookup functions. *)
From Coq Require Import List ZArith Ascii Bool Arith Permutation Lia.
From RV Require Import Base.Decimal Model.Bencode Base.HashSpec Proofs.BencodeFacts Proofs.BencodeSort
     Model.EvalKey Proofs.EvalKeyBase.
Import ListNotations.
Open Scope list_scope.

(** * Specification-side helpers *)
Definition default_of (sg : sigt) (k : bytes) : option aval :=
  match assoc k (named_params sg) with Some d => d | None => None end.
(** [k] names a positional parameter that received one of the [na] positional arguments *)
Definition pos_bound (sg : sigt) (na : nat) (k : bytes) : bool := mem k (firstn na (pos_names sg)).
(** what a lookup of [k] in the merged kwargs must give: the keyword argument, else the default
    of a parameter that was not bound positionally *)
Definition kw_lookup (sg : sigt) (c : call) (k : bytes) : option aval :=
  match assoc k (c_kwargs c) with
  | Some a => Some a
  | None => if pos_bound sg (length (c_args c)) k then None else default_of sg k
  end.

Lemma index_firstn k l : forall n,
  match index_of k l with Some j => Nat.ltb j n | None => false end = mem k (firstn n l).
Proof.
  induction l as [|y l IH]; intros n; simpl.
  - now destruct n.
  - destruct n as [|n]; simpl.
    + destruct (bytes_eqb k y); [reflexivity|]. now destruct (index_of k l).
    + destruct (bytes_eqb k y); simpl; [reflexivity|].
      rewrite <- IH. destruct (index_of k l); reflexivity.
Qed.

(** * get_arg_defaults, name-based *)
Definition dlN (skip : bytes -> bool) (keys : list bytes) (l : list (bytes * option aval)) : list (bytes * aval) :=
  flat_map (fun p : bytes * option aval =>
              if skip (fst p) then [] else if mem (fst p) keys then []
              else match snd p with Some v => [(fst p, v)] | None => [] end) l.

Lemma dlN_keys skip keys l k :
  In k (map fst (dlN skip keys l)) -> In k (map fst l) /\ mem k keys = false /\ skip k = false.
Proof.
  induction l as [|[nm d] l IH]; simpl; [tauto|]. unfold dlN in *. simpl.
  rewrite map_app, in_app_iff. intros [Hin|Hin].
  - destruct (skip nm) eqn:S; [destruct Hin|]. destruct (mem nm keys) eqn:M; [destruct Hin|].
    destruct d; [|destruct Hin]. destruct Hin as [<-|[]]. auto.
  - destruct (IH Hin) as [A B]. auto.
Qed.

Lemma dlN_NoDup skip keys l : NoDup (map fst l) -> NoDup (map fst (dlN skip keys l)).
Proof.
  induction l as [|[nm d] l IH]; simpl; intros N; [constructor|]. inversion N; subst.
  unfold dlN in *. simpl. rewrite map_app.
  destruct (skip nm); [now apply IH|]. destruct (mem nm keys); [now apply IH|].
  destruct d; [|now apply IH]. simpl. constructor; [|now apply IH].
  intros Hin. apply H1. now apply (dlN_keys skip keys l nm).
Qed.

Lemma dlN_assoc skip keys l k : NoDup (map fst l) ->
  assoc k (dlN skip keys l) =
  if skip k then None else if mem k keys then None
  else match assoc k l with Some d => d | None => None end.
Proof.
  induction l as [|[nm d] l IH]; simpl; intros N.
  - destruct (skip k), (mem k keys); reflexivity.
  - inversion N; subst. unfold dlN in *. simpl. rewrite assoc_app, (IH H2).
    destruct (bytes_eqb_spec k nm).
    + subst nm. assert (E : assoc k l = None) by now apply assoc_None. rewrite E.
      destruct (skip k); [reflexivity|]. destruct (mem k keys); [reflexivity|].
      destruct d; simpl; [now rewrite bytes_eqb_refl|reflexivity].
    + assert (E : assoc k (if skip nm then [] else if mem nm keys then []
                           else match d with Some v => [(nm, v)] | None => [] end) = None).
      { destruct (skip nm); [reflexivity|]. destruct (mem nm keys); [reflexivity|].
        destruct d; [|reflexivity]. simpl. destruct (bytes_eqb_spec k nm); [congruence|reflexivity]. }
      rewrite E. reflexivity.
Qed.

Lemma dlN_ext_in skip skip' keys l :
  (forall p, In p l -> skip (fst p) = skip' (fst p)) -> dlN skip keys l = dlN skip' keys l.
Proof.
  induction l as [|p l IH]; intros E; [reflexivity|]. unfold dlN in *. simpl.
  rewrite (E p (or_introl eq_refl)). f_equal. apply IH. intros q Hq. apply E. now right.
Qed.

Lemma dlN_keys_ext skip keys keys' l :
  (forall x, mem x keys = mem x keys') -> dlN skip keys l = dlN skip keys' l.
Proof.
  intros E. unfold dlN. apply flat_map_ext. intros p. now rewrite E.
Qed.

(** * defaults_from in terms of dlN *)
Lemma defaults_from_app pr keys n a : forall i b,
  defaults_from pr i n keys (a ++ b) = defaults_from pr i n keys a ++ defaults_from pr (i + length a) n keys b.
Proof.
  induction a as [|[[nm po] d] a IH]; intros i b; simpl.
  - now rewrite Nat.add_0_r.
  - rewrite IH, <- app_assoc. do 3 f_equal. lia.
Qed.

Lemma defaults_from_var pr keys n i (l : list bytes) :
  defaults_from pr i n keys (map (fun v => (v, false, @None aval)) l) = [].
Proof.
  revert i. induction l as [|v l IH]; intros i; simpl; [reflexivity|]. rewrite IH.
  destruct (_ && _); [reflexivity|]. destruct (mem v keys); reflexivity.
Qed.

Lemma defaults_from_nonpos keys n (l : list (bytes * option aval)) : forall i,
  defaults_from PairPositional i n keys (map (fun p => (fst p, false, snd p)) l) = dlN (fun _ => false) keys l.
Proof.
  induction l as [|[nm d] l IH]; intros i; simpl; [reflexivity|].
  unfold dlN in *. simpl. rewrite IH, andb_false_r. reflexivity.
Qed.

Lemma dlN_cons skip keys p l :
  dlN skip keys (p :: l) =
  (if skip (fst p) then [] else if mem (fst p) keys then []
   else match snd p with Some v => [(fst p, v)] | None => [] end) ++ dlN skip keys l.
Proof. reflexivity. Qed.

Lemma defaults_from_pos pr keys n (l : list (bytes * option aval)) : forall i, NoDup (map fst l) ->
  defaults_from pr i n keys (map (fun p => (fst p, true, snd p)) l) =
  dlN (fun nm => mem nm (firstn (n - i) (map fst l))) keys l.
Proof.
  induction l as [|[nm d] l IH]; intros i N; [reflexivity|]. simpl map in *. inversion N; subst.
  cbn [defaults_from]. rewrite (IH (S i) H2), dlN_cons. cbn [fst snd].
  assert (F : match pr with PairAllParams => true | PairPositional => true end = true) by now destruct pr.
  rewrite F, andb_true_r. clear F.
  destruct (Nat.ltb_spec i n) as [L|L].
  - assert (E : firstn (n - i) (nm :: map fst l) = nm :: firstn (n - S i) (map fst l)).
    { replace (n - i) with (S (n - S i)) by lia. reflexivity. }
    rewrite E. f_equal.
    + unfold mem. simpl existsb. now rewrite bytes_eqb_refl.
    + apply dlN_ext_in. intros p Hp. unfold mem. simpl existsb.
      destruct (bytes_eqb_spec (fst p) nm) as [E'|E']; [|reflexivity].
      exfalso. apply H1. rewrite <- E'. now apply in_map.
  - replace (n - i) with 0 by lia. replace (n - S i) with 0 by lia. reflexivity.
Qed.

Lemma defaults_from_indep pr pr' keys n ps : forall i, n <= i ->
  defaults_from pr i n keys ps = defaults_from pr' i n keys ps.
Proof.
  induction ps as [|[[nm po] d] ps IH]; intros i L; simpl; [reflexivity|].
  assert (E : Nat.ltb i n = false) by (apply Nat.ltb_ge; lia). rewrite E. simpl.
  f_equal. apply IH. lia.
Qed.

Lemma NoDup_app_l {A} (a b : list A) : NoDup (a ++ b) -> NoDup a.
Proof. induction a; simpl; intros N; [constructor|]. inversion N; subst. constructor; [|auto]. rewrite in_app_iff in H1. tauto. Qed.
Lemma NoDup_app_r {A} (a b : list A) : NoDup (a ++ b) -> NoDup b.
Proof. induction a; simpl; auto. intros N. inversion N; auto. Qed.
Lemma NoDup_app_disj {A} (a b : list A) x : NoDup (a ++ b) -> In x a -> In x b -> False.
Proof.
  induction a; simpl; [tauto|]. intros N [->|Hin] Hb; inversion N; subst.
  - apply H1. rewrite in_app_iff. tauto.
  - eauto.
Qed.

Lemma NoDup_app_mk {A} (a b : list A) :
  NoDup a -> NoDup b -> (forall x, In x a -> In x b -> False) -> NoDup (a ++ b).
Proof.
  induction a; simpl; intros Na Nb D; auto. inversion Na; subst. constructor.
  - rewrite in_app_iff. intros [I|I]; [auto|]. eapply D; eauto.
  - apply IHa; auto. intros x Ia Ib. eapply D; eauto.
Qed.

Lemma all_names_eq sg :
  all_names sg = pos_names sg ++ olist (s_var sg) ++ map fst (s_kwonly sg) ++ olist (s_varkw sg).
Proof.
  unfold all_names, params, pos_names. rewrite !map_app, !map_map. simpl.
  rewrite !map_id. reflexivity.
Qed.

Lemma named_NoDup sg : NoDup (all_names sg) -> NoDup (named_names sg).
Proof.
  rewrite all_names_eq. unfold named_names, pos_names. intros N.
  assert (N1 := NoDup_app_l _ _ N). assert (N2 := NoDup_app_r _ _ N).
  assert (N3 := NoDup_app_l _ _ (NoDup_app_r _ _ N2)).
  apply NoDup_app_mk; auto.
  intros x Ha Hb. eapply (NoDup_app_disj _ _ x N); auto. rewrite !in_app_iff. tauto.
Qed.
