(** The round trip at the level of Config objects, for the repaired and the shipped variant. *)
From Coq Require Import List Ascii Bool Arith Lia Permutation.
From RV Require Import Model.Config Proofs.ConfigFacts Proofs.ConfigTree Proofs.ConfigRoundtrip.
Import ListNotations.
Open Scope list_scope.

(** What "the configuration survives" means: [c2] was rebuilt from the dictionary of [c]. *)
Definition survives (cfg : config_cfg) (env env2 : list (str * str)) (local : str) (repl : option str)
           (c c2 : config) : Prop :=
  c_tree c2 = c_tree c /\
  Permutation (map fst (p_sections (c_parser c2))) (map fst (p_sections (c_parser c))) /\
  (forall s, In s (map fst (p_sections (c_parser c))) -> options (c_parser c2) s = options (c_parser c) s) /\
  (forall s k, get_value cfg env2 (c_parser c2) s k
               = rmap (subst local repl) (get_value cfg env (c_parser c) s k)).

Theorem roundtrip_config cfg env env2 local repl p c d :
  std cfg -> wf_parser p -> guard cfg (map fst (p_sections p)) ->
  load cfg p = Ok c ->
  get_config_dict cfg env (c_parser c) (c_tree c) local repl = Ok d ->
  (forall s k v, get_value cfg env p s k = Ok v ->
                 literal (encode cfg (subst local repl v)) (subst local repl v)) ->
  exists c2, of_dict cfg d = Ok c2 /\ survives cfg env env2 local repl c c2.
Proof.
  intros Hstd Hwf Hg Hload Hgcd Hlit. unfold load in Hload.
  destruct (parse_sections cfg p) as [t|] eqn:Ep; simpl in Hload; [|discriminate].
  injection Hload as <-. cbn [c_parser c_tree] in *.
  destruct (roundtrip_gen cfg env env2 local repl p t d Hstd Hwf Hg Ep Hgcd Hlit)
    as (p2 & Hrd & Hp2 & Hperm & _ & Hopt & Hval).
  exists {| c_parser := p2; c_tree := t |}. split.
  - unfold of_dict. rewrite Hrd. cbn [bind]. unfold load. rewrite Hp2. reflexivity.
  - repeat split; auto.
Qed.

Lemma std_fixed : std fixed. Proof. repeat split. Qed.
Lemma std_shipped : std shipped. Proof. repeat split. Qed.

Theorem roundtrip_fixed env env2 local repl p c d :
  wf_parser p -> guard fixed (map fst (p_sections p)) -> load fixed p = Ok c ->
  get_config_dict fixed env (c_parser c) (c_tree c) local repl = Ok d ->
  exists c2, of_dict fixed d = Ok c2 /\ survives fixed env env2 local repl c c2.
Proof.
  intros. eapply roundtrip_config; eauto using std_fixed.
  intros. apply literal_escape.
Qed.

Theorem roundtrip_shipped_partial env env2 local repl p c d :
  wf_parser p -> guard shipped (map fst (p_sections p)) -> load shipped p = Ok c ->
  get_config_dict shipped env (c_parser c) (c_tree c) local repl = Ok d ->
  (forall s k v, get_value shipped env p s k = Ok v -> has_dollar (subst local repl v) = false) ->
  exists c2, of_dict shipped d = Ok c2 /\ survives shipped env env2 local repl c c2.
Proof.
  intros ? ? ? ? Hd. eapply roundtrip_config; eauto using std_shipped.
  intros. apply literal_nodollar. eapply Hd; eauto.
Qed.

Theorem load_guarded cfg p :
  join_guard cfg = true -> guard cfg (map fst (p_sections p)) -> exists c, load cfg p = Ok c.
Proof.
  intros Hj Hg. destruct (parse_guarded cfg _ Hj Hg) as (t & _ & E & _).
  exists {| c_parser := p; c_tree := t |}. unfold load, parse_sections. rewrite E. reflexivity.
Qed.
