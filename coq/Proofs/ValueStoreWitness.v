(** C31 — a concrete instance satisfying every premise (non-vacuity), and the two edges that
    show the premises / the fixed-threshold condition cannot be dropped. *)
From Coq Require Import List ZArith Bool Ascii String.
From RV Require Import Base.Decimal Base.Lit Model.ValueStore Proofs.ValueStoreBase Proofs.ValueStoreInv
  Proofs.ValueStoreMain.
Import ListNotations.
Open Scope list_scope.

Definition lit (s : string) : bytes := list_ascii_of_string s.

Module Inst.
  (* three values: a plain one, a FileCache one (base_path "fc"), an own-hash one *)
  Inductive val := A | B | C.
  Definition pickle (v : val) : bytes :=
    match v with A => lit "pickle-of-A-0123456789" | B => lit "pickle-of-B" | C => lit "pC" end.
  Definition unpickle (d : bytes) : option val :=
    if bytes_eq d (pickle A) then Some A else if bytes_eq d (pickle B) then Some B
    else if bytes_eq d (pickle C) then Some C else None.
  Definition kind_of (v : val) : kind :=
    match v with A => KPlain | B => KFileCache (lit "fc") | C => KOwn (lit "own-hash-of-C") end.
  Definition H (d : bytes) : bytes := lit "h:" ++ d.
  Definition Hb (d : bytes) : bytes := lit "x" ++ d.

  Notation rhash := (rhash val pickle kind_of H Hb).
  Notation record := (record val pickle kind_of H Hb).
  Notation get := (get val unpickle).
  Notation run := (run val pickle unpickle kind_of H Hb).

  Lemma roundtrip v : unpickle (pickle v) = Some v.
  Proof. destruct v; reflexivity. Qed.
  Lemma pickle_nonempty v : pickle v <> [].
  Proof. destruct v; discriminate. Qed.
  Lemma Hb_nonempty d : Hb d <> [].
  Proof. discriminate. Qed.
  Lemma compat : hash_compat val pickle kind_of H Hb.
  Proof. intros v w. destruct v, w; vm_compute; intros E; try discriminate E; repeat split; auto. Qed.

  (* store configured, offload from 50 bytes (getsizeof), at most 30 bytes of data *)
  Definition cf : conf := {| has_store := true; min_size := 50; max_size := 30 |}.
  Definition hist : list (event val) :=
    [ERecord A; ERecord B; ERecord C; ELoseStored (rhash A); EGet (rhash A); ERecord A; ERecord A].

  (* A (22 bytes, getsizeof 55) is offloaded, B's file name and C stay in the row *)
  Lemma facts :
    offload shipped cf (ser_data val pickle kind_of Hb A) = true
    /\ offload shipped cf (ser_data val pickle kind_of Hb C) = false
    /\ get shipped cf (run shipped cf [ERecord A; ELoseStored (rhash A)] init) (rhash A) = RAbsent
    /\ get shipped cf (run shipped cf hist init) (rhash A) = RValue A
    /\ get shipped cf (run shipped cf hist init) (rhash B) = RValue B
    /\ get shipped cf (run shipped cf hist init) (rhash C) = RValue C
    /\ get shipped cf (run shipped cf (hist ++ [ELoseFile (fc_path val pickle Hb (lit "fc") B)]) init) (rhash B) = RAbsent.
  Proof. vm_compute. repeat split. Qed.
End Inst.

(** Edge 1 (why "pickle output is never empty" is a premise): a value whose serialization is the
    empty byte string is indistinguishable from the placeholder of an offloaded value. *)
Module EdgeEmpty.
  Definition t : list (kind * bytes) := [(KPlain, [])].
  Definition ht : list (bytes * bytes) := [([], lit "hash-of-empty")].
  Notation record := (record nat (tbl_pickle t) (tbl_kind t) (tbl_hash ht) (tbl_hash [])).
  Notation get := (get nat (tbl_unpickle t)).
  Definition nostore : conf := {| has_store := false; min_size := 1024; max_size := 1000 |}.
  Definition withstore : conf := {| has_store := true; min_size := 1024; max_size := 1000 |}.
  Lemma edge :
    snd (record shipped nostore init 0) = RHash (lit "hash-of-empty")
    /\ get shipped nostore (fst (record shipped nostore init 0)) (lit "hash-of-empty") = RAssert
    /\ get shipped withstore (fst (record shipped withstore init 0)) (lit "hash-of-empty") = RAbsent.
  Proof. vm_compute. repeat split. Qed.
End EdgeEmpty.

(** Edge 2 (why read-back is stated for one configuration per history): offloaded under a small
    threshold, bytes lost, recorded again under a larger threshold -> the row still holds the
    placeholder, nothing is put, and the value just recorded reads as absent. *)
Module EdgeThreshold.
  Import Inst.
  Definition small : conf := {| has_store := true; min_size := 0; max_size := 1000 |}.
  Definition large : conf := {| has_store := true; min_size := 100000; max_size := 1000 |}.
  Definition s1 := run shipped small [ERecord A; ELoseStored (rhash A)] init.
  Lemma edge :
    snd (record shipped large s1 A) = RHash (rhash A)
    /\ get shipped large (fst (record shipped large s1 A)) (rhash A) = RAbsent
    (* with the thresholds unchanged the second recording heals the value *)
    /\ get shipped small (fst (record shipped small s1 A)) (rhash A) = RValue A.
  Proof. vm_compute. repeat split. Qed.
End EdgeThreshold.
