(** C16 — the proxy dispatch does not depend on what was looked up before (full MRO search),
    and does when only the direct bases are searched. *)
From Coq Require Import List NArith Bool.
From RV Require Import Model.ProxyDispatch.
Import ListNotations.
Open Scope list_scope.

Lemma cls_eqb_eq : forall a b, cls_eqb a b = true -> a = b.
Proof.
  induction a as [|x a IH]; destruct b as [|y b]; simpl; try discriminate; auto.
  intros H. apply andb_true_iff in H. destruct H as [H1 H2].
  apply N.eqb_eq in H1. subst. f_equal. auto.
Qed.

(** memoising the result of a full search changes no later full search *)
Lemma search_full_memo r c p :
  search_full r c = Some p -> forall s, search_full ((c, p) :: r) s = search_full r s.
Proof.
  intros H s. induction s as [|x rest IH]; [reflexivity|].
  cbn [search_full lookup]. destruct (cls_eqb (x :: rest) c) eqn:E.
  - apply cls_eqb_eq in E. subst c. cbn [search_full] in H. now rewrite H.
  - destruct (lookup r (x :: rest)); [reflexivity|exact IH].
Qed.

Lemma after_full_inv : forall hist r s, search_full (after FullMRO r hist) s = search_full r s.
Proof.
  induction hist as [|c h IH]; intros r s; [reflexivity|].
  cbn [after]. unfold get_proxy. cbn [search]. destruct (search_full r c) as [p|] eqn:E; cbn [snd].
  - rewrite IH. now apply search_full_memo.
  - apply IH.
Qed.

Theorem dispatch_full_history_independent r0 hist c :
  dispatch FullMRO r0 hist c = dispatch FullMRO r0 [] c.
Proof.
  unfold dispatch, get_proxy. cbn [search after]. rewrite after_full_inv.
  now destruct (search_full r0 c).
Qed.

(** class SampleTags(TagSet), class TagSet(set): hashed by plain ProxyValue in a fresh
    process, by Set once a TagSet was looked up *)
Definition c_tagset : cls := 2%N :: c_set.
Definition c_sampletags : cls := 3%N :: c_tagset.

Lemma dispatch_bases_history_dependent :
  dispatch BasesOnly reg0 [] c_sampletags = None /\
  dispatch BasesOnly reg0 [c_tagset] c_sampletags = Some PSet /\
  dispatch FullMRO reg0 [] c_sampletags = Some PSet.
Proof. repeat split. Qed.

(** why nothing else notices: the registered class and its direct subclasses dispatch alike *)
Lemma dispatch_bases_direct_subclass id :
  dispatch BasesOnly reg0 [] (id :: c_set) = Some PSet /\ dispatch BasesOnly reg0 [] c_set = Some PSet.
Proof.
  split; [|reflexivity]. cbv -[N.eqb]. destruct (N.eqb id 1); reflexivity.
Qed.
