(** C06: a call is handed to an executor at most once per execution.
    For the variant in which the _pending_jobs entry of a key is owned by the job that
    registered it ([pending_owner_safe]).  All other switches arbitrary. *)
From Coq Require Import List ZArith Bool Arith Lia.
From RV Require Import Model.JobMachine Proofs.JobBase.
Import ListNotations.
Open Scope list_scope.

Definition kc (x : job) : nat * nat := (jkey x, jctx x).
(** what the invariant reads of a job *)
Definition kv (x : job) : nat * nat * bool * bool * nat := (jkey x, jctx x, jnocse x, jprov x, jsubmits x).

(** [b]: whether the same-execution look-up is exact (ctx_exact); coverage and uniqueness need it *)
Record K (b : bool) (s : state) : Prop := {
  k_stat : forall j x, getj s j = Some x -> jnocse x = false -> jprov x = true;
  k_pend : forall k j, In (k, j) (pending s) -> exists x, getj s j = Some x /\ kc x = k /\ 1 <= jsubmits x /\ jnocse x = false;
  k_cov : b = true -> forall j x, getj s j = Some x -> jnocse x = false -> 1 <= jsubmits x ->
          In (kc x, j) (pending s) \/ exists o, In (kc x, o) (recorded s);
  k_uniq : b = true -> forall j1 j2 x1 x2, getj s j1 = Some x1 -> getj s j2 = Some x2 ->
           jnocse x1 = false -> jnocse x2 = false -> 1 <= jsubmits x1 -> 1 <= jsubmits x2 ->
           kc x1 = kc x2 -> j1 = j2
}.

(** a change the invariant cannot see *)
Definition kframe (s s' : state) : Prop :=
  map kv (jobs s') = map kv (jobs s) /\ pending s' = pending s /\ recorded s' = recorded s.

Lemma kframe_refl s : kframe s s. Proof. repeat split. Qed.
Lemma kframe_trans s1 s2 s3 : kframe s1 s2 -> kframe s2 s3 -> kframe s1 s3.
Proof. unfold kframe. intros (A & B & C) (D & E & F). repeat split; congruence. Qed.

Lemma nth_error_map_kv (l : list job) j : nth_error (map kv l) j = option_map kv (nth_error l j).
Proof. revert j. induction l as [|a l IH]; intros [|j]; simpl; auto. Qed.

Lemma kframe_get s s' j x' : kframe s s' -> getj s' j = Some x' -> exists x, getj s j = Some x /\ kv x = kv x'.
Proof.
  intros (A & _ & _) H. unfold getj in *.
  assert (E : nth_error (map kv (jobs s')) j = Some (kv x')) by (rewrite nth_error_map_kv, H; reflexivity).
  rewrite A, nth_error_map_kv in E. destruct (nth_error (jobs s) j) as [x|]; [|discriminate].
  simpl in E. exists x. split; [reflexivity|congruence].
Qed.

Lemma mapkv_get s s' j x' : map kv (jobs s') = map kv (jobs s) -> getj s' j = Some x' ->
  exists x, getj s j = Some x /\ kv x = kv x'.
Proof.
  intros A H. unfold getj in *.
  assert (E : nth_error (map kv (jobs s')) j = Some (kv x')) by (rewrite nth_error_map_kv, H; reflexivity).
  rewrite A, nth_error_map_kv in E. destruct (nth_error (jobs s) j) as [x|]; [|discriminate].
  simpl in E. exists x. split; [reflexivity|congruence].
Qed.

Lemma kframe_sym s s' : kframe s s' -> kframe s' s.
Proof. unfold kframe. intros (A & B & C). repeat split; congruence. Qed.

Lemma kv_fields x y : kv x = kv y ->
  jkey x = jkey y /\ jctx x = jctx y /\ jnocse x = jnocse y /\ jprov x = jprov y /\ jsubmits x = jsubmits y.
Proof. unfold kv. intros [= A B C D E]. auto. Qed.

Lemma K_kframe b s s' : kframe s s' -> K b s -> K b s'.
Proof.
  intros F Ks. pose proof (kframe_sym _ _ F) as F'. destruct F as (A & B & C). destruct Ks as [a1 a2 a3 a4].
  constructor.
  - intros j x' Hx' Hn. destruct (kframe_get _ _ _ _ (conj A (conj B C)) Hx') as (x & Hx & E).
    apply kv_fields in E. destruct E as (E1 & E2 & E3 & E4 & E5). rewrite <- E4. apply (a1 j x Hx). congruence.
  - intros k j Hin. rewrite B in Hin. destruct (a2 k j Hin) as (x & Hx & Hk & Hs & Hn).
    destruct (kframe_get _ _ _ _ F' Hx) as (x' & Hx' & E). apply kv_fields in E.
    destruct E as (E1 & E2 & E3 & E4 & E5). exists x'. unfold kc in *. repeat split; auto; congruence.
  - intros Hb j x' Hx' Hn Hs. destruct (kframe_get _ _ _ _ (conj A (conj B C)) Hx') as (x & Hx & E).
    apply kv_fields in E. destruct E as (E1 & E2 & E3 & E4 & E5). rewrite B, C.
    assert (Ek : kc x' = kc x) by (unfold kc; congruence). rewrite Ek. apply (a3 Hb j x Hx); congruence.
  - intros Hb j1 j2 y1 y2 H1 H2 N1 N2 S1 S2 Ek.
    destruct (kframe_get _ _ _ _ (conj A (conj B C)) H1) as (x1 & Hx1 & E1).
    destruct (kframe_get _ _ _ _ (conj A (conj B C)) H2) as (x2 & Hx2 & E2).
    apply kv_fields in E1. apply kv_fields in E2.
    destruct E1 as (P1 & P2 & P3 & P4 & P5). destruct E2 as (Q1 & Q2 & Q3 & Q4 & Q5).
    apply (a4 Hb j1 j2 x1 x2 Hx1 Hx2); try congruence. unfold kc in *. congruence.
Qed.

Lemma map_set_nth_same {A B} (f : A -> B) l n x y :
  nth_error l n = Some x -> f y = f x -> map f (set_nth l n y) = map f l.
Proof.
  revert n. induction l as [|a l IH]; intros [|n]; simpl; try discriminate.
  - intros [= ->] ->. reflexivity.
  - intros H1 H2. f_equal. now apply IH.
Qed.

Lemma kframe_setj s j x y : getj s j = Some x -> kv y = kv x -> kframe s (setj s j y).
Proof. intros Hx Hy. repeat split. simpl. eapply map_set_nth_same; eauto. Qed.

Ltac kf_frame := repeat split.

Lemma kframe_requeue s j : kframe s (requeue s j).
Proof.
  unfold requeue. destruct (getj s j) as [x|] eqn:Hx; [|apply kframe_refl].
  eapply kframe_trans; [apply (kframe_setj s j x (with_phase x PQueued) Hx eq_refl)|kf_frame].
Qed.

Lemma kframe_fold {A} (f : state -> A -> state) l :
  (forall s a, kframe s (f s a)) -> forall s, kframe s (fold_left f l s).
Proof.
  intros H. induction l as [|a l IH]; intros s; simpl; [apply kframe_refl|].
  eapply kframe_trans; [apply H|apply IH].
Qed.

Lemma kframe_check_pending c s : kframe s (check_pending_limits c s).
Proof.
  unfold check_pending_limits. destruct (split_ready c s (waiting s) []) as [a b].
  eapply kframe_trans; [|apply kframe_fold; apply kframe_requeue]. kf_frame.
Qed.

Lemma kframe_skip c s : kframe s (skip_wakeup c s).
Proof. unfold skip_wakeup. destruct (recheck_on_skip (vr c)); [apply kframe_check_pending|apply kframe_refl]. Qed.

Lemma kframe_maybe_release c s j : kframe s (maybe_release c s j).
Proof.
  unfold maybe_release. destruct (getj s j) as [x|] eqn:Hx; [|apply kframe_refl].
  destruct (if release_if_holds (vr c) then jholds x else negb (jcached x)); [|apply kframe_refl].
  eapply kframe_trans; [|apply kframe_check_pending].
  eapply kframe_trans; [apply (kframe_setj s j x (bump_release x) Hx eq_refl)|kf_frame].
Qed.
