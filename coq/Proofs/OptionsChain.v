(** Chains of .options() / .export_options() calls and the decorator's export_options (C27). *)
From Coq Require Import List ZArith NArith Bool Lia.
From RV Require Import Model.Options Proofs.OptionsBase.
Import ListNotations.
Open Scope list_scope.

Definition op_kvs (op : chain_op) : dict oval := match op with COpt kvs => kvs | CExport kvs => kvs end.

(** the names handed to export_options() along a chain *)
Fixpoint chain_decl (ops : list chain_op) : list key :=
  match ops with
  | [] => []
  | COpt _ :: r => chain_decl r
  | CExport kvs :: r => keys kvs ++ chain_decl r
  end.

Lemma mem_syn : forall k l, mem k (syn l) = mem k l || (N.eqb k k_cache_scope && mem k_cache l).
Proof.
  intros. unfold syn. destruct (mem k_cache l); simpl.
  - rewrite andb_true_r. apply orb_comm.
  - rewrite andb_false_r, orb_false_r. reflexivity.
Qed.

Lemma mem_auto_prov : forall k base over l,
  mem k (auto_prov base over l) = (N.eqb k k_prov && (has_key k_prov base || has_key k_prov over)) || mem k l.
Proof.
  intros. unfold auto_prov. destruct (has_key k_prov base || has_key k_prov over); simpl.
  - rewrite andb_true_r. reflexivity.
  - rewrite andb_false_r. reflexivity.
Qed.

(** later calls win, name by name (the legacy `cache` name aside) *)
Lemma chain_step_options : forall c base o e op o' e',
  chain_step c base (o, e) op = Ok (o', e') ->
  forall k, N.eqb k k_cache = false -> N.eqb k k_cache_scope = false ->
  lookup k o' = lookup k (op_kvs op) <|> lookup k o.
Proof.
  intros c base o e op o' e' H k Hc Hs. destruct op as [kvs|kvs]; simpl in H;
    destruct (norm (update o kvs)) as [d|] eqn:N; simpl in H; try discriminate; inversion H; subst;
    rewrite (norm_lookup _ _ N k Hc Hs); apply lookup_update.
Qed.

(** `cache=v` at a call is `cache_scope=BACKEND/CSE` *)
Lemma chain_step_cache : forall c base o e op o' e' a,
  chain_step c base (o, e) op = Ok (o', e') -> lookup k_cache (op_kvs op) = Some (OLit a) ->
  lookup k_cache_scope o' = Some (OLit (AScope (if truthy a then SBackend else SCse))).
Proof.
  intros c base o e op o' e' a H L. destruct op as [kvs|kvs]; simpl in H, L;
    destruct (norm (update o kvs)) as [d|] eqn:N; simpl in H; try discriminate; inversion H; subst;
    apply (norm_cache_synonym _ _ a N); rewrite lookup_update, L; reflexivity.
Qed.

Section Keeps.
  Variable c : opt_cfg.
  Variable base : dict oval.

  Lemma chain_step_weak_converse : forall o e op o' e' k,
    chain_step c base (o, e) op = Ok (o', e') -> mem k e' = true ->
    mem k e = true \/ mem k (chain_decl [op]) = true \/ k = k_cache_scope \/ k = k_prov.
  Proof.
    intros o e op o' e' k H M. destruct op as [kvs|kvs]; simpl in H;
      destruct (norm (update o kvs)) as [d|] eqn:N; simpl in H; try discriminate; inversion H; subst; clear H;
      rewrite mem_auto_prov in M; apply orb_true_iff in M; destruct M as [M|M].
    - apply andb_true_iff in M. destruct M as [M _]. apply N.eqb_eq in M. auto.
    - destruct (keeps_exports c); [auto|discriminate].
    - apply andb_true_iff in M. destruct M as [M _]. apply N.eqb_eq in M. auto.
    - rewrite mem_syn in M. apply orb_true_iff in M. destruct M as [M|M].
      + rewrite mem_app in M. apply orb_true_iff in M. simpl. rewrite app_nil_r. tauto.
      + apply andb_true_iff in M. destruct M as [M _]. apply N.eqb_eq in M. auto.
  Qed.

  Lemma chain_run_weak_converse : forall ops o e over ex k,
    chain_run c base (o, e) ops = Ok (over, ex) -> mem k ex = true ->
    mem k e = true \/ mem k (chain_decl ops) = true \/ k = k_cache_scope \/ k = k_prov.
  Proof.
    induction ops as [|op r IH]; intros o e over ex k H M; cbn [chain_run] in H.
    - inversion H; subst. auto.
    - destruct (chain_step c base (o, e) op) as [[o' e']|] eqn:S; simpl in H; [|discriminate].
      destruct (IH o' e' over ex k H M) as [X|[X|X]]; [|right; left|auto].
      + destruct (chain_step_weak_converse _ _ _ _ _ _ S X) as [Y|[Y|Y]]; auto.
        right. left. destruct op; simpl in *; [discriminate|]. rewrite app_nil_r in Y. rewrite mem_app, Y. reflexivity.
      + destruct op; simpl; [exact X|]. rewrite mem_app, X. apply orb_true_r.
  Qed.

  Hypothesis keeps : keeps_exports c = true.

  Lemma chain_step_mono : forall o e op o' e' k,
    chain_step c base (o, e) op = Ok (o', e') -> mem k e = true -> mem k e' = true.
  Proof.
    intros o e op o' e' k H M. destruct op as [kvs|kvs]; simpl in H;
      destruct (norm (update o kvs)) as [d|] eqn:N; simpl in H; try discriminate; inversion H; subst; clear H;
      rewrite mem_auto_prov.
    - rewrite keeps, M. apply orb_true_r.
    - rewrite mem_syn, mem_app, M. simpl. apply orb_true_r.
  Qed.

  Lemma chain_run_mono : forall ops o e over ex k,
    chain_run c base (o, e) ops = Ok (over, ex) -> mem k e = true -> mem k ex = true.
  Proof.
    induction ops as [|op r IH]; intros o e over ex k H M; cbn [chain_run] in H.
    - inversion H; subst. exact M.
    - destruct (chain_step c base (o, e) op) as [[o' e']|] eqn:S; simpl in H; [|discriminate].
      apply (IH o' e' over ex k H). apply (chain_step_mono _ _ _ _ _ _ S M).
  Qed.

  (** every name handed to export_options() anywhere in the chain is exported by the call,
      and exporting `cache` exports `cache_scope` *)
  Lemma chain_run_declared : forall ops o e over ex kvs k,
    chain_run c base (o, e) ops = Ok (over, ex) -> In (CExport kvs) ops -> mem k (keys kvs) = true ->
    mem k ex = true /\ (k = k_cache -> mem k_cache_scope ex = true).
  Proof.
    induction ops as [|op r IH]; intros o e over ex kvs k H I M; cbn [chain_run] in H; [contradiction|].
    destruct (chain_step c base (o, e) op) as [[o' e']|] eqn:S; simpl in H; [|discriminate].
    destruct I as [I|I]; [|apply (IH o' e' over ex kvs k H I M)].
    subst op. simpl in S. destruct (norm (update o kvs)) as [d|] eqn:N; simpl in S; [|discriminate].
    inversion S; subst; clear S. split.
    - apply (chain_run_mono _ _ _ _ _ _ H). rewrite mem_auto_prov, mem_syn, mem_app, M. simpl.
      rewrite orb_true_r. simpl. apply orb_true_r.
    - intros ->. apply (chain_run_mono _ _ _ _ _ _ H). rewrite mem_auto_prov, mem_syn, !mem_app, M. simpl.
      rewrite !orb_true_r. reflexivity.
  Qed.
End Keeps.

(** the decorator: with the synonym handled, exporting `cache` exports `cache_scope` *)
Lemma td_exports_fixed : forall c td base, deco_synonym c = true ->
  forall k, mem k (td_exports c td base) =
            (N.eqb k k_prov && has_key k_prov base) || mem k (keys (td_export td))
            || (N.eqb k k_cache_scope && mem k_cache (keys (td_export td))).
Proof.
  intros c td base H k. unfold td_exports. rewrite H, mem_auto_prov, mem_syn.
  unfold has_key at 2. simpl. rewrite orb_false_r. apply orb_assoc.
Qed.
