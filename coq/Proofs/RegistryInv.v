(** The registry invariant and its preservation by every operation of Model/Registry.v
    (for the configuration [shipped]). *)
From Coq Require Import List ZArith NArith String Bool Arith Lia.
From RV Require Import Model.Registry Proofs.RegistryDict.
Import ListNotations.
Open Scope list_scope.

Definition hs (st : state) (o : nat) : N := t_hash (obj st o).

(* number of held tasks whose hash is h *)
Fixpoint cntL (hf : nat -> N) (l : list (string * nat)) (h : N) : Z :=
  match l with
  | [] => 0
  | ko :: r => (if N.eqb (hf (snd ko)) h then 1 else 0) + cntL hf r h
  end.

Definition getc (h : N) (cs : list (N * Z)) : Z :=
  match dget N.eqb h cs with Some c => c | None => 0%Z end.

Record Inv (st : state) : Prop := {
  inv_keys : NoDup (map fst (tasks st));
  inv_ckeys : NoDup (map fst (counts st));
  inv_name : forall k o, dget String.eqb k (tasks st) = Some o ->
                         (o < List.length (heap st))%nat /\ fullname st o = k;
  inv_cnt : forall h, getc h (counts st) = cntL (hs st) (tasks st) h;
  inv_pos : forall h c, dget N.eqb h (counts st) = Some c -> (c > 0)%Z
}.

Lemma Inv_init : Inv init.
Proof.
  constructor; simpl; intros; try constructor; try discriminate.
Qed.

(** ** counting *)
Lemma cntL_nonneg : forall hf l h, (0 <= cntL hf l h)%Z.
Proof. induction l; simpl; intros; [lia|]. specialize (IHl h). destruct (N.eqb _ _); lia. Qed.

Lemma cntL_app : forall hf l1 l2 h, cntL hf (l1 ++ l2) h = (cntL hf l1 h + cntL hf l2 h)%Z.
Proof. induction l1; simpl; intros; [lia|]. rewrite IHl1. lia. Qed.

Lemma cntL_ext : forall hf hf' l h, (forall k o, In (k, o) l -> hf o = hf' o) -> cntL hf l h = cntL hf' l h.
Proof.
  induction l as [|[k o] r IH]; simpl; intros; auto.
  rewrite (H k o) by auto. rewrite IH; auto. intros. eapply H. right. eauto.
Qed.

Lemma cntL_dpop : forall hf l k o h, dget String.eqb k l = Some o ->
  cntL hf (dpop String.eqb k l) h = (cntL hf l h - (if N.eqb (hf o) h then 1 else 0))%Z.
Proof.
  induction l as [|[k1 o1] r IH]; simpl; intros; [discriminate|].
  destruct (String.eqb k k1).
  - inversion H; subst. lia.
  - simpl. rewrite (IH _ _ _ H). lia.
Qed.

Lemma cntL_dset_fresh : forall hf l k o h, dget String.eqb k l = None ->
  cntL hf (dset String.eqb k o l) h = (cntL hf l h + (if N.eqb (hf o) h then 1 else 0))%Z.
Proof.
  intros. rewrite (dset_fresh String.eqb) by auto. rewrite cntL_app. simpl. lia.
Qed.

Lemma cntL_ge1 : forall hf l k o, dget String.eqb k l = Some o -> (cntL hf l (hf o) >= 1)%Z.
Proof.
  induction l as [|[k1 o1] r IH]; simpl; intros; [discriminate|].
  destruct (String.eqb k k1).
  - inversion H; subst. rewrite N.eqb_refl. pose proof (cntL_nonneg hf r (hf o)). lia.
  - specialize (IH _ _ H). destruct (N.eqb _ _); lia.
Qed.

Lemma cntL_filter : forall hf l h,
  cntL hf l h = Z.of_nat (List.length (filter (fun ko => N.eqb (hf (snd ko)) h) l)).
Proof.
  induction l; simpl; intros; auto. rewrite IHl. destruct (N.eqb _ _); simpl List.length; lia.
Qed.

Lemma cntL_pos_iff : forall hf l h, (cntL hf l h > 0)%Z <-> exists k o, In (k, o) l /\ hf o = h.
Proof.
  induction l as [|[k o] r IH]; simpl; intros.
  - split; [lia | intros (k & o & [] & _)].
  - destruct (N.eqb (hf o) h) eqn:E.
    + apply N.eqb_eq in E. split; intros; [exists k, o; auto|]. pose proof (cntL_nonneg hf r h). lia.
    + rewrite Z.add_0_l, IH. split; intros (k' & o' & Hin & Hh).
      * exists k', o'. auto.
      * destruct Hin as [Heq|Hin]; [inversion Heq; subst; rewrite N.eqb_refl in E; discriminate|].
        exists k', o'. auto.
Qed.

(** ** the counts dictionary *)
Lemma getc_dset_same : forall h c cs, getc h (dset N.eqb h c cs) = c.
Proof. intros. unfold getc. rewrite (dget_dset_same N.eqb n_spec). reflexivity. Qed.

Lemma getc_dset_other : forall h h' c cs, h <> h' -> getc h' (dset N.eqb h c cs) = getc h' cs.
Proof. intros. unfold getc. rewrite (dget_dset_other N.eqb n_spec); auto. Qed.

Definition Cs (cs : list (N * Z)) : Prop :=
  NoDup (map fst cs) /\ forall h c, dget N.eqb h cs = Some c -> (c > 0)%Z.

Lemma dec_spec : forall cs h0, Cs cs -> (getc h0 cs >= 1)%Z ->
  exists cs', dec_count shipped cs h0 = Some cs' /\ Cs cs' /\
              forall h, getc h cs' = (getc h cs - (if N.eqb h0 h then 1 else 0))%Z.
Proof.
  intros cs h0 [ND POS] G. unfold dec_count, getc in *.
  destruct (dget N.eqb h0 cs) as [c|] eqn:E; [|lia].
  simpl. destruct (Z.gtb_spec c 0); [|lia].
  destruct (Z.eqb_spec c 1).
  - subst. eexists. split; [reflexivity|]. split.
    + split; [apply dpop_NoDup; auto|]. intros h c Hc.
      destruct (N.eq_dec h0 h).
      * subst. rewrite (dget_dpop_same N.eqb n_spec) in Hc; auto. discriminate.
      * rewrite (dget_dpop_other N.eqb n_spec) in Hc; auto. eauto.
    + intros h. destruct (N.eqb_spec h0 h).
      * subst. rewrite (dget_dpop_same N.eqb n_spec); auto. rewrite E. lia.
      * rewrite (dget_dpop_other N.eqb n_spec); auto. lia.
  - eexists. split; [reflexivity|]. split.
    + split; [apply (dset_NoDup N.eqb n_spec); auto|]. intros h c' Hc.
      destruct (N.eq_dec h0 h).
      * subst. rewrite (dget_dset_same N.eqb n_spec) in Hc. inversion Hc. lia.
      * rewrite (dget_dset_other N.eqb n_spec) in Hc; auto. eauto.
    + intros h. destruct (N.eqb_spec h0 h).
      * subst. rewrite (dget_dset_same N.eqb n_spec). rewrite E. lia.
      * rewrite (dget_dset_other N.eqb n_spec); auto. lia.
Qed.

Lemma dset_Cs : forall cs h0 c, Cs cs -> (c > 0)%Z -> Cs (dset N.eqb h0 c cs).
Proof.
  intros cs h0 c [ND POS] Hc. split; [apply (dset_NoDup N.eqb n_spec); auto|]. intros h c' H.
  destruct (N.eq_dec h0 h).
  - subst h. rewrite (dget_dset_same N.eqb n_spec) in H. inversion H. lia.
  - rewrite (dget_dset_other N.eqb n_spec) in H; auto. eauto.
Qed.

Lemma inc_spec : forall cs h0, Cs cs ->
  Cs (inc_count shipped cs h0) /\
  forall h, getc h (inc_count shipped cs h0) = (getc h cs + (if N.eqb h0 h then 1 else 0))%Z.
Proof.
  intros cs h0 C. pose proof C as [ND POS]. unfold inc_count. simpl c_inc_delta.
  destruct (dget N.eqb h0 cs) as [c0|] eqn:E.
  - pose proof (POS _ _ E). split; [apply dset_Cs; auto; lia|].
    intros h. destruct (N.eqb_spec h0 h).
    + subst h. rewrite getc_dset_same. unfold getc. rewrite E. lia.
    + rewrite getc_dset_other; auto. lia.
  - split; [apply dset_Cs; auto; lia|].
    intros h. destruct (N.eqb_spec h0 h).
    + subst h. rewrite getc_dset_same. unfold getc. rewrite E. lia.
    + rewrite getc_dset_other; auto. lia.
Qed.

(** ** removing / inserting a task *)
Lemma Inv_Cs : forall st, Inv st -> Cs (counts st).
Proof. intros st I. split; [apply I | apply I]. Qed.

Lemma L_remove : forall st k t, Inv st -> dget String.eqb k (tasks st) = Some t ->
  exists cs, dec_count shipped (counts st) (t_hash (obj st t)) = Some cs /\
             Inv (mkS (heap st) (dpop String.eqb k (tasks st)) cs).
Proof.
  intros st k t I H.
  destruct (dec_spec (counts st) (hs st t) (Inv_Cs _ I)) as (cs & Hd & [ND POS] & G).
  { rewrite (inv_cnt _ I). eapply cntL_ge1; eauto. }
  exists cs. split; [exact Hd|].
  constructor; simpl; auto.
  - apply dpop_NoDup. apply I.
  - intros k' o Hk. destruct (string_dec k k').
    + subst. rewrite (dget_dpop_same String.eqb str_spec) in Hk; [discriminate | apply I].
    + rewrite (dget_dpop_other String.eqb str_spec) in Hk; auto. apply (inv_name _ I) in Hk. exact Hk.
  - intros h. rewrite G. rewrite (inv_cnt _ I).
    change (hs {| heap := heap st; tasks := dpop String.eqb k (tasks st); counts := cs |}) with (hs st).
    rewrite (cntL_dpop _ _ _ _ _ H). reflexivity.
Qed.

Lemma L_insert : forall st o, Inv st -> (o < List.length (heap st))%nat ->
  dget String.eqb (fullname st o) (tasks st) = None ->
  Inv (mkS (heap st) (dset String.eqb (fullname st o) o (tasks st)) (inc_count shipped (counts st) (hs st o))).
Proof.
  intros st o I Lt H.
  destruct (inc_spec (counts st) (hs st o) (Inv_Cs _ I)) as ([ND POS] & G).
  constructor; simpl; auto.
  - apply (dset_NoDup String.eqb str_spec). apply I.
  - intros k' o' Hk. destruct (string_dec (fullname st o) k').
    + subst. rewrite (dget_dset_same String.eqb str_spec) in Hk. inversion Hk; subst. split; auto.
    + rewrite (dget_dset_other String.eqb str_spec) in Hk; auto. apply (inv_name _ I) in Hk. exact Hk.
  - intros h. rewrite G, (inv_cnt _ I).
    change (hs {| heap := heap st; tasks := dset String.eqb (fullname st o) o (tasks st);
                  counts := inc_count shipped (counts st) (hs st o) |}) with (hs st).
    rewrite cntL_dset_fresh; auto.
Qed.

Lemma reg_add_shipped : forall st o,
  reg_add shipped st o =
  let k := fullname st o in
  match dget String.eqb k (tasks st) with
  | None => (mkS (heap st) (dset String.eqb k o (dpop String.eqb k (tasks st)))
                 (inc_count shipped (counts st) (hs st o)), None)
  | Some t =>
      match dec_count shipped (counts st) (t_hash (obj st t)) with
      | Some cs => (mkS (heap st) (dset String.eqb k o (dpop String.eqb k (tasks st)))
                        (inc_count shipped cs (hs st o)), None)
      | None => (mkS (heap st) (dpop String.eqb k (tasks st)) (counts st), Some AssertionError)
      end
  end.
Proof.
  intros. unfold reg_add. simpl.
  destruct (dget String.eqb (fullname st o) (tasks st)); [|reflexivity].
  change (obj (set_tasks st (dpop String.eqb (fullname st o) (tasks st))) n) with (obj st n).
  destruct (dec_count shipped _ _); reflexivity.
Qed.

Lemma L_add : forall st o, Inv st -> (o < List.length (heap st))%nat ->
  exists st', reg_add shipped st o = (st', None) /\ Inv st' /\ heap st' = heap st /\
              dget String.eqb (fullname st o) (tasks st') = Some o /\
              forall k, k <> fullname st o -> dget String.eqb k (tasks st') = dget String.eqb k (tasks st).
Proof.
  intros st o I Lt. rewrite reg_add_shipped. cbv zeta.
  destruct (dget String.eqb (fullname st o) (tasks st)) as [t|] eqn:E.
  - destruct (L_remove _ _ _ I E) as (cs & Hd & I1). rewrite Hd.
    eexists. split; [reflexivity|].
    pose proof (L_insert _ o I1 Lt) as I2. simpl in I2.
    change (fullname {| heap := heap st; tasks := dpop String.eqb (fullname st o) (tasks st); counts := cs |} o)
      with (fullname st o) in I2.
    change (hs {| heap := heap st; tasks := dpop String.eqb (fullname st o) (tasks st); counts := cs |} o)
      with (hs st o) in I2.
    split; [apply I2; apply (dget_dpop_same String.eqb str_spec); apply I|].
    simpl. split; auto. split.
    + apply (dget_dset_same String.eqb str_spec).
    + intros k NE. rewrite (dget_dset_other String.eqb str_spec); auto.
      rewrite (dget_dpop_other String.eqb str_spec); auto.
  - rewrite (dpop_absent String.eqb) by auto.
    eexists. split; [reflexivity|]. split; [apply L_insert; auto|].
    simpl. split; auto. split.
    + apply (dget_dset_same String.eqb str_spec).
    + intros k NE. rewrite (dget_dset_other String.eqb str_spec); auto.
Qed.

(** ** changing the heap without touching what registered tasks are called *)
Lemma Inv_heap : forall st h',
  Inv st -> (List.length (heap st) <= List.length h')%nat ->
  (forall k o, dget String.eqb k (tasks st) = Some o ->
               t_ns (nth o h' dummy) = t_ns (obj st o) /\ t_name (nth o h' dummy) = t_name (obj st o)
               /\ t_hash (nth o h' dummy) = t_hash (obj st o)) ->
  Inv (set_heap st h').
Proof.
  intros st h' I Len H. constructor; simpl; try apply I.
  - intros k o Hk. destruct (inv_name _ I _ _ Hk) as [Lt Fn]. split; [lia|].
    destruct (H _ _ Hk) as (A & B & _). unfold fullname, obj. simpl. rewrite A, B. exact Fn.
  - intros h. rewrite (inv_cnt _ I). apply cntL_ext. intros k o Hin.
    apply (In_dget String.eqb str_spec) in Hin; [|apply I].
    destruct (H _ _ Hin) as (_ & _ & C). unfold hs, obj at 2. simpl. symmetry. exact C.
Qed.

Definition unregistered (st : state) (t : nat) : Prop := forall k, dget String.eqb k (tasks st) <> Some t.

Lemma Inv_upd_unreg : forall st t f, Inv st -> unregistered st t ->
  (forall x, t_hash (f x) = t_hash x) ->
  Inv (set_heap st (upd t f (heap st))).
Proof.
  intros st t f I U Hf. apply Inv_heap; auto.
  - rewrite upd_length. lia.
  - intros k o Hk. assert (t <> o) by (intro; subst; exact (U _ Hk)).
    rewrite nth_upd_other by auto. auto.
Qed.

Lemma Inv_set_wrapped : forall st o w, Inv st -> Inv (set_wrapped st o w).
Proof.
  intros st o w I. unfold set_wrapped. apply Inv_heap; auto.
  - rewrite upd_length. lia.
  - intros k o' Hk. destruct (Nat.eq_dec o o').
    + subst. destruct (inv_name _ I _ _ Hk) as [Lt _]. rewrite nth_upd_same by auto. simpl. auto.
    + rewrite nth_upd_other by auto. auto.
Qed.

Lemma Inv_alloc : forall st t, Inv st -> Inv (fst (alloc st t)).
Proof.
  intros st t I. unfold alloc. simpl. apply Inv_heap; auto.
  - rewrite app_length. lia.
  - intros k o Hk. destruct (inv_name _ I _ _ Hk) as [Lt _]. unfold obj. rewrite app_nth1 by auto. auto.
Qed.

(** ** rename *)
Definition renamed (st : state) (k : string) (t : nat) (cs : list (N * Z)) (ns nm : string) : state :=
  set_name (set_ns (mkS (heap st) (dpop String.eqb k (tasks st)) cs) t ns) t nm.

Lemma reg_rename_shipped : forall st k ns nm,
  reg_rename shipped st k ns nm =
  match dget String.eqb k (tasks st) with
  | None => (st, inr AssertionError)
  | Some t =>
      match dec_count shipped (counts st) (t_hash (obj st t)) with
      | None => (set_tasks st (dpop String.eqb k (tasks st)), inr AssertionError)
      | Some cs =>
          match reg_add shipped (renamed st k t cs ns nm) t with
          | (st', None) => (st', inl t)
          | (st', Some e) => (st', inr e)
          end
      end
  end.
Proof.
  intros. unfold reg_rename. simpl.
  destruct (dget String.eqb k (tasks st)); [|reflexivity].
  change (obj (set_tasks st (dpop String.eqb k (tasks st))) n) with (obj st n).
  destruct (dec_count shipped _ _); [|reflexivity].
  unfold renamed. destruct (reg_add shipped _ n) as [st' [e|]]; reflexivity.
Qed.

Lemma L_rename : forall st k t ns nm, Inv st -> dget String.eqb k (tasks st) = Some t ->
  exists st', reg_rename shipped st k ns nm = (st', inl t) /\ Inv st' /\
    List.length (heap st') = List.length (heap st) /\
    obj st' t = mkT ns nm (t_hash (obj st t)) (t_wrapped (obj st t)) /\
    (forall o, o <> t -> obj st' o = obj st o) /\
    dget String.eqb (fullname_of ns nm) (tasks st') = Some t /\
    (forall k', k' <> fullname_of ns nm -> k' <> k -> dget String.eqb k' (tasks st') = dget String.eqb k' (tasks st)) /\
    (k <> fullname_of ns nm -> dget String.eqb k (tasks st') = None).
Proof.
  intros st k t ns nm I H. rewrite reg_rename_shipped, H.
  destruct (L_remove _ _ _ I H) as (cs & Hd & I1). rewrite Hd.
  destruct (inv_name _ I _ _ H) as [Lt Fn].
  set (st1 := mkS (heap st) (dpop String.eqb k (tasks st)) cs) in *.
  assert (U1 : unregistered st1 t).
  { intros k' Hk'. simpl in Hk'. destruct (string_dec k k').
    - subst k'. rewrite (dget_dpop_same String.eqb str_spec) in Hk'; [discriminate | apply I].
    - rewrite (dget_dpop_other String.eqb str_spec) in Hk'; auto.
      apply (inv_name _ I) in Hk'. destruct Hk'. congruence. }
  assert (I2 : Inv (set_ns st1 t ns)) by (apply Inv_upd_unreg; auto).
  assert (I3 : Inv (renamed st k t cs ns nm)).
  { unfold renamed. fold st1. apply Inv_upd_unreg; auto. }
  assert (Len : List.length (heap (renamed st k t cs ns nm)) = List.length (heap st)).
  { unfold renamed. simpl. rewrite !upd_length. reflexivity. }
  assert (Ot : obj (renamed st k t cs ns nm) t = mkT ns nm (t_hash (obj st t)) (t_wrapped (obj st t))).
  { unfold renamed, obj. simpl. rewrite nth_upd_same by (rewrite upd_length; auto).
    rewrite nth_upd_same by auto. reflexivity. }
  assert (Oo : forall o, o <> t -> obj (renamed st k t cs ns nm) o = obj st o).
  { intros o NE. unfold renamed, obj. simpl. rewrite !nth_upd_other by auto. reflexivity. }
  assert (Fn' : fullname (renamed st k t cs ns nm) t = fullname_of ns nm).
  { unfold fullname. rewrite Ot. reflexivity. }
  destruct (L_add _ t I3) as (st' & Ha & I' & Hh & Hg & Hother); [rewrite Len; auto|].
  rewrite Ha. exists st'. split; [reflexivity|]. split; [exact I'|].
  unfold obj in *. rewrite Hh. split; [exact Len|]. split; [exact Ot|]. split; [exact Oo|].
  rewrite Fn' in *. split; [exact Hg|]. split.
  - intros k' N1 N2. rewrite Hother by auto. unfold renamed. simpl.
    apply (dget_dpop_other String.eqb str_spec). auto.
  - intros N1. rewrite Hother by auto. unfold renamed. simpl.
    apply (dget_dpop_same String.eqb str_spec). apply I.
Qed.

Lemma reg_rename_Inv : forall st k ns nm, Inv st -> Inv (fst (reg_rename shipped st k ns nm)).
Proof.
  intros st k ns nm I. destruct (dget String.eqb k (tasks st)) as [t|] eqn:E.
  - destruct (L_rename _ _ _ ns nm I E) as (st' & -> & I' & _). exact I'.
  - rewrite reg_rename_shipped, E. exact I.
Qed.

(** ** recursive_rename, steps, histories *)
Lemma rec_rename_Inv : forall fuel st o s, Inv st -> Inv (fst (rec_rename shipped fuel st o s)).
Proof.
  induction fuel; intros st o s I; simpl; auto.
  assert (J : forall st1, Inv st1 ->
     Inv (fst (match reg_rename shipped st1 (fullname st1 o) (inner_ns (t_ns (obj st1 o)) s) (t_name (obj st1 o)) with
               | (st2, inl o2) => (st2, inl (fullname st2 o2))
               | (st2, inr e) => (st2, inr e) end : state * (string + exn)))).
  { intros st1 I1. pose proof (reg_rename_Inv st1 (fullname st1 o) (inner_ns (t_ns (obj st1 o)) s) (t_name (obj st1 o)) I1) as R.
    destruct (reg_rename shipped st1 _ _ _) as [st2 [o2|e]]; exact R. }
  destruct (t_wrapped (obj st o)) as [wn|]; [|apply J; auto].
  destruct (reg_get st wn) as [o'|]; [|exact I].
  specialize (IHfuel st o' s I).
  destruct (rec_rename shipped fuel st o' s) as [st' [nn|e]]; simpl in IHfuel.
  - apply J. apply Inv_set_wrapped. exact IHfuel.
  - exact IHfuel.
Qed.

Opaque rec_rename.
Lemma step_Inv : forall st x, Inv st -> Inv (fst (step shipped st x)).
Proof.
  intros st x I. destruct x as [ns nm h|o w h|old ns nm|o]; simpl.
  - pose proof (Inv_alloc st (mkT ns nm h None) I) as I1. unfold alloc in *. simpl in I1.
    destruct (L_add _ (List.length (heap st)) I1) as (st' & Ha & I' & _).
    { simpl. rewrite app_length. simpl. lia. }
    rewrite Ha. exact I'.
  - destruct (Nat.ltb_spec o (List.length (heap st))); [|exact I].
    pose proof (rec_rename_Inv (S (List.length (tasks st))) st o w I) as I1.
    destruct (rec_rename shipped (S (List.length (tasks st))) st o w) as [st1 [nn|e]]; [|exact I1].
    simpl in I1.
    pose proof (Inv_alloc st1 (mkT (t_ns (obj st o)) (t_name (obj st o)) h (Some (fullname st1 o))) I1) as I2.
    unfold alloc in *. simpl in I2.
    destruct (L_add _ (List.length (heap st1)) I2) as (st' & Ha & I' & _).
    { simpl. rewrite app_length. simpl. lia. }
    rewrite Ha. exact I'.
  - pose proof (reg_rename_Inv st old ns nm I) as R.
    destruct (reg_rename shipped st old ns nm) as [st1 [t|e]]; exact R.
  - destruct (Nat.ltb_spec o (List.length (heap st))); [|exact I].
    destruct (L_add _ o I) as (st' & Ha & I' & _); auto. rewrite Ha. exact I'.
Qed.

Transparent rec_rename.

Lemma run_Inv_from : forall ops st, Inv st -> Inv (run shipped st ops).
Proof. induction ops; simpl; intros; auto. apply IHops. apply step_Inv. auto. Qed.

Theorem run_Inv : forall ops, Inv (run shipped init ops).
Proof. intros. apply run_Inv_from. apply Inv_init. Qed.

(** ** what the invariant says in the registry's own terms *)
Lemma In_tasks_dget : forall st k o, Inv st -> (In (k, o) (tasks st) <-> dget String.eqb k (tasks st) = Some o).
Proof. intros. apply (dget_ext_In String.eqb str_spec). apply H. Qed.

Lemma counts_exact_Inv : forall st h, Inv st ->
  getc h (counts st) = Z.of_nat (List.length (filter (fun ko => N.eqb (t_hash (obj st (snd ko))) h) (tasks st))).
Proof. intros. rewrite (inv_cnt _ H). apply cntL_filter. Qed.

Lemma task_hashes_Inv : forall st, Inv st ->
  exists l, task_hashes shipped st = Some l /\ NoDup l /\
            forall h, In h l <-> exists k o, In (k, o) (tasks st) /\ t_hash (obj st o) = h.
Proof.
  intros st I. unfold task_hashes. simpl.
  assert (P : forall hc, In hc (counts st) -> (snd hc > 0)%Z).
  { intros [h c] Hin. simpl. eapply (inv_pos _ I). apply (In_dget N.eqb n_spec); [apply I|eauto]. }
  assert (F : forallb (fun hc => (snd hc >=? 1)%Z) (counts st) = true).
  { apply forallb_forall. intros hc Hin. apply P in Hin. apply Z.geb_le. lia. }
  rewrite F.
  assert (Fl : filter (fun hc => (snd hc >? 0)%Z) (counts st) = counts st).
  { clear F. induction (counts st) as [|hc r IH]; simpl; auto.
    rewrite (proj2 (Z.gtb_lt _ _)) by (specialize (P hc (or_introl eq_refl)); lia).
    f_equal. apply IH. intros. apply P. right. auto. }
  rewrite Fl. eexists. split; [reflexivity|]. split; [apply I|].
  intros h. rewrite <- (cntL_pos_iff (hs st) (tasks st) h). rewrite <- (inv_cnt _ I). unfold getc.
  split.
  - intros Hin. apply in_map_iff in Hin. destruct Hin as ([h' c] & Heq & Hin). simpl in Heq. subst h'.
    pose proof (P _ Hin) as Pc. simpl in Pc.
    apply (In_dget N.eqb n_spec) in Hin; [|apply I]. rewrite Hin. exact Pc.
  - destruct (dget N.eqb h (counts st)) eqn:E; [|lia]. intros _.
    eapply (dget_Some_in_keys N.eqb n_spec). eauto.
Qed.

Lemma found_Inv : forall st k o, Inv st -> In (k, o) (tasks st) ->
  fullname st o = k /\ reg_get st (fullname st o) = Some o.
Proof.
  intros st k o I Hin. apply (In_tasks_dget _ _ _ I) in Hin.
  destruct (inv_name _ I _ _ Hin) as [_ Fn]. split; auto. unfold reg_get. rewrite Fn. exact Hin.
Qed.

Lemma held_distinct_Inv : forall st, Inv st -> NoDup (reg_iter st).
Proof.
  intros st I. unfold reg_iter.
  assert (forall k o, In (k, o) (tasks st) -> fullname st o = k) as Fn.
  { intros. eapply found_Inv; eauto. }
  pose proof (inv_keys _ I) as ND. revert Fn ND.
  induction (tasks st) as [|[k o] r IH]; simpl; intros Fn ND; [constructor|].
  inversion ND; subst. constructor.
  - intro Hin. apply in_map_iff in Hin. destruct Hin as ([k' o'] & Heq & Hin). simpl in Heq. subst o'.
    assert (k' = k) by (rewrite <- (Fn k' o), <- (Fn k o); auto). subst k'.
    apply H1. change k with (fst (k, o)). apply in_map. exact Hin.
  - apply IH; auto.
Qed.
