(** Outside dry runs no job is ever parked as "would have been submitted" (PDryStop): with Proofs/JobQuiesce.v this
    sharpens "every job has ended" to "every job is settled with a value or an error". *)
From Coq Require Import List ZArith Bool Arith Lia.
From RV Require Import Model.JobMachine Proofs.JobBase Proofs.JobDup Proofs.JobDup2 Proofs.JobQuiesce.
Import ListNotations.
Open Scope list_scope.

Definition ND (s : state) : Prop := forall j x, getj s j = Some x -> jphase x <> PDryStop.

Lemma ND_init : ND init.
Proof. intros j x H. unfold getj in H. simpl in H. destruct j; discriminate. Qed.

Lemma ND_jobs s s' : jobs s' = jobs s -> ND s -> ND s'.
Proof. intros E H j x Hx. apply (H j x). unfold getj in *. now rewrite <- E. Qed.

Lemma ND_setj s j y : ND s -> jphase y <> PDryStop -> ND (setj s j y).
Proof.
  intros H Hy k z Hz. destruct (getj s j) as [x|] eqn:Hx.
  - destruct (getj_setj_cases s j x y k z Hx Hz) as [[-> ->]|[_ Hzk]]; [exact Hy|exact (H k z Hzk)].
  - apply (H k z). unfold getj in *. simpl in Hz.
    assert (E : set_nth (jobs s) j y = jobs s).
    { clear -Hx. unfold getj in Hx. revert j Hx. induction (jobs s) as [|a l IH]; intros [|j] Hx; simpl in *; try discriminate; auto.
      f_equal. now apply IH. }
    now rewrite E in Hz.
Qed.

Section N.
Variable c : config.

Lemma ND_requeue s k : ND s -> ND (requeue s k).
Proof.
  intros H. unfold requeue. destruct (getj s k) as [x|]; [|exact H].
  apply (ND_jobs (setj s k (with_phase x PQueued))); [reflexivity|]. apply ND_setj; [exact H|simpl; discriminate].
Qed.

Lemma ND_check_pending s : ND s -> ND (check_pending_limits c s).
Proof.
  intros H. unfold check_pending_limits. destruct (split_ready c s (waiting s) []) as [a b].
  assert (G : forall l s0, ND s0 -> ND (fold_left requeue l s0)).
  { induction l as [|x l IH]; intros s0 H0; simpl; [exact H0|]. apply IH. now apply ND_requeue. }
  apply G. apply (ND_jobs s); [reflexivity|exact H].
Qed.

Lemma ND_skip s : ND s -> ND (skip_wakeup c s).
Proof. intros H. unfold skip_wakeup. destruct (recheck_on_skip (vr c)); [now apply ND_check_pending|exact H]. Qed.

Lemma ND_maybe_release s j : ND s -> ND (maybe_release c s j).
Proof.
  intros H. unfold maybe_release. destruct (getj s j) as [x|] eqn:Hx; [|exact H].
  destruct (if release_if_holds (vr c) then jholds x else negb (jcached x)); [|exact H].
  apply ND_check_pending. apply (ND_jobs (setj s j (bump_release x))); [reflexivity|].
  apply ND_setj; [exact H|]. simpl. exact (H j x Hx).
Qed.

Lemma ND_settle_one s t o : ND s -> ND (settle_one c s t o).
Proof.
  intros H. unfold settle_one. destruct (getj s t) as [x|]; [|exact H].
  set (s1 := if jprov x then add_recorded s (jkey x, jctx x) o else s).
  assert (H1 : ND s1) by (unfold s1; destruct (jprov x); [apply (ND_jobs s); [reflexivity|exact H]|exact H]).
  unfold finalize. destruct (getj (setj s1 t (with_phase x (PSettled o))) t);
    [apply (ND_jobs (setj s1 t (with_phase x (PSettled o)))); [reflexivity|]|];
    apply ND_setj; auto; simpl; discriminate.
Qed.

Lemma ND_notify o s k : ND s -> ND (notify_sub c o s k).
Proof.
  intros H. unfold notify_sub. destruct (getj s k) as [y|] eqn:Hy; [|exact H]. destruct o as [v|e].
  - apply (ND_jobs (setj s k (mark_cached y (Some v) PCacheQ))); [reflexivity|]. apply ND_setj; [exact H|simpl; discriminate].
  - apply ND_settle_one. apply ND_setj; [exact H|]. simpl. exact (H k y Hy).
Qed.

Lemma ND_settle s t o : ND s -> ND (settle c s t o).
Proof.
  intros H. unfold settle. destruct (getj s t) as [x|]; [|exact H].
  assert (G : forall L s0, ND s0 -> ND (fold_left (notify_sub c o) L s0)).
  { induction L as [|k L IH]; intros s0 H0; simpl; [exact H0|]. apply IH. now apply ND_notify. }
  apply G. now apply ND_settle_one.
Qed.

Lemma ND_done_job s j : ND s -> ND (done_job c s j).
Proof.
  intros H. unfold done_job. pose proof (ND_maybe_release s j H) as H1.
  destruct (getj (maybe_release c s j) j) as [y|]; [|exact H1].
  destruct (jpreset y).
  - apply (ND_jobs (setj (maybe_release c s j) j (with_phase y PEvalQ))); [reflexivity|]. apply ND_setj; [exact H1|simpl; discriminate].
  - apply ND_setj; [exact H1|simpl; discriminate].
Qed.

Hypothesis Hreal : dryrun c = false.

Lemma ND_exec_job s j co : ND s -> ND (exec_job c s j co).
Proof.
  intros H. unfold exec_job. destruct (getj s j) as [x|]; [|exact H].
  destruct (if jnocse x then None else lookup_pending s (jkey x, jctx x)) as [t|].
  { apply ND_skip. apply (ND_jobs (setj s j (with_phase x (PCollapsed t)))); [reflexivity|].
    apply ND_setj; [exact H|simpl; discriminate]. }
  match goal with |- ND (match ?h with _ => _ end) => destruct h as [[v|e]|] end.
  - apply ND_skip. apply (ND_jobs (setj s j (mark_cached x v PCacheQ))); [reflexivity|]. apply ND_setj; [exact H|simpl; discriminate].
  - apply ND_skip. apply (ND_jobs (setj s j (mark_cached x None PCacheQ))); [reflexivity|]. apply ND_setj; [exact H|simpl; discriminate].
  - rewrite Hreal. destruct (negb (within c (used s) (jlimits x))).
    + apply (ND_jobs (setj s j (with_phase x PWaiting))); [reflexivity|]. apply ND_setj; [exact H|simpl; discriminate].
    + destruct (jbadexec x).
      * apply (ND_jobs (setj s j (mark_holds x PReported))); [reflexivity|]. apply ND_setj; [exact H|simpl; discriminate].
      * apply (ND_jobs (setj s j (mark_submitted (mark_holds x PSubmitted)))); [reflexivity|].
        apply ND_setj; [exact H|simpl; discriminate].
Qed.

Lemma ND_step s o : ND s -> ND (step c s o).
Proof.
  intros H. destruct o as [key ctx l nocse prov bad|k j0 co|j ok e|j o]; cbn [step].
  - intros k z Hz. unfold getj in Hz. simpl in Hz.
    destruct (Nat.lt_ge_cases k (length (jobs s))) as [Hlt|Hge].
    + rewrite nth_error_app1 in Hz by exact Hlt. exact (H k z Hz).
    + rewrite nth_error_app2 in Hz by exact Hge. destruct (k - length (jobs s)) as [|d].
      * simpl in Hz. injection Hz as <-. simpl. discriminate.
      * simpl in Hz. destruct d; discriminate.
  - set (i := find_event (queue s) k j0 0). destruct (nth_error (queue s) i) as [ev|]; [|exact H].
    assert (Hp : ND (pop_queue s i)) by (apply (ND_jobs s); [reflexivity|exact H]).
    destruct ev as [j|j|j e|j v].
    + now apply ND_exec_job.
    + now apply ND_done_job.
    + unfold reject_job. apply ND_settle. now apply ND_maybe_release.
    + unfold resolve_job. now apply ND_settle.
  - destruct (phase_is s j _); [|exact H]. destruct (getj s j) as [x|]; [|exact H].
    apply (ND_jobs (setj s j (with_phase x PReported))); [reflexivity|]. apply ND_setj; [exact H|simpl; discriminate].
  - destruct (phase_is s j _); [|exact H]. destruct (getj s j) as [x|]; [|exact H].
    apply (ND_jobs (setj s j (with_phase x PEvalQ))); [reflexivity|]. apply ND_setj; [exact H|simpl; discriminate].
Qed.

Theorem ND_run ops : ND (run c ops).
Proof.
  induction ops as [|o l IH] using rev_ind; [apply ND_init|].
  unfold run. rewrite fold_left_app. simpl. fold (run c l). now apply ND_step.
Qed.
End N.
