(** Converse of the dataclass premise: whenever map_nested_value returns, the value
    contains no dataclass node on which the configured steps raise.  So, as shipped, it
    never returns on a value containing a frozen dataclass with a non-init field or a
    slots dataclass -- for any func, with or without collisions. *)
From Coq Require Import List ZArith Bool.
From RV Require Import Model.Nested Proofs.NestedSpec Proofs.NestedSubst Proofs.NestedMap.
Import ListNotations.
Open Scope list_scope.

Section Hazard.
Variable A : Type.
Variable leq : A -> A -> bool.
Variable lhash : A -> bool.
Notation val := (val A).
Notation M := (M A).
Variable Q : val -> bool.

Definition ret_ok (g : val -> M val) (x : val) : Prop := forall log w, g x = (log, Ok w) -> Q x = true.

Lemma mapM_Q : forall (g : val -> M val) l log ys,
  Forall (ret_ok g) l -> mapM A g l = (log, Ok ys) -> forallb Q l = true.
Proof.
  intros g l. induction l as [|x r IH]; intros log ys HF HM; simpl in *; auto.
  inversion HF as [|? ? Hx Hr]; subst.
  destruct (g x) as [l1 [y|e]] eqn:G; simpl in HM; [|discriminate].
  destruct (mapM A g r) as [l2 [ys'|e]] eqn:G2; simpl in HM; [|discriminate].
  rewrite (Hx _ _ G). simpl. eauto.
Qed.

Lemma set_build_Q : forall (g : val -> M val) l acc log ys,
  Forall (ret_ok g) l -> set_build A leq lhash g l acc = (log, Ok ys) -> forallb Q l = true.
Proof.
  intros g l. induction l as [|x r IH]; intros acc log ys HF HM; simpl in *; auto.
  inversion HF as [|? ? Hx Hr]; subst.
  destruct (g x) as [l1 [y|e]] eqn:G; simpl in HM; [|discriminate].
  destruct (hashable A lhash y); simpl in HM; [|discriminate].
  destruct (set_build A leq lhash g r _) as [l2 [ys'|e]] eqn:G2; [|discriminate].
  rewrite (Hx _ _ G). simpl. eauto.
Qed.

Lemma dict_build_Q : forall (g : val -> M val) l acc log ys,
  Forall (fun kv => ret_ok g (fst kv) /\ ret_ok g (snd kv)) l ->
  dict_build A leq lhash g g l acc = (log, Ok ys) ->
  forallb (fun kv => let '(k, x) := kv in Q k && Q x) l = true.
Proof.
  intros g l. induction l as [|[k x] r IH]; intros acc log ys HF HM; simpl in *; auto.
  inversion HF as [|? ? [Hk Hx] Hr]; subst. simpl in *.
  destruct (g k) as [l1 [k'|e]] eqn:G; simpl in HM; [|discriminate].
  destruct (g x) as [l2 [x'|e]] eqn:G2; simpl in HM; [|discriminate].
  destruct (hashable A lhash k'); simpl in HM; [|try rewrite app_nil_r in HM; discriminate].
  destruct (dict_build A leq lhash g g r _) as [l3 [ys'|e]] eqn:G3; [|discriminate].
  rewrite (Hk _ _ G), (Hx _ _ G2). simpl. eauto.
Qed.

Lemma fields_build_Q : forall keep (g : val -> M val) (after : M unit) fs log ys,
  Forall (fun p => ret_ok g (snd p)) fs ->
  fields_build A keep g after fs = (log, Ok ys) ->
  forallb (fun p => let '(fd, x) := p in negb (keep fd) || Q x) fs = true /\
  (existsb (fun p => keep (fst p)) fs = true -> exists la, after = (la, Ok tt)).
Proof.
  intros keep g after fs log ys HF. revert log ys.
  induction HF as [|[fd x] r Hx Hr IH]; intros log ys HM; simpl in *.
  - split; auto. discriminate.
  - destruct (keep fd) eqn:K; simpl.
    + destruct (g x) as [l1 [y|e]] eqn:G; simpl in HM; [|discriminate].
      destruct after as [la [[]|e]] eqn:EA; simpl in HM; [|discriminate].
      destruct (fields_build A keep g (la, Ok tt) r) as [l2 [ys'|e]] eqn:G2; simpl in HM; [|discriminate].
      rewrite (Hx _ _ G). destruct (IH _ _ eq_refl) as [I1 I2]. split; eauto.
    + destruct (IH _ _ HM) as [I1 I2]. split; auto.
Qed.

End Hazard.

Section Converse.
Variable A : Type.
Variable leq : A -> A -> bool.
Variable lhash : A -> bool.
Notation val := (val A).

Theorem map_v_returns_dc_ok : forall s d (f : A -> val) (v : val) log w,
  map_v A leq lhash (cfg_of s d) f v = (log, Ok w) -> dc_ok s d v = true.
Proof.
  intros s d f. induction v using val_ind'; intros log w HM.
  - reflexivity.
  - cbn in HM. destruct (mapM A _ l) as [l1 [ys|e]] eqn:G; simpl in HM; [|discriminate].
    simpl. eapply (mapM_Q A (dc_ok s d)); eauto.
  - cbn in HM. destruct (mapM A _ l) as [l1 [ys|e]] eqn:G; simpl in HM; [|discriminate].
    simpl. eapply (mapM_Q A (dc_ok s d)); eauto.
  - cbn in HM. destruct (mapM A _ l) as [l1 [ys|e]] eqn:G; simpl in HM; [|discriminate].
    simpl. eapply (mapM_Q A (dc_ok s d)); eauto.
  - cbn in HM. destruct (set_build A leq lhash _ l []) as [l1 [ys|e]] eqn:G; simpl in HM; [|discriminate].
    simpl. eapply (set_build_Q A leq lhash (dc_ok s d)); eauto.
  - cbn in HM. destruct (dict_build A leq lhash _ _ kvs []) as [l1 [ys|e]] eqn:G; simpl in HM; [|discriminate].
    simpl. eapply (dict_build_Q A leq lhash (dc_ok s d)); eauto.
  - cbn in HM.
    destruct (fields_build A f_init _ _ fs) as [l1 [ys1|e]] eqn:G1; simpl in HM; [|discriminate].
    destruct (fields_build A (fun fd => negb (f_init fd)) _ _ fs) as [l2 [ys2|e]] eqn:G2; simpl in HM; [|discriminate].
    destruct (fields_build_Q A (dc_ok s d) _ _ _ _ _ _ H G1) as [Q1 _].
    destruct (fields_build_Q A (dc_ok s d) _ _ _ _ _ _ H G2) as [Q2 A2].
    simpl. apply andb_true_iff. split.
    + unfold dc_node_ok. apply andb_true_iff. split.
      * destruct s; auto. apply negb_true_iff. destruct (dc_frozen c) eqn:Fz; auto. simpl.
        destruct (existsb (fun p => negb (f_init (fst p))) fs) eqn:E; auto.
        destruct (A2 eq_refl) as [la Hla]. unfold setattr_step in Hla. simpl in Hla. rewrite Fz in Hla.
        discriminate.
      * destruct d; auto. apply negb_true_iff. destruct (dc_slots c) eqn:Sl; auto.
        unfold dictcopy_step in HM. simpl in HM. rewrite Sl in HM. cbn in HM. discriminate.
    + apply forallb_forall. intros [fd x] Hin.
      pose proof (proj1 (forallb_forall _ _) Q1 _ Hin) as R1.
      pose proof (proj1 (forallb_forall _ _) Q2 _ Hin) as R2. simpl in R1, R2.
      destruct (f_init fd); simpl in *; auto.
Qed.

Corollary map_v_never_returns_on_hazard : forall s d (f : A -> val) (v : val),
  dc_ok s d v = false -> exists log e, map_v A leq lhash (cfg_of s d) f v = (log, Err e).
Proof.
  intros s d f v H. destruct (map_v A leq lhash (cfg_of s d) f v) as [log [w|e]] eqn:E; eauto.
  apply map_v_returns_dc_ok in E. congruence.
Qed.
End Converse.
