(** C02 — concrete histories on which the shipped code returns something an empty backend would
    not return (computed inside the kernel), and the same histories in the repaired variant. *)
From Coq Require Import List Arith Bool.
From RV Require Import Model.CacheHist.
Import ListNotations.
Open Scope list_scope.

Definition results V P ops := map fst (run_hist V code_chain content_id P 30 h0 ops).
Definition fresh_results V P ops := map fst (run_fresh V code_chain content_id P 30 h0 ops).
Definition executed V P ops := map (fun o => length (snd o)) (run_hist V code_chain content_id P 30 h0 ops).
Definition fresh_executed V P ops := map (fun o => length (snd o)) (run_fresh V code_chain content_id P 30 h0 ops).

(** notes/experiments/e8.py: main() = catch(divider(0), PErr, recover); divider raises for 0;
    the body of divider is edited so that it no longer raises; the second execution replays
    recover(error) from catch's private entry. *)
Definition Wc_prog : program := table_prog [
  (0, 0, mkBody None (TCatch (TCall 1 (TNum 0)) 2));                      (* main *)
  (1, 0, mkBody (Some (IProj PArg, 0, 1)) (TNum 5));                      (* divider: raises PErr1 on 0 *)
  (1, 2, mkBody None (TNum 7));                                           (* divider, edited: "fixed" *)
  (2, 0, mkBody None (TNum 9)) ].                                         (* recover *)
Definition Wc_ops : list hop := [Run (TCall 0 (TNum 0)); EditBody 1 1; Run (TCall 0 (TNum 0))].

(** The same defect without any code edit: the failing task deep inside the caught expression
    reads a File it creates itself; the file is rewritten. *)
Definition Wf_prog : program := table_prog [
  (0, 0, mkBody None (TCatch (TCall 1 (TProj PArg)) 2));                  (* main *)
  (1, 0, mkBody None (TCall 3 (TFile 0)));                                (* opens File(in0) *)
  (3, 0, mkBody (Some (IRead PArg, 0, 1)) (TRead PArg));                  (* raises when the content is 0 *)
  (2, 0, mkBody None (TNum 9)) ].
Definition Wf_ops : list hop := [Run (TCall 0 (TNum 0)); RewriteFile 0 5; Run (TCall 0 (TNum 0))].

(** A version bump of the failing task, then a revert: the entry recorded in between is stale in
    both directions. *)
Definition Wv_ops : list hop :=
  [Run (TCall 0 (TNum 0)); BumpVersion 1 1; Run (TCall 0 (TNum 0)); Revert 1 1; Run (TCall 0 (TNum 0))].
Definition Wv_prog : program := table_prog [
  (0, 0, mkBody None (TCatch (TCall 1 (TNum 0)) 2));
  (1, 0, mkBody (Some (IProj PArg, 0, 1)) (TNum 5));
  (1, 3, mkBody None (TNum 7));
  (2, 0, mkBody None (TProj PArg)) ].

(** A File inside a lazy x[i] (SimpleExpression) of a cached single reduction is not validated:
    main() = reader(File(in0))[0]; the file is rewritten; the second execution replays the stale
    File into reader, whose own row is then hit with the old argument hash. *)
Definition Wp_prog : program := table_prog [
  (0, 0, mkBody None (TGet false (TCall 1 (TFile 0))));
  (1, 0, mkBody None (TPair (TRead PArg) (TNum 1))) ].
Definition Wp_ops : list hop := [Run (TCall 0 (TNum 0)); RewriteFile 0 5; Run (TCall 0 (TNum 0))].

Lemma Wc_shipped : results shipped Wc_prog Wc_ops = [Ok (VNum 9); Ok (VNum 9)] /\
                   fresh_results shipped Wc_prog Wc_ops = [Ok (VNum 9); Ok (VNum 7)].
Proof. vm_compute. split; reflexivity. Qed.
Lemma Wf_shipped : results shipped Wf_prog Wf_ops = [Ok (VNum 9); Ok (VNum 9)] /\
                   fresh_results shipped Wf_prog Wf_ops = [Ok (VNum 9); Ok (VNum 5)].
Proof. vm_compute. split; reflexivity. Qed.
Lemma Wv_shipped : results shipped Wv_prog Wv_ops = [Ok (VErr 1); Ok (VErr 1); Ok (VErr 1)] /\
                   fresh_results shipped Wv_prog Wv_ops = [Ok (VErr 1); Ok (VNum 7); Ok (VErr 1)].
Proof. vm_compute. split; reflexivity. Qed.
Lemma Wp_shipped : results shipped Wp_prog Wp_ops = [Ok (VNum 0); Ok (VNum 0)] /\
                   fresh_results shipped Wp_prog Wp_ops = [Ok (VNum 0); Ok (VNum 5)].
Proof. vm_compute. split; reflexivity. Qed.

Lemma refuted_catch : forall V, v_catch_cache V = true ->
  exists P ops, map fst (run_hist V code_chain content_id P 30 h0 ops) <> map fst (run_fresh V code_chain content_id P 30 h0 ops).
Proof.
  intros [pv cc] H. simpl in H. subst cc. exists Wc_prog, Wc_ops. destruct pv; vm_compute; discriminate.
Qed.

Lemma refuted_catch_rewrite : forall V, v_catch_cache V = true ->
  map fst (run_hist V code_chain content_id Wf_prog 30 h0 Wf_ops) <> map fst (run_fresh V code_chain content_id Wf_prog 30 h0 Wf_ops).
Proof. intros [pv cc] H. simpl in H. subst cc. destruct pv; vm_compute; discriminate. Qed.

Lemma refuted_proj : forall V, v_proj_valid V = false ->
  exists P ops, map fst (run_hist V code_chain content_id P 30 h0 ops) <> map fst (run_fresh V code_chain content_id P 30 h0 ops).
Proof.
  intros [pv cc] H. simpl in H. subst pv. exists Wp_prog, Wp_ops. destruct cc; vm_compute; discriminate.
Qed.

(** In the repaired variant the same histories agree with the empty backend, and the cache is
    really used (fewer task bodies run than on an empty backend). *)
Lemma witnesses_fixed :
  results fixed Wc_prog Wc_ops = fresh_results fixed Wc_prog Wc_ops /\
  results fixed Wf_prog Wf_ops = fresh_results fixed Wf_prog Wf_ops /\
  results fixed Wv_prog Wv_ops = fresh_results fixed Wv_prog Wv_ops /\
  results fixed Wp_prog Wp_ops = fresh_results fixed Wp_prog Wp_ops /\
  executed fixed Wv_prog Wv_ops = [3; 1; 1] /\ fresh_executed fixed Wv_prog Wv_ops = [3; 2; 3].
Proof. vm_compute. repeat split; reflexivity. Qed.
