(** C02 — basic facts about Model/CacheHist.v: decidable equalities, lookup, the decision chain,
    the relation "equal up to the hash carried by Task values inside catch expressions". *)
From Coq Require Import List Arith Bool Lia.
From RV Require Import Model.CacheHist.
Import ListNotations.
Open Scope list_scope.

Lemma val_eqb_eq : forall a b, val_eqb a b = true -> a = b.
Proof.
  induction a; destruct b; simpl; try discriminate; intros H.
  - apply Nat.eqb_eq in H. now subst.
  - apply Nat.eqb_eq in H. now subst.
  - apply andb_true_iff in H as [H1 H2]. apply Nat.eqb_eq in H1, H2. now subst.
  - apply andb_true_iff in H as [H1 H2]. f_equal; auto.
Qed.

Lemma val_eqb_refl : forall a, val_eqb a a = true.
Proof. induction a; simpl; rewrite ?Nat.eqb_refl, ?IHa1, ?IHa2; reflexivity. Qed.

Lemma expr_eqb_eq : forall a b, expr_eqb a b = true -> a = b.
Proof.
  induction a; destruct b; simpl; try discriminate; intros H.
  - apply val_eqb_eq in H. now subst.
  - apply andb_true_iff in H as [H1 H2]. apply Nat.eqb_eq in H1. subst. f_equal; auto.
  - apply andb_true_iff in H as [H1 H2]. f_equal; auto.
  - apply andb_true_iff in H as [H1 H2]. apply Bool.eqb_prop in H1. subst. f_equal; auto.
  - apply andb_true_iff in H as [H1 H3]. apply andb_true_iff in H1 as [H1 H2].
    apply Nat.eqb_eq in H2, H3. subst. f_equal; auto.
Qed.

Lemma key_eqb_eq : forall a b, key_eqb a b = true -> a = b.
Proof.
  destruct a, b; simpl; try discriminate; intros H.
  - apply andb_true_iff in H as [H1 H3]. apply andb_true_iff in H1 as [H1 H2].
    apply Nat.eqb_eq in H1, H2. apply val_eqb_eq in H3. now subst.
  - apply andb_true_iff in H as [H1 H3]. apply andb_true_iff in H1 as [H1 H2].
    apply Nat.eqb_eq in H2, H3. apply expr_eqb_eq in H1. now subst.
Qed.

Lemma lookup_In : forall k C r, lookup k C = Some r -> In (k, r) C.
Proof.
  induction C as [|[k' r'] C IH]; simpl; intros r H; [discriminate|].
  destruct (key_eqb k k') eqn:Hk.
  - apply key_eqb_eq in Hk. injection H as <-. subst. now left.
  - right. auto.
Qed.

(** What Scheduler._get_cache decides with the chain the source has. *)
Lemma get_cache_spec : forall V E d s k,
  get_cache V code_chain E d s k =
  match lookup k (s_cache s) with
  | Some r => if valid (v_proj_valid V) E d r then Some r else None
  | None => None
  end.
Proof.
  intros. unfold get_cache. destruct (lookup k (s_cache s)); simpl; [|reflexivity].
  destruct (valid _ _ _ _); reflexivity.
Qed.

Lemma valid_cur : forall E d e, valid true E d e = true -> cur d e = true.
Proof.
  induction e; simpl; intros H; auto.
  - apply andb_true_iff in H as [H1 H2]. rewrite IHe1, IHe2; auto.
  - apply andb_true_iff in H as [H1 H2]. auto.
Qed.

(** Equal up to the code annotation of the recover Task value. *)
Inductive sim : expr -> expr -> Prop :=
| sim_val v : sim (EVal v) (EVal v)
| sim_call t a a' : sim a a' -> sim (ECall t a) (ECall t a')
| sim_pair a a' b b' : sim a a' -> sim b b' -> sim (EPair a b) (EPair a' b')
| sim_get i a a' : sim a a' -> sim (EGet i a) (EGet i a')
| sim_catch e e' r c c' : sim e e' -> sim (ECatch e r c) (ECatch e' r c').

Lemma sim_refl : forall e, sim e e.
Proof. induction e; constructor; auto. Qed.

Lemma sim_cur : forall d e e', sim e e' -> cur d e = cur d e'.
Proof. induction 1; simpl; congruence. Qed.
