(** _parse_sections / convert_to_dict: the nested structure is rebuilt exactly from its own
    leaves, and under the guard (no dotted path is a prefix of another) every section is a leaf. *)
From Coq Require Import List Ascii Bool Arith Lia Permutation.
From RV Require Import Model.Config Proofs.ConfigFacts.
Import ListNotations.
Open Scope list_scope.

Section TreeInd.
  Variable P : tree -> Prop.
  Hypothesis HL : forall f, P (Leaf f).
  Hypothesis HN : forall kids, Forall (fun kt => P (snd kt)) kids -> P (Node kids).
  Fixpoint tree_ind' (t : tree) : P t :=
    match t with
    | Leaf f => HL f
    | Node kids =>
        HN kids ((fix go (kids : list (str * tree)) : Forall (fun kt => P (snd kt)) kids :=
                    match kids with
                    | [] => Forall_nil _
                    | (k, t') :: r => Forall_cons (k, t') (tree_ind' t') (go r)
                    end) kids)
    end.
End TreeInd.

(** * Leaves with their paths as lists of parts *)
Definition pre (k : str) (e : list str * str) : list str * str := (k :: fst e, snd e).

Fixpoint walkp (t : tree) : list (list str * str) :=
  match t with
  | Leaf full => [([], full)]
  | Node kids =>
      (fix go (kids : list (str * tree)) : list (list str * str) :=
         match kids with
         | [] => []
         | (k, t') :: r => map (pre k) (walkp t') ++ go r
         end) kids
  end.

Definition walkp_kids (kids : list (str * tree)) : list (list str * str) :=
  flat_map (fun kt => map (pre (fst kt)) (walkp (snd kt))) kids.

Lemma walkp_node kids : walkp (Node kids) = walkp_kids kids.
Proof. simpl. induction kids as [|[k t] r IH]; simpl; auto. f_equal. auto. Qed.

Lemma walk_node cfg path kids :
  walk cfg path (Node kids) = flat_map (fun kt => walk cfg (join cfg path (fst kt)) (snd kt)) kids.
Proof. simpl. induction kids as [|[k t] r IH]; simpl; auto. f_equal. auto. Qed.

Lemma walk_walkp cfg t : forall path,
  walk cfg path t = map (fun e => (fold_left (join cfg) (fst e) path, snd e)) (walkp t).
Proof.
  induction t as [f|kids IH] using tree_ind'; intros path; [reflexivity|].
  rewrite walk_node, walkp_node. unfold walkp_kids.
  induction IH as [|[k t] r Ht _ IHr]; [reflexivity|].
  cbn [flat_map fst snd]. rewrite map_app. f_equal; [|exact IHr].
  rewrite Ht. rewrite map_map. reflexivity.
Qed.

(** * Well-formed trees: distinct keys, no empty inner node *)
Fixpoint good (t : tree) : Prop :=
  match t with
  | Leaf _ => True
  | Node kids =>
      kids <> [] /\ NoDup (map fst kids) /\
      (fix all (kids : list (str * tree)) : Prop :=
         match kids with [] => True | (_, t') :: r => good t' /\ all r end) kids
  end.

Definition good_kids (kids : list (str * tree)) : Prop :=
  NoDup (map fst kids) /\ Forall (fun kt => good (snd kt)) kids.

Lemma good_node kids : good (Node kids) <-> kids <> [] /\ good_kids kids.
Proof.
  unfold good_kids. cbn [good].
  assert (X : (fix all (kids : list (str * tree)) : Prop :=
                 match kids with [] => True | (_, t') :: r => good t' /\ all r end) kids
              <-> Forall (fun kt => good (snd kt)) kids).
  { induction kids as [|[k t] r IH]; split; auto.
    - intros [H1 H2]. constructor; auto. apply IH; auto.
    - intros H. inversion H; subst. split; auto. apply IH; auto. }
  tauto.
Qed.

Lemma walkp_nonempty t : good t -> walkp t <> [].
Proof.
  induction t as [f|kids IH] using tree_ind'; [discriminate|].
  intros G. apply good_node in G. destruct G as [Hne [_ Hg]].
  destruct kids as [|[k t] r]; [contradiction|].
  inversion IH; subst. inversion Hg; subst. simpl in *.
  specialize (H1 H3). destruct (walkp t); [contradiction|discriminate].
Qed.

Lemma in_walkp_kids k t kids e : In (k, t) kids -> In e (walkp t) -> In (pre k e) (walkp_kids kids).
Proof. intros H1 H2. unfold walkp_kids. apply in_flat_map. exists (k, t). split; auto. simpl. apply in_map. auto. Qed.

Lemma walkp_kids_app a b : walkp_kids (a ++ b) = walkp_kids a ++ walkp_kids b.
Proof. apply flat_map_app. Qed.

Lemma walkp_kids_cons k t r : walkp_kids ((k, t) :: r) = map (pre k) (walkp t) ++ walkp_kids r.
Proof. reflexivity. Qed.

Lemma walkp_kids_nonempty_paths kids : Forall (fun e => fst e <> []) (walkp_kids kids).
Proof.
  apply Forall_forall. intros e H. apply in_flat_map in H. destruct H as (kt & _ & H).
  apply in_map_iff in H. destruct H as (e' & <- & _). discriminate.
Qed.

(** * Inserting a path that is unrelated to the existing leaves *)
Definition prefix (a b : list str) : Prop := exists c, b = a ++ c.

Definition fresh (ps : list str) (W : list (list str * str)) : Prop :=
  forall e, In e W -> ~ prefix ps (fst e) /\ ~ prefix (fst e) ps.

Lemma insert_single part full kids : insert [part] full kids = Ok (dset part (Leaf full) kids).
Proof. reflexivity. Qed.

Lemma insert_cons2 part r0 rs full kids :
  insert (part :: r0 :: rs) full kids =
  match dget part kids with
  | None => rmap (fun sub => kids ++ [(part, Node sub)]) (insert (r0 :: rs) full [])
  | Some (Node sub) => rmap (fun sub' => dset part (Node sub') kids) (insert (r0 :: rs) full sub)
  | Some (Leaf _) => Err NestError
  end.
Proof. reflexivity. Qed.

Lemma NoDup_snoc {A} (l : list A) x : NoDup l -> ~ In x l -> NoDup (l ++ [x]).
Proof. intros. apply (Permutation_NoDup (Permutation_cons_append l x)). constructor; auto. Qed.

Lemma insert_ok : forall ps full kids,
  ps <> [] -> good_kids kids -> fresh ps (walkp_kids kids) ->
  exists kids', insert ps full kids = Ok kids' /\ good_kids kids' /\ kids' <> [] /\
     Permutation (walkp_kids kids') (walkp_kids kids ++ [(ps, full)]).
Proof.
  induction ps as [|part rest IH]; intros full kids Hne [Hnd Hg] Hf; [contradiction|].
  destruct rest as [|r0 rs].
  - assert (Hn : ~ In part (map fst kids)).
    { intros Hin. apply in_map_iff in Hin. destruct Hin as ([k t] & Hk & Hin). simpl in Hk. subst k.
      assert (Gt : good t) by (rewrite Forall_forall in Hg; apply (Hg _ Hin)).
      destruct (walkp t) as [|e W] eqn:Ew; [eapply walkp_nonempty; eauto|].
      destruct (Hf (pre part e)) as [H1 _]. { eapply in_walkp_kids; eauto. rewrite Ew. left; auto. }
      apply H1. exists (fst e). reflexivity. }
    exists (kids ++ [(part, Leaf full)]). rewrite insert_single, dset_notin by auto.
    split; auto. split.
    { split. - rewrite map_app. apply NoDup_snoc; auto.
      - apply Forall_app. split; auto. constructor; simpl; auto. }
    split. { destruct kids; discriminate. }
    rewrite walkp_kids_app. apply Permutation_refl.
  - rewrite insert_cons2. destruct (dget part kids) as [[f|sub]|] eqn:Eg.
    + exfalso. apply dget_some_in in Eg.
      destruct (Hf (pre part ([], f))) as [_ H2]. { eapply in_walkp_kids; eauto. simpl. auto. }
      apply H2. exists (r0 :: rs). reflexivity.
    + destruct (dget_split _ _ _ Eg) as (l1 & l2 & -> & Hl1).
      assert (Gs : good (Node sub)).
      { rewrite Forall_forall in Hg. apply (Hg (part, Node sub)). apply in_or_app. right. left. auto. }
      apply good_node in Gs. destruct Gs as [Hsne Gs].
      assert (Fs : fresh (r0 :: rs) (walkp_kids sub)).
      { intros e He. destruct (Hf (pre part e)) as [H1 H2].
        { eapply in_walkp_kids; [apply in_or_app; right; left; reflexivity|]. rewrite walkp_node. auto. }
        split; intros [c Hc]; [apply H1|apply H2]; exists c; simpl; rewrite Hc; reflexivity. }
      destruct (IH full sub ltac:(discriminate) Gs Fs) as (sub' & E & G' & Hne' & HP).
      rewrite E. cbn [rmap]. rewrite dset_split by auto.
      exists (l1 ++ (part, Node sub') :: l2). split; auto. split.
      { split.
        - rewrite map_app in *. simpl in *. exact Hnd.
        - apply Forall_app in Hg. destruct Hg as [Hg1 Hg2]. inversion Hg2; subst.
          apply Forall_app. split; auto. constructor; auto. simpl. apply good_node. auto. }
      split. { destruct l1; discriminate. }
      rewrite !walkp_kids_app, !walkp_kids_cons.
      rewrite !walkp_node. rewrite HP. rewrite map_app. simpl.
      rewrite <- !app_assoc. apply Permutation_app_head. apply Permutation_app_head. simpl.
      apply Permutation_cons_append.
    + apply dget_none_notin in Eg.
      destruct (IH full [] ltac:(discriminate)) as (sub & E & G' & Hne' & HP).
      { split; constructor. } { intros e []. }
      rewrite E. cbn [rmap]. exists (kids ++ [(part, Node sub)]). split; auto. split.
      { split. - rewrite map_app. apply NoDup_snoc; auto.
        - apply Forall_app. split; auto. constructor; auto. simpl. apply good_node. auto. }
      split. { destruct kids; discriminate. }
      rewrite walkp_kids_app. apply Permutation_app_head. rewrite walkp_kids_cons. cbn [walkp_kids flat_map].
      rewrite app_nil_r, walkp_node. simpl in HP. rewrite HP. reflexivity.
Qed.

(** No path is a prefix of another one (so in particular they are pairwise different). *)
Inductive pfree : list (list str) -> Prop :=
| pfree_nil : pfree []
| pfree_cons ps l : (forall q, In q l -> ~ prefix ps q /\ ~ prefix q ps) -> pfree l -> pfree (ps :: l).

Lemma insert_all_ok : forall es kids,
  pfree (map fst es) -> Forall (fun e => fst e <> []) es -> good_kids kids ->
  (forall e, In e es -> fresh (fst e) (walkp_kids kids)) ->
  exists t, insert_all es kids = Ok t /\ good_kids t /\ Permutation (walkp_kids t) (walkp_kids kids ++ es).
Proof.
  induction es as [|[ps full] r IH]; intros kids Hp Hne G Hf.
  - exists kids. rewrite app_nil_r. auto.
  - simpl in Hp. inversion Hp as [|? ? Hps Hpr]; subst. inversion Hne; subst.
    destruct (insert_ok ps full kids) as (kids' & E & G' & _ & HP); auto.
    { apply (Hf (ps, full)). left; auto. }
    destruct (IH kids' Hpr) as (t & Et & Gt & HPt); auto.
    { intros e He x Hx. apply (Permutation_in _ HP) in Hx. apply in_app_or in Hx. destruct Hx as [Hx|[<-|[]]].
      - apply (Hf e); auto. right; auto.
      - simpl. destruct (Hps (fst e)) as [Ha Hb]. { apply in_map. auto. } split; auto. }
    exists t. simpl. rewrite E. simpl. split; auto. split; auto.
    rewrite HPt, HP. rewrite <- app_assoc. reflexivity.
Qed.

(** * A good tree is rebuilt exactly from its own leaves (in visiting order) *)
Lemma insert_all_app a b acc : insert_all (a ++ b) acc = bind (insert_all a acc) (insert_all b).
Proof. revert acc. induction a as [|[ps f] a IH]; intros; simpl; auto. destruct (insert ps f acc); simpl; auto. Qed.

Lemma insert_all_under k : forall E s s' acc,
  ~ In k (map fst acc) -> Forall (fun e => fst e <> []) E ->
  insert_all E s = Ok s' -> insert_all (map (pre k) E) (acc ++ [(k, Node s)]) = Ok (acc ++ [(k, Node s')]).
Proof.
  induction E as [|[ps f] E IH]; intros s s' acc Hk Hne H.
  - simpl in *. injection H as ->. auto.
  - inversion Hne; subst. simpl in H2. destruct ps as [|p0 pr]; [contradiction|].
    cbn [insert_all] in H. destruct (insert (p0 :: pr) f s) as [s1|] eqn:E1; simpl in H; [|discriminate].
    cbn [map insert_all]. unfold pre at 1. cbn [fst snd]. rewrite insert_cons2.
    rewrite dget_app_last by auto. rewrite E1. cbn [rmap bind].
    rewrite dset_app_last by auto. apply IH; auto.
Qed.

Definition rebuilds (t : tree) : Prop :=
  good t -> forall k acc, ~ In k (map fst acc) ->
  insert_all (map (pre k) (walkp t)) acc = Ok (acc ++ [(k, t)]).

Lemma rebuild_kids_gen kids :
  Forall (fun kt => rebuilds (snd kt)) kids -> Forall (fun kt => good (snd kt)) kids ->
  forall acc, NoDup (map fst (acc ++ kids)) -> insert_all (walkp_kids kids) acc = Ok (acc ++ kids).
Proof.
  induction kids as [|[k t] r IH]; intros HR HG acc ND.
  - rewrite app_nil_r. reflexivity.
  - inversion HR; subst. inversion HG; subst. simpl in *.
    unfold walkp_kids. cbn [flat_map fst snd]. rewrite insert_all_app.
    rewrite H1; auto.
    + cbn [bind]. fold (walkp_kids r). rewrite IH; auto.
      * rewrite <- app_assoc. reflexivity.
      * rewrite <- app_assoc. exact ND.
    + rewrite map_app in ND. simpl in ND. apply NoDup_remove_2 in ND. intros X. apply ND. apply in_or_app. auto.
Qed.

Lemma rebuild_tree t : rebuilds t.
Proof.
  induction t as [f|sub IH] using tree_ind'; intros G k acc Hk.
  - simpl. rewrite dset_notin by auto. reflexivity.
  - apply good_node in G. destruct G as [Hne [ND HG]].
    assert (Q : insert_all (walkp_kids sub) [] = Ok sub).
    { apply (rebuild_kids_gen sub IH HG []). exact ND. }
    rewrite walkp_node.
    pose proof (walkp_kids_nonempty_paths sub) as NE.
    destruct (walkp_kids sub) as [|[ps1 f1] E'] eqn:EW.
    { exfalso. destruct sub as [|[k1 t1] r1]; [contradiction|]. inversion HG; subst.
      unfold walkp_kids in EW. cbn [flat_map fst snd] in EW. apply app_eq_nil in EW. destruct EW as [EW _].
      apply map_eq_nil in EW. eapply walkp_nonempty; eauto. }
    inversion NE; subst. simpl in H1. destruct ps1 as [|p0 pr]; [contradiction|].
    cbn [insert_all] in Q. destruct (insert (p0 :: pr) f1 []) as [s1|] eqn:E1; simpl in Q; [|discriminate].
    cbn [map insert_all]. unfold pre at 1. cbn [fst snd]. rewrite insert_cons2.
    rewrite dget_notin by auto. rewrite E1. cbn [rmap bind].
    apply insert_all_under; auto.
Qed.

Lemma rebuild_kids kids : good_kids kids -> insert_all (walkp_kids kids) [] = Ok kids.
Proof.
  intros [ND HG]. apply (rebuild_kids_gen kids); auto.
  apply Forall_forall. intros kt _. apply rebuild_tree.
Qed.

(** * Section names: the guard, and what _parse_sections / convert_to_dict do under it *)
Definition guard (cfg : config_cfg) (names : list str) : Prop :=
  (forall n, In n names -> name_ok cfg n = true) /\ NoDup names /\
  (forall n m, In n names -> In m names -> prefix (split (sep cfg) n) (split (sep cfg) m) -> n = m).

Lemma guard_pfree cfg names : guard cfg names -> pfree (map (split (sep cfg)) names).
Proof.
  intros (_ & ND & HP). induction names as [|n r IH]; [constructor|].
  inversion ND; subst. simpl. constructor.
  - intros q Hq. apply in_map_iff in Hq. destruct Hq as (m & <- & Hm).
    split; intros X.
    + assert (n = m) by (apply HP; simpl; auto). subst. contradiction.
    + assert (m = n) by (apply HP; simpl; auto). subst. contradiction.
  - apply IH; auto. intros. apply HP; simpl; auto.
Qed.

Lemma guard_perm cfg a b : Permutation a b -> guard cfg a -> guard cfg b.
Proof.
  intros P (H1 & H2 & H3). split; [|split].
  - intros n Hn. apply H1. eapply Permutation_in; [apply Permutation_sym|]; eauto.
  - eapply Permutation_NoDup; eauto.
  - intros n m Hn Hm. apply H3; eapply Permutation_in; try apply Permutation_sym; eauto.
Qed.

Theorem parse_guarded cfg names :
  join_guard cfg = true -> guard cfg names ->
  exists t names',
    insert_all (entries cfg names) [] = Ok t /\
    Permutation names' names /\
    walk cfg [] (Node t) = map (fun n => (n, n)) names' /\
    insert_all (entries cfg names') [] = Ok t.
Proof.
  intros Hj Hg.
  destruct (insert_all_ok (entries cfg names) []) as (t & E & G & HP).
  { unfold entries. rewrite map_map. simpl. apply guard_pfree; auto. }
  { apply Forall_forall. intros e He. apply in_map_iff in He. destruct He as (n & <- & _). apply split_nonempty. }
  { split; constructor. }
  { intros e _ x []. }
  simpl in HP.
  assert (Hshape : forall e, In e (walkp_kids t) -> exists n, In n names /\ e = (split (sep cfg) n, n)).
  { intros e He. apply (Permutation_in _ HP) in He. apply in_map_iff in He. destruct He as (n & <- & Hn). eauto. }
  exists t, (map snd (walkp_kids t)). split; auto. split.
  { rewrite HP. unfold entries. rewrite map_map. simpl. rewrite map_id. reflexivity. }
  split.
  - rewrite walk_walkp, walkp_node, map_map. apply map_ext_in. intros e He.
    destruct (Hshape e He) as (n & Hn & ->). simpl. rewrite fold_join_split; auto. apply Hg; auto.
  - replace (entries cfg (map snd (walkp_kids t))) with (walkp_kids t); [apply rebuild_kids; auto|].
    unfold entries. rewrite map_map. rewrite <- (map_id (walkp_kids t)) at 1. apply map_ext_in.
    intros e He. destruct (Hshape e He) as (n & Hn & ->). reflexivity.
Qed.
