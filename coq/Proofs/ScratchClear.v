(** C32 — executors that judge a finished job by its scratch files (docker.iter_job_status, hence
    DockerExecutor and every executor's debug mode; AWSBatchExecutor._can_override_failed) and the
    clearing of a previous output file by oneshot.

    shipped  = [ClearCached]: the remove sits inside `if output_path and not args.no_cache`
    fixed    = [ClearAlways]: the remove is done whenever there is an output path
    [ClearNever]: no remove at all *)
From Coq Require Import List Arith NArith Ascii String Bool Lia.
From RV Require Import Base.Decimal Base.Lit Model.Scratch Proofs.ScratchStr Proofs.ScratchRun Proofs.ScratchMain.
Import ListNotations.
Open Scope list_scope.

Definition fixed : cfg := with_clear ClearAlways shipped.
Definition never : cfg := with_clear ClearNever shipped.

Lemma fixed_ok : cfg_ok fixed.
Proof.
  constructor; try (split; [discriminate|repeat constructor]); try discriminate; try reflexivity.
  repeat constructor.
Qed.

Section Clear.
  Variable V : Type.
  Variable pbytes : Type.
  Variable dump : obj V -> pbytes.
  Variable load : pbytes -> option (obj V).
  Variable f : obj V -> obj V -> outcome V.
  Variable valid : obj V -> bool.
  Variable tb_of : obj V -> obj V.
  Hypothesis RT : forall o, load (dump o) = Some o.

  (** exactly one of the job's output / error file exists *)
  Definition one_file (c : cfg) (prefix : str) (fs : fs_t pbytes) (h : str) : Prop :=
    one_of_out_err pbytes c prefix fs h.

  (** fixed variant: every run, cached or not, whatever an earlier run left in the output file *)
  Theorem by_output_fixed prefix nc (j : job V) fs :
    hexstr (j_hash j) = true -> prior_ok V pbytes load f valid fixed prefix nc j fs ->
    let fs' := fst (remote_single V pbytes dump load f valid tb_of fixed prefix nc j fs) in
    collect_by_output V pbytes load fixed prefix (j_hash j) fs' = local V f j /\ one_file fixed prefix fs' (j_hash j).
  Proof.
    intros H P. apply (single_by_output V pbytes dump load f valid tb_of RT fixed fixed_ok); auto using hex_name.
    left. reflexivity.
  Qed.

  (** with --no-cache nothing at all is assumed about the scratch directory *)
  Theorem by_output_fixed_no_cache prefix (j : job V) fs :
    hexstr (j_hash j) = true ->
    let fs' := fst (remote_single V pbytes dump load f valid tb_of fixed prefix true j fs) in
    collect_by_output V pbytes load fixed prefix (j_hash j) fs' = local V f j /\ one_file fixed prefix fs' (j_hash j).
  Proof.
    intros H. apply by_output_fixed; [assumption|].
    unfold prior_ok, prior. destruct (fs_read _ _ _) as [[b|l|t]|]; auto.
  Qed.

  (** as shipped: only when the cache is consulted (no --no-cache) *)
  Theorem by_output_shipped_cached prefix (j : job V) fs :
    hexstr (j_hash j) = true -> prior_ok V pbytes load f valid shipped prefix false j fs ->
    let fs' := fst (remote_single V pbytes dump load f valid tb_of shipped prefix false j fs) in
    collect_by_output V pbytes load shipped prefix (j_hash j) fs' = local V f j /\ one_file shipped prefix fs' (j_hash j).
  Proof.
    intros H P. apply (single_by_output V pbytes dump load f valid tb_of RT shipped shipped_ok); auto using hex_name.
    right. split; reflexivity.
  Qed.

  (** array elements, after any schedule *)
  Theorem array_by_output_fixed prefix aid jobs nc envs fs0 inc before i j :
    hexstr aid = true -> HexJobs V jobs -> HashDeterminesArgs V jobs ->
    (forall i, i < List.length jobs -> get_index fixed (envs i) None = IdxOk (N.of_nat i)) ->
    (forall j, In j jobs -> prior_ok V pbytes load f valid fixed prefix nc j fs0) ->
    Forall (fun i => i < List.length jobs) before ->
    nth_error jobs i = Some j ->
    let fs := run_seq V pbytes dump load f valid tb_of fixed prefix aid nc envs before
                (write_array V pbytes dump fixed prefix aid jobs inc fs0) in
    let fs' := fst (run_elem V pbytes dump load f valid tb_of fixed prefix aid nc (envs i) fs) in
    collect_by_output V pbytes load fixed prefix (j_hash j) fs' = local V f j /\ one_file fixed prefix fs' (j_hash j).
  Proof.
    intros Ha Hj Hs He Hp Hb Hn.
    apply (array_elem_by_output V pbytes dump load f valid tb_of RT fixed fixed_ok prefix aid (hex_name _ Ha)
             jobs (hexjobs_names V _ Hj) Hs nc envs He fs0 inc before i j Hp Hb Hn).
    left. reflexivity.
  Qed.

  Theorem array_by_output_shipped_cached prefix aid jobs envs fs0 inc before i j :
    hexstr aid = true -> HexJobs V jobs -> HashDeterminesArgs V jobs ->
    (forall i, i < List.length jobs -> get_index shipped (envs i) None = IdxOk (N.of_nat i)) ->
    (forall j, In j jobs -> prior_ok V pbytes load f valid shipped prefix false j fs0) ->
    Forall (fun i => i < List.length jobs) before ->
    nth_error jobs i = Some j ->
    let fs := run_seq V pbytes dump load f valid tb_of shipped prefix aid false envs before
                (write_array V pbytes dump shipped prefix aid jobs inc fs0) in
    let fs' := fst (run_elem V pbytes dump load f valid tb_of shipped prefix aid false (envs i) fs) in
    collect_by_output V pbytes load shipped prefix (j_hash j) fs' = local V f j /\ one_file shipped prefix fs' (j_hash j).
  Proof.
    intros Ha Hj Hs He Hp Hb Hn.
    apply (array_elem_by_output V pbytes dump load f valid tb_of RT shipped shipped_ok prefix aid (hex_name _ Ha)
             jobs (hexjobs_names V _ Hj) Hs false envs He fs0 inc before i j Hp Hb Hn).
    right. split; reflexivity.
  Qed.
End Clear.

(** ** Histories whose outcome changes between runs: witnesses *)
Module History.
  Definition V := nat.
  Definition pb := obj V.
  Definition dump (o : obj V) : pb := o.
  Definition load (b : pb) : option (obj V) := Some b.
  Definition tb (_ : obj V) : obj V := Leaf 7.
  Definition prefix := lit "s".
  Definition j : job V := {| j_hash := lit "ab12"; j_args := Leaf 1; j_kwargs := Leaf 2 |}.
  (* the same call at two moments: first it returns 5, later it raises 99 *)
  Definition f_ok (a k : obj V) : outcome V := Ret V (Leaf 5).
  Definition f_raise (a k : obj V) : outcome V := Exc V (Leaf 99).

  (* run 1 (ok) then run 2 (raise) on one scratch directory; what a file-judging executor reports
     for run 2, and whether both files exist afterwards *)
  Definition ok_then_raise (c : cfg) (nc : bool) (valid : obj V -> bool) : collected V * bool :=
    let fs1 := fst (remote_single V pb dump load f_ok valid tb c prefix nc j []) in
    let fs2 := fst (remote_single V pb dump load f_raise valid tb c prefix nc j fs1) in
    (collect_by_output V pb load c prefix (j_hash j) fs2,
     match fs_read pb fs2 (job_file c prefix (j_hash j) (f_output c)),
           fs_read pb fs2 (job_file c prefix (j_hash j) (f_error c)) with
     | Some _, Some _ => true | _, _ => false end).

  Definition all_valid (_ : obj V) := true.
  Definition none_valid (_ : obj V) := false.     (* the stored value is no longer valid *)

  (** as shipped, with --no-cache: the stale result of run 1 is reported for the failing run 2, and
      both files exist *)
  Lemma shipped_no_cache_refuted :
    ok_then_raise shipped true all_valid = (CDone V (Leaf 5), true)
    /\ local V f_raise j = CReject V (Leaf 99).
  Proof. split; vm_compute; reflexivity. Qed.

  (** never clearing: the same even when the cache is consulted and rejects the stale value *)
  Lemma never_refuted :
    ok_then_raise never false none_valid = (CDone V (Leaf 5), true)
    /\ ok_then_raise never true all_valid = (CDone V (Leaf 5), true)
    /\ local V f_raise j = CReject V (Leaf 99).
  Proof. repeat split; vm_compute; reflexivity. Qed.

  (** fixed (and shipped when the cache is consulted): run 2 is reported as the local exception *)
  Lemma fixed_agrees :
    ok_then_raise fixed true all_valid = (CReject V (Leaf 99), false)
    /\ ok_then_raise fixed false none_valid = (CReject V (Leaf 99), false)
    /\ ok_then_raise shipped false none_valid = (CReject V (Leaf 99), false).
  Proof. repeat split; vm_compute; reflexivity. Qed.
End History.
