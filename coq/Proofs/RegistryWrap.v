(** What [wraps_task] does to a registered task whose wrapped_task chain is well formed:
    every task of the chain moves to the wrapper's inner namespace and is found there, the
    links are updated, and the new wrapper takes the visible name. *)
From Coq Require Import List ZArith NArith String Bool Arith Lia.
From RV Require Import Model.Registry Proofs.RegistryDict Proofs.RegistryInv.
Import ListNotations.
Open Scope list_scope.

Definition registered (st : state) (o : nat) : Prop :=
  dget String.eqb (fullname st o) (tasks st) = Some o.

(* the chain of wrapped_task links from o: every link resolves to a registered task and the
   full names get strictly longer (which is what "inner namespace" nesting produces) *)
Inductive good_chain (st : state) : nat -> nat -> Prop :=
| gc_plain : forall o, registered st o -> t_wrapped (obj st o) = None -> good_chain st o 0
| gc_link : forall o wn o1 n, registered st o -> t_wrapped (obj st o) = Some wn ->
    dget String.eqb wn (tasks st) = Some o1 ->
    (String.length (fullname st o) < String.length wn)%nat ->
    good_chain st o1 n -> good_chain st o (S n).

Inductive in_chain (st : state) : nat -> nat -> Prop :=
| ic_here : forall o, in_chain st o o
| ic_next : forall o wn o1 x, t_wrapped (obj st o) = Some wn ->
    dget String.eqb wn (tasks st) = Some o1 -> in_chain st o1 x -> in_chain st o x.

(* task x after the wrap, compared with before *)
Definition moved1 (st st' : state) (s : string) (x : nat) : Prop :=
  t_ns (obj st' x) = inner_ns (t_ns (obj st x)) s /\
  t_name (obj st' x) = t_name (obj st x) /\
  t_hash (obj st' x) = t_hash (obj st x) /\
  registered st' x /\
  match t_wrapped (obj st x) with
  | None => t_wrapped (obj st' x) = None
  | Some wn => exists x1, dget String.eqb wn (tasks st) = Some x1 /\
                          t_wrapped (obj st' x) = Some (fullname st' x1)
  end.

(** ** string lengths *)
Lemma slen_app : forall a b, String.length (a ++ b) = (String.length a + String.length b)%nat.
Proof. induction a; simpl; intros; auto. Qed.

Lemma eqb_empty : forall a, (a =? "")%string = true <-> a = ""%string.
Proof. intros. apply String.eqb_eq. Qed.

Lemma inner_len : forall ns nm s, s <> ""%string ->
  String.length (fullname_of (inner_ns ns s) nm) = (String.length (fullname_of ns nm) + String.length s + 1)%nat.
Proof.
  intros ns nm s Hs. unfold fullname_of, inner_ns.
  destruct (ns =? "")%string eqn:E.
  - destruct (s =? "")%string eqn:E2; [apply eqb_empty in E2; contradiction|].
    repeat (rewrite slen_app; simpl). lia.
  - assert ((ns ++ "." ++ s =? "")%string = false) as ->.
    { destruct (ns ++ "." ++ s =? "")%string eqn:E3; auto. apply eqb_empty in E3.
      destruct ns; simpl in *; [discriminate E | discriminate E3]. }
    repeat (rewrite slen_app; simpl). lia.
Qed.

(** ** facts about chains *)
Lemma good_registered : forall st o n, good_chain st o n -> registered st o.
Proof. intros. inversion H; auto. Qed.

Lemma chain_good : forall st o n x, good_chain st o n -> in_chain st o x -> exists m, good_chain st x m.
Proof.
  intros st o n x G. revert x. induction G; intros x IC.
  - inversion IC; subst; [exists 0%nat; constructor; auto | congruence].
  - inversion IC; subst.
    + exists (S n). econstructor; eauto.
    + rewrite H0 in H3. inversion H3; subst. rewrite H1 in H4. inversion H4; subst. auto.
Qed.

Lemma chain_len : forall st o n x, Inv st -> good_chain st o n -> in_chain st o x ->
  (String.length (fullname st o) <= String.length (fullname st x))%nat.
Proof.
  intros st o n x I G. revert x. induction G; intros x IC.
  - inversion IC; subst; [lia | congruence].
  - inversion IC; subst; [lia|].
    rewrite H0 in H3. inversion H3; subst. rewrite H1 in H4. inversion H4; subst.
    specialize (IHG _ H5). destruct (inv_name _ I _ _ H1) as [_ Fn]. rewrite Fn in IHG. lia.
Qed.

Lemma chain_next : forall st o x wn x1, in_chain st o x -> t_wrapped (obj st x) = Some wn ->
  dget String.eqb wn (tasks st) = Some x1 -> in_chain st o x1.
Proof.
  intros st o x wn x1 IC. induction IC; intros.
  - econstructor; eauto. constructor.
  - econstructor; eauto.
Qed.

Lemma chain_keys : forall st o n, Inv st -> good_chain st o n ->
  exists ks, List.length ks = S n /\ NoDup ks /\ incl ks (map fst (tasks st)) /\
             forall k, In k ks -> (String.length (fullname st o) <= String.length k)%nat.
Proof.
  intros st o n I G. induction G.
  - exists [fullname st o]. simpl. repeat split; auto.
    + constructor; [simpl; tauto | constructor].
    + intros k [<-|[]]. eapply (dget_Some_in_keys String.eqb str_spec). exact H.
    + intros k [<-|[]]. lia.
  - destruct IHG as (ks & Len & ND & Incl & Lb).
    destruct (inv_name _ I _ _ H1) as [_ Fn]. rewrite Fn in Lb.
    exists (fullname st o :: ks). simpl. repeat split; auto.
    + constructor; auto. intro Hin. apply Lb in Hin. lia.
    + intros k [<-|Hin]; [eapply (dget_Some_in_keys String.eqb str_spec); exact H | auto].
    + intros k [<-|Hin]; [lia | apply Lb in Hin; lia].
Qed.

Lemma chain_depth : forall st o n, Inv st -> good_chain st o n -> (S n <= List.length (tasks st))%nat.
Proof.
  intros st o n I G. destruct (chain_keys _ _ _ I G) as (ks & Len & ND & Incl & _).
  rewrite <- Len. rewrite <- (map_length fst (tasks st)). apply NoDup_incl_length; auto.
Qed.

(** ** recursive_rename on a good chain *)
Lemma rec_rename_good : forall n fuel st o s,
  Inv st -> good_chain st o n -> s <> ""%string -> (n < fuel)%nat ->
  exists st', rec_rename shipped fuel st o s = (st', inl (fullname st' o)) /\ Inv st' /\
    List.length (heap st') = List.length (heap st) /\
    (forall x, in_chain st o x -> moved1 st st' s x) /\
    (forall k x, (String.length k < String.length (fullname st o))%nat ->
                 dget String.eqb k (tasks st) = Some x ->
                 dget String.eqb k (tasks st') = Some x /\ obj st' x = obj st x).
Proof.
  induction n; intros fuel st o s I G Hs Hf; (destruct fuel as [|f]; [lia|]); inversion G as [o' R W | o' wn o1 n' R W D L G1]; subst.
  - (* plain task *)
    simpl. rewrite W.
    destruct (L_rename st (fullname st o) o (inner_ns (t_ns (obj st o)) s) (t_name (obj st o)) I R)
      as (st' & Hr & I' & Len & Ot & Oo & Hg & Hother & Hold).
    rewrite Hr. exists st'. split; [reflexivity|]. split; [exact I'|]. split; [exact Len|].
    assert (Fn' : fullname st' o = fullname_of (inner_ns (t_ns (obj st o)) s) (t_name (obj st o))).
    { unfold fullname. rewrite Ot. reflexivity. }
    split.
    + intros x IC. inversion IC; subst; [|congruence].
      unfold moved1. rewrite Ot. simpl. repeat split; auto.
      * unfold registered. rewrite Fn'. exact Hg.
      * rewrite W. reflexivity.
    + intros k x Hk Hx.
      assert (k <> fullname st o) by (intro; subst; lia).
      assert (k <> fullname_of (inner_ns (t_ns (obj st o)) s) (t_name (obj st o))).
      { intro; subst. rewrite inner_len in Hk by auto.
        change (fullname_of (t_ns (obj st o)) (t_name (obj st o))) with (fullname st o) in Hk. lia. }
      split; [rewrite Hother; auto|].
      apply Oo. intro; subst x. destruct (inv_name _ I _ _ Hx). congruence.
  - (* wrapper: rename the inner chain first *)
    simpl. rewrite W. unfold reg_get. rewrite D.
    destruct (inv_name _ I _ _ D) as [Lt1 Fn1].
    destruct (IHn f st o1 s I G1 Hs ltac:(lia)) as (st1 & Hr1 & I1 & Len1 & Mv1 & Fr1).
    rewrite Hr1. rewrite Fn1 in Fr1.
    destruct (inv_name _ I _ _ R) as [Lt0 _].
    destruct (Fr1 _ _ L R) as [Hg0 Ob0].
    set (st1' := set_wrapped st1 o (fullname st1 o1)).
    assert (I1' : Inv st1') by (apply Inv_set_wrapped; auto).
    assert (Ob1 : obj st1' o = mkT (t_ns (obj st o)) (t_name (obj st o)) (t_hash (obj st o)) (Some (fullname st1 o1))).
    { unfold st1', set_wrapped, obj. simpl. rewrite nth_upd_same by lia.
      fold (obj st1 o). rewrite Ob0. reflexivity. }
    assert (Oth1 : forall x, x <> o -> obj st1' x = obj st1 x).
    { intros x NE. unfold st1', set_wrapped, obj. simpl. rewrite nth_upd_other by auto. reflexivity. }
    assert (Fn0 : fullname st1' o = fullname st o) by (unfold fullname; rewrite Ob1; reflexivity).
    assert (Hg0' : dget String.eqb (fullname st1' o) (tasks st1') = Some o) by (rewrite Fn0; exact Hg0).
    destruct (L_rename st1' (fullname st1' o) o (inner_ns (t_ns (obj st1' o)) s) (t_name (obj st1' o)) I1' Hg0')
      as (st2 & Hr2 & I2 & Len2 & Ot & Oo & Hg & Hother & Hold).
    rewrite Hr2. exists st2. split; [reflexivity|]. split; [exact I2|].
    split; [rewrite Len2; unfold st1'; simpl; rewrite upd_length; exact Len1|].
    rewrite Ob1 in Ot, Hg, Hother, Hold. simpl in Ot, Hg, Hother, Hold. rewrite Fn0 in Hother, Hold.
    assert (Fn2 : fullname st2 o = fullname_of (inner_ns (t_ns (obj st o)) s) (t_name (obj st o))).
    { unfold fullname. rewrite Ot. reflexivity. }
    (* members of the inner chain are untouched by the rename of o *)
    assert (Sub : forall x, in_chain st o1 x ->
                  obj st2 x = obj st1 x /\ dget String.eqb (fullname st1 x) (tasks st2) = Some x).
    { intros x IC. pose proof (chain_len _ _ _ _ I G1 IC) as Lx. rewrite Fn1 in Lx.
      destruct (Mv1 _ IC) as (Ns & Nm & _ & Rg & _).
      assert (x <> o).
      { intro; subst x. lia. }
      assert (Lk : String.length (fullname st1 x) = (String.length (fullname st x) + String.length s + 1)%nat).
      { unfold fullname at 1. rewrite Ns, Nm. apply inner_len; auto. }
      split; [rewrite Oo by auto; apply Oth1; auto|].
      rewrite Hother; [exact Rg | |].
      - intro E. rewrite E in Lk. rewrite inner_len in Lk by auto.
        change (fullname_of (t_ns (obj st o)) (t_name (obj st o))) with (fullname st o) in Lk. lia.
      - intro E. rewrite E in Lk. lia. }
    split.
    + intros x IC. inversion IC as [|? wn' o1' ? W' D' IC1]; subst.
      * unfold moved1. rewrite Ot. simpl. repeat split; auto.
        -- unfold registered. rewrite Fn2. exact Hg.
        -- rewrite W. exists o1. split; auto. f_equal. unfold fullname.
           destruct (Sub o1 (ic_here _ _)) as [-> _]. reflexivity.
      * rewrite W in W'. inversion W'; subst. rewrite D in D'. inversion D'; subst.
        destruct (Mv1 _ IC1) as (Ns & Nm & Hh & Rg & Wr).
        destruct (Sub _ IC1) as [Ox Gx].
        unfold moved1. rewrite Ox. repeat split; auto.
        -- unfold registered, fullname. rewrite Ox. exact Gx.
        -- destruct (t_wrapped (obj st x)) as [wx|] eqn:Ew; auto.
           destruct Wr as (x1 & Hx1 & Hw). exists x1. split; auto. rewrite Hw. f_equal.
           unfold fullname. destruct (Sub x1 (chain_next _ _ _ _ _ IC1 Ew Hx1)) as [-> _]. reflexivity.
    + intros k x Hk Hx.
      destruct (Fr1 k x ltac:(lia) Hx) as [Hk1 Ox1].
      assert (x <> o).
      { intro; subst x. destruct (inv_name _ I _ _ Hx). subst k. lia. }
      assert (k <> fullname st o) by (intro; subst; lia).
      assert (k <> fullname_of (inner_ns (t_ns (obj st o)) s) (t_name (obj st o))).
      { intro; subst. rewrite inner_len in Hk by auto.
        change (fullname_of (t_ns (obj st o)) (t_name (obj st o))) with (fullname st o) in Hk. lia. }
      split; [rewrite Hother; auto|].
      rewrite Oo by auto. rewrite Oth1 by auto. exact Ox1.
Qed.

(** ** the wrap operation *)
Opaque rec_rename.
Theorem wrap_good : forall st o n w h,
  Inv st -> good_chain st o n -> w <> ""%string ->
  exists st', let o' := List.length (heap st) in
    step shipped st (Wrap o w h) = (st', Done o') /\ Inv st' /\
    obj st' o' = mkT (t_ns (obj st o)) (t_name (obj st o)) h (Some (fullname st' o)) /\
    reg_get st' (fullname st o) = Some o' /\
    (forall x, in_chain st o x -> moved1 st st' w x).
Proof.
  intros st o n w h I G Hw.
  pose proof (good_registered _ _ _ G) as R. destruct (inv_name _ I _ _ R) as [Lt _].
  destruct (rec_rename_good n (S (List.length (tasks st))) st o w I G Hw) as (st1 & Hr & I1 & Len1 & Mv & _).
  { pose proof (chain_depth _ _ _ I G). lia. }
  unfold step. destruct (Nat.ltb_spec o (List.length (heap st))); [|lia].
  rewrite Hr. unfold alloc.
  set (nw := mkT (t_ns (obj st o)) (t_name (obj st o)) h (Some (fullname st1 o))).
  set (st2 := set_heap st1 (heap st1 ++ [nw])).
  assert (I2 : Inv st2) by (apply (Inv_alloc st1 nw I1)).
  assert (Onew : obj st2 (List.length (heap st1)) = nw).
  { unfold st2, obj. simpl. rewrite app_nth2 by lia. rewrite Nat.sub_diag. reflexivity. }
  assert (Oold : forall x, (x < List.length (heap st1))%nat -> obj st2 x = obj st1 x).
  { intros x Hx. unfold st2, obj. simpl. apply app_nth1. auto. }
  destruct (L_add st2 (List.length (heap st1)) I2) as (st3 & Ha & I3 & Hh & Hg & Hother).
  { unfold st2. simpl. rewrite app_length. simpl. lia. }
  rewrite Ha. exists st3. cbv zeta. rewrite <- Len1.
  assert (Fnew : fullname st2 (List.length (heap st1)) = fullname st o).
  { unfold fullname. rewrite Onew. reflexivity. }
  rewrite Fnew in Hg, Hother.
  assert (O3 : forall x, obj st3 x = obj st2 x) by (intro; unfold obj; rewrite Hh; reflexivity).
  assert (Sub : forall x, in_chain st o x ->
                obj st3 x = obj st1 x /\ dget String.eqb (fullname st1 x) (tasks st3) = Some x).
  { intros x IC. destruct (Mv _ IC) as (Ns & Nm & _ & Rg & _).
    pose proof (chain_len _ _ _ _ I G IC) as Lx.
    assert (Lk : String.length (fullname st1 x) = (String.length (fullname st x) + String.length w + 1)%nat).
    { unfold fullname at 1. rewrite Ns, Nm. apply inner_len; auto. }
    destruct (inv_name _ I1 _ _ Rg) as [Ltx _].
    split; [rewrite O3; apply Oold; auto|].
    rewrite Hother; [exact Rg|]. intro E. rewrite E in Lk. lia. }
  split; [reflexivity|]. split; [exact I3|]. split.
  - rewrite O3, Onew. unfold nw. f_equal. f_equal. unfold fullname.
    destruct (Sub o (ic_here _ _)) as [-> _]. reflexivity.
  - split; [exact Hg|].
    intros x IC. destruct (Mv _ IC) as (Ns & Nm & Hhx & Rg & Wr). destruct (Sub _ IC) as [Ox Gx].
    unfold moved1. rewrite Ox. repeat split; auto.
    + unfold registered, fullname. rewrite Ox. exact Gx.
    + destruct (t_wrapped (obj st x)) as [wx|] eqn:Ew; auto.
      destruct Wr as (x1 & Hx1 & Hwr). exists x1. split; auto. rewrite Hwr. f_equal.
      unfold fullname. destruct (Sub x1 (chain_next _ _ _ _ _ IC Ew Hx1)) as [-> _]. reflexivity.
Qed.
Transparent rec_rename.
