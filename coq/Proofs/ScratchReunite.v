(** C32 — job reuniting only pairs an evaluation hash with a remote job created for that hash. *)
From Coq Require Import List Arith NArith Ascii String Bool Lia.
From RV Require Import Base.Decimal Base.Lit Model.Scratch Proofs.ScratchStr.
Import ListNotations.
Open Scope list_scope.

Lemma dict_get_set d k v k' :
  dict_get (dict_set d k v) k' = if str_eqb k' k then Some v else dict_get d k'.
Proof.
  induction d as [|[x y] d IH]; simpl.
  - destruct (str_eqb k' k); reflexivity.
  - destruct (str_eqb k x) eqn:E.
    + apply str_eqb_spec in E. subst x. simpl. destruct (str_eqb k' k); reflexivity.
    + simpl. destruct (str_eqb k' x) eqn:E2.
      * apply str_eqb_spec in E2. subst x.
        destruct (str_eqb k' k) eqn:E3; [|reflexivity].
        apply str_eqb_spec in E3. subst k'. rewrite str_eqb_refl in E. discriminate.
      * exact IH.
Qed.

Section Reunite.
  Variable pbytes : Type.
  Variable c : cfg.
  Hypothesis OK : cfg_ok c.
  Variable sp : str.                       (* scratch prefix *)
  Variable fs : fs_t pbytes.               (* scratch contents when the executor starts *)
  (** ghost: remote job [id] was created to evaluate the job with evaluation hash [h] *)
  Variable created : str -> str -> Prop.

  Definition eval_file (u : str) := fs_read pbytes fs (array_file c sp u (f_hashes c)).

  (** children of an array whose eval-hash file is [t] *)
  Definition children_ok (t : str) (ch : list (str * N)) : Prop :=
    exists hs, t = join_nl hs /\ Forall (fun h => hexstr h = true) hs /\
      Forall (fun ci => forall h, nth_error hs (N.to_nat (snd ci)) = Some h -> created (fst ci) h) ch.

  (** the in-flight remote jobs listed by the batch service *)
  Inductive wf_inflight : inflight -> Prop :=
  | WfSingle p h id ch :   (* submitted by _submit_single_job for a job with evaluation hash h *)
      NoNl p -> hexstr h = true -> created id h ->
      wf_inflight {| in_name := batch_job_name c p h false; in_id := id; in_children := ch |}
  | WfArray p u id ch :    (* submitted by _submit_array_job with array uuid u *)
      NoNl p -> hexstr u = true ->
      match eval_file u with Some (BText _ t) => children_ok t ch | _ => True end ->
      wf_inflight {| in_name := batch_job_name c p u true; in_id := id; in_children := ch |}
  | WfForeign name id ch : (* anything else whose name starts with the prefix *)
      (is_array_job_name c name = false -> forall x, hash_of_job_name c name = Some x -> hexstr x = false) ->
      (is_array_job_name c name = true -> forall x, hash_of_job_name c name = Some x -> eval_file x = None) ->
      wf_inflight {| in_name := name; in_id := id; in_children := ch |}.

  Definition DictOK (m : dict) : Prop := forall h id, dict_get m h = Some id -> hexstr h = true -> created id h.

  Definition ArrOK (e : str * list (str * N)) : Prop :=
    forall ph, hash_of_job_name c (fst e) = Some ph ->
      match eval_file ph with Some (BText _ t) => children_ok t (snd e) | _ => True end.

  Lemma DictOK_set m h id : DictOK m -> (hexstr h = true -> created id h) -> DictOK (dict_set m h id).
  Proof.
    intros D H h' id'. rewrite dict_get_set. destruct (str_eqb h' h) eqn:E.
    - apply str_eqb_spec in E. subst h'. intros [= <-]. exact H.
    - apply D.
  Qed.

  Lemma adict_set_ok arrays k v : Forall ArrOK arrays -> ArrOK (k, v) -> Forall ArrOK (adict_set arrays k v).
  Proof.
    intros F H. induction F as [|[x y] r Hx Hr IH]; simpl.
    - constructor; [exact H|constructor].
    - destruct (str_eqb k x); constructor; auto.
  Qed.

  Lemma hex_not_suffix h : hexstr h = true -> h <> arr_suffix c.
  Proof. intros H ->. rewrite (ok_sh c OK) in H. discriminate. Qed.

  Lemma gather_names_ok l : Forall wf_inflight l -> forall m arrays m' arrays',
    DictOK m -> Forall ArrOK arrays -> gather_names c l m arrays = (m', arrays') ->
    DictOK m' /\ Forall ArrOK arrays'.
  Proof.
    induction 1 as [|j l Hj Hl IH]; intros m arrays m' arrays' D A E; simpl in E.
    - inversion E; subst; auto.
    - destruct Hj as [p h id ch Hp Hh Hc | p u id ch Hp Hu He | name id ch F1 F2]; cbn [in_name in_id in_children] in E.
      + pose proof (hexstr_facts h Hh) as [Hne [Hd _]].
        rewrite (is_array_name_roundtrip c p h false Hd (ok_sd c OK) (hex_not_suffix h Hh)) in E.
        rewrite (jobname_roundtrip c p h false Hp Hne Hd (ok_sd c OK) (hex_not_suffix h Hh)) in E.
        eapply IH; [| |exact E]; [apply DictOK_set; auto|assumption].
      + pose proof (hexstr_facts u Hu) as [Hne [Hd _]].
        rewrite (is_array_name_roundtrip c p u true Hd (ok_sd c OK) (hex_not_suffix u Hu)) in E.
        eapply IH; [| |exact E]; [assumption|]. apply adict_set_ok; [assumption|].
        intros ph. cbn [fst snd].
        rewrite (jobname_roundtrip c p u true Hp Hne Hd (ok_sd c OK) (hex_not_suffix u Hu)).
        intros [= <-]. exact He.
      + destruct (is_array_job_name c name) eqn:Ea.
        * eapply IH; [| |exact E]; [assumption|]. apply adict_set_ok; [assumption|].
          intros ph Hph. cbn [fst snd] in *. rewrite (F2 eq_refl ph Hph). exact I.
        * destruct (hash_of_job_name c name) as [x|] eqn:Ex.
          -- eapply IH; [| |exact E]; [|assumption]. apply DictOK_set; [assumption|].
             intros Hx. rewrite (F1 eq_refl x eq_refl) in Hx. discriminate.
          -- eapply IH; eauto.
  Qed.

  Lemma gather_children_ok hs ch :
    Forall (fun ci => forall h, nth_error hs (N.to_nat (snd ci)) = Some h -> created (fst ci) h) ch ->
    forall m m', DictOK m -> gather_children hs ch m = GOk m' -> DictOK m'.
  Proof.
    induction 1 as [|[cid i] ch H Hc IH]; intros m m' D E; simpl in E.
    - inversion E; subst; assumption.
    - destruct (nth_error hs (N.to_nat i)) as [h|] eqn:En; [|discriminate].
      eapply IH; [|exact E]. apply DictOK_set; [assumption|]. intros _. apply (H h). exact En.
  Qed.

  Lemma gather_arrays_ok arrays : Forall ArrOK arrays -> forall m m',
    DictOK m -> gather_arrays pbytes c sp fs arrays m = GOk m' -> DictOK m'.
  Proof.
    induction 1 as [|[name ch] r Hx Hr IH]; intros m m' D E; simpl in E.
    - inversion E; subst; assumption.
    - destruct (hash_of_job_name c name) as [ph|] eqn:Eh; [|eapply IH; eauto].
      specialize (Hx ph Eh). unfold eval_file in Hx. cbn [snd] in Hx.
      destruct (fs_read pbytes fs (array_file c sp ph (f_hashes c))) as [[b|l|t]|]; try discriminate; [|eapply IH; eauto].
      destruct Hx as [hs [-> [Hhex Hch]]].
      rewrite splitlines_join in E.
      + destruct (gather_children hs ch m) as [m1| |] eqn:Eg; try discriminate.
        eapply IH; [|exact E]. eapply gather_children_ok; eauto.
      + apply Forall_forall. intros h Hin. rewrite Forall_forall in Hhex. specialize (Hhex h Hin).
        apply hexstr_facts in Hhex. tauto.
  Qed.

  Theorem gather_inflight_ok l m0 m :
    Forall wf_inflight l -> DictOK m0 -> gather_inflight pbytes c sp fs l m0 = GOk m -> DictOK m.
  Proof.
    intros W D E. unfold gather_inflight in E.
    destruct (gather_names c l m0 []) as [m1 arrays] eqn:En.
    destruct (gather_names_ok l W m0 [] m1 arrays D (Forall_nil _) En) as [D1 A1].
    eapply gather_arrays_ok; eauto.
  Qed.

  Theorem reunite_only_same_hash l m h id :
    Forall wf_inflight l -> gather_inflight pbytes c sp fs l [] = GOk m ->
    hexstr h = true -> reunite m h = Some id -> created id h.
  Proof.
    intros W E Hh R. eapply (gather_inflight_ok l [] m W); eauto.
    intros h' id' X. discriminate X.
  Qed.
End Reunite.
