From Coq Require Import List ZArith Bool Arith Lia.
From RV Require Import Model.EvalTree Proofs.EvalTreeWF.
Import ListNotations.
Open Scope list_scope.

Lemma nspec_recombine n : nspec (recombine n) = nspec n.
Proof.
  destruct n as [sp ph kids]. destruct ph; simpl; auto.
  destruct sp as [z|e|p cs|cs|c|cs|cs]; simpl; auto.
  - destruct (first_ko kids); auto. destruct (all_ok kids); auto.
  - destruct (first_ko kids); auto. destruct (all_ok kids); auto. destruct (nth_error cs (length kids)); auto.
  - destruct kids as [|k [|k2 r]]; auto. destruct (nphase k) as [| | |[v|e]]; auto.
  - destruct (forallb kid_done kids); auto. destruct (first_ko kids); auto. destruct (all_ok kids); auto.
  - destruct (forallb kid_done kids); auto. destruct (all_ok kids); auto.
Qed.

Lemma recombine_not_eval sp ph kids : ph <> PEval -> recombine (Node sp ph kids) = Node sp ph kids.
Proof. destruct ph; simpl; auto. congruence. Qed.

(** the two actions *)
Definition good_action (f : node -> node) : Prop :=
  (forall n, nspec (f n) = nspec n) /\
  (forall n o, nphase n = PDone o -> nphase (f n) = PDone o) /\
  (forall n, WF n -> WF (f n)).

Lemma good_start : good_action do_start.
Proof.
  repeat split.
  - intros [sp [] kids]; reflexivity.
  - intros [sp ph kids] o'; destruct ph; simpl; auto; discriminate.
  - intros [sp ph kids] H. destruct ph; simpl; auto. apply WF_inv in H. destruct H as (A & B & C).
    constructor; auto. discriminate.
Qed.

Lemma good_finish : good_action do_finish.
Proof.
  repeat split.
  - intros [sp ph kids]. destruct ph; try reflexivity. destruct sp; try reflexivity.
    + cbn [do_finish]. rewrite nspec_recombine. reflexivity.
    + cbn [do_finish]. rewrite nspec_recombine. reflexivity.
    + cbn [do_finish]. rewrite nspec_recombine. reflexivity.
    + cbn [do_finish]. rewrite nspec_recombine. reflexivity.
  - intros [sp ph kids] o'; destruct ph; simpl; auto; discriminate.
  - intros [sp ph kids] H. destruct ph; try exact H. destruct sp as [z|e|p cs|cs|c|cs|cs]; cbn [do_finish].
    + constructor; simpl; auto. intros o [= <-]. constructor.
    + constructor; simpl; auto. intros o [= <-]. constructor.
    + apply recombine_WF.
      * apply Forall_forall. intros x Hx. apply in_map_iff in Hx. destruct Hx as (c & <- & _). apply WF_idle.
      * simpl. rewrite map_map. simpl. apply map_id.
    + apply recombine_WF; [constructor|]. simpl. repeat split; [lia|]. intros i k Hn. destruct i; discriminate.
    + constructor; [constructor; [apply WF_idle|constructor]|reflexivity|discriminate].
    + apply recombine_WF.
      * apply Forall_forall. intros x Hx. apply in_map_iff in Hx. destruct Hx as (c & <- & _). apply WF_idle.
      * simpl. rewrite map_map. simpl. apply map_id.
    + apply recombine_WF.
      * apply Forall_forall. intros x Hx. apply in_map_iff in Hx. destruct Hx as (c & <- & _). apply WF_idle.
      * simpl. rewrite map_map. simpl. apply map_id.
Qed.

Section Upd.
Variable f : node -> node.
Hypothesis Hf : good_action f.

Lemma upd_nth_length {A} (l : list A) i g : length (upd_nth l i g) = length l.
Proof. revert i. induction l as [|a r IH]; intros [|i]; simpl; auto. Qed.

Lemma upd_nth_nth {A} (l : list A) g : forall i j,
  nth_error (upd_nth l i g) j = if Nat.eqb i j then option_map g (nth_error l j) else nth_error l j.
Proof.
  induction l as [|a r IH]; intros [|i] [|j]; simpl; auto.
  - destruct (Nat.eqb i j); reflexivity.
Qed.

Lemma upd_spec_done p : forall n,
  nspec (upd p f n) = nspec n /\ (forall o, nphase n = PDone o -> nphase (upd p f n) = PDone o).
Proof.
  destruct Hf as (H1 & H2 & _).
  induction p as [|i p IH]; intros n; cbn [upd]; [split; auto|].
  destruct n as [sp ph kids]. split.
  - rewrite nspec_recombine. reflexivity.
  - intros o Ho. simpl in Ho. subst ph. reflexivity.
Qed.

Lemma map_nspec_upd_nth kids i p : map nspec (upd_nth kids i (upd p f)) = map nspec kids.
Proof.
  revert i. induction kids as [|a r IH]; intros [|i]; simpl; auto.
  - f_equal. apply (upd_spec_done p a).
  - f_equal. apply IH.
Qed.

Lemma upd_WF p : forall n, WF n -> WF (upd p f n).
Proof.
  induction p as [|i p IH]; intros n H; cbn [upd]; [apply Hf; exact H|].
  destruct n as [sp ph kids]. apply WF_inv in H. destruct H as (HW & HM & HD).
  set (kids' := upd_nth kids i (upd p f)).
  assert (HW' : Forall WF kids').
  { apply Forall_forall. intros x Hx. apply In_nth_error in Hx. destruct Hx as (j & Hj).
    unfold kids' in Hj. rewrite upd_nth_nth in Hj. rewrite Forall_forall in HW.
    destruct (Nat.eqb i j).
    - destruct (nth_error kids j) as [y|] eqn:Ey; [|discriminate]. simpl in Hj. injection Hj as <-.
      apply IH. apply HW. eapply nth_error_In; eauto.
    - apply HW. eapply nth_error_In; eauto. }
  assert (Hlen : length kids' = length kids) by apply upd_nth_length.
  assert (Hmap : map nspec kids' = map nspec kids) by apply map_nspec_upd_nth.
  assert (HM' : kids_match sp ph kids').
  { unfold kids_match in *. destruct ph; try (subst kids; reflexivity).
    - destruct sp; try (subst kids; reflexivity); try (rewrite Hmap; exact HM).
      destruct HM as (A & B & C). rewrite Hmap, Hlen. repeat split; auto.
      intros j k Hj Hlt. unfold kids' in Hj. rewrite upd_nth_nth in Hj. rewrite Hlen in Hlt.
      destruct (Nat.eqb i j).
      + destruct (nth_error kids j) as [y|] eqn:Ey; [|discriminate]. simpl in Hj. injection Hj as <-.
        destruct (C j y Ey Hlt) as (v & Hv). exists v. apply (upd_spec_done p y). exact Hv.
      + eauto.
    - destruct sp; try (subst kids; reflexivity); try (rewrite Hmap; exact HM).
      destruct HM as (A & B & C). rewrite Hmap, Hlen. repeat split; auto.
      intros j k Hj Hlt. unfold kids' in Hj. rewrite upd_nth_nth in Hj. rewrite Hlen in Hlt.
      destruct (Nat.eqb i j).
      + destruct (nth_error kids j) as [y|] eqn:Ey; [|discriminate]. simpl in Hj. injection Hj as <-.
        destruct (C j y Ey Hlt) as (v & Hv). exists v. apply (upd_spec_done p y). exact Hv.
      + eauto. }
  destruct ph.
  - rewrite recombine_not_eval by discriminate. constructor; auto.
  - rewrite recombine_not_eval by discriminate. constructor; auto.
  - apply recombine_WF; auto.
  - rewrite recombine_not_eval by discriminate. constructor; auto.
Qed.
End Upd.

Lemma step_WF n o : WF n -> WF (step n o).
Proof. destruct o; simpl; apply upd_WF; auto using good_start, good_finish. Qed.

Theorem run_WF s ops : WF (run s ops).
Proof.
  unfold run. generalize (WF_idle s). generalize (idle s). induction ops as [|o ops IH]; intros n H; simpl; auto.
  apply IH. now apply step_WF.
Qed.

Lemma step_spec n o : nspec (step n o) = nspec n.
Proof. destruct o; simpl; [apply (upd_spec_done do_start good_start)|apply (upd_spec_done do_finish good_finish)]. Qed.

Lemma run_spec s ops : nspec (run s ops) = s.
Proof.
  unfold run. assert (H : nspec (idle s) = s) by reflexivity. revert H. generalize (idle s).
  induction ops as [|o ops IH]; intros n H; simpl; auto. apply IH. now rewrite step_spec.
Qed.

(** C01 core: whatever the schedule, a finished run has an admissible outcome. *)
Theorem run_sound s ops o : result (run s ops) = Some o -> adm s o.
Proof.
  intros H. unfold result in H. destruct (nphase (run s ops)) eqn:E; try discriminate. injection H as ->.
  rewrite <- (run_spec s ops). apply WF_done; auto. apply run_WF.
Qed.

(** the outcome of a finished call never changes afterwards *)
Theorem run_result_stable s ops ops' o : result (run s ops) = Some o -> result (run s (ops ++ ops')) = Some o.
Proof.
  unfold run. rewrite fold_left_app. generalize (fold_left step ops (idle s)). intros n.
  revert n. induction ops' as [|a l IH]; intros n H; simpl; auto. apply IH.
  unfold result in *. destruct (nphase n) as [| | |o1] eqn:E; try discriminate. injection H as ->.
  destruct a as [p|p]; simpl.
  - rewrite (proj2 (upd_spec_done do_start good_start p n) o E). reflexivity.
  - rewrite (proj2 (upd_spec_done do_finish good_finish p n) o E). reflexivity.
Qed.
