(** Proofs for C33 (Model/Status.v). *)
From Coq Require Import List String Bool NArith Lia.
From RV Require Import Model.Status.
Import ListNotations.
Open Scope list_scope.

(* ------------------------------------------------------------------ small facts *)
Lemma status_eqb_eq : forall a b, status_eqb a b = true <-> a = b.
Proof. intros [] []; simpl; split; intros; try discriminate; reflexivity. Qed.

Lemma status_eqb_refl : forall a, status_eqb a a = true.
Proof. intros []; reflexivity. Qed.

Lemma disp_is_eq : forall s x, disp_is s x = true <-> x = DStatus s.
Proof.
  intros s [s'|]; simpl.
  - rewrite status_eqb_eq. split; intros H; [subst; reflexivity | injection H; auto].
  - split; discriminate.
Qed.

Lemma has_id_In : forall i l, has_id i l = true <-> In i l.
Proof.
  intros i l. unfold has_id. rewrite existsb_exists. split.
  - intros [x [Hx He]]. apply N.eqb_eq in He. subst. exact Hx.
  - intros H. exists i. split; [exact H | apply N.eqb_refl].
Qed.

Lemma has_id_false : forall i l, has_id i l = false <-> ~ In i l.
Proof.
  intros i l. rewrite <- has_id_In. destruct (has_id i l); split; intros; try discriminate; auto.
  exfalso; auto.
Qed.

Lemma nodupb_NoDup : forall l, nodupb l = true -> NoDup l.
Proof.
  induction l as [|x r IH]; simpl; intros H; constructor.
  - apply andb_prop in H. destruct H as [H _]. apply negb_true_iff in H. apply has_id_false in H. exact H.
  - apply andb_prop in H. apply IH. apply H.
Qed.

Lemma NoDup_snoc : forall (l : list id) x, NoDup l -> ~ In x l -> NoDup (l ++ [x]).
Proof.
  induction l as [|a r IH]; simpl; intros x Hn Hx.
  - constructor; [intros []|constructor].
  - inversion Hn; subst. constructor.
    + rewrite in_app_iff. simpl. intros [H|[H|[]]]; [auto|subst; auto].
    + apply IH; auto.
Qed.

Lemma In_dedup : forall x l, In x (dedup l) <-> In x l.
Proof.
  intros x l. induction l as [|a r IH]; simpl; [tauto|].
  destruct (existsb (N.eqb a) r) eqn:E.
  - rewrite IH. split; [auto|]. intros [H|H]; [|exact H]. subst.
    apply (proj1 (has_id_In x r)). exact E.
  - simpl. rewrite IH. tauto.
Qed.

Lemma NoDup_dedup : forall l, NoDup (dedup l).
Proof.
  induction l as [|a r IH]; simpl; [constructor|].
  destruct (existsb (N.eqb a) r) eqn:E; [exact IH|].
  constructor; [|exact IH]. rewrite In_dedup. apply (proj1 (has_id_false a r)). exact E.
Qed.

(* ------------------------------------------------------------------ keyed tables *)
Section Keyed.
  Context {A : Type} (key : A -> id).

  Lemma filter_key_none : forall l k, ~ In k (map key l) -> filter (fun y => N.eqb k (key y)) l = [].
  Proof.
    induction l as [|a r IH]; simpl; intros k H; [reflexivity|].
    destruct (N.eqb k (key a)) eqn:E.
    - apply N.eqb_eq in E. exfalso. apply H. left. symmetry. exact E.
    - apply IH. intros H'. apply H. right. exact H'.
  Qed.

  Lemma filter_find_unique : forall l k, NoDup (map key l) ->
    filter (fun y => N.eqb k (key y)) l =
    match find (fun y => N.eqb k (key y)) l with Some x => [x] | None => [] end.
  Proof.
    induction l as [|a r IH]; simpl; intros k Hn; [reflexivity|].
    inversion Hn; subst.
    destruct (N.eqb k (key a)) eqn:E.
    - apply N.eqb_eq in E. subst k. rewrite filter_key_none; [reflexivity|assumption].
    - apply IH. assumption.
  Qed.

  Lemma find_unique : forall l x, NoDup (map key l) -> In x l ->
    find (fun y => N.eqb (key x) (key y)) l = Some x.
  Proof.
    induction l as [|a r IH]; simpl; intros x Hn Hx; [contradiction|].
    inversion Hn; subst. destruct Hx as [Hx|Hx].
    - subst. rewrite N.eqb_refl. reflexivity.
    - destruct (N.eqb (key x) (key a)) eqn:E.
      + apply N.eqb_eq in E. exfalso. apply H1. rewrite <- E. apply in_map. exact Hx.
      + apply IH; assumption.
  Qed.

  Lemma key_inj : forall l x y, NoDup (map key l) -> In x l -> In y l -> key x = key y -> x = y.
  Proof.
    intros l x y Hn Hx Hy He.
    pose proof (find_unique l x Hn Hx) as F1. pose proof (find_unique l y Hn Hy) as F2.
    rewrite He in F1. rewrite F1 in F2. injection F2; auto.
  Qed.

  Lemma find_key : forall l k x, find (fun y => N.eqb k (key y)) l = Some x -> In x l /\ key x = k.
  Proof.
    intros l k x H. apply find_some in H. destruct H as [H1 H2]. apply N.eqb_eq in H2. auto.
  Qed.
End Keyed.

Lemma filter_false : forall {A} (l : list A), filter (fun _ => false) l = [].
Proof. induction l; simpl; auto. Qed.

(* ------------------------------------------------------------------ the joined row of a job *)
Definition the_row (d : db) (j : job) : jrow :=
  mkRow j (call_node_of d j)
        (match call_node_of d j with Some cn => value_of d cn | None => None end).

Definition tables_ok (d : db) : Prop :=
  NoDup (map c_hash (callnodes d)) /\ NoDup (map v_hash (vals d)).

Definition present_row (c : cfg) (r : jrow) : bool :=
  match r_cn r, r_val r with
  | None, _ => outer_cn c && outer_val c
  | Some _, None => outer_val c
  | Some _, Some _ => true
  end.

Lemma present_row_abs : forall c e r, present_row c r = apresent c (abs_row e r).
Proof. intros c e [j [cn|] [v|]]; reflexivity. Qed.

Lemma job_rows_cons : forall c d j js, job_rows c d (j :: js) = job_rows c d [j] ++ job_rows c d js.
Proof.
  intros. unfold job_rows, join. simpl. rewrite app_nil_r.
  rewrite flat_map_app. rewrite map_app. reflexivity.
Qed.

Lemma job_rows_single : forall c d j, tables_ok d ->
  job_rows c d [j] = if present_row c (the_row d j) then [the_row d j] else [].
Proof.
  intros c d j [Hc Hv]. unfold job_rows, join, the_row, present_row, call_node_of. simpl.
  rewrite app_nil_r.
  destruct j as [ji je jc jca]. unfold on_cn. simpl.
  destruct jc as [h|]; simpl.
  - rewrite (filter_find_unique c_hash (callnodes d) h Hc).
    destruct (find (fun y => N.eqb h (c_hash y)) (callnodes d)) as [cn|] eqn:F; simpl.
    + rewrite app_nil_r. unfold on_val, value_of. simpl.
      destruct (c_value cn) as [vh|]; simpl.
      * rewrite (filter_find_unique v_hash (vals d) vh Hv).
        destruct (find (fun y => N.eqb vh (v_hash y)) (vals d)) as [v|]; simpl.
        -- reflexivity.
        -- destruct (outer_val c); reflexivity.
      * rewrite filter_false. destruct (outer_val c); reflexivity.
    + destruct (outer_cn c); simpl; [|reflexivity].
      rewrite filter_false. destruct (outer_val c); reflexivity.
  - rewrite filter_false. destruct (outer_cn c); simpl; [|reflexivity].
    rewrite filter_false. destruct (outer_val c); reflexivity.
Qed.

Lemma job_rows_In : forall c d js r, tables_ok d ->
  In r (job_rows c d js) <-> exists j, In j js /\ r = the_row d j /\ present_row c r = true.
Proof.
  intros c d js r Ht. induction js as [|j js IH].
  - simpl. split; [intros []|intros [j [[] _]]].
  - rewrite job_rows_cons, in_app_iff, IH, (job_rows_single c d j Ht). split.
    + intros [H|[j' [H1 H2]]].
      * destruct (present_row c (the_row d j)) eqn:P; [|destruct H].
        destruct H as [H|[]]. subst r. exists j. simpl. auto.
      * exists j'. simpl. auto.
    + intros [j' [[H|H] [H2 H3]]].
      * subst j'. left. subst r. rewrite H3. left. reflexivity.
      * right. exists j'. auto.
Qed.

(* ------------------------------------------------------------------ abstraction *)
Definition row_consistent (r : jrow) : Prop := r_cn r = None -> r_val r = None.

Lemma the_row_consistent : forall d j, row_consistent (the_row d j).
Proof. intros d j. unfold row_consistent, the_row. simpl. intros H. rewrite H. reflexivity. Qed.

Lemma a_type_abs : forall e r, row_consistent r ->
  a_type (abs_row e r) =
  match r_val r with
  | Some v => match v_type v with Some s => Some (String.eqb s e) | None => None end
  | None => None
  end.
Proof.
  intros e [j [cn|] [v|]] H; unfold a_type; simpl; try reflexivity.
  specialize (H eq_refl). discriminate.
Qed.

Lemma eval_abs : forall e t r, row_consistent r -> term_ok e t = true ->
  eval t r = aeval t (abs_row e r).
Proof.
  intros e t r Hc. induction t as [c|c|c b|c s|c s|a IHa b IHb|a IHa b IHb|a IHa]; simpl; intros Ht.
  - f_equal. destruct c; simpl.
    + destruct (j_ended (r_job r)); reflexivity.
    + destruct (j_call (r_job r)); reflexivity.
    + destruct (j_cached (r_job r)); reflexivity.
    + rewrite (a_type_abs e r Hc). destruct (r_val r) as [v|]; [destruct (v_type v)|]; reflexivity.
  - f_equal. f_equal. destruct c; simpl.
    + destruct (j_ended (r_job r)); reflexivity.
    + destruct (j_call (r_job r)); reflexivity.
    + destruct (j_cached (r_job r)); reflexivity.
    + rewrite (a_type_abs e r Hc). destruct (r_val r) as [v|]; [destruct (v_type v)|]; reflexivity.
  - destruct c; try discriminate. simpl. destruct (j_cached (r_job r)); reflexivity.
  - destruct c; try discriminate. apply String.eqb_eq in Ht. subst s. simpl.
    rewrite (a_type_abs e r Hc). destruct (r_val r) as [v|]; [destruct (v_type v)|]; reflexivity.
  - destruct c; try discriminate. apply String.eqb_eq in Ht. subst s. simpl.
    rewrite (a_type_abs e r Hc). destruct (r_val r) as [v|]; [destruct (v_type v)|]; reflexivity.
  - apply andb_prop in Ht. destruct Ht. rewrite IHa, IHb by assumption. reflexivity.
  - apply andb_prop in Ht. destruct Ht. rewrite IHa, IHb by assumption. reflexivity.
  - rewrite IHa by assumption. reflexivity.
Qed.

Definition row_type (r : jrow) : option string :=
  match r_val r with Some v => v_type v | None => None end.

Lemma cond_abs : forall e k r, row_consistent r -> cond_ok e k = true ->
  cond_holds k (r_job r) (row_type r) = acond_holds k (abs_row e r).
Proof.
  intros e k r Hc Hk. destruct k as [s|s|b|b|b]; simpl in *.
  - apply String.eqb_eq in Hk. subst s. rewrite (a_type_abs e r Hc). unfold row_type.
    destruct (r_val r) as [v|]; [destruct (v_type v)|]; reflexivity.
  - apply String.eqb_eq in Hk. subst s. rewrite (a_type_abs e r Hc). unfold row_type.
    destruct (r_val r) as [v|]; [destruct (v_type v)|]; reflexivity.
  - reflexivity.
  - reflexivity.
  - reflexivity.
Qed.

Lemma calc_abs : forall e rules dflt r, row_consistent r ->
  forallb (fun p => cond_ok e (fst p)) rules = true ->
  calc rules dflt (r_job r) (row_type r) = acalc rules dflt (abs_row e r).
Proof.
  intros e rules dflt r Hc. induction rules as [|[k s] rest IH]; simpl; intros H; [reflexivity|].
  apply andb_prop in H. destruct H as [H1 H2].
  rewrite (cond_abs e k r Hc H1). rewrite IH by assumption. reflexivity.
Qed.

Lemma consts_ok_rules : forall c, consts_ok c = true ->
  forallb (fun p => cond_ok (err_name c) (fst p)) (calc_rules c) = true.
Proof. intros c H. apply andb_prop in H. apply H. Qed.

Lemma sassoc_In : forall {B} s (l : list (status * B)) v, sassoc s l = Some v -> In (s, v) l.
Proof.
  intros B s l v. induction l as [|[k x] r IH]; simpl; [discriminate|].
  destruct (status_eqb s k) eqn:E.
  - apply status_eqb_eq in E. subst. intros [= ->]. left. reflexivity.
  - intros H. right. apply IH. exact H.
Qed.

Lemma consts_ok_term : forall c s t, consts_ok c = true -> term_of c s = Some t ->
  term_ok (err_name c) t = true.
Proof.
  intros c s t H Ht. apply andb_prop in H. destruct H as [H _].
  rewrite forallb_forall in H. apply sassoc_In in Ht. apply (H (s, t) Ht).
Qed.

Lemma fold_or_ok : forall c rest acc t,
  consts_ok c = true ->
  (forall a, acc = Some a -> term_ok (err_name c) a = true) ->
  fold_left (fun acc s' => or_opt acc (term_of c s')) rest acc = Some t ->
  term_ok (err_name c) t = true.
Proof.
  intros c rest. induction rest as [|s rest IH]; simpl; intros acc t Hc Ha H.
  - apply Ha. exact H.
  - apply (IH (or_opt acc (term_of c s)) t Hc); [|exact H].
    intros a Hs. destruct acc as [x|]; simpl in Hs; [|discriminate].
    destruct (term_of c s) as [y|] eqn:E; [|discriminate].
    injection Hs as <-. simpl. rewrite (Ha x eq_refl). rewrite (consts_ok_term c s y Hc E). reflexivity.
Qed.

Lemma clause_ok : forall c sts t, consts_ok c = true -> clause c sts = Some t ->
  term_ok (err_name c) t = true.
Proof.
  intros c [|s rest] t Hc H; simpl in H; [discriminate|].
  apply (fold_or_ok c rest (term_of c s) t Hc); [|exact H].
  intros a Ha. apply (consts_ok_term c s a Hc Ha).
Qed.

(** The displayed status of a job, through its abstract row. *)
Lemma job_display_abs : forall c d j, consts_ok c = true ->
  job_display c d j = adisplay c (abs_row (err_name c) (the_row d j)).
Proof.
  intros c d j Hc. unfold job_display, result_type, adisplay.
  pose proof (calc_abs (err_name c) (calc_rules c) (calc_default c) (the_row d j)
                       (the_row_consistent d j) (consts_ok_rules c Hc)) as H.
  unfold the_row in *. unfold row_type in H. simpl in *.
  destruct (call_node_of d j) as [cn|]; simpl in *.
  - destruct (value_of d cn) as [v|]; simpl in *; [|reflexivity]. rewrite H. reflexivity.
  - rewrite H. reflexivity.
Qed.

(* ------------------------------------------------------------------ membership in the filters *)
Definition keys_ok (d : db) : Prop :=
  NoDup (map j_id (jobs d)) /\ NoDup (map c_hash (callnodes d)) /\ NoDup (map v_hash (vals d))
  /\ NoDup (map e_id (execs d)).

Lemma keys_tables : forall d, keys_ok d -> tables_ok d.
Proof. intros d [_ [H1 [H2 _]]]. split; assumption. Qed.

Definition arow_of (c : cfg) (d : db) (j : job) : arow := abs_row (err_name c) (the_row d j).

Definition keeps (c : cfg) (t : term) (a : arow) : bool := apresent c a && tv_true (aeval t a).

(** The job filter: which ids it returns, in terms of abstract rows. *)
Lemma filter_jobs_member : forall c d sts t, consts_ok c = true -> keys_ok d ->
  clause c sts = Some t ->
  exists res, filter_jobs c d sts = Some res /\ NoDup res
    /\ (forall i, In i res -> exists j, In j (jobs d) /\ j_id j = i)
    /\ (forall j, In j (jobs d) -> (In (j_id j) res <-> keeps c t (arow_of c d j) = true)).
Proof.
  intros c d sts t Hc Hk Ht. unfold filter_jobs. rewrite Ht. eexists. split; [reflexivity|].
  pose proof (keys_tables d Hk) as Htab.
  pose proof (clause_ok c sts t Hc Ht) as Hok.
  assert (M : forall i, In i (dedup (map (fun r => j_id (r_job r))
                (filter (fun r => tv_true (eval t r)) (job_rows c d (jobs d)))))
              <-> exists j, In j (jobs d) /\ j_id j = i /\ keeps c t (arow_of c d j) = true).
  { intros i. rewrite In_dedup, in_map_iff. split.
    - intros [r [Hi Hr]]. apply filter_In in Hr. destruct Hr as [Hr He].
      apply (job_rows_In c d (jobs d) r Htab) in Hr. destruct Hr as [j [Hj [Hrj Hp]]].
      exists j. subst r. simpl in Hi. split; [exact Hj|]. split; [exact Hi|].
      unfold keeps, arow_of. rewrite <- (present_row_abs c (err_name c)). rewrite Hp. simpl.
      rewrite <- (eval_abs (err_name c) t (the_row d j) (the_row_consistent d j) Hok). exact He.
    - intros [j [Hj [Hi Hkp]]]. exists (the_row d j). split; [exact Hi|].
      unfold keeps, arow_of in Hkp. apply andb_prop in Hkp. destruct Hkp as [Hp He].
      apply filter_In. split.
      + apply (job_rows_In c d (jobs d) _ Htab). exists j. split; [exact Hj|]. split; [reflexivity|].
        rewrite (present_row_abs c (err_name c)). exact Hp.
      + rewrite (eval_abs (err_name c) t (the_row d j) (the_row_consistent d j) Hok). exact He. }
  split; [apply NoDup_dedup|]. split.
  - intros i Hi. apply M in Hi. destruct Hi as [j [Hj [Hi _]]]. exists j. auto.
  - intros j Hj. rewrite M. split.
    + intros [j' [Hj' [Hi Hkp]]].
      destruct Hk as [Hk _].
      rewrite <- (key_inj j_id (jobs d) j' j Hk Hj' Hj Hi). exact Hkp.
    + intros H. exists j. auto.
Qed.

(** Rows of the execution query. *)
Lemma exec_root_filter : forall d e, NoDup (map j_id (jobs d)) ->
  filter (fun j => opt_id_eqb (e_job e) (j_id j)) (jobs d) =
  match job_of d e with Some j => [j] | None => [] end.
Proof.
  intros d e Hn. unfold job_of. destruct (e_job e) as [i|]; simpl.
  - apply (filter_find_unique j_id (jobs d) i Hn).
  - apply filter_false.
Qed.

Lemma exec_rows_In : forall c d e r, keys_ok d ->
  In (e, r) (exec_rows c d) <->
  In e (execs d) /\ exists j, job_of d e = Some j /\ r = the_row d j /\ present_row c r = true.
Proof.
  intros c d e r Hk. pose proof (keys_tables d Hk) as Htab. destruct Hk as [Hj _].
  unfold exec_rows. rewrite in_flat_map. split.
  - intros [e' [He' Hin]]. apply in_map_iff in Hin. destruct Hin as [r' [Heq Hr']].
    injection Heq as -> ->. split; [exact He'|].
    rewrite (exec_root_filter d e Hj) in Hr'.
    apply (job_rows_In c d _ r Htab) in Hr'. destruct Hr' as [j [Hjin [Hr Hp]]].
    destruct (job_of d e) as [j0|]; [|destruct Hjin].
    destruct Hjin as [->|[]]. exists j. auto.
  - intros [He [j [Hjo [Hr Hp]]]]. exists e. split; [exact He|].
    apply in_map. rewrite (exec_root_filter d e Hj), Hjo.
    apply (job_rows_In c d [j] r Htab). exists j. simpl. auto.
Qed.

Lemma filter_execs_member : forall c d sts t, consts_ok c = true -> keys_ok d -> sts <> [] ->
  clause c (widen c sts) = Some t ->
  exists res, filter_execs c d sts = Some res /\ NoDup res
    /\ (forall i, In i res -> exists e, In e (execs d) /\ e_id e = i)
    /\ (forall e j, In e (execs d) -> job_of d e = Some j ->
          (In (e_id e) res <-> keeps c t (arow_of c d j) = true))
    /\ (forall e, In e (execs d) -> job_of d e = None -> ~ In (e_id e) res).
Proof.
  intros c d sts t Hc Hk Hne Ht. unfold filter_execs. destruct sts as [|s0 sts0]; [contradiction|].
  rewrite Ht. eexists. split; [reflexivity|].
  pose proof (clause_ok c _ t Hc Ht) as Hok.
  assert (M : forall i, In i (dedup (map (fun er => e_id (fst er))
                (filter (fun er => tv_true (eval t (snd er))) (exec_rows c d))))
              <-> exists e j, In e (execs d) /\ e_id e = i /\ job_of d e = Some j
                              /\ keeps c t (arow_of c d j) = true).
  { intros i. rewrite In_dedup, in_map_iff. split.
    - intros [[e r] [Hi Hr]]. simpl in Hi. apply filter_In in Hr. destruct Hr as [Hr He]. simpl in He.
      apply (exec_rows_In c d e r Hk) in Hr. destruct Hr as [Hein [j [Hjo [Hrj Hp]]]].
      exists e, j. subst r. repeat split; auto.
      unfold keeps, arow_of. rewrite <- (present_row_abs c (err_name c)). rewrite Hp. simpl.
      rewrite <- (eval_abs (err_name c) t (the_row d j) (the_row_consistent d j) Hok). exact He.
    - intros [e [j [He [Hi [Hjo Hkp]]]]]. exists (e, the_row d j). split; [exact Hi|].
      unfold keeps, arow_of in Hkp. apply andb_prop in Hkp. destruct Hkp as [Hp Hev].
      apply filter_In. split.
      + apply (exec_rows_In c d e _ Hk). split; [exact He|]. exists j. split; [exact Hjo|].
        split; [reflexivity|]. rewrite (present_row_abs c (err_name c)). exact Hp.
      + simpl. rewrite (eval_abs (err_name c) t (the_row d j) (the_row_consistent d j) Hok). exact Hev. }
  destruct Hk as [_ [_ [_ Hke]]].
  split; [apply NoDup_dedup|]. split; [|split].
  - intros i Hi. apply M in Hi. destruct Hi as [e [j [He [Hi _]]]]. exists e. auto.
  - intros e j He Hjo. rewrite M. split.
    + intros [e' [j' [He' [Hi [Hjo' Hkp]]]]].
      pose proof (key_inj e_id (execs d) e' e Hke He' He Hi) as ->.
      rewrite Hjo in Hjo'. injection Hjo' as <-. exact Hkp.
    + intros H. exists e, j. auto.
  - intros e He Hjo Hin. apply M in Hin. destruct Hin as [e' [j' [He' [Hi [Hjo' _]]]]].
    pose proof (key_inj e_id (execs d) e' e Hke He' He Hi) as ->.
    rewrite Hjo in Hjo'. discriminate.
Qed.

Lemma exec_display_abs : forall c d e j, consts_ok c = true -> job_of d e = Some j ->
  exec_display c d e = adisplay_exec c (arow_of c d j).
Proof.
  intros c d e j Hc Hj. unfold exec_display, adisplay_exec, arow_of. rewrite Hj.
  rewrite (job_display_abs c d j Hc). reflexivity.
Qed.

(* ------------------------------------------------------------------ recorded databases *)
Definition val_ok (v : value) : Prop := exists ty, v_type v = Some ty.
Definition cn_ok (vs : list value) (cn : callnode) : Prop :=
  exists v, In v vs /\ c_value cn = Some (v_hash v).
Definition job_ok (cs : list callnode) (j : job) : Prop :=
  (j_ended j = false /\ j_call j = None /\ j_cached j = Some false)
  \/ (j_ended j = true /\ exists ch b, j_call j = Some ch /\ In ch (map c_hash cs) /\ j_cached j = Some b).
Definition exec_ok (js : list job) (e : execution) : Prop :=
  exists i, e_job e = Some i /\ In i (map j_id js).

Definition wf (d : db) : Prop :=
  keys_ok d /\ Forall val_ok (vals d) /\ Forall (cn_ok (vals d)) (callnodes d)
  /\ Forall (job_ok (callnodes d)) (jobs d) /\ Forall (exec_ok (jobs d)) (execs d).

Lemma wf_empty : wf empty_db.
Proof. unfold wf, keys_ok, empty_db; simpl. repeat split; constructor. Qed.

Lemma wfb_wf : forall d, wfb d = true -> wf d.
Proof.
  intros d H. unfold wfb in H.
  repeat (apply andb_prop in H; let H' := fresh "H" in destruct H as [H H']).
  unfold wf, keys_ok. repeat split; try (apply nodupb_NoDup; assumption).
  - apply Forall_forall. intros v Hv. rewrite forallb_forall in H3. specialize (H3 v Hv).
    unfold val_okb in H3. unfold val_ok. destruct (v_type v) as [ty|]; [eauto|discriminate].
  - apply Forall_forall. intros cn Hcn. rewrite forallb_forall in H2. specialize (H2 cn Hcn).
    unfold cn_okb in H2. unfold cn_ok. destruct (c_value cn) as [vh|]; [|discriminate].
    apply existsb_exists in H2. destruct H2 as [v [Hv He]]. apply N.eqb_eq in He. subst vh. eauto.
  - apply Forall_forall. intros j Hj. rewrite forallb_forall in H1. specialize (H1 j Hj).
    unfold job_okb in H1. unfold job_ok.
    destruct (j_ended j), (j_call j) as [ch|], (j_cached j) as [[|]|]; try discriminate.
    + right. split; [reflexivity|]. exists ch, true. apply has_id_In in H1. auto.
    + right. split; [reflexivity|]. exists ch, false. apply has_id_In in H1. auto.
    + left. auto.
  - apply Forall_forall. intros e He. rewrite forallb_forall in H0. specialize (H0 e He).
    unfold exec_okb in H0. unfold exec_ok. destruct (e_job e) as [i|]; [|discriminate].
    exists i. apply has_id_In in H0. auto.
Qed.

Lemma job_ok_mono : forall cs cs' j, incl (map c_hash cs) (map c_hash cs') -> job_ok cs j -> job_ok cs' j.
Proof.
  intros cs cs' j Hi [H|[H1 [ch [b [H2 [H3 H4]]]]]]; [left; exact H|].
  right. split; [exact H1|]. exists ch, b. auto.
Qed.

Lemma cn_ok_mono : forall vs vs' cn, incl vs vs' -> cn_ok vs cn -> cn_ok vs' cn.
Proof. intros vs vs' cn Hi [v [H1 H2]]. exists v. auto. Qed.

Lemma exec_ok_mono : forall js js' e, incl (map j_id js) (map j_id js') -> exec_ok js e -> exec_ok js' e.
Proof. intros js js' e Hi [i [H1 H2]]. exists i. auto. Qed.

Lemma start_job_wf : forall d j root d', wf d -> start_job d j root = Some d' -> wf d'.
Proof.
  intros d j root d' [[Kj [Kc [Kv Ke]]] [Hv [Hc [Hj He]]]] H. unfold start_job in H.
  destruct (has_id j (map j_id (jobs d))) eqn:Ej; [discriminate|]. apply has_id_false in Ej.
  assert (Kj' : NoDup (map j_id (jobs d ++ [mkJob j false None (Some false)]))).
  { rewrite map_app. simpl. apply NoDup_snoc; assumption. }
  assert (Hj' : Forall (job_ok (callnodes d)) (jobs d ++ [mkJob j false None (Some false)])).
  { apply Forall_app. split; [exact Hj|]. constructor; [|constructor]. left. simpl. auto. }
  assert (Hinc : incl (map j_id (jobs d)) (map j_id (jobs d ++ [mkJob j false None (Some false)]))).
  { rewrite map_app. apply incl_appl. apply incl_refl. }
  assert (He' : Forall (exec_ok (jobs d ++ [mkJob j false None (Some false)])) (execs d)).
  { eapply Forall_impl; [|exact He]. intros e. apply exec_ok_mono. exact Hinc. }
  destruct root as [e|].
  - destruct (has_id e (map e_id (execs d))) eqn:Ee; [discriminate|]. apply has_id_false in Ee.
    injection H as <-. unfold wf, keys_ok. simpl. repeat split; auto.
    + rewrite map_app. simpl. apply NoDup_snoc; assumption.
    + apply Forall_app. split; [exact He'|]. constructor; [|constructor].
      exists j. simpl. split; [reflexivity|]. rewrite map_app, in_app_iff. right. simpl. auto.
  - injection H as <-. unfold wf, keys_ok. simpl. repeat split; auto.
Qed.

Lemma map_id_end_row : forall j cached ch l, map j_id (map (end_row j cached ch) l) = map j_id l.
Proof.
  intros j cached ch l. rewrite map_map. apply map_ext. intros x. unfold end_row.
  destruct (N.eqb (j_id x) j) eqn:E; [|reflexivity]. apply N.eqb_eq in E. simpl. auto.
Qed.

Lemma step_wf : forall d o d', wf d -> step d o = Some d' -> wf d'.
Proof.
  intros d o d' W H. destruct o as [j root|ch vh ty|j root cached ch]; simpl in H.
  - eapply start_job_wf; eauto.
  - injection H as <-. destruct W as [[Kj [Kc [Kv Ke]]] [Hv [Hc [Hj He]]]].
    set (vs := if has_id vh (map v_hash (vals d)) then vals d else vals d ++ [mkVal vh (Some ty)]).
    set (cs := if has_id ch (map c_hash (callnodes d)) then callnodes d else callnodes d ++ [mkCN ch (Some vh)]).
    assert (Ivs : incl (vals d) vs).
    { unfold vs. destruct (has_id vh _); [apply incl_refl|apply incl_appl, incl_refl]. }
    assert (Ics : incl (map c_hash (callnodes d)) (map c_hash cs)).
    { unfold cs. destruct (has_id ch _); [apply incl_refl|]. rewrite map_app. apply incl_appl, incl_refl. }
    assert (Hvh : exists v, In v vs /\ v_hash v = vh).
    { unfold vs. destruct (has_id vh (map v_hash (vals d))) eqn:E.
      - apply has_id_In in E. apply in_map_iff in E. destruct E as [v [E1 E2]]. exists v. auto.
      - exists (mkVal vh (Some ty)). rewrite in_app_iff. simpl. auto. }
    unfold wf, keys_ok. simpl. fold vs. fold cs. repeat split; auto.
    + unfold cs. destruct (has_id ch (map c_hash (callnodes d))) eqn:E; [exact Kc|].
      apply has_id_false in E. rewrite map_app. simpl. apply NoDup_snoc; assumption.
    + unfold vs. destruct (has_id vh (map v_hash (vals d))) eqn:E; [exact Kv|].
      apply has_id_false in E. rewrite map_app. simpl. apply NoDup_snoc; assumption.
    + unfold vs. destruct (has_id vh (map v_hash (vals d))); [exact Hv|].
      apply Forall_app. split; [exact Hv|]. constructor; [|constructor]. exists ty. reflexivity.
    + assert (Hc' : Forall (cn_ok vs) (callnodes d)).
      { eapply Forall_impl; [|exact Hc]. intros cn. apply cn_ok_mono. exact Ivs. }
      unfold cs. destruct (has_id ch (map c_hash (callnodes d))); [exact Hc'|].
      apply Forall_app. split; [exact Hc'|]. constructor; [|constructor].
      destruct Hvh as [v [Hv1 Hv2]]. exists v. simpl. subst vh. auto.
    + eapply Forall_impl; [|exact Hj]. intros x. apply job_ok_mono. exact Ics.
  - destruct (has_id ch (map c_hash (callnodes d))) eqn:Ech; [|discriminate].
    apply has_id_In in Ech.
    assert (S : exists d0, wf d0 /\ callnodes d0 = callnodes d
                /\ (if has_id j (map j_id (jobs d)) then Some d else start_job d j root) = Some d0).
    { destruct (has_id j (map j_id (jobs d))).
      - exists d. auto.
      - destruct (start_job d j root) as [d0|] eqn:E; [|discriminate].
        exists d0. split; [eapply start_job_wf; eauto|]. split; [|reflexivity].
        unfold start_job in E. destruct (has_id j (map j_id (jobs d))); [discriminate|].
        destruct root as [e|]; [destruct (has_id e (map e_id (execs d))); [discriminate|]|];
          injection E as <-; reflexivity. }
    destruct S as [d0 [W0 [Hcs E]]]. rewrite E in H. injection H as <-.
    destruct W0 as [[Kj [Kc [Kv Ke]]] [Hv [Hc [Hj He]]]].
    unfold wf, keys_ok. simpl. rewrite map_id_end_row. repeat split; auto.
    + apply Forall_forall. intros x Hx. apply in_map_iff in Hx. destruct Hx as [y [Hy1 Hy2]].
      unfold end_row in Hy1. destruct (N.eqb (j_id y) j).
      * subst x. right. simpl. split; [reflexivity|]. exists ch, cached. rewrite Hcs. auto.
      * subst x. rewrite Forall_forall in Hj. apply Hj. exact Hy2.
    + eapply Forall_impl; [|exact He]. intros e. apply exec_ok_mono. rewrite map_id_end_row. apply incl_refl.
Qed.

Lemma run_wf : forall h d d', wf d -> run d h = Some d' -> wf d'.
Proof.
  induction h as [|o r IH]; simpl; intros d d' W H.
  - injection H as <-. exact W.
  - destruct (step d o) as [d1|] eqn:E; [|discriminate]. eapply IH; [|exact H]. eapply step_wf; eauto.
Qed.

Lemma recorded_wf : forall h d, run empty_db h = Some d -> wf d.
Proof. intros h d H. eapply run_wf; [apply wf_empty|exact H]. Qed.

(** In a recorded database every job has one of the five abstract rows. *)
Lemma wf_reach : forall e d j, wf d -> In j (jobs d) -> In (abs_row e (the_row d j)) reach_rows.
Proof.
  intros e d j [[Kj [Kc [Kv Ke]]] [Hv [Hc [Hj He]]]] Hin.
  rewrite Forall_forall in Hj. specialize (Hj j Hin).
  destruct j as [ji je jc jca]. unfold job_ok in Hj. simpl in Hj.
  destruct Hj as [[-> [-> ->]]|[-> [ch [b [-> [Hch ->]]]]]].
  - left. reflexivity.
  - apply in_map_iff in Hch. destruct Hch as [cn [Hcn1 Hcn2]].
    assert (F : call_node_of d (mkJob ji true (Some ch) (Some b)) = Some cn).
    { unfold call_node_of. simpl. subst ch. apply (find_unique c_hash); assumption. }
    rewrite Forall_forall in Hc. destruct (Hc cn Hcn2) as [v [Hv1 Hv2]].
    assert (G : value_of d cn = Some v).
    { unfold value_of. rewrite Hv2. apply (find_unique v_hash); assumption. }
    rewrite Forall_forall in Hv. destruct (Hv v Hv1) as [ty Hty].
    unfold the_row, abs_row. simpl. rewrite F, G, Hty.
    right. destruct b, (String.eqb ty e); simpl; auto.
Qed.

Lemma wf_exec_job : forall d e, wf d -> In e (execs d) -> exists j, job_of d e = Some j /\ In j (jobs d).
Proof.
  intros d e [[Kj _] [_ [_ [_ He]]]] Hin. rewrite Forall_forall in He.
  destruct (He e Hin) as [i [H1 H2]]. apply in_map_iff in H2. destruct H2 as [j [H2 H3]].
  exists j. split; [|exact H3]. unfold job_of. rewrite H1. subst i. apply (find_unique j_id); assumption.
Qed.

(* ------------------------------------------------------------------ the property, per configuration *)
Definition jobs_agree (c : cfg) (d : db) (s : status) : Prop :=
  exists res, filter_jobs c d [s] = Some res /\ NoDup res
    /\ (forall i, In i res -> exists j, In j (jobs d) /\ j_id j = i)
    /\ (forall j, In j (jobs d) -> (In (j_id j) res <-> job_display c d j = DStatus s)).

Definition execs_agree (c : cfg) (d : db) (s : status) : Prop :=
  exists res, filter_execs c d [s] = Some res /\ NoDup res
    /\ (forall i, In i res -> exists e, In e (execs d) /\ e_id e = i)
    /\ (forall e, In e (execs d) -> (In (e_id e) res <-> exec_display c d e = DStatus s)).

Lemma eqb_true_iff' : forall a b, Bool.eqb a b = true -> (a = true <-> b = true).
Proof. intros [] []; simpl; intros; split; intros; try discriminate; reflexivity. Qed.

Lemma agree_job_sound : forall c d j s, consts_ok c = true -> wf d -> In j (jobs d) ->
  agree_job c (arow_of c d j) s = true ->
  exists t, clause c [s] = Some t /\ (keeps c t (arow_of c d j) = true <-> job_display c d j = DStatus s).
Proof.
  intros c d j s Hc W Hj H. unfold agree_job in H. destruct (clause c [s]) as [t|]; [|discriminate].
  exists t. split; [reflexivity|]. apply eqb_true_iff' in H. unfold keeps. rewrite H.
  rewrite disp_is_eq. rewrite (job_display_abs c d j Hc). reflexivity.
Qed.

Theorem jobs_agree_of_ok : forall c, cfg_ok_jobs c = true ->
  forall d, wf d -> forall s, jobs_agree c d s.
Proof.
  intros c Hok d W s. unfold cfg_ok_jobs in Hok. apply andb_prop in Hok. destruct Hok as [Hc Hall].
  rewrite forallb_forall in Hall.
  assert (Hs : In s all_status) by (destruct s; simpl; auto).
  assert (Ht : exists t, clause c [s] = Some t).
  { specialize (Hall running_row (or_introl eq_refl)). rewrite forallb_forall in Hall.
    specialize (Hall s Hs). unfold agree_job in Hall. destruct (clause c [s]) as [t|]; [eauto|discriminate]. }
  destruct Ht as [t Ht].
  destruct W as [Hk W']. pose proof (conj Hk W') as W.
  destruct (filter_jobs_member c d [s] t Hc Hk Ht) as [res [H1 [H2 [H3 H4]]]].
  exists res. repeat split; auto.
  - intros Hin. apply H4 in Hin; [|assumption].
    pose proof (wf_reach (err_name c) d j W H) as Hr. specialize (Hall _ Hr).
    rewrite forallb_forall in Hall. specialize (Hall s Hs).
    destruct (agree_job_sound c d j s Hc W H Hall) as [t' [Ht' Hiff]].
    rewrite Ht in Ht'. injection Ht' as <-. apply Hiff. exact Hin.
  - intros Hd. apply H4; [assumption|].
    pose proof (wf_reach (err_name c) d j W H) as Hr. specialize (Hall _ Hr).
    rewrite forallb_forall in Hall. specialize (Hall s Hs).
    destruct (agree_job_sound c d j s Hc W H Hall) as [t' [Ht' Hiff]].
    rewrite Ht in Ht'. injection Ht' as <-. apply Hiff. exact Hd.
Qed.

Lemma agree_exec_sound : forall c d e j s, consts_ok c = true -> job_of d e = Some j ->
  agree_exec c (arow_of c d j) s = true ->
  exists t, clause c (widen c [s]) = Some t
            /\ (keeps c t (arow_of c d j) = true <-> exec_display c d e = DStatus s).
Proof.
  intros c d e j s Hc Hj H. unfold agree_exec in H.
  destruct (clause c (widen c [s])) as [t|]; [|discriminate].
  exists t. split; [reflexivity|]. apply eqb_true_iff' in H. unfold keeps. rewrite H.
  rewrite disp_is_eq. rewrite (exec_display_abs c d e j Hc Hj). reflexivity.
Qed.

Theorem execs_agree_of_ok : forall c, cfg_ok_execs c = true ->
  forall d, wf d -> forall s, In s exec_status -> execs_agree c d s.
Proof.
  intros c Hok d W s Hs. unfold cfg_ok_execs in Hok. apply andb_prop in Hok. destruct Hok as [Hc Hall].
  rewrite forallb_forall in Hall.
  assert (Ht : exists t, clause c (widen c [s]) = Some t).
  { specialize (Hall running_row (or_introl eq_refl)). rewrite forallb_forall in Hall.
    specialize (Hall s Hs). unfold agree_exec in Hall.
    destruct (clause c (widen c [s])) as [t|]; [eauto|discriminate]. }
  destruct Ht as [t Ht].
  destruct W as [Hk W']. pose proof (conj Hk W') as W.
  assert (Hne : [s] <> []) by discriminate.
  destruct (filter_execs_member c d [s] t Hc Hk Hne Ht) as [res [H1 [H2 [H3 [H4 H5]]]]].
  exists res. repeat split; auto.
  - intros Hin. destruct (wf_exec_job d e W H) as [j [Hjo Hj]].
    apply (H4 e j H Hjo) in Hin.
    pose proof (wf_reach (err_name c) d j W Hj) as Hr. specialize (Hall _ Hr).
    rewrite forallb_forall in Hall. specialize (Hall s Hs).
    destruct (agree_exec_sound c d e j s Hc Hjo Hall) as [t' [Ht' Hiff]].
    rewrite Ht in Ht'. injection Ht' as <-. apply Hiff. exact Hin.
  - intros Hd. destruct (wf_exec_job d e W H) as [j [Hjo Hj]].
    apply (H4 e j H Hjo).
    pose proof (wf_reach (err_name c) d j W Hj) as Hr. specialize (Hall _ Hr).
    rewrite forallb_forall in Hall. specialize (Hall s Hs).
    destruct (agree_exec_sound c d e j s Hc Hjo Hall) as [t' [Ht' Hiff]].
    rewrite Ht in Ht'. injection Ht' as <-. apply Hiff. exact Hd.
Qed.

(* ------------------------------------------------------------------ reduction to abstract rows *)
Lemma a_cached_arow : forall c d j, a_cached (arow_of c d j) = j_cached j.
Proof. reflexivity. Qed.

Lemma jobs_reduce : forall c d s t, consts_ok c = true -> wf d -> clause c [s] = Some t ->
  exists res, filter_jobs c d [s] = Some res /\ NoDup res
    /\ (forall i, In i res -> exists j, In j (jobs d) /\ j_id j = i)
    /\ (forall j, In j (jobs d) ->
          In (arow_of c d j) reach_rows
          /\ (In (j_id j) res <-> keeps c t (arow_of c d j) = true)
          /\ job_display c d j = adisplay c (arow_of c d j)).
Proof.
  intros c d s t Hc W Ht. destruct W as [Hk W']. pose proof (conj Hk W') as W.
  destruct (filter_jobs_member c d [s] t Hc Hk Ht) as [res [H1 [H2 [H3 H4]]]].
  exists res. repeat split; auto.
  - apply wf_reach; assumption.
  - apply H4; assumption.
  - apply H4; assumption.
  - apply job_display_abs; assumption.
Qed.

Lemma execs_reduce : forall c d s t, consts_ok c = true -> wf d -> clause c (widen c [s]) = Some t ->
  exists res, filter_execs c d [s] = Some res /\ NoDup res
    /\ (forall i, In i res -> exists e, In e (execs d) /\ e_id e = i)
    /\ (forall e, In e (execs d) -> exists j, job_of d e = Some j /\ In j (jobs d)
          /\ In (arow_of c d j) reach_rows
          /\ (In (e_id e) res <-> keeps c t (arow_of c d j) = true)
          /\ exec_display c d e = adisplay_exec c (arow_of c d j)
          /\ job_display c d j = adisplay c (arow_of c d j)).
Proof.
  intros c d s t Hc W Ht. destruct W as [Hk W']. pose proof (conj Hk W') as W.
  assert (Hne : [s] <> []) by discriminate.
  destruct (filter_execs_member c d [s] t Hc Hk Hne Ht) as [res [H1 [H2 [H3 [H4 H5]]]]].
  exists res. repeat split; auto.
  intros e H.
  destruct (wf_exec_job d e W H) as [j [Hjo Hj]]. exists j. repeat split; auto.
  - apply wf_reach; assumption.
  - apply (H4 e j H Hjo).
  - apply (H4 e j H Hjo).
  - apply exec_display_abs; assumption.
  - apply job_display_abs; assumption.
Qed.

(* ------------------------------------------------------------------ the shipped configuration *)
Lemma shipped_consts : consts_ok shipped = true.
Proof. vm_compute. reflexivity. Qed.

Lemma fixed_ok : cfg_ok fixed = true.
Proof. vm_compute. reflexivity. Qed.

Lemma shipped_not_ok : cfg_ok_jobs shipped = false /\ cfg_ok_execs shipped = false.
Proof. split; vm_compute; reflexivity. Qed.

(** As shipped, every (row, status) pair agrees except the cached-and-failed row. *)
Lemma shipped_agree_job_except : forall a s, In a reach_rows -> a <> ended_row true true ->
  agree_job shipped a s = true.
Proof.
  intros a s Hr Hne. simpl in Hr.
  destruct Hr as [<-|[<-|[<-|[<-|[<-|[]]]]]]; try (destruct s; vm_compute; reflexivity).
  exfalso. apply Hne. reflexivity.
Qed.

Lemma shipped_agree_exec_except : forall a s, In a reach_rows -> In s exec_status ->
  a <> ended_row true true -> agree_exec shipped a s = true.
Proof.
  intros a s Hr Hs Hne. simpl in Hr. simpl in Hs.
  destruct Hr as [<-|[<-|[<-|[<-|[<-|[]]]]]];
    try (destruct Hs as [<-|[<-|[<-|[]]]]; vm_compute; reflexivity).
  exfalso. apply Hne. reflexivity.
Qed.

Definition cached_failed (c : cfg) (d : db) (j : job) : Prop :=
  j_cached j = Some true /\ job_display c d j = DStatus FAILED.

Lemma shipped_cached_failed_row : forall d j, In (arow_of shipped d j) reach_rows ->
  job_display shipped d j = adisplay shipped (arow_of shipped d j) ->
  (cached_failed shipped d j <-> arow_of shipped d j = ended_row true true).
Proof.
  intros d j Hr Hd. unfold cached_failed. rewrite Hd. rewrite <- (a_cached_arow shipped d j).
  remember (arow_of shipped d j) as a. clear Heqa Hd. simpl in Hr.
  destruct Hr as [<-|[<-|[<-|[<-|[<-|[]]]]]]; vm_compute; split;
    try (intros [H1 H2]; discriminate); try discriminate; auto.
Qed.

Theorem jobs_shipped_partial : forall d s, wf d ->
  exists res, filter_jobs shipped d [s] = Some res /\ NoDup res
    /\ (forall i, In i res -> exists j, In j (jobs d) /\ j_id j = i)
    /\ (forall j, In j (jobs d) -> ~ cached_failed shipped d j ->
          (In (j_id j) res <-> job_display shipped d j = DStatus s))
    /\ (forall j, In j (jobs d) -> cached_failed shipped d j ->
          (In (j_id j) res <-> s = CACHED \/ s = FAILED)).
Proof.
  intros d s W.
  assert (Ht : exists t, clause shipped [s] = Some t) by (destruct s; vm_compute; eauto).
  destruct Ht as [t Ht].
  destruct (jobs_reduce shipped d s t shipped_consts W Ht) as [res [H1 [H2 [H3 H4]]]].
  exists res. repeat split; auto.
  - intros Hin. destruct (H4 j H) as [Hr [Hiff Hd]].
    assert (Hne : arow_of shipped d j <> ended_row true true).
    { intros E. apply H0. apply (shipped_cached_failed_row d j Hr Hd). exact E. }
    pose proof (shipped_agree_job_except _ s Hr Hne) as Ha.
    destruct (agree_job_sound shipped d j s shipped_consts W H Ha) as [t' [Ht' Hiff']].
    rewrite Ht in Ht'. injection Ht' as <-. apply Hiff', Hiff. exact Hin.
  - intros Hdisp. destruct (H4 j H) as [Hr [Hiff Hd]].
    assert (Hne : arow_of shipped d j <> ended_row true true).
    { intros E. apply H0. apply (shipped_cached_failed_row d j Hr Hd). exact E. }
    pose proof (shipped_agree_job_except _ s Hr Hne) as Ha.
    destruct (agree_job_sound shipped d j s shipped_consts W H Ha) as [t' [Ht' Hiff']].
    rewrite Ht in Ht'. injection Ht' as <-. apply Hiff, Hiff'. exact Hdisp.
  - intros Hin. destruct (H4 j H) as [Hr [Hiff Hd]].
    apply (shipped_cached_failed_row d j Hr Hd) in H0. apply Hiff in Hin. rewrite H0 in Hin.
    destruct s; vm_compute in Ht; injection Ht as <-; vm_compute in Hin; try discriminate; auto.
  - intros Hs. destruct (H4 j H) as [Hr [Hiff Hd]].
    apply (shipped_cached_failed_row d j Hr Hd) in H0. apply Hiff. rewrite H0.
    destruct Hs as [-> | ->]; vm_compute in Ht; injection Ht as <-; vm_compute; reflexivity.
Qed.

Theorem execs_shipped_partial : forall d s, wf d -> In s exec_status ->
  exists res, filter_execs shipped d [s] = Some res /\ NoDup res
    /\ (forall i, In i res -> exists e, In e (execs d) /\ e_id e = i)
    /\ (forall e j, In e (execs d) -> job_of d e = Some j -> ~ cached_failed shipped d j ->
          (In (e_id e) res <-> exec_display shipped d e = DStatus s)).
Proof.
  intros d s W Hs.
  assert (Ht : exists t, clause shipped (widen shipped [s]) = Some t).
  { simpl in Hs. destruct Hs as [<-|[<-|[<-|[]]]]; vm_compute; eauto. }
  destruct Ht as [t Ht].
  destruct (execs_reduce shipped d s t shipped_consts W Ht) as [res [H1 [H2 [H3 H4]]]].
  exists res. repeat split; auto.
  - intros Hin. destruct (H4 e H) as [j' [Hjo [Hj [Hr [Hiff [Hde Hdj]]]]]].
    rewrite H0 in Hjo. injection Hjo as <-.
    assert (Hne : arow_of shipped d j <> ended_row true true).
    { intros E. apply H5. apply (shipped_cached_failed_row d j Hr Hdj). exact E. }
    pose proof (shipped_agree_exec_except _ s Hr Hs Hne) as Ha.
    destruct (agree_exec_sound shipped d e j s shipped_consts H0 Ha) as [t' [Ht' Hiff']].
    rewrite Ht in Ht'. injection Ht' as <-. apply Hiff', Hiff. exact Hin.
  - intros Hdisp. destruct (H4 e H) as [j' [Hjo [Hj [Hr [Hiff [Hde Hdj]]]]]].
    rewrite H0 in Hjo. injection Hjo as <-.
    assert (Hne : arow_of shipped d j <> ended_row true true).
    { intros E. apply H5. apply (shipped_cached_failed_row d j Hr Hdj). exact E. }
    pose proof (shipped_agree_exec_except _ s Hr Hs Hne) as Ha.
    destruct (agree_exec_sound shipped d e j s shipped_consts H0 Ha) as [t' [Ht' Hiff']].
    rewrite Ht in Ht'. injection Ht' as <-. apply Hiff, Hiff'. exact Hdisp.
Qed.

(** Executions never display CACHED; filtering executions by CACHED returns those whose root
    job displays CACHED (fixed configuration), and they display DONE. *)
Theorem execs_cached_fixed : forall d, wf d ->
  exists res, filter_execs fixed d [CACHED] = Some res /\ NoDup res
    /\ (forall i, In i res -> exists e, In e (execs d) /\ e_id e = i)
    /\ (forall e, In e (execs d) -> exec_display fixed d e <> DStatus CACHED
          /\ exists j, job_of d e = Some j
             /\ (In (e_id e) res <-> job_display fixed d j = DStatus CACHED)
             /\ (In (e_id e) res -> exec_display fixed d e = DStatus DONE)).
Proof.
  intros d W.
  assert (Hc : consts_ok fixed = true) by (vm_compute; reflexivity).
  assert (Ht : exists t, clause fixed (widen fixed [CACHED]) = Some t) by (vm_compute; eauto).
  destruct Ht as [t Ht].
  destruct (execs_reduce fixed d CACHED t Hc W Ht) as [res [H1 [H2 [H3 H4]]]].
  exists res. repeat split; auto.
  - destruct (H4 e H) as [j [Hjo [Hj [Hr [Hiff [Hde Hdj]]]]]]. rewrite Hde.
    remember (arow_of fixed d j) as a. clear - Hr. simpl in Hr.
    destruct Hr as [<-|[<-|[<-|[<-|[<-|[]]]]]]; vm_compute; discriminate.
  - destruct (H4 e H) as [j [Hjo [Hj [Hr [Hiff [Hde Hdj]]]]]]. exists j. split; [exact Hjo|].
    rewrite Hde, Hdj. rewrite Hiff.
    vm_compute in Ht. injection Ht as <-.
    remember (arow_of fixed d j) as a. clear - Hr. simpl in Hr.
    destruct Hr as [<-|[<-|[<-|[<-|[<-|[]]]]]]; vm_compute; repeat split; intros; try discriminate; auto.
Qed.
