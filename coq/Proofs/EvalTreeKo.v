(** C12: a failed call has a failed child with the same error, down to the task that raised;
    and an error never turns into a value except through catch. *)
From Coq Require Import List ZArith Bool Arith Lia.
From RV Require Import Model.EvalTree Proofs.EvalTreeWF Proofs.EvalTreeRun.
Import ListNotations.
Open Scope list_scope.

(** the error of a failed call is the error of one of its started children, or its own raise *)
Definition ko_local (n : node) : Prop :=
  forall e, nphase n = PDone (Ko e) ->
    nspec n = SRaise e \/ exists k, In k (nkids n) /\ nphase k = PDone (Ko e).

Inductive KC : node -> Prop :=
| KC_node sp ph kids : Forall KC kids -> ko_local (Node sp ph kids) -> KC (Node sp ph kids).

Lemma KC_inv sp ph kids : KC (Node sp ph kids) -> Forall KC kids /\ ko_local (Node sp ph kids).
Proof. inversion 1; subst; auto. Qed.

Lemma first_ko_in kids e : first_ko kids = Some e -> exists k, In k kids /\ nphase k = PDone (Ko e).
Proof.
  intros H. destruct (first_ko_some _ _ H) as (i & k & Hn & Hp & _). exists k. split; auto.
  eapply nth_error_In; eauto.
Qed.

Lemma KC_recombine sp kids : Forall KC kids -> KC (recombine (Node sp PEval kids)).
Proof.
  intros HK.
  assert (Hev : KC (Node sp PEval kids)) by (constructor; auto; intros e; discriminate).
  destruct sp as [z|e0|p cs|cs|c|cs|cs]; cbn [recombine]; auto.
  - destruct (first_ko kids) as [e|] eqn:Ek.
    + constructor; auto. intros e' [= <-]. right. now apply first_ko_in.
    + destruct (all_ok kids); auto. constructor; auto. intros e'; discriminate.
  - destruct (first_ko kids) as [e|] eqn:Ek.
    + constructor; auto. intros e' [= <-]. right. now apply first_ko_in.
    + destruct (all_ok kids); auto. destruct (nth_error cs (length kids)).
      * constructor; [apply Forall_app; split; auto; constructor; [|constructor]|intros e'; discriminate].
        constructor; [constructor|intros e'; discriminate].
      * constructor; auto. intros e'; discriminate.
  - destruct kids as [|k [|k2 r]]; auto. destruct (nphase k) as [| | |[v|e]]; auto.
    + constructor; auto. intros e'; discriminate.
    + constructor; auto. intros e'; discriminate.
  - destruct (forallb kid_done kids); auto. destruct (first_ko kids) as [e|] eqn:Ek.
    + constructor; auto. intros e' [= <-]. right. now apply first_ko_in.
    + destruct (all_ok kids); auto. constructor; auto. intros e'; discriminate.
  - destruct (forallb kid_done kids); auto. destruct (all_ok kids); constructor; auto; intros e'; discriminate.
Qed.

Lemma KC_idle s : KC (idle s).
Proof. constructor; [constructor|intros e; discriminate]. Qed.

Lemma KC_start n : KC n -> KC (do_start n).
Proof.
  destruct n as [sp ph kids]. intros H. destruct ph; simpl; auto. apply KC_inv in H. destruct H as [A _].
  constructor; auto. intros e; discriminate.
Qed.

Lemma KC_finish n : KC n -> KC (do_finish n).
Proof.
  destruct n as [sp ph kids]. intros H. destruct ph; try exact H. destruct sp as [z|e|p cs|cs|c|cs|cs]; cbn [do_finish].
  - constructor; [constructor|intros e; discriminate].
  - constructor; [constructor|]. intros e' [= <-]. now left.
  - apply KC_recombine. apply Forall_forall. intros x Hx. apply in_map_iff in Hx. destruct Hx as (c & <- & _). apply KC_idle.
  - apply KC_recombine. constructor.
  - constructor; [constructor; [apply KC_idle|constructor]|intros e; discriminate].
  - apply KC_recombine. apply Forall_forall. intros x Hx. apply in_map_iff in Hx. destruct Hx as (c & <- & _). apply KC_idle.
  - apply KC_recombine. apply Forall_forall. intros x Hx. apply in_map_iff in Hx. destruct Hx as (c & <- & _). apply KC_idle.
Qed.

Section Upd.
Variable f : node -> node.
Hypothesis Hf : good_action f.
Hypothesis HfK : forall n, KC n -> KC (f n).

Lemma upd_KC p : forall n, KC n -> KC (upd p f n).
Proof.
  induction p as [|i p IH]; intros n H; cbn [upd]; [apply HfK; exact H|].
  destruct n as [sp ph kids]. apply KC_inv in H. destruct H as (HK & HL).
  set (kids' := upd_nth kids i (upd p f)).
  assert (HK' : Forall KC kids').
  { apply Forall_forall. intros x Hx. apply In_nth_error in Hx. destruct Hx as (j & Hj).
    unfold kids' in Hj. rewrite upd_nth_nth in Hj. rewrite Forall_forall in HK.
    destruct (Nat.eqb i j).
    - destruct (nth_error kids j) as [y|] eqn:Ey; [|discriminate]. simpl in Hj. injection Hj as <-.
      apply IH. apply HK. eapply nth_error_In; eauto.
    - apply HK. eapply nth_error_In; eauto. }
  destruct ph.
  - rewrite recombine_not_eval by discriminate. constructor; auto. intros e; discriminate.
  - rewrite recombine_not_eval by discriminate. constructor; auto. intros e; discriminate.
  - apply KC_recombine; auto.
  - rewrite recombine_not_eval by discriminate. constructor; auto.
    (* the failed child that witnessed the parent's error is still failed with it *)
    intros e He. destruct (HL e He) as [Hs|(k & Hin & Hk)]; [left; exact Hs|right].
    simpl in Hin. apply In_nth_error in Hin. destruct Hin as (j & Hj). cbn [nkids].
    destruct (Nat.eqb i j) eqn:Eij.
    + exists (upd p f k). split.
      * apply nth_error_In with (n := j). unfold kids'. rewrite upd_nth_nth, Eij, Hj. reflexivity.
      * apply (upd_spec_done f Hf p k). exact Hk.
    + exists k. split; auto. apply nth_error_In with (n := j). unfold kids'. rewrite upd_nth_nth, Eij. exact Hj.
Qed.
End Upd.

Theorem run_KC s ops : KC (run s ops).
Proof.
  unfold run. generalize (KC_idle s). generalize (idle s). induction ops as [|o ops IH]; intros n H; simpl; auto.
  apply IH. destruct o; simpl.
  - apply upd_KC; auto using good_start, KC_start.
  - apply upd_KC; auto using good_finish, KC_finish.
Qed.

(** a failed call leads, through failed calls with the same error, to the task that raised it *)
Inductive ko_path (e : Z) : node -> Prop :=
| kp_raise n : nphase n = PDone (Ko e) -> nspec n = SRaise e -> ko_path e n
| kp_child n k : nphase n = PDone (Ko e) -> In k (nkids n) -> ko_path e k -> ko_path e n.

Section NodeInd.
  Variable P : node -> Prop.
  Hypothesis H : forall sp ph kids, Forall P kids -> P (Node sp ph kids).
  Fixpoint node_ind' (n : node) : P n :=
    match n with
    | Node sp ph kids => H sp ph kids ((fix go l := match l return Forall P l with
                                                 | [] => Forall_nil _ | x :: r => Forall_cons _ (node_ind' x) (go r) end) kids)
    end.
End NodeInd.

Lemma KC_ko_path n : KC n -> forall e, nphase n = PDone (Ko e) -> ko_path e n.
Proof.
  induction n as [sp ph kids IH] using node_ind'. intros HK e He. apply KC_inv in HK. destruct HK as (HKk & HL).
  destruct (HL e He) as [Hs|(k & Hin & Hk)].
  - now apply kp_raise.
  - apply (kp_child e _ k); auto. rewrite Forall_forall in IH, HKk. apply IH; auto.
Qed.

Theorem run_ko_path s ops e : result (run s ops) = Some (Ko e) -> ko_path e (run s ops).
Proof.
  intros H. apply KC_ko_path; [apply run_KC|]. unfold result in H. destruct (nphase (run s ops)); try discriminate.
  now injection H as ->.
Qed.
