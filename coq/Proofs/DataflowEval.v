(** C21 — the repaired bookkeeping links every producing call: invariant of the evaluator. *)
From Coq Require Import List ZArith String Bool Arith Lia.
From RV Require Import Model.Dataflow Proofs.DataflowArgs.
Import ListNotations.
Open Scope list_scope.

(* ------------------------------------------------------------------ structural equality is equality *)
Lemma okey_eqb_eq : forall a b, okey_eqb a b = true -> a = b.
Proof.
  intros [a|] [b|]; simpl; intros H; try discriminate; auto.
  apply String.eqb_eq in H. congruence.
Qed.

Lemma val_eqb_eq : forall a b, val_eqb a b = true -> a = b.
Proof.
  induction a; destruct b; simpl; intros H; try discriminate.
  - apply Z.eqb_eq in H. congruence.
  - apply String.eqb_eq in H. congruence.
  - apply andb_true_iff in H. destruct H as [A B]. apply Nat.eqb_eq in A. apply Z.eqb_eq in B. congruence.
  - reflexivity.
  - apply andb_true_iff in H. destruct H as [H C]. apply andb_true_iff in H. destruct H as [A B].
    apply okey_eqb_eq in A. f_equal; auto.
Qed.

Scheme expr_mind := Induction for expr Sort Prop
  with exprs_mind := Induction for exprs Sort Prop.
Combined Scheme expr_exprs_ind from expr_mind, exprs_mind.

Lemma expr_eqb_eq_both :
  (forall a b, expr_eqb a b = true -> a = b) /\ (forall a b, exprs_eqb a b = true -> a = b).
Proof.
  apply expr_exprs_ind.
  - intros v [] H; simpl in H; try discriminate. apply val_eqb_eq in H. congruence.
  - intros x IH [] H; simpl in H; try discriminate. f_equal. auto.
  - intros t x IH [] H; simpl in H; try discriminate. apply andb_true_iff in H. destruct H as [A B].
    apply Nat.eqb_eq in A. f_equal; auto.
  - intros t x IH [] H; simpl in H; try discriminate. apply andb_true_iff in H. destruct H as [A B].
    apply Nat.eqb_eq in A. f_equal; auto.
  - intros x IH [] H; simpl in H; try discriminate. f_equal. auto.
  - intros x IH [] H; simpl in H; try discriminate. f_equal. auto.
  - intros e IH c r [] H; simpl in H; try discriminate.
    apply andb_true_iff in H. destruct H as [H C]. apply andb_true_iff in H. destruct H as [A B].
    apply Nat.eqb_eq in B. apply Nat.eqb_eq in C. f_equal; auto.
  - intros [] H; simpl in H; try discriminate. reflexivity.
  - intros k e IHe r IHr [] H; simpl in H; try discriminate.
    apply andb_true_iff in H. destruct H as [H C]. apply andb_true_iff in H. destruct H as [A B].
    apply okey_eqb_eq in A. f_equal; auto.
Qed.

Lemma expr_eqb_eq : forall a b, expr_eqb a b = true -> a = b.
Proof. exact (proj1 expr_eqb_eq_both). Qed.

Lemma lookup_In : forall A e (l : list (expr * A)) x, lookup e l = Some x -> In (e, x) l.
Proof.
  induction l as [|[f y] l IH]; simpl; intros x H; [discriminate|].
  destruct (expr_eqb e f) eqn:E.
  - apply expr_eqb_eq in E. inversion H; subst. auto.
  - right. auto.
Qed.

(* ------------------------------------------------------------------ collect *)
Lemma collect_inl_all : forall l vs, collect l = inl vs ->
  l = map (fun kv => (fst kv, Ok (snd kv))) vs.
Proof.
  induction l as [|[k r] l IH]; simpl; intros vs H.
  - inversion H. reflexivity.
  - destruct r as [v|e]; [|discriminate].
    destruct (collect l) as [vs'|e] eqn:E; [|discriminate].
    inversion H; subst. simpl. f_equal. apply IH. reflexivity.
Qed.

(* ------------------------------------------------------------------ unfolding equations *)
Lemma eval_args_cons : forall W V k e r st,
  eval_args W V (XCons k e r) st
  = let '(o, st1) := eval W V e st in
    let '(os, st2) := eval_args W V r st1 in ((k, e, o) :: os, st2).
Proof. reflexivity. Qed.

Lemma eval_seq_cons : forall W V k e r st,
  eval_seq W V (XCons k e r) st
  = let '(o, st1) := eval W V e st in
    if is_ok (fst o) then let '(os, st2) := eval_seq W V r st1 in ((k, e, o) :: os, st2)
    else ([(k, e, o)], st1).
Proof. reflexivity. Qed.

Lemma eval_cond_cons2 : forall W V k c k2 t rest st,
  eval_cond W V (XCons k c (XCons k2 t rest)) st
  = let '((rc, uc), st1) := eval W V c st in
    match rc with
    | Raise err => ((Raise err, uc), st1)
    | Ok vc =>
        if w_truthy W vc then
          let '((rt, ut), st2) := eval W V t st1 in ((rt, uc ++ ut), st2)
        else
          match rest with
          | XNil => ((Raise (w_index_error W), uc), st1)
          | XCons _ e' XNil => let '((re, ue), st2) := eval W V e' st1 in ((re, uc ++ ue), st2)
          | XCons _ _ (XCons _ _ _) =>
              let '((rr, ur), st2) := eval_cond W V rest st1 in ((rr, uc ++ ur), st2)
          end
    end.
Proof. reflexivity. Qed.

Lemma eval_cond_short : forall W V es st,
  (es = XNil \/ exists k c, es = XCons k c XNil) ->
  eval_cond W V es st = ((Raise (w_index_error W), []), st).
Proof. intros W V es st [H|(k & c & H)]; subst; reflexivity. Qed.

Lemma sems_cons : forall W k e r, sems W (XCons k e r) = (k, sem W e) :: sems W r.
Proof. reflexivity. Qed.

Lemma prods_cons : forall W k e r, prods W (XCons k e r) = prod W e ++ prods W r.
Proof. reflexivity. Qed.

Lemma sem_cond_cons2 : forall W k c k2 t rest,
  sem_cond W (XCons k c (XCons k2 t rest))
  = match sem W c with
    | Raise err => Raise err
    | Ok vc =>
        if w_truthy W vc then sem W t
        else match rest with
             | XNil => Raise (w_index_error W)
             | XCons _ e' XNil => sem W e'
             | XCons _ _ (XCons _ _ _) => sem_cond W rest
             end
    end.
Proof. reflexivity. Qed.

Lemma prod_cond_cons2 : forall W k c k2 t rest,
  prod_cond W (XCons k c (XCons k2 t rest))
  = match sem W c with
    | Raise _ => []
    | Ok vc =>
        if w_truthy W vc then prod W t
        else match rest with
             | XNil => []
             | XCons _ e' XNil => prod W e'
             | XCons _ _ (XCons _ _ _) => prod_cond W rest
             end
    end.
Proof. reflexivity. Qed.

Lemma sem_EConst : forall W v, sem W (EConst v) = Ok v. Proof. reflexivity. Qed.
Lemma prod_EConst : forall W v, prod W (EConst v) = []. Proof. reflexivity. Qed.
Lemma sem_ECont : forall W items, sem W (ECont items)
  = match collect (sems W items) with inl vs => Ok (mk_container vs) | inr err => Raise err end.
Proof. reflexivity. Qed.
Lemma prod_ECont : forall W items, prod W (ECont items) = prods W items. Proof. reflexivity. Qed.
Lemma sem_ETask : forall W t args, sem W (ETask t args)
  = match collect (sems W args) with inl vs => call_res W t vs | inr err => Raise err end.
Proof. reflexivity. Qed.
Lemma prod_ETask : forall W t args, prod W (ETask t args)
  = match collect (sems W args) with inl vs => [call_key W t vs] | inr _ => [] end.
Proof. reflexivity. Qed.
Lemma sem_ESimple : forall W o args, sem W (ESimple o args)
  = match collect (sems W args) with inl vs => w_op W o (map snd vs) | inr err => Raise err end.
Proof. reflexivity. Qed.
Lemma prod_ESimple : forall W o args, prod W (ESimple o args) = prods W args. Proof. reflexivity. Qed.
Lemma sem_ECond : forall W args, sem W (ECond args) = sem_cond W args. Proof. reflexivity. Qed.
Lemma prod_ECond : forall W args, prod W (ECond args) = prod_cond W args. Proof. reflexivity. Qed.
Lemma sem_ESeq : forall W items, sem W (ESeq items)
  = match collect (sems W items) with inl vs => Ok (mk_list vs) | inr err => Raise err end.
Proof. reflexivity. Qed.
Lemma prod_ESeq : forall W items, prod W (ESeq items) = prods W items. Proof. reflexivity. Qed.
Lemma sem_ECatch : forall W e0 cls r, sem W (ECatch e0 cls r)
  = match sem W e0 with
    | Ok v => Ok v
    | Raise err => if w_matches W cls err then call_res W r [(None, err)] else Raise err
    end.
Proof. reflexivity. Qed.
Lemma prod_ECatch : forall W e0 cls r, prod W (ECatch e0 cls r)
  = match sem W e0 with
    | Ok _ => prod W e0
    | Raise err => if w_matches W cls err then [call_key W r [(None, err)]] else []
    end.
Proof. reflexivity. Qed.

#[global] Hint Rewrite sem_EConst prod_EConst sem_ECont prod_ECont sem_ETask prod_ETask sem_ESimple prod_ESimple
  sem_ECond prod_ECond sem_ESeq prod_ESeq sem_ECatch prod_ECatch : dfeq.

Ltac split3 := split; [|split].
Ltac split4 := split; [|split; [|split]].

(* ------------------------------------------------------------------ the invariant *)
Section Inv.
  Variable W : world.

  Definition res_ok (e : expr) (o : outcome) : Prop :=
    fst o = sem W e /\ (is_ok (fst o) = true -> incl (prod W e) (snd o)).

  Ltac sp := unfold res_ok; autorewrite with dfeq; simpl fst; simpl snd.

  Definition entry_ok (p : expr * outcome) : Prop := res_ok (fst p) (snd p).

  Definition centry_ok (p : expr * centry) : Prop :=
    match fst p with
    | ECatch e0 cls r =>
        match snd p with
        | CSucc => is_ok (sem W e0) = true
        | CRec err => sem W e0 = Raise err /\ w_matches W cls err = true
                      /\ is_ok (call_res W r [(None, err)]) = true
        end
    | _ => True
    end.

  Definition inv (st : state) : Prop :=
    Forall entry_ok (s_pend st) /\ Forall centry_ok (s_cache st) /\ rows_complete W st.

  Definition P (e : expr) : Prop :=
    forall st o st', inv st -> eval W fixed e st = (o, st') -> inv st' /\ res_ok e o.

  Definition out_ok (o : out) : Prop := res_ok (out_expr o) (snd o).

  Lemma inv_register : forall e o st, inv st -> res_ok e o -> inv (register e o st).
  Proof.
    intros e o st (A & B & C) H. unfold inv, register. simpl. split; [|split; assumption].
    constructor; assumption.
  Qed.

  Lemma inv_add_cache : forall e c st, inv st -> centry_ok (e, c) -> inv (add_cache e c st).
  Proof.
    intros e c st (A & B & C) H. unfold inv, add_cache. simpl. split; [assumption|]. split; [|assumption].
    constructor; assumption.
  Qed.

  Lemma inv_add_call : forall c st, inv st -> (forall r, In r (c_rows c) -> row_complete W r) -> inv (add_call c st).
  Proof.
    intros c st (A & B & C) H. unfold add_call. destruct (has_call (c_key c) (s_calls st)).
    - exact (conj A (conj B C)).
    - unfold inv. simpl. split; [assumption|]. split; [assumption|].
      intros c' Hc r Hr. simpl in Hc. apply in_app_iff in Hc. destruct Hc as [Hc|[Hc|[]]].
      + exact (C c' Hc r Hr).
      + subst. auto.
  Qed.

  Lemma dup_task_ok : forall e o, res_ok e o -> res_ok e (dup_task o).
  Proof.
    intros e [r u] [A B]. unfold dup_task, res_ok in *. simpl in *. split; auto.
    intros H. rewrite H. auto.
  Qed.

  Lemma dup_sched_ok : forall e o, res_ok e o -> res_ok e (dup_sched fixed o).
  Proof.
    intros e [r u] [A B]. unfold dup_sched, res_ok in *. simpl in *. split; auto.
    intros H. rewrite H. auto.
  Qed.

  Lemma pend_lookup : forall st e o, inv st -> lookup e (s_pend st) = Some o -> res_ok e o.
  Proof.
    intros st e o (A & _) H. apply lookup_In in H.
    rewrite Forall_forall in A. exact (A _ H).
  Qed.

  (* -------------------------------------------------------------- rows written by a call *)
  Lemma kw_of_xargs_assoc : forall os vs k e u v,
    map labres os = map (fun kv => (fst kv, Ok (snd kv))) vs ->
    Forall out_ok os ->
    assoc k (kw_of (xargs_of os)) = Some (e, u) ->
    assoc k (kw_of vs) = Some v ->
    sem W e = Ok v /\ incl (prod W e) u.
  Proof.
    induction os as [|o os IH]; intros vs k e u v HM HF HX HV.
    - simpl in HX. discriminate.
    - destruct vs as [|[l w] vs]; [discriminate|].
      destruct o as [[lab ex] [r uu]].
      change (map labres ((lab, ex, (r, uu)) :: os)) with ((lab, r) :: map labres os) in HM.
      simpl in HM. inversion HM as [[HL HR HT]]. clear HM. subst lab r.
      inversion HF as [|? ? Ho HF']; subst.
      change (kw_of (xargs_of ((l, ex, (Ok w, uu)) :: os)))
        with (match l with Some kk => [(kk, (ex, uu))] | None => [] end ++ kw_of (xargs_of os)) in HX.
      change (kw_of ((l, w) :: vs)) with (match l with Some kk => [(kk, w)] | None => [] end ++ kw_of vs) in HV.
      destruct l as [kk|].
      + simpl in HX, HV. destruct (String.eqb k kk).
        * inversion HX; subst. inversion HV; subst.
          destruct Ho as [A B]. unfold out_expr in *. simpl in *. split; [congruence|]. apply B. reflexivity.
        * exact (IH vs k e u v HT HF' HX HV).
      + simpl in HX, HV. exact (IH vs k e u v HT HF' HX HV).
  Qed.

  Lemma pos_rows_complete : forall os vs i r,
    map labres os = map (fun kv => (fst kv, Ok (snd kv))) vs ->
    Forall out_ok os ->
    In r (pos_rows i (pos_of (xargs_of os)) (pos_of vs)) -> row_complete W r.
  Proof.
    induction os as [|o os IH]; intros vs i r HM HF HI.
    - simpl in HI. tauto.
    - destruct vs as [|[l w] vs]; [discriminate|].
      destruct o as [[lab ex] [rr uu]].
      change (map labres ((lab, ex, (rr, uu)) :: os)) with ((lab, rr) :: map labres os) in HM.
      simpl in HM. inversion HM as [[HL HR HT]]. clear HM. subst lab rr.
      inversion HF as [|? ? Ho HF']; subst.
      change (pos_of (xargs_of ((l, ex, (Ok w, uu)) :: os)))
        with (match l with None => [(ex, uu)] | Some _ => [] end ++ pos_of (xargs_of os)) in HI.
      change (pos_of ((l, w) :: vs)) with (match l with None => [w] | Some _ => [] end ++ pos_of vs) in HI.
      destruct l as [kk|]; simpl in HI.
      + exact (IH vs i r HT HF' HI).
      + destruct HI as [HI|HI].
        * subst. destruct Ho as [A B]. unfold out_expr in *. simpl in *.
          unfold row_complete. simpl. split; [congruence|]. apply B. reflexivity.
        * exact (IH vs (S i) r HT HF' HI).
  Qed.

  Lemma assoc_app_skip : forall A k (a b : list (string * A)),
    ~ In k (keys a) -> assoc k (a ++ b) = assoc k b.
  Proof.
    induction a as [|[j x] a IH]; simpl; intros b H; [reflexivity|].
    destruct (String.eqb k j) eqn:E.
    - apply String.eqb_eq in E. subst. exfalso. apply H. auto.
    - apply IH. intros HI. apply H. auto.
  Qed.

  Lemma keys_kw_of_xargs : forall os vs,
    map labres os = map (fun kv => (fst kv, Ok (snd kv))) vs ->
    keys (kw_of (xargs_of os)) = keys (kw_of vs).
  Proof.
    induction os as [|o os IH]; intros vs HM; destruct vs as [|[l w] vs]; try discriminate; [reflexivity|].
    destruct o as [[lab ex] [rr uu]].
    change (map labres ((lab, ex, (rr, uu)) :: os)) with ((lab, rr) :: map labres os) in HM.
    simpl in HM. inversion HM as [[HL HR HT]]. subst lab rr.
    change (kw_of (xargs_of ((l, ex, (Ok w, uu)) :: os)))
      with (match l with Some kk => [(kk, (ex, uu))] | None => [] end ++ kw_of (xargs_of os)).
    change (kw_of ((l, w) :: vs)) with (match l with Some kk => [(kk, w)] | None => [] end ++ kw_of vs).
    pose proof (IH vs HT) as IH'. unfold keys in *.
    destruct l; simpl; [f_equal|]; exact IH'.
  Qed.

  Lemma call_rows_complete : forall t os vs r,
    collect (map labres os) = inl vs ->
    Forall out_ok os ->
    In r (record_args (pos_of (xargs_of os)) (kw_of (xargs_of os)) (pos_of vs) (eval_kwargs W t vs)) ->
    row_complete W r.
  Proof.
    intros t os vs r HC HF HI.
    apply collect_inl_all in HC.
    rewrite record_args_eq in HI. rewrite !in_app_iff in HI. destruct HI as [HI|[HI|HI]].
    - eapply pos_rows_complete; eauto.
    - apply in_flat_map in HI. destruct HI as (k & _ & HI). unfold kw_row in HI.
      destruct (assoc k (kw_of (xargs_of os))) as [[e u]|] eqn:EX; [|simpl in HI; tauto].
      destruct (assoc k (eval_kwargs W t vs)) as [v|] eqn:EV; [|simpl in HI; tauto].
      destruct HI as [HI|[]]. subst r.
      unfold eval_kwargs in EV. rewrite assoc_app_skip in EV.
      + destruct (kw_of_xargs_assoc os vs k e u v HC HF EX EV) as [A B].
        unfold row_complete. simpl. auto.
      + intros HK. unfold keys in HK. apply in_map_iff in HK. destruct HK as ([k' v'] & Hk & HK). simpl in Hk. subst k'.
        apply filter_In in HK. destruct HK as [_ HK]. simpl in HK.
        apply negb_true_iff in HK. apply mem_false in HK. apply HK.
        change (In k (keys (kw_of vs))). rewrite <- (keys_kw_of_xargs os vs HC).
        apply assoc_In in EX. unfold keys. apply in_map_iff. exists (k, (e, u)). auto.
    - apply in_flat_map in HI. destruct HI as (kv & _ & HI). unfold def_row in HI.
      destruct (mem (fst kv) (keys (kw_of (xargs_of os)))); simpl in HI; [tauto|].
      destruct HI as [HI|[]]. subst r. unfold row_complete. simpl. split; [reflexivity|]. intros x [].
  Qed.

  Lemma exec_call_ok : forall t os vs st o st',
    inv st -> collect (map labres os) = inl vs -> Forall out_ok os ->
    exec_call W t (xargs_of os) vs st = (o, st') ->
    inv st' /\ o = (call_res W t vs, [call_key W t vs]).
  Proof.
    intros t os vs st o st' HI HC HF HE. unfold exec_call in HE. inversion HE; subst. clear HE.
    split; [|reflexivity].
    apply inv_add_call; [exact HI|]. simpl. intros r Hr. eapply call_rows_complete; eauto.
  Qed.

  (* -------------------------------------------------------------- recover *)
  Lemma sem_recover : forall r err, sem W (recover_expr r err) = call_res W r [(None, err)].
  Proof. reflexivity. Qed.

  Lemma prod_recover : forall r err, prod W (recover_expr r err) = [call_key W r [(None, err)]].
  Proof. reflexivity. Qed.

  Lemma recover_ok : forall r err u st o st',
    inv st -> eval_recover W r err u st = (o, st') ->
    inv st' /\ res_ok (recover_expr r err) o.
  Proof.
    intros r err u st o st' HI HE. unfold eval_recover in HE.
    destruct (lookup (recover_expr r err) (s_pend st)) as [o0|] eqn:EL.
    - inversion HE; subst. split; [exact HI|]. apply dup_task_ok. eapply pend_lookup; eauto.
    - destruct (exec_call W r [(None, (EConst err, u))] [(None, err)] st) as [o1 st1] eqn:EC.
      inversion HE; subst. clear HE.
      assert (HX : [(None, (EConst err, u))] = xargs_of [(None, EConst err, (Ok err, u))]) by reflexivity.
      rewrite HX in EC.
      destruct (exec_call_ok r [(None, EConst err, (Ok err, u))] [(None, err)] st o st1 HI) as [HI1 Ho]; auto.
      + constructor; [|constructor]. unfold out_ok, res_ok, out_expr. simpl. split; [reflexivity|]. intros _ x [].
      + assert (R : res_ok (recover_expr r err) o).
        { subst o. unfold res_ok. simpl fst. simpl snd. rewrite sem_recover, prod_recover. split; [reflexivity|].
          intros _. apply incl_refl. }
        split; [|exact R]. apply inv_register; assumption.
  Qed.

  (* -------------------------------------------------------------- lists of arguments *)
  Fixpoint elems (es : exprs) : Prop :=
    match es with
    | XNil => True
    | XCons _ e r => P e /\ elems r
    end.

  Lemma args_ok : forall es, elems es -> forall st os st',
    inv st -> eval_args W fixed es st = (os, st') ->
    inv st' /\ map labres os = sems W es /\ Forall out_ok os
    /\ (forall vs, collect (sems W es) = inl vs -> incl (prods W es) (all_ups os)).
  Proof.
    induction es as [|k e r IH]; intros HE st os st' HI HV.
    - change (eval_args W fixed XNil st) with (@nil out, st) in HV. inversion HV; subst.
      split4; [exact HI|reflexivity|constructor|]. intros vs _ x [].
    - destruct HE as [Pe Er]. rewrite eval_args_cons in HV.
      destruct (eval W fixed e st) as [o st1] eqn:E1.
      destruct (eval_args W fixed r st1) as [os' st2] eqn:E2.
      inversion HV; subst. clear HV.
      destruct (Pe st o st1 HI E1) as [HI1 [A B]].
      destruct (IH Er st1 os' st' HI1 E2) as (HI2 & HM & HF & HP).
      rewrite sems_cons, prods_cons.
      split4; [exact HI2| | |].
      + change (map labres ((k, e, o) :: os')) with ((k, fst o) :: map labres os').
        rewrite A, HM. reflexivity.
      + constructor; [|exact HF]. unfold out_ok, out_expr. simpl. split; assumption.
      + intros vs HC. simpl in HC. destruct (sem W e) as [v|err] eqn:ES; [|discriminate].
        destruct (collect (sems W r)) as [vs'|err] eqn:EC; [|discriminate].
        change (all_ups ((k, e, o) :: os')) with (snd o ++ all_ups os').
        apply incl_app.
        * apply incl_appl. apply B. rewrite A. reflexivity.
        * apply incl_appr. exact (HP vs' eq_refl).
  Qed.

  Lemma seq_ok : forall es, elems es -> forall st os st',
    inv st -> eval_seq W fixed es st = (os, st') ->
    inv st' /\ collect (map labres os) = collect (sems W es)
    /\ (forall vs, collect (sems W es) = inl vs -> incl (prods W es) (all_ups os)).
  Proof.
    induction es as [|k e r IH]; intros HE st os st' HI HV.
    - change (eval_seq W fixed XNil st) with (@nil out, st) in HV. inversion HV; subst.
      split3; [exact HI|reflexivity|]. intros vs _ x [].
    - destruct HE as [Pe Er]. rewrite eval_seq_cons in HV.
      destruct (eval W fixed e st) as [o st1] eqn:E1.
      destruct (Pe st o st1 HI E1) as [HI1 [A B]].
      rewrite sems_cons, prods_cons.
      destruct (is_ok (fst o)) eqn:EO.
      + destruct (eval_seq W fixed r st1) as [os' st2] eqn:E2.
        inversion HV; subst. clear HV.
        destruct (IH Er st1 os' st' HI1 E2) as (HI2 & HM & HP).
        split3; [exact HI2| |].
        * change (map labres ((k, e, o) :: os')) with ((k, fst o) :: map labres os').
          rewrite A. simpl. destruct (sem W e); [|reflexivity]. rewrite HM. reflexivity.
        * intros vs HC. simpl in HC. destruct (sem W e) as [v|err] eqn:ES; [|discriminate].
          destruct (collect (sems W r)) as [vs'|err] eqn:EC; [|discriminate].
          change (all_ups ((k, e, o) :: os')) with (snd o ++ all_ups os').
          apply incl_app.
          -- apply incl_appl. apply B. reflexivity.
          -- apply incl_appr. exact (HP vs' eq_refl).
      + inversion HV; subst. clear HV. split3; [exact HI1| |].
        * change (map labres [(k, e, o)]) with [(k, fst o)].
          rewrite A. rewrite A in EO. simpl. destruct (sem W e); [discriminate|reflexivity].
        * intros vs HC. simpl in HC. rewrite A in EO. destruct (sem W e); [discriminate|discriminate].
  Qed.

  Fixpoint xlen (es : exprs) : nat := match es with XNil => 0 | XCons _ _ r => S (xlen r) end.

  Lemma cond_ok : forall n es, xlen es <= n -> elems es -> forall st o st',
    inv st -> eval_cond W fixed es st = (o, st') ->
    inv st' /\ fst o = sem_cond W es /\ (is_ok (fst o) = true -> incl (prod_cond W es) (snd o)).
  Proof.
    induction n as [|n IH]; intros es HL HE st o st' HI HV.
    - destruct es; [|simpl in HL; lia]. rewrite eval_cond_short in HV by auto. inversion HV; subst.
      split3; [exact HI|reflexivity|discriminate].
    - destruct es as [|k c [|k2 t rest]].
      + rewrite eval_cond_short in HV by auto. inversion HV; subst.
        split3; [exact HI|reflexivity|discriminate].
      + rewrite eval_cond_short in HV by eauto. inversion HV; subst.
        split3; [exact HI|reflexivity|discriminate].
      + destruct HE as [Pc [Pt Er]]. rewrite eval_cond_cons2 in HV.
        destruct (eval W fixed c st) as [[rc uc] st1] eqn:E1.
        destruct (Pc st _ st1 HI E1) as [HI1 [A B]]. simpl in A, B.
        rewrite sem_cond_cons2, prod_cond_cons2. rewrite <- A.
        destruct rc as [vc|err].
        * destruct (w_truthy W vc) eqn:ET.
          -- destruct (eval W fixed t st1) as [[rt ut] st2] eqn:E2. inversion HV; subst. clear HV.
             destruct (Pt st1 _ st' HI1 E2) as [HI2 [C D]]. simpl in C, D. simpl fst. simpl snd.
             split3; [exact HI2|exact C|]. intros H. apply incl_appr. auto.
          -- destruct rest as [|k3 e' [|k4 e4 rest']].
             ++ inversion HV; subst. split3; [exact HI1|reflexivity|discriminate].
             ++ destruct Er as [Pe' _].
                destruct (eval W fixed e' st1) as [[re ue] st2] eqn:E2. inversion HV; subst. clear HV.
                destruct (Pe' st1 _ st' HI1 E2) as [HI2 [C D]]. simpl in C, D. simpl fst. simpl snd.
                split3; [exact HI2|exact C|]. intros H. apply incl_appr. auto.
             ++ destruct (eval_cond W fixed (XCons k3 e' (XCons k4 e4 rest')) st1) as [[rr ur] st2] eqn:E2.
                inversion HV; subst. clear HV.
                assert (HL' : xlen (XCons k3 e' (XCons k4 e4 rest')) <= n) by (simpl in *; lia).
                destruct (IH (XCons k3 e' (XCons k4 e4 rest')) HL' Er st1 _ st' HI1 E2)
                  as (HI2 & C & D). simpl fst in C, D. simpl snd in D. simpl fst. simpl snd.
                split3; [exact HI2|exact C|]. intros H. apply incl_appr. auto.
        * inversion HV; subst. split3; [exact HI1|reflexivity|discriminate].
  Qed.

  (* -------------------------------------------------------------- the main induction *)
  Lemma cache_lookup : forall st e c, inv st -> lookup e (s_cache st) = Some c -> centry_ok (e, c).
  Proof.
    intros st e c (_ & B & _) H. apply lookup_In in H. rewrite Forall_forall in B. exact (B _ H).
  Qed.

  Lemma eval_P : (forall e, P e) /\ (forall es, elems es).
  Proof.
    apply expr_exprs_ind.
    - (* EConst *) intros v st o st' HI HV.
      change (eval W fixed (EConst v) st) with ((Ok v, @nil ckey), st) in HV. inversion HV; subst.
      split; [exact HI|]. sp. split; [reflexivity|]. intros _ x [].
    - (* ECont *) intros items HE st o st' HI HV.
      change (eval W fixed (ECont items) st) with
        (let '(os, st1) := eval_args W fixed items st in
         ((match collect (map labres os) with inl vs => Ok (mk_container vs) | inr err => Raise err end,
           all_ups os), st1)) in HV.
      destruct (eval_args W fixed items st) as [os st1] eqn:E1. inversion HV; subst. clear HV.
      destruct (args_ok items HE st os st' HI E1) as (HI1 & HM & HF & HP).
      split; [exact HI1|]. sp. rewrite HM. split; [reflexivity|].
      destruct (collect (sems W items)) as [vs|err] eqn:EC; [|discriminate]. intros _. exact (HP vs eq_refl).
    - (* ETask *) intros t args HE st o st' HI HV.
      change (eval W fixed (ETask t args) st) with
        (match lookup (ETask t args) (s_pend st) with
         | Some o => (dup_task o, st)
         | None =>
             let '(os, st1) := eval_args W fixed args st in
             let '(o, st2) :=
               match collect (map labres os) with
               | inl vs => exec_call W t (xargs_of os) vs st1
               | inr err => ((Raise err, []), st1)
               end in
             (o, register (ETask t args) o st2)
         end) in HV.
      destruct (lookup (ETask t args) (s_pend st)) as [o0|] eqn:EL.
      + inversion HV; subst. split; [exact HI|]. apply dup_task_ok. eapply pend_lookup; eauto.
      + destruct (eval_args W fixed args st) as [os st1] eqn:E1.
        destruct (args_ok args HE st os st1 HI E1) as (HI1 & HM & HF & HP).
        destruct (collect (map labres os)) as [vs|err] eqn:EC.
        * destruct (exec_call W t (xargs_of os) vs st1) as [o1 st2] eqn:E2.
          inversion HV; subst. clear HV.
          destruct (exec_call_ok t os vs st1 o st2 HI1 EC HF E2) as [HI2 Ho].
          assert (R : res_ok (ETask t args) o).
          { subst o. sp. rewrite <- HM, EC. split; [reflexivity|]. intros _. apply incl_refl. }
          split; [|exact R]. apply inv_register; assumption.
        * inversion HV; subst. clear HV.
          assert (R : res_ok (ETask t args) (Raise err, [])).
          { sp. rewrite <- HM, EC. split; [reflexivity|]. discriminate. }
          split; [|exact R]. apply inv_register; assumption.
    - (* ESimple *) intros op args HE st o st' HI HV.
      change (eval W fixed (ESimple op args) st) with
        (match lookup (ESimple op args) (s_pend st) with
         | Some o => (dup_task o, st)
         | None =>
             let '(os, st1) := eval_args W fixed args st in
             let o := (match collect (map labres os) with
                       | inl vs => w_op W op (map snd vs)
                       | inr err => Raise err
                       end, all_ups os) in
             (o, register (ESimple op args) o st1)
         end) in HV.
      destruct (lookup (ESimple op args) (s_pend st)) as [o0|] eqn:EL.
      + inversion HV; subst. split; [exact HI|]. apply dup_task_ok. eapply pend_lookup; eauto.
      + destruct (eval_args W fixed args st) as [os st1] eqn:E1.
        destruct (args_ok args HE st os st1 HI E1) as (HI1 & HM & HF & HP).
        inversion HV; subst. clear HV.
        match goal with |- _ /\ res_ok _ ?oo => assert (R : res_ok (ESimple op args) oo) end.
        { sp. rewrite HM. split; [reflexivity|].
          destruct (collect (sems W args)) as [vs|err] eqn:EC; [|discriminate]. intros _. exact (HP vs eq_refl). }
        split; [|exact R]. apply inv_register; assumption.
    - (* ECond *) intros args HE st o st' HI HV.
      change (eval W fixed (ECond args) st) with
        (match lookup (ECond args) (s_pend st) with
         | Some o => (dup_sched fixed o, st)
         | None =>
             let '((r0, u0), st1) := eval_cond W fixed args st in
             let o := (r0, u0) in
             (o, register (ECond args) o st1)
         end) in HV.
      destruct (lookup (ECond args) (s_pend st)) as [o0|] eqn:EL.
      + inversion HV; subst. split; [exact HI|]. apply dup_sched_ok. eapply pend_lookup; eauto.
      + destruct (eval_cond W fixed args st) as [[r0 u0] st1] eqn:E1. inversion HV; subst. clear HV.
        destruct (cond_ok (xlen args) args (le_n _) HE st (r0, u0) st1 HI E1) as (HI1 & A & B).
        assert (R : res_ok (ECond args) (r0, u0)) by (unfold res_ok; simpl; auto).
        split; [|exact R]. apply inv_register; assumption.
    - (* ESeq *) intros items HE st o st' HI HV.
      change (eval W fixed (ESeq items) st) with
        (match lookup (ESeq items) (s_pend st) with
         | Some o => (dup_sched fixed o, st)
         | None =>
             let '(os, st1) := eval_seq W fixed items st in
             let o := (match collect (map labres os) with inl vs => Ok (mk_list vs) | inr err => Raise err end,
                       all_ups os) in
             (o, register (ESeq items) o st1)
         end) in HV.
      destruct (lookup (ESeq items) (s_pend st)) as [o0|] eqn:EL.
      + inversion HV; subst. split; [exact HI|]. apply dup_sched_ok. eapply pend_lookup; eauto.
      + destruct (eval_seq W fixed items st) as [os st1] eqn:E1. inversion HV; subst. clear HV.
        destruct (seq_ok items HE st os st1 HI E1) as (HI1 & HM & HP).
        match goal with |- _ /\ res_ok _ ?oo => assert (R : res_ok (ESeq items) oo) end.
        { sp. rewrite HM. split; [reflexivity|].
          destruct (collect (sems W items)) as [vs|err] eqn:EC; [|discriminate]. intros _. exact (HP vs eq_refl). }
        split; [|exact R]. apply inv_register; assumption.
    - (* ECatch *) intros e0 Pe0 cls r st o st' HI HV.
      change (eval W fixed (ECatch e0 cls r) st) with
        (match lookup (ECatch e0 cls r) (s_pend st) with
         | Some o => (dup_sched fixed o, st)
         | None =>
             let '(o, st') :=
               match lookup (ECatch e0 cls r) (s_cache st) with
               | None =>
                   let '((re, ue), st1) := eval W fixed e0 st in
                   match re with
                   | Ok v => ((Ok v, ue), add_cache (ECatch e0 cls r) CSucc st1)
                   | Raise err =>
                       if w_matches W cls err then
                         let '(o, st2) := eval_recover W r err ue st1 in
                         (o, if is_ok (fst o) then add_cache (ECatch e0 cls r) (CRec err) st2 else st2)
                       else ((Raise err, ue), st1)
                   end
               | Some CSucc =>
                   let '((re, ue), st1) := eval W fixed e0 st in
                   let ud := if v_derive_cached fixed then ue else [] in
                   match re with
                   | Ok v => ((Ok v, ud), st1)
                   | Raise err =>
                       if w_matches W cls err then
                         let '(o, st2) := eval_recover W r err ud st1 in
                         (o, if is_ok (fst o) then add_cache (ECatch e0 cls r) (CRec err) st2 else st2)
                       else ((Raise err, ud), st1)
                   end
               | Some (CRec err) =>
                   let '(o, st1) := eval_recover W r err [] st in
                   ((fst o, if v_derive_cached fixed then snd o else []), st1)
               end in
             (o, register (ECatch e0 cls r) o st')
         end) in HV.
      destruct (lookup (ECatch e0 cls r) (s_pend st)) as [o0|] eqn:EL.
      + inversion HV; subst. split; [exact HI|]. apply dup_sched_ok. eapply pend_lookup; eauto.
      + (* common tail: the outcome is ok for the catch expression *)
        assert (TAIL : forall o1 st1, inv st1 -> res_ok (ECatch e0 cls r) o1 ->
                  (o1, register (ECatch e0 cls r) o1 st1) = (o, st') -> inv st' /\ res_ok (ECatch e0 cls r) o).
        { intros o1 st1 H1 R1 HE. inversion HE; subst. split; [apply inv_register; assumption|assumption]. }
        (* recovering from [err] with any argument upstreams *)
        assert (REC : forall err u st1 o1 st2, inv st1 -> sem W e0 = Raise err -> w_matches W cls err = true ->
                  eval_recover W r err u st1 = (o1, st2) ->
                  inv (if is_ok (fst o1) then add_cache (ECatch e0 cls r) (CRec err) st2 else st2)
                  /\ res_ok (ECatch e0 cls r) o1).
        { intros err u st1 o1 st2 H1 HS HMt HR.
          destruct (recover_ok r err u st1 o1 st2 H1 HR) as [H2 [A B]].
          rewrite sem_recover in A. rewrite prod_recover in B.
          split.
          - destruct (is_ok (fst o1)) eqn:EO; [|exact H2].
            apply inv_add_cache; [exact H2|]. unfold centry_ok. simpl. rewrite <- A. auto.
          - sp. rewrite HS, HMt. split; assumption. }
        destruct (lookup (ECatch e0 cls r) (s_cache st)) as [[|cerr]|] eqn:EC.
        * (* replay of the cached main expression *)
          destruct (eval W fixed e0 st) as [[re ue] st1] eqn:E1.
          destruct (Pe0 st _ st1 HI E1) as [HI1 [A B]]. simpl in A, B. simpl v_derive_cached in HV. cbv iota zeta in HV.
          destruct re as [v|err].
          -- eapply TAIL; [exact HI1| |exact HV]. sp. rewrite <- A. split; [reflexivity|]. exact B.
          -- destruct (w_matches W cls err) eqn:EM.
             ++ destruct (eval_recover W r err ue st1) as [o1 st2] eqn:ER.
                destruct (REC err ue st1 o1 st2 HI1 (eq_sym A) EM ER) as [H2 R2].
                eapply TAIL; [exact H2|exact R2|exact HV].
             ++ eapply TAIL; [exact HI1| |exact HV]. sp. rewrite <- A, EM. split; [reflexivity|discriminate].
        * (* replay of the cached recover expression *)
          pose proof (cache_lookup st _ _ HI EC) as CK. unfold centry_ok in CK. simpl in CK.
          destruct CK as (HS & HMt & HOK).
          destruct (eval_recover W r cerr [] st) as [o1 st1] eqn:ER.
          destruct (recover_ok r cerr [] st o1 st1 HI ER) as [H2 [A B]].
          rewrite sem_recover in A. rewrite prod_recover in B.
          simpl v_derive_cached in HV. cbv iota zeta in HV.
          eapply TAIL; [exact H2| |exact HV].
          sp. rewrite HS, HMt. split; assumption.
        * (* not cached *)
          destruct (eval W fixed e0 st) as [[re ue] st1] eqn:E1.
          destruct (Pe0 st _ st1 HI E1) as [HI1 [A B]]. simpl in A, B.
          destruct re as [v|err].
          -- eapply TAIL; [| |exact HV].
             ++ apply inv_add_cache; [exact HI1|]. unfold centry_ok. simpl. rewrite <- A. reflexivity.
             ++ sp. rewrite <- A. split; [reflexivity|]. exact B.
          -- destruct (w_matches W cls err) eqn:EM.
             ++ destruct (eval_recover W r err ue st1) as [o1 st2] eqn:ER.
                destruct (REC err ue st1 o1 st2 HI1 (eq_sym A) EM ER) as [H2 R2].
                eapply TAIL; [exact H2|exact R2|exact HV].
             ++ eapply TAIL; [exact HI1| |exact HV]. sp. rewrite <- A, EM. split; [reflexivity|discriminate].
    - (* XNil *) exact I.
    - (* XCons *) intros k e Pe r Er. simpl. auto.
  Qed.

  Lemma inv_empty : inv empty_state.
  Proof. unfold inv, empty_state, rows_complete. simpl. split3; [constructor|constructor|intros c []]. Qed.

  Lemma inv_fresh_pend : forall st, inv st ->
    inv {| s_pend := []; s_cache := s_cache st; s_calls := s_calls st |}.
  Proof. intros st (A & B & C). unfold inv. simpl. exact (conj (Forall_nil _) (conj B C)). Qed.

  Lemma run_prog_inv : forall e st, inv st -> inv (snd (run_prog W fixed e st)) /\ fst (fst (run_prog W fixed e st)) = sem W e.
  Proof.
    intros e st HI. unfold run_prog.
    destruct (eval W fixed e {| s_pend := []; s_cache := s_cache st; s_calls := s_calls st |}) as [o st'] eqn:E.
    destruct (proj1 eval_P e _ o st' (inv_fresh_pend st HI) E) as [H [A _]]. simpl. auto.
  Qed.

  Lemma run_all_inv : forall ps st, inv st -> inv (run_all W fixed ps st).
  Proof.
    induction ps as [|p ps IH]; simpl; intros st HI; [exact HI|].
    apply IH. apply run_prog_inv. exact HI.
  Qed.

  (** Every history of runs on one backend, starting from the empty backend. *)
  Theorem complete_fixed : forall ps, rows_complete W (run_all W fixed ps empty_state).
  Proof. intros ps. exact (proj2 (proj2 (run_all_inv ps empty_state inv_empty))). Qed.

  Theorem results_fixed : forall ps st, inv st -> results W fixed ps st = map (sem W) ps.
  Proof.
    induction ps as [|p ps IH]; simpl; intros st HI; [reflexivity|].
    destruct (run_prog W fixed p st) as [o st1] eqn:E.
    pose proof (run_prog_inv p st HI) as [H A]. rewrite E in H, A. simpl in H, A.
    rewrite A, (IH st1 H). reflexivity.
  Qed.
End Inv.
