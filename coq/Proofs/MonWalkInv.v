(** C10 — the monitor's status collection: exactly-once over a snapshot, lost statuses over the live map. *)
From Coq Require Import List Bool Arith.
From RV Require Import Model.MonWalk.
Import ListNotations.
Open Scope list_scope.

Inductive wreach (v : walk_source) (s0 : wst) : wst -> Prop :=
| wreach_refl : wreach v s0 s0
| wreach_step : forall s a s', wreach v s0 s -> wstep v s a = Some s' -> wreach v s0 s'.

Lemma wrun_wreach : forall v sch s0 s, wrun v s0 sch = Some s -> forall s00, wreach v s00 s0 -> wreach v s00 s.
Proof.
  induction sch; simpl; intros s0 s H s00 R.
  - injection H as <-. exact R.
  - destruct (wstep v s0 a) eqn:E; [|discriminate]. eapply IHsch; eauto. eapply wreach_step; eauto.
Qed.

Record WInv (js : list nat) (s : wst) : Prop := {
  W_err : w_err s = false;
  W_fifo : w_reported s ++ w_pending s ++ w_todo s = js;
  W_snap : forall rem acc, w_pc s = WSnap rem acc -> exists ex, w_pending s = acc ++ rem ++ ex;
  W_proc : forall l, w_pc s = WProcess l -> exists ex, w_pending s = l ++ ex;
  W_nolive : forall i n acc, w_pc s <> WLive i n acc;
  W_dead : w_pc s = WDead -> w_pending s = [] /\ w_todo s = []
}.

Lemma winv_init : forall js, WInv js (winit js).
Proof. intros js. constructor; simpl; auto; try discriminate. Qed.

Lemma winv_step : forall js s a s', WInv js s -> wstep Snapshot s a = Some s' -> WInv js s'.
Proof.
  intros js s a s' [I1 I2 I3 I4 I5 I6] H. destruct a; simpl in H.
  - destruct (w_todo s) as [|j r] eqn:Et; [discriminate|]. injection H as <-.
    constructor; simpl; auto.
    + rewrite <- I2. rewrite <- !app_assoc. reflexivity.
    + intros rem acc E. destruct (I3 _ _ E) as [ex Hex]. exists (ex ++ [j]). rewrite Hex, <- !app_assoc. reflexivity.
    + intros l E. destruct (I4 _ E) as [ex Hex]. exists (ex ++ [j]). rewrite Hex, <- app_assoc. reflexivity.
    + intros E. destruct (I6 E) as [_ C]. discriminate.
  - destruct (w_pc s) as [|rem acc|i n acc|l|] eqn:Ep.
    + destruct (w_pending s) as [|p ps] eqn:Epd.
      * destruct (w_todo s) eqn:Et; [|discriminate]. injection H as <-.
        constructor; simpl; rewrite ?Epd, ?Et; auto; try discriminate.
      * assert (H' : Some (set_pc s (WSnap (p :: ps) [])) = Some s') by (destruct (w_todo s); exact H).
        injection H' as <-. constructor; simpl; rewrite ?Epd; auto; try discriminate.
        intros rem acc [= <- <-]. exists []. rewrite app_nil_r. reflexivity.
    + destruct (I3 _ _ eq_refl) as [ex Hex]. destruct rem as [|j rem]; injection H as <-.
      * constructor; simpl; auto; try discriminate.
        intros l [= <-]. exists ex. rewrite Hex. reflexivity.
      * constructor; simpl; auto; try discriminate.
        intros rem' acc' [= <- <-]. exists ex. rewrite Hex, <- !app_assoc. reflexivity.
    + exfalso. eapply I5. reflexivity.
    + destruct (I4 _ eq_refl) as [ex Hex]. destruct l as [|j l].
      * injection H as <-. constructor; simpl; auto; try discriminate.
      * assert (Hm : wmem j (w_pending s) = true) by (rewrite Hex; simpl; rewrite Nat.eqb_refl; reflexivity).
        rewrite Hm in H. injection H as <-.
        assert (Hr : wremove j (w_pending s) = l ++ ex) by (rewrite Hex; simpl; rewrite Nat.eqb_refl; reflexivity).
        constructor; simpl; auto; try discriminate.
        -- rewrite Hr. rewrite <- I2, Hex. rewrite <- !app_assoc. reflexivity.
        -- intros l' [= <-]. exists ex. exact Hr.
    + discriminate.
Qed.

Lemma winv_reach : forall js s, wreach Snapshot (winit js) s -> WInv js s.
Proof. induction 1; [apply winv_init|eapply winv_step; eauto]. Qed.

(** Snapshot: no job-less error, nothing reported twice or out of order, and a monitor that has left
    has reported exactly the submitted jobs - for every interleaving of submits with the walk. *)
Lemma snapshot_exactly_once : forall js s, wreach Snapshot (winit js) s ->
  w_err s = false /\ (exists rest, js = w_reported s ++ rest) /\ (w_pc s = WDead -> w_reported s = js).
Proof.
  intros js s R. destruct (winv_reach _ _ R) as [I1 I2 I3 I4 I5 I6].
  split; [exact I1|]. split; [eexists; symmetry; exact I2|].
  intros E. destruct (I6 E) as [Ep Et]. rewrite Ep, Et, !app_nil_r in I2. exact I2.
Qed.

(** ... and it never gets stuck before that. *)
Lemma snapshot_progress : forall js s, wreach Snapshot (winit js) s -> w_pc s <> WDead ->
  exists a s', wstep Snapshot s a = Some s'.
Proof.
  intros js s R Hd. destruct (winv_reach _ _ R) as [I1 I2 I3 I4 I5 I6].
  destruct (w_todo s) as [|j r] eqn:Et.
  - exists WMon. simpl. destruct (w_pc s) as [|rem acc|i n acc|l|] eqn:Ep.
    + rewrite Et. destruct (w_pending s); eauto.
    + destruct rem; eauto.
    + exfalso. eapply I5. reflexivity.
    + destruct (I4 _ eq_refl) as [ex Hex]. destruct l as [|x l]; [eauto|].
      rewrite Hex. simpl. rewrite Nat.eqb_refl. eauto.
    + contradiction Hd; reflexivity.
  - exists WSubmit. simpl. rewrite Et. eauto.
Qed.

(** Live map: a submit during the walk aborts it; the statuses already collected are lost (their
    containers are removed), a job-less error is reported, the monitor is gone and nothing was reported. *)
Definition walk_loses (v : walk_source) : Prop :=
  exists js sch s j, wrun v (winit js) sch = Some s /\ wreach v (winit js) s /\
    (forall a, wstep v s a = None) /\ w_err s = true /\ w_pc s = WDead /\
    In j js /\ In j (w_removed s) /\ In j (w_pending s) /\ ~ In j (w_reported s).

Lemma live_loses : walk_loses Live.
Proof.
  exists [0;1;2], witness_walk. eexists. exists 0.
  split; [vm_compute; reflexivity|].
  split; [eapply (wrun_wreach _ witness_walk (winit [0;1;2])); [vm_compute; reflexivity|apply wreach_refl]|].
  split; [intros [|]; reflexivity|].
  split; [reflexivity|]. split; [reflexivity|].
  split; [simpl; auto|]. split; [vm_compute; auto|]. split; [vm_compute; auto|].
  vm_compute. auto.
Qed.

Lemma snapshot_never_loses : ~ walk_loses Snapshot.
Proof.
  intros (js & sch & s & j & _ & R & _ & E & _). destruct (snapshot_exactly_once js s R) as [E' _]. congruence.
Qed.
