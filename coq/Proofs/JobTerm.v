(** A termination measure for the open job machine (C09): the number of events the scheduler's loop can process is
    bounded by a function of the number of jobs created, under every schedule, completion order and cache content.

    Potential of a state with budget [K]: every job weighs the rank of its phase (7 queued, 6 waiting, 5 collapsed /
    with an executor, 4 completion reported / cache hit queued, 3 being evaluated, 2 evaluated, 0 ended) plus [K] while
    it can still cause one re-examination of the waiting list (before it is executed, and while it holds resources).
    Every processed event lowers the potential by at least 1 as long as [K] is at least the number of jobs: the
    re-examination re-queues at most that many waiting jobs (+1 each) and is paid for by the [K] the triggering job
    gives up.  Creating a job adds [7 + K]; executor completions and evaluation results never raise it. *)
From Coq Require Import List ZArith Bool Arith Lia Permutation.
From RV Require Import Model.JobMachine Proofs.JobBase Proofs.JobRes Proofs.JobRes2 Proofs.JobRes3 Proofs.JobLive
  Proofs.JobLive4 Proofs.JobDup Proofs.JobDup2.
Import ListNotations.
Open Scope list_scope.
Local Open Scope Z_scope.
Local Arguments Z.add _ _ : simpl never.
Local Arguments Z.mul _ _ : simpl never.
Local Arguments Z.sub _ _ : simpl never.
Local Arguments Z.of_nat _ : simpl never.

Definition rank (p : phase) : Z :=
  match p with
  | PQueued => 7 | PWaiting => 6 | PCollapsed _ => 5 | PSubmitted => 5 | PReported => 4 | PCacheQ => 4
  | PEvaluating => 3 | PEvalQ => 2 | PSettled _ => 0 | PDryStop => 0
  end.

Definition tok (x : job) : Z :=
  match jphase x with
  | PQueued | PWaiting => 1
  | _ => if jholds x then 1 else 0
  end.

Definition wt (K : Z) (x : job) : Z := rank (jphase x) + K * tok x.

Fixpoint sumZ (l : list Z) : Z := match l with [] => 0 | a :: r => a + sumZ r end.

Definition phi (K : Z) (s : state) : Z := sumZ (map (wt K) (jobs s)).

Lemma rank_nonneg p : 0 <= rank p.
Proof. destruct p; simpl; lia. Qed.

Lemma tok_range x : 0 <= tok x <= 1.
Proof. unfold tok. destruct (jphase x); destruct (jholds x); lia. Qed.

Lemma wt_nonneg K x : 0 <= K -> 0 <= wt K x.
Proof. intros HK. unfold wt. pose proof (rank_nonneg (jphase x)). pose proof (tok_range x). nia. Qed.

Lemma phi_nonneg K s : 0 <= K -> 0 <= phi K s.
Proof.
  intros HK. unfold phi. induction (jobs s) as [|a l IH]; simpl; [lia|]. pose proof (wt_nonneg K a HK). lia.
Qed.

Lemma sumZ_app l1 l2 : sumZ (l1 ++ l2) = sumZ l1 + sumZ l2.
Proof. induction l1 as [|a l IH]; simpl; lia. Qed.

Lemma sum_set_nth (f : job -> Z) l : forall n x y, nth_error l n = Some x ->
  sumZ (map f (set_nth l n y)) = sumZ (map f l) - f x + f y.
Proof.
  induction l as [|a l IH]; intros [|n] x y H; simpl in *; try discriminate.
  - injection H as ->. lia.
  - rewrite (IH n x y H). lia.
Qed.

Lemma phi_setj K s j x y : getj s j = Some x -> phi K (setj s j y) = phi K s - wt K x + wt K y.
Proof. intros Hx. unfold phi. simpl. apply sum_set_nth. exact Hx. Qed.

Lemma phi_jobs K s' s : jobs s' = jobs s -> phi K s' = phi K s.
Proof. intros E. unfold phi. now rewrite E. Qed.

(** * the waiting list is short *)
Lemma NoDup_lt_length (l : list nat) n : NoDup l -> (forall k, In k l -> (k < n)%nat) -> (length l <= n)%nat.
Proof.
  intros Hn Hb. rewrite <- (seq_length n 0). apply NoDup_incl_length; [exact Hn|].
  intros k Hk. apply in_seq. specialize (Hb k Hk). lia.
Qed.

Lemma waiting_short s : Q s -> (length (waiting s) <= length (jobs s))%nat.
Proof.
  intros HQ. apply NoDup_lt_length; [apply (q_wn _ s HQ)|].
  intros k Hk. destruct (q_wt _ s HQ k Hk) as (x & Hx & _). eapply getj_lt; eauto.
Qed.

Section T.
Variable c : config.
Hypothesis Hfix : release_if_holds (vr c) = true.
Hypothesis Hsafe : pending_owner_safe (vr c) = true.

(** * _check_jobs_pending_limits: +1 for each re-queued job *)
Lemma length_jobs_requeue s k : length (jobs (requeue s k)) = length (jobs s).
Proof. unfold requeue. destruct (getj s k); [simpl; apply length_set_nth|reflexivity]. Qed.

Lemma phi_fold_requeue K l : forall s, NoDup l ->
  (forall k, In k l -> exists x, getj s k = Some x /\ jphase x = PWaiting) ->
  phi K (fold_left requeue l s) = phi K s + Z.of_nat (length l).
Proof.
  induction l as [|a l IH]; intros s Hn Hw; [simpl; lia|].
  inversion Hn as [|? ? Ha Hn']; subst. cbn [fold_left length].
  destruct (Hw a (or_introl eq_refl)) as (x & Hx & P).
  assert (E1 : phi K (requeue s a) = phi K s + 1).
  { unfold requeue. rewrite Hx. rewrite (phi_jobs K _ (setj s a (with_phase x PQueued))) by reflexivity.
    rewrite (phi_setj K s a x _ Hx). unfold wt, tok. simpl. rewrite P. simpl. lia. }
  rewrite IH; [rewrite E1; lia|exact Hn'|].
  intros k Hk. destruct (Hw k (or_intror Hk)) as (z & Hz & Pz). exists z. split; [|exact Pz].
  rewrite getj_requeue_other; [exact Hz|]. intros ->. contradiction.
Qed.

Lemma phi_check_pending K s : Q s ->
  phi K s <= phi K (check_pending_limits c s) <= phi K s + Z.of_nat (length (waiting s)).
Proof.
  intros HQ. unfold check_pending_limits. destruct (split_ready c s (waiting s) []) as [a b] eqn:E.
  destruct (split_ready_spec c s _ _ _ _ E) as (A & B & C). destruct (C (q_wn _ s HQ)) as (Na & Nb & D).
  rewrite phi_fold_requeue; [|exact Na|].
  - rewrite (phi_jobs K (set_waiting s b) s) by reflexivity.
    assert ((length a <= length (waiting s))%nat) by (apply NoDup_incl_length; [exact Na|intros k Hk; apply A; exact Hk]).
    lia.
  - intros k Hk. apply (q_wt _ s HQ k). apply A. exact Hk.
Qed.

Lemma length_jobs_check_pending s : length (jobs (check_pending_limits c s)) = length (jobs s).
Proof.
  unfold check_pending_limits. destruct (split_ready c s (waiting s) []) as [a b].
  assert (G : forall l s0, length (jobs (fold_left requeue l s0)) = length (jobs s0)).
  { induction l as [|x l IH]; intros s0; simpl; [reflexivity|]. rewrite IH. apply length_jobs_requeue. }
  rewrite G. reflexivity.
Qed.

Lemma phi_skip K s : Q s -> phi K (skip_wakeup c s) <= phi K s + Z.of_nat (length (waiting s)).
Proof.
  intros HQ. unfold skip_wakeup. destruct (recheck_on_skip (vr c)); [apply phi_check_pending; exact HQ|lia].
Qed.

(** * release: the job gives up its [K], at most |waiting| jobs gain 1 *)
Lemma phi_maybe_release K s j x : Q s -> getj s j = Some x ->
  jphase x <> PQueued -> jphase x <> PWaiting -> Z.of_nat (length (jobs s)) <= K ->
  phi K (maybe_release c s j) <= phi K s.
Proof.
  intros HQ Hx P1 P2 HK. unfold maybe_release. rewrite Hx, Hfix. destruct (jholds x) eqn:Hh; [|lia].
  set (s1 := set_used (setj s j (bump_release x)) (release (used s) (jlimits x))).
  assert (Q1 : Q s1) by (apply Q_set_used; apply (Q_same_phase s j x (bump_release x)); auto).
  pose proof (phi_check_pending K s1 Q1) as [_ H].
  assert (E : phi K s1 = phi K s - K).
  { unfold s1. rewrite (phi_jobs K _ (setj s j (bump_release x))) by reflexivity. rewrite (phi_setj K s j x _ Hx).
    unfold wt, tok. simpl. rewrite Hh. destruct (jphase x); try congruence; lia. }
  pose proof (waiting_short s HQ) as W. change (waiting s1) with (waiting s) in H. lia.
Qed.

Lemma length_jobs_maybe_release s j : length (jobs (maybe_release c s j)) = length (jobs s).
Proof.
  unfold maybe_release. destruct (getj s j) as [x|]; [|reflexivity].
  destruct (if release_if_holds (vr c) then jholds x else negb (jcached x)); [|reflexivity].
  rewrite length_jobs_check_pending. simpl. apply length_set_nth.
Qed.

(** * settling *)
Lemma phi_settle_one K s t x o : getj s t = Some x -> jphase x <> PQueued -> jphase x <> PWaiting ->
  phi K (settle_one c s t o) = phi K s - rank (jphase x).
Proof.
  intros Hx P1 P2. destruct (settle_one_core c Hsafe s t x o Hx) as (E1 & _).
  rewrite (phi_jobs K _ _ E1). unfold set_pend_enq, enq_opt.
  rewrite (phi_jobs K _ (setj s t (with_phase x (PSettled o)))) by reflexivity.
  rewrite (phi_setj K s t x _ Hx). unfold wt, tok. simpl. destruct (jphase x); try congruence; lia.
Qed.

Lemma phi_notify K s o k y t : getj s k = Some y -> jphase y = PCollapsed t ->
  phi K (notify_sub c o s k) <= phi K s - 1.
Proof.
  intros Hy P. unfold notify_sub. rewrite Hy. destruct o as [v|e].
  - rewrite (phi_jobs K _ (setj s k (mark_cached y (Some v) PCacheQ))) by reflexivity.
    rewrite (phi_setj K s k y _ Hy). unfold wt, tok. simpl. rewrite P. simpl. lia.
  - set (s0 := setj s k (mark_cached y None (jphase y))).
    assert (H0 : getj s0 k = Some (mark_cached y None (jphase y))) by (apply (getj_setj_same _ _ _ _ Hy)).
    rewrite (phi_settle_one K s0 k _ (Ko e) H0); simpl; try (rewrite P; discriminate).
    unfold s0. rewrite (phi_setj K s k y _ Hy). unfold wt, tok. simpl. rewrite P. simpl. lia.
Qed.

Lemma phi_fold_notify K o t L : forall s, NoDup L ->
  (forall k, In k L -> exists y, getj s k = Some y /\ jphase y = PCollapsed t) ->
  phi K (fold_left (notify_sub c o) L s) <= phi K s.
Proof.
  induction L as [|k L IH]; intros s Hn Hc; [simpl; lia|]. inversion Hn as [|? ? Hk Hn']; subst. cbn [fold_left].
  destruct (Hc k (or_introl eq_refl)) as (y & Hy & P).
  pose proof (phi_notify K s o k y t Hy P) as H1.
  assert (H2 : phi K (fold_left (notify_sub c o) L (notify_sub c o s k)) <= phi K (notify_sub c o s k)).
  { apply IH; [exact Hn'|]. intros k' Hk'. destruct (Hc k' (or_intror Hk')) as (z & Hz & Pz). exists z. split; [|exact Pz].
    destruct (notify_other c o s k k') as [G _]; [intros ->; contradiction|]. rewrite G. exact Hz. }
  lia.
Qed.

Lemma phi_settle K s t x o : Q s -> getj s t = Some x ->
  jphase x = PCacheQ \/ jphase x = PReported \/ jphase x = PEvalQ ->
  phi K (settle c s t o) <= phi K s - 2.
Proof.
  intros HQ Hx Hp. unfold settle. rewrite Hx. set (s1 := settle_one c s t o).
  assert (E : phi K s1 = phi K s - rank (jphase x)).
  { apply phi_settle_one; [exact Hx| |]; destruct Hp as [A|[A|A]]; rewrite A; discriminate. }
  assert (Es : subs s1 = subs s) by apply subs_settle_one.
  fold (dups_of s1 t). unfold dups_of at 1. rewrite Es. fold (dups_of s t).
  assert (H : phi K (fold_left (notify_sub c o) (dups_of s t) s1) <= phi K s1).
  { apply (phi_fold_notify K o t); [apply NoDup_dups_of; apply (q_sn _ s HQ)|].
    intros k Hk. apply in_dups_of_inv in Hk.
    destruct (q_sb _ s HQ t k Hk) as (Htk & _ & xt & xk & Hxt & Hxk & _ & _ & D).
    rewrite Hx in Hxt. injection Hxt as <-. exists xk. split.
    - unfold s1. rewrite getj_settle_one_other; [exact Hxk|]. intros E0. apply Htk. symmetry. exact E0.
    - unfold Dstd, dup_ok in D. destruct Hp as [A|[A|A]]; rewrite A in D; exact D. }
  assert (2 <= rank (jphase x)) by (destruct Hp as [A|[A|A]]; rewrite A; simpl; lia).
  lia.
Qed.

Lemma length_jobs_settle_one s t o : length (jobs (settle_one c s t o)) = length (jobs s).
Proof.
  unfold settle_one. destruct (getj s t) as [x|]; [|reflexivity]. unfold finalize.
  match goal with |- context [getj ?S t] => destruct (getj S t) end; simpl; destruct (jprov x); simpl; apply length_set_nth.
Qed.

Lemma length_jobs_notify o s k : length (jobs (notify_sub c o s k)) = length (jobs s).
Proof.
  unfold notify_sub. destruct (getj s k) as [y|]; [|reflexivity]. destruct o as [v|e].
  - simpl. apply length_set_nth.
  - rewrite length_jobs_settle_one. simpl. apply length_set_nth.
Qed.

Lemma length_jobs_settle s t o : length (jobs (settle c s t o)) = length (jobs s).
Proof.
  unfold settle. destruct (getj s t) as [x|]; [|reflexivity].
  assert (G : forall L s0, length (jobs (fold_left (notify_sub c o) L s0)) = length (jobs s0)).
  { induction L as [|k L IH]; intros s0; simpl; [reflexivity|]. rewrite IH. apply length_jobs_notify. }
  rewrite G. apply length_jobs_settle_one.
Qed.

(** * _done_job_main_thread *)
Lemma phi_done_job K s j x : Q s -> getj s j = Some x -> jphase x = PCacheQ \/ jphase x = PReported ->
  Z.of_nat (length (jobs s)) <= K -> phi K (done_job c s j) <= phi K s - 1.
Proof.
  intros HQ Hx Hp HK.
  assert (Hnw : ~ In j (waiting s)).
  { intros H. destruct (q_wt _ s HQ j H) as (z & Hz & P). rewrite Hx in Hz. injection Hz as <-. destruct Hp; congruence. }
  assert (H1 : phi K (maybe_release c s j) <= phi K s).
  { apply (phi_maybe_release K s j x); auto; destruct Hp as [A|A]; rewrite A; discriminate. }
  unfold done_job. set (s1 := maybe_release c s j) in *.
  destruct (getj_maybe_release c s j j x Hx Hnw) as (y & Hy & P1 & _). fold s1 in Hy. rewrite Hy.
  assert (R4 : rank (jphase y) = 4) by (rewrite P1; destruct Hp as [A|A]; rewrite A; reflexivity).
  assert (T : tok (with_phase y PEvalQ) = tok y /\ tok (with_phase y PEvaluating) = tok y).
  { unfold tok. simpl. rewrite P1. destruct Hp as [A|A]; rewrite A; auto. }
  destruct T as [T1 T2].
  destruct (jpreset y).
  - rewrite (phi_jobs K _ (setj s1 j (with_phase y PEvalQ))) by reflexivity. rewrite (phi_setj K s1 j y _ Hy).
    unfold wt. rewrite T1, R4. simpl. lia.
  - rewrite (phi_setj K s1 j y _ Hy). unfold wt. rewrite T2, R4. simpl. lia.
Qed.

(** * _exec_job_main_thread *)
Lemma phi_exec_job K s j x co : Q s -> getj s j = Some x -> jphase x = PQueued -> jholds x = false ->
  Z.of_nat (length (jobs s)) <= K -> phi K (exec_job c s j co) <= phi K s - 1.
Proof.
  intros HQ Hx P Hh HK. pose proof (waiting_short s HQ) as W.
  assert (W0 : wt K x = 7 + K) by (unfold wt, tok; rewrite P; simpl; lia).
  unfold exec_job. rewrite Hx.
  destruct (if jnocse x then None else lookup_pending s (jkey x, jctx x)) as [t|].
  { unfold skip_wakeup. set (s1 := add_sub (setj s j (with_phase x (PCollapsed t))) t j).
    assert (E1 : phi K s1 = phi K s - 2 - K).
    { rewrite (phi_jobs K s1 (setj s j (with_phase x (PCollapsed t)))) by reflexivity.
      rewrite (phi_setj K s j x _ Hx), W0. unfold wt, tok. simpl. rewrite Hh. lia. }
    destruct (recheck_on_skip (vr c)); [|lia].
    unfold check_pending_limits. change (waiting s1) with (waiting s).
    destruct (split_ready c s1 (waiting s) []) as [a b] eqn:E.
    destruct (split_ready_spec c s1 _ _ _ _ E) as (A & B & C). destruct (C (q_wn _ s HQ)) as (Na & Nb & D).
    assert (Hjw : ~ In j (waiting s)).
    { intros H. destruct (q_wt _ s HQ j H) as (z & Hz & Pz). congruence. }
    rewrite phi_fold_requeue; [|exact Na|].
    - rewrite (phi_jobs K (set_waiting s1 b) s1) by reflexivity.
      assert ((length a <= length (waiting s))%nat) by (apply NoDup_incl_length; [exact Na|intros k Hk; apply A; exact Hk]).
      lia.
    - intros k Hk. pose proof (A k Hk) as Hkw. destruct (q_wt _ s HQ k Hkw) as (z & Hz & Pz). exists z. split; [|exact Pz].
      change (getj (setj s j (with_phase x (PCollapsed t))) k = Some z). rewrite getj_setj_other; [exact Hz|].
      intros ->. contradiction. }
  assert (KS : forall y e, rank (jphase y) = 4 -> tok y = 0 ->
             phi K (skip_wakeup c (enqueue (setj s j y) e)) <= phi K s - 1).
  { intros y e Ry Ty. set (s1 := enqueue (setj s j y) e).
    assert (E1 : phi K s1 = phi K s - 3 - K).
    { rewrite (phi_jobs K s1 (setj s j y)) by reflexivity. rewrite (phi_setj K s j x _ Hx), W0. unfold wt. rewrite Ry, Ty. lia. }
    unfold skip_wakeup. destruct (recheck_on_skip (vr c)); [|lia].
    unfold check_pending_limits. change (waiting s1) with (waiting s).
    destruct (split_ready c s1 (waiting s) []) as [a b] eqn:E.
    destruct (split_ready_spec c s1 _ _ _ _ E) as (A & B & C). destruct (C (q_wn _ s HQ)) as (Na & Nb & D).
    assert (Hjw : ~ In j (waiting s)).
    { intros H. destruct (q_wt _ s HQ j H) as (z & Hz & Pz). congruence. }
    rewrite phi_fold_requeue; [|exact Na|].
    - rewrite (phi_jobs K (set_waiting s1 b) s1) by reflexivity.
      assert ((length a <= length (waiting s))%nat) by (apply NoDup_incl_length; [exact Na|intros k Hk; apply A; exact Hk]).
      lia.
    - intros k Hk. pose proof (A k Hk) as Hkw. destruct (q_wt _ s HQ k Hkw) as (z & Hz & Pz). exists z. split; [|exact Pz].
      change (getj (setj s j y) k = Some z). rewrite getj_setj_other; [exact Hz|]. intros ->. contradiction. }
  assert (K0 : 0 <= K) by lia.
  match goal with |- phi K (match ?h with _ => _ end) <= _ => destruct h as [[v|e]|] end.
  - apply KS; [reflexivity|unfold tok; simpl; rewrite Hh; reflexivity].
  - apply KS; [reflexivity|unfold tok; simpl; rewrite Hh; reflexivity].
  - destruct (dryrun c).
    + destruct (jbadexec x).
      * rewrite (phi_jobs K _ (setj s j (with_phase x PReported))) by reflexivity.
        rewrite (phi_setj K s j x _ Hx), W0. unfold wt, tok. simpl. rewrite Hh. lia.
      * rewrite (phi_setj K s j x _ Hx), W0. unfold wt, tok. simpl. rewrite Hh. lia.
    + destruct (negb (within c (used s) (jlimits x))).
      * rewrite (phi_jobs K _ (setj s j (with_phase x PWaiting))) by reflexivity.
        rewrite (phi_setj K s j x _ Hx), W0. unfold wt, tok. simpl. lia.
      * destruct (jbadexec x).
        -- rewrite (phi_jobs K _ (setj s j (mark_holds x PReported))) by reflexivity.
           rewrite (phi_setj K s j x _ Hx), W0. unfold wt, tok. simpl. lia.
        -- rewrite (phi_jobs K _ (setj s j (mark_submitted (mark_holds x PSubmitted)))) by reflexivity.
           rewrite (phi_setj K s j x _ Hx), W0. unfold wt, tok. simpl. lia.
Qed.

(** * one step *)
Definition effective (s : state) (o : op) : bool :=
  match o with
  | OPop k j _ => match nth_error (queue s) (find_event (queue s) k j 0) with Some _ => true | None => false end
  | _ => false
  end.

Definition is_new (o : op) : bool := match o with ONew _ _ _ _ _ _ => true | _ => false end.

Lemma length_jobs_step s o : Q s ->
  length (jobs (step c s o)) = (length (jobs s) + (if is_new o then 1 else 0))%nat.
Proof.
  intros HQ. destruct o as [key ctx l nocse prov bad|k j0 co|j ok e|j o]; cbn [step is_new].
  - simpl. rewrite app_length. simpl. lia.
  - set (i := find_event (queue s) k j0 0). destruct (nth_error (queue s) i) as [ev|] eqn:En; [|lia].
    destruct ev as [j|j|j e|j v].
    + unfold exec_job. change (getj (pop_queue s i) j) with (getj s j). destruct (getj s j) as [x|]; [|simpl; lia].
      destruct (if jnocse x then None else lookup_pending (pop_queue s i) (jkey x, jctx x)).
      { unfold skip_wakeup. destruct (recheck_on_skip (vr c)); [rewrite length_jobs_check_pending|]; simpl;
          rewrite length_set_nth; lia. }
      match goal with |- context [match ?h with _ => _ end] => destruct h as [[v|e]|] end.
      * unfold skip_wakeup. destruct (recheck_on_skip (vr c)); [rewrite length_jobs_check_pending|]; simpl;
          rewrite length_set_nth; lia.
      * unfold skip_wakeup. destruct (recheck_on_skip (vr c)); [rewrite length_jobs_check_pending|]; simpl;
          rewrite length_set_nth; lia.
      * destruct (dryrun c); [destruct (jbadexec x); simpl; rewrite length_set_nth; lia|].
        destruct (negb (within c (used (pop_queue s i)) (jlimits x))); [simpl; rewrite length_set_nth; lia|].
        destruct (jbadexec x); simpl; rewrite length_set_nth; lia.
    + unfold done_job. set (s1 := maybe_release c (pop_queue s i) j).
      assert (E : length (jobs s1) = length (jobs s)) by (unfold s1; rewrite length_jobs_maybe_release; reflexivity).
      destruct (getj s1 j) as [y|]; [|lia]. destruct (jpreset y); simpl; rewrite length_set_nth; lia.
    + unfold reject_job. rewrite length_jobs_settle, length_jobs_maybe_release. simpl. lia.
    + unfold resolve_job. rewrite length_jobs_settle. simpl. lia.
  - destruct (phase_is s j _); [|lia]. destruct (getj s j) as [x|]; [|lia]. simpl. rewrite length_set_nth. lia.
  - destruct (phase_is s j _); [|lia]. destruct (getj s j) as [x|]; [|lia]. simpl. rewrite length_set_nth. lia.
Qed.

Lemma phi_step K s o : Q s -> Inv c s -> Z.of_nat (length (jobs s)) <= K ->
  phi K (step c s o) + (if effective s o then 1 else 0) <= phi K s + (if is_new o then 7 + K else 0).
Proof.
  intros HQ HI HK. destruct o as [key ctx l nocse prov bad|k j0 co|j ok e|j o]; cbn [step effective is_new].
  - unfold phi. simpl. rewrite map_app, sumZ_app. simpl. unfold wt, tok. simpl. lia.
  - set (i := find_event (queue s) k j0 0). destruct (nth_error (queue s) i) as [ev|] eqn:En; [|lia].
    destruct (Q_pop s i ev HQ En) as [Qp Hnp]. pose proof (nth_error_In _ _ En) as Hin.
    assert (Ep : phi K (pop_queue s i) = phi K s) by (apply phi_jobs; reflexivity).
    assert (Lp : length (jobs (pop_queue s i)) = length (jobs s)) by reflexivity.
    destruct ev as [j|j|j e|j v].
    + destruct (q_ex _ s HQ j Hin) as (x & Hx & P).
      assert (Hh : jholds x = false).
      { assert (Hp : In j (pend s)).
        { unfold pend. apply in_or_app. left. unfold exec_ids. apply in_flat_map. exists (EvExec j). split; [exact Hin|now left]. }
        apply (i_pend _ _ HI j x Hp Hx). }
      pose proof (phi_exec_job K (pop_queue s i) j x co Qp Hx P Hh). lia.
    + destruct (q_dn _ s HQ j Hin) as (x & Hx & P).
      pose proof (phi_done_job K (pop_queue s i) j x Qp Hx P). lia.
    + destruct (q_rj _ s HQ j e Hin) as (x & Hx & Pre & P). unfold reject_job. set (s0 := pop_queue s i) in *.
      assert (Hnw : ~ In j (waiting s0)).
      { intros H. destruct (q_wt _ s HQ j H) as (z & Hz & Pz). rewrite Hx in Hz. injection Hz as <-.
        destruct P as [A|[A|A]]; congruence. }
      destruct (getj_maybe_release c s0 j j x Hx Hnw) as (y & Hy & P1 & _).
      assert (H1 : phi K (maybe_release c s0 j) <= phi K s0).
      { apply (phi_maybe_release K s0 j x); auto; try lia; destruct P as [A|[A|A]]; rewrite A; discriminate. }
      pose proof (phi_settle K (maybe_release c s0 j) j y (Ko e) (Q_maybe_release c s0 j Qp) Hy) as H2.
      rewrite P1 in H2. specialize (H2 P). lia.
    + destruct (q_rs _ s HQ j v Hin) as (x & Hx & P & _). unfold resolve_job.
      pose proof (phi_settle K (pop_queue s i) j x (Ok v) Qp Hx) as H2. rewrite P in H2.
      specialize (H2 (or_intror (or_intror eq_refl))). lia.
  - unfold phase_is. destruct (getj s j) as [x|] eqn:Hx; [|lia]. destruct (jphase x) eqn:P; try lia.
    rewrite (phi_jobs K _ (setj s j (with_phase x PReported))) by reflexivity.
    rewrite (phi_setj K s j x _ Hx). unfold wt, tok. simpl. rewrite P. simpl. lia.
  - unfold phase_is. destruct (getj s j) as [x|] eqn:Hx; [|lia]. destruct (jphase x) eqn:P; try lia.
    rewrite (phi_jobs K _ (setj s j (with_phase x PEvalQ))) by reflexivity.
    rewrite (phi_setj K s j x _ Hx). unfold wt, tok. simpl. rewrite P. simpl. lia.
Qed.

(** * whole runs *)
Hypothesis Hlim : forall r, 0 <= limit_of c r.

Fixpoint pops (s : state) (ops : list op) : nat :=
  match ops with
  | [] => 0%nat
  | o :: r => ((if effective s o then 1 else 0) + pops (step c s o) r)%nat
  end.

Definition count_new (ops : list op) : nat := length (filter is_new ops).

Lemma pops_app l : forall s o,
  pops s (l ++ [o]) = (pops s l + (if effective (fold_left (step c) l s) o then 1 else 0))%nat.
Proof. induction l as [|a l IH]; intros s o; simpl; [lia|]. rewrite IH. lia. Qed.

Lemma count_new_app l o : count_new (l ++ [o]) = (count_new l + (if is_new o then 1 else 0))%nat.
Proof. unfold count_new. rewrite filter_app, app_length. simpl. destruct (is_new o); simpl; lia. Qed.

Lemma length_jobs_run ops : length (jobs (run c ops)) = count_new ops.
Proof.
  induction ops as [|o l IH] using rev_ind; [reflexivity|].
  unfold run. rewrite fold_left_app. simpl. fold (run c l). rewrite length_jobs_step by (apply Q_run; exact Hsafe).
  rewrite count_new_app, IH. reflexivity.
Qed.

Theorem run_potential ops K : Forall wf_op ops -> Z.of_nat (count_new ops) <= K ->
  Z.of_nat (pops init ops) + phi K (run c ops) <= (7 + K) * Z.of_nat (count_new ops).
Proof.
  induction ops as [|o l IH] using rev_ind; intros Hwf HK.
  - unfold count_new, phi, run. simpl. lia.
  - apply Forall_app in Hwf. destruct Hwf as [Hwf _]. rewrite count_new_app in HK.
    assert (HK' : Z.of_nat (count_new l) <= K) by lia. specialize (IH Hwf HK').
    rewrite pops_app. unfold run at 1. rewrite fold_left_app. simpl. fold (run c l).
    pose proof (Q_run c Hsafe l) as HQ. destruct (live_run c Hfix Hlim l Hwf) as [_ HI].
    pose proof (phi_step K (run c l) o HQ HI) as H. rewrite length_jobs_run in H. specialize (H HK').
    rewrite count_new_app. destruct (effective (run c l) o); destruct (is_new o); nia.
Qed.

(** the number of events processed is at most (7 + N) * N for N jobs created *)
Theorem pops_bounded ops : Forall wf_op ops ->
  Z.of_nat (pops init ops) <= (7 + Z.of_nat (count_new ops)) * Z.of_nat (count_new ops).
Proof.
  intros Hwf. pose proof (run_potential ops (Z.of_nat (count_new ops)) Hwf (Z.le_refl _)) as H.
  pose proof (phi_nonneg (Z.of_nat (count_new ops)) (run c ops) (Nat2Z.is_nonneg _)). lia.
Qed.
End T.
