(** C26 — get_context_value, update_context, job contexts along a job tree. *)
From Coq Require Import List ZArith Ascii Bool Lia PeanoNat NArith.
From RV Require Import Base.Decimal Base.Lit Model.Context Proofs.ContextBase Proofs.ContextMerge.
Import ListNotations.
Open Scope list_scope.

(** * get_context_value *)
(** "the value at the path" and "a segment is missing or not a mapping", stated independently
    of the function *)
Inductive at_path : value -> list key -> value -> Prop :=
| AP_here : forall v, at_path v [] v
| AP_down : forall kvs p r x y, lookup p kvs = Some x -> at_path x r y -> at_path (VDict kvs) (p :: r) y.

Inductive no_path : value -> list key -> Prop :=
| NP_not_mapping : forall a p r, no_path (VAtom a) (p :: r)
| NP_missing : forall kvs p r, lookup p kvs = None -> no_path (VDict kvs) (p :: r)
| NP_deeper : forall kvs p r x, lookup p kvs = Some x -> no_path x r -> no_path (VDict kvs) (p :: r).

Lemma get_path_found : forall v ps y, at_path v ps y -> forall d, get_path v ps d = y.
Proof. induction 1; intros d; simpl; [reflexivity|]. rewrite H. apply IHat_path. Qed.

Lemma get_path_default : forall v ps, no_path v ps -> forall d, get_path v ps d = d.
Proof.
  induction 1; intros d; simpl; [reflexivity| |].
  - rewrite H. reflexivity.
  - rewrite H. apply IHno_path.
Qed.

Lemma path_decide : forall ps v, (exists y, at_path v ps y) \/ no_path v ps.
Proof.
  induction ps as [|p r IH]; intros v.
  - left. exists v. constructor.
  - destruct v as [a|kvs]; [right; constructor|].
    destruct (lookup p kvs) as [x|] eqn:L; [|right; apply NP_missing; exact L].
    destruct (IH x) as [[y Hy]|Hn].
    + left. exists y. econstructor; eassumption.
    + right. eapply NP_deeper; eassumption.
Qed.

Lemma path_exclusive : forall v ps y, at_path v ps y -> no_path v ps -> False.
Proof.
  induction 1; intros N; inversion N; subst; try congruence;
    try (apply IHat_path; assert (x = x0) by congruence; subst; assumption).
Qed.

Lemma at_path_fun : forall v ps y y', at_path v ps y -> at_path v ps y' -> y = y'.
Proof.
  induction 1; intros A; inversion A; subst; try reflexivity;
    try (apply IHat_path; assert (x = x0) by congruence; subst; assumption).
Qed.

(** * str.split(".") *)
Fixpoint join (sep : ascii) (parts : list bytes) : bytes :=
  match parts with
  | [] => []
  | p :: r => match r with [] => p | _ => p ++ sep :: join sep r end
  end.

Lemma split_on_nonempty : forall sep s, split_on sep s <> [].
Proof.
  intros sep s. destruct s as [|c r]; simpl; [discriminate|].
  destruct (Ascii.eqb c sep); [discriminate|]. destruct (split_on sep r); discriminate.
Qed.

Lemma join_split : forall sep s, join sep (split_on sep s) = s.
Proof.
  intros sep. induction s as [|c r IH]; [reflexivity|]. simpl.
  destruct (Ascii.eqb c sep) eqn:E.
  - apply Ascii.eqb_eq in E. subst c.
    pose proof (split_on_nonempty sep r). destruct (split_on sep r) eqn:S; [congruence|].
    simpl in *. rewrite IH. reflexivity.
  - pose proof (split_on_nonempty sep r). destruct (split_on sep r) as [|p ps] eqn:S; [congruence|].
    simpl in *. destruct ps; simpl in *; rewrite <- IH; reflexivity.
Qed.

Lemma split_no_sep : forall sep s, Forall (fun p => ~ In sep p) (split_on sep s).
Proof.
  intros sep. induction s as [|c r IH]; simpl; [repeat constructor; intros []|].
  destruct (Ascii.eqb c sep) eqn:E.
  - constructor; [intros []|exact IH].
  - destruct (split_on sep r) as [|p ps]; [repeat constructor|].
    + intros [->|[]]. rewrite Ascii.eqb_refl in E. discriminate.
    + inversion IH; subst. constructor; [|assumption].
      intros [->|H]; [rewrite Ascii.eqb_refl in E; discriminate|contradiction].
Qed.

Lemma split_nosep : forall sep p, ~ In sep p -> split_on sep p = [p].
Proof.
  intros sep. induction p as [|c r IH]; intros H; [reflexivity|]. simpl.
  destruct (Ascii.eqb c sep) eqn:E.
  - apply Ascii.eqb_eq in E. subst. exfalso. apply H. left. reflexivity.
  - rewrite IH; [reflexivity|]. intros Hin. apply H. right. exact Hin.
Qed.

Lemma split_app_sep : forall sep p s, ~ In sep p -> split_on sep (p ++ sep :: s) = p :: split_on sep s.
Proof.
  intros sep. induction p as [|c r IH]; intros s H; simpl.
  - rewrite Ascii.eqb_refl. reflexivity.
  - destruct (Ascii.eqb c sep) eqn:E.
    + apply Ascii.eqb_eq in E. subst. exfalso. apply H. left. reflexivity.
    + rewrite IH; [reflexivity|]. intros Hin. apply H. right. exact Hin.
Qed.

(** [split_on] is the only way to cut [s] at the separators *)
Lemma split_join : forall sep parts, parts <> [] -> Forall (fun p => ~ In sep p) parts ->
  split_on sep (join sep parts) = parts.
Proof.
  intros sep. induction parts as [|p r IH]; intros NE F; [congruence|].
  inversion F; subst. destruct r as [|q r'].
  - simpl. apply split_nosep. assumption.
  - change (join sep (p :: q :: r')) with (p ++ sep :: join sep (q :: r')).
    rewrite split_app_sep by assumption. f_equal. apply IH; [discriminate|assumption].
Qed.

(** * update_context *)
Definition wf_call (u : uc_call) : Prop :=
  wf (uc_ctx u) /\ wf (uc_kw u) /\ is_dict (uc_ctx u) = true /\ is_dict (uc_kw u) = true.

(** documented meaning of one  .update_context(ctx, **kw)  on top of the previous override *)
Definition spec_step (o : value) (u : uc_call) : value := dmerge (dmerge o (uc_ctx u)) (uc_kw u).
Definition spec_override (calls : list uc_call) : value := fold_left spec_step calls empty_dict.

Lemma spec_step_ok : forall o u, wf o -> is_dict o = true -> wf_call u ->
  wf (spec_step o u) /\ is_dict (spec_step o u) = true.
Proof.
  intros o u Wo Do [W1 [W2 [D1 D2]]]. unfold spec_step. split.
  - apply dmerge_wf; [apply dmerge_wf|]; assumption.
  - apply dmerge_is_dict; [assumption|]. apply dmerge_is_dict; assumption.
Qed.

Lemma spec_fold_ok : forall calls o, wf o -> is_dict o = true -> Forall wf_call calls ->
  wf (fold_left spec_step calls o) /\ is_dict (fold_left spec_step calls o) = true.
Proof.
  induction calls as [|u r IH]; simpl; intros o Wo Do F; [split; assumption|].
  inversion F; subst. destruct (spec_step_ok o u Wo Do H1). apply IH; assumption.
Qed.

Lemma spec_override_ok : forall calls, Forall wf_call calls ->
  wf (spec_override calls) /\ is_dict (spec_override calls) = true.
Proof. intros. apply spec_fold_ok; [apply wf_empty|reflexivity|assumption]. Qed.

Lemma eval_plan_flat : forall v p c k,
  eval_plan v p c k (UMerge [UPrev; UCtx; UKw]) = merge v [p; c; k].
Proof. reflexivity. Qed.

Lemma eval_plan_nested : forall v p c k,
  eval_plan v p c k (UMerge [UMerge [UPrev; UCtx]; UKw]) =
  match merge v [p; c] with Some x => merge v [x; k] | None => None end.
Proof.
  intros. change (eval_plan v p c k (UMerge [UMerge [UPrev; UCtx]; UKw])) with
    (match (match merge v [p; c] with Some x => Some [x; k] | None => None end) with
     | Some vals => merge v vals | None => None end).
  destruct (merge v [p; c]); reflexivity.
Qed.

(** which (previous override, call) pairs a configuration handles as documented *)
Definition flat3 : uc_plan := UMerge [UPrev; UCtx; UKw].
Definition nested3 : uc_plan := UMerge [UMerge [UPrev; UCtx]; UKw].

Definition one_empty (p : value) (u : uc_call) : Prop :=
  p = empty_dict \/ uc_ctx u = empty_dict \/ uc_kw u = empty_dict.

Lemma step_fixed : forall c p u, merge_variant c = Fixed -> update_plan c = flat3 ->
  wf p -> wf_call u -> step_override c (Some p) u = Some (spec_step p u).
Proof.
  intros c p u Hv Hp Wp [W1 [W2 _]]. unfold step_override. rewrite Hv, Hp. unfold flat3.
  rewrite eval_plan_flat, merge_fixed_fold by (repeat constructor; assumption).
  rewrite dmerge_all_three. reflexivity.
Qed.

Lemma step_nested : forall c p u, update_plan c = nested3 ->
  wf p -> wf_call u -> step_override c (Some p) u = Some (spec_step p u).
Proof.
  intros c p u Hp Wp [W1 [W2 _]]. unfold step_override. rewrite Hp. unfold nested3.
  rewrite eval_plan_nested, merge_binary by assumption.
  rewrite merge_binary; [reflexivity|apply dmerge_wf; assumption|assumption].
Qed.

Lemma step_one_empty : forall c p u, update_plan c = flat3 ->
  wf p -> is_dict p = true -> wf_call u -> one_empty p u ->
  step_override c (Some p) u = Some (spec_step p u).
Proof.
  intros c p u Hp Wp Dp [W1 [W2 [D1 D2]]] HE. unfold step_override. rewrite Hp. unfold flat3.
  rewrite eval_plan_flat. apply merge3_with_empty; assumption.
Qed.

(** [R] holds at every step of the chain (with the documented accumulators) *)
Fixpoint chain (R : value -> uc_call -> Prop) (o : value) (calls : list uc_call) : Prop :=
  match calls with
  | [] => True
  | u :: r => R o u /\ chain R (spec_step o u) r
  end.

Lemma override_gen : forall c (R : value -> uc_call -> Prop),
  (forall p u, wf p -> is_dict p = true -> wf_call u -> R p u ->
               step_override c (Some p) u = Some (spec_step p u)) ->
  forall calls o, wf o -> is_dict o = true -> Forall wf_call calls -> chain R o calls ->
  fold_left (step_override c) calls (Some o) = Some (fold_left spec_step calls o).
Proof.
  intros c R HS. induction calls as [|u r IH]; cbn [fold_left chain]; intros o Wo Do F CH; [reflexivity|].
  inversion F; subst. destruct CH as [HR CH].
  rewrite (HS o u Wo Do H1 HR). destruct (spec_step_ok o u Wo Do H1). apply IH; assumption.
Qed.

Lemma chain_true : forall o calls, chain (fun _ _ => True) o calls.
Proof. intros o calls. revert o. induction calls; simpl; intros; [exact I|split; [exact I|apply IHcalls]]. Qed.

(** as shipped: the first update_context is unrestricted, later ones pass either a dict or
    keyword arguments (not both) *)
Definition simple_call (u : uc_call) : Prop := uc_ctx u = empty_dict \/ uc_kw u = empty_dict.
Definition simple_calls (calls : list uc_call) : Prop :=
  match calls with [] => True | _ :: r => Forall simple_call r end.

Lemma chain_simple : forall calls o, Forall simple_call calls -> chain one_empty o calls.
Proof.
  induction calls as [|u r IH]; simpl; intros o F; [exact I|]. inversion F; subst.
  split; [right; assumption|apply IH; assumption].
Qed.

Definition documented_override (c : ctx_cfg) (calls : list uc_call) : Prop :=
  override c calls = Some (spec_override calls).

Theorem override_fixed : forall c calls, merge_variant c = Fixed -> update_plan c = flat3 ->
  Forall wf_call calls -> documented_override c calls.
Proof.
  intros c calls Hv Hp F. unfold documented_override, override, spec_override.
  apply (override_gen c (fun _ _ => True)); try assumption; try reflexivity; try apply chain_true.
  intros. apply step_fixed; assumption.
Qed.

Theorem override_nested : forall c calls, update_plan c = nested3 ->
  Forall wf_call calls -> documented_override c calls.
Proof.
  intros c calls Hp F. unfold documented_override, override, spec_override.
  apply (override_gen c (fun _ _ => True)); try assumption; try reflexivity; try apply chain_true.
  intros. apply step_nested; assumption.
Qed.

Theorem override_simple : forall c calls, update_plan c = flat3 ->
  Forall wf_call calls -> simple_calls calls -> documented_override c calls.
Proof.
  intros c calls Hp F S. unfold documented_override, override, spec_override.
  apply (override_gen c one_empty); try assumption; try reflexivity.
  - intros. apply step_one_empty; assumption.
  - destruct calls as [|u r]; [exact I|]. simpl. split; [left; reflexivity|].
    apply chain_simple. exact S.
Qed.

(** * job contexts *)
Theorem job_step_spec : forall c parent calls, job_parent_first c = true ->
  wf parent -> Forall wf_call calls -> documented_override c calls ->
  job_step c parent calls = Some (dmerge parent (spec_override calls)).
Proof.
  intros c parent calls Hj Wp F HO. unfold job_step. rewrite HO, Hj. simpl.
  apply merge_binary; [assumption|]. apply spec_override_ok. assumption.
Qed.

Definition spec_job_context (root : value) (path : list (list uc_call)) : value :=
  fold_left (fun p calls => dmerge p (spec_override calls)) path root.

Theorem job_context_spec : forall c path root, job_parent_first c = true -> wf root ->
  Forall (fun calls => Forall wf_call calls /\ documented_override c calls) path ->
  job_context c root path = Some (spec_job_context root path) /\ wf (spec_job_context root path).
Proof.
  intros c path root Hj. revert root. unfold job_context, spec_job_context.
  induction path as [|calls r IH]; simpl; intros root Wr F; [split; [reflexivity|assumption]|].
  inversion F as [|? ? [F1 HO] F2]; subst.
  rewrite job_step_spec by assumption. apply IH; [|assumption].
  apply dmerge_wf; [assumption|]. apply spec_override_ok. assumption.
Qed.

(** a context computed late (ancestors already concluded, memo dropped by clear()) is the same
    as the one computed while every ancestor was pending, as long as clear() keeps the parent link *)
Theorem late_context_eq : forall c root rev_path, clear_keeps_parent c = true ->
  late_context c root rev_path = job_context c root (rev (map snd rev_path)).
Proof.
  intros c root rev_path HK. unfold job_context.
  induction rev_path as [|[fl calls] r IH]; [reflexivity|].
  cbn [late_context map rev snd]. rewrite HK, andb_false_r, fold_left_app, <- IH. reflexivity.
Qed.

Theorem exec_context_spec : forall c configured run_arg, run_config_first c = true ->
  wf configured -> wf run_arg -> exec_context c configured run_arg = Some (dmerge configured run_arg).
Proof. intros c a b H Wa Wb. unfold exec_context. rewrite H. simpl. apply merge_binary; assumption. Qed.

(** * job trees *)
Section jtree_ind.
  Variable P : jtree -> Prop.
  Hypothesis HN : forall calls gets kids, Forall P kids -> P (JNode calls gets kids).
  Fixpoint jtree_ind' (t : jtree) : P t :=
    match t with
    | JNode calls gets kids =>
        HN calls gets kids ((fix go (l : list jtree) : Forall P l :=
                               match l with
                               | [] => Forall_nil _
                               | k :: r => Forall_cons k (jtree_ind' k) (go r)
                               end) kids)
    end.
End jtree_ind.

(** documented meaning: every job's context is its parent's context (+) its override; every
    get_context reads the calling job's context *)
Fixpoint spec_tree (parent : value) (t : jtree) {struct t} : list value :=
  match t with
  | JNode calls gets kids =>
      let ctx := dmerge parent (spec_override calls) in
      map (fun g => get_context_value ctx (fst g) (snd g)) gets ++
      (fix go (l : list jtree) : list value :=
         match l with [] => [] | k :: r => spec_tree ctx k ++ go r end) kids
  end.

Fixpoint tree_all (P : list uc_call -> Prop) (t : jtree) {struct t} : Prop :=
  match t with
  | JNode calls _ kids =>
      P calls /\ (fix go (l : list jtree) : Prop :=
                    match l with [] => True | k :: r => tree_all P k /\ go r end) kids
  end.

Definition node_ok (c : ctx_cfg) (calls : list uc_call) : Prop :=
  Forall wf_call calls /\ documented_override c calls.

Theorem run_tree_spec : forall c, job_parent_first c = true ->
  forall t parent, wf parent -> tree_all (node_ok c) t ->
  run_tree c parent t = Some (spec_tree parent t).
Proof.
  intros c Hj. induction t as [calls gets kids IH] using jtree_ind'. intros parent Wp [[F HO] HK].
  cbn [run_tree spec_tree]. rewrite job_step_spec by assumption.
  set (ctx := dmerge parent (spec_override calls)).
  assert (Wc : wf ctx) by (apply dmerge_wf; [assumption|apply spec_override_ok; assumption]).
  assert (E : (fix go (l : list jtree) : option (list value) :=
                 match l with
                 | [] => Some []
                 | k :: r => match run_tree c ctx k, go r with
                             | Some a, Some b => Some (a ++ b) | _, _ => None end
                 end) kids =
              Some ((fix go (l : list jtree) : list value :=
                       match l with [] => [] | k :: r => spec_tree ctx k ++ go r end) kids)).
  { clear - IH HK Wc. induction kids as [|k r IHr]; [reflexivity|].
    inversion IH; subst. destruct HK as [Hk Hr].
    rewrite (H1 ctx Wc Hk). rewrite (IHr H2 Hr). reflexivity. }
  rewrite E. reflexivity.
Qed.

Theorem run_execution_spec : forall c configured run_arg t,
  job_parent_first c = true -> run_config_first c = true ->
  wf configured -> wf run_arg -> tree_all (node_ok c) t ->
  run_execution c configured run_arg t = Some (spec_tree (dmerge configured run_arg) t).
Proof.
  intros c a b t Hj Hr Wa Wb HT. unfold run_execution. rewrite exec_context_spec by assumption.
  apply run_tree_spec; try assumption. apply dmerge_wf; assumption.
Qed.

Lemma tree_all_impl : forall (P Q : list uc_call -> Prop), (forall calls, P calls -> Q calls) ->
  forall t, tree_all P t -> tree_all Q t.
Proof.
  intros P Q HPQ. induction t as [calls gets kids IH] using jtree_ind'. intros [HP HK].
  cbn [tree_all]. split; [apply HPQ; exact HP|].
  clear - IH HK. induction kids as [|k r IHr]; [exact I|].
  inversion IH; subst. destruct HK as [Hk Hr]. split; [apply H1; exact Hk|apply IHr; assumption].
Qed.

(** * the defect of the unchanged code: a witness *)
Definition kb : key := bs [98]%N.   (* "b" *)
Definition ka : key := bs [97]%N.   (* "a" *)
Definition kc : key := bs [99]%N.   (* "c" *)
Definition w_prev : value := VDict [(kb, VAtom (AStr (bs [115]%N)))].            (* {"b": "s"} *)
Definition w_ctx : value := VDict [(kb, VDict [(ka, VAtom (AInt 1))])].          (* {"b": {"a": 1}} *)
Definition w_kw : value := VDict [(kb, VDict [(kc, VAtom (AInt 2))])].           (* b={"c": 2} *)
(** t.update_context({"b": "s"}).update_context({"b": {"a": 1}}, b={"c": 2})() calling
    get_context("b.a", 0) *)
Definition w_calls : list uc_call :=
  [ {| uc_ctx := w_prev; uc_kw := empty_dict |}; {| uc_ctx := w_ctx; uc_kw := w_kw |} ].
Definition w_tree : jtree := JNode w_calls [(bs [98; 46; 97]%N, VAtom (AInt 0))] [].

Lemma witness_wf : Forall wf_call w_calls /\ Forall wf [w_prev; w_ctx; w_kw].
Proof. split; repeat constructor. Qed.

Lemma witness_merge : merge AsShipped [w_prev; w_ctx; w_kw] <> Some (dmerge_all [w_prev; w_ctx; w_kw]).
Proof. vm_compute. discriminate. Qed.

Lemma witness_tree :
  run_execution shipped empty_dict empty_dict w_tree = Some [VAtom (AInt 0)] /\
  spec_tree (dmerge empty_dict empty_dict) w_tree = [VAtom (AInt 1)].
Proof. split; vm_compute; reflexivity. Qed.

(** * packaged statements (used by Props/C26.v) *)
Theorem deep_merge_spec : forall la lb, exists M,
  dmerge (VDict la) (VDict lb) = VDict M /\
  map fst M = map fst la ++ filter (fun k => negb (mem_key k (map fst la))) (map fst lb) /\
  forall k, lookup k M = match lookup k la, lookup k lb with
                         | Some x, Some y => Some (dmerge x y)
                         | Some x, None => Some x
                         | None, r => r
                         end.
Proof.
  intros. eexists. split; [apply dmerge_dict|]. split; [apply dmerge_keys|apply dmerge_lookup].
Qed.

Theorem deep_merge_later_wins : forall a b, is_dict a = false \/ is_dict b = false -> dmerge a b = b.
Proof. intros a b [H|H]; [apply dmerge_nondict_l|apply dmerge_nondict_r]; exact H. Qed.

Theorem get_context_spec : forall ctx path default,
  (forall y, at_path ctx (split_on dot path) y -> get_context_value ctx path default = y) /\
  (no_path ctx (split_on dot path) -> get_context_value ctx path default = default) /\
  ((exists y, at_path ctx (split_on dot path) y) \/ no_path ctx (split_on dot path)).
Proof.
  intros. unfold get_context_value. split; [|split].
  - intros y H. apply get_path_found. exact H.
  - intros H. apply get_path_default. exact H.
  - apply path_decide.
Qed.

Theorem split_spec : forall s,
  split_on dot s <> [] /\ join dot (split_on dot s) = s /\ Forall (fun p => ~ In dot p) (split_on dot s) /\
  forall parts, parts <> [] -> Forall (fun p => ~ In dot p) parts -> join dot parts = s -> parts = split_on dot s.
Proof.
  intros s. split; [apply split_on_nonempty|]. split; [apply join_split|]. split; [apply split_no_sep|].
  intros parts NE F <-. symmetry. apply split_join; assumption.
Qed.

Definition tree_wf (t : jtree) : Prop := tree_all (Forall wf_call) t.
Definition tree_simple (t : jtree) : Prop := tree_all (fun calls => Forall wf_call calls /\ simple_calls calls) t.

Theorem tree_fixed : forall configured run_arg t, wf configured -> wf run_arg -> tree_wf t ->
  run_execution fixed configured run_arg t = Some (spec_tree (dmerge configured run_arg) t).
Proof.
  intros a b t Wa Wb HT. apply run_execution_spec; try assumption; try reflexivity.
  revert HT. apply tree_all_impl. intros calls F. split; [exact F|].
  apply override_fixed; [reflexivity|reflexivity|exact F].
Qed.

Theorem tree_fixed_uc : forall configured run_arg t, wf configured -> wf run_arg -> tree_wf t ->
  run_execution fixed_uc configured run_arg t = Some (spec_tree (dmerge configured run_arg) t).
Proof.
  intros a b t Wa Wb HT. apply run_execution_spec; try assumption; try reflexivity.
  revert HT. apply tree_all_impl. intros calls F. split; [exact F|].
  apply override_nested; [reflexivity|exact F].
Qed.

Theorem tree_shipped_simple : forall configured run_arg t, wf configured -> wf run_arg -> tree_simple t ->
  run_execution shipped configured run_arg t = Some (spec_tree (dmerge configured run_arg) t).
Proof.
  intros a b t Wa Wb HT. apply run_execution_spec; try assumption; try reflexivity.
  revert HT. apply tree_all_impl. intros calls [F S]. split; [exact F|].
  apply override_simple; [reflexivity|exact F|exact S].
Qed.

Theorem job_context_fixed : forall root path, wf root -> Forall (Forall wf_call) path ->
  job_context fixed root path = Some (spec_job_context root path).
Proof.
  intros root path W F. apply job_context_spec; [reflexivity|exact W|].
  rewrite Forall_forall in *. intros calls Hin. split; [exact (F _ Hin)|].
  apply override_fixed; [reflexivity|reflexivity|exact (F _ Hin)].
Qed.

Theorem job_context_fixed_uc : forall root path, wf root -> Forall (Forall wf_call) path ->
  job_context fixed_uc root path = Some (spec_job_context root path).
Proof.
  intros root path W F. apply job_context_spec; [reflexivity|exact W|].
  rewrite Forall_forall in *. intros calls Hin. split; [exact (F _ Hin)|].
  apply override_nested; [reflexivity|exact (F _ Hin)].
Qed.

Theorem job_context_shipped_simple : forall root path, wf root ->
  Forall (fun calls => Forall wf_call calls /\ simple_calls calls) path ->
  job_context shipped root path = Some (spec_job_context root path).
Proof.
  intros root path W F. apply job_context_spec; [reflexivity|exact W|].
  rewrite Forall_forall in *. intros calls Hin. destruct (F _ Hin) as [F1 S]. split; [exact F1|].
  apply override_simple; [reflexivity|exact F1|exact S].
Qed.

Theorem nary_refuted : exists ds, Forall wf ds /\ forallb is_dict ds = true /\
  merge AsShipped ds <> Some (dmerge_all ds).
Proof.
  exists [w_prev; w_ctx; w_kw]. split; [apply witness_wf|]. split; [reflexivity|apply witness_merge].
Qed.

Theorem tree_refuted : exists configured run_arg t, wf configured /\ wf run_arg /\ tree_wf t /\
  run_execution shipped configured run_arg t <> Some (spec_tree (dmerge configured run_arg) t).
Proof.
  exists empty_dict, empty_dict, w_tree. split; [reflexivity|]. split; [reflexivity|]. split.
  - split; [apply witness_wf|exact I].
  - destruct witness_tree as [H1 H2]. rewrite H1, H2. discriminate.
Qed.

(** late contexts, packaged *)
Definition late_spec (root : value) (rev_path : list (bool * list uc_call)) : value :=
  spec_job_context root (rev (map snd rev_path)).

Lemma Forall_rev_map_snd : forall (P : list uc_call -> Prop) (l : list (bool * list uc_call)),
  Forall (fun fc => P (snd fc)) l -> Forall P (rev (map snd l)).
Proof.
  intros P l F. rewrite Forall_forall in *. intros x Hx. apply in_rev in Hx.
  apply in_map_iff in Hx. destruct Hx as [fc [<- Hin]]. exact (F _ Hin).
Qed.

Theorem late_context_fixed : forall root rev_path, wf root ->
  Forall (fun fc => Forall wf_call (snd fc)) rev_path ->
  late_context fixed root rev_path = Some (late_spec root rev_path).
Proof.
  intros. rewrite late_context_eq by reflexivity. apply job_context_fixed; [assumption|].
  apply Forall_rev_map_snd. assumption.
Qed.

Theorem late_context_fixed_uc : forall root rev_path, wf root ->
  Forall (fun fc => Forall wf_call (snd fc)) rev_path ->
  late_context fixed_uc root rev_path = Some (late_spec root rev_path).
Proof.
  intros. rewrite late_context_eq by reflexivity. apply job_context_fixed_uc; [assumption|].
  apply Forall_rev_map_snd. assumption.
Qed.

Theorem late_context_shipped_simple : forall root rev_path, wf root ->
  Forall (fun fc => Forall wf_call (snd fc) /\ simple_calls (snd fc)) rev_path ->
  late_context shipped root rev_path = Some (late_spec root rev_path).
Proof.
  intros. rewrite late_context_eq by reflexivity. apply job_context_shipped_simple; [assumption|].
  apply (Forall_rev_map_snd (fun calls => Forall wf_call calls /\ simple_calls calls)). assumption.
Qed.

(** a clear() that also drops the parent link loses the overrides of the ancestors above a
    concluded parent (the configuration of the seeded change C26b) *)
Definition dropping : ctx_cfg :=
  {| merge_variant := Fixed; update_plan := flat3; job_parent_first := true; run_config_first := true;
     clear_keeps_parent := false |}.
Definition w_late : list (bool * list uc_call) :=
  [ (false, []);                                                          (* the late job *)
    (true, [ {| uc_ctx := VDict [(kb, VAtom (AInt 2))]; uc_kw := empty_dict |} ]);   (* concluded parent *)
    (false, [ {| uc_ctx := VDict [(ka, VAtom (AInt 1))]; uc_kw := empty_dict |} ]) ]. (* grand-parent *)

Theorem late_dropping_refuted : exists root rev_path, wf root /\
  Forall (fun fc => Forall wf_call (snd fc)) rev_path /\
  late_context dropping root rev_path <> Some (late_spec root rev_path).
Proof.
  exists empty_dict, w_late. split; [reflexivity|]. split; [repeat constructor|].
  vm_compute. discriminate.
Qed.
