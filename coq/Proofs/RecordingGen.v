(** A state predicate that every primitive session operation preserves (under the facts the
    interpreter has just tested) is preserved by every recording operation, for every step list,
    every fault plan and every outcome; committed tables only grow; plans only shrink, so the
    retry loop never runs out of fuel. *)
From Coq Require Import List Arith Bool PeanoNat Lia.
From RV Require Import Model.Recording Proofs.RecordingBase.
Import ListNotations.
Open Scope list_scope.

Definition db_le (d d' : db) : Prop :=
  incl (vals d) (vals d') /\ incl (nodes d) (nodes d') /\ incl (edges d) (edges d') /\
  incl (argrows d) (argrows d') /\ incl (subs d) (subs d').

Lemma db_le_refl : forall d, db_le d d.
Proof. intros. repeat split; apply incl_refl. Qed.
Lemma db_le_trans : forall a b c, db_le a b -> db_le b c -> db_le a c.
Proof.
  intros a b c (H1 & H2 & H3 & H4 & H5) (K1 & K2 & K3 & K4 & K5).
  repeat split; eapply incl_tran; eauto.
Qed.
Lemma db_le_app : forall a b, db_le b (db_app a b).
Proof. intros. repeat split; simpl; apply incl_appr, incl_refl. Qed.

Definition keeps (s s' : state) : Prop := db_le (com s) (com s') /\ reg s' = reg s.
Definition keeps_ok (s s' : state) : Prop := jobs s' = jobs s /\ alive s' = alive s.

Lemma keeps_refl : forall s, keeps s s.
Proof. intros. split; [apply db_le_refl|reflexivity]. Qed.
Lemma keeps_trans : forall a b c, keeps a b -> keeps b c -> keeps a c.
Proof. intros a b c [H1 H2] [K1 K2]. split; [eapply db_le_trans; eauto|congruence]. Qed.
Lemma keeps_ok_refl : forall s, keeps_ok s s.
Proof. intros. split; reflexivity. Qed.
Lemma keeps_ok_trans : forall a b c, keeps_ok a b -> keeps_ok b c -> keeps_ok a c.
Proof. intros a b c [H1 H2] [K1 K2]. split; congruence. Qed.

Lemma keeps_commit : forall s, keeps s (do_commit s).
Proof. intros. split; [apply db_le_app|reflexivity]. Qed.
Lemma keeps_same_com : forall s s', com s' = com s -> reg s' = reg s -> keeps s s'.
Proof. intros s s' H1 H2. split; [rewrite H1; apply db_le_refl|exact H2]. Qed.

Ltac sp := match goal with |- _ /\ _ => split; [|sp] | _ => idtac end.

Section Gen.
  Variable G : state -> Prop.
  Variable p : params.
  Variable R : nat.
  Let c := p_call p.

  Hypothesis G_att : forall s a, G s -> G (set_att s a).
  Hypothesis G_commit : forall s, G s -> G (do_commit s).
  Hypothesis G_rollback : forall s, G s -> G (do_rollback s).
  Hypothesis G_die : forall s, G s -> G (die s).
  Hypothesis G_val : forall s v, G s -> memn v (vals (vis s)) = false -> G (add_val v s).
  Hypothesis G_node : forall s, G s -> memt c (nodes (vis s)) = false -> memn (t_res c) (vals (vis s)) = true ->
    G (add_node c s).
  Hypothesis G_edges : forall s, G s -> memt c (nodes (vis s)) = true ->
    G (add_edges (recorded_edges (vis s) c 0 (t_kids c)) s).
  Hypothesis G_arg : forall s i v, G s -> memt c (nodes (vis s)) = true -> memn v (vals (vis s)) = true ->
    G (add_arg c i v s).
  Hypothesis G_subs : forall s new, G s -> memt c (nodes (vis s)) = true ->
    forallb (fun t => negb (memn t (rows (vis s) c))) new = true -> NoDup new ->
    (forall x, In x (p_subtree p) -> In x new \/ In x (rows (vis s) c)) ->
    G (add_subs c new s).

  Definition holds (s : state) (pl : list fate) (r : res) : Prop :=
    match r with
    | ROk s' pl' => G s' /\ keeps s s' /\ keeps_ok s s' /\ length pl' <= length pl
    | RRaise s' pl' => G s' /\ keeps s s' /\ keeps_ok s s' /\ length pl' < length pl
    | RDied s' => G s' /\ keeps s s' /\ pen s' = db0 /\ jobs s' = [] /\ alive s' = false
    | RFuel => False
    end.
  Arguments holds : simpl never.

  Lemma holds_weaken : forall s s1 pl pl1 r, keeps s s1 -> keeps_ok s s1 -> length pl1 <= length pl ->
    holds s1 pl1 r -> holds s pl r.
  Proof.
    intros s s1 pl pl1 r K KO L H. destruct r as [s' pl'|s' pl'|s'|]; unfold holds in *.
    - destruct H as (H1 & H2 & H3 & H4). sp; [assumption|eapply keeps_trans; eauto|eapply keeps_ok_trans; eauto|lia].
    - destruct H as (H1 & H2 & H3 & H4). sp; [assumption|eapply keeps_trans; eauto|eapply keeps_ok_trans; eauto|lia].
    - destruct H as (H1 & H2 & H3 & H4 & H5). sp; try assumption. eapply keeps_trans; eauto.
    - exact H.
  Qed.

  Lemma holds_bind : forall s pl r k, holds s pl r ->
    (forall s1 pl1, G s1 -> holds s1 pl1 (k s1 pl1)) -> holds s pl (bind r k).
  Proof.
    intros s pl r k H K. destruct r as [s1 pl1|s1 pl1|s1|]; try exact H.
    unfold holds in H. destruct H as (H1 & H2 & H3 & H4). unfold bind.
    apply (holds_weaken s s1 pl pl1); auto.
  Qed.

  Lemma holds_ok : forall s pl, G s -> holds s pl (ROk s pl).
  Proof. intros. unfold holds. sp; auto. apply keeps_refl. apply keeps_ok_refl. Qed.

  Lemma holds_died : forall s pl, G s -> holds s pl (RDied (die s)).
  Proof. intros. unfold holds. sp; auto. apply keeps_same_com; reflexivity. Qed.

  Lemma holds_commit_ok : forall s pl pl', G s -> length pl' <= length pl -> holds s pl (ROk (do_commit s) pl').
  Proof. intros. unfold holds. sp; auto. apply keeps_commit. split; reflexivity. Qed.

  Lemma holds_add_commit : forall s s1 pl pl', com s1 = com s -> reg s1 = reg s -> jobs s1 = jobs s ->
    alive s1 = alive s -> G s1 -> length pl' <= length pl -> holds s pl (ROk (do_commit s1) pl').
  Proof.
    intros s s1 pl pl' E1 E2 E3 E4 H L. eapply holds_weaken with (s1 := s1) (pl1 := pl).
    - apply keeps_same_com; assumption.
    - split; assumption.
    - lia.
    - apply holds_commit_ok; assumption.
  Qed.

  Lemma try_commit_holds : forall s pl, G s -> holds s pl (try_commit s pl).
  Proof.
    intros s pl H. destruct pl as [|[| |] pl']; cbn [try_commit].
    - apply (holds_commit_ok s [] []); [exact H|simpl; lia].
    - apply (holds_commit_ok s (FOk :: pl') pl'); [exact H|simpl; lia].
    - unfold holds. sp; auto. apply keeps_refl. apply keeps_ok_refl.
    - unfold holds. sp; auto. apply keeps_same_com; reflexivity.
  Qed.

  Lemma G_caught : forall s, G s -> G (caught s).
  Proof. intros. unfold caught. apply G_att. apply G_rollback. assumption. Qed.

  Lemma rec_value_loop_holds : forall v pl s, G s -> holds s pl (rec_value_loop R v s pl).
  Proof.
    induction pl as [|f pl IH]; intros s H; cbn [rec_value_loop].
    - destruct (memn v (vals (vis s))) eqn:E; [apply holds_ok; exact H|].
      apply holds_add_commit; try reflexivity; try (apply G_val; assumption); simpl; try lia.
    - destruct (memn v (vals (vis s))) eqn:E; [apply holds_ok; exact H|].
      destruct f.
      + apply holds_add_commit; try reflexivity; try (apply G_val; assumption); simpl; try lia.
      + destruct (R <? att (caught s)).
        * unfold holds. sp; [apply G_caught; exact H|apply keeps_same_com; reflexivity|split; reflexivity|simpl; lia].
        * eapply holds_weaken; [| | |apply IH; apply G_caught; exact H].
          -- split; [apply db_le_refl|reflexivity].
          -- split; reflexivity.
          -- simpl. lia.
      + apply holds_died. exact H.
  Qed.

  Lemma rec_value_holds : forall v s pl, G s -> holds s pl (rec_value R v s pl).
  Proof.
    intros. unfold rec_value. eapply holds_weaken; [| | |apply rec_value_loop_holds; apply G_att; eassumption].
    - split; [apply db_le_refl|reflexivity].
    - split; reflexivity.
    - lia.
  Qed.

  Lemma rec_values_holds : forall vs s pl, G s -> holds s pl (rec_values R vs s pl).
  Proof.
    induction vs as [|v vs IH]; intros s pl H; cbn [rec_values run_bs run_steps]; [apply holds_ok; exact H|].
    apply holds_bind; [apply rec_value_holds; exact H|]. intros. apply IH. assumption.
  Qed.

  Lemma args_loop_holds : forall vs i s pl, G s -> holds s pl (args_loop R c i vs s pl).
  Proof.
    induction vs as [|v vs IH]; intros i s pl H; cbn [args_loop]; [apply holds_ok; exact H|].
    apply holds_bind; [apply rec_value_holds; exact H|]. intros s1 pl1 H1.
    destruct (memt c (nodes (vis s1)) && memn v (vals (vis s1))) eqn:E.
    - apply andb_true_iff in E. destruct E as [E1 E2].
      eapply holds_weaken; [| | |apply IH; apply G_arg; eassumption].
      + split; [apply db_le_refl|reflexivity].
      + split; reflexivity.
      + lia.
    - apply holds_died. exact H1.
  Qed.

  Lemma add_args_loop_holds : forall vs i s pl, G s -> holds s pl (add_args_loop c i vs s pl).
  Proof.
    induction vs as [|v vs IH]; intros i s pl H; cbn [add_args_loop]; [apply holds_ok; exact H|].
    destruct (memt c (nodes (vis s)) && memn v (vals (vis s))) eqn:E.
    - apply andb_true_iff in E. destruct E as [E1 E2].
      eapply holds_weaken; [| | |apply IH; apply G_arg; eassumption].
      + split; [apply db_le_refl|reflexivity].
      + split; reflexivity.
      + lia.
    - apply holds_died. exact H.
  Qed.

  Lemma run_b_holds : forall b s pl, G s -> holds s pl (run_b R p b s pl).
  Proof.
    intros b s pl H. destruct b; cbn [run_b]; fold c.
    - destruct (negb (memt c (nodes (vis s))) && memn (t_res c) (vals (vis s))) eqn:E.
      + apply andb_true_iff in E. destruct E as [E1 E2]. apply negb_true_iff in E1.
        eapply holds_weaken; [| | |apply holds_ok; apply G_node; eassumption].
        * split; [apply db_le_refl|reflexivity].
        * split; reflexivity.
        * lia.
      + apply holds_died. exact H.
    - destruct (memt c (nodes (vis s))) eqn:E.
      + eapply holds_weaken; [| | |apply holds_ok; apply G_edges; eassumption].
        * split; [apply db_le_refl|reflexivity].
        * split; reflexivity.
        * lia.
      + destruct (recorded_edges (vis s) c 0 (t_kids c)); [apply holds_ok; exact H|apply holds_died; exact H].
    - apply holds_bind; [apply args_loop_holds; exact H|]. intros. apply try_commit_holds. assumption.
    - apply rec_values_holds. exact H.
    - apply add_args_loop_holds. exact H.
    - destruct (existsb _ (t_kids c)); [apply rec_values_holds; exact H|apply holds_ok; exact H].
    - set (new := if missing_only then filter (fun t => negb (memn t (rows (vis s) c))) (dedup (p_subtree p))
                  else dedup (p_subtree p)).
      destruct new as [|n0 new'] eqn:En; [apply holds_ok; exact H|]. rewrite <- En.
      destruct (memt c (nodes (vis s)) && forallb (fun t => negb (memn t (rows (vis s) c))) new) eqn:E.
      + apply andb_true_iff in E. destruct E as [E1 E2].
        eapply holds_weaken; [| | |apply holds_ok; apply G_subs; try eassumption].
        * split; [apply db_le_refl|reflexivity].
        * split; reflexivity.
        * lia.
        * subst new. destruct missing_only; [apply NoDup_filter|]; apply dedup_NoDup.
        * intros x Hx. apply dedup_In in Hx. subst new. destruct missing_only; [|left; exact Hx].
          destruct (memn x (rows (vis s) c)) eqn:Em; [right; apply memn_In; exact Em|].
          left. apply filter_In. split; [exact Hx|]. rewrite Em. reflexivity.
      + apply holds_died. exact H.
    - apply try_commit_holds. exact H.
  Qed.

  Lemma run_bs_holds : forall bs s pl, G s -> holds s pl (run_bs R p bs s pl).
  Proof.
    induction bs as [|b bs IH]; intros s pl H; cbn [rec_values run_bs run_steps]; [apply holds_ok; exact H|].
    apply holds_bind; [apply run_b_holds; exact H|]. intros. apply IH. assumption.
  Qed.

  Lemma run_steps_holds : forall ss s pl, G s -> holds s pl (run_steps R p ss s pl).
  Proof.
    induction ss as [|st ss IH]; intros s pl H; cbn [rec_values run_bs run_steps]; [apply holds_ok; exact H|].
    destruct st as [body|b].
    - destruct (memt (p_call p) (nodes (vis s))); [apply IH; exact H|].
      apply holds_bind; [apply run_bs_holds; exact H|]. intros. apply IH. assumption.
    - apply holds_bind; [apply run_b_holds; exact H|]. intros. apply IH. assumption.
  Qed.

  Lemma rcn_loop_holds : forall ss fuel s pl, G s -> length pl < fuel -> holds s pl (rcn_loop fuel R ss p s pl).
  Proof.
    induction fuel as [|f IH]; intros s pl H L; [lia|]. cbn [rcn_loop].
    pose proof (run_steps_holds ss s pl H) as Hs.
    destruct (run_steps R p ss s pl) as [s1 pl1|s1 pl1|s1|] eqn:E; try exact Hs.
    unfold holds in Hs. destruct Hs as (H1 & H2 & H3 & H4).
    destruct (R <? att (caught s1)).
    - unfold holds. sp; [apply G_die; apply G_caught; exact H1| |reflexivity|reflexivity|reflexivity].
      eapply keeps_trans; [exact H2|]. apply keeps_same_com; reflexivity.
    - eapply holds_weaken; [| | |apply IH; [apply G_caught; exact H1|lia]].
      + eapply keeps_trans; [exact H2|]. split; [apply db_le_refl|reflexivity].
      + eapply keeps_ok_trans; [exact H3|]. split; reflexivity.
      + lia.
  Qed.

  Lemma record_call_node_holds : forall ss s pl, G s -> holds s pl (record_call_node R ss p s pl).
  Proof.
    intros. unfold record_call_node.
    eapply holds_weaken; [| | |apply rcn_loop_holds; [apply G_att; eassumption|lia]].
    - split; [apply db_le_refl|reflexivity].
    - split; reflexivity.
    - lia.
  Qed.

  Lemma record_value_top_holds : forall v s pl, G s -> holds s pl (record_value_top R v s pl).
  Proof.
    intros v s pl H. unfold record_value_top. pose proof (rec_value_holds v s pl H) as Hs.
    destruct (rec_value R v s pl) as [s1 pl1|s1 pl1|s1|]; try exact Hs.
    unfold holds in *. destruct Hs as (H1 & H2 & H3 & H4). sp; [apply G_die; exact H1| |reflexivity|reflexivity|reflexivity].
    eapply keeps_trans; [exact H2|]. apply keeps_same_com; reflexivity.
  Qed.
End Gen.

(** [rec_value] leaves a clean session clean. *)
Lemma rec_value_loop_clean : forall R v pl s s' pl', pen s = db0 ->
  rec_value_loop R v s pl = ROk s' pl' -> pen s' = db0.
Proof.
  induction pl as [|f pl IH]; intros s s' pl' Hc H; cbn [rec_value_loop] in H.
  - destruct (memn v (vals (vis s))); inversion H; subst; [exact Hc|reflexivity].
  - destruct (memn v (vals (vis s))); [inversion H; subst; exact Hc|].
    destruct f; [inversion H; subst; reflexivity| |discriminate].
    destruct (R <? att (caught s)); [discriminate|]. eapply IH; [|exact H]. reflexivity.
Qed.
Lemma rec_value_clean : forall R v pl s s' pl', pen s = db0 -> rec_value R v s pl = ROk s' pl' -> pen s' = db0.
Proof. intros. unfold rec_value in *. eapply rec_value_loop_clean; [|eassumption]. exact H. Qed.

(** A successful [record_call_node] is a successful attempt. *)
Lemma rcn_loop_ok : forall R ss p fuel s pl s' pl', rcn_loop fuel R ss p s pl = ROk s' pl' ->
  exists s1 pl1, run_steps R p ss s1 pl1 = ROk s' pl'.
Proof.
  induction fuel as [|f IH]; intros s pl s' pl' H; cbn [rcn_loop] in H; [discriminate|].
  destruct (run_steps R p ss s pl) as [s1 pl1|s1 pl1|s1|] eqn:E; try discriminate.
  - inversion H; subst. eauto.
  - destruct (R <? att (caught s1)); [discriminate|]. eapply IH. exact H.
Qed.
