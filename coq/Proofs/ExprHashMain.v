(** C18: equal expression hashes denote the same call; pickling preserves the call and clears bookkeeping. *)
From Coq Require Import String List ZArith Ascii Bool Permutation.
From RV Require Import Base.Decimal Model.Bencode Proofs.BencodeFacts Proofs.BencodeSort Base.HashSpec
  Model.TaskHash Proofs.TaskHashSort Proofs.TaskHashMain Model.ExprHash.
Import ListNotations.
Open Scope list_scope.

Section Main.
  Variable H : bytes -> bytes.
  Hypothesis H_inj : forall x y, H x = H y -> x = y.
  Variable value : Type.
  Variable vhash : value -> bytes.
  Variable pickle : opts value -> bytes.
  Hypothesis pickle_inj : forall o o', pickle o = pickle o' -> o = o'.

  Implicit Types e : expr value.

  Definition wf e : Prop := e_kind e = KValue -> e_value e <> None.

  Definition same_args e e' : Prop :=
    map vhash (e_args e) = map vhash (e_args e') /\
    Permutation (hashed_kwargs vhash (e_kwargs e)) (hashed_kwargs vhash (e_kwargs e')).

  (** the call an expression denotes, up to the value hash of arguments *)
  Definition same_call e e' : Prop :=
    e_kind e = e_kind e' /\
    match e_kind e with
    | KValue => option_map vhash (e_value e) = option_map vhash (e_value e')
    | KSimple => e_name e = e_name e' /\ same_args e e'
    | KTask | KScheduler =>
        e_name e = e_name e' /\ same_args e e' /\ e_options e = e_options e' /\
        Permutation (e_export e) (e_export e')
    end.

  (** what the shipped SchedulerExpression hash still guarantees *)
  Definition same_call_weak e e' : Prop :=
    e_kind e = e_kind e' /\
    match e_kind e with
    | KValue => option_map vhash (e_value e) = option_map vhash (e_value e')
    | KSimple | KScheduler => e_name e = e_name e' /\ same_args e e'
    | KTask =>
        e_name e = e_name e' /\ same_args e e' /\ e_options e = e_options e' /\
        Permutation (e_export e) (e_export e')
    end.

  Lemma tag_inj k k' : expr_tag k = expr_tag k' -> k = k'.
  Proof. destruct k, k'; intros E; try reflexivity; cbv in E; discriminate. Qed.

  Lemma eargs_inj e e' : eargs_hash H vhash e = eargs_hash H vhash e' -> same_args e e'.
  Proof. unfold eargs_hash. intros E. now apply (args_hash_inj H H_inj value vhash) in E. Qed.

  Lemma export_inj e e' : export_hash H e = export_hash H e' -> Permutation (e_export e) (e_export e').
  Proof.
    unfold export_hash, export_pre. intros E. apply H_inj, pre_struct_inj in E. injection E as E.
    apply map_BStr_inj in E. now apply sort_b_perm_iff.
  Qed.

  Lemma options_inj e e' : options_hash H pickle e = options_hash H pickle e' -> e_options e = e_options e'.
  Proof. unfold options_hash. intros E. now apply H_inj, pickle_inj in E. Qed.

  Lemma is_nil_perm {A} (l l' : list A) : is_nil l = true -> is_nil l' = true -> Permutation l l'.
  Proof. destruct l, l'; try discriminate. constructor. Qed.

  Lemma is_nil_eq {A} (l l' : list A) : is_nil l = true -> is_nil l' = true -> l = l'.
  Proof. destruct l, l'; try discriminate. reflexivity. Qed.

  Lemma calc_fields ve nm e e' : expr_calc H vhash pickle ve nm e = expr_calc H vhash pickle ve nm e' ->
    e_kind e = e_kind e' /\ expr_fields H vhash pickle ve nm e = expr_fields H vhash pickle ve nm e'.
  Proof.
    unfold expr_calc, expr_pre. intros E. apply H_inj, layout_inj in E. destruct E as [E1 E2].
    split; auto. now apply tag_inj.
  Qed.

  Ltac fin :=
    repeat split; try assumption; try (apply eargs_inj; assumption); try (apply options_inj; assumption);
    try (apply export_inj; assumption); try (apply is_nil_perm; assumption); try (apply is_nil_eq; assumption).

  (** repaired SchedulerExpression hash: equal hashes, same call *)
  Theorem same_hash_same_call_fixed e e' : wf e -> wf e' ->
    expr_calc H vhash pickle Fixed [] e = expr_calc H vhash pickle Fixed [] e' -> same_call e e'.
  Proof.
    intros W W' E. apply calc_fields in E. destruct E as [K E]. unfold same_call. split; auto.
    unfold expr_fields in E. rewrite <- K in E. destruct (e_kind e) eqn:Ke.
    - destruct (is_nil (e_export e)) eqn:X, (is_nil (e_export e')) eqn:X'; cbn [app] in E; try discriminate;
        injection E; clear E; intros; fin.
    - destruct (is_nil (e_options e) && is_nil (e_export e)) eqn:X,
               (is_nil (e_options e') && is_nil (e_export e')) eqn:X'; try discriminate;
        injection E; clear E; intros; try (apply andb_true_iff in X, X'; destruct X, X'); fin.
    - injection E; clear E; intros; fin.
    - symmetry in K. destruct (e_value e) eqn:V, (e_value e') eqn:V'; try discriminate.
      + injection E as E. simpl. now rewrite E.
      + exfalso. now apply (W Ke).
  Qed.

  (** as shipped: everything but the options of scheduler expressions *)
  Theorem same_hash_same_call_shipped e e' : wf e -> wf e' ->
    expr_calc H vhash pickle AsShipped [] e = expr_calc H vhash pickle AsShipped [] e' -> same_call_weak e e'.
  Proof.
    intros W W' E. apply calc_fields in E. destruct E as [K E]. unfold same_call_weak. split; auto.
    unfold expr_fields in E. rewrite <- K in E. destruct (e_kind e) eqn:Ke.
    - destruct (is_nil (e_export e)) eqn:X, (is_nil (e_export e')) eqn:X'; cbn [app] in E; try discriminate;
        injection E; clear E; intros; fin.
    - injection E; clear E; intros; fin.
    - injection E; clear E; intros; fin.
    - symmetry in K. destruct (e_value e) eqn:V, (e_value e') eqn:V'; try discriminate.
      + injection E as E. simpl. now rewrite E.
      + exfalso. now apply (W Ke).
  Qed.

  Definition with_options e (o : opts value) (ex : list bytes) : expr value :=
    {| e_kind := e_kind e; e_name := e_name e; e_args := e_args e; e_kwargs := e_kwargs e;
       e_options := o; e_export := ex; e_value := e_value e; e_length := e_length e;
       e_hash := e_hash e; e_call_hash := e_call_hash e; e_upstreams := e_upstreams e |}.

  (** as shipped, a scheduler expression's hash does not see its options at all *)
  Theorem scheduler_options_invisible e o ex o' ex' : e_kind e = KScheduler ->
    expr_calc H vhash pickle AsShipped [] (with_options e o ex) = expr_calc H vhash pickle AsShipped [] (with_options e o' ex').
  Proof.
    intros K. unfold expr_calc, expr_pre, expr_fields. cbn [e_kind with_options]. rewrite K. reflexivity.
  Qed.

  Definition with_name e (n : bytes) : expr value :=
    {| e_kind := e_kind e; e_name := n; e_args := e_args e; e_kwargs := e_kwargs e;
       e_options := e_options e; e_export := e_export e; e_value := e_value e; e_length := e_length e;
       e_hash := e_hash e; e_call_hash := e_call_hash e; e_upstreams := e_upstreams e |}.

  (** if operator names are replaced before hashing, an operator and the name it is mapped to collide
      on the same operands (the operand tuple of [x + v] and [v + x] is the same) *)
  Theorem simple_name_map_collides ve nm r f e : e_kind e = KSimple ->
    lookup_b r nm = Some f -> lookup_b f nm = None ->
    expr_calc H vhash pickle ve nm (with_name e r) = expr_calc H vhash pickle ve nm (with_name e f).
  Proof.
    intros K R F. unfold expr_calc, expr_pre, expr_fields, map_name. cbn [e_kind e_name with_name]. rewrite K.
    rewrite R, F. reflexivity.
  Qed.

  (** the cache in [_hash] *)
  Definition cache_ok ve nm e : Prop := e_hash e = None \/ e_hash e = Some (expr_calc H vhash pickle ve nm e).

  Lemma get_hash_calc ve nm e : cache_ok ve nm e -> get_hash H vhash pickle ve nm e = expr_calc H vhash pickle ve nm e.
  Proof. unfold get_hash. intros [-> | ->]; reflexivity. Qed.

  Theorem merge_only_same_call_fixed j j' e e' : wf e -> wf e' -> cache_ok Fixed [] e -> cache_ok Fixed [] e' ->
    merge_key H vhash pickle Fixed [] j e = merge_key H vhash pickle Fixed [] j' e' -> j = j' /\ same_call e e'.
  Proof.
    unfold merge_key. intros W W' C C' E. injection E as -> E. split; auto.
    rewrite !get_hash_calc in E by assumption. now apply same_hash_same_call_fixed.
  Qed.

  (** ** pickling *)
  Variable sdata : Type.
  Variable ser_args : list value -> sdata.
  Variable deser_args : sdata -> list value.
  Variable ser_kwargs : list (bytes * value) -> sdata.
  Variable deser_kwargs : sdata -> list (bytes * value).
  Variable type_name : value -> bytes.
  Variable ser_value : value -> sdata.
  Variable deser_value : bytes -> sdata -> value.
  Hypothesis args_rt : forall a, deser_args (ser_args a) = a.
  Hypothesis kwargs_rt : forall k, deser_kwargs (ser_kwargs k) = k.
  Hypothesis value_rt : forall v, deser_value (type_name v) (ser_value v) = v.

  Notation rt := (roundtrip ser_args deser_args ser_kwargs deser_kwargs type_name ser_value deser_value).

  Definition cleared e' : Prop :=
    e_hash e' = None /\ e_call_hash e' = None /\
    e_upstreams e' = match e_kind e' with KValue => UEmpty | _ => UArgs end.

  (** well-formed per class: the fields a class does not have are at their defaults *)
  Definition class_wf e : Prop :=
    match e_kind e with
    | KTask | KScheduler => e_value e = None
    | KSimple => e_value e = None /\ e_options e = [] /\ e_export e = []
    | KValue => e_value e <> None /\ e_name e = [] /\ e_args e = [] /\ e_kwargs e = [] /\ e_options e = [] /\ e_export e = []
    end.

  Theorem pickle_roundtrip ve nm e : class_wf e ->
    exists e', rt e = Some e' /\
      e_kind e' = e_kind e /\ e_name e' = e_name e /\ e_args e' = e_args e /\ e_kwargs e' = e_kwargs e /\
      e_options e' = e_options e /\ e_export e' = e_export e /\ e_value e' = e_value e /\
      (match e_kind e with KTask | KScheduler => e_length e' = e_length e | _ => e_length e' = None end) /\
      cleared e' /\
      expr_calc H vhash pickle ve nm e' = expr_calc H vhash pickle ve nm e /\
      get_hash H vhash pickle ve nm e' = expr_calc H vhash pickle ve nm e.
  Proof.
    intros W. unfold roundtrip, getstate, class_wf in *. destruct (e_kind e) eqn:K.
    1,2: eexists; split; [reflexivity|]; cbn; rewrite args_rt, kwargs_rt; repeat split; auto;
         unfold expr_calc, expr_pre, expr_fields, eargs_hash, options_hash, export_hash, get_hash; cbn; rewrite K, ?args_rt, ?kwargs_rt; reflexivity.
    - destruct W as [V [O X]]. eexists; split; [reflexivity|]. cbn. rewrite args_rt, kwargs_rt.
      repeat split; auto;
        unfold expr_calc, expr_pre, expr_fields, eargs_hash, get_hash; cbn; rewrite K, ?args_rt, ?kwargs_rt; reflexivity.
    - destruct W as [V [N [A [KW [O X]]]]]. destruct (e_value e) as [v|] eqn:Ev; [|congruence].
      eexists; split; [reflexivity|]. cbn. rewrite value_rt.
      repeat split; auto;
        unfold expr_calc, expr_pre, expr_fields, get_hash; cbn; rewrite K, Ev, ?value_rt; reflexivity.
  Qed.
End Main.
