(** C23 — basic facts: membership, sorting, find, new_records, postprocess. *)
From Coq Require Import List NArith Bool Arith Lia Permutation.
From RV Require Import Model.Transfer.
Import ListNotations.
Open Scope list_scope.

(** ** membership *)
Lemma memN_In : forall x l, memN x l = true <-> In x l.
Proof.
  intros x l. unfold memN. rewrite existsb_exists. split.
  - intros [y [Hy He]]. apply N.eqb_eq in He. subst. exact Hy.
  - intros H. exists x. split; [exact H | apply N.eqb_refl].
Qed.
Lemma memN_false : forall x l, memN x l = false <-> ~ In x l.
Proof.
  intros x l. split.
  - intros H C. apply memN_In in C. congruence.
  - intros H. destruct (memN x l) eqn:E; [|reflexivity]. exfalso. apply H. apply memN_In. exact E.
Qed.
Lemma subsetN_incl : forall a b, subsetN a b = true <-> incl a b.
Proof.
  intros a b. unfold subsetN. rewrite forallb_forall. unfold incl. split; intros H x Hx.
  - apply memN_In. apply H. exact Hx.
  - apply memN_In. apply H. exact Hx.
Qed.
Lemma memN_ext : forall x l l', (forall y, In y l <-> In y l') -> memN x l = memN x l'.
Proof.
  intros x l l' H. destruct (memN x l) eqn:E.
  - symmetry. apply memN_In. apply H. apply memN_In. exact E.
  - symmetry. apply memN_false. intros C. apply memN_false in E. apply E. apply H. exact C.
Qed.
Lemma subsetN_ext : forall a a' b, (forall y, In y a <-> In y a') -> subsetN a b = subsetN a' b.
Proof.
  intros a a' b H. destruct (subsetN a b) eqn:E.
  - symmetry. apply subsetN_incl. apply subsetN_incl in E. intros y Hy. apply E. apply H. exact Hy.
  - symmetry. destruct (subsetN a' b) eqn:E'; [|reflexivity].
    rewrite <- E. symmetry. apply subsetN_incl. apply subsetN_incl in E'. intros y Hy. apply E'. apply H. exact Hy.
Qed.

(** ** insertion sort *)
Section Sort.
  Context {A : Type} (leb : A -> A -> bool).

  Lemma insert_perm : forall x l, Permutation (x :: l) (insert leb x l).
  Proof.
    intros x l. induction l as [|y t IH]; simpl.
    - apply Permutation_refl.
    - destruct (leb x y).
      + apply Permutation_refl.
      + eapply perm_trans; [apply perm_swap|]. apply perm_skip. exact IH.
  Qed.
  Lemma isort_perm : forall l, Permutation l (isort leb l).
  Proof.
    induction l as [|x t IH]; simpl.
    - apply perm_nil.
    - eapply perm_trans; [apply perm_skip; exact IH|]. apply insert_perm.
  Qed.
  Lemma isort_In : forall l x, In x (isort leb l) <-> In x l.
  Proof.
    intros l x. split; intros H.
    - eapply Permutation_in; [apply Permutation_sym; apply isort_perm | exact H].
    - eapply Permutation_in; [apply isort_perm | exact H].
  Qed.
  Lemma isort_length : forall l, length (isort leb l) = length l.
  Proof. intros l. symmetry. apply Permutation_length. apply isort_perm. Qed.

  (** [sorted]: each element is <= its successor *)
  Fixpoint sorted (l : list A) : Prop :=
    match l with
    | [] => True
    | x :: t => match t with [] => True | y :: _ => leb x y = true end /\ sorted t
    end.

  Lemma sorted_isort_id : forall l, sorted l -> isort leb l = l.
  Proof.
    induction l as [|x t IH]; simpl; intros H; [reflexivity|].
    destruct H as [H1 H2]. rewrite (IH H2). destruct t as [|y t']; simpl; [reflexivity|].
    rewrite H1. reflexivity.
  Qed.

  Hypothesis leb_total : forall a b, leb a b = true \/ leb b a = true.

  Lemma insert_sorted : forall x l, sorted l -> sorted (insert leb x l).
  Proof.
    intros x l. induction l as [|y t IH]; simpl; intros H.
    - split; exact I.
    - destruct (leb x y) eqn:E.
      + simpl. split; [exact E|]. exact H.
      + destruct H as [H1 H2]. specialize (IH H2).
        assert (Hyx : leb y x = true) by (destruct (leb_total x y); congruence).
        destruct t as [|z t']; simpl in *.
        * split; [exact Hyx|]. split; exact I.
        * destruct (leb x z) eqn:E2; simpl; (split; [assumption|]); exact IH.
  Qed.
  Lemma isort_sorted : forall l, sorted (isort leb l).
  Proof. induction l as [|x t IH]; simpl; [exact I|]. apply insert_sorted. exact IH. Qed.
  Lemma isort_idem : forall l, isort leb (isort leb l) = isort leb l.
  Proof. intros l. apply sorted_isort_id. apply isort_sorted. Qed.
End Sort.

Lemma Nleb_total : forall a b, N.leb a b = true \/ N.leb b a = true.
Proof. intros a b. rewrite !N.leb_le. lia. Qed.
Lemma sortN_idem : forall l, sortN (sortN l) = sortN l.
Proof. intros l. unfold sortN. apply isort_idem. exact Nleb_total. Qed.
Lemma sortN_In : forall l x, In x (sortN l) <-> In x l.
Proof. intros. unfold sortN. apply isort_In. Qed.
Lemma sortN_perm : forall l, Permutation l (sortN l).
Proof. intros. unfold sortN. apply isort_perm. Qed.

(** enumerate *)
Lemma enumerate_snd : forall A (l : list A) n, map snd (enumerate_from n l) = l.
Proof. induction l as [|x t IH]; intros n; simpl; [reflexivity|]. rewrite IH. reflexivity. Qed.
Lemma enumerate_sorted : forall (l : list id) n, sorted edge_leb_call (enumerate_from n l).
Proof.
  induction l as [|x t IH]; intros n; simpl; [exact I|].
  split; [|apply IH]. destruct t as [|y t']; simpl; [exact I|].
  unfold edge_leb_call. simpl. apply Nat.leb_le. lia.
Qed.
Lemma enumerate_isort : forall (l : list id) n,
  isort edge_leb_call (enumerate_from n l) = enumerate_from n l.
Proof. intros. apply sorted_isort_id. apply enumerate_sorted. Qed.

(** ** find *)
Lemma find_In : forall r i e, find r i = Some e -> In (i, e) r.
Proof.
  induction r as [|[k x] t IH]; simpl; intros i e H; [discriminate|].
  destruct (N.eqb k i) eqn:E.
  - apply N.eqb_eq in E. inversion H. subst. left. reflexivity.
  - right. apply IH. exact H.
Qed.
Lemma find_None : forall r i, find r i = None <-> ~ In i (ids r).
Proof.
  induction r as [|[k x] t IH]; simpl; intros i.
  - tauto.
  - destruct (N.eqb k i) eqn:E.
    + apply N.eqb_eq in E. split; [discriminate|]. intros H. exfalso. apply H. left. exact E.
    + apply N.eqb_neq in E. rewrite IH. tauto.
Qed.
Lemma find_Some_ids : forall r i e, find r i = Some e -> In i (ids r).
Proof.
  intros r i e H. destruct (in_dec N.eq_dec i (ids r)) as [Hi|Hi]; [exact Hi|].
  apply find_None in Hi. congruence.
Qed.
Lemma ids_find : forall r i, In i (ids r) -> exists e, find r i = Some e.
Proof.
  intros r i H. destruct (find r i) eqn:E; [eauto|]. apply find_None in E. contradiction.
Qed.
Lemma In_find : forall r i e, NoDup (ids r) -> In (i, e) r -> find r i = Some e.
Proof.
  induction r as [|[k x] t IH]; simpl; intros i e Hnd Hin; [contradiction|].
  inversion Hnd as [|? ? Hk Hnd']. subst.
  destruct Hin as [Hin|Hin].
  - inversion Hin. subst. rewrite N.eqb_refl. reflexivity.
  - destruct (N.eqb k i) eqn:E.
    + apply N.eqb_eq in E. subst. exfalso. apply Hk. change (In (fst (i, e)) (map fst t)).
      apply in_map. exact Hin.
    + apply IH; assumption.
Qed.
Lemma find_app : forall a b i,
  find (a ++ b) i = match find a i with Some e => Some e | None => find b i end.
Proof.
  induction a as [|[k x] t IH]; simpl; intros b i; [reflexivity|].
  destruct (N.eqb k i); [reflexivity|]. apply IH.
Qed.
Lemma find_map_keep : forall (f : id * entity -> id * entity) r i,
  (forall p, fst (f p) = fst p) ->
  find (map f r) i = option_map (fun e => snd (f (i, e))) (find r i).
Proof.
  intros f r i Hf. induction r as [|[k x] t IH]; simpl; [reflexivity|].
  specialize (Hf (k, x)) as Hk. simpl in Hk.
  destruct (f (k, x)) as [k' x'] eqn:Ef. simpl in Hk. subst k'.
  destruct (N.eqb k i) eqn:E.
  - apply N.eqb_eq in E. subst. simpl. rewrite Ef. reflexivity.
  - exact IH.
Qed.

(** ** records *)
Lemma deserialize_fst : forall rc, fst (deserialize rc) = get_pk rc.
Proof. destruct rc; reflexivity. Qed.
Lemma serialize_pk : forall cfg i e, get_pk (serialize cfg i e) = i.
Proof. destruct e; reflexivity. Qed.

Lemma get_records_pks : forall cfg r l,
  map get_pk (get_records cfg r l) = filter (fun i => memN i (ids r)) l.
Proof.
  intros cfg r l. induction l as [|i t IH]; simpl; [reflexivity|].
  destruct (find r i) eqn:E.
  - assert (H : memN i (ids r) = true) by (apply memN_In; eapply find_Some_ids; eauto).
    rewrite H. simpl. rewrite serialize_pk, IH. reflexivity.
  - assert (H : memN i (ids r) = false) by (apply memN_false; apply find_None; exact E).
    rewrite H. simpl. exact IH.
Qed.
Lemma get_records_In : forall cfg r l rc,
  In rc (get_records cfg r l) <-> exists i e, In i l /\ find r i = Some e /\ rc = serialize cfg i e.
Proof.
  intros cfg r l rc. unfold get_records. rewrite in_flat_map. split.
  - intros [i [Hi H]]. destruct (find r i) eqn:E; simpl in H; [|contradiction].
    destruct H as [H|[]]. exists i, e. auto.
  - intros [i [e [Hi [Hf ->]]]]. exists i. split; [exact Hi|]. rewrite Hf. left. reflexivity.
Qed.

Lemma new_records_spec : forall recs ex rc,
  In rc (new_records ex recs) -> In rc recs /\ ~ In (get_pk rc) ex.
Proof.
  induction recs as [|x t IH]; simpl; intros ex rc H; [contradiction|].
  destruct (memN (get_pk x) ex) eqn:E.
  - destruct (IH _ _ H). auto.
  - destruct H as [H|H].
    + subst. split; [auto|]. apply memN_false. exact E.
    + destruct (IH _ _ H) as [H1 H2]. split; [auto|]. intros C. apply H2. right. exact C.
Qed.
Lemma new_records_nodup : forall recs ex,
  NoDup (map get_pk (new_records ex recs)).
Proof.
  induction recs as [|x t IH]; simpl; intros ex; [constructor|].
  destruct (memN (get_pk x) ex) eqn:E; [apply IH|].
  simpl. constructor; [|apply IH].
  intros C. apply in_map_iff in C. destruct C as [rc [Hpk Hrc]].
  apply new_records_spec in Hrc. destruct Hrc as [_ Hn]. apply Hn. left. symmetry. exact Hpk.
Qed.
(** with distinct keys, every absent key's record is taken *)
Lemma new_records_complete : forall recs ex rc,
  NoDup (map get_pk recs) -> In rc recs -> ~ In (get_pk rc) ex -> In rc (new_records ex recs).
Proof.
  induction recs as [|x t IH]; simpl; intros ex rc Hnd Hin Hex; [contradiction|].
  inversion Hnd as [|? ? Hx Hnd']. subst.
  destruct Hin as [Hin|Hin].
  - subst. assert (E : memN (get_pk rc) ex = false) by (apply memN_false; exact Hex).
    rewrite E. left. reflexivity.
  - assert (Hne : get_pk x <> get_pk rc).
    { intros C. apply Hx. rewrite C. apply in_map. exact Hin. }
    destruct (memN (get_pk x) ex) eqn:E.
    + apply IH; assumption.
    + right. apply IH; [assumption|assumption|]. intros [C|C]; [contradiction|contradiction].
Qed.
Lemma new_records_all_existing : forall recs ex,
  (forall rc, In rc recs -> In (get_pk rc) ex) -> new_records ex recs = [].
Proof.
  induction recs as [|x t IH]; simpl; intros ex H; [reflexivity|].
  assert (E : memN (get_pk x) ex = true) by (apply memN_In; apply H; left; reflexivity).
  rewrite E. apply IH. intros rc Hrc. apply H. right. exact Hrc.
Qed.

(** ** postprocess *)
Definition pp_ent (r : repo) (i : id) (e : entity) : entity :=
  match e with
  | ETag t => if is_parent r i
              then ETag (mkTag (t_etype t) (t_entity t) (t_key t) (t_value t) (t_parents t) false)
              else e
  | _ => e
  end.
Definition strip (e : entity) : entity :=
  match e with
  | ETag t => ETag (mkTag (t_etype t) (t_entity t) (t_key t) (t_value t) (t_parents t) true)
  | _ => e
  end.
Lemma strip_pp : forall r i e, strip (pp_ent r i e) = strip e.
Proof. intros r i e. destruct e; simpl; try reflexivity. destruct (is_parent r i); reflexivity. Qed.

Lemma postprocess_as_map : forall r,
  postprocess r = map (fun p => (fst p, pp_ent r (fst p) (snd p))) r.
Proof.
  intros r. unfold postprocess. apply map_ext. intros [k e]. simpl.
  destruct e; simpl; try reflexivity. destruct (is_parent r k); reflexivity.
Qed.
Lemma postprocess_ids : forall r, ids (postprocess r) = ids r.
Proof.
  intros r. rewrite postprocess_as_map. unfold ids. rewrite map_map. reflexivity.
Qed.
Lemma find_postprocess : forall r i, find (postprocess r) i = option_map (pp_ent r i) (find r i).
Proof.
  intros r i. rewrite postprocess_as_map.
  rewrite (find_map_keep (fun p => (fst p, pp_ent r (fst p) (snd p)))); [|reflexivity].
  reflexivity.
Qed.

Definition tag_parents (e : entity) : list id := match e with ETag t => t_parents t | _ => [] end.
Lemma is_parent_spec : forall r i,
  is_parent r i = true <-> exists c e, In (c, e) r /\ In i (tag_parents e).
Proof.
  intros r i. unfold is_parent. rewrite existsb_exists. split.
  - intros [[c e] [Hin H]]. simpl in H. destruct e; try discriminate.
    exists c, (ETag t). split; [exact Hin|]. simpl. apply memN_In. exact H.
  - intros [c [e [Hin H]]]. exists (c, e). split; [exact Hin|]. simpl.
    destruct e; simpl in H; try contradiction. apply memN_In. exact H.
Qed.
Lemma pp_ent_parents : forall r i e, tag_parents (pp_ent r i e) = tag_parents e.
Proof. intros r i e. destruct e; simpl; try reflexivity. destruct (is_parent r i); reflexivity. Qed.
Lemma is_parent_postprocess : forall r i, is_parent (postprocess r) i = is_parent r i.
Proof.
  intros r i. destruct (is_parent r i) eqn:E.
  - apply is_parent_spec in E. destruct E as [c [e [Hin H]]]. apply is_parent_spec.
    exists c, (pp_ent r c e). split.
    + rewrite postprocess_as_map. apply in_map_iff. exists (c, e). auto.
    + rewrite pp_ent_parents. exact H.
  - destruct (is_parent (postprocess r) i) eqn:E'; [|reflexivity].
    apply is_parent_spec in E'. destruct E' as [c [e [Hin H]]].
    rewrite postprocess_as_map in Hin. apply in_map_iff in Hin. destruct Hin as [[c0 e0] [Heq Hin]].
    simpl in Heq. inversion Heq. subst. rewrite pp_ent_parents in H.
    rewrite <- E. symmetry. apply is_parent_spec. exists c, e0. auto.
Qed.
Lemma is_parent_app : forall a b i, is_parent (a ++ b) i = is_parent a i || is_parent b i.
Proof. intros. unfold is_parent. apply existsb_app. Qed.
