(** get_func_source: the lines before the first def-looking line are dropped. *)
From Coq Require Import List ZArith Ascii Bool.
From RV Require Import Base.Decimal Model.Bencode Model.TaskHash.
Import ListNotations.
Open Scope list_scope.

Definition no_nl (l : bytes) : Prop := Forall (fun c => Ascii.eqb c nl = false) l.

Lemma split_nl_line l : no_nl l -> split_nl l = (l, []).
Proof.
  induction 1 as [|c l Hc Hl IH]; simpl; auto. now rewrite IH, Hc.
Qed.

Lemma split_nl_app l s : no_nl l -> split_nl (l ++ nl :: s) = (l, lines s).
Proof.
  induction 1 as [|c l Hc Hl IH]; simpl.
  - unfold lines. destruct (split_nl s). reflexivity.
  - now rewrite IH, Hc.
Qed.

Lemma lines_join l ls : Forall no_nl (l :: ls) -> lines (join_nl (l :: ls)) = l :: ls.
Proof.
  revert l. induction ls as [|l' ls IH]; intros l Hall.
  - inversion Hall; subst. unfold lines. simpl. now rewrite split_nl_line.
  - inversion Hall; subst. change (join_nl (l :: l' :: ls)) with (l ++ nl :: join_nl (l' :: ls)).
    unfold lines at 1. rewrite split_nl_app by assumption. now rewrite IH.
Qed.

Lemma drop_until_app f pre x post :
  Forall (fun l => f l = false) pre -> f x = true -> drop_until f (pre ++ x :: post) = Some (x :: post).
Proof.
  induction 1 as [|p pre Hp Hpre IH]; simpl; intros Hx.
  - now rewrite Hx.
  - rewrite Hp. auto.
Qed.

Lemma drop_until_none f ls : Forall (fun l => f l = false) ls -> drop_until f ls = None.
Proof. induction 1 as [|p pre Hp Hpre IH]; simpl; auto. now rewrite Hp. Qed.

(** The decorator lines (everything before the def line) do not reach the trimmed source. *)
Theorem trim_drops_decorators v decos defl body :
  Forall no_nl (decos ++ defl :: body) ->
  Forall (fun l => is_def_line v l = false) decos ->
  is_def_line v defl = true ->
  trim_source v (join_nl (decos ++ defl :: body)) = join_nl (defl :: body).
Proof.
  intros Hnl Hd Hdef. unfold trim_source.
  destruct (decos ++ defl :: body) as [|l ls] eqn:E.
  - destruct decos; discriminate.
  - rewrite lines_join by assumption. rewrite <- E.
    now rewrite drop_until_app.
Qed.

(** Nothing looks like a def line: the source is returned whole. *)
Theorem trim_no_def v ls : ls <> [] -> Forall no_nl ls -> Forall (fun l => is_def_line v l = false) ls ->
  trim_source v (join_nl ls) = join_nl ls.
Proof.
  intros Hne Hnl Hd. unfold trim_source. destruct ls as [|l ls]; [congruence|].
  rewrite lines_join by assumption. now rewrite drop_until_none.
Qed.


Lemma join_nl_inj ls ls' : ls <> [] -> ls' <> [] -> Forall no_nl ls -> Forall no_nl ls' ->
  join_nl ls = join_nl ls' -> ls = ls'.
Proof.
  intros N N' F F' E. destruct ls as [|l ls]; [congruence|]. destruct ls' as [|l' ls']; [congruence|].
  rewrite <- (lines_join l ls F), <- (lines_join l' ls' F'). now rewrite E.
Qed.
