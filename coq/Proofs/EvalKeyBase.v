(** List / association-list facts used by the evaluation-key proofs. *)
From Coq Require Import List ZArith Ascii Bool Arith Permutation Lia.
From RV Require Import Base.Decimal Model.Bencode Base.HashSpec Proofs.BencodeFacts Proofs.BencodeSort Model.EvalKey.
Import ListNotations.
Open Scope list_scope.

Lemma bytes_eqb_spec a b : reflect (a = b) (bytes_eqb a b).
Proof.
  revert b; induction a as [|x a IH]; destruct b as [|y b]; simpl; try (constructor; congruence).
  destruct (Ascii.eqb_spec x y); simpl.
  - destruct (IH b); constructor; congruence.
  - constructor; congruence.
Qed.

Lemma bytes_eqb_refl a : bytes_eqb a a = true.
Proof. destruct (bytes_eqb_spec a a); congruence. Qed.

Lemma bytes_eqb_sym a b : bytes_eqb a b = bytes_eqb b a.
Proof. destruct (bytes_eqb_spec a b), (bytes_eqb_spec b a); congruence. Qed.

Lemma mem_In x l : mem x l = true <-> In x l.
Proof.
  unfold mem. rewrite existsb_exists. split.
  - intros [y [Hy E]]. destruct (bytes_eqb_spec x y); [subst; auto|discriminate].
  - intros Hin. exists x. split; auto. apply bytes_eqb_refl.
Qed.

Lemma mem_false x l : mem x l = false <-> ~ In x l.
Proof. rewrite <- mem_In. destruct (mem x l); split; congruence. Qed.

Lemma mem_ext x l l' : (forall y, In y l <-> In y l') -> mem x l = mem x l'.
Proof.
  intros E. destruct (mem x l) eqn:A, (mem x l') eqn:B; auto.
  - apply mem_In in A. apply E in A. apply mem_In in A. congruence.
  - apply mem_In in B. apply E in B. apply mem_In in B. congruence.
Qed.

Lemma nodupb_NoDup l : nodupb l = true <-> NoDup l.
Proof.
  induction l as [|x l IH]; simpl.
  - split; auto. constructor.
  - rewrite andb_true_iff, negb_true_iff, mem_false, IH. split.
    + intros [A B]. now constructor.
    + intros N. inversion N; auto.
Qed.

(** * assoc *)
Section Assoc.
  Context {A : Type}.
  Implicit Types l : list (bytes * A).

  Lemma assoc_app k l l' :
    assoc k (l ++ l') = match assoc k l with Some v => Some v | None => assoc k l' end.
  Proof.
    induction l as [|[k' v] l IH]; simpl; auto. destruct (bytes_eqb k k'); auto.
  Qed.

  Lemma assoc_None k l : assoc k l = None <-> ~ In k (map fst l).
  Proof.
    induction l as [|[k' v] l IH]; simpl.
    - tauto.
    - destruct (bytes_eqb_spec k k').
      + subst. split; [discriminate|]. intros N. exfalso. auto.
      + rewrite IH. split; [intros N [E|I]; [congruence|auto]|tauto].
  Qed.

  Lemma assoc_Some_In k v l : assoc k l = Some v -> In (k, v) l.
  Proof.
    induction l as [|[k' v'] l IH]; simpl; [discriminate|].
    destruct (bytes_eqb_spec k k').
    - subst. intros [= ->]. auto.
    - auto.
  Qed.

  Lemma assoc_In k v l : NoDup (map fst l) -> In (k, v) l -> assoc k l = Some v.
  Proof.
    induction l as [|[k' v'] l IH]; simpl; [tauto|]. intros N Hin. inversion N; subst.
    destruct Hin as [[= -> ->]|Hin].
    - now rewrite bytes_eqb_refl.
    - destruct (bytes_eqb_spec k k'); auto. subst. exfalso. apply H1.
      change k' with (fst (k', v)). now apply in_map.
  Qed.

  Lemma NoDup_keys_NoDup l : NoDup (map fst l) -> NoDup l.
  Proof.
    induction l as [|[k v] l IH]; simpl; intros N; [constructor|]. inversion N; subst.
    constructor; auto. intros Hin. apply H1. change k with (fst (k, v)). now apply in_map.
  Qed.

  Lemma assoc_ext_perm l l' :
    NoDup (map fst l) -> NoDup (map fst l') -> (forall k, assoc k l = assoc k l') -> Permutation l l'.
  Proof.
    intros N N' E. apply NoDup_Permutation; try now apply NoDup_keys_NoDup.
    intros [k v]. split; intros Hin.
    - apply assoc_Some_In. rewrite <- E. now apply assoc_In.
    - apply assoc_Some_In. rewrite E. now apply assoc_In.
  Qed.

  Lemma assoc_perm k l l' : NoDup (map fst l) -> Permutation l l' -> assoc k l = assoc k l'.
  Proof.
    intros N P.
    assert (N' : NoDup (map fst l')) by (eapply Permutation_NoDup; [apply Permutation_map, P|auto]).
    destruct (assoc k l) eqn:E.
    - symmetry. apply assoc_In; auto. eapply Permutation_in; [exact P|]. now apply assoc_Some_In.
    - symmetry. apply assoc_None. apply assoc_None in E. intros Hin. apply E.
      eapply Permutation_in; [apply Permutation_sym, Permutation_map, P|auto].
  Qed.
End Assoc.

Lemma assoc_map {A B} (f : A -> B) k (l : list (bytes * A)) :
  assoc k (map (fun kv => (fst kv, f (snd kv))) l) = option_map f (assoc k l).
Proof.
  induction l as [|[k' v] l IH]; simpl; auto. destruct (bytes_eqb k k'); auto.
Qed.

Lemma map_fst_map {A B} (f : A -> B) (l : list (bytes * A)) :
  map fst (map (fun kv => (fst kv, f (snd kv))) l) = map fst l.
Proof. rewrite map_map. simpl. reflexivity. Qed.

(** two key-unique association lists with the same lookup function sort to the same list *)
Lemma sort_kvs_ext {A} (l l' : list (bytes * A)) :
  NoDup (map fst l) -> NoDup (map fst l') -> (forall k, assoc k l = assoc k l') -> sort_kvs l = sort_kvs l'.
Proof.
  intros N N' E. apply sort_perm_invariant; auto. now apply assoc_ext_perm.
Qed.

Lemma sort_kvs_assoc {A} (l l' : list (bytes * A)) k :
  NoDup (map fst l) -> NoDup (map fst l') -> sort_kvs l = sort_kvs l' -> assoc k l = assoc k l'.
Proof.
  intros N N' E. apply assoc_perm; auto.
  eapply perm_trans; [apply Permutation_sym, sort_perm|]. rewrite E. apply sort_perm.
Qed.

(** * index_of *)
Lemma index_of_None x l : index_of x l = None <-> ~ In x l.
Proof.
  induction l as [|y l IH]; simpl; [tauto|].
  destruct (bytes_eqb_spec x y).
  - subst. split; [discriminate|]. intros N. exfalso. auto.
  - destruct (index_of x l); simpl.
    + split; [discriminate|]. intros N. exfalso.
      assert (E : Some n0 = None) by (apply IH; tauto). discriminate E.
    + split; auto. intros _ [E|I]; [congruence|]. now apply IH.
Qed.

Lemma index_of_Some_In x l i : index_of x l = Some i -> In x l.
Proof.
  intros E. destruct (in_dec (list_eq_dec ascii_dec) x l) as [I|N]; auto.
  apply index_of_None in N. congruence.
Qed.
