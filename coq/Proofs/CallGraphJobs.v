(** C20 — Job rows, foreign keys, tags and prov=False jobs, for every event sequence. *)
From Coq Require Import List Arith Bool Ascii Lia.
From RV Require Import Base.Decimal Model.Bencode Model.CallGraph Proofs.CallGraphHash Proofs.CallGraphInv.
Import ListNotations.
Open Scope list_scope.

Lemma lookup_info_id j l i : lookup_info j l = Some i -> ji_id i = j /\ In i l.
Proof.
  induction l as [|x l IH]; simpl; [discriminate|]. destruct (Nat.eqb (ji_id x) j) eqn:E.
  - intros [= <-]. apply Nat.eqb_eq in E. auto.
  - intros Hl. destruct (IH Hl). auto.
Qed.
Lemma lookup_jh_In j l h : lookup_jh j l = Some h -> In (j, h) l.
Proof.
  induction l as [|[k x] l IH]; simpl; [discriminate|]. destruct (Nat.eqb k j) eqn:E.
  - intros [= <-]. apply Nat.eqb_eq in E. subst. now left.
  - intros Hl. right. auto.
Qed.

(* ------------------------------------------------------------------ tags *)
Definition tag_sources (i : jobinfo) (vt : list (hash * list nat)) (jt et : list nat) : list tagrow :=
  flat_map (fun p => map (fun t => (EntValue (fst p), t)) (snd p)) vt
  ++ map (fun t => (EntJob (ji_id i), t)) jt
  ++ map (fun t => (EntExec (ji_exec i), t)) et
  ++ map (fun t => (EntTask (ji_task i), t)) (ji_task_tags i).

Lemma tag_eqb_eq a b : tag_eqb a b = true -> a = b.
Proof.
  destruct a as [e n], b as [e' n']. unfold tag_eqb. simpl. intros Hb. apply andb_true_iff in Hb.
  destruct Hb as [He Hn]. apply Nat.eqb_eq in Hn. subst. f_equal.
  destruct e, e'; simpl in He; try discriminate;
    first [destruct (beqb_spec h h0); [now subst|discriminate] | apply Nat.eqb_eq in He; now subst].
Qed.
Lemma tag_eqb_refl a : tag_eqb a a = true.
Proof.
  destruct a as [e n]. unfold tag_eqb. simpl. rewrite Nat.eqb_refl, andb_true_r.
  destruct e; simpl; auto using beqb_refl, Nat.eqb_refl.
Qed.
Lemma mem_tag_In t l : mem_tag t l = true <-> In t l.
Proof.
  unfold mem_tag. rewrite existsb_exists. split.
  - intros (x & Hx & E). apply tag_eqb_eq in E. now subst.
  - intros Hin. exists t. split; auto. apply tag_eqb_refl.
Qed.

Lemma add_tags_spec l tb x : In x (add_tags l tb) <-> In x tb \/ In x l.
Proof.
  revert tb. induction l as [|t l IH]; intros tb; simpl; [tauto|].
  rewrite IH. destruct (mem_tag t tb) eqn:E.
  - apply mem_tag_In in E. split; [tauto|]. intros [A|[<-|A]]; auto.
  - rewrite in_app_iff. simpl. tauto.
Qed.

Lemma record_tags_sound d e ts tb tb' dd x :
  record_tags d e ts tb = (tb', dd) -> In x tb' -> In x tb \/ In x (map (fun t => (e, t)) ts).
Proof.
  unfold record_tags. destruct (negb d && _); intros [= <- <-] Hin; auto. now apply add_tags_spec in Hin.
Qed.
Lemma record_tags_complete d e ts tb tb' :
  record_tags d e ts tb = (tb', false) -> forall x, In x tb \/ In x (map (fun t => (e, t)) ts) -> In x tb'.
Proof.
  unfold record_tags. destruct (negb d && _); [discriminate|]. intros [= <-] x Hin. now apply add_tags_spec.
Qed.
Lemma record_tags_dedupe e ts tb : snd (record_tags true e ts tb) = false.
Proof. reflexivity. Qed.

Lemma record_value_tags_sound d vt : forall tb tb' dd x,
  record_value_tags d vt tb = (tb', dd) -> In x tb' ->
  In x tb \/ In x (flat_map (fun p => map (fun t => (EntValue (fst p), t)) (snd p)) vt).
Proof.
  induction vt as [|[h ts] vt IH]; simpl; intros tb tb' dd x.
  - intros [= <- <-]; auto.
  - destruct (record_tags d (EntValue h) ts tb) as [tb1 d1] eqn:E. destruct d1.
    + intros [= <- <-] Hin. destruct (record_tags_sound _ _ _ _ _ _ _ E Hin); auto. right. apply in_or_app. now left.
    + intros E2 Hin. destruct (IH _ _ _ _ E2 Hin) as [A|A].
      * destruct (record_tags_sound _ _ _ _ _ _ _ E A); auto. right. apply in_or_app. now left.
      * right. apply in_or_app. now right.
Qed.
Lemma record_value_tags_complete d vt : forall tb tb',
  record_value_tags d vt tb = (tb', false) ->
  forall x, In x tb \/ In x (flat_map (fun p => map (fun t => (EntValue (fst p), t)) (snd p)) vt) -> In x tb'.
Proof.
  induction vt as [|[h ts] vt IH]; simpl; intros tb tb'.
  - intros [= <-] x [A|[]]; auto.
  - destruct (record_tags d (EntValue h) ts tb) as [tb1 d1] eqn:E. destruct d1; [discriminate|].
    intros E2 x Hin. apply (IH _ _ E2). rewrite in_app_iff in Hin.
    destruct Hin as [A|[A|A]]; auto; left; apply (record_tags_complete _ _ _ _ _ E); auto.
Qed.
Lemma record_value_tags_dedupe vt : forall tb, snd (record_value_tags true vt tb) = false.
Proof.
  induction vt as [|[h ts] vt IH]; simpl; intros tb; auto.
Qed.

Lemma record_job_tags_sound d i vt jt et tb tb' dd x :
  record_job_tags d i vt jt et tb = (tb', dd) -> In x tb' -> In x tb \/ In x (tag_sources i vt jt et).
Proof.
  unfold record_job_tags, tag_sources.
  destruct (record_value_tags d vt tb) as [t1 d1] eqn:E1. destruct d1.
  { intros [= <- <-] Hin. destruct (record_value_tags_sound _ _ _ _ _ _ E1 Hin); auto. right. rewrite in_app_iff. auto. }
  destruct (record_tags d (EntJob (ji_id i)) jt t1) as [t2 d2] eqn:E2. destruct d2.
  { intros [= <- <-] Hin. destruct (record_tags_sound _ _ _ _ _ _ _ E2 Hin) as [A|A].
    - destruct (record_value_tags_sound _ _ _ _ _ _ E1 A); auto. right. rewrite in_app_iff. auto.
    - right. rewrite !in_app_iff. auto. }
  destruct (record_tags d (EntExec (ji_exec i)) et t2) as [t3 d3] eqn:E3. destruct d3.
  { intros [= <- <-] Hin. destruct (record_tags_sound _ _ _ _ _ _ _ E3 Hin) as [A|A]; [|right; rewrite !in_app_iff; auto].
    destruct (record_tags_sound _ _ _ _ _ _ _ E2 A) as [B|B]; [|right; rewrite !in_app_iff; auto].
    destruct (record_value_tags_sound _ _ _ _ _ _ E1 B); auto. right. rewrite in_app_iff. auto. }
  intros E4 Hin. destruct (record_tags_sound _ _ _ _ _ _ _ E4 Hin) as [A0|A0]; [|right; rewrite !in_app_iff; auto].
  destruct (record_tags_sound _ _ _ _ _ _ _ E3 A0) as [A|A]; [|right; rewrite !in_app_iff; auto].
  destruct (record_tags_sound _ _ _ _ _ _ _ E2 A) as [B|B]; [|right; rewrite !in_app_iff; auto].
  destruct (record_value_tags_sound _ _ _ _ _ _ E1 B); auto. right. rewrite in_app_iff. auto.
Qed.

Lemma record_job_tags_complete d i vt jt et tb tb' :
  record_job_tags d i vt jt et tb = (tb', false) ->
  forall x, In x tb \/ In x (tag_sources i vt jt et) -> In x tb'.
Proof.
  unfold record_job_tags, tag_sources.
  destruct (record_value_tags d vt tb) as [t1 d1] eqn:E1. destruct d1; [discriminate|].
  destruct (record_tags d (EntJob (ji_id i)) jt t1) as [t2 d2] eqn:E2. destruct d2; [discriminate|].
  destruct (record_tags d (EntExec (ji_exec i)) et t2) as [t3 d3] eqn:E3. destruct d3; [discriminate|].
  intros E4 x Hin. rewrite !in_app_iff in Hin.
  apply (record_tags_complete _ _ _ _ _ E4).
  destruct Hin as [A|[A|[A|[A|A]]]]; auto; left; apply (record_tags_complete _ _ _ _ _ E3); auto; left;
    apply (record_tags_complete _ _ _ _ _ E2); auto; left; apply (record_value_tags_complete _ _ _ _ E1); auto.
Qed.

Lemma record_job_tags_dedupe i vt jt et tb : snd (record_job_tags true i vt jt et tb) = false.
Proof.
  unfold record_job_tags.
  destruct (record_value_tags true vt tb) as [t1 d1] eqn:E1.
  assert (d1 = false) by (change d1 with (snd (t1, d1)); rewrite <- E1; apply record_value_tags_dedupe). subst.
  reflexivity.
Qed.

(* ------------------------------------------------------------------ job rows *)
Lemma end_row_In j h c l row :
  In row (end_row j h c l) ->
  In row l \/ (jr_call row = h /\ exists r0, In r0 l /\ jr_id row = jr_id r0 /\ jr_parent row = jr_parent r0 /\
                                       jr_exec row = jr_exec r0 /\ jr_task row = jr_task r0).
Proof.
  induction l as [|r l IH]; simpl; [tauto|]. destruct (Nat.eqb (jr_id r) j).
  - intros [<-|Hin]; auto. right. simpl. split; auto. exists r. auto.
  - intros [<-|Hin]; auto. destruct (IH Hin) as [A|(A & r0 & B & D)]; auto. right. split; auto. exists r0. tauto.
Qed.

Section Jobs.
  Variable H : bytes -> hash.
  Variable C : cfg.
  Hypothesis guard : reg_guard C = true.

  Notation step := (step H C).
  Notation run := (run H C).

  Definition noprov (s : st) (j : nat) : Prop := exists i, lookup_info j (infos s) = Some i /\ ji_prov i = false.

  Record rt_ok (s : st) : Prop := {
    r_jh : forall j h, In (j, h) (jh s) -> recorded s h = true \/ noprov s j;
    r_reg : forall k, In k (registered s) -> exists i, lookup_info k (infos s) = Some i /\ ji_prov i = true;
    r_fk : forall row h, In row (jobs s) -> jr_call row = Some h -> recorded s h = true
  }.

  Lemma rt_ok_init : rt_ok init.
  Proof. constructor; simpl; intros; contradiction. Qed.

  Lemma recorded_record_node t a r cs s h :
    recorded s h = true -> recorded (snd (record_node H C t a r cs s)) h = true.
  Proof.
    unfold record_node. destruct (recorded s (call_hash H C t a r cs)); simpl; auto.
    unfold recorded, node_hashes. simpl. intros Hr. apply mem_h_In. apply mem_h_In in Hr.
    rewrite map_app. apply in_or_app. now left.
  Qed.
  Lemma recorded_record_node_self t a r cs s :
    recorded (snd (record_node H C t a r cs s)) (fst (record_node H C t a r cs s)) = true.
  Proof.
    unfold record_node. destruct (recorded s (call_hash H C t a r cs)) eqn:E; simpl; auto.
    unfold recorded, node_hashes. simpl. apply mem_h_In. rewrite map_app. apply in_or_app. right. now left.
  Qed.
  Lemma record_node_rt t a r cs s :
    infos (snd (record_node H C t a r cs s)) = infos s /\ jh (snd (record_node H C t a r cs s)) = jh s /\
    registered (snd (record_node H C t a r cs s)) = registered s /\ jobs (snd (record_node H C t a r cs s)) = jobs s /\
    tags (snd (record_node H C t a r cs s)) = tags s /\ execs (snd (record_node H C t a r cs s)) = execs s /\
    dead (snd (record_node H C t a r cs s)) = dead s.
  Proof. unfold record_node. destruct (recorded s _); simpl; auto 10. Qed.

  Lemma job_start_rows i s row :
    In row (jobs (job_start i s)) ->
    In row (jobs s) \/ (jr_call row = None /\ jr_id row = ji_id i /\ jr_parent row = ji_parent i /\
                        jr_exec row = ji_exec i /\ jr_task row = ji_task i).
  Proof.
    unfold job_start. destruct (has_job _ _); simpl; auto. rewrite in_app_iff. simpl. intros [A|[<-|[]]]; auto.
    right. simpl. auto.
  Qed.
  Lemma job_start_rt i s :
    cns (job_start i s) = cns s /\ infos (job_start i s) = infos s /\ jh (job_start i s) = jh s /\
    registered (job_start i s) = registered s /\ tags (job_start i s) = tags s /\ dead (job_start i s) = dead s.
  Proof. unfold job_start. destruct (has_job _ _); simpl; auto 10. Qed.

  Lemma recorded_cns s s' h : cns s' = cns s -> recorded s' h = recorded s h.
  Proof. unfold recorded, node_hashes. now intros ->. Qed.

  (** What [job_end] does to the invariant-relevant parts. *)
  Lemma job_end_spec i h c s :
    let s' := job_end i (Some h) c s in
    cns s' = cns s /\ infos s' = infos s /\ jh s' = jh s /\ registered s' = registered s /\ tags s' = tags s /\
    (forall row x, In row (jobs s') -> jr_call row = Some x ->
                   (In row (jobs s) \/ (x = h /\ recorded s h = true))) /\
    (recorded s h = true -> dead s' = dead s).
  Proof.
    simpl. unfold job_end. destruct (job_start_rt i s) as (A & B & D & E & F & G).
    rewrite (recorded_cns s (job_start i s) h A).
    destruct (recorded s h) eqn:R; simpl; repeat split; auto.
    - intros row x Hin Hx. apply end_row_In in Hin. destruct Hin as [Hin|[Hc _]].
      + apply job_start_rows in Hin. destruct Hin as [Hin|[Hn _]]; auto. congruence.
      + right. split; auto. congruence.
    - intros row x Hin Hx. apply job_start_rows in Hin. destruct Hin as [Hin|[Hn _]]; auto. congruence.
    - discriminate.
  Qed.

  Lemma noprov_infos s s' j : infos s' = infos s -> noprov s j -> noprov s' j.
  Proof. unfold noprov. now intros ->. Qed.

  Lemma finish_rt i ok cached a r ch vt jt et s :
    lookup_info (ji_id i) (infos s) = Some i -> rt_ok s ->
    rt_ok (finish H C i ok cached a r ch vt jt et s) /\
    (tags_dedupe C = true -> dead s = false -> dead (finish H C i ok cached a r ch vt jt et s) = false).
  Proof.
    intros Hi R. unfold finish. set (cs := child_hashes (jh s) ch). set (known := lookup_jh (ji_id i) (jh s)).
    destruct (ji_prov i) eqn:P.
    - set (keep := match known with Some _ => if ok then true else reject_adopts C | None => false end).
      set (pr := match known, keep with Some h, true => (h, s) | _, _ => record_node H C (ji_task i) a r cs s end).
      assert (D : recorded (snd pr) (fst pr) = true /\ (forall x, recorded s x = true -> recorded (snd pr) x = true) /\
                  infos (snd pr) = infos s /\ jh (snd pr) = jh s /\ registered (snd pr) = registered s /\
                  jobs (snd pr) = jobs s /\ dead (snd pr) = dead s).
      { subst pr. destruct known as [h|] eqn:K.
        - destruct keep.
          + simpl. repeat split; auto. apply lookup_jh_In in K. destruct (r_jh s R _ _ K) as [A|(i' & A & B)]; auto.
            rewrite Hi in A. injection A as <-. congruence.
          + destruct (record_node_rt (ji_task i) a r cs s) as (A1 & A2 & A3 & A4 & A5 & A6 & A7).
            repeat split; auto using recorded_record_node_self, recorded_record_node.
        - destruct (record_node_rt (ji_task i) a r cs s) as (A1 & A2 & A3 & A4 & A5 & A6 & A7).
          repeat split; auto using recorded_record_node_self, recorded_record_node. }
      destruct pr as [h s1]. simpl in D. destruct D as (D1 & D2 & D3 & D4 & D5 & D6 & D7).
      destruct (record_job_tags (tags_dedupe C) i vt jt et (tags (with_jh s1 (set_jh (ji_id i) h (jh s1))))) as [tb d] eqn:ET.
      assert (Hjh : forall j x, In (j, x) ((ji_id i, h) :: jh s) -> recorded s1 x = true \/ noprov s j).
      { intros j x [[= <- <-]|Hin]; auto. destruct (r_jh s R _ _ Hin); auto. }
      destruct d.
      + split.
        * constructor; simpl.
          -- intros j x Hin. rewrite D4 in Hin. destruct (Hjh j x Hin) as [A|A]; auto. right. eapply noprov_infos; [|exact A]. auto.
          -- intros k Hk. rewrite D5 in Hk. rewrite D3. now apply (r_reg s R).
          -- intros row x Hin Hx. rewrite D6 in Hin. apply D2. eapply (r_fk s R); eauto.
        * intros Hd _. exfalso.
          assert (d' : snd (record_job_tags (tags_dedupe C) i vt jt et (tags (with_jh s1 (set_jh (ji_id i) h (jh s1))))) = true)
            by (rewrite ET; reflexivity).
          rewrite Hd, record_job_tags_dedupe in d'. discriminate.
      + set (s3 := with_tags (with_jh s1 (set_jh (ji_id i) h (jh s1))) tb false).
        destruct (job_end_spec i h cached s3) as (E1 & E2 & E3 & E4 & E5 & E6 & E7).
        assert (R3 : recorded s3 h = true) by (rewrite (recorded_cns s1 s3 h eq_refl); exact D1).
        split.
        * constructor.
          -- intros j x Hin. rewrite E3 in Hin. simpl in Hin. rewrite D4 in Hin.
             destruct (Hjh j x Hin) as [A|A].
             ++ left. rewrite (recorded_cns s3 _ x E1). exact A.
             ++ right. eapply noprov_infos; [|exact A]. rewrite E2. simpl. auto.
          -- intros k Hk. rewrite E4 in Hk. simpl in Hk. rewrite D5 in Hk. rewrite E2. simpl. rewrite D3. now apply (r_reg s R).
          -- intros row x Hin Hx. rewrite (recorded_cns s3 _ x E1).
             destruct (E6 row x Hin Hx) as [A|[-> A]]; auto. simpl in A. rewrite D6 in A.
             change (recorded s1 x = true). apply D2. eapply (r_fk s R); eauto.
        * intros _ Hd. rewrite (E7 R3). simpl. rewrite D7, Hd. reflexivity.
    - destruct ok; [|split; auto].
      split; [|simpl; auto]. constructor; simpl.
      + intros j x [[= <- <-]|Hin].
        * right. exists i. auto.
        * apply (r_jh s R _ _ Hin).
      + apply (r_reg s R).
      + apply (r_fk s R).
  Qed.

  Lemma step_rt s e :
    rt_ok s -> rt_ok (step s e) /\ (tags_dedupe C = true -> dead s = false -> dead (step s e) = false).
  Proof.
    intros R. unfold CallGraph.step. destruct (dead s && negb (is_newrun e)) eqn:Ds; [split; auto|].
    destruct e as [i|j nocse|j ad|j ok cached a r ch vt jt et|].
    - destruct (lookup_info (ji_id i) (infos s)) eqn:L; [split; auto|].
      set (s1 := {| cns := cns s; edges := edges s; jobs := jobs s; execs := execs s; tags := tags s;
                    infos := i :: infos s; jh := jh s; registered := registered s; dead := dead s |}).
      assert (Hlk : forall j i0, lookup_info j (infos s) = Some i0 -> lookup_info j (i :: infos s) = Some i0).
      { intros j i0 Hl. simpl. destruct (Nat.eqb (ji_id i) j) eqn:E; auto. apply Nat.eqb_eq in E. subst. congruence. }
      assert (R1 : rt_ok s1).
      { constructor; simpl.
        - intros j h Hin. destruct (r_jh s R _ _ Hin) as [A|(i0 & A & B)]; auto. right. exists i0.
          split; [apply Hlk; exact A|exact B].
        - intros k Hk. destruct (r_reg s R _ Hk) as (i0 & A & B). exists i0. split; [apply Hlk; exact A|exact B].
        - apply (r_fk s R). }
      destruct (ji_prov i); [|split; auto].
      destruct (job_start_rt i s1) as (A & B & D & E & F & G). split; [|intros; rewrite G; auto].
      constructor.
      + intros j h Hin. rewrite D in Hin. rewrite (recorded_cns s1 _ h A).
        destruct (r_jh s1 R1 _ _ Hin) as [X|X]; auto. right. eapply noprov_infos; [|exact X]. auto.
      + intros k Hk. rewrite E in Hk. rewrite B. apply (r_reg s1 R1 _ Hk).
      + intros row h Hin Hh. rewrite (recorded_cns s1 _ h A). apply job_start_rows in Hin.
        destruct Hin as [Hin|[Hn _]]; [|congruence]. eapply (r_fk s1 R1); eauto.
    - destruct (lookup_info j (infos s)) as [i|] eqn:L; [|split; auto]. rewrite guard. simpl.
      destruct (nocse || negb (ji_prov i)) eqn:O; [split; auto|]. split; [|auto].
      apply orb_false_iff in O. destruct O as [_ O]. apply negb_false_iff in O.
      constructor; simpl.
      + apply (r_jh s R).
      + intros k [<-|Hk]; [exists i; auto|apply (r_reg s R _ Hk)].
      + apply (r_fk s R).
    - destruct (lookup_info j (infos s)) as [i|] eqn:L; [|split; auto].
      destruct (adopt_hash s ad) as [h|] eqn:A; [|split; auto]. split; [|auto].
      constructor; simpl.
      + intros j0 x [[= <- <-]|Hin]; [|apply (r_jh s R _ _ Hin)]. left.
        destruct ad as [h0|k]; simpl in A.
        * destruct (recorded s h0) eqn:E; [|discriminate]. now injection A as <-.
        * destruct (mem_n k (registered s)) eqn:E; [|discriminate]. apply mem_n_In in E.
          apply lookup_jh_In in A. destruct (r_jh s R _ _ A) as [X|(i1 & X & Y)]; auto.
          destruct (r_reg s R _ E) as (i2 & X2 & Y2). congruence.
      + apply (r_reg s R).
      + apply (r_fk s R).
    - destruct (lookup_info j (infos s)) as [i|] eqn:L; [|split; auto].
      destruct (lookup_info_id _ _ _ L) as [<- _]. destruct (finish_rt i ok cached a r ch vt jt et s L R) as [A B].
      split; auto.
    - split; [|auto]. constructor; simpl; try (intros; contradiction). apply (r_fk s R).
  Qed.

  Lemma run_rt evs s :
    rt_ok s -> rt_ok (run s evs) /\ (tags_dedupe C = true -> dead s = false -> dead (run s evs) = false).
  Proof.
    revert s. induction evs as [|e evs IH]; intros s R; simpl; [auto|].
    destruct (step_rt s e R) as [R1 D1]. destruct (IH _ R1) as [R2 D2]. split; auto.
  Qed.

  Theorem job_rows_fk evs row h :
    In row (jobs (run init evs)) -> jr_call row = Some h -> In h (map cn_hash (cns (run init evs))).
  Proof.
    intros Hin Hh. destruct (run_rt evs init rt_ok_init) as [R _]. apply mem_h_In. eapply (r_fk _ R); eauto.
  Qed.

  Theorem never_dead evs : tags_dedupe C = true -> dead (run init evs) = false.
  Proof. intros Hd. destruct (run_rt evs init rt_ok_init) as [_ D]. now apply D. Qed.
End Jobs.

(* ------------------------------------------------------------------ prov=False jobs record nothing *)
Theorem noprov_records_nothing H C i ok cached a r ch vt jt et s :
  ji_prov i = false ->
  let s' := finish H C i ok cached a r ch vt jt et s in
  cns s' = cns s /\ edges s' = edges s /\ jobs s' = jobs s /\ execs s' = execs s /\ tags s' = tags s /\ dead s' = dead s.
Proof. intros P. unfold finish. rewrite P. destruct ok; simpl; auto 10. Qed.

Theorem noprov_start_records_nothing H C i s :
  ji_prov i = false ->
  let s' := step H C s (EStart i) in
  cns s' = cns s /\ edges s' = edges s /\ jobs s' = jobs s /\ execs s' = execs s /\ tags s' = tags s.
Proof.
  intros P. unfold step. destruct (dead s && _); auto 10. destruct (lookup_info _ _); auto 10. rewrite P. simpl. auto 10.
Qed.

(** A prov=False job that succeeds still gets the Merkle hash of its (unrecorded) call, so that its parent's hash
    covers it. *)
Theorem noprov_hash H C i cached a r ch vt jt et s :
  ji_prov i = false -> lookup_jh (ji_id i) (jh s) = None ->
  lookup_jh (ji_id i) (jh (finish H C i true cached a r ch vt jt et s)) =
  Some (call_hash H C (ji_task i) a r (child_hashes (jh s) ch)).
Proof. intros P K. unfold finish. rewrite P, K. simpl. now rewrite Nat.eqb_refl. Qed.
