(** C25: the work-list traversal of rollback_handle computes exactly the strict descendants of the
    handle over the queried pairs, and never runs out of the fuel the model gives it. *)
From Coq Require Import List NArith Bool Arith Lia.
From RV Require Import Model.Handles.
Import ListNotations.
Open Scope list_scope.

Lemma hid_eqb_eq : forall a b, hid_eqb a b = true <-> a = b.
Proof.
  intros [a1 a2] [b1 b2]. unfold hid_eqb. simpl. rewrite andb_true_iff, !N.eqb_eq.
  split; [intros [-> ->]; reflexivity | intros [= -> ->]; auto].
Qed.
Lemma hid_eqb_refl : forall a, hid_eqb a a = true.
Proof. intros. apply hid_eqb_eq. reflexivity. Qed.
Lemma hid_eqb_neq : forall a b, hid_eqb a b = false <-> a <> b.
Proof.
  intros. split; intros H.
  - intros ->. rewrite hid_eqb_refl in H. discriminate.
  - destruct (hid_eqb a b) eqn:K; [apply hid_eqb_eq in K; contradiction | reflexivity].
Qed.
Lemma hid_eq_dec : forall a b : hid, {a = b} + {a <> b}.
Proof. intros. destruct (hid_eqb a b) eqn:K; [left; apply hid_eqb_eq; auto | right; apply hid_eqb_neq; auto]. Qed.

Lemma mem_In : forall i l, mem i l = true <-> In i l.
Proof.
  intros. unfold mem. rewrite existsb_exists. split.
  - intros [x [H1 H2]]. apply hid_eqb_eq in H2. subst. exact H1.
  - intros H. exists i. split; [exact H | apply hid_eqb_refl].
Qed.
Lemma mem_false : forall i l, mem i l = false <-> ~ In i l.
Proof.
  intros. split; intros H.
  - intros K. apply mem_In in K. congruence.
  - destruct (mem i l) eqn:K; [apply mem_In in K; contradiction | reflexivity].
Qed.
Lemma edge_eqb_eq : forall a b, edge_eqb a b = true <-> a = b.
Proof.
  intros [a1 a2] [b1 b2]. unfold edge_eqb. simpl. rewrite andb_true_iff, !hid_eqb_eq.
  split; [intros [-> ->]; reflexivity | intros [= -> ->]; auto].
Qed.
Lemma mem_edge_In : forall e l, mem_edge e l = true <-> In e l.
Proof.
  intros. unfold mem_edge. rewrite existsb_exists. split.
  - intros [x [H1 H2]]. apply edge_eqb_eq in H2. subst. exact H1.
  - intros H. exists e. split; [exact H | apply edge_eqb_eq; reflexivity].
Qed.

Lemma In_succs : forall L a b, In b (succs L a) <-> In (a, b) L.
Proof.
  intros. unfold succs. rewrite in_map_iff. split.
  - intros [[p c] [H1 H2]]. simpl in H1. subst. apply filter_In in H2. destruct H2 as [H2 H3].
    simpl in H3. apply hid_eqb_eq in H3. subst. exact H2.
  - intros H. exists (a, b). split; [reflexivity|]. apply filter_In. split; [exact H|]. simpl. apply hid_eqb_refl.
Qed.
Lemma filter_length_le : forall (A : Type) (f : A -> bool) l, length (filter f l) <= length l.
Proof. intros. induction l as [|x l IH]; simpl; [lia|]. destruct (f x); simpl; lia. Qed.
Lemma succs_length : forall L a, length (succs L a) <= length L.
Proof. intros. unfold succs. rewrite map_length. apply filter_length_le. Qed.

Definition erel (L : list (hid * hid)) : hid -> hid -> Prop := fun a b => In (a, b) L.

Lemma tc_mono : forall (R R' : hid -> hid -> Prop), (forall a b, R a b -> R' a b) ->
  forall a b, tc R a b -> tc R' a b.
Proof. intros R R' H a b T. induction T; [apply tc_one; auto | eapply tc_cons; eauto]. Qed.
Lemma tc_snoc : forall (R : hid -> hid -> Prop) a b c, tc R a b -> R b c -> tc R a c.
Proof. intros R a b c T. induction T; intros K; [eapply tc_cons; [eauto | apply tc_one; auto] | eapply tc_cons; eauto]. Qed.
Lemma tc_closed : forall (R : hid -> hid -> Prop) (P : hid -> Prop),
  (forall a b, P a -> R a b -> P b) -> forall a b, tc R a b -> (forall x, R a x -> P x) -> P b.
Proof.
  intros R P Hc a b T. induction T; intros H0; [auto|].
  apply IHT. intros x Hx. eapply Hc; [apply H0; eassumption | exact Hx].
Qed.

Section Dfs.
Variable L : list (hid * hid).

Lemma dfs_sound : forall (P : hid -> Prop), (forall a b, P a -> In (a, b) L -> P b) ->
  forall fuel q vis res, (forall x, In x q -> P x) -> (forall x, In x vis -> P x) ->
  dfs L fuel q vis = DfsOk res -> forall x, In x res -> P x.
Proof.
  intros P Hc fuel. induction fuel as [|f IH]; intros q vis res Hq Hv.
  - destruct q; simpl; [intros [= <-]; exact Hv | discriminate].
  - destruct q as [|n q]; simpl; [intros [= <-]; exact Hv|].
    destruct (mem n vis) eqn:Hm.
    + apply IH; [intros; apply Hq; right; auto | exact Hv].
    + apply IH.
      * intros x Hx. apply in_app_or in Hx. destruct Hx as [Hx|Hx].
        -- apply in_rev in Hx. apply In_succs in Hx. eapply Hc; [apply Hq; left; reflexivity | exact Hx].
        -- apply Hq. right. exact Hx.
      * intros x [<-|Hx]; [apply Hq; left; reflexivity | apply Hv; exact Hx].
Qed.

Lemma dfs_closed : forall fuel q vis res,
  (forall v w, In v vis -> In (v, w) L -> In w vis \/ In w q) ->
  dfs L fuel q vis = DfsOk res ->
  incl vis res /\ incl q res /\ (forall v w, In v res -> In (v, w) L -> In w res).
Proof.
  induction fuel as [|f IH]; intros q vis res Hinv.
  - destruct q; simpl; [|discriminate]. intros [= <-]. split; [apply incl_refl|]. split; [intros x []|].
    intros v w H1 H2. destruct (Hinv v w H1 H2) as [K|[]]. exact K.
  - destruct q as [|n q]; simpl.
    + intros [= <-]. split; [apply incl_refl|]. split; [intros x []|].
      intros v w H1 H2. destruct (Hinv v w H1 H2) as [K|[]]. exact K.
    + destruct (mem n vis) eqn:Hm; intros Hd.
      * apply mem_In in Hm. apply IH in Hd.
        -- destruct Hd as [A [B C]]. split; [exact A|]. split; [|exact C].
           intros x [<-|Hx]; [apply A; exact Hm | apply B; exact Hx].
        -- intros v w H1 H2. destruct (Hinv v w H1 H2) as [K|[K|K]]; [left; exact K | subst; left; exact Hm | right; exact K].
      * apply IH in Hd.
        -- destruct Hd as [A [B C]]. split; [intros x Hx; apply A; right; exact Hx|]. split; [|exact C].
           intros x [<-|Hx]; [apply A; left; reflexivity | apply B; apply in_or_app; right; exact Hx].
        -- intros v w [<-|H1] H2.
           ++ right. apply in_or_app. left. apply -> in_rev. apply In_succs. exact H2.
           ++ destruct (Hinv v w H1 H2) as [K|[K|K]];
                [left; right; exact K | subst; left; left; reflexivity | right; apply in_or_app; right; exact K].
Qed.

(** Fuel: every pop either removes a visited entry or visits a new node of [map snd L]. *)
Definition unvisited (vis : list hid) : nat := length (filter (fun u => negb (mem u vis)) (map snd L)).

Lemma mem_cons : forall u n vis, mem u (n :: vis) = hid_eqb u n || mem u vis.
Proof. reflexivity. Qed.

Lemma unvisited_decr : forall n vis, In n (map snd L) -> mem n vis = false ->
  S (unvisited (n :: vis)) <= unvisited vis.
Proof.
  intros n vis. unfold unvisited. induction (map snd L) as [|u U IH]; intros Hin Hm; [destruct Hin|].
  cbn [filter]. rewrite mem_cons. destruct (hid_eq_dec u n) as [->|Hne].
  - rewrite hid_eqb_refl. rewrite Hm. cbn [orb negb length]. apply le_n_S.
    clear. induction U as [|x U IH]; cbn [filter length]; [lia|]. rewrite mem_cons.
    destruct (hid_eqb x n); destruct (mem x vis); cbn [orb negb length]; lia.
  - destruct Hin as [->|Hin]; [contradiction|]. specialize (IH Hin Hm).
    assert (hid_eqb u n = false) as -> by (apply hid_eqb_neq; exact Hne). cbn [orb].
    destruct (mem u vis); cbn [negb length]; lia.
Qed.

Lemma dfs_fuel : forall fuel q vis,
  (forall x, In x q -> In x (map snd L)) ->
  length q + (length L + 1) * unvisited vis < fuel ->
  exists res, dfs L fuel q vis = DfsOk res.
Proof.
  induction fuel as [|f IH]; intros q vis Hq Hf; [lia|].
  destruct q as [|n q]; simpl; [eexists; reflexivity|].
  destruct (mem n vis) eqn:Hm.
  - apply IH; [intros; apply Hq; right; auto | simpl in Hf; lia].
  - apply IH.
    + intros x Hx. apply in_app_or in Hx. destruct Hx as [Hx|Hx]; [|apply Hq; right; exact Hx].
      apply in_rev in Hx. apply In_succs in Hx. apply in_map_iff. exists (n, x). split; [reflexivity | exact Hx].
    + pose proof (unvisited_decr n vis (Hq n (or_introl eq_refl)) Hm) as Hd.
      pose proof (succs_length L n) as Hs.
      rewrite app_length, rev_length. simpl in Hf. nia.
Qed.

Theorem dfs_spec : forall h, exists res,
  dfs L (fuel_for L) (rev (succs L h)) [] = DfsOk res /\ forall x, In x res <-> tc (erel L) h x.
Proof.
  intros h.
  destruct (dfs_fuel (fuel_for L) (rev (succs L h)) []) as [res Hres].
  - intros x Hx. apply in_rev in Hx. apply In_succs in Hx. apply in_map_iff. exists (h, x). split; [reflexivity | exact Hx].
  - pose proof (succs_length L h) as Hs. rewrite rev_length. unfold fuel_for.
    assert (unvisited [] <= length L) as Hu.
    { unfold unvisited. etransitivity; [apply filter_length_le|]. rewrite map_length. lia. }
    nia.
  - exists res. split; [exact Hres|]. intros x. split.
    + intros Hx. revert x Hx. eapply (dfs_sound (fun x => tc (erel L) h x)); [| | |exact Hres].
      * intros a b Ha Hab. eapply tc_snoc; [exact Ha | exact Hab].
      * intros y Hy. apply in_rev in Hy. apply In_succs in Hy. apply tc_one. exact Hy.
      * intros y [].
    + intros T. apply dfs_closed in Hres; [|intros v w []].
      destruct Hres as [_ [B C]].
      eapply (tc_closed (erel L) (fun x => In x res)); [| exact T |].
      * intros a b Ha Hab. eapply C; eauto.
      * intros y Hy. apply B. apply -> in_rev. apply In_succs. exact Hy.
Qed.
End Dfs.
