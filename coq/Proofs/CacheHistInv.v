(** C02 — the cache invariant and "cached run = fresh run" for one execution, for ANY task
    semantics that respects redun's file contract, in the variant whose validity check looks inside
    SimpleExpressions and whose catch() has no private entry. *)
From Coq Require Import List Arith Bool Lia.
From RV Require Import Model.CacheHist Proofs.CacheHistBase.
Import ListNotations.
Open Scope list_scope.

Section Fixed.
  Variable V : variant.
  Hypothesis Vpv : v_proj_valid V = true.
  Hypothesis Vcc : v_catch_cache V = false.
  Variable sem : semantics.

  (** redun's contract for task bodies (premises about the program family):
      - the Files in a result were current when the body returned them;
      - the reduction depends on the filesystem only through the Files in the argument and in the
        result (each identified by its stamp), and on the registry only through the hash carried
        by the recover Task values it builds. *)
  Hypothesis sem_fresh : forall t c a E0 d0 r,
    sem t c a E0 d0 = Ret r -> cur_val d0 a = true -> cur d0 r = true.
  Hypothesis sem_local : forall t c a E0 d0 E1 d1 r,
    sem t c a E0 d0 = Ret r -> cur_val d0 a = true -> cur_val d1 a = true -> cur d1 r = true ->
    exists r', sem t c a E1 d1 = Ret r' /\ sim r r'.

  (** Every Evaluation row maps its key to the single reduction of that call under the code
      identified in the key (in some state of the files in which the argument was current). *)
  Definition entry_ok (kr : key * expr) : Prop :=
    match fst kr with
    | KTask t c a => exists E0 d0, cur_val d0 a = true /\ sem t c a E0 d0 = Ret (snd kr)
    | KCatch e r _ => snd kr = e \/ exists x, snd kr = ECall r (EVal (VErr x))
    end.
  Definition InvC (C : cache) : Prop := Forall entry_ok C.

  Variable E : env.
  Variable d : disk.
  Notation ev := (eval V code_chain sem E d).

  Lemma InvC_upd : forall s t a r, InvC (s_cache s) -> cur_val d a = true -> sem t (E t) a E d = Ret r ->
    InvC (s_cache (upd (KTask t (E t) a) r s)).
  Proof. intros. constructor; auto. red. simpl. eauto. Qed.

  Lemma catch_set_id : forall k r s, catch_set V k r s = s.
  Proof. intros. unfold catch_set. now rewrite Vcc. Qed.

  Lemma InvC_catch_set : forall k r s, InvC (s_cache s) -> entry_ok (k, r) -> InvC (s_cache (catch_set V k r s)).
  Proof. clear Vcc. intros. unfold catch_set. destruct (v_catch_cache V); [constructor|]; auto. Qed.

  (** * Every recording step preserves the invariant; values stay current *)
  Lemma eval_pres : forall n s e, InvC (s_cache s) -> cur d e = true ->
    InvC (s_cache (snd (ev n s e))) /\ (forall v, fst (ev n s e) = Ok v -> cur_val d v = true).
  Proof.
    clear Vcc.   (* holds with or without catch's private entry *)
    induction n as [|n IH]; intros s e HI Hc; [simpl; split; [auto|discriminate]|].
    destruct e as [v|t a|a b|i a|e0 r c0]; simpl in Hc |- *.
    - split; [auto|]. now intros v' [= <-].
    - (* ECall *)
      destruct (IH s a HI Hc) as [HI1 Hv1]. destruct (ev n s a) as [[va|x|] s1]; simpl in *; try (split; [auto|discriminate]).
      specialize (Hv1 va eq_refl).
      assert (Hexec : let s2 := logx s1 (t, E t, va) in
                InvC (s_cache (snd (match sem t (E t) va E d with Raise x => (Err x, s2) | Ret r => ev n (upd (KTask t (E t) va) r s2) r end))) /\
                (forall v, fst (match sem t (E t) va E d with Raise x => (Err x, s2) | Ret r => ev n (upd (KTask t (E t) va) r s2) r end) = Ok v -> cur_val d v = true)).
      { simpl. destruct (sem t (E t) va E d) eqn:Hs; simpl; [split; [auto|discriminate]|].
        apply IH; [apply InvC_upd; auto|]. eapply sem_fresh; eauto. }
      rewrite get_cache_spec. destruct (lookup _ _) as [r0|] eqn:Hl; [|exact Hexec].
      rewrite Vpv. destruct (valid true E d r0) eqn:Hvd; [|exact Hexec].
      apply IH; [auto|]. eapply valid_cur; eauto.
    - (* EPair *)
      apply andb_true_iff in Hc as [Hca Hcb].
      destruct (IH s a HI Hca) as [HI1 Hv1]. destruct (ev n s a) as [[va|x|] s1]; simpl in *; try (split; [auto|discriminate]).
      destruct (IH s1 b HI1 Hcb) as [HI2 Hv2]. destruct (ev n s1 b) as [[vb|x|] s2]; simpl in *; try (split; [auto|discriminate]).
      split; [auto|]. intros v [= <-]. simpl. rewrite (Hv1 va eq_refl), (Hv2 vb eq_refl). reflexivity.
    - (* EGet *)
      destruct (IH s a HI Hc) as [HI1 Hv1]. destruct (ev n s a) as [[va|x|] s1]; simpl in *; try (split; [auto|discriminate]).
      specialize (Hv1 va eq_refl).
      destruct va; simpl in *; try (split; [auto|discriminate]).
      split; [auto|]. intros v [= <-]. apply andb_true_iff in Hv1 as [? ?]. destruct i; auto.
    - (* ECatch, with or without the private entry *)
      assert (Hrec : forall s1 x, InvC (s_cache s1) ->
                let out := if Nat.eqb x TYPEERR then (Err x, s1) else
                  match ev n s1 (ECall r (EVal (VErr x))) with
                  | (Ok v, s2) => (Ok v, catch_set V (KCatch e0 r c0) (ECall r (EVal (VErr x))) s2)
                  | other => other end in
                InvC (s_cache (snd out)) /\ (forall v, fst out = Ok v -> cur_val d v = true)).
      { intros s1 x HI1. simpl. destruct (Nat.eqb x TYPEERR); [split; [auto|discriminate]|].
        destruct (IH s1 (ECall r (EVal (VErr x))) HI1 eq_refl) as [HI2 Hv2].
        destruct (ev n s1 (ECall r (EVal (VErr x)))) as [[v|y|] s2]; simpl in *; try (split; [auto|discriminate]).
        split; [apply InvC_catch_set; [auto|red; simpl; eauto]|]. intros v' [= <-]. auto. }
      assert (Hmiss : InvC (s_cache (snd (match ev n s e0 with
                  | (Ok v, s1) => (Ok v, catch_set V (KCatch e0 r c0) e0 s1)
                  | (Err x, s1) => (if Nat.eqb x TYPEERR then (Err x, s1) else
                      match ev n s1 (ECall r (EVal (VErr x))) with
                      | (Ok v, s2) => (Ok v, catch_set V (KCatch e0 r c0) (ECall r (EVal (VErr x))) s2)
                      | other => other end)
                  | other => other end))) /\
                (forall v, fst (match ev n s e0 with
                  | (Ok v, s1) => (Ok v, catch_set V (KCatch e0 r c0) e0 s1)
                  | (Err x, s1) => (if Nat.eqb x TYPEERR then (Err x, s1) else
                      match ev n s1 (ECall r (EVal (VErr x))) with
                      | (Ok v, s2) => (Ok v, catch_set V (KCatch e0 r c0) (ECall r (EVal (VErr x))) s2)
                      | other => other end)
                  | other => other end) = Ok v -> cur_val d v = true)).
      { destruct (IH s e0 HI Hc) as [HI1 Hv1]. destruct (ev n s e0) as [[v|x|] s1]; simpl in *.
        + split; [apply InvC_catch_set; [auto|red; simpl; auto]|]. intros v' [= <-]. auto.
        + apply Hrec; auto.
        + split; [auto|discriminate]. }
      destruct (v_catch_cache V); [|exact Hmiss].
      destruct (lookup (KCatch e0 r c0) (s_cache s)) as [ce|] eqn:Hl; [|exact Hmiss].
      assert (Hce : cur d ce = true).
      { apply lookup_In in Hl. pose proof (proj1 (Forall_forall _ _) HI _ Hl) as Hent. red in Hent. simpl in Hent.
        destruct Hent as [->|[x ->]]; auto. }
      destruct (IH s ce HI Hce) as [HI1 Hv1]. destruct (ev n s ce) as [[v|x|] s1]; simpl in *.
      + split; auto.
      + apply Hrec; auto.
      + split; [auto|discriminate].
  Qed.

  (** * The result does not depend on the cache, as long as it satisfies the invariant *)
  Lemma eval_agree : forall n s s' e e', sim e e' -> InvC (s_cache s) -> InvC (s_cache s') -> cur d e = true ->
    fst (ev n s e) = fst (ev n s' e').
  Proof.
    induction n as [|n IH]; intros s s' e e' Hsim HI HI' Hc; [reflexivity|].
    assert (Hc' : cur d e' = true) by (rewrite <- (sim_cur d e e' Hsim); exact Hc).
    destruct Hsim as [v|t a a' Ha|a a' b b' Ha Hb|i a a' Ha|e0 e0' r c0 c0' He]; simpl in Hc, Hc' |- *.
    - reflexivity.
    - (* ECall *)
      pose proof (IH s s' a a' Ha HI HI' Hc) as Hargs.
      destruct (eval_pres n s a HI Hc) as [HI1 Hv1]. destruct (eval_pres n s' a' HI' Hc') as [HI1' Hv1'].
      destruct (ev n s a) as [[va|x|] s1]; destruct (ev n s' a') as [[va'|x'|] s1']; simpl in *; try discriminate; try (injection Hargs as <-); try reflexivity.
      specialize (Hv1 va eq_refl). clear Hv1'.
      (* canonical form of the call from any cache satisfying the invariant *)
      assert (Hcanon : forall s1 s0, InvC (s_cache s1) -> InvC (s_cache s0) ->
        fst (match get_cache V code_chain E d s1 (KTask t (E t) va) with
             | Some r => ev n s1 r
             | None => match sem t (E t) va E d with
                       | Raise x => (Err x, logx s1 (t, E t, va))
                       | Ret r => ev n (upd (KTask t (E t) va) r (logx s1 (t, E t, va))) r end end)
        = match sem t (E t) va E d with Raise x => Err x | Ret r => fst (ev n s0 r) end).
      { intros t1 s0 Ht1 Hs0.
        assert (Hexec : fst (match sem t (E t) va E d with
                       | Raise x => (Err x, logx t1 (t, E t, va))
                       | Ret r => ev n (upd (KTask t (E t) va) r (logx t1 (t, E t, va))) r end)
                  = match sem t (E t) va E d with Raise x => Err x | Ret r => fst (ev n s0 r) end).
        { destruct (sem t (E t) va E d) eqn:Hs; [reflexivity|].
          apply IH; [apply sim_refl|apply InvC_upd; auto|auto|]. eapply sem_fresh; eauto. }
        rewrite get_cache_spec. destruct (lookup _ _) as [r0|] eqn:Hl; [|exact Hexec].
        rewrite Vpv. destruct (valid true E d r0) eqn:Hvd; [|exact Hexec].
        apply lookup_In in Hl. pose proof (proj1 (Forall_forall _ _) Ht1 _ Hl) as Hent.
        red in Hent. simpl in Hent. destruct Hent as (E0 & d0 & Hca & Hsem).
        pose proof (valid_cur _ _ _ Hvd) as Hcr.
        destruct (sem_local _ _ _ _ _ E d _ Hsem Hca Hv1 Hcr) as (r' & Hs' & Hsim).
        rewrite Hs'. apply IH; auto. }
      rewrite (Hcanon s1 s1 HI1 HI1), (Hcanon s1' s1 HI1' HI1). reflexivity.
    - (* EPair *)
      apply andb_true_iff in Hc as [Hca Hcb]. apply andb_true_iff in Hc' as [Hca' Hcb'].
      pose proof (IH s s' a a' Ha HI HI' Hca) as H1.
      destruct (eval_pres n s a HI Hca) as [HI1 _]. destruct (eval_pres n s' a' HI' Hca') as [HI1' _].
      destruct (ev n s a) as [[va|x|] s1]; destruct (ev n s' a') as [[va'|x'|] s1']; simpl in *; try discriminate; try (injection H1 as <-); try reflexivity.
      pose proof (IH s1 s1' b b' Hb HI1 HI1' Hcb) as H2.
      destruct (ev n s1 b) as [[vb|x|] s2]; destruct (ev n s1' b') as [[vb'|x'|] s2']; simpl in *; try discriminate; try (injection H2 as <-); try reflexivity.
    - (* EGet *)
      pose proof (IH s s' a a' Ha HI HI' Hc) as H1.
      destruct (ev n s a) as [[va|x|] s1]; destruct (ev n s' a') as [[va'|x'|] s1']; simpl in *; try discriminate; try (injection H1 as <-); try reflexivity.
      destruct va; reflexivity.
    - (* ECatch *)
      rewrite Vcc.
      pose proof (IH s s' e0 e0' He HI HI' Hc) as H1.
      destruct (eval_pres n s e0 HI Hc) as [HI1 _]. destruct (eval_pres n s' e0' HI' Hc') as [HI1' _].
      destruct (ev n s e0) as [[v|x|] s1]; destruct (ev n s' e0') as [[v'|x'|] s1']; simpl in *; try discriminate; try (injection H1 as <-); try reflexivity.
      destruct (Nat.eqb x TYPEERR); [reflexivity|].
      pose proof (IH s1 s1' (ECall r (EVal (VErr x))) _ (sim_refl _) HI1 HI1' eq_refl) as H2.
      destruct (ev n s1 (ECall r (EVal (VErr x)))) as [[v|y|] s2]; destruct (ev n s1' (ECall r (EVal (VErr x)))) as [[v'|y'|] s2']; simpl in *; try discriminate; try (injection H2 as <-); try reflexivity.
  Qed.

  Lemma InvC_nil : InvC [].
  Proof. constructor. Qed.

  (** One execution: the answer on the shared backend is the answer on an empty backend. *)
  Theorem cached_eq_fresh : forall n C e, InvC C -> cur d e = true ->
    fst (ev n (mkSt C []) e) = fst (ev n (mkSt [] []) e) /\ InvC (s_cache (snd (ev n (mkSt C []) e))).
  Proof.
    intros n C e HI Hc. split.
    - apply eval_agree; auto using sim_refl, InvC_nil.
    - apply eval_pres; auto.
  Qed.
End Fixed.
