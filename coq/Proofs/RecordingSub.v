(** C03: subtree-task rows are written all-or-nothing, and (repaired variant) every shallow hit
    is sound after any history of recordings, faults, crashes, CSE/ultimate hits and imports. *)
From Coq Require Import List Arith Bool PeanoNat Lia.
From RV Require Import Model.Recording Proofs.RecordingBase Proofs.RecordingGen.
Import ListNotations.
Open Scope list_scope.

(** The rows of a call node are absent or cover the whole recorded call tree. *)
Definition atomic (d : db) : Prop := forall c, rows d c = [] \/ incl (tasks_of c) (rows d c).
Definition good (s : state) : Prop := atomic (com s) /\ atomic (vis s).

Lemma atomic_subs_eq : forall d d', subs d = subs d' -> atomic d -> atomic d'.
Proof. intros d d' E H c. rewrite <- (rows_subs_eq d d' c E). apply H. Qed.

Lemma atomic_db0 : atomic db0.
Proof. intros c. left. reflexivity. Qed.

Lemma good_att : forall s a, good s -> good (set_att s a).
Proof. intros s a H. exact H. Qed.
Lemma good_commit : forall s, good s -> good (do_commit s).
Proof.
  intros s [H1 H2]. split; [exact H2|]. unfold do_commit, vis at 1. simpl. rewrite db_app_db0_l. exact H2.
Qed.
Lemma good_rollback : forall s, good s -> good (do_rollback s).
Proof. intros s [H1 H2]. split; [exact H1|]. unfold do_rollback, vis. simpl. rewrite db_app_db0_l. exact H1. Qed.
Lemma good_die : forall s, good s -> good (die s).
Proof. intros s [H1 H2]. split; [exact H1|]. unfold die, vis. simpl. rewrite db_app_db0_l. exact H1. Qed.
Lemma good_same_subs : forall s s', com s' = com s -> subs (pen s') = subs (pen s) -> good s -> good s'.
Proof.
  intros s s' E1 E2 [H1 H2]. split; [rewrite E1; exact H1|].
  eapply atomic_subs_eq; [|exact H2]. unfold vis, db_app. simpl. rewrite E1, E2. reflexivity.
Qed.

Lemma good_add_subs : forall s c new S, good s -> incl (tasks_of c) S ->
  (forall x, In x S -> In x new \/ In x (rows (vis s) c)) -> good (add_subs c new s).
Proof.
  intros s c new S [H1 H2] Hs Hcov. split; [exact H1|]. intros c'.
  destruct (tree_eq_dec c c') as [<-|Hne].
  - right. rewrite vis_add_subs_rows_same. intros x Hx. apply in_or_app. apply Hcov. apply Hs. exact Hx.
  - rewrite vis_add_subs_rows_other by exact Hne. apply H2.
Qed.

Section Op.
  Variable p : params.
  Variable R : nat.
  Hypothesis Hsub : incl (tasks_of (p_call p)) (p_subtree p).

  Definition holds_good := holds good.

  Lemma op_good_rcn : forall ss s pl, good s -> holds good s pl (record_call_node R ss p s pl).
  Proof.
    intros. apply record_call_node_holds; try assumption.
    - exact good_att.
    - exact good_commit.
    - exact good_rollback.
    - exact good_die.
    - intros. eapply good_same_subs; [| |eassumption]; reflexivity.
    - intros. eapply good_same_subs; [| |eassumption]; reflexivity.
    - intros. eapply good_same_subs; [| |eassumption]; reflexivity.
    - intros. eapply good_same_subs; [| |eassumption]; reflexivity.
    - intros s0 new H0 _ _ _ Hcov. eapply good_add_subs; [exact H0|exact Hsub|exact Hcov].
  Qed.
End Op.

Lemma op_good_value : forall R v s pl, good s -> holds good s pl (record_value_top R v s pl).
Proof.
  intros. apply record_value_top_holds; try assumption.
  - exact good_att.
  - exact good_commit.
  - exact good_rollback.
  - exact good_die.
  - intros. eapply good_same_subs; [| |eassumption]; reflexivity.
Qed.

(** What the repaired [record_call_node] guarantees when it returns. *)
Lemma fixed_tail_post : forall R p s pl s' pl',
  run_steps R p [SB (BAddSubs true); SB BCommit] s pl = ROk s' pl' ->
  pen s' = db0 /\ incl (p_subtree p) (rows (com s') (p_call p)).
Proof.
  intros R p s pl s' pl' H. cbn [run_steps] in H.
  apply bind_ok in H. destruct H as (s1 & pl1 & H1 & H). apply bind_ok in H. destruct H as (s2 & pl2 & H2 & H).
  inversion H; subst; clear H.
  assert (Hrows : incl (p_subtree p) (rows (vis s1) (p_call p))).
  { cbn [run_b] in H1.
    set (new := filter (fun t => negb (memn t (rows (vis s) (p_call p)))) (dedup (p_subtree p))) in *.
    assert (Hcov : forall x, In x (p_subtree p) -> In x new \/ In x (rows (vis s) (p_call p))).
    { intros x Hx. destruct (memn x (rows (vis s) (p_call p))) eqn:E; [right; apply memn_In; exact E|].
      left. apply filter_In. split; [apply dedup_In; exact Hx|rewrite E; reflexivity]. }
    destruct new as [|n0 new'] eqn:En.
    - inversion H1; subst. intros x Hx. destruct (Hcov x Hx) as [[]|Hr]. exact Hr.
    - destruct (memt (p_call p) (nodes (vis s)) && _); [|discriminate]. inversion H1; subst.
      rewrite vis_add_subs_rows_same. intros x Hx. apply in_or_app. apply Hcov. exact Hx. }
  cbn [run_b] in H2. destruct pl1 as [|[| |] pl1']; cbn [try_commit] in H2; inversion H2; subst; (split; [reflexivity|exact Hrows]).
Qed.

Lemma fixed_post : forall R p s pl s' pl', run_steps R p rcn_fixed s pl = ROk s' pl' ->
  pen s' = db0 /\ incl (p_subtree p) (rows (com s') (p_call p)).
Proof.
  intros R p s pl s' pl' H. unfold rcn_fixed in H. cbn [run_steps] in H.
  destruct (memt (p_call p) (nodes (vis s))).
  - eapply fixed_tail_post. cbn [run_steps]. exact H.
  - apply bind_ok in H. destruct H as (s1 & pl1 & _ & H). eapply fixed_tail_post. cbn [run_steps]. exact H.
Qed.

(* ------------------------------------------------------------------ soundness of the lookup *)
Lemma current_sound : forall d rg c, atomic d -> current true d rg c = true -> incl (tasks_of c) rg /\ incl (tasks_of c) (rows d c).
Proof.
  intros d rg c Ha H. unfold current in H. apply andb_true_iff in H. destruct H as [H1 H2].
  apply subset_incl in H1. apply memn_In in H2.
  destruct (Ha c) as [E|Hi]; [rewrite E in H2; destruct H2|].
  split; [eapply incl_tran; eassumption|exact Hi].
Qed.

Lemma get_call_node_In : forall own d t a rg c, get_call_node own d t a rg = Some c ->
  In c (nodes d) /\ t_task c = t /\ t_args c = a /\ current own d rg c = true.
Proof.
  intros own d t a rg c H. unfold get_call_node in H.
  assert (Hin : In c (current_nodes own d t a rg)).
  { destruct (current_nodes own d t a rg); simpl in H; [discriminate|]. inversion H; subst. left. reflexivity. }
  unfold current_nodes in Hin. apply filter_In in Hin. destruct Hin as [Hn Hc].
  apply andb_true_iff in Hc. destruct Hc as [Hc H3]. apply andb_true_iff in Hc. destruct Hc as [H1 H2].
  apply Nat.eqb_eq in H1. apply nats_eqb_spec in H2. auto.
Qed.

(* ------------------------------------------------------------------ the history invariant *)
Definition jobs_ok (s : state) : Prop :=
  forall c S, In (c, S) (jobs s) ->
    incl (tasks_of c) S /\ incl (tasks_of c) (reg s) /\ incl (tasks_of c) (rows (com s) c).

Definition Inv (s : state) : Prop := good s /\ pen s = db0 /\ jobs_ok s.

Lemma Inv_st0 : Inv st0.
Proof.
  split; [split; [apply atomic_db0|intros c; left; reflexivity]|]. split; [reflexivity|]. intros c S [].
Qed.

Lemma flat_map_tasks_incl : forall (js : list (tree * list nat)),
  (forall x, In x js -> incl (tasks_of (fst x)) (snd x)) ->
  incl (flat_map tasks_of (map fst js)) (flat_map snd js).
Proof.
  induction js as [|j js IH]; intros H; simpl; [apply incl_refl|].
  apply incl_app; [apply incl_appl; apply H; left; reflexivity|apply incl_appr; apply IH; intros; apply H; right; assumption].
Qed.

Lemma jobs_ok_keep : forall s s', jobs_ok s -> keeps s s' -> jobs s' = jobs s -> jobs_ok s'.
Proof.
  intros s s' H [K1 K2] E c S Hin. rewrite E in Hin. destruct (H c S Hin) as (H1 & H2 & H3).
  split; [exact H1|]. split; [rewrite K2; exact H2|].
  eapply incl_tran; [exact H3|]. apply rows_mono. apply K1.
Qed.

Lemma jobs_ok_add : forall s c S, jobs_ok s -> incl (tasks_of c) S -> incl (tasks_of c) (reg s) ->
  incl (tasks_of c) (rows (com s) c) -> jobs_ok (set_jobs s (jobs s ++ [(c, S)])).
Proof.
  intros s c S H H1 H2 H3 c' S' Hin. simpl in Hin. apply in_app_or in Hin. destruct Hin as [Hin|[E|[]]].
  - apply H. exact Hin.
  - inversion E; subst. auto.
Qed.

Lemma hit_subtree_fixed : forall R cse full pc s c, incl (tasks_of c) (rows (vis s) c) -> incl (tasks_of c) (reg s) ->
  incl (tasks_of c) (hit_subtree (fixed R) cse full pc s c).
Proof.
  intros R cse full pc s c H1 H2 x Hx. unfold hit_subtree. simpl. right. apply filter_In.
  split; [apply H1; exact Hx|apply memn_In; apply H2; exact Hx].
Qed.

Lemma import_vals_shape : forall s0 c s4,
  com s4 = com s0 /\ subs (pen s4) = subs (pen s0) /\ jobs s4 = jobs s0 /\ reg s4 = reg s0 /\ alive s4 = alive s0 ->
  com (import_vals s4 c) = com s0 /\ subs (pen (import_vals s4 c)) = subs (pen s0) /\
  jobs (import_vals s4 c) = jobs s0 /\ reg (import_vals s4 c) = reg s0 /\ alive (import_vals s4 c) = alive s0.
Proof.
  intros s0 c. unfold import_vals. generalize (t_res c :: t_task c :: t_args c). intros l.
  induction l as [|v l IH]; intros s4 H4; cbn [fold_left]; [exact H4|].
  apply IH. destruct (memn v (vals (vis s4))); [exact H4|simpl; exact H4].
Qed.

Lemma import_one_shape : forall s c, com (import_one s c) = com s /\ subs (pen (import_one s c)) = subs (pen s) /\
  jobs (import_one s c) = jobs s /\ reg (import_one s c) = reg s /\ alive (import_one s c) = alive s.
Proof.
  intros s c. unfold import_one. destruct (memt c (nodes (vis s))); [apply import_vals_shape; auto|].
  set (s2 := add_edges _ (add_node c s)).
  assert (H2 : com s2 = com s /\ subs (pen s2) = subs (pen s) /\ jobs s2 = jobs s /\ reg s2 = reg s /\ alive s2 = alive s)
    by (subst s2; simpl; auto).
  clearbody s2.
  assert (Hargs : forall vs i s3, com s3 = com s /\ subs (pen s3) = subs (pen s) /\ jobs s3 = jobs s /\ reg s3 = reg s /\ alive s3 = alive s ->
     let s4 := (fix go (i : nat) (vs : list nat) (s : state) {struct vs} : state :=
                 match vs with [] => s | v :: vs' => go (S i) vs' (add_arg c i v s) end) i vs s3 in
     com s4 = com s /\ subs (pen s4) = subs (pen s) /\ jobs s4 = jobs s /\ reg s4 = reg s /\ alive s4 = alive s).
  { induction vs as [|v vs IH]; intros i s3 H3; simpl; [exact H3|]. apply IH. simpl. exact H3. }
  specialize (Hargs (t_args c) 0 s2 H2). simpl in Hargs.
  apply import_vals_shape. exact Hargs.
Qed.

Lemma import_fold_shape : forall l s, let s' := fold_left import_one l s in
  com s' = com s /\ subs (pen s') = subs (pen s) /\ jobs s' = jobs s /\ reg s' = reg s /\ alive s' = alive s.
Proof.
  induction l as [|c l IH]; intros s; simpl; [auto|].
  destruct (IH (import_one s c)) as (A1 & A2 & A3 & A4 & A5).
  destruct (import_one_shape s c) as (B1 & B2 & B3 & B4 & B5).
  repeat split; congruence.
Qed.

Lemma Inv_step : forall R s e, Inv s -> Inv (step_event (fixed R) s e).
Proof.
  intros R s e (Hg & Hp & Hj).
  assert (Hinv : Inv s) by (split; [exact Hg|split; [exact Hp|exact Hj]]).
  assert (Hnew : forall rg, Inv (mkst (com s) db0 0 [] rg true)).
  { intros rg. split; [|split; [reflexivity|intros c S []]].
    destruct Hg as [H1 H2]. split; [exact H1|]. unfold vis. simpl. rewrite db_app_db0_l. exact H1. }
  assert (Himp : forall roots, Inv (do_commit (fold_left import_one (dedupt (flat_map subtrees roots)) (do_rollback s)))).
  { intros roots. set (l := dedupt (flat_map subtrees roots)).
    destruct (import_fold_shape l (do_rollback s)) as (A1 & A2 & A3 & A4 & A5). fold l.
    set (s1 := fold_left import_one l (do_rollback s)) in *.
    assert (Hg1 : good s1).
    { eapply good_same_subs; [exact A1|exact A2|apply good_rollback; exact Hg]. }
    assert (Hsubs : subs (com (do_commit s1)) = subs (com s)).
    { unfold do_commit, vis, db_app. simpl. rewrite A1, A2. reflexivity. }
    split; [apply good_commit; exact Hg1|]. split; [reflexivity|].
    intros c S Hin. simpl in Hin. rewrite A3 in Hin. destruct (Hj c S Hin) as (H1 & H2 & H3).
    split; [exact H1|]. split; [simpl; rewrite A4; exact H2|].
    rewrite (rows_subs_eq _ (com s) c Hsubs). exact H3. }
  destruct e as [rg|v pl|t a r kids pl|t a|j full|roots|t a|j full]; cbn [step_event].
  - apply Hnew.
  - destruct (negb (alive s)); [exact Hinv|].
    pose proof (op_good_value R v s pl Hg) as Hh. simpl.
    destruct (record_value_top R v s pl) as [s' pl'|s' pl'|s'|] eqn:E; unfold holds in Hh.
    + destruct Hh as (G1 & K1 & [K2 K3] & _). split; [exact G1|]. split.
      * unfold record_value_top in E. destruct (rec_value R v s pl) eqn:E2; try discriminate.
        inversion E; subst. eapply rec_value_clean; eassumption.
      * eapply jobs_ok_keep; eassumption.
    + destruct Hh as (G1 & K1 & [K2 K3] & _). split; [apply good_die; exact G1|]. split; [reflexivity|]. intros c S [].
    + destruct Hh as (G1 & K1 & P1 & J1 & _). split; [exact G1|]. split; [exact P1|]. rewrite J1 || (intros c S Hin; rewrite J1 in Hin; destruct Hin).
    + destruct Hh.
  - destruct (negb (alive s)); [exact Hinv|].
    destruct (lookup_jobs (jobs s) kids) as [js|] eqn:El; [|exact Hinv].
    destruct (negb (memn t (reg s))) eqn:Et; [exact Hinv|].
    apply negb_false_iff in Et. apply memn_In in Et.
    set (c := Node t a r (map fst js)). set (sub := t :: flat_map snd js).
    assert (Hjs : forall x, In x js -> incl (tasks_of (fst x)) (snd x) /\ incl (tasks_of (fst x)) (reg s)).
    { intros [k Sk] Hx. pose proof (lookup_jobs_In _ _ _ El _ Hx) as Hin. destruct (Hj k Sk Hin) as (H1 & H2 & _). auto. }
    assert (Hsub : incl (tasks_of c) sub).
    { subst c sub. rewrite tasks_of_unfold. apply incl_cons; [left; reflexivity|].
      apply incl_tl. apply flat_map_tasks_incl. intros x Hx. apply Hjs. exact Hx. }
    assert (Hreg : incl (tasks_of c) (reg s)).
    { subst c. rewrite tasks_of_unfold. apply incl_cons; [exact Et|].
      intros x Hx. apply in_flat_map in Hx. destruct Hx as (k & Hk & Hx). apply in_map_iff in Hk.
      destruct Hk as (j & <- & Hj'). eapply (proj2 (Hjs j Hj')). exact Hx. }
    simpl c_retries. simpl c_rcn.
    pose proof (op_good_value R r s pl Hg) as Hv.
    destruct (record_value_top R r s pl) as [s1 pl1|s1 pl1|s1|] eqn:Ev; unfold holds in Hv; cbn [bind].
    + destruct Hv as (G1 & K1 & KO1 & _).
      pose proof (op_good_rcn (mkp c sub) R Hsub rcn_fixed s1 pl1 G1) as Hr.
      destruct (record_call_node R rcn_fixed (mkp c sub) s1 pl1) as [s2 pl2|s2 pl2|s2|] eqn:Er; unfold holds in Hr.
      * destruct Hr as (G2 & K2 & KO2 & _).
        assert (K : keeps s s2) by (eapply keeps_trans; eassumption).
        assert (KO : keeps_ok s s2) by (eapply keeps_ok_trans; eassumption).
        unfold record_call_node in Er. apply rcn_loop_ok in Er. destruct Er as (sa & pla & Er).
        apply fixed_post in Er. destruct Er as [Pc Prow]. simpl in Prow.
        split; [exact G2|]. split; [exact Pc|].
        assert (Hj2 : jobs_ok s2) by (eapply jobs_ok_keep; [exact Hj|exact K|apply KO]).
        apply jobs_ok_add; [exact Hj2|exact Hsub| |exact (incl_tran Hsub Prow)].
        destruct K as [_ K]. rewrite K. exact Hreg.
      * destruct Hr as (G2 & _). split; [apply good_die; exact G2|]. split; [reflexivity|]. intros c' S' [].
      * destruct Hr as (G2 & _ & P2 & J2 & _). split; [exact G2|]. split; [exact P2|].
        intros c' S' Hin. rewrite J2 in Hin. destruct Hin.
      * destruct Hr.
    + destruct Hv as (G1 & _). split; [apply good_die; exact G1|]. split; [reflexivity|]. intros c' S' [].
    + destruct Hv as (G1 & _ & P1 & J1 & _). split; [exact G1|]. split; [exact P1|].
      intros c' S' Hin. rewrite J1 in Hin. destruct Hin.
    + destruct Hv.
  - destruct (negb (alive s)); [exact Hinv|]. simpl c_own.
    destruct (get_call_node true (vis s) t a (reg s)) as [c|] eqn:Eg; [|exact Hinv].
    apply get_call_node_In in Eg. destruct Eg as (_ & _ & _ & Hc).
    destruct Hg as [Hg1 Hg2]. destruct (current_sound _ _ _ Hg2 Hc) as [Hr Hrows].
    split; [split; assumption|]. split; [exact Hp|].
    apply jobs_ok_add; [exact Hj| |exact Hr|rewrite <- (vis_clean s Hp); exact Hrows].
    apply hit_subtree_fixed; assumption.
  - destruct (negb (alive s)); [exact Hinv|].
    destruct (nth_error (jobs s) j) as [[c Sj]|] eqn:En; [|exact Hinv].
    destruct (memt c (nodes (vis s))); [|exact Hinv].
    apply nth_error_In in En. destruct (Hj c Sj En) as (H1 & H2 & H3).
    split; [exact Hg|]. split; [exact Hp|].
    apply jobs_ok_add; [exact Hj| |exact H2|exact H3].
    apply hit_subtree_fixed; [rewrite (vis_clean s Hp); exact H3|exact H2].
  - apply Himp.
  - destruct (negb (alive s)); [exact Hinv|]. simpl c_own.
    destruct (get_call_node true (vis s) t a (reg s)) as [c|] eqn:Eg; [|exact Hinv].
    apply get_call_node_In in Eg. destruct Eg as (_ & _ & _ & Hc).
    destruct Hg as [Hg1 Hg2]. destruct (current_sound _ _ _ Hg2 Hc) as [Hr Hrows].
    split; [split; assumption|]. split; [exact Hp|].
    apply jobs_ok_add; [exact Hj| |exact Hr|rewrite <- (vis_clean s Hp); exact Hrows].
    apply hit_subtree_fixed; assumption.
  - destruct (negb (alive s)); [exact Hinv|].
    destruct (nth_error (jobs s) j) as [[c Sj]|] eqn:En; [|exact Hinv].
    destruct (memt c (nodes (vis s))); [|exact Hinv].
    apply nth_error_In in En. destruct (Hj c Sj En) as (H1 & H2 & H3).
    split; [exact Hg|]. split; [exact Hp|].
    apply jobs_ok_add; [exact Hj| |exact H2|exact H3].
    apply hit_subtree_fixed; [rewrite (vis_clean s Hp); exact H3|exact H2].
Qed.

Lemma Inv_run : forall R es, Inv (run (fixed R) es).
Proof.
  intros R es. unfold run. generalize Inv_st0. generalize st0.
  induction es as [|e es IH]; intros s H; simpl; [exact H|]. apply IH. apply Inv_step. exact H.
Qed.

(** C03 for the repaired variant, all histories. *)
Theorem shallow_hit_sound_fixed : forall R es t a rg c,
  shallow_hit (fixed R) (run (fixed R) es) t a rg = Some c ->
  In c (nodes (com (run (fixed R) es))) /\ t_task c = t /\ t_args c = a /\ incl (tasks_of c) rg.
Proof.
  intros R es t a rg c H. destruct (Inv_run R es) as ([Hg _] & _ & _).
  unfold shallow_hit in H. simpl c_own in H. apply get_call_node_In in H. destruct H as (H1 & H2 & H3 & H4).
  destruct (current_sound _ _ _ Hg H4) as [H5 _]. auto.
Qed.

(** All-or-nothing rows hold for every configuration whose scheduler passes complete subtree sets;
    stated for the record operation alone (any step list, any fault plan, any outcome). *)
Theorem rows_all_or_nothing : forall R ss p s pl, good s -> incl (tasks_of (p_call p)) (p_subtree p) ->
  match record_call_node R ss p s pl with
  | ROk s' _ | RRaise s' _ | RDied s' => atomic (com s')
  | RFuel => False
  end.
Proof.
  intros R ss p s pl Hg Hs. pose proof (op_good_rcn p R Hs ss s pl Hg) as H.
  destruct (record_call_node R ss p s pl); unfold holds in H; try (destruct H as ([H _] & _); exact H). exact H.
Qed.
