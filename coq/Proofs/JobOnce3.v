(** A job is handed to an executor at most once. *)
From Coq Require Import List ZArith Bool Arith Lia Permutation.
From RV Require Import Model.JobMachine Proofs.JobBase Proofs.JobRes Proofs.JobRes2 Proofs.JobRes3
  Proofs.JobOnce Proofs.JobOnce2.
Import ListNotations.
Open Scope list_scope.

Definition Sle (s : state) : Prop := forall j x, getj s j = Some x -> jsubmits x <= 1.

Definition jframe (s s' : state) : Prop := map kv (jobs s') = map kv (jobs s).

Lemma Sle_jframe s s' : jframe s s' -> Sle s -> Sle s'.
Proof.
  intros F H j x' Hx'. destruct (mapkv_get s s' j x' F Hx') as (x & Hx & E).
  apply kv_fields in E. destruct E as (_ & _ & _ & _ & E). rewrite <- E. eauto.
Qed.

Lemma jframe_of_kframe s s' : kframe s s' -> jframe s s'.
Proof. intros (A & _). exact A. Qed.

Lemma jframe_trans s1 s2 s3 : jframe s1 s2 -> jframe s2 s3 -> jframe s1 s3.
Proof. unfold jframe. congruence. Qed.

Section S.
Variable c : config.

Lemma jframe_settle_one s j o : jframe s (settle_one c s j o).
Proof.
  unfold settle_one. destruct (getj s j) as [x|] eqn:Hx; [|reflexivity].
  set (s1 := if jprov x then add_recorded s (jkey x, jctx x) o else s).
  assert (Hx1 : getj s1 j = Some x) by (unfold s1; destruct (jprov x); exact Hx).
  unfold finalize. rewrite (getj_setj_same _ _ _ _ Hx1). unfold jframe. simpl.
  transitivity (map kv (jobs s1)).
  - eapply map_set_nth_same; [exact Hx1|reflexivity].
  - unfold s1. destruct (jprov x); reflexivity.
Qed.

Lemma jframe_notify o s sub : jframe s (notify_sub c o s sub).
Proof.
  unfold notify_sub. destruct (getj s sub) as [y|] eqn:Hy; [|reflexivity]. destruct o as [v|e].
  - apply jframe_of_kframe.
    eapply kframe_trans; [apply (kframe_setj s sub y (mark_cached y (Some v) PCacheQ) Hy eq_refl)|repeat split].
  - eapply jframe_trans; [|apply jframe_settle_one].
    apply jframe_of_kframe. apply (kframe_setj s sub y (mark_cached y None (jphase y)) Hy eq_refl).
Qed.

Lemma jframe_settle s j o : jframe s (settle c s j o).
Proof.
  unfold settle. destruct (getj s j); [|reflexivity].
  eapply jframe_trans; [apply (jframe_settle_one s j o)|].
  generalize (map snd (filter (fun p : nat * nat => Nat.eqb (fst p) j) (subs (settle_one c s j o)))).
  generalize (settle_one c s j o). intros s0 l. revert s0.
  induction l as [|a l IH]; intros s0; simpl; [reflexivity|].
  eapply jframe_trans; [apply (jframe_notify o s0 a)|apply IH].
Qed.

Hypothesis Hfix : release_if_holds (vr c) = true.
Hypothesis Hlim : forall r, (0 <= limit_of c r)%Z.

Lemma Sle_exec_job s i j co :
  nth_error (queue s) i = Some (EvExec j) -> Inv c s -> Sle s -> Sle (exec_job c (pop_queue s i) j co).
Proof.
  intros Hq I H. destruct (inv_pop_exec c s i j Hq I) as [I0 HF].
  set (s0 := pop_queue s i) in *. assert (H0 : Sle s0) by exact H.
  unfold exec_job. destruct (getj s0 j) as [x|] eqn:Hx; auto.
  assert (F : Free s0 j x) by (apply HF; exact Hx).
  destruct (if jnocse x then None else lookup_pending s0 (jkey x, jctx x)) as [t|].
  { eapply Sle_jframe; [|exact H0]. apply jframe_of_kframe. eapply kframe_trans; [|apply kframe_skip].
    eapply kframe_trans; [apply (kframe_setj s0 j x (with_phase x (PCollapsed t)) Hx eq_refl)|repeat split]. }
  match goal with |- Sle (match ?h with _ => _ end) => destruct h as [[v|e]|] end.
  - eapply Sle_jframe; [|exact H0]. apply jframe_of_kframe. eapply kframe_trans; [|apply kframe_skip].
    eapply kframe_trans; [apply (kframe_setj s0 j x (mark_cached x v PCacheQ) Hx eq_refl)|repeat split].
  - eapply Sle_jframe; [|exact H0]. apply jframe_of_kframe. eapply kframe_trans; [|apply kframe_skip].
    eapply kframe_trans; [apply (kframe_setj s0 j x (mark_cached x None PCacheQ) Hx eq_refl)|repeat split].
  - destruct (dryrun c).
    + destruct (jbadexec x).
      * eapply Sle_jframe; [|exact H0]. apply jframe_of_kframe.
        eapply kframe_trans; [apply (kframe_setj s0 j x (with_phase x PReported) Hx eq_refl)|repeat split].
      * eapply Sle_jframe; [|exact H0]. apply jframe_of_kframe. apply (kframe_setj s0 j x (with_phase x PDryStop) Hx eq_refl).
    + destruct (negb (within c (used s0) (jlimits x))).
      * eapply Sle_jframe; [|exact H0]. apply jframe_of_kframe.
        eapply kframe_trans; [apply (kframe_setj s0 j x (with_phase x PWaiting) Hx eq_refl)|repeat split].
      * destruct (jbadexec x).
        -- eapply Sle_jframe; [|exact H0]. apply jframe_of_kframe. eapply kframe_trans; [|repeat split].
           apply (kframe_setj (set_used s0 (consume (used s0) (jlimits x))) j x (mark_holds x PReported) Hx eq_refl).
        -- (* first and only submission: the job had never been submitted *)
           intros k z Hz. unfold getj in Hz, Hx. simpl in Hz.
           destruct (Nat.eq_dec j k) as [->|Hne].
           ++ rewrite (nth_error_set_nth_same _ _ _ _ Hx) in Hz. injection Hz as <-.
              simpl. rewrite (f_s _ _ _ F). lia.
           ++ rewrite nth_error_set_nth_other in Hz by assumption. eapply H0; eauto.
Qed.

Lemma Sle_step s o : wf_op o -> Inv c s -> Sle s -> Sle (step c s o).
Proof.
  intros Hwf I H. destruct o as [key ctx l nocse prov bad|k j0 co|j ok e|j o].
  - cbn [step]. intros k z. unfold getj. simpl.
    destruct (Nat.lt_ge_cases k (length (jobs s))) as [Hlt|Hge].
    + rewrite nth_error_app1 by assumption. apply H.
    + rewrite nth_error_app2 by assumption. destruct (k - length (jobs s)) as [|n]; simpl.
      * intros [= <-]. simpl. lia.
      * destruct n; discriminate.
  - cbn [step]. destruct (nth_error (queue s) _) as [[j|j|j e|j v]|] eqn:Hq; auto.
    + now apply Sle_exec_job.
    + unfold done_job. set (s1 := maybe_release c (pop_queue s _) j).
      assert (H1 : Sle s1).
      { eapply Sle_jframe; [|exact H]. apply jframe_of_kframe.
        eapply kframe_trans; [|apply kframe_maybe_release]. repeat split. }
      destruct (getj s1 j) as [x|] eqn:Hx; auto. destruct (jpreset x).
      * eapply Sle_jframe; [|exact H1]. apply jframe_of_kframe.
        eapply kframe_trans; [apply (kframe_setj s1 j x (with_phase x PEvalQ) Hx eq_refl)|repeat split].
      * eapply Sle_jframe; [|exact H1]. apply jframe_of_kframe. apply (kframe_setj s1 j x (with_phase x PEvaluating) Hx eq_refl).
    + unfold reject_job. eapply Sle_jframe; [|exact H].
      eapply jframe_trans; [|apply jframe_settle]. apply jframe_of_kframe.
      eapply kframe_trans; [|apply kframe_maybe_release]. repeat split.
    + unfold resolve_job. eapply Sle_jframe; [|exact H]. eapply jframe_trans; [|apply jframe_settle]. reflexivity.
  - cbn [step]. destruct (phase_is s j _); auto. destruct (getj s j) as [x|] eqn:Hx; auto.
    eapply Sle_jframe; [|exact H]. apply jframe_of_kframe.
    eapply kframe_trans; [apply (kframe_setj s j x (with_phase x PReported) Hx eq_refl)|repeat split].
  - cbn [step]. destruct (phase_is s j _); auto. destruct (getj s j) as [x|] eqn:Hx; auto.
    eapply Sle_jframe; [|exact H]. apply jframe_of_kframe.
    eapply kframe_trans; [apply (kframe_setj s j x (with_phase x PEvalQ) Hx eq_refl)|repeat split].
Qed.

Theorem Sle_run ops : Forall wf_op ops -> Sle (run c ops).
Proof.
  intros H. enough (Sle (run c ops) /\ Inv c (run c ops)) by tauto.
  unfold run. rewrite <- fold_left_rev_right. apply Forall_rev in H.
  induction H as [|o l Ho _ [IH1 IH2]]; simpl.
  - split; [intros j x; destruct j; discriminate|now apply inv_init].
  - split; [now apply Sle_step|now apply inv_step].
Qed.
End S.
