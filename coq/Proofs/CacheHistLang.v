(** C02 — the generated program family satisfies the file contract, hence (Proofs/CacheHistInv.v)
    every execution of every history returns what an empty backend would return, in the variant
    with the repaired validity check and without catch's private entry. *)
From Coq Require Import List Arith Bool Lia.
From RV Require Import Model.CacheHist Proofs.CacheHistBase Proofs.CacheHistInv.
Import ListNotations.
Open Scope list_scope.

Lemma get_proj_cur : forall d p a v, cur_val d a = true -> get_proj p a = Some v -> cur_val d v = true.
Proof.
  induction p; simpl; intros a v Ha H.
  - now injection H as <-.
  - destruct (get_proj p a) as [[| | |x y]|] eqn:Hg; try discriminate. injection H as <-.
    specialize (IHp _ _ Ha Hg). simpl in IHp. now apply andb_true_iff in IHp as [? ?].
  - destruct (get_proj p a) as [[| | |x y]|] eqn:Hg; try discriminate. injection H as <-.
    specialize (IHp _ _ Ha Hg). simpl in IHp. now apply andb_true_iff in IHp as [? ?].
Qed.

Lemma get_proj_file_agree : forall d d' p a q s, cur_val d a = true -> cur_val d' a = true ->
  get_proj p a = Some (VFile q s) -> d q = d' q.
Proof.
  intros d d' p a q s H H' Hg.
  pose proof (get_proj_cur d _ _ _ H Hg) as H1. pose proof (get_proj_cur d' _ _ _ H' Hg) as H2.
  simpl in *. apply Nat.eqb_eq in H1, H2. congruence.
Qed.

Lemma mkpair_cur : forall d x y, cur d (mkpair x y) = cur d x && cur d y.
Proof. intros d x y. destruct x, y; reflexivity. Qed.

Lemma sim_mkpair : forall x x' y y', sim x x' -> sim y y' -> sim (mkpair x y) (mkpair x' y').
Proof. intros x x' y y' Hx Hy. destruct Hx; destruct Hy; simpl; repeat constructor; auto. Qed.

Lemma mkget_some : forall i x r, mkget i x = Some r -> r = EGet i x.
Proof. intros i x r. destruct x; simpl; intros H; try discriminate; now injection H as <-. Qed.

Lemma sim_mkget : forall i x x' r, sim x x' -> mkget i x = Some r -> exists r', mkget i x' = Some r' /\ sim r r'.
Proof.
  intros i x x' r Hs H. destruct Hs; simpl in *; try discriminate; injection H as <-;
    eexists; (split; [reflexivity|]); repeat constructor; auto.
Qed.

Section Lang.
  Variable content : path -> stamp -> nat.
  Variable P : program.

  Lemma eval_tm_fresh : forall E d a t r, cur_val d a = true -> eval_tm content E d a t = Some r -> cur d r = true.
  Proof.
    intros E d a. induction t; simpl; intros r0 Ha H.
    - destruct (get_proj p a) eqn:Hg; simpl in H; [|discriminate]. injection H as <-. simpl. eapply get_proj_cur; eauto.
    - now injection H as <-.
    - injection H as <-. simpl. apply Nat.eqb_refl.
    - destruct (get_proj p a) as [[| | |]|]; try discriminate. now injection H as <-.
    - destruct (eval_tm content E d a t1) eqn:H1; [|discriminate]. destruct (eval_tm content E d a t2) eqn:H2; [|discriminate].
      injection H as <-. rewrite mkpair_cur, (IHt1 _ Ha eq_refl), (IHt2 _ Ha eq_refl). reflexivity.
    - destruct (eval_tm content E d a t0) eqn:H1; simpl in H; [|discriminate]. injection H as <-. simpl. auto.
    - destruct (eval_tm content E d a t) eqn:H1; [|discriminate]. apply mkget_some in H. subst. simpl. auto.
    - destruct (eval_tm content E d a t) eqn:H1; simpl in H; [|discriminate]. injection H as <-. simpl. auto.
  Qed.

  Lemma eval_tm_local : forall E0 d0 E1 d1 a t r, cur_val d0 a = true -> cur_val d1 a = true ->
    eval_tm content E0 d0 a t = Some r -> cur d1 r = true ->
    exists r', eval_tm content E1 d1 a t = Some r' /\ sim r r'.
  Proof.
    intros E0 d0 E1 d1 a. induction t; simpl; intros r0 Ha0 Ha1 H Hc.
    - exists r0. split; [exact H|apply sim_refl].
    - exists r0. split; [exact H|apply sim_refl].
    - injection H as <-. simpl in Hc. apply Nat.eqb_eq in Hc. rewrite Hc. eexists; split; [reflexivity|apply sim_refl].
    - destruct (get_proj p a) as [[| |q s|]|] eqn:Hg; try discriminate. injection H as <-.
      rewrite (get_proj_file_agree d0 d1 _ _ _ _ Ha0 Ha1 Hg). eexists; split; [reflexivity|apply sim_refl].
    - destruct (eval_tm content E0 d0 a t1) as [x|] eqn:H1; [|discriminate].
      destruct (eval_tm content E0 d0 a t2) as [y|] eqn:H2; [|discriminate].
      injection H as <-. rewrite mkpair_cur in Hc. apply andb_true_iff in Hc as [Hx Hy].
      destruct (IHt1 _ Ha0 Ha1 eq_refl Hx) as (x' & -> & Sx). destruct (IHt2 _ Ha0 Ha1 eq_refl Hy) as (y' & -> & Sy).
      eexists; split; [reflexivity|]. now apply sim_mkpair.
    - destruct (eval_tm content E0 d0 a t0) as [x|] eqn:H1; simpl in H; [|discriminate]. injection H as <-.
      destruct (IHt _ Ha0 Ha1 eq_refl Hc) as (x' & -> & Sx). eexists; split; [reflexivity|]. now constructor.
    - destruct (eval_tm content E0 d0 a t) as [x|] eqn:H1; [|discriminate].
      pose proof (mkget_some _ _ _ H) as ->. simpl in Hc.
      destruct (IHt _ Ha0 Ha1 eq_refl Hc) as (x' & -> & Sx). eapply sim_mkget; eauto.
    - destruct (eval_tm content E0 d0 a t) as [x|] eqn:H1; simpl in H; [|discriminate]. injection H as <-.
      destruct (IHt _ Ha0 Ha1 eq_refl Hc) as (x' & -> & Sx). eexists; split; [reflexivity|]. now constructor.
  Qed.

  Lemma eval_imm_local : forall d0 d1 a i, cur_val d0 a = true -> cur_val d1 a = true ->
    eval_imm content d0 a i = eval_imm content d1 a i.
  Proof.
    intros d0 d1 a i H0 H1. destruct i; simpl; auto.
    destruct (get_proj p a) as [[| |q s|]|] eqn:Hg; auto.
    now rewrite (get_proj_file_agree d0 d1 _ _ _ _ H0 H1 Hg).
  Qed.

  Lemma lang_fresh : forall t c a E0 d0 r,
    lang_sem content P t c a E0 d0 = Ret r -> cur_val d0 a = true -> cur d0 r = true.
  Proof.
    unfold lang_sem, run_body. intros t c a E0 d0 r H Ha.
    assert (Hret : match eval_tm content E0 d0 a (b_ret (P t c)) with Some r0 => Ret r0 | None => Raise TYPEERR end = Ret r -> cur d0 r = true).
    { destruct (eval_tm content E0 d0 a (b_ret (P t c))) eqn:He; [|discriminate]. intros [= <-]. eapply eval_tm_fresh; eauto. }
    destruct (b_guard (P t c)) as [[[i n] x]|]; [|auto].
    destruct (eval_imm content d0 a i); [|discriminate]. destruct (val_eqb v (VNum n)); [discriminate|auto].
  Qed.

  Lemma lang_local : forall t c a E0 d0 E1 d1 r,
    lang_sem content P t c a E0 d0 = Ret r -> cur_val d0 a = true -> cur_val d1 a = true -> cur d1 r = true ->
    exists r', lang_sem content P t c a E1 d1 = Ret r' /\ sim r r'.
  Proof.
    unfold lang_sem, run_body. intros t c a E0 d0 E1 d1 r H Ha0 Ha1 Hc.
    assert (Hret : match eval_tm content E0 d0 a (b_ret (P t c)) with Some r0 => Ret r0 | None => Raise TYPEERR end = Ret r ->
                   exists r', match eval_tm content E1 d1 a (b_ret (P t c)) with Some r0 => Ret r0 | None => Raise TYPEERR end = Ret r' /\ sim r r').
    { destruct (eval_tm content E0 d0 a (b_ret (P t c))) eqn:He; [|discriminate]. intros [= <-].
      destruct (eval_tm_local _ _ E1 d1 _ _ _ Ha0 Ha1 He Hc) as (r' & -> & S). eauto. }
    destruct (b_guard (P t c)) as [[[i n] x]|]; [|auto].
    rewrite <- (eval_imm_local d0 d1 a i Ha0 Ha1).
    destruct (eval_imm content d0 a i); [|discriminate]. destruct (val_eqb v (VNum n)); [discriminate|auto].
  Qed.

  (** * Histories *)
  Variable V : variant.
  Hypothesis Vpv : v_proj_valid V = true.
  Hypothesis Vcc : v_catch_cache V = false.
  Variable fuel : nat.
  Notation Inv := (InvC (lang_sem content P)).

  Lemma run_on_eq : forall h C root, Inv C ->
    fst (run_on V code_chain content P fuel h C root) = fst (run_on V code_chain content P fuel h [] root) /\
    Inv (s_cache (snd (run_on V code_chain content P fuel h C root))).
  Proof.
    intros h C root HI. unfold run_on.
    destruct (eval_tm content (env_of h) (disk_of h) (VNum 0) root) as [e|] eqn:He; [|split; [reflexivity|exact HI]].
    apply (cached_eq_fresh V Vpv Vcc (lang_sem content P) lang_fresh lang_local); [exact HI|].
    eapply eval_tm_fresh; eauto. reflexivity.
  Qed.

  (** Preservation needs only the repaired validity check; catch's private entry may be in use. *)
  Lemma run_on_inv : forall h C root, Inv C -> Inv (s_cache (snd (run_on V code_chain content P fuel h C root))).
  Proof.
    intros h C root HI. unfold run_on.
    destruct (eval_tm content (env_of h) (disk_of h) (VNum 0) root) as [e|] eqn:He; [|exact HI].
    apply (eval_pres V Vpv (lang_sem content P) lang_fresh); [exact HI|].
    eapply eval_tm_fresh; eauto. reflexivity.
  Qed.

  (** The invariant holds after every history (edits and rewrites do not touch the rows; every
      recording step of an execution preserves it). *)
  Lemma step_inv : forall h o, Inv (h_cache h) -> Inv (h_cache (fst (step V code_chain content P fuel h o))).
  Proof.
    intros h o HI. destruct o; simpl; auto.
    pose proof (run_on_inv h (h_cache h) root HI) as H.
    destruct (run_on V code_chain content P fuel h (h_cache h) root) as [r s]. exact H.
  Qed.

  Theorem hist_cached_eq_fresh : forall ops h, Inv (h_cache h) ->
    map fst (run_hist V code_chain content P fuel h ops) = map fst (run_fresh V code_chain content P fuel h ops).
  Proof.
    induction ops as [|o ops IH]; intros h HI; [reflexivity|].
    pose proof (step_inv h o HI) as HI'.
    simpl. destruct o; simpl in *; try (apply IH; exact HI').
    destruct (run_on_eq h (h_cache h) root HI) as [Hr _].
    destruct (run_on V code_chain content P fuel h (h_cache h) root) as [r s].
    destruct (run_on V code_chain content P fuel h [] root) as [r' s'].
    simpl in *. rewrite Hr. f_equal. apply IH. exact HI'.
  Qed.

  Theorem hist_inv : forall ops h, Inv (h_cache h) ->
    Inv (h_cache (fold_left (fun h o => fst (step V code_chain content P fuel h o)) ops h)).
  Proof. induction ops as [|o ops IH]; intros h HI; simpl; [exact HI|]. apply IH. now apply step_inv. Qed.
End Lang.
