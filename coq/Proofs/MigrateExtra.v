(** C36 — the only ways an upgrade can fail, and what the execution_id back-fill computes. *)
From Coq Require Import List String ZArith Bool Ascii Lia.
From RV Require Import Model.Migrate Model.MigrateChain Proofs.MigrateBase Proofs.MigratePres Proofs.MigrateChainThm
  Proofs.MigrateSchema.
Import ListNotations.
Open Scope string_scope.
Open Scope list_scope.

(* ------------------------------------------------------------------ how an upgrade can fail *)
Definition data_error (x : error) : Prop :=
  match x with ENotNull _ _ | EBadTaskName _ _ | EUnique _ _ => True | _ => False end.

Lemma apply_op_err : forall e o d x s,
  apply_op e o d = Err x -> apply_schema o (schema_of d) = Some s -> data_error x.
Proof.
  intros e o d x s H Hs. destruct o; simpl in H; simpl in Hs; unfold need, on_table in *;
    rewrite ?lookup_cols in Hs;
    repeat match type of H with
           | context [lookup ?t (d_tables d)] => destruct (lookup t (d_tables d)) as [?T|]; simpl in Hs; try discriminate
           end;
    repeat match type of H with
           | context [if ?b then _ else _] => destruct b eqn:?; simpl in *; try discriminate
           | context [match companion_rows ?a ?b with _ => _ end] => destruct (companion_rows a b) eqn:?; try discriminate
           | context [match write_rows ?a ?b ?c with _ => _ end] => destruct (write_rows a b c) eqn:?; try discriminate
           end;
    try (injection H as <-; exact I); try discriminate.
  all: try (apply negb_true_iff in Heqb; rewrite Heqb in Hs; discriminate).
  (* BackfillTaskValues *)
  all: injection H as <-.
  all: try match goal with
           | W : write_rows ?wm _ _ = Err _ |- _ =>
               destruct wm; simpl in W;
               [match type of W with context [if ?b then _ else _] => destruct b end;
                [injection W as <-; exact I|discriminate W]
               |discriminate W]
           end.
  match goal with C : companion_rows _ ?l = Err _ |- _ => revert C; generalize l end.
  intros rows. generalize e0. clear.
  induction rows as [|tr rest IH]; simpl; intros e0 H; [discriminate|].
  destruct (rget tr "name") as [[]|]; destruct (rget tr "namespace") as [[]|]; destruct (rget tr "hash");
    try (injection H as <-; exact I);
    destruct (name_valid _ && ns_valid _); try (injection H as <-; exact I);
    destruct (companion_rows scripts rest) eqn:C; try discriminate; injection H as <-; eapply IH; reflexivity.
Qed.

Lemma run_ops_err : forall e ops d x s,
  run_ops e ops d = Err x -> run_schema ops (schema_of d) = Some s -> data_error x.
Proof.
  induction ops as [|o r IH]; simpl; intros d x s H Hs; [discriminate|].
  destruct (apply_schema o (schema_of d)) as [s1|] eqn:A; [|discriminate].
  destruct (apply_op e o d) as [d1|] eqn:B.
  - rewrite (apply_op_schema _ _ _ _ B) in A. injection A as <-. eauto.
  - injection H as <-. eapply apply_op_err; eauto.
Qed.

Lemma some_inj : forall A (a b : A), Some a = Some b -> a = b.
Proof. intros A a b H. injection H. auto. Qed.

(** From a historical schema the only possible failures are a NOT NULL violation (a job whose
    parent chain reaches no root, a job without start time) or an invalid recorded task name. *)
Theorem upgrade_failure_modes : forall v e n d x,
  e_dialect e = Sqlite -> (n <= List.length (chain v))%nat ->
  same_schema_as_built e v n d ->
  upgrade e (chain v) db_versions d = Err x -> data_error x.
Proof.
  intros v e n d x Hd Hn Hb H.
  destruct (built_cases v e n d Hd Hn Hb) as (todo & St & Rs & Lk).
  unfold upgrade in H.
  rewrite St in H.
  destruct todo as [|m todo].
  { discriminate H. }
  rewrite Hd in H.
  destruct (run_ops e (chain_ops Sqlite (m :: todo)) d) as [d1|] eqn:R.
  - destruct Lk as [Lk|(mj & mn & Lk)]; [discriminate Lk|]. rewrite Lk in H.
    apply run_ops_schema in R. rewrite Rs in R. apply some_inj in R.
    unfold on_table in H.
    assert (L : lookup "redun_version" (schema_of d1) <> None) by (rewrite <- R; vm_compute; discriminate).
    rewrite lookup_cols in L. cbn [d_tables set_rev] in H.
    destruct (lookup "redun_version" (d_tables d1)); [discriminate H|]. exfalso. apply L. reflexivity.
  - injection H as <-. eapply run_ops_err; [exact R|exact Rs].
Qed.

(* ------------------------------------------------------------------ job.execution_id from 2.3 *)
Lemma run_ops_app : forall e a b d,
  run_ops e (a ++ b) d = match run_ops e a d with Ok d1 => run_ops e b d1 | Err x => Err x end.
Proof.
  induction a as [|o a IH]; simpl; intros; [reflexivity|]. destruct (apply_op e o d); auto.
Qed.

Definition eid_head : list op :=
  [StubExecutions; SqlNoData "tmp_ancestors step 0"; SqlNoData "tmp_ancestors step 1";
   SqlNoData "tmp_ancestors step 2"; BackfillExecutionId].
Definition eid_tail (v : utc_variant) : list op := skipn 5 (chain_ops Sqlite (skipn 5 (chain v))).

Lemma eid_split : forall v,
  steps_after "d4af139b6f53" (chain v) = Some (skipn 5 (chain v)) /\
  chain_ops Sqlite (skipn 5 (chain v)) = eid_head ++ eid_tail v /\
  existsb is_backfill (eid_tail v) = false /\ skipn 5 (chain v) <> [].
Proof. destruct v; repeat split; try reflexivity; discriminate. Qed.

Lemma Forall2_map_l : forall A B C (R : B -> C -> Prop) (h : A -> B) l l',
  Forall2 R (map h l) l' -> Forall2 (fun a b => R (h a) b) l l'.
Proof.
  induction l; simpl; intros l' H; inversion H; subst; constructor; auto.
Qed.

Lemma fold_id : forall (A B : Type) (l : list B) (x : A) (f : A -> B -> A), (forall y v, f y v = y) -> fold_left f l x = x.
Proof. induction l; simpl; intros; [reflexivity|]. rewrite H. auto. Qed.

Theorem upgrade_execution_id : forall v e d d',
  e_dialect e = Sqlite -> d_rev d = "d4af139b6f53" ->
  upgrade e (chain v) db_versions d = Ok d' ->
  exists d1 J J' rs ex,
    apply_op e StubExecutions d = Ok d1 /\
    lookup "job" (d_tables d) = Some J /\ lookup "job" (d_tables d') = Some J' /\
    t_rows J' = rs ++ ex /\
    Forall2 (fun r r' => forall x, rget r "execution_id" = Some x ->
               rget r' "execution_id" = Some (exec_for (ancestors (t_rows J) (rows_of "execution" d1)) r))
            (t_rows J) rs.
Proof.
  intros v e d d' Hd Hrev H.
  destruct (eid_split v) as (St & Sp & Nb & Ne).
  destruct (skipn 5 (chain v)) as [|m todo] eqn:Sk; [congruence|].
  rewrite <- Hrev in St.
  destruct (upgrade_run _ _ _ _ _ _ _ H St) as (dA & R & _ & PA).
  rewrite Hd, Sp, run_ops_app in R.
  destruct (run_ops e eid_head d) as [d2|] eqn:R1; [|discriminate].
  unfold eid_head in R1. cbn [run_ops] in R1.
  destruct (apply_op e StubExecutions d) as [d1|] eqn:A1; [|discriminate].
  cbn [run_ops apply_op] in R1.
  (* the stub step leaves the job table alone *)
  assert (LJ : exists J, lookup "job" (d_tables d) = Some J /\ lookup "job" (d_tables d1) = Some J).
  { simpl in A1. destruct (lookup "job" (d_tables d)) as [J|] eqn:LJ0; [|discriminate A1]. exists J. split; [reflexivity|].
    unfold on_table in A1. destruct (lookup "execution" (d_tables d)); [|discriminate A1].
    injection A1 as A1. rewrite <- A1. simpl. rewrite lookup_update_other; [exact LJ0|discriminate]. }
  destruct LJ as (J & LJ & LJ1).
  unfold on_table in R1. rewrite LJ1 in R1.
  destruct (negb (has_col "execution_id" (t_cols J))); [discriminate|].
  injection R1 as <-.
  set (ps := ancestors (t_rows J) (rows_of "execution" d1)) in *.
  set (J2 := {| t_cols := t_cols J; t_rows := map (fun r => rset r "execution_id" (exec_for ps r)) (t_rows J) |}) in *.
  apply run_ops_preserved in R.
  pose proof (preserved_trans _ _ _ _ _ _ _ R PA) as P.
  assert (L2 : lookup "job" (d_tables (set_table "job" J2 d1)) = Some J2)
    by (simpl; eapply lookup_update_same; eauto).
  destruct (P "job" J2 L2) as (J' & L' & rs & ex & E & F).
  exists d1, J, J', rs, ex. repeat split; auto.
  simpl in F. apply Forall2_map_l in F.
  eapply Forall2_impl; [|exact F]. intros r r' Hr x Hx. cbv beta in Hr.
  rewrite (Hr "execution_id" (exec_for ps r)).
  - reflexivity.
  - eapply rget_rset_same; eauto.
  - reflexivity.
Qed.
