(** C38, part 1: the cache decision procedure never answers with a single-reduction entry when
    SINGLE is not among the allowed cache results -- for every backend state (answers), every
    cache_scope / check_valid, every other membership of the allowed set. *)
From Coq Require Import List ZArith Bool.
From RV Require Import Model.Subrun.
Import ListNotations.

Ltac split_answers ans :=
  destruct ans as [[[?h1 [?v1|]]|] [[?h2 [?v2|]]|] [?v3|]].

Ltac no_feval :=
  simpl; intuition (try discriminate);
  repeat match goal with H : _ \/ _ |- _ => destruct H end; try discriminate; try contradiction.

(** ** check_cache in closed form
    (note the quirk it makes visible: a SINGLE answer can carry the call_hash of an ULTIMATE
    call node whose value is missing from the store) *)
Definition cc_spec (scope : cache_scope) (cv : check_valid) (oal : option allowed) (ans : answers)
  : cc_result * list consult :=
  let al := match oal with Some a => a | None => all_results end in
  match scope with
  | ScNONE => (CCOut None None MISS, [])
  | _ =>
    let cse_q := al CSE in
    match (if cse_q then a_cse ans else None) with
    | Some (h, Some v) => (CCOut (Some v) (Some h) CSE, [QNode LkCSE; FCall LkCSE])
    | cse_found =>
      let tr1 := if cse_q then QNode LkCSE :: (match cse_found with Some _ => [FCall LkCSE] | None => [] end)
                 else [] in
      let ult_q := sc_eqb scope ScBACKEND && cv_eqb cv CvSHALLOW && al ULTIMATE in
      let ult_found := if ult_q then a_ult ans else None in
      let tr2 := tr1 ++ (if ult_q then QNode LkULT :: (match ult_found with Some _ => [FCall LkULT] | None => [] end)
                         else []) in
      match ult_found with
      | Some (h, Some v) => (CCOut (Some v) (Some h) ULTIMATE, tr2)
      | _ =>
        let hash := match ult_found with Some (h, _) => Some h | None => None end in
        if sc_eqb scope ScBACKEND && al SINGLE then
          match a_single ans with
          | Some v => (CCOut (Some v) hash SINGLE, tr2 ++ [FEval])
          | None => (CCOut None None MISS, tr2 ++ [FEval])
          end
        else (CCOut None None MISS, tr2)
      end
    end
  end.

Lemma run_cc_spec :
  forall scope cv oal ans, run_cc shipped_check_cache scope cv oal ans = cc_spec scope cv oal ans.
Proof.
  intros scope cv [al|] ans.
  - destruct scope, cv; split_answers ans; cbv;
      repeat match goal with |- context [al ?x] => destruct (al x) end; reflexivity.
  - destruct scope, cv; split_answers ans; reflexivity.
Qed.

(** check_cache with an explicit allowed set that lacks SINGLE: the result is never typed SINGLE
    and get_eval_cache is never consulted *)
Lemma cc_no_single :
  forall scope cv (al : allowed) ans r h ct tr,
    al SINGLE = false ->
    run_cc shipped_check_cache scope cv (Some al) ans = (CCOut r h ct, tr) ->
    ct <> SINGLE /\ ~ In FEval tr.
Proof.
  intros scope cv al ans r h ct tr HS H.
  rewrite run_cc_spec in H; unfold cc_spec in H; rewrite HS, andb_false_r in H.
  destruct scope, cv; simpl in H; destruct (al CSE), (al ULTIMATE); split_answers ans; simpl in H;
    inversion H; subst; split; try discriminate; no_feval.
Qed.

(** check_cache never raises on the shipped program, whatever the arguments *)
Lemma cc_total :
  forall scope cv (oal : option allowed) ans, fst (run_cc shipped_check_cache scope cv oal ans) <> CCPyError.
Proof.
  intros scope cv oal ans. rewrite run_cc_spec; unfold cc_spec.
  destruct scope; try (simpl; discriminate);
    repeat match goal with
           | |- context [match ?x with _ => _ end] =>
               match x with
               | context [match _ with _ => _ end] => fail 1
               | _ => destruct x
               end
           end; simpl; discriminate.
Qed.

(** a result typed other than MISS carries a value (so the chain's "hit" always has one) *)
Lemma cc_typed_has_value :
  forall scope cv (oal : option allowed) ans r h ct tr,
    run_cc shipped_check_cache scope cv oal ans = (CCOut r h ct, tr) ->
    ct <> MISS -> r <> None.
Proof.
  intros scope cv oal ans r h ct tr H.
  rewrite run_cc_spec in H; unfold cc_spec in H.
  destruct scope;
    repeat match type of H with
           | context [match ?x with _ => _ end] =>
               match x with
               | context [match _ with _ => _ end] => fail 1
               | _ => destruct x
               end
           end; simpl in H; inversion H; subst; intros; try discriminate; try congruence.
Qed.

(** which lookups can produce which type *)
Lemma cc_ultimate_needs :
  forall scope cv (al : allowed) ans r h tr,
    run_cc shipped_check_cache scope cv (Some al) ans = (CCOut r h ULTIMATE, tr) ->
    scope = ScBACKEND /\ cv = CvSHALLOW /\ al ULTIMATE = true.
Proof.
  intros scope cv al ans r h tr H.
  rewrite run_cc_spec in H; unfold cc_spec in H.
  destruct scope, cv; simpl in H; destruct (al CSE), (al ULTIMATE) eqn:EU, (al SINGLE); split_answers ans;
    simpl in H; inversion H; subst; auto.
Qed.

Lemma cc_scope_none_misses :
  forall cv oal ans, run_cc shipped_check_cache ScNONE cv oal ans = (CCOut None None MISS, []).
Proof. intros cv oal ans; rewrite run_cc_spec; reflexivity. Qed.

Lemma cc_scope_cse_only_cse :
  forall cv (oal : option allowed) ans r h ct tr,
    run_cc shipped_check_cache ScCSE cv oal ans = (CCOut r h ct, tr) -> ct = CSE \/ ct = MISS.
Proof.
  intros cv oal ans r h ct tr H.
  rewrite run_cc_spec in H; unfold cc_spec in H; simpl in H.
  destruct ((match oal with Some a => a | None => all_results end) CSE); split_answers ans;
    simpl in H; inversion H; subst; auto.
Qed.

(** ** Scheduler._get_cache *)

Lemma set_minus_single : forall a, set_minus a SINGLE SINGLE = false.
Proof. intros a; unfold set_minus; simpl; apply andb_false_r. Qed.

(** the allowed set handed to check_cache lacks SINGLE whenever the job's option does *)
Lemma gc_args_no_single :
  forall jo al scope cv oal,
    jo_allowed jo = Some al -> al SINGLE = false ->
    gc_args shipped_getcache jo = (scope, cv, oal) ->
    exists al', oal = Some al' /\ al' SINGLE = false.
Proof.
  intros [ov os oa sc asy] al scope cv oal Ha HS H; simpl in *; subst oa.
  unfold gc_args in H; simpl in H.
  destruct (asy && _) eqn:E; inversion H; subst.
  - eexists; split; [reflexivity|]. apply set_minus_single.
  - eexists; split; [reflexivity|]. exact HS.
Qed.

Lemma chain_hit_type :
  forall result h ct v h' ct',
    run_chain (gc_chain_of shipped_getcache) result h ct = GHit v h' ct' -> ct' = ct /\ h' = h /\ result = Some v.
Proof.
  intros result h ct v h' ct' H; simpl in H.
  destruct ct; destruct result as [[i va ha|i]|]; try destruct va; try destruct ha; simpl in H;
    try discriminate; inversion H; subst; auto.
Qed.

Theorem get_cache_no_single :
  forall jo al ans v h ct tr,
    jo_allowed jo = Some al -> al SINGLE = false ->
    get_cache shipped_check_cache shipped_getcache jo ans = (GHit v h ct, tr) ->
    ct <> SINGLE /\ ~ In FEval tr.
Proof.
  intros jo al ans v h ct tr Ha HS H.
  unfold get_cache in H; simpl (negb _) in H; cbv iota in H.
  destruct (gc_args shipped_getcache jo) as [[scope cv] oal] eqn:EA.
  destruct (gc_args_no_single _ _ _ _ _ Ha HS EA) as [al' [-> HS']].
  destruct (run_cc shipped_check_cache scope cv (Some al') ans) as [[r h0 ct0|] tr0] eqn:ER.
  - inversion H; subst.
    destruct (chain_hit_type _ _ _ _ _ _ H1) as [-> [-> ->]].
    eapply cc_no_single; eauto.
  - inversion H.
Qed.

(** _get_cache never fails with a Python error on the shipped configuration (in particular it never
    reports a hit without a value) *)
Theorem get_cache_total :
  forall jo ans, fst (get_cache shipped_check_cache shipped_getcache jo ans) <> GPyError.
Proof.
  intros jo ans. unfold get_cache; simpl (negb _); cbv iota.
  destruct (gc_args shipped_getcache jo) as [[scope cv] oal] eqn:EA.
  destruct (run_cc shipped_check_cache scope cv oal ans) as [[r h0 ct0|] tr0] eqn:ER.
  - simpl fst.
    assert (Hv : ct0 <> MISS -> r <> None) by (eapply cc_typed_has_value; eauto).
    simpl. destruct ct0; destruct r as [[i va ha|i]|]; try destruct va; try destruct ha; simpl;
      try discriminate; exfalso; apply Hv; congruence || discriminate.
  - exfalso. pose proof (cc_total scope cv oal ans) as T. rewrite ER in T. apply T. reflexivity.
Qed.

(** ** the _subrun_root_task job *)

Lemma subrun_allowed :
  forall k, exists al, jo_allowed (root_task_jobopts shipped_subrun_opts k) = Some al /\ al SINGLE = false
                       /\ al CSE = true /\ al ULTIMATE = true.
Proof. intros k; eexists; split; [reflexivity|]; repeat split. Qed.

Theorem subrun_no_single_reduction :
  forall k ans v h ct tr,
    get_cache shipped_check_cache shipped_getcache (root_task_jobopts shipped_subrun_opts k) ans = (GHit v h ct, tr) ->
    (ct = CSE \/ ct = ULTIMATE) /\ ~ In FEval tr.
Proof.
  intros k ans v h ct tr H.
  destruct (subrun_allowed k) as [al [Ha [HS _]]].
  destruct (get_cache_no_single _ _ _ _ _ _ _ Ha HS H) as [N T]. split; [|exact T].
  (* a hit is never typed MISS *)
  unfold get_cache in H; simpl (negb _) in H; cbv iota in H.
  destruct (gc_args shipped_getcache _) as [[scope cv] oal].
  destruct (run_cc _ scope cv oal ans) as [[r h0 ct0|] tr0]; [|inversion H].
  inversion H; subst.
  destruct (chain_hit_type _ _ _ _ _ _ H1) as [-> [-> ->]].
  destruct ct0; auto; try congruence.
  simpl in H1. destruct v as [i va ha|i]; try destruct va; try destruct ha; simpl in H1; discriminate.
Qed.

(** with full validity checking (or a narrower scope, or cache=False, or no provenance) the only
    possible replay for the subrun job is a CSE hit: the sub-scheduler is started *)
Theorem subrun_ultimate_only_when_shallow_backend :
  forall k ans v h tr,
    get_cache shipped_check_cache shipped_getcache (root_task_jobopts shipped_subrun_opts k) ans = (GHit v h ULTIMATE, tr) ->
    c_valid k <> Some CvFULL /\ c_scope k <> Some ScNONE /\ c_scope k <> Some ScCSE /\ c_use_cache k = true /\ c_prov k = true.
Proof.
  intros [os ov uc pr] ans v h tr H.
  unfold get_cache in H; simpl (negb _) in H; cbv iota in H.
  destruct (gc_args shipped_getcache _) as [[scope cv] oal] eqn:EA.
  destruct (run_cc _ scope cv oal ans) as [[r h0 ct0|] tr0] eqn:ER; [|inversion H].
  inversion H; subst.
  destruct (chain_hit_type _ _ _ _ _ _ H1) as [E1 [E2 E3]]; subst ct0 h0 r.
  unfold gc_args, root_task_jobopts in EA; simpl in EA. inversion EA; subst.
  destruct (cc_ultimate_needs _ _ _ _ _ _ _ ER) as [Hs [Hv _]].
  destruct os as [[| |]|], ov as [[|]|], uc, pr; simpl in *; try discriminate; repeat split; discriminate.
Qed.

(** ** non-vacuity *)
Definition jo_plain : jobopts := mkJO None None None false false.
Definition ans_only_single : answers := mkAns None None (Some (CVal 7 true true)).
Definition ans_all : answers :=
  mkAns (Some (1%Z, Some (CVal 5 true true))) (Some (2%Z, Some (CVal 6 true true))) (Some (CVal 7 true true)).
Definition ans_ult_single : answers := mkAns None (Some (2%Z, Some (CVal 6 true true))) (Some (CVal 7 true true)).
Definition call_default : subrun_call := mkCall None None true true.
Definition call_full : subrun_call := mkCall None (Some CvFULL) true true.

(** an ordinary job (no restriction) does replay the single-reduction entry in this backend state ... *)
Example plain_job_replays_single :
  get_cache shipped_check_cache shipped_getcache jo_plain ans_only_single
  = (GHit (CVal 7 true true) None SINGLE, [QNode LkCSE; FEval]).
Proof. reflexivity. Qed.

(** ... the subrun job, in the same state, does not even ask for it *)
Example subrun_job_misses_there :
  get_cache shipped_check_cache shipped_getcache (root_task_jobopts shipped_subrun_opts call_default) ans_only_single
  = (GMiss, [QNode LkCSE; QNode LkULT]).
Proof. reflexivity. Qed.

Example subrun_job_full_misses_there :
  get_cache shipped_check_cache shipped_getcache (root_task_jobopts shipped_subrun_opts call_full) ans_ult_single
  = (GMiss, [QNode LkCSE]).
Proof. reflexivity. Qed.

Example subrun_job_cse_hit :
  get_cache shipped_check_cache shipped_getcache (root_task_jobopts shipped_subrun_opts call_default) ans_all
  = (GHit (CVal 5 true true) (Some 1%Z) CSE, [QNode LkCSE; FCall LkCSE]).
Proof. reflexivity. Qed.

Example subrun_job_ultimate_hit :
  get_cache shipped_check_cache shipped_getcache (root_task_jobopts shipped_subrun_opts call_default) ans_ult_single
  = (GHit (CVal 6 true true) (Some 2%Z) ULTIMATE, [QNode LkCSE; QNode LkULT; FCall LkULT]).
Proof. reflexivity. Qed.

(** the restriction is what does it: were SINGLE in the literal set, the entry would be replayed *)
Definition lax_subrun_opts : subrun_cfg := mkSC ScBACKEND CvSHALLOW [CSE; ULTIMATE; SINGLE] ScCSE ScNONE GuardNone ScCSE.
Example lax_set_replays_single :
  fst (get_cache shipped_check_cache shipped_getcache (root_task_jobopts lax_subrun_opts call_default) ans_only_single)
  = GHit (CVal 7 true true) None SINGLE.
Proof. reflexivity. Qed.

(** ** cache=False: the subrun job is treated like every directly evaluated job *)
(** what a directly evaluated job of an ordinary task (backend scope, no restriction) may use under cache=False: the
    job-level override makes it CSE only *)
Definition direct_jobopts (use_cache : bool) : jobopts :=
  mkJO None (Some (if use_cache then ScBACKEND else ScCSE)) None false false.

Lemma direct_cache_false_is_cse_only :
  forall ans v h ct tr,
    get_cache shipped_check_cache shipped_getcache (direct_jobopts false) ans = (GHit v h ct, tr) -> ct = CSE.
Proof.
  intros ans v h ct tr H.
  unfold get_cache in H; simpl (negb _) in H; cbv iota in H.
  destruct (gc_args shipped_getcache _) as [[scope cv] oal] eqn:EA.
  destruct (run_cc _ scope cv oal ans) as [[r h0 ct0|] tr0] eqn:ER; [|inversion H].
  inversion H; subst.
  destruct (chain_hit_type _ _ _ _ _ _ H1) as [E1 [E2 E3]]; subst ct0 h0 r.
  unfold gc_args, direct_jobopts in EA; simpl in EA. inversion EA; subst.
  destruct (cc_scope_cse_only_cse _ _ _ _ _ _ _ ER) as [E|E]; subst ct; [reflexivity|].
  simpl in H1. destruct v as [i va ha|i]; try destruct va; try destruct ha; simpl in H1; discriminate.
Qed.

(** with the unconditional override (as shipped) the same holds for the _subrun_root_task job, whatever
    cache options the caller forwards: a run with cache=False never replays it from an earlier execution *)
Theorem subrun_cache_false_is_cse_only :
  forall k ans v h ct tr,
    c_use_cache k = false ->
    get_cache shipped_check_cache shipped_getcache (root_task_jobopts shipped_subrun_opts k) ans = (GHit v h ct, tr) ->
    ct = CSE.
Proof.
  intros k ans v h ct tr U H.
  destruct (subrun_no_single_reduction _ _ _ _ _ _ H) as [[E|E] _]; subst ct; [reflexivity|].
  destruct (subrun_ultimate_only_when_shallow_backend _ _ _ _ _ H) as [_ [_ [_ [UC _]]]]. congruence.
Qed.

(** refuted for the guarded variant: the root task is defined with CSE scope, the guard skips the override, the
    call-time BACKEND scope wins and an ultimate reduction of an earlier execution is replayed under cache=False *)
Definition call_nocache : subrun_call := mkCall None None false true.
Theorem guarded_downgrade_refuted :
  exists k ans v h tr,
    c_use_cache k = false /\
    get_cache shipped_check_cache shipped_getcache (root_task_jobopts guarded_subrun_opts k) ans = (GHit v h ULTIMATE, tr).
Proof.
  exists call_nocache, ans_ult_single, (CVal 6 true true), (Some 2%Z), [QNode LkCSE; QNode LkULT; FCall LkULT].
  split; reflexivity.
Qed.
