(** A settled job stays settled with the same outcome, whatever happens afterwards (C06/C09: each job ends exactly
    once).  From the phase/event discipline [Q] of Proofs/JobDup2.v. *)
From Coq Require Import List ZArith Bool Arith Lia.
From RV Require Import Model.JobMachine Proofs.JobBase Proofs.JobDup Proofs.JobDup2.
Import ListNotations.
Open Scope list_scope.

Definition settled_in (s : state) (j : nat) (o : outcome) : Prop :=
  exists x, getj s j = Some x /\ jphase x = PSettled o.

Section F.
Variable c : config.
Hypothesis Hsafe : pending_owner_safe (vr c) = true.

Lemma settled_not_waiting s j o : Q s -> settled_in s j o -> ~ In j (waiting s).
Proof.
  intros HQ (x & Hx & P) H. destruct (q_wt _ s HQ j H) as (z & Hz & Pz). congruence.
Qed.

Lemma settled_no_event s j o : Q s -> settled_in s j o -> ~ In j (map evj (queue s)).
Proof. intros HQ (x & Hx & P). apply (no_event _ s j x HQ Hx); rewrite P; discriminate. Qed.

Lemma keep_check_pending s j o : Q s -> settled_in s j o -> settled_in (check_pending_limits c s) j o.
Proof.
  intros HQ H. pose proof (settled_not_waiting s j o HQ H) as Hn. destruct H as (x & Hx & P).
  exists x. rewrite getj_check_pending_notin by exact Hn. auto.
Qed.

Lemma keep_skip s j o : Q s -> settled_in s j o -> settled_in (skip_wakeup c s) j o.
Proof. intros HQ H. unfold skip_wakeup. destruct (recheck_on_skip (vr c)); [now apply keep_check_pending|exact H]. Qed.

Lemma keep_maybe_release s k j o : Q s -> settled_in s j o -> settled_in (maybe_release c s k) j o.
Proof.
  intros HQ H. pose proof (settled_not_waiting s j o HQ H) as Hn. destruct H as (x & Hx & P).
  destruct (getj_maybe_release c s k j x Hx Hn) as (y & Hy & P1 & _). exists y. split; [exact Hy|congruence].
Qed.

Lemma keep_setj s k y j o : k <> j -> settled_in s j o -> settled_in (setj s k y) j o.
Proof. intros Hk (x & Hx & P). exists x. rewrite getj_setj_other by exact Hk. auto. Qed.

Lemma keep_settle_one s t o' j o : t <> j -> settled_in s j o -> settled_in (settle_one c s t o') j o.
Proof.
  intros Hk (x & Hx & P). exists x. rewrite getj_settle_one_other by (intros E; apply Hk; symmetry; exact E). auto.
Qed.

Lemma keep_fold_notify o' L : forall s j o, ~ In j L -> settled_in s j o ->
  settled_in (fold_left (notify_sub c o') L s) j o.
Proof.
  intros s j o Hn (x & Hx & P). destruct (fold_notify_other c o' L s j Hn) as [G _]. exists x. rewrite G. auto.
Qed.

(** the duplicates of a job that is still unsettled are themselves unsettled *)
Lemma dup_of_unsettled s t x k o : Q s -> getj s t = Some x -> (forall o', jphase x <> PSettled o') ->
  In k (dups_of s t) -> ~ settled_in s k o.
Proof.
  intros HQ Hx Hu Hk (z & Hz & P). apply in_dups_of_inv in Hk.
  destruct (q_sb _ s HQ t k Hk) as (_ & _ & xt & xk & Hxt & Hxk & _ & _ & D).
  rewrite Hx in Hxt. injection Hxt as <-. rewrite Hz in Hxk. injection Hxk as <-.
  unfold Dstd, dup_ok in D. destruct (jphase x) as [| |t0| | | | | |o0|] eqn:E; try congruence.
Qed.

Lemma keep_settle s t x o' j o : Q s -> getj s t = Some x -> (forall o0, jphase x <> PSettled o0) ->
  settled_in s j o -> settled_in (settle c s t o') j o.
Proof.
  intros HQ Hx Hu H.
  assert (Htj : t <> j) by (intros ->; destruct H as (z & Hz & P); rewrite Hx in Hz; injection Hz as <-; eapply Hu; eauto).
  unfold settle. rewrite Hx. apply keep_fold_notify.
  - fold (dups_of (settle_one c s t o') t). unfold dups_of. rewrite subs_settle_one. fold (dups_of s t).
    intros Hin. eapply (dup_of_unsettled s t x j o); eauto.
  - apply keep_settle_one; auto.
Qed.

Lemma keep_exec_job s k x co j o : Q s -> getj s k = Some x -> jphase x = PQueued ->
  settled_in s j o -> settled_in (exec_job c s k co) j o.
Proof.
  intros HQ Hx P H.
  assert (Hkj : k <> j) by (intros ->; destruct H as (z & Hz & Pz); congruence).
  assert (KS : forall s0, (forall i, i <> k -> getj s0 i = getj s i) -> waiting s0 = waiting s \/ waiting s0 = waiting s ++ [k] ->
               settled_in s0 j o).
  { intros s0 G _. destruct H as (z & Hz & Pz). exists z. rewrite G by (intros E; apply Hkj; symmetry; exact E). auto. }
  unfold exec_job. rewrite Hx.
  destruct (if jnocse x then None else lookup_pending s (jkey x, jctx x)) as [t|].
  { unfold skip_wakeup. destruct (recheck_on_skip (vr c)).
    - destruct H as (z & Hz & Pz). exists z. rewrite getj_check_pending_notin.
      + change (getj (setj s k (with_phase x (PCollapsed t))) j = Some z /\ jphase z = PSettled o).
        rewrite getj_setj_other by exact Hkj. auto.
      + simpl. intros Hw. destruct (q_wt _ s HQ j Hw) as (w & Hw' & Pw). congruence.
    - apply keep_setj; auto. }
  assert (Hnw : ~ In j (waiting s)) by (apply (settled_not_waiting s j o HQ H)).
  assert (KSK : forall y e, settled_in (skip_wakeup c (enqueue (setj s k y) e)) j o).
  { intros y e. unfold skip_wakeup. destruct (recheck_on_skip (vr c)).
    - destruct H as (z & Hz & Pz). exists z. rewrite getj_check_pending_notin by exact Hnw.
      change (getj (setj s k y) j = Some z /\ jphase z = PSettled o). rewrite getj_setj_other by exact Hkj. auto.
    - apply (keep_setj s k y j o Hkj H). }
  match goal with |- settled_in (match ?h with _ => _ end) j o => destruct h as [[v|e]|] end.
  - apply KSK.
  - apply KSK.
  - destruct (dryrun c).
    + destruct (jbadexec x); apply (keep_setj s k _ j o Hkj H).
    + destruct (negb (within c (used s) (jlimits x))).
      * apply (keep_setj s k _ j o Hkj H).
      * destruct (jbadexec x); [apply (keep_setj _ k _ j o Hkj H)|]. rewrite Hsafe.
        apply (keep_setj _ k _ j o Hkj H).
Qed.

Lemma keep_step s op j o : Q s -> settled_in s j o -> settled_in (step c s op) j o.
Proof.
  intros HQ H. destruct op as [key ctx l nocse prov bad|k j0 co|k ok e|k o'].
  - cbn [step]. destruct H as (x & Hx & P). exists x. split; [|exact P]. unfold getj in *. simpl.
    rewrite nth_error_app1; auto. apply nth_error_Some. congruence.
  - cbn [step]. set (i := find_event (queue s) k j0 0).
    destruct (nth_error (queue s) i) as [ev|] eqn:En; [|exact H].
    destruct (Q_pop s i ev HQ En) as [Qp Hnp]. pose proof (nth_error_In _ _ En) as Hin.
    assert (Hp : settled_in (pop_queue s i) j o) by exact H.
    destruct ev as [k1|k1|k1 e|k1 v].
    + destruct (q_ex _ s HQ k1 Hin) as (x & Hx & P). apply (keep_exec_job (pop_queue s i) k1 x co); auto.
    + destruct (q_dn _ s HQ k1 Hin) as (x & Hx & P).
      assert (Hk : k1 <> j) by (intros ->; destruct H as (z & Hz & Pz); destruct P; congruence).
      unfold done_job. pose proof (keep_maybe_release (pop_queue s i) k1 j o Qp Hp) as H1.
      destruct (getj (maybe_release c (pop_queue s i) k1) k1) as [y|]; [|exact H1].
      destruct (jpreset y); apply keep_setj; auto.
    + destruct (q_rj _ s HQ k1 e Hin) as (x & Hx & _ & P). unfold reject_job.
      set (s0 := pop_queue s i).
      assert (Hnw : ~ In k1 (waiting s0)).
      { intros Hw. destruct (q_wt _ s HQ k1 Hw) as (z & Hz & Pz). rewrite Hx in Hz. injection Hz as <-.
        destruct P as [A|[A|A]]; congruence. }
      destruct (getj_maybe_release c s0 k1 k1 x Hx Hnw) as (y & Hy & P1 & _).
      apply (keep_settle (maybe_release c s0 k1) k1 y (Ko e)).
      * apply Q_maybe_release. exact Qp.
      * exact Hy.
      * intros o0 E. rewrite P1 in E. destruct P as [A|[A|A]]; congruence.
      * apply keep_maybe_release; auto.
    + destruct (q_rs _ s HQ k1 v Hin) as (x & Hx & P & _). unfold resolve_job.
      apply (keep_settle (pop_queue s i) k1 x (Ok v)); auto. intros o0 E. congruence.
  - cbn [step]. unfold phase_is. destruct (getj s k) as [x|] eqn:Hx; [|exact H].
    destruct (jphase x) eqn:P; try exact H.
    assert (Hk : k <> j) by (intros ->; destruct H as (z & Hz & Pz); congruence).
    apply keep_setj; auto.
  - cbn [step]. unfold phase_is. destruct (getj s k) as [x|] eqn:Hx; [|exact H].
    destruct (jphase x) eqn:P; try exact H.
    assert (Hk : k <> j) by (intros ->; destruct H as (z & Hz & Pz); congruence).
    apply keep_setj; auto.
Qed.

(** once a job has its outcome, no continuation of the run changes it *)
Theorem settled_forever ops ops' j o :
  settled_in (run c ops) j o -> settled_in (run c (ops ++ ops')) j o.
Proof.
  unfold run. rewrite fold_left_app. fold (run c ops).
  assert (HQ : Q (run c ops)) by (apply Q_run; exact Hsafe).
  generalize dependent (run c ops). induction ops' as [|a l IH]; intros s HQ H; simpl; [exact H|].
  apply IH; [apply Q_step; auto|apply keep_step; auto].
Qed.
End F.
