(** C22: referential integrity and absence of duplicates of the committed tables after any
    history of recordings with faults and crashes (no imports: record transfer is C23), for every
    configuration; committed rows are never lost; the retry loop is total. *)
From Coq Require Import List Arith Bool PeanoNat Lia.
From RV Require Import Model.Recording Proofs.RecordingBase Proofs.RecordingGen.
Import ListNotations.
Open Scope list_scope.

Definition fk (d : db) : Prop :=
  (forall c t, In (c, t) (subs d) -> In c (nodes d)) /\
  (forall c i v, In (c, i, v) (argrows d) -> In c (nodes d) /\ In v (vals d)) /\
  (forall q k i, In (q, k, i) (edges d) -> In q (nodes d) /\ In k (nodes d)) /\
  (forall c, In c (nodes d) -> In (t_res c) (vals d)) /\
  NoDup (nodes d) /\ NoDup (subs d) /\ NoDup (vals d).

Definition consistent (s : state) : Prop := fk (com s) /\ fk (vis s).

Lemma fk_db0 : fk db0.
Proof. repeat split; simpl; try contradiction; constructor. Qed.

Lemma NoDup_app_intro : forall (A : Type) (l1 l2 : list A), NoDup l1 -> NoDup l2 ->
  (forall x, In x l1 -> ~ In x l2) -> NoDup (l1 ++ l2).
Proof.
  induction l1 as [|a l1 IH]; intros l2 H1 H2 Hd; simpl; [exact H2|].
  inversion H1; subst. constructor.
  - intros Hin. apply in_app_or in Hin. destruct Hin as [Hin|Hin]; [contradiction|]. apply (Hd a); [left; reflexivity|exact Hin].
  - apply IH; [assumption|assumption|]. intros x Hx. apply Hd. right. exact Hx.
Qed.

Lemma NoDup_map_pair : forall (c : tree) (l : list nat), NoDup l -> NoDup (map (fun t => (c, t)) l).
Proof.
  induction l as [|a l IH]; intros H; simpl; [constructor|]. inversion H; subst. constructor; [|apply IH; assumption].
  intros Hin. apply in_map_iff in Hin. destruct Hin as (x & E & Hx). inversion E; subst. contradiction.
Qed.

Lemma recorded_edges_In : forall d c ks i0 q k i, In (q, k, i) (recorded_edges d c i0 ks) -> q = c /\ In k (nodes d).
Proof.
  induction ks as [|k0 ks IH]; intros i0 q k i H; simpl in H; [destruct H|].
  apply in_app_or in H. destruct H as [H|H]; [|eapply IH; exact H].
  destruct (memt k0 (nodes d)) eqn:E; [|destruct H]. destruct H as [H|[]]. inversion H; subst.
  split; [reflexivity|apply memt_In; exact E].
Qed.

Lemma consistent_att : forall s a, consistent s -> consistent (set_att s a).
Proof. intros s a H. exact H. Qed.
Lemma consistent_commit : forall s, consistent s -> consistent (do_commit s).
Proof. intros s [H1 H2]. split; [exact H2|]. unfold do_commit, vis at 1. simpl. rewrite db_app_db0_l. exact H2. Qed.
Lemma consistent_rollback : forall s, consistent s -> consistent (do_rollback s).
Proof. intros s [H1 H2]. split; [exact H1|]. unfold do_rollback, vis. simpl. rewrite db_app_db0_l. exact H1. Qed.
Lemma consistent_die : forall s, consistent s -> consistent (die s).
Proof. intros s [H1 H2]. split; [exact H1|]. unfold die, vis. simpl. rewrite db_app_db0_l. exact H1. Qed.

Lemma consistent_val : forall s v, consistent s -> memn v (vals (vis s)) = false -> consistent (add_val v s).
Proof.
  intros s v [H1 (A & B & C & D & E & F & G)] Hv. apply memn_false in Hv. split; [exact H1|].
  unfold fk, vis, add_val, db_app in *. simpl in *.
  split; [exact A|]. split; [intros c i x Hin; destruct (B c i x Hin); auto|]. split; [exact C|].
  split; [intros c Hc; right; apply D; exact Hc|]. split; [exact E|]. split; [exact F|]. constructor; assumption.
Qed.

Lemma consistent_node : forall s c, consistent s -> memt c (nodes (vis s)) = false -> memn (t_res c) (vals (vis s)) = true ->
  consistent (add_node c s).
Proof.
  intros s c [H1 (A & B & C & D & E & F & G)] Hc Hr. apply memt_false in Hc. apply memn_In in Hr. split; [exact H1|].
  unfold fk, vis, add_node, db_app in *. simpl in *.
  split; [intros c' t Hin; right; eapply A; exact Hin|].
  split; [intros c' i x Hin; destruct (B c' i x Hin); auto|].
  split; [intros q k i Hin; destruct (C q k i Hin); auto|].
  split; [intros c' [<-|Hc']; [exact Hr|apply D; exact Hc']|].
  split; [constructor; assumption|]. split; assumption.
Qed.

Lemma consistent_edges : forall s c, consistent s -> memt c (nodes (vis s)) = true ->
  consistent (add_edges (recorded_edges (vis s) c 0 (t_kids c)) s).
Proof.
  intros s c [H1 (A & B & C & D & E & F & G)] Hc. apply memt_In in Hc. split; [exact H1|].
  split; [exact A|]. split; [exact B|]. split; [|split; [exact D|split; [exact E|split; [exact F|exact G]]]].
  intros q k i Hin. change (edges (vis (add_edges (recorded_edges (vis s) c 0 (t_kids c)) s))) with
    ((recorded_edges (vis s) c 0 (t_kids c) ++ edges (pen s)) ++ edges (com s)) in Hin.
  rewrite <- app_assoc in Hin. apply in_app_or in Hin. destruct Hin as [Hin|Hin].
  - apply recorded_edges_In in Hin. destruct Hin as [-> Hk]. split; assumption.
  - apply (C q k i). exact Hin.
Qed.

Lemma consistent_arg : forall s c i v, consistent s -> memt c (nodes (vis s)) = true -> memn v (vals (vis s)) = true ->
  consistent (add_arg c i v s).
Proof.
  intros s c i v [H1 (A & B & C & D & E & F & G)] Hc Hv. apply memt_In in Hc. apply memn_In in Hv. split; [exact H1|].
  split; [exact A|]. split; [|split; [exact C|split; [exact D|split; [exact E|split; [exact F|exact G]]]]].
  intros c' i' v' [Hin|Hin]; [inversion Hin; subst; split; assumption|apply (B c' i' v'); exact Hin].
Qed.

Lemma consistent_subs : forall s c new, consistent s -> memt c (nodes (vis s)) = true ->
  forallb (fun t => negb (memn t (rows (vis s) c))) new = true -> NoDup new -> consistent (add_subs c new s).
Proof.
  intros s c new [H1 (A & B & C & D & E & F & G)] Hc Hf Hn. apply memt_In in Hc. split; [exact H1|].
  assert (Hs : subs (vis (add_subs c new s)) = map (fun t => (c, t)) new ++ subs (vis s)).
  { unfold vis, add_subs, db_app. simpl. rewrite app_assoc. reflexivity. }
  split; [|split; [exact B|split; [exact C|split; [exact D|split; [exact E|split; [|exact G]]]]]].
  - intros c' t Hin. rewrite Hs in Hin. apply in_app_or in Hin. destruct Hin as [Hin|Hin]; [|eapply A; exact Hin].
    apply in_map_iff in Hin. destruct Hin as (x & Ex & _). inversion Ex; subst. exact Hc.
  - rewrite Hs. apply NoDup_app_intro; [apply NoDup_map_pair; exact Hn|exact F|].
    intros [c' t] Hin Hin2. apply in_map_iff in Hin. destruct Hin as (x & Ex & Hx). inversion Ex; subst.
    rewrite forallb_forall in Hf. specialize (Hf t Hx). apply negb_true_iff in Hf. apply memn_false in Hf.
    apply Hf. apply rows_In. exact Hin2.
Qed.

Lemma consistent_rcn : forall R ss p s pl, consistent s -> holds consistent s pl (record_call_node R ss p s pl).
Proof.
  intros. apply record_call_node_holds; try assumption.
  - exact consistent_att.
  - exact consistent_commit.
  - exact consistent_rollback.
  - exact consistent_die.
  - exact consistent_val.
  - intros; apply consistent_node; assumption.
  - intros; apply consistent_edges; assumption.
  - intros; apply consistent_arg; assumption.
  - intros; apply consistent_subs; assumption.
Qed.

Lemma consistent_value : forall R v s pl, consistent s -> holds consistent s pl (record_value_top R v s pl).
Proof.
  intros. apply record_value_top_holds; try assumption.
  - exact consistent_att.
  - exact consistent_commit.
  - exact consistent_rollback.
  - exact consistent_die.
  - exact consistent_val.
Qed.

Definition is_import (e : event) : bool := match e with EImport _ => true | _ => false end.

Lemma step_consistent : forall g s e, is_import e = false -> consistent s ->
  consistent (step_event g s e) /\ db_le (com s) (com (step_event g s e)).
Proof.
  intros g s e Hi Hc.
  assert (Hsame : consistent s /\ db_le (com s) (com s)) by (split; [exact Hc|apply db_le_refl]).
  destruct e as [rg|v pl|t a r kids pl|t a|j full|roots|t a|j full]; cbn [step_event]; try discriminate.
  - split; [|apply db_le_refl]. destruct Hc as [H1 H2]. split; [exact H1|]. unfold vis. simpl. rewrite db_app_db0_l. exact H1.
  - destruct (negb (alive s)); [exact Hsame|].
    pose proof (consistent_value (c_retries g) v s pl Hc) as Hh.
    destruct (record_value_top (c_retries g) v s pl) as [s'|s'|s'|]; unfold holds in Hh.
    + destruct Hh as (G1 & [K1 _] & _). auto.
    + destruct Hh as (G1 & [K1 _] & _). split; [apply consistent_die; exact G1|exact K1].
    + destruct Hh as (G1 & [K1 _] & _). auto.
    + destruct Hh.
  - destruct (negb (alive s)); [exact Hsame|].
    destruct (lookup_jobs (jobs s) kids) as [js|]; [|exact Hsame].
    destruct (negb (memn t (reg s))); [exact Hsame|].
    pose proof (consistent_value (c_retries g) r s pl Hc) as Hv.
    destruct (record_value_top (c_retries g) r s pl) as [s1 pl1|s1 pl1|s1|]; unfold holds in Hv; cbn [bind].
    + destruct Hv as (G1 & [K1 _] & _).
      pose proof (consistent_rcn (c_retries g) (c_rcn g) (mkp (Node t a r (map fst js)) (t :: flat_map snd js)) s1 pl1 G1) as Hr.
      destruct (record_call_node _ _ _ s1 pl1) as [s2 pl2|s2 pl2|s2|]; unfold holds in Hr.
      * destruct Hr as (G2 & [K2 _] & _). split; [exact G2|eapply db_le_trans; eassumption].
      * destruct Hr as (G2 & [K2 _] & _). split; [apply consistent_die; exact G2|eapply db_le_trans; eassumption].
      * destruct Hr as (G2 & [K2 _] & _). split; [exact G2|eapply db_le_trans; eassumption].
      * destruct Hr.
    + destruct Hv as (G1 & [K1 _] & _). split; [apply consistent_die; exact G1|exact K1].
    + destruct Hv as (G1 & [K1 _] & _). auto.
    + destruct Hv.
  - destruct (negb (alive s)); [exact Hsame|].
    destruct (get_call_node _ _ _ _ _); exact Hsame.
  - destruct (negb (alive s)); [exact Hsame|].
    destruct (nth_error (jobs s) j) as [[c Sj]|]; [|exact Hsame]. destruct (memt c (nodes (vis s))); exact Hsame.
  - destruct (negb (alive s)); [exact Hsame|].
    destruct (get_call_node _ _ _ _ _); exact Hsame.
  - destruct (negb (alive s)); [exact Hsame|].
    destruct (nth_error (jobs s) j) as [[c Sj]|]; [|exact Hsame]. destruct (memt c (nodes (vis s))); exact Hsame.
Qed.

Theorem referential_integrity : forall g es, forallb (fun e => negb (is_import e)) es = true ->
  consistent (run g es).
Proof.
  intros g es. unfold run.
  assert (H0 : consistent st0) by (split; apply fk_db0).
  revert H0. generalize st0. induction es as [|e es IH]; intros s Hs Hn; simpl; [exact Hs|].
  simpl in Hn. apply andb_true_iff in Hn. destruct Hn as [He Hn]. apply negb_true_iff in He.
  apply IH; [|exact Hn]. apply step_consistent; assumption.
Qed.

Theorem committed_never_lost : forall g s e, is_import e = false -> consistent s ->
  db_le (com s) (com (step_event g s e)).
Proof. intros. apply step_consistent; assumption. Qed.

(** The retry loop of [record_call_node] never runs out of fuel. *)
Theorem retry_loop_total : forall R ss p s pl, record_call_node R ss p s pl <> RFuel.
Proof.
  intros R ss p s pl E.
  assert (H : holds (fun _ => True) s pl (record_call_node R ss p s pl)) by (apply record_call_node_holds; auto).
  rewrite E in H. exact H.
Qed.
