From Coq Require Import List ZArith Bool Arith Lia Permutation.
From RV Require Import Model.JobMachine Proofs.JobBase Proofs.JobRes Proofs.JobRes2 Proofs.JobRes3 Proofs.JobLive.
Import ListNotations.
Open Scope list_scope.

Section L.
Variable c : config.
Hypothesis Hfix : release_if_holds (vr c) = true.
Hypothesis Hlim : forall r, (0 <= limit_of c r)%Z.

(** * re-nomination *)
Lemma requeue_core s k j z :
  getj (requeue s k) j = Some z -> exists z', getj s j = Some z' /\ same_core z' z.
Proof.
  unfold requeue. destruct (getj s k) as [x|] eqn:Hx; [|intros H; exists z; repeat split; auto].
  change (getj (enqueue (setj s k (with_phase x PQueued)) (EvExec k)) j) with (getj (setj s k (with_phase x PQueued)) j).
  destruct (Nat.eq_dec k j) as [->|Hne].
  - rewrite (getj_setj_same _ _ _ _ Hx). intros [= <-]. exists x. split; auto. apply same_core_phase.
  - rewrite getj_setj_other by assumption. intros H. exists z. repeat split; auto.
Qed.

Lemma same_core_trans x y z : same_core x y -> same_core y z -> same_core x z.
Proof. unfold same_core. intuition congruence. Qed.

Lemma live_requeue s ex j :
  (forall x, getj s j = Some x -> jholds x = false) -> Live s ex -> Live (requeue s j) ex.
Proof.
  intros Hn L. unfold requeue. destruct (getj s j) as [x|] eqn:Hx; auto.
  apply live_enqueue; try discriminate.
  - apply live_phase; auto; try discriminate. intros [H|H]; discriminate.
  - simpl. rewrite (getj_setj_same _ _ _ _ Hx). eauto.
Qed.

Lemma live_requeue_list ex l : forall s,
  (forall j x, In j l -> getj s j = Some x -> jholds x = false) -> Live s ex -> Live (fold_left requeue l s) ex.
Proof.
  induction l as [|j l IH]; intros s Hn L; simpl; auto.
  apply IH.
  - intros k z Hk Hz. destruct (requeue_core _ _ _ _ Hz) as (z' & Hz' & (_ & E & _)). rewrite <- E. eapply Hn; eauto. now right.
  - apply live_requeue; auto. intros x Hx. eapply Hn; eauto. now left.
Qed.

Lemma live_check_pending s ex : Inv c s -> Live s ex -> Live (check_pending_limits c s) ex.
Proof.
  intros I L. unfold check_pending_limits.
  destruct (split_ready c s (waiting s) []) as [ready notready] eqn:E.
  assert (Hp : Permutation (ready ++ notready) (waiting s)).
  { eapply split_ready_perm; eauto. intros j Hj. assert (j < length (jobs s)).
    { apply (i_bound _ _ I). left. unfold pend. apply in_or_app. now right. }
    unfold getj. destruct (nth_error (jobs s) j) eqn:F; eauto. apply nth_error_None in F. lia. }
  apply live_requeue_list.
  - intros j x Hj Hx. change (getj (set_waiting s notready) j) with (getj s j) in Hx.
    assert (Hin : In j (pend s)).
    { unfold pend. apply in_or_app. right. eapply Permutation_in; [exact Hp|]. apply in_or_app. now left. }
    destruct (i_pend _ _ I j x Hin Hx) as (_ & H & _). exact H.
  - eapply live_frame; [| |exact L]; reflexivity.
Qed.

Lemma live_skip s ex : Inv c s -> Live s ex -> Live (skip_wakeup c s) ex.
Proof. intros I L. unfold skip_wakeup. destruct (recheck_on_skip (vr c)); auto using live_check_pending. Qed.

(** * release *)
Lemma live_maybe_release s ex j : Inv c s -> Live s ex -> Live (maybe_release c s j) ex.
Proof.
  intros I L. unfold maybe_release. destruct (getj s j) as [x|] eqn:Hx; auto.
  rewrite Hfix. destruct (jholds x) eqn:Hh; auto.
  apply live_check_pending; [now apply inv_release|].
  apply (live_frame (setj s j (bump_release x))); [reflexivity|reflexivity|].
  apply (live_setj s ex j x); auto; unfold good; simpl.
  - intros [H|H]; [now left|right; lia].
  - intros _. right. right. lia.
  - intros _. right. lia.
  - intros _. right. lia.
  - discriminate.
Qed.

Lemma requeue_list_core l : forall s j z,
  getj (fold_left requeue l s) j = Some z -> exists z', getj s j = Some z' /\ same_core z' z.
Proof.
  induction l as [|k l IH]; intros s j z H; simpl in H; [exists z; repeat split; auto|].
  destruct (IH _ _ _ H) as (z1 & H1 & E1). destruct (requeue_core _ _ _ _ H1) as (z2 & H2 & E2).
  exists z2. split; auto. eapply same_core_trans; eauto.
Qed.

Lemma check_pending_core s j z :
  getj (check_pending_limits c s) j = Some z -> exists z', getj s j = Some z' /\ same_core z' z.
Proof.
  unfold check_pending_limits. destruct (split_ready c s (waiting s) []) as [a b]. intros H.
  destruct (requeue_list_core _ _ _ _ H) as (z' & H' & E). eauto.
Qed.

(** what [maybe_release] does to the job itself *)
Lemma maybe_release_job s j x0 x :
  getj s j = Some x0 -> getj (maybe_release c s j) j = Some x ->
  jholds x = false /\ (good' x0 -> good x).
Proof.
  intros H0. unfold maybe_release. rewrite H0, Hfix. destruct (jholds x0) eqn:Hh.
  - intros H. destruct (check_pending_core _ _ _ H) as (z' & Hz' & (C1 & C2 & C3 & C4 & C5)).
    change (getj (set_used (setj s j (bump_release x0)) (release (used s) (jlimits x0))) j)
      with (getj (setj s j (bump_release x0)) j) in Hz'.
    rewrite (getj_setj_same _ _ _ _ H0) in Hz'. injection Hz' as <-. simpl in *.
    split; [congruence|]. intros _. right. lia.
  - rewrite H0. intros [= <-]. split; auto. intros [G|G]; [exact G|congruence].
Qed.

Lemma maybe_release_not_holder s j x :
  getj (maybe_release c s j) j = Some x -> jholds x = false.
Proof.
  intros H. destruct (getj s j) as [x0|] eqn:H0.
  - destruct (maybe_release_job s j x0 x H0 H). auto.
  - unfold maybe_release in H. rewrite H0 in H. congruence.
Qed.
End L.
