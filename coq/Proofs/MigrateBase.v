(** C36 — specification predicates and basic facts about rows, tables and look-ups. *)
From Coq Require Import List String ZArith Bool Ascii Lia.
From RV Require Import Model.Migrate.
Import ListNotations.
Open Scope string_scope.
Open Scope list_scope.

(* ------------------------------------------------------------------ the preservation relation *)
(** [g t c v]: the value a migration is *supposed* to turn [v] of column [c] of table [t] into
    (identity except for a re-representation such as local time -> UTC).
    [fr t c = true]: column for which nothing is claimed. *)
Definition conv := string -> string -> val -> val.
Definition freeset := string -> string -> bool.

(** Every binding of the old row is present in the new row (modulo [g]). *)
Definition row_ext (g : conv) (fr : freeset) (t : string) (r r' : row) : Prop :=
  forall c v, rget r c = Some v -> fr t c = false -> rget r' c = Some (g t c v).

(** The old rows are, in order, a prefix of the new rows: nothing dropped, nothing merged. *)
Definition table_pres (g : conv) (fr : freeset) (t : string) (T T' : table) : Prop :=
  exists rs extra, t_rows T' = rs ++ extra /\ Forall2 (row_ext g fr t) (t_rows T) rs.

Definition preserved (g : conv) (fr : freeset) (d d' : db) : Prop :=
  forall t T, lookup t (d_tables d) = Some T ->
    exists T', lookup t (d_tables d') = Some T' /\ table_pres g fr t T T'.

Definition id_conv : conv := fun _ _ v => v.
Definition no_free : freeset := fun _ _ => false.

(* ------------------------------------------------------------------ look-ups *)
Lemma lookup_update_same : forall A (t : string) (a b : A) l,
  lookup t l = Some a -> lookup t (update t b l) = Some b.
Proof.
  induction l as [|[k x] l IH]; simpl; [discriminate|].
  destruct (String.eqb k t) eqn:E; simpl; rewrite E; auto.
Qed.

Lemma lookup_update_other : forall A (t t' : string) (b : A) l,
  t' <> t -> lookup t' (update t b l) = lookup t' l.
Proof.
  induction l as [|[k x] l IH]; simpl; intros; [reflexivity|].
  destruct (String.eqb k t) eqn:E; simpl.
  - apply String.eqb_eq in E. subst k. destruct (String.eqb t t') eqn:E'; [|reflexivity].
    apply String.eqb_eq in E'. congruence.
  - destruct (String.eqb k t'); auto.
Qed.

Lemma lookup_app_some : forall A (t : string) (a : A) l l',
  lookup t l = Some a -> lookup t (l ++ l') = Some a.
Proof.
  induction l as [|[k x] l IH]; simpl; intros; [discriminate|].
  destruct (String.eqb k t); auto.
Qed.

Lemma lookup_app_none : forall A (t : string) (l l' : list (string * A)),
  lookup t l = None -> lookup t (l ++ l') = lookup t l'.
Proof.
  induction l as [|[k x] l IH]; simpl; intros; [reflexivity|].
  destruct (String.eqb k t); [discriminate|auto].
Qed.

(* ------------------------------------------------------------------ rows *)
Lemma rget_app : forall r x c v, rget r c = Some v -> rget (r ++ x) c = Some v.
Proof.
  induction r as [|[k w] r IH]; simpl; intros; [discriminate|].
  destruct (String.eqb k c); auto.
Qed.

Lemma rget_rset_same : forall r c v w, rget r c = Some v -> rget (rset r c w) c = Some w.
Proof.
  induction r as [|[k x] r IH]; simpl; intros; [discriminate|].
  destruct (String.eqb k c) eqn:E; simpl; rewrite E; eauto.
Qed.

Lemma rget_rset_other : forall r c c' w, c' <> c -> rget (rset r c w) c' = rget r c'.
Proof.
  induction r as [|[k x] r IH]; simpl; intros; [reflexivity|].
  destruct (String.eqb k c) eqn:E; simpl.
  - apply String.eqb_eq in E. subst k. destruct (String.eqb c c') eqn:E'; [|reflexivity].
    apply String.eqb_eq in E'. congruence.
  - destruct (String.eqb k c'); auto.
Qed.

Lemma rget_rset_none : forall r c w, rget r c = None -> rset r c w = r.
Proof.
  induction r as [|[k x] r IH]; simpl; intros; [reflexivity|].
  destruct (String.eqb k c); [discriminate|]. f_equal. auto.
Qed.

(* ------------------------------------------------------------------ Forall2 helpers *)
Lemma Forall2_map_r : forall A B (R : A -> B -> Prop) (h : A -> B) l,
  (forall x, In x l -> R x (h x)) -> Forall2 R l (map h l).
Proof. induction l; simpl; intros; constructor; auto. Qed.

Lemma Forall2_impl : forall A B (R S : A -> B -> Prop), (forall a b, R a b -> S a b) ->
  forall l l', Forall2 R l l' -> Forall2 S l l'.
Proof. induction 2; constructor; auto. Qed.

Lemma Forall2_refl_in : forall A (R : A -> A -> Prop) l, (forall x, In x l -> R x x) -> Forall2 R l l.
Proof. induction l; simpl; intros; constructor; auto. Qed.

Lemma Forall2_trans_gen : forall A B C (R : A -> B -> Prop) (S : B -> C -> Prop) (Q : A -> C -> Prop),
  (forall a b c, R a b -> S b c -> Q a c) ->
  forall l1 l2 l3, Forall2 R l1 l2 -> Forall2 S l2 l3 -> Forall2 Q l1 l3.
Proof.
  intros A B C R S Q H l1 l2 l3 H1. revert l3. induction H1; intros l3 H2; inversion H2; subst; constructor; eauto.
Qed.

(* ------------------------------------------------------------------ the relation composes *)
Lemma row_ext_trans : forall g1 g2 f1 f2 t r r' r'',
  row_ext g1 f1 t r r' -> row_ext g2 f2 t r' r'' ->
  row_ext (fun t c v => g2 t c (g1 t c v)) (fun t c => f1 t c || f2 t c) t r r''.
Proof.
  unfold row_ext; intros g1 g2 f1 f2 t r r' r'' H1 H2 c v Hv Hf.
  apply orb_false_iff in Hf. destruct Hf. eauto.
Qed.

Lemma table_pres_trans : forall g1 g2 f1 f2 t T T' T'',
  table_pres g1 f1 t T T' -> table_pres g2 f2 t T' T'' ->
  table_pres (fun t c v => g2 t c (g1 t c v)) (fun t c => f1 t c || f2 t c) t T T''.
Proof.
  intros g1 g2 f1 f2 t T T' T'' (rs & ex & E1 & F1) (rs2 & ex2 & E2 & F2).
  rewrite E1 in F2. apply Forall2_app_inv_l in F2. destruct F2 as (a & b & Fa & Fb & Eab).
  exists a, (b ++ ex2). split.
  - rewrite E2, Eab, app_assoc. reflexivity.
  - eapply Forall2_trans_gen; [|exact F1|exact Fa]. intros; eapply row_ext_trans; eauto.
Qed.

Lemma preserved_trans : forall g1 g2 f1 f2 d d' d'',
  preserved g1 f1 d d' -> preserved g2 f2 d' d'' ->
  preserved (fun t c v => g2 t c (g1 t c v)) (fun t c => f1 t c || f2 t c) d d''.
Proof.
  intros g1 g2 f1 f2 d d' d'' H1 H2 t T HT.
  destruct (H1 t T HT) as (T' & L' & P1). destruct (H2 t T' L') as (T'' & L'' & P2).
  exists T''. split; [exact L''|]. eapply table_pres_trans; eauto.
Qed.

Lemma row_ext_refl : forall fr t r, row_ext id_conv fr t r r.
Proof. unfold row_ext, id_conv; auto. Qed.

Lemma table_pres_same_rows : forall g fr t T T',
  t_rows T' = t_rows T -> (forall c v, g t c v = v) -> table_pres g fr t T T'.
Proof.
  intros g fr t T T' E Hg. exists (t_rows T), []. split; [rewrite E, app_nil_r; reflexivity|].
  apply Forall2_refl_in. intros r _ c v Hv _. rewrite Hg. exact Hv.
Qed.

Lemma preserved_same_tables : forall fr d d',
  d_tables d' = d_tables d -> preserved id_conv fr d d'.
Proof.
  intros fr d d' E t T HT. exists T. rewrite E. split; [exact HT|].
  apply table_pres_same_rows; auto.
Qed.

(** Weakening: the same rows satisfy any pointwise-equal conversion / larger exemption set. *)
Lemma preserved_ext : forall g g' f f' d d',
  (forall t c v, g t c v = g' t c v) -> (forall t c, f' t c = false -> f t c = false) ->
  preserved g f d d' -> preserved g' f' d d'.
Proof.
  intros g g' f f' d d' Hg Hf H t T HT. destruct (H t T HT) as (T' & L & rs & ex & E & F).
  exists T'. split; [exact L|]. exists rs, ex. split; [exact E|].
  eapply Forall2_impl; [|exact F]. intros r r' Hr c v Hv Hfc. rewrite <- Hg. apply Hr; auto.
Qed.

(** Changing one table [t] through [on_table]. *)
Lemma on_table_preserved : forall g fr t d f d',
  on_table t d f = Ok d' ->
  (forall T T', lookup t (d_tables d) = Some T -> f T = Ok T' -> table_pres g fr t T T') ->
  (forall t' c v, t' <> t -> g t' c v = v) ->
  preserved g fr d d'.
Proof.
  unfold on_table. intros g fr t d f d' H Hf Hg.
  destruct (lookup t (d_tables d)) as [T|] eqn:L; [|discriminate].
  destruct (f T) as [T'|] eqn:F; [|discriminate]. injection H as <-.
  intros t0 T0 L0. destruct (String.eqb t0 t) eqn:E.
  - apply String.eqb_eq in E. subst t0. rewrite L in L0. injection L0 as <-.
    exists T'. split; [simpl; eapply lookup_update_same; eauto|]. eauto.
  - apply String.eqb_neq in E. exists T0. split; [simpl; rewrite lookup_update_other; auto|].
    apply table_pres_same_rows; auto.
Qed.
