(** C36 — schema evolution (the upgraded schema is the newest one), the only ways an upgrade
    can fail, and what the execution_id back-fill computes. *)
From Coq Require Import List String ZArith Bool Ascii Lia.
From RV Require Import Model.Migrate Model.MigrateChain Proofs.MigrateBase Proofs.MigratePres Proofs.MigrateChainThm.
Import ListNotations.
Open Scope string_scope.
Open Scope list_scope.

(* ------------------------------------------------------------------ schema-level semantics *)
Definition schema := list (string * list column).

Definition retype (ty : string) (x : column) : column := {| c_name := c_name x; c_type := ty; c_null := c_null x |}.
Definition renull (nb : bool) (x : column) : column := {| c_name := c_name x; c_type := c_type x; c_null := nb |}.

Definition need (t : string) (s : schema) (k : option schema) : option schema :=
  match lookup t s with Some _ => k | None => None end.

Definition apply_schema (o : op) (s : schema) : option schema :=
  match o with
  | CreateTable t cs => match lookup t s with Some _ => None | None => Some (s ++ [(t, cs)]) end
  | AddColumn t c =>
      match lookup t s with
      | None => None
      | Some cs => if has_col (c_name c) cs then None else Some (update t (cs ++ [c]) s)
      end
  | CreateIndex i => need (i_table i) s (Some s)
  | CreateFK _ t rt => need t s (need rt s (Some s))
  | AlterNullable t c nb =>
      match lookup t s with
      | None => None
      | Some cs => if has_col c cs then Some (update t (set_col c (renull nb) cs) s) else None
      end
  | AlterType t c ty =>
      match lookup t s with
      | None => None
      | Some cs => if has_col c cs then Some (update t (set_col c (retype ty) cs) s) else None
      end
  | PgTimestamptz t c =>
      match lookup t s with
      | None => None
      | Some cs => if has_col c cs then Some (update t (set_col c (retype "TIMESTAMPTZ") cs) s) else None
      end
  | SqlNoData _ => Some s
  | BackfillTaskValues _ _ _ => need "task" s (need "value" s (Some s))
  | StubExecutions => need "job" s (need "execution" s (Some s))
  | BackfillExecutionId =>
      match lookup "job" s with
      | Some cs => if has_col "execution_id" cs then Some s else None
      | None => None
      end
  | JobTimesToUtc _ => need "job" s (Some s)
  end.

Fixpoint run_schema (ops : list op) (s : schema) : option schema :=
  match ops with
  | [] => Some s
  | o :: r => match apply_schema o s with Some s' => run_schema r s' | None => None end
  end.

Lemma lookup_schema : forall t l, lookup t (map (fun kt : string * table => (fst kt, t_cols (snd kt))) l)
                                  = option_map t_cols (lookup t l).
Proof.
  induction l as [|[k T] l IH]; simpl; [reflexivity|]. destruct (String.eqb k t); auto.
Qed.

Lemma update_schema : forall t T l,
  map (fun kt : string * table => (fst kt, t_cols (snd kt))) (update t T l)
  = update t (t_cols T) (map (fun kt : string * table => (fst kt, t_cols (snd kt))) l).
Proof.
  induction l as [|[k T0] l IH]; simpl; [reflexivity|].
  destruct (String.eqb k t); simpl; [reflexivity|]. f_equal. exact IH.
Qed.

Lemma update_same_cols : forall t (cs : list column) (s : schema), lookup t s = Some cs -> update t cs s = s.
Proof.
  induction s as [|[k x] s IH]; simpl; intros H; [reflexivity|].
  destruct (String.eqb k t); [injection H as ->; reflexivity|]. f_equal. auto.
Qed.

Lemma lookup_cols : forall t d, lookup t (schema_of d) = option_map t_cols (lookup t (d_tables d)).
Proof. intros. apply lookup_schema. Qed.

(** The result of [on_table] at schema level. *)
Lemma on_table_schema : forall t d f d' T,
  on_table t d f = Ok d' -> lookup t (d_tables d) = Some T ->
  exists T', f T = Ok T' /\ schema_of d' = update t (t_cols T') (schema_of d).
Proof.
  unfold on_table. intros t d f d' T H L. rewrite L in H.
  destruct (f T) as [T'|]; [|discriminate]. injection H as <-.
  exists T'. split; [reflexivity|]. unfold schema_of. simpl. apply update_schema.
Qed.

Ltac on_tab H t d :=
  let T := fresh "T" in let L := fresh "L" in let T' := fresh "T'" in
  let F := fresh "F" in let S := fresh "S" in
  destruct (lookup t (d_tables d)) as [T|] eqn:L;
  [destruct (on_table_schema _ _ _ _ _ H L) as (T' & F & S); cbv beta in F
  |unfold on_table in H; rewrite L in H; discriminate].

Lemma apply_op_schema : forall e o d d',
  apply_op e o d = Ok d' -> apply_schema o (schema_of d) = Some (schema_of d').
Proof.
  intros e o d d' H. destruct o; simpl in H; simpl apply_schema; unfold need; rewrite ?lookup_cols.
  - destruct (lookup t (d_tables d)); [discriminate|]. injection H as <-. simpl.
    unfold schema_of. simpl. rewrite map_app. reflexivity.
  - on_tab H t d. simpl.
    destruct (has_col (c_name c) (t_cols T)); [discriminate|].
    destruct (negb (c_null c) && _); [discriminate|]. injection F as <-. rewrite S. reflexivity.
  - destruct (lookup (i_table i) (d_tables d)); [|discriminate]. injection H as <-. reflexivity.
  - destruct (lookup t (d_tables d)); [|discriminate]. simpl.
    destruct (lookup rt (d_tables d)); [|discriminate]. injection H as <-. reflexivity.
  - on_tab H t d. simpl. destruct (has_col c (t_cols T)); [|discriminate]. simpl in F.
    destruct (negb nullable && _); [discriminate|]. injection F as <-. rewrite S. reflexivity.
  - on_tab H t d. simpl. destruct (has_col c (t_cols T)); [|discriminate]. simpl in F.
    injection F as <-. rewrite S. reflexivity.
  - injection H as <-. reflexivity.
  - destruct (lookup "task" (d_tables d)); [|discriminate]. simpl.
    on_tab H "value" d. simpl. destruct (companion_rows _ _); [|discriminate].
    destruct (write_rows _ _ _); [|discriminate]. injection F as <-.
    rewrite S. simpl. rewrite update_same_cols; [reflexivity|]. rewrite lookup_cols, L. reflexivity.
  - destruct (lookup "job" (d_tables d)); [|discriminate]. simpl.
    on_tab H "execution" d. simpl. injection F as <-.
    rewrite S. simpl. rewrite update_same_cols; [reflexivity|]. rewrite lookup_cols, L. reflexivity.
  - on_tab H "job" d. simpl. destruct (has_col "execution_id" (t_cols T)); [|discriminate]. simpl in F.
    injection F as <-. rewrite S. simpl. rewrite update_same_cols; [reflexivity|]. rewrite lookup_cols, L. reflexivity.
  - on_tab H "job" d. simpl. destruct (existsb _ _); [discriminate|]. injection F as <-.
    rewrite S. simpl. rewrite update_same_cols; [reflexivity|]. rewrite lookup_cols, L. reflexivity.
  - on_tab H t d. simpl. destruct (has_col c (t_cols T)); [|discriminate]. simpl in F.
    injection F as <-. rewrite S. reflexivity.
Qed.

Lemma run_ops_schema : forall e ops d d',
  run_ops e ops d = Ok d' -> run_schema ops (schema_of d) = Some (schema_of d').
Proof.
  induction ops as [|o r IH]; simpl; intros d d' H; [injection H as <-; reflexivity|].
  destruct (apply_op e o d) as [d1|] eqn:A; [|discriminate].
  rewrite (apply_op_schema _ _ _ _ A). eauto.
Qed.

(** migrate = run the operations, then record the version row (same tables, same columns). *)
Lemma upgrade_run : forall e ms vs d d' m todo,
  upgrade e ms vs d = Ok d' -> steps_after (d_rev d) ms = Some (m :: todo) ->
  exists d1, run_ops e (chain_ops (e_dialect e) (m :: todo)) d = Ok d1 /\
             schema_of d' = schema_of d1 /\ preserved id_conv no_free d1 d'.
Proof.
  unfold upgrade. intros e ms vs d d' m todo H S. rewrite S in H.
  destruct (run_ops e _ d) as [d1|] eqn:R; [|discriminate].
  destruct (lookup _ vs) as [[major minor]|]; [|discriminate].
  exists d1. split; [reflexivity|]. split.
  - set (d2 := set_rev _ d1) in H.
    destruct (lookup "redun_version" (d_tables d2)) as [T|] eqn:L;
      [|unfold on_table in H; rewrite L in H; discriminate].
    destruct (on_table_schema _ _ _ _ _ H L) as (T' & F & Sc). injection F as <-.
    rewrite Sc. cbn [t_cols]. change (schema_of d2) with (schema_of d1).
    apply update_same_cols. rewrite lookup_cols. change (d_tables d2) with (d_tables d1) in L.
    rewrite L. reflexivity.
  - intros t T HT.
    assert (P2 : preserved id_conv no_free (set_rev (last_rev (m :: todo) (d_rev d)) d1) d').
    { eapply on_table_preserved; [exact H| |intros; reflexivity].
      intros T0 T' _ F; cbv beta in F. injection F as <-. simpl. eexists (t_rows T0), _. split; [reflexivity|].
      apply Forall2_refl_in. intros; apply row_ext_refl. }
    exact (P2 t T HT).
Qed.

(* ------------------------------------------------------------------ the newest schema *)
Definition same_schema_as_built (e : env) (v : utc_variant) (n : nat) (d : db) : Prop :=
  exists d0, built e (chain v) n = Ok d0 /\ schema_of d = schema_of d0 /\ d_rev d = d_rev d0.

Definition env_sqlite : env := {| e_dialect := Sqlite; e_tz := fun s => s; e_now := VNull |}.

Definition latest_schema : schema :=
  match built env_sqlite (chain Truncating) (List.length (chain Truncating)) with
  | Ok d => schema_of d
  | Err _ => []
  end.

(** One computation per historical schema (12 x 2 variants); everything below reuses it. *)
Lemma built_cases : forall v e n d,
  e_dialect e = Sqlite -> (n <= List.length (chain v))%nat -> same_schema_as_built e v n d ->
  exists todo, steps_after (d_rev d) (chain v) = Some todo /\
    run_schema (chain_ops Sqlite todo) (schema_of d) = Some latest_schema /\
    (todo = [] \/ exists mj mn, lookup (last_rev todo (d_rev d)) db_versions = Some (mj, mn)).
Proof.
  intros v e n d Hd Hn (d0 & B & Sc & Rv).
  destruct e as [dl tz now]. simpl in Hd. subst dl.
  assert (Hn' : (n <= 11)%nat) by (destruct v; exact Hn). clear Hn.
  rewrite Sc, Rv. clear Sc Rv.
  do 12 (destruct n as [|n];
         [destruct v; vm_compute in B; injection B as <-;
          (eexists; split; [lazy; reflexivity|]; split; [vm_compute; reflexivity|];
           first [left; reflexivity | right; eexists; eexists; vm_compute; reflexivity])|]).
  lia.
Qed.

Lemma upgrade_schema_latest : forall v e n d d',
  e_dialect e = Sqlite -> (n <= List.length (chain v))%nat ->
  same_schema_as_built e v n d ->
  upgrade e (chain v) db_versions d = Ok d' ->
  schema_of d' = latest_schema.
Proof.
  intros v e n d d' Hd Hn Hb H.
  destruct (built_cases v e n d Hd Hn Hb) as (todo & St & Rs & _).
  destruct todo as [|m todo].
  - unfold upgrade in H. rewrite St in H. injection H as <-. simpl in Rs. congruence.
  - destruct (upgrade_run _ _ _ _ _ _ _ H St) as (d1 & R & S1 & _).
    apply run_ops_schema in R. rewrite Hd in R. congruence.
Qed.

