(** C20 — witnesses (computed with the injective "hash" H = identity on pre-images) and the repaired reject path. *)
From Coq Require Import List Arith Bool Ascii.
From RV Require Import Base.Decimal Model.Bencode Model.CallGraph Proofs.CallGraphHash Proofs.CallGraphInv
     Proofs.CallGraphJobs.
Import ListNotations.
Open Scope list_scope.
Open Scope char_scope.

Definition idH (b : bytes) : hash := b.
Lemma idH_inj a b : idH a = idH b -> a = b.
Proof. auto. Qed.

Definition ji (j : nat) (p : option nat) (prov : bool) (tt : list nat) : jobinfo :=
  {| ji_id := j; ji_parent := p; ji_exec := 0; ji_task := ["T"]; ji_prov := prov; ji_task_tags := tt |}.

(** One job whose task option tags and applied job tags name the same pair (5): record_tags gets [5; 5]. *)
Definition w_tags : list ev :=
  [EStart (ji 0 None true []); ESubmit 0 false; EFinish 0 true false ["a"] ["r"] [] [] [5; 5] []].

Lemma tags_twice_dies_shipped : dead (run idH shipped_cfg init w_tags) = true.
Proof. vm_compute. reflexivity. Qed.
Lemma tags_twice_fine_fixed :
  dead (run idH fixed_cfg init w_tags) = false /\ tags (run idH fixed_cfg init w_tags) = [(EntJob 0, 5)].
Proof. vm_compute. auto. Qed.

(** root(0) calls k(1) and its duplicate j(2); k calls c(3); c succeeds, k fails, j collapsed into k. *)
Definition w_twin : list ev :=
  [EStart (ji 0 None true []); ESubmit 0 false;
   EStart (ji 1 (Some 0) true []); ESubmit 1 false;
   EStart (ji 2 (Some 0) true []);
   EStart (ji 3 (Some 1) true []); ESubmit 3 false;
   EFinish 3 true false ["c"] ["v"] [] [] [] [];
   EFinish 1 false false ["a"] ["e"] [3] [] [] [];
   EAdopt 2 (ATwin 1);
   EFinish 2 false true ["a"] ["e"] [] [] [] []].

Definition call_of (j : nat) (s : st) : option (option hash) :=
  option_map jr_call (find (fun r => Nat.eqb (jr_id r) j) (jobs s)).

Lemma failed_twin_shipped :
  let s := run idH shipped_cfg init w_twin in
  dead s = false /\ lookup_jh 1 (jh s) <> lookup_jh 2 (jh s) /\ call_of 1 s <> call_of 2 s /\
  length (cns s) = 3 /\ length (edges s) = 1.
Proof. vm_compute. repeat split; discriminate. Qed.
Lemma failed_twin_fixed :
  let s := run idH fixed_cfg init w_twin in
  dead s = false /\ call_of 1 s = call_of 2 s /\ length (cns s) = 2 /\ length (edges s) = 1.
Proof. vm_compute. auto. Qed.

(** With the repaired reject path a finishing provenance job keeps the call hash it adopted, whatever the outcome. *)
Theorem adopted_hash_kept H C i ok cached a r ch vt jt et s h :
  reject_adopts C = true -> ji_prov i = true -> lookup_jh (ji_id i) (jh s) = Some h ->
  lookup_jh (ji_id i) (jh (finish H C i ok cached a r ch vt jt et s)) = Some h /\
  cns (finish H C i ok cached a r ch vt jt et s) = cns s.
Proof.
  intros RA P K. unfold finish. rewrite P, K, RA.
  replace (if ok then true else true) with true by (destruct ok; reflexivity).
  destruct (record_job_tags _ _ _ _ _ _) as [tb d]. destruct d; simpl.
  - now rewrite Nat.eqb_refl.
  - unfold job_end.
    match goal with |- context [job_start i ?x] => destruct (job_start_rt i x) as (A & _ & D & _); set (s3 := x) in * end.
    destruct (recorded (job_start i s3) h); simpl; rewrite D, A; simpl; now rewrite Nat.eqb_refl.
Qed.

(** Historical (repaired upstream of this check, commit "a job that opted out of CSE is not registered as a
    pending twin"): with unguarded registration a provenance job collapses into a prov=False twin, adopts
    the hash of a node that is never recorded and record_job_end violates the foreign key. *)
Definition unguarded_cfg : cfg :=
  {| layout := shipped_layout; reg_guard := false; reject_adopts := false; tags_dedupe := false |}.
Definition w_unguarded : list ev :=
  [EStart (ji 0 None true []); ESubmit 0 false;
   EStart (ji 1 (Some 0) false []); ESubmit 1 true;
   EStart (ji 2 (Some 0) true []);
   EFinish 1 true false ["a"] ["r"] [] [] [] [];
   EAdopt 2 (ATwin 1);
   EFinish 2 true true ["a"] ["r"] [] [] [] []].
Lemma unguarded_twin_dies : dead (run idH unguarded_cfg init w_unguarded) = true.
Proof. vm_compute. reflexivity. Qed.
Lemma guarded_twin_fine : dead (run idH shipped_cfg init w_unguarded) = false.
Proof. vm_compute. reflexivity. Qed.

(** Non-vacuity: root(0) with children a(1), b(2, prov=False), a'(3, duplicate of a, collapsed); all succeed.
    Four finished jobs, two recorded nodes... *)
Definition w_run : list ev :=
  [EStart (ji 0 None true [7]); ESubmit 0 false;
   EStart (ji 1 (Some 0) true []); ESubmit 1 false;
   EStart (ji 2 (Some 0) false []); ESubmit 2 true;
   EStart (ji 3 (Some 0) true []);
   EFinish 2 true false ["b"] ["w"] [] [] [] [];
   EFinish 1 true false ["a"] ["v"] [] [(["v"], [4])] [5] [6];
   EAdopt 3 (ATwin 1);
   EFinish 3 true true ["a"] ["v"] [] [] [] [];
   EFinish 0 true false ["m"] ["z"] [1; 2; 1] [] [] []].

Lemma w_run_facts :
  let s := run idH shipped_cfg init w_run in
  dead s = false /\ length (cns s) = 2 /\ length (jobs s) = 3 /\ execs s = [(0, 0)] /\
  map (fun e => snd e) (edges s) = [0; 2] /\                        (* the prov=False child (position 1) has no edge *)
  tags s = [(EntValue ["v"], 4); (EntJob 1, 5); (EntExec 0, 6); (EntTask ["T"], 7)] /\
  call_of 1 s = call_of 3 s /\
  (exists h, lookup_jh 2 (jh s) = Some h /\ recorded s h = false).
Proof. vm_compute. repeat split; eauto. Qed.
