(** C32 — the array path: all jobs bunched into one array share the task that the single oneshot
    command names, hence element i computes its own task on its own arguments. *)
From Coq Require Import List Arith NArith Ascii String Bool Lia.
From RV Require Import Base.Decimal Base.Lit Model.Scratch Proofs.ScratchStr Proofs.ScratchRun Proofs.ScratchMain.
Import ListNotations.
Open Scope list_scope.

Definition NoSpace (x : str) := Forall (fun c => Ascii.eqb c ch_space = false) x.

Lemma key_fullname_inj c a b :
  key_task c = KFullname -> key_opts c = OItems -> NoSpace (fullname a) -> NoSpace (fullname b) ->
  descr_key c a = descr_key c b -> fullname a = fullname b /\ t_opts a = t_opts b.
Proof.
  unfold descr_key. intros -> -> Ha Hb H. eapply app_sep_inj; eauto.
Qed.

Section Group.
  Variable J : Type.
  Variable info : J -> tinfo.
  Variable c : cfg.
  Hypothesis KF : key_task c = KFullname.
  Hypothesis KO : key_opts c = OItems.

  Lemma group_same_key pending k j : In j (group_of c info pending k) -> descr_key c (info j) = k.
  Proof. unfold group_of. intros H. apply filter_In in H. destruct H as [_ H]. apply str_eqb_spec. exact H. Qed.

  (** task names contain no blank (redun validates task names and namespaces) *)
  Theorem group_own_task pending k group j :
    (forall x, In x pending -> NoSpace (fullname (info x))) ->
    (forall x, In x group -> In x (group_of c info pending k)) -> group <> [] ->
    In j group -> array_command_task info group = Some (fullname (info j)).
  Proof.
    intros NS Sub Hne Hj. destruct group as [|h rest]; [contradiction|]. simpl. f_equal.
    assert (Hh : In h (group_of c info pending k)) by (apply Sub; left; reflexivity).
    assert (Hj' : In j (group_of c info pending k)) by (apply Sub; assumption).
    assert (Ph : In h pending) by (unfold group_of in Hh; apply filter_In in Hh; tauto).
    assert (Pj : In j pending) by (unfold group_of in Hj'; apply filter_In in Hj'; tauto).
    apply (key_fullname_inj c (info h) (info j) KF KO (NS h Ph) (NS j Pj)).
    rewrite (group_same_key _ _ _ Hh), (group_same_key _ _ _ Hj'). reflexivity.
  Qed.

  (** all jobs of one array have the same options as jobs[0], whose options the array is submitted with *)
  Theorem group_same_options pending k group h rest j :
    (forall x, In x pending -> NoSpace (fullname (info x))) ->
    (forall x, In x group -> In x (group_of c info pending k)) -> group = h :: rest ->
    In j group -> t_opts (info j) = t_opts (info h).
  Proof.
    intros NS Sub -> Hj.
    assert (Hh : In h (group_of c info pending k)) by (apply Sub; left; reflexivity).
    assert (Hj' : In j (group_of c info pending k)) by (apply Sub; assumption).
    assert (Ph : In h pending) by (unfold group_of in Hh; apply filter_In in Hh; tauto).
    assert (Pj : In j pending) by (unfold group_of in Hj'; apply filter_In in Hj'; tauto).
    apply (key_fullname_inj c (info j) (info h) KF KO (NS j Pj) (NS h Ph)).
    rewrite (group_same_key _ _ _ Hh), (group_same_key _ _ _ Hj'). reflexivity.
  Qed.
End Group.

(** the whole array path for the shipped configuration: tasks are looked up by full name in the
    registry [F]; the array runs [F] of the name in its single command *)
Section GroupRun.
  Variable V : Type.
  Variable pbytes : Type.
  Variable dump : obj V -> pbytes.
  Variable load : pbytes -> option (obj V).
  Variable F : str -> obj V -> obj V -> outcome V.     (* task registry: full name -> function *)
  Variable valid : obj V -> bool.
  Variable tb_of : obj V -> obj V.
  Hypothesis RT : forall o, load (dump o) = Some o.
  Variable J : Type.
  Variable info : J -> tinfo.
  Variable jb : J -> job V.

  Theorem main_array_group prefix aid pending k group cmd nc envs fs0 inc before i x :
    (forall y, In y pending -> NoSpace (fullname (info y))) ->
    (forall y, In y group -> In y (group_of shipped info pending k)) ->
    array_command_task info group = Some cmd ->
    let jobs := map jb group in
    hexstr aid = true -> HexJobs V jobs -> HashDeterminesArgs V jobs ->
    (forall i, i < List.length jobs -> get_index shipped (envs i) None = IdxOk (N.of_nat i)) ->
    (forall j, In j jobs -> prior_ok' V pbytes load (F cmd) valid prefix nc j fs0) ->
    Forall (fun i => i < List.length jobs) before ->
    nth_error group i = Some x ->
    let fs := run_seq V pbytes dump load (F cmd) valid tb_of shipped prefix aid nc envs before
                (write_array V pbytes dump shipped prefix aid jobs inc fs0) in
    let '(fs', r) := run_elem V pbytes dump load (F cmd) valid tb_of shipped prefix aid nc (envs i) fs in
    cmd = fullname (info x)
    /\ collect V pbytes load shipped prefix (j_hash (jb x)) fs' r = local V (F (fullname (info x))) (jb x).
  Proof.
    intros NS Sub Hc jobs Ha Hj Hs He Hp Hb Hn fs.
    assert (Hx : In x group) by (eapply nth_error_In; eassumption).
    assert (Hne : group <> []) by (intro E; rewrite E in Hx; contradiction).
    pose proof (group_own_task J info shipped eq_refl eq_refl pending k group x NS Sub Hne Hx) as T.
    rewrite Hc in T. injection T as T.
    assert (Hn' : nth_error jobs i = Some (jb x)) by (unfold jobs; apply map_nth_error; assumption).
    pose proof (main_array V pbytes dump load (F cmd) valid tb_of RT prefix aid jobs nc envs fs0 inc before i (jb x)
                  Ha Hj Hs He Hp Hb Hn') as M.
    cbv zeta in M. fold fs in M.
    destruct (run_elem V pbytes dump load (F cmd) valid tb_of shipped prefix aid nc (envs i) fs) as [fs' r].
    destruct M as [M _]. split; [exact T|]. rewrite <- T. exact M.
  Qed.
End GroupRun.

(** Grouping by the short task name only ([by_name], the variant `job.task.name`) does not have the
    property: two tasks alpha.transform / beta.transform with equal options share an array whose
    command names alpha.transform. *)
Module NameVariant.
  Definition alpha : tinfo := {| t_ns := lit "alpha"; t_name := lit "transform"; t_opts := lit "[]"; t_optnames := lit "[]" |}.
  Definition beta : tinfo := {| t_ns := lit "beta"; t_name := lit "transform"; t_opts := lit "[]"; t_optnames := lit "[]" |}.
  Definition pending := [alpha; beta].
  Definition k := descr_key (by_name shipped) alpha.

  Lemma refuted :
    In beta (group_of (by_name shipped) (fun t => t) pending k)
    /\ array_command_task (fun t => t) (group_of (by_name shipped) (fun t => t) pending k) = Some (fullname alpha)
    /\ fullname alpha <> fullname beta.
  Proof. split; [right; left; reflexivity|]. split; [reflexivity|discriminate]. Qed.

  (** with the shipped key the same two jobs are in different groups *)
  Lemma shipped_separates :
    group_of shipped (fun t => t) pending (descr_key shipped alpha) = [alpha]
    /\ group_of shipped (fun t => t) pending (descr_key shipped beta) = [beta].
  Proof. split; reflexivity. Qed.

  (** and the run really differs: registry F, array [alpha(1); beta(2)] under the by-name grouping *)
  Definition F (name : str) (a k : obj nat) : outcome nat :=
    if str_eqb name (fullname alpha) then Ret nat (Seq [Leaf 100; a]) else Ret nat (Seq [Leaf 200; a]).
  Definition jobs : list (job nat) :=
    [ {| j_hash := lit "a1"; j_args := Leaf 1; j_kwargs := Leaf 0 |};
      {| j_hash := lit "b2"; j_args := Leaf 2; j_kwargs := Leaf 0 |} ].
  Definition remote_elem1 : collected nat :=
    let fs := write_array nat (obj nat) (fun o => o) shipped (lit "s") (lit "0f") jobs true [] in
    let '(fs', r) := run_elem nat (obj nat) (fun o => o) Some (F (fullname alpha)) (fun _ => true) (fun _ => Leaf 7)
                       shipped (lit "s") (lit "0f") false (batch_env (lit "AWS_BATCH_JOB_ARRAY_INDEX") 1) fs in
    collect nat (obj nat) Some shipped (lit "s") (lit "b2") fs' r.
  Lemma run_differs :
    remote_elem1 = CDone nat (Seq [Leaf 100; Leaf 2])
    /\ local nat (F (fullname beta)) {| j_hash := lit "b2"; j_args := Leaf 2; j_kwargs := Leaf 0 |}
       = CDone nat (Seq [Leaf 200; Leaf 2]).
  Proof. split; vm_compute; reflexivity. Qed.
End NameVariant.

(** Grouping by option NAMES only ([names_only], the variant `sorted(self.options)`): two jobs of one
    task with memory=4 and memory=64 share an array, which is submitted with jobs[0]'s memory=4. *)
Module NamesVariant.
  Definition small : tinfo := {| t_ns := lit "lib"; t_name := lit "align"; t_opts := lit "[('memory', 4)]"; t_optnames := lit "['memory']" |}.
  Definition big : tinfo := {| t_ns := lit "lib"; t_name := lit "align"; t_opts := lit "[('memory', 64)]"; t_optnames := lit "['memory']" |}.
  Definition pending := [small; big].
  Lemma refuted :
    group_of (names_only shipped) (fun t => t) pending (descr_key (names_only shipped) small) = [small; big]
    /\ t_opts big <> t_opts small.
  Proof. split; [reflexivity|discriminate]. Qed.
  Lemma shipped_separates :
    group_of shipped (fun t => t) pending (descr_key shipped small) = [small]
    /\ group_of shipped (fun t => t) pending (descr_key shipped big) = [big].
  Proof. split; reflexivity. Qed.
End NamesVariant.
