(** Job demands never change after creation: [map jlimits (jobs s)] only grows by ONew. *)
From Coq Require Import List ZArith Bool Arith Lia.
From RV Require Import Model.JobMachine Proofs.JobBase.
Import ListNotations.
Open Scope list_scope.

Definition lim_eq (s s' : state) : Prop := map jlimits (jobs s') = map jlimits (jobs s).

Lemma lim_eq_refl s : lim_eq s s. Proof. reflexivity. Qed.
Lemma lim_eq_trans s1 s2 s3 : lim_eq s1 s2 -> lim_eq s2 s3 -> lim_eq s1 s3.
Proof. unfold lim_eq. congruence. Qed.

Lemma map_set_nth_same {A B} (f : A -> B) l n x y :
  nth_error l n = Some x -> f y = f x -> map f (set_nth l n y) = map f l.
Proof.
  revert n. induction l as [|a l IH]; intros [|n]; simpl; try discriminate.
  - intros [= ->] ->. reflexivity.
  - intros H1 H2. f_equal. now apply IH.
Qed.

Lemma lim_eq_setj s j x y : getj s j = Some x -> jlimits y = jlimits x -> lim_eq s (setj s j y).
Proof. intros Hx Hy. unfold lim_eq. simpl. eapply map_set_nth_same; eauto. Qed.

Ltac le_frame := unfold lim_eq; reflexivity.

Lemma lim_eq_requeue s j : lim_eq s (requeue s j).
Proof.
  unfold requeue. destruct (getj s j) as [x|] eqn:Hx; [|apply lim_eq_refl].
  eapply lim_eq_trans; [apply (lim_eq_setj s j x (with_phase x PQueued) Hx eq_refl)|le_frame].
Qed.

Lemma lim_eq_fold {A} (f : state -> A -> state) l :
  (forall s a, lim_eq s (f s a)) -> forall s, lim_eq s (fold_left f l s).
Proof.
  intros H. induction l as [|a l IH]; intros s; simpl; [apply lim_eq_refl|].
  eapply lim_eq_trans; [apply H|apply IH].
Qed.

Lemma lim_eq_check_pending c s : lim_eq s (check_pending_limits c s).
Proof.
  unfold check_pending_limits. destruct (split_ready c s (waiting s) []) as [a b].
  eapply lim_eq_trans; [|apply lim_eq_fold; apply lim_eq_requeue]. le_frame.
Qed.

Lemma lim_eq_skip c s : lim_eq s (skip_wakeup c s).
Proof. unfold skip_wakeup. destruct (recheck_on_skip (vr c)); [apply lim_eq_check_pending|apply lim_eq_refl]. Qed.

Lemma lim_eq_maybe_release c s j : lim_eq s (maybe_release c s j).
Proof.
  unfold maybe_release. destruct (getj s j) as [x|] eqn:Hx; [|apply lim_eq_refl].
  destruct (if release_if_holds (vr c) then jholds x else negb (jcached x)); [|apply lim_eq_refl].
  eapply lim_eq_trans; [|apply lim_eq_check_pending].
  eapply lim_eq_trans; [apply (lim_eq_setj s j x (bump_release x) Hx eq_refl)|le_frame].
Qed.

Lemma lim_eq_settle_one c s j o : lim_eq s (settle_one c s j o).
Proof.
  unfold settle_one. destruct (getj s j) as [x|] eqn:Hx; [|apply lim_eq_refl].
  set (s1 := if jprov x then add_recorded s (jkey x, jctx x) o else s).
  assert (Hx1 : getj s1 j = Some x) by (unfold s1; destruct (jprov x); exact Hx).
  assert (E1 : lim_eq s s1) by (unfold s1; destruct (jprov x); reflexivity).
  unfold finalize. rewrite (getj_setj_same _ _ _ _ Hx1).
  eapply lim_eq_trans; [exact E1|].
  eapply lim_eq_trans; [apply (lim_eq_setj s1 j x (with_phase x (PSettled o)) Hx1 eq_refl)|reflexivity].
Qed.

Lemma lim_eq_notify c o s sub : lim_eq s (notify_sub c o s sub).
Proof.
  unfold notify_sub. destruct (getj s sub) as [y|] eqn:Hy; [|apply lim_eq_refl]. destruct o as [v|e].
  - eapply lim_eq_trans; [apply (lim_eq_setj s sub y (mark_cached y (Some v) PCacheQ) Hy eq_refl)|le_frame].
  - eapply lim_eq_trans; [apply (lim_eq_setj s sub y (mark_cached y None (jphase y)) Hy eq_refl)|apply lim_eq_settle_one].
Qed.

Lemma lim_eq_settle c s j o : lim_eq s (settle c s j o).
Proof.
  unfold settle. destruct (getj s j); [|apply lim_eq_refl].
  eapply lim_eq_trans; [apply lim_eq_settle_one|]. apply lim_eq_fold. intros; apply lim_eq_notify.
Qed.

Lemma lim_eq_exec c s j co : lim_eq s (exec_job c s j co).
Proof.
  unfold exec_job. destruct (getj s j) as [x|] eqn:Hx; [|apply lim_eq_refl].
  destruct (if jnocse x then None else lookup_pending s (jkey x, jctx x)) as [n|].
  { eapply lim_eq_trans; [|apply lim_eq_skip].
    eapply lim_eq_trans; [apply (lim_eq_setj s j x (with_phase x (PCollapsed n)) Hx eq_refl)|le_frame]. }
  match goal with |- lim_eq _ (match ?h with _ => _ end) => destruct h as [[v|e]|] end.
  - eapply lim_eq_trans; [|apply lim_eq_skip].
    eapply lim_eq_trans; [apply (lim_eq_setj s j x (mark_cached x v PCacheQ) Hx eq_refl)|le_frame].
  - eapply lim_eq_trans; [|apply lim_eq_skip].
    eapply lim_eq_trans; [apply (lim_eq_setj s j x (mark_cached x None PCacheQ) Hx eq_refl)|le_frame].
  - destruct (dryrun c).
    + destruct (jbadexec x).
      * eapply lim_eq_trans; [apply (lim_eq_setj s j x (with_phase x PReported) Hx eq_refl)|le_frame].
      * apply (lim_eq_setj s j x (with_phase x PDryStop) Hx eq_refl).
    + destruct (negb (within c (used s) (jlimits x))).
      * eapply lim_eq_trans; [apply (lim_eq_setj s j x (with_phase x PWaiting) Hx eq_refl)|le_frame].
      * destruct (jbadexec x).
        -- eapply lim_eq_trans; [|le_frame].
           apply (lim_eq_setj (set_used s (consume (used s) (jlimits x))) j x (mark_holds x PReported) Hx eq_refl).
        -- eapply lim_eq_trans; [|le_frame].
           apply (lim_eq_setj (set_used s (consume (used s) (jlimits x))) j x (mark_submitted (mark_holds x PSubmitted)) Hx eq_refl).
Qed.

Definition new_limits (o : op) : list (list (nat * Z)) :=
  match o with ONew _ _ l _ _ _ => [l] | _ => [] end.

Lemma step_limits c s o : map jlimits (jobs (step c s o)) = map jlimits (jobs s) ++ new_limits o.
Proof.
  destruct o as [key ctx l nocse prov bad|k j0 co|j ok e|j o]; simpl new_limits; rewrite ?app_nil_r.
  - cbn [step]. simpl. rewrite map_app. reflexivity.
  - cbn [step]. destruct (nth_error (queue s) _) as [[j|j|j e|j v]|]; auto.
    + exact (lim_eq_exec c (pop_queue s (find_event (queue s) k j0 0)) j co).
    + unfold done_job. set (s1 := maybe_release c (pop_queue s _) j).
      assert (E : lim_eq (pop_queue s (find_event (queue s) k j0 0)) s1) by apply lim_eq_maybe_release.
      destruct (getj s1 j) as [x|] eqn:Hx; [|exact E].
      destruct (jpreset x).
      * eapply eq_trans; [|exact E]. eapply eq_trans; [|apply (lim_eq_setj s1 j x (with_phase x PEvalQ) Hx eq_refl)]. reflexivity.
      * eapply eq_trans; [|exact E]. apply (lim_eq_setj s1 j x (with_phase x PEvaluating) Hx eq_refl).
    + unfold reject_job. eapply eq_trans; [apply lim_eq_settle|].
      exact (lim_eq_maybe_release c (pop_queue s (find_event (queue s) k j0 0)) j).
    + unfold resolve_job. exact (lim_eq_settle c (pop_queue s (find_event (queue s) k j0 0)) j (Ok v)).
  - cbn [step]. destruct (phase_is s j _); auto. destruct (getj s j) as [x|] eqn:Hx; auto.
    eapply eq_trans; [|apply (lim_eq_setj s j x (with_phase x PReported) Hx eq_refl)]. reflexivity.
  - cbn [step]. destruct (phase_is s j _); auto. destruct (getj s j) as [x|] eqn:Hx; auto.
    eapply eq_trans; [|apply (lim_eq_setj s j x (with_phase x PEvalQ) Hx eq_refl)]. reflexivity.
Qed.

Lemma step_limits_P (P : list (nat * Z) -> Prop) c s o :
  Forall P (map jlimits (jobs s)) -> Forall P (new_limits o) -> Forall P (map jlimits (jobs (step c s o))).
Proof. intros H1 H2. rewrite step_limits. apply Forall_app. auto. Qed.

Lemma run_limits_P (P : list (nat * Z) -> Prop) c ops :
  Forall (fun o => Forall P (new_limits o)) ops -> Forall P (map jlimits (jobs (run c ops))).
Proof.
  unfold run. intros H. rewrite <- fold_left_rev_right. apply Forall_rev in H.
  induction H as [|o l Ho _ IH]; simpl; [constructor|]. now apply step_limits_P.
Qed.
