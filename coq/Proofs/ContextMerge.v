(** C26 — merge_dicts: what the n-ary grouping computes, and when it is the fold of the deep merge. *)
From Coq Require Import List ZArith Ascii Bool Lia PeanoNat.
From RV Require Import Base.Decimal Base.Lit Model.Context Proofs.ContextBase.
Import ListNotations.
Open Scope list_scope.

(** the values found under key [k] in the dicts of [ds], in order *)
Definition dvals (k : key) (d : value) : list value :=
  match d with
  | VDict kvs => match lookup k kvs with Some v => [v] | None => [] end
  | VAtom _ => []
  end.
Definition vals (k : key) (ds : list value) : list value := flat_map (dvals k) ds.

Definition some_ne {A} (l : list A) : option (list A) := match l with [] => None | _ => Some l end.

Definition gstep (g : list (key * list value)) (kv : key * value) := group_add g (fst kv) (snd kv).

Lemma group_snoc : forall ds kvs, group (ds ++ [VDict kvs]) = fold_left gstep kvs (group ds).
Proof. intros. unfold group. rewrite fold_left_app. reflexivity. Qed.

Lemma group_add_keys : forall G k v,
  map fst (group_add G k v) = if mem_key k (map fst G) then map fst G else map fst G ++ [k].
Proof.
  induction G as [|[k' vs] G IH]; simpl; intros; [reflexivity|].
  keq k k'; simpl; [reflexivity|]. rewrite IH. destruct (mem_key k (map fst G)); reflexivity.
Qed.

Lemma group_add_lookup : forall G k v k0,
  lookup k0 (group_add G k v) =
  if keqb k0 k then Some (match lookup k G with Some vs => vs ++ [v] | None => [v] end)
  else lookup k0 G.
Proof.
  induction G as [|[k' vs] G IH]; simpl; intros; [reflexivity|].
  destruct (keqb k k') eqn:E; simpl.
  - apply keqb_eq in E. subst k'. destruct (keqb k0 k); reflexivity.
  - rewrite IH. destruct (keqb k0 k') eqn:E1; destruct (keqb k0 k) eqn:E2; try reflexivity.
    apply keqb_eq in E1. apply keqb_eq in E2. subst. rewrite keqb_refl in E. discriminate.
Qed.

Lemma group_kvs_lookup : forall kvs G k0, NoDup (map fst kvs) ->
  lookup k0 (fold_left gstep kvs G) =
  match lookup k0 kvs with
  | Some v => Some (match lookup k0 G with Some vs => vs ++ [v] | None => [v] end)
  | None => lookup k0 G
  end.
Proof.
  induction kvs as [|[k v] r IH]; simpl; intros G k0 ND; [reflexivity|].
  apply NoDup_cons_iff in ND. destruct ND as [Hn ND].
  rewrite IH by assumption. unfold gstep; simpl. rewrite group_add_lookup.
  destruct (keqb k0 k) eqn:E.
  - apply keqb_eq in E. subst k0.
    assert (L : lookup k r = None) by (apply lookup_None; assumption).
    rewrite L. reflexivity.
  - reflexivity.
Qed.

Lemma group_kvs_keys : forall kvs G, NoDup (map fst kvs) ->
  map fst (fold_left gstep kvs G) =
  map fst G ++ filter (fun k => negb (mem_key k (map fst G))) (map fst kvs).
Proof.
  induction kvs as [|[k v] r IH]; simpl; intros G ND; [rewrite app_nil_r; reflexivity|].
  apply NoDup_cons_iff in ND. destruct ND as [Hn ND].
  rewrite IH by assumption. unfold gstep; simpl. rewrite group_add_keys.
  destruct (mem_key k (map fst G)) eqn:M; simpl; [reflexivity|].
  rewrite <- app_assoc. simpl. f_equal. f_equal.
  apply filter_ext_in. intros k0 Hin. rewrite mem_key_app. simpl.
  assert (E : keqb k0 k = false) by (apply keqb_neq; intros ->; contradiction).
  rewrite E. rewrite !orb_false_r. reflexivity.
Qed.

Lemma vals_snoc : forall k ds d, vals k (ds ++ [d]) = vals k ds ++ dvals k d.
Proof. intros. unfold vals. rewrite flat_map_app. simpl. rewrite app_nil_r. reflexivity. Qed.

Lemma dmerge_all_single : forall v, dmerge_all [v] = v.
Proof. intros. unfold dmerge_all. cbn [fold_left]. apply dmerge_empty_l. Qed.

(** ** the grouping, related to the fold of the deep merge *)
Record ginv (ds : list value) (M : list (key * value)) : Prop := {
  gi_keys : map fst (group ds) = map fst M;
  gi_nodup : NoDup (map fst M);
  gi_glookup : forall k, lookup k (group ds) = some_ne (vals k ds);
  gi_mlookup : forall k, lookup k M = option_map dmerge_all (some_ne (vals k ds))
}.

Lemma group_fold : forall ds, forallb is_dict ds = true -> Forall wf ds ->
  exists M, dmerge_all ds = VDict M /\ ginv ds M.
Proof.
  induction ds as [|d ds IH] using rev_ind; intros AD WF.
  - exists []. split; [reflexivity|]. split; simpl; try reflexivity. constructor.
  - rewrite forallb_app in AD. apply andb_true_iff in AD. destruct AD as [AD Hd].
    apply Forall_app in WF. destruct WF as [WF Wd].
    destruct (IH AD WF) as [M [EM I]]. destruct I as [I1 I2 I3 I4].
    simpl in Hd. destruct d as [x|kvs]; [discriminate|].
    inversion Wd as [|? ? Wk _]; subst. apply wfb_dict in Wk. destruct Wk as [NDk Fk].
    rewrite dmerge_all_snoc, EM, dmerge_dict.
    eexists. split; [reflexivity|]. split.
    + rewrite group_snoc, group_kvs_keys, dmerge_keys, I1 by assumption. reflexivity.
    + rewrite dmerge_keys. apply NoDup_app_filter; assumption.
    + intros k. rewrite group_snoc, group_kvs_lookup, vals_snoc, I3 by assumption. simpl.
      destruct (lookup k kvs); [|rewrite app_nil_r; reflexivity].
      destruct (vals k ds) as [|a l]; reflexivity.
    + intros k. rewrite dmerge_lookup, vals_snoc, I4. simpl.
      destruct (lookup k kvs) as [y|].
      * destruct (vals k ds) as [|a l] eqn:EV; simpl.
        -- rewrite dmerge_all_single. reflexivity.
        -- rewrite app_comm_cons, dmerge_all_snoc. reflexivity.
      * rewrite app_nil_r. destruct (vals k ds); reflexivity.
Qed.

(** ** facts about [vals] *)
Lemma vals_in : forall k ds v, In v (vals k ds) ->
  exists kvs, In (VDict kvs) ds /\ lookup k kvs = Some v.
Proof.
  intros k ds v H. unfold vals in H. apply in_flat_map in H. destruct H as [d [Hd Hv]].
  destruct d as [x|kvs]; simpl in Hv; [contradiction|].
  destruct (lookup k kvs) eqn:L; simpl in Hv; [|contradiction].
  destruct Hv as [->|[]]. exists kvs. split; assumption.
Qed.

Lemma vals_wf : forall k ds, Forall wf ds -> Forall wf (vals k ds).
Proof.
  intros k ds H. rewrite Forall_forall in *. intros v Hv.
  apply vals_in in Hv. destruct Hv as [kvs [Hin L]]. exact (wf_lookup _ _ _ (H _ Hin) L).
Qed.

Lemma vals_depth : forall k ds v, In v (vals k ds) -> S (depth v) <= depth_list ds.
Proof.
  intros k ds v Hv. apply vals_in in Hv. destruct Hv as [kvs [Hin L]].
  apply lookup_In in L. apply depth_in in L. apply depth_list_in in Hin. lia.
Qed.

Lemma depth_list_bound : forall l B, l <> [] -> (forall v, In v l -> S (depth v) <= B) -> depth_list l < B.
Proof.
  induction l as [|x r IH]; intros B NE H; [congruence|]. simpl.
  assert (Hx : S (depth x) <= B) by (apply H; left; reflexivity).
  destruct r as [|y r']; [simpl; lia|].
  assert (depth_list (y :: r') < B) by (apply IH; [discriminate|intros; apply H; right; assumption]).
  lia.
Qed.

Lemma vals_length : forall k ds, length (vals k ds) <= length ds.
Proof.
  induction ds as [|d r IH]; [simpl; lia|].
  change (vals k (d :: r)) with (dvals k d ++ vals k r). rewrite app_length.
  assert (length (dvals k d) <= 1).
  { destruct d as [x|kvs]; simpl; [lia|]. destruct (lookup k kvs); simpl; lia. }
  simpl length. lia.
Qed.

(** ** unfolding of the fuelled function *)
Definition grouped (v : variant) (n : nat) (l : list value) : option value :=
  option_map VDict
    (map_opt (fun g => option_map (pair (fst g)) (merge_fuel v n (snd g))) (group l)).

Lemma merge_fuel_S : forall v n ds,
  merge_fuel v (S n) ds =
  match ds with
  | [d] => Some d
  | _ =>
      if forallb is_dict ds then grouped v n ds
      else match v with
           | AsShipped => Some (last ds empty_dict)
           | Fixed =>
               match after_last_nondict ds with
               | [] => Some (last ds empty_dict)
               | [d] => Some d
               | tl => grouped v n tl
               end
           end
  end.
Proof. reflexivity. Qed.

Lemma map_opt_some : forall {A B} (f : A -> option B) (h : A -> B) l,
  (forall x, In x l -> f x = Some (h x)) -> map_opt f l = Some (map h l).
Proof.
  induction l as [|x r IH]; simpl; intros H; [reflexivity|].
  rewrite (H x) by (left; reflexivity). rewrite IH by (intros; apply H; right; assumption).
  reflexivity.
Qed.

Lemma map_opt_ext : forall {A B} (f g : A -> option B) l,
  (forall x, In x l -> f x = g x) -> map_opt f l = map_opt g l.
Proof.
  induction l as [|x r IH]; simpl; intros H; [reflexivity|].
  rewrite (H x) by (left; reflexivity). rewrite IH by (intros; apply H; right; assumption).
  reflexivity.
Qed.

Lemma map_fst_map2 : forall {A B} (f : A -> B) (l : list (key * A)),
  map fst (map (fun g => (fst g, f (snd g))) l) = map fst l.
Proof. induction l as [|x r IH]; simpl; [reflexivity|f_equal; exact IH]. Qed.

(** ** the suffix after the last non-dict *)
Lemma after_cons : forall d r,
  after_last_nondict (d :: r) = if forallb is_dict (d :: r) then d :: r else after_last_nondict r.
Proof. reflexivity. Qed.

Lemma after_all_dict : forall l, forallb is_dict l = true -> after_last_nondict l = l.
Proof. intros [|d r] H; [reflexivity|]. rewrite after_cons, H. reflexivity. Qed.

Lemma after_is_all_dict : forall l, forallb is_dict (after_last_nondict l) = true.
Proof.
  induction l as [|d r IH]; [reflexivity|]. rewrite after_cons.
  destruct (forallb is_dict (d :: r)) eqn:E; assumption.
Qed.

Lemma after_suffix : forall l, exists pre, l = pre ++ after_last_nondict l.
Proof.
  induction l as [|d r IH]; [exists []; reflexivity|]. rewrite after_cons.
  destruct (forallb is_dict (d :: r)); [exists []; reflexivity|].
  destruct IH as [pre E]. exists (d :: pre). simpl. f_equal. exact E.
Qed.

Lemma fold_after : forall l a, forallb is_dict l = false ->
  exists x, is_dict x = false /\
            fold_left dmerge l a = fold_left dmerge (after_last_nondict l) x /\
            (after_last_nondict l = [] -> last l empty_dict = x).
Proof.
  induction l as [|d r IH]; intros a H; [discriminate|].
  rewrite after_cons, H. cbn [fold_left].
  destruct (forallb is_dict r) eqn:R.
  - assert (Hd : is_dict d = false).
    { simpl in H. rewrite R, andb_true_r in H. exact H. }
    exists d. rewrite (after_all_dict _ R), (dmerge_nondict_r _ _ Hd).
    split; [exact Hd|]. split; [reflexivity|]. intros ->. reflexivity.
  - destruct (IH (dmerge a d) eq_refl) as [x [H1 [H2 H3]]]. exists x.
    split; [exact H1|]. split; [exact H2|]. intros E. rewrite <- (H3 E).
    destruct r; [discriminate|reflexivity].
Qed.

Lemma dmerge_all_after : forall l, forallb is_dict l = false ->
  match after_last_nondict l with
  | [] => dmerge_all l = last l empty_dict
  | tl => dmerge_all l = dmerge_all tl
  end.
Proof.
  intros l H. destruct (fold_after l empty_dict H) as [x [H1 [H2 H3]]].
  unfold dmerge_all at 1 2. rewrite H2.
  destruct (after_last_nondict l) as [|t tl] eqn:E.
  - simpl. symmetry. apply H3. reflexivity.
  - unfold dmerge_all. cbn [fold_left]. rewrite dmerge_empty_l, (dmerge_nondict_l _ _ H1). reflexivity.
Qed.

(** ** when the n-ary function is the left fold of the deep merge *)
Definition okv (v : variant) (ds : list value) : Prop :=
  match v with Fixed => True | AsShipped => length ds <= 2 end.

Lemma grouped_correct : forall v n l,
  (forall ds, depth_list ds < n -> Forall wf ds -> okv v ds -> merge_fuel v n ds = Some (dmerge_all ds)) ->
  forallb is_dict l = true -> Forall wf l -> depth_list l <= n -> okv v l ->
  grouped v n l = Some (dmerge_all l).
Proof.
  intros v n l IH AD WF DL OK.
  destruct (group_fold l AD WF) as [M [EM I]]. destruct I as [I1 I2 I3 I4].
  unfold grouped. rewrite EM.
  rewrite (map_opt_some _ (fun g => (fst g, dmerge_all (snd g)))).
  - simpl. f_equal. f_equal. apply kvs_ext.
    + rewrite map_fst_map2. exact I1.
    + rewrite map_fst_map2, I1. exact I2.
    + intros k. rewrite lookup_map, I3, I4. reflexivity.
  - intros [k vs] Hin. simpl.
    assert (L : lookup k (group l) = Some vs).
    { apply In_lookup; [rewrite I1; exact I2|exact Hin]. }
    rewrite I3 in L. destruct (vals k l) as [|a r] eqn:EV; [discriminate|].
    simpl in L. injection L as <-. rewrite <- EV.
    rewrite IH; [reflexivity| | |].
    + assert (depth_list (vals k l) < depth_list l).
      { apply depth_list_bound; [rewrite EV; discriminate|]. intros x Hx. exact (vals_depth _ _ _ Hx). }
      lia.
    + apply vals_wf. exact WF.
    + destruct v; simpl in *; [|exact I]. pose proof (vals_length k l). lia.
Qed.

Theorem merge_fuel_correct : forall v n ds,
  depth_list ds < n -> Forall wf ds -> okv v ds -> merge_fuel v n ds = Some (dmerge_all ds).
Proof.
  intros v. induction n as [|n IH]; intros ds DL WF OK; [lia|].
  rewrite merge_fuel_S.
  destruct ds as [|d [|d2 r]].
  - reflexivity.
  - rewrite dmerge_all_single. reflexivity.
  - remember (d :: d2 :: r) as l eqn:El.
    destruct (forallb is_dict l) eqn:AD.
    + apply grouped_correct; try assumption. lia.
    + destruct v.
      * simpl in OK. subst l. simpl in OK. destruct r; [|simpl in OK; lia].
        rewrite dmerge_all_two. simpl. f_equal.
        simpl in AD. rewrite andb_true_r in AD. apply andb_false_iff in AD.
        destruct AD as [H|H]; [rewrite (dmerge_nondict_l _ _ H)|rewrite (dmerge_nondict_r _ _ H)];
          reflexivity.
      * pose proof (dmerge_all_after l AD) as HA.
        pose proof (after_is_all_dict l) as HD.
        destruct (after_suffix l) as [pre EP].
        assert (WFt : Forall wf (after_last_nondict l)).
        { rewrite EP in WF. apply Forall_app in WF. tauto. }
        assert (DLt : depth_list (after_last_nondict l) <= n).
        { rewrite EP in DL. rewrite depth_list_app in DL. lia. }
        destruct (after_last_nondict l) as [|t [|t2 tr]] eqn:ET.
        -- rewrite HA. reflexivity.
        -- rewrite HA, dmerge_all_single. reflexivity.
        -- rewrite HA. apply grouped_correct; try assumption; try exact I.
Qed.

(** ** totality and fuel independence (both variants, any input) *)
Lemma group_add_bound : forall B G k v,
  (forall g x, In g G -> In x (snd g) -> S (depth x) <= B) -> S (depth v) <= B ->
  forall g x, In g (group_add G k v) -> In x (snd g) -> S (depth x) <= B.
Proof.
  induction G as [|[k' vs] G IH]; simpl; intros k v HG Hv g x Hg Hx.
  - destruct Hg as [<-|[]]. simpl in Hx. destruct Hx as [<-|[]]. exact Hv.
  - destruct (keqb k k').
    + destruct Hg as [<-|Hg].
      * simpl in Hx. apply in_app_iff in Hx. destruct Hx as [Hx|[<-|[]]]; [|exact Hv].
        apply (HG (k', vs)); [left; reflexivity|exact Hx].
      * apply (HG g); [right; exact Hg|exact Hx].
    + destruct Hg as [<-|Hg].
      * apply (HG (k', vs)); [left; reflexivity|exact Hx].
      * apply (IH k v) with (g := g); try assumption. intros g0 x0 H0 H1. apply (HG g0); [right; exact H0|exact H1].
Qed.

Lemma group_bound : forall B ds G,
  (forall g x, In g G -> In x (snd g) -> S (depth x) <= B) -> depth_list ds <= B ->
  forall g x, In g (fold_left group_dict ds G) -> In x (snd g) -> S (depth x) <= B.
Proof.
  induction ds as [|d r IH]; simpl; intros G HG DL; [exact HG|].
  apply IH; [|lia].
  destruct d as [a|kvs]; simpl; [exact HG|].
  assert (Hk : forall k x, In (k, x) kvs -> S (depth x) <= B).
  { intros k x Hin. apply depth_in in Hin. lia. }
  clear DL IH. revert G HG. induction kvs as [|[k x] kr IHk]; simpl; intros G HG; [exact HG|].
  apply IHk.
  - intros k0 x0 Hin. apply (Hk k0). right. exact Hin.
  - apply group_add_bound; [exact HG|]. apply (Hk k). left. reflexivity.
Qed.

Lemma group_depth : forall l g, In g (group l) -> snd g <> [] -> depth_list (snd g) < depth_list l.
Proof.
  intros l g Hg NE. apply depth_list_bound; [exact NE|].
  intros x Hx. apply (group_bound (depth_list l) l [] ) with (g := g); try assumption; [|lia].
  intros ? ? [].
Qed.

Lemma group_add_nonempty : forall G k v,
  (forall g, In g G -> snd g <> []) -> forall g, In g (group_add G k v) -> snd g <> [].
Proof.
  induction G as [|[k' vs] G IH]; simpl; intros k v HG g Hg.
  - destruct Hg as [<-|[]]. discriminate.
  - destruct (keqb k k').
    + destruct Hg as [<-|Hg]; [simpl; destruct vs; discriminate|apply HG; right; exact Hg].
    + destruct Hg as [<-|Hg]; [apply (HG (k', vs)); left; reflexivity|].
      apply (IH k v); [|exact Hg]. intros g0 H0. apply HG. right. exact H0.
Qed.

Lemma group_nonempty : forall l g, In g (group l) -> snd g <> [].
Proof.
  intros l. unfold group.
  assert (H : forall ds G, (forall g, In g G -> snd g <> []) ->
                           forall g, In g (fold_left group_dict ds G) -> snd g <> []).
  { induction ds as [|d r IH]; simpl; intros G HG; [exact HG|]. apply IH.
    destruct d as [a|kvs]; simpl; [exact HG|].
    revert G HG. induction kvs as [|[k x] kr IHk]; simpl; intros G HG; [exact HG|].
    apply IHk. apply group_add_nonempty. exact HG. }
  apply H. intros ? [].
Qed.

Lemma grouped_ext : forall v n m l,
  (forall ds, depth_list ds < n -> depth_list ds < m -> merge_fuel v n ds = merge_fuel v m ds) ->
  depth_list l <= n -> depth_list l <= m -> grouped v n l = grouped v m l.
Proof.
  intros v n m l IH Hn Hm. unfold grouped. f_equal. apply map_opt_ext. intros g Hg.
  pose proof (group_depth l g Hg (group_nonempty l g Hg)). rewrite IH by lia. reflexivity.
Qed.

Lemma merge_fuel_indep : forall v n m ds,
  depth_list ds < n -> depth_list ds < m -> merge_fuel v n ds = merge_fuel v m ds.
Proof.
  intros v. induction n as [|n IH]; intros m ds Hn Hm; [lia|].
  destruct m as [|m]; [lia|]. rewrite !merge_fuel_S.
  destruct ds as [|d [|d2 r]]; [| reflexivity |].
  - simpl. reflexivity.
  - remember (d :: d2 :: r) as l eqn:El.
    destruct (forallb is_dict l).
    + apply grouped_ext; [intros; apply IH; assumption|lia|lia].
    + destruct v; [reflexivity|].
      destruct (after_suffix l) as [pre EP].
      assert (depth_list (after_last_nondict l) <= depth_list l).
      { rewrite EP at 2. rewrite depth_list_app. lia. }
      destruct (after_last_nondict l) as [|t [|t2 tr]]; try reflexivity.
      apply grouped_ext; [intros; apply IH; assumption|lia|lia].
Qed.

Lemma map_opt_total : forall {A B} (f : A -> option B) l,
  (forall x, In x l -> f x <> None) -> map_opt f l <> None.
Proof.
  induction l as [|x r IH]; simpl; intros H; [discriminate|].
  destruct (f x) eqn:E; [|exfalso; apply (H x); [left; reflexivity|exact E]].
  destruct (map_opt f r) eqn:E2; [discriminate|].
  exfalso. apply IH; [|reflexivity]. intros y Hy. apply H. right. exact Hy.
Qed.

Lemma grouped_total : forall v n l,
  (forall ds, depth_list ds < n -> merge_fuel v n ds <> None) ->
  depth_list l <= n -> grouped v n l <> None.
Proof.
  intros v n l IH Hn. unfold grouped.
  destruct (map_opt _ (group l)) eqn:E; [discriminate|]. exfalso.
  revert E. apply map_opt_total. intros g Hg.
  pose proof (group_depth l g Hg (group_nonempty l g Hg)).
  destruct (merge_fuel v n (snd g)) eqn:E; [discriminate|]. exfalso. revert E. apply IH. lia.
Qed.

Lemma merge_fuel_total : forall v n ds, depth_list ds < n -> merge_fuel v n ds <> None.
Proof.
  intros v. induction n as [|n IH]; intros ds Hn; [lia|]. rewrite merge_fuel_S.
  destruct ds as [|d [|d2 r]]; [simpl; discriminate|discriminate|].
  remember (d :: d2 :: r) as l eqn:El.
  destruct (forallb is_dict l).
  - apply grouped_total; [exact IH|lia].
  - destruct v; [discriminate|].
    destruct (after_suffix l) as [pre EP].
    assert (depth_list (after_last_nondict l) <= depth_list l).
    { rewrite EP at 2. rewrite depth_list_app. lia. }
    destruct (after_last_nondict l) as [|t [|t2 tr]]; try discriminate.
    apply grouped_total; [exact IH|lia].
Qed.

(** the defining equation of [merge] (the shape of the Python function), without fuel *)
Definition merge_group (v : variant) (l : list value) : option value :=
  option_map VDict (map_opt (fun g => option_map (pair (fst g)) (merge v (snd g))) (group l)).

Lemma grouped_merge : forall v l, grouped v (depth_list l) l = merge_group v l.
Proof.
  intros. unfold grouped, merge_group. f_equal. apply map_opt_ext. intros g Hg.
  pose proof (group_depth l g Hg (group_nonempty l g Hg)). unfold merge.
  rewrite (merge_fuel_indep v (depth_list l) (S (depth_list (snd g)))) by lia. reflexivity.
Qed.

Theorem merge_equation : forall v ds,
  merge v ds =
  match ds with
  | [d] => Some d
  | _ =>
      if forallb is_dict ds then merge_group v ds
      else match v with
           | AsShipped => Some (last ds empty_dict)
           | Fixed =>
               match after_last_nondict ds with
               | [] => Some (last ds empty_dict)
               | [d] => Some d
               | tl => merge_group v tl
               end
           end
  end.
Proof.
  intros v ds. unfold merge. rewrite merge_fuel_S.
  destruct ds as [|d [|d2 r]]; [reflexivity|reflexivity|].
  remember (d :: d2 :: r) as l eqn:El.
  destruct (forallb is_dict l); [apply grouped_merge|].
  destruct v; [reflexivity|].
  destruct (after_suffix l) as [pre EP].
  assert (D : depth_list (after_last_nondict l) <= depth_list l).
  { rewrite EP at 2. rewrite depth_list_app. lia. }
  destruct (after_last_nondict l) as [|t [|t2 tr]]; try reflexivity.
  rewrite <- grouped_merge. apply grouped_ext; [intros; apply merge_fuel_indep; assumption|lia|lia].
Qed.

Theorem merge_total : forall v ds, exists r, merge v ds = Some r.
Proof.
  intros v ds. destruct (merge v ds) eqn:E; [eexists; reflexivity|].
  exfalso. revert E. apply merge_fuel_total. lia.
Qed.

(** every grouped value list is the list of values of that key, in argument order *)
Theorem group_spec : forall ds, forallb is_dict ds = true -> Forall wf ds ->
  NoDup (map fst (group ds)) /\ forall k, lookup k (group ds) = some_ne (vals k ds).
Proof.
  intros ds AD WF. destruct (group_fold ds AD WF) as [M [_ I]]. destruct I as [I1 I2 I3 I4].
  split; [rewrite I1; exact I2|exact I3].
Qed.

(** ** corollaries *)
Theorem merge_fixed_fold : forall ds, Forall wf ds -> merge Fixed ds = Some (dmerge_all ds).
Proof. intros. apply merge_fuel_correct; [lia|assumption|exact I]. Qed.

Theorem merge_binary : forall v a b, wf a -> wf b -> merge v [a; b] = Some (dmerge a b).
Proof.
  intros v a b Ha Hb. rewrite <- dmerge_all_two. apply merge_fuel_correct; [lia| |].
  - repeat constructor; assumption.
  - destruct v; simpl; [lia|exact I].
Qed.

Lemma merge_all_dict : forall v ds n, 2 <= length ds -> forallb is_dict ds = true ->
  merge_fuel v (S n) ds = grouped v n ds.
Proof.
  intros v ds n L AD. rewrite merge_fuel_S. destruct ds as [|d [|d2 r]]; simpl in L; try lia.
  rewrite AD. reflexivity.
Qed.

(** three arguments of which one is the empty dict: as shipped, still the fold *)
Theorem merge3_with_empty : forall v p c k,
  wf p -> wf c -> wf k -> is_dict p = true -> is_dict c = true -> is_dict k = true ->
  p = empty_dict \/ c = empty_dict \/ k = empty_dict ->
  merge v [p; c; k] = Some (dmerge (dmerge p c) k).
Proof.
  intros v p c k Wp Wc Wk Dp Dc Dk HE. unfold merge.
  rewrite merge_all_dict; [|simpl; lia|simpl; rewrite Dp, Dc, Dk; reflexivity].
  set (n := depth_list [p; c; k]).
  assert (G : exists a b, wf a /\ wf b /\ is_dict a = true /\ is_dict b = true /\
                          group [p; c; k] = group [a; b] /\ dmerge (dmerge p c) k = dmerge a b /\
                          depth_list [a; b] <= n).
  { destruct HE as [ -> | [ -> | -> ] ].
    - exists c, k. rewrite dmerge_empty_l. repeat split; try assumption.
      subst n. unfold depth_list. cbn [fold_right]. lia.
    - exists p, k. rewrite (dmerge_empty_r _ Dp). repeat split; try assumption.
      subst n. unfold depth_list. cbn [fold_right]. lia.
    - exists p, c. rewrite (dmerge_empty_r (dmerge p c)) by (apply dmerge_is_dict; assumption).
      repeat split; try assumption.
      subst n. unfold depth_list. cbn [fold_right]. lia. }
  destruct G as [a [b [Wa [Wb [Da [Db [EG [ED DL]]]]]]]].
  unfold grouped. rewrite EG, ED. fold (grouped v n [a; b]).
  rewrite <- merge_all_dict; [|simpl; lia|simpl; rewrite Da, Db; reflexivity].
  rewrite <- dmerge_all_two. apply merge_fuel_correct; [lia| |].
  - repeat constructor; assumption.
  - destruct v; simpl; [lia|exact I].
Qed.
