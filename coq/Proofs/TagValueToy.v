(** The premise [py_laws] of the C34 theorems is satisfiable: a small self-contained
    [int] / [float] / [json] pair ([toy_ext]) that meets every law.  The toy JSON text is a
    length-prefixed code, not real JSON syntax — only the laws matter here. *)
From Coq Require Import List NArith ZArith Ascii String Bool Permutation Lia.
From RV Require Import Base.Decimal Base.DecimalFacts Model.TagValue Proofs.TagValueFacts.
Import ListNotations.
Open Scope list_scope.
Local Notation length := Datatypes.length.

Definition tv := jv unit.

(** * a prefix code for values *)
Definition enc_str (s : ustr) : list N := N.of_nat (length s) :: s.

Fixpoint enc (v : tv) : list N :=
  match v with
  | JNull => [0%N]
  | JBool b => [1%N; if b then 1%N else 0%N]
  | JInt z => [2%N; if (z <? 0)%Z then 1%N else 0%N; Z.abs_N z]
  | JFloat _ => [3%N]
  | JStr s => 4%N :: enc_str s
  | JList l => 5%N :: N.of_nat (length l) :: flat_map enc l
  | JDict kvs =>
      6%N :: N.of_nat (length kvs) ::
      (fix go (kvs : list (ustr * tv)) : list N :=
         match kvs with [] => [] | (k, x) :: r => enc_str k ++ enc x ++ go r end) kvs
  end.

Fixpoint enc_items (kvs : list (ustr * tv)) : list N :=
  match kvs with [] => [] | (k, x) :: r => enc_str k ++ enc x ++ enc_items r end.

Fixpoint take (n : nat) (i : list N) : option (list N * list N) :=
  match n with
  | O => Some ([], i)
  | S n => match i with
           | [] => None
           | c :: r => match take n r with Some (a, b) => Some (c :: a, b) | None => None end
           end
  end.

Definition dec_str (i : list N) : option (ustr * list N) :=
  match i with [] => None | n :: r => take (N.to_nat n) r end.

Fixpoint rep {A} (f : list N -> option (A * list N)) (n : nat) (i : list N) : option (list A * list N) :=
  match n with
  | O => Some ([], i)
  | S n => match f i with
           | Some (a, r) => match rep f n r with Some (l, r') => Some (a :: l, r') | None => None end
           | None => None
           end
  end.

Definition dec_entry (d : list N -> option (tv * list N)) (i : list N) : option ((ustr * tv) * list N) :=
  match dec_str i with
  | Some (k, i') => match d i' with Some (x, i'') => Some ((k, x), i'') | None => None end
  | None => None
  end.

Fixpoint dec (fuel : nat) (i : list N) : option (tv * list N) :=
  match fuel with
  | O => None
  | S fuel =>
      match i with
      | [] => None
      | c :: r =>
          if N.eqb c 0 then Some (JNull, r)
          else if N.eqb c 1 then match r with b :: r' => Some (JBool (N.eqb b 1), r') | [] => None end
          else if N.eqb c 2 then
            match r with
            | sg :: n :: r' => Some (JInt (if N.eqb sg 1 then - Z.of_N n else Z.of_N n)%Z, r')
            | _ => None
            end
          else if N.eqb c 3 then Some (JFloat tt, r)
          else if N.eqb c 4 then
            match dec_str r with Some (s, r') => Some (JStr s, r') | None => None end
          else if N.eqb c 5 then
            match r with
            | n :: r' => match rep (dec fuel) (N.to_nat n) r' with
                         | Some (l, r'') => Some (JList l, r'')
                         | None => None
                         end
            | [] => None
            end
          else if N.eqb c 6 then
            match r with
            | n :: r' =>
                match rep (dec_entry (dec fuel)) (N.to_nat n) r' with
                | Some (kvs, r'') => Some (JDict kvs, r'')
                | None => None
                end
            | [] => None
            end
          else None
      end
  end.

(** * the toy interpreter functions *)
Definition toy_dumps (_ : bool) (v : tv) : ustr :=
  match v with
  | JNull => u "null"
  | JBool true => u "true"
  | JBool false => u "false"
  | JInt z => dec_u z
  | JFloat _ => u "0.5"
  | JStr _ => 34%N :: enc v
  | JList _ => 91%N :: enc v
  | JDict _ => 123%N :: enc v
  end.

Definition toy_loads (s : ustr) : option tv :=
  match s with
  | [] => None
  | _ :: r => match dec (length r) r with Some (v, []) => Some v | _ => None end
  end.

Definition toy_int (s : ustr) : option Z := parse_dec (map ascii_of_N s).
Definition toy_float (s : ustr) : option unit := if ustr_eqb s (u "0.5") then Some tt else None.

Definition toy_ext : ext unit := {|
  py_int := toy_int; py_float := toy_float; json_loads := toy_loads; json_dumps := toy_dumps
|}.

(** * proofs *)
Lemma take_app s r : take (length s) (s ++ r) = Some (s, r).
Proof. induction s; simpl; [reflexivity|]. now rewrite IHs. Qed.

Lemma dec_str_enc s r : dec_str (enc_str s ++ r) = Some (s, r).
Proof. unfold dec_str, enc_str. simpl. rewrite Nnat.Nat2N.id. apply take_app. Qed.

Lemma enc_dict kvs : enc (JDict kvs) = 6%N :: N.of_nat (length kvs) :: enc_items kvs.
Proof. simpl. reflexivity. Qed.

Lemma enc_nonempty v : 1 <= length (enc v).
Proof. destruct v; simpl; lia. Qed.

Lemma dec_enc fuel : forall v r, length (enc v) <= fuel -> dec fuel (enc v ++ r) = Some (v, r).
Proof.
  induction fuel as [|fuel IH]; intros v r Hlen.
  - generalize (enc_nonempty v). lia.
  - destruct v as [|b|z|f|s|l|kvs].
    + reflexivity.
    + destruct b; reflexivity.
    + simpl. do 2 f_equal. destruct (Z.ltb_spec z 0); simpl; f_equal; rewrite N2Z.inj_abs_N; lia.
    + destruct f. reflexivity.
    + change (enc (JStr s) ++ r) with (4%N :: (enc_str s ++ r)).
      cbn [dec N.eqb]. now rewrite dec_str_enc.
    + change (enc (JList l) ++ r) with (5%N :: N.of_nat (length l) :: (flat_map enc l ++ r)).
      cbn [dec N.eqb]. rewrite Nnat.Nat2N.id.
      assert (H : rep (dec fuel) (length l) (flat_map enc l ++ r) = Some (l, r)).
      { assert (Hl : length (flat_map enc l) <= fuel) by (simpl in Hlen; lia).
        clear Hlen. revert Hl. induction l as [|x l IHl]; simpl; intros Hl; [reflexivity|].
        rewrite app_length in Hl. rewrite <- app_assoc, IH by lia. rewrite IHl by lia. reflexivity. }
      now rewrite H.
    + rewrite enc_dict in *.
      change ((6%N :: N.of_nat (length kvs) :: enc_items kvs) ++ r)
        with (6%N :: N.of_nat (length kvs) :: (enc_items kvs ++ r)).
      cbn [dec N.eqb]. rewrite Nnat.Nat2N.id.
      assert (H : rep (dec_entry (dec fuel)) (length kvs) (enc_items kvs ++ r) = Some (kvs, r)).
      { assert (Hl : length (enc_items kvs) <= fuel) by (simpl in Hlen; lia).
        clear Hlen. revert Hl. induction kvs as [|[k x] kvs IHk]; simpl; intros Hl; [reflexivity|].
        rewrite !app_length in Hl. simpl in Hl.
        unfold dec_entry at 1. rewrite <- !app_assoc.
        change (N.of_nat (length k) :: k ++ enc x ++ enc_items kvs ++ r)
          with (enc_str k ++ (enc x ++ enc_items kvs ++ r)).
        rewrite dec_str_enc, IH by lia. rewrite IHk by lia. reflexivity. }
      now rewrite H.
Qed.

Lemma toy_loads_dumps c v : toy_loads (c :: enc v) = Some v.
Proof.
  unfold toy_loads. rewrite <- (app_nil_r (enc v)) at 2. now rewrite dec_enc by lia.
Qed.

Fixpoint jeq_refl {F} (v : jv F) : jeq v v :=
  match v with
  | JNull => jeq_null
  | JBool b => jeq_bool b
  | JInt z => jeq_int z
  | JFloat f => jeq_float f
  | JStr s => jeq_str s
  | JList l =>
      jeq_list l l ((fix go (l : list (jv F)) : Forall2 jeq l l :=
                       match l with
                       | [] => Forall2_nil _
                       | x :: r => Forall2_cons x x (jeq_refl x) (go r)
                       end) l)
  | JDict kvs =>
      jeq_dict kvs kvs kvs (Permutation_refl kvs)
        ((fix go (l : list (ustr * jv F)) :
            Forall2 (fun a b => fst a = fst b /\ jeq (snd a) (snd b)) l l :=
            match l with
            | [] => Forall2_nil _
            | (k, x) :: r => Forall2_cons (k, x) (k, x) (conj eq_refl (jeq_refl x)) (go r)
            end) kvs)
  end.

Lemma map_ascii_N l : map ascii_of_N (map N_of_ascii l) = l.
Proof. induction l; simpl; [reflexivity|]. now rewrite ascii_N_embedding, IHl. Qed.

Lemma lits3_cases s l : lookup_lit lits3 s = Some l -> s = u "true" \/ s = u "false" \/ s = u "null".
Proof.
  unfold lits3. cbn [lookup_lit].
  destruct (ustr_eqb s (u "false")) eqn:H2; [apply ustr_eqb_eq in H2; auto|].
  destruct (ustr_eqb s (u "null")) eqn:H3; [apply ustr_eqb_eq in H3; auto|].
  destruct (ustr_eqb s (u "true")) eqn:H1; [apply ustr_eqb_eq in H1; auto|discriminate].
Qed.

Theorem toy_laws : py_laws toy_ext.
Proof.
  constructor; cbn [json_dumps json_loads py_int py_float toy_ext].
  - reflexivity.
  - reflexivity.
  - reflexivity.
  - reflexivity.
  - intros z. unfold toy_int, dec_u. rewrite map_ascii_N. apply parse_dec_of_Z.
  - intros []. repeat split; try reflexivity. discriminate.
  - intros s. eexists; reflexivity.
  - intros l. eexists; reflexivity.
  - intros kvs. eexists; reflexivity.
  - intros s l H. destruct (lits3_cases s l H) as [->|[->| ->]]; split; reflexivity.
  - intros v _ Hr. exists v. split; [|apply jeq_refl].
    destruct v; try discriminate; unfold toy_dumps; apply toy_loads_dumps.
Qed.
