(** [admb] decides [adm]. *)
From Coq Require Import List ZArith Bool Arith Lia.
From RV Require Import Model.EvalTree.
Import ListNotations.
Open Scope list_scope.

Section SpecInd.
  Variable P : spec -> Prop.
  Hypothesis HLeaf : forall z, P (SLeaf z).
  Hypothesis HRaise : forall e, P (SRaise e).
  Hypothesis HList : forall p cs, Forall P cs -> P (SList p cs).
  Hypothesis HSeq : forall cs, Forall P cs -> P (SSeq cs).
  Hypothesis HCatch : forall c, P c -> P (SCatch c).
  Hypothesis HAll : forall cs, Forall P cs -> P (SAll cs).
  Hypothesis HAllRec : forall cs, Forall P cs -> P (SAllRec cs).
  Fixpoint spec_ind' (s : spec) : P s :=
    match s with
    | SLeaf z => HLeaf z
    | SRaise e => HRaise e
    | SList p cs => HList p cs ((fix go l := match l return Forall P l with
                                           | [] => Forall_nil _ | x :: r => Forall_cons _ (spec_ind' x) (go r) end) cs)
    | SSeq cs => HSeq cs ((fix go l := match l return Forall P l with
                                       | [] => Forall_nil _ | x :: r => Forall_cons _ (spec_ind' x) (go r) end) cs)
    | SCatch c => HCatch c (spec_ind' c)
    | SAll cs => HAll cs ((fix go l := match l return Forall P l with
                                       | [] => Forall_nil _ | x :: r => Forall_cons _ (spec_ind' x) (go r) end) cs)
    | SAllRec cs => HAllRec cs ((fix go l := match l return Forall P l with
                                       | [] => Forall_nil _ | x :: r => Forall_cons _ (spec_ind' x) (go r) end) cs)
    end.
End SpecInd.

Fixpoint okgo (cs : list spec) (vs : list val) : bool :=
  match cs, vs with
  | [], [] => true
  | c :: cs', v :: vs' => admb c (Ok v) && okgo cs' vs'
  | _, _ => false
  end.
Fixpoint koex (e : Z) (cs : list spec) : bool := match cs with [] => false | c :: r => admb c (Ko e) || koex e r end.
Fixpoint kosk (e : Z) (cs : list spec) : bool :=
  match cs with [] => false | c :: r => admb c (Ko e) || (negb (fails c) && kosk e r) end.
Fixpoint failsex (cs : list spec) : bool := match cs with [] => false | c :: r => fails c || failsex r end.

Lemma admb_list p cs o : admb (SList p cs) o =
  match o with
  | Ok (VList [VInt p'; VList vs]) => Z.eqb p p' && okgo cs vs
  | Ko e => koex e cs
  | _ => false
  end.
Proof.
  destruct o as [[z|l0|e]|e]; try reflexivity;
    cbn [admb]; induction cs as [|c cs IH]; cbn [koex]; try reflexivity; now rewrite IH.
Qed.

Lemma admb_seq cs o : admb (SSeq cs) o =
  match o with Ok (VList vs) => okgo cs vs | Ko e => kosk e cs | _ => false end.
Proof.
  destruct o as [[z|vs|e]|e]; try reflexivity;
    cbn [admb]; induction cs as [|c cs IH]; cbn [kosk]; try reflexivity; now rewrite IH.
Qed.

Lemma admb_all cs o : admb (SAll cs) o =
  match o with Ok (VList vs) => okgo cs vs | Ko e => kosk e cs | _ => false end.
Proof.
  destruct o as [[z|vs|e]|e]; try reflexivity;
    cbn [admb]; induction cs as [|c cs IH]; cbn [kosk]; try reflexivity; now rewrite IH.
Qed.

Fixpoint recgo (cs : list spec) (encs : list val) : bool :=
  match cs, encs with
  | [], [] => true
  | c :: cs', VList [VInt t; x] :: r =>
      (if Z.eqb t 0 then admb c (Ok x)
       else if Z.eqb t 1 then match x with VInt e => admb c (Ko e) | _ => false end
       else false) && recgo cs' r
  | _, _ => false
  end.
Definition hasko (encs : list val) : bool :=
  existsb (fun x => match x with VList [VInt t; VInt _] => Z.eqb t 1 | _ => false end) encs.

Lemma admb_allrec cs o : admb (SAllRec cs) o =
  match o with
  | Ok (VList vs) => okgo cs vs || match vs with [VInt m; VList encs] => Z.eqb m (-1) && recgo cs encs && hasko encs | _ => false end
  | _ => false
  end.
Proof.
  destruct o as [[z|vs|e]|e]; reflexivity.
Qed.

Lemma fails_list p cs : fails (SList p cs) = failsex cs.
Proof. try reflexivity; cbn [fails]; induction cs as [|c cs IH]; cbn [failsex]; try reflexivity; now rewrite IH. Qed.
Lemma fails_seq cs : fails (SSeq cs) = failsex cs.
Proof. try reflexivity; cbn [fails]; induction cs as [|c cs IH]; cbn [failsex]; try reflexivity; now rewrite IH. Qed.
Lemma fails_all cs : fails (SAll cs) = failsex cs.
Proof. try reflexivity; cbn [fails]; induction cs as [|c cs IH]; cbn [failsex]; try reflexivity; now rewrite IH. Qed.

(** a spec either fails (admits only errors, at least one) or succeeds (admits only values, at least one) *)
Definition FS (s : spec) : Prop :=
  (fails s = true -> (exists e, adm s (Ko e)) /\ forall v, ~ adm s (Ok v)) /\
  (fails s = false -> (exists v, adm s (Ok v)) /\ forall e, ~ adm s (Ko e)).

Lemma l_all_ok cs : Forall FS cs -> failsex cs = false -> exists vs, Forall2 (fun c v => adm c (Ok v)) cs vs.
Proof.
  induction 1 as [|c cs Hc _ IH]; simpl; intros Hf; [exists []; constructor|].
  apply orb_false_iff in Hf. destruct Hf as [F1 F2]. destruct (proj2 Hc F1) as [(v & Hv) _].
  destruct (IH F2) as (vs & Hvs). exists (v :: vs). constructor; auto.
Qed.

Lemma l_no_ok cs : Forall FS cs -> failsex cs = true -> forall vs, ~ Forall2 (fun c v => adm c (Ok v)) cs vs.
Proof.
  induction 1 as [|c cs Hc _ IH]; simpl; intros Hf vs H2; [discriminate|].
  inversion H2 as [|? v ? vs' Hv Hvs]; subst. destruct (fails c) eqn:Fc.
  - destruct (proj1 Hc Fc) as [_ N]. eapply N; eauto.
  - eapply IH; eauto.
Qed.

Lemma l_first_fail cs : Forall FS cs -> failsex cs = true ->
  exists pre c post vs e, cs = pre ++ c :: post /\ Forall2 (fun c v => adm c (Ok v)) pre vs /\ adm c (Ko e).
Proof.
  induction 1 as [|c cs Hc _ IH]; simpl; intros Hf; [discriminate|].
  destruct (fails c) eqn:Fc.
  - destruct (proj1 Hc Fc) as [(e & He) _]. exists [], c, cs, [], e. split; [reflexivity|]. split; [constructor|exact He].
  - destruct (proj2 Hc Fc) as [(v & Hv) _]. destruct (IH Hf) as (pre & c0 & post & vs & e & -> & Hpre & Hc0).
    exists (c :: pre), c0, post, (v :: vs), e. split; [reflexivity|]. split; [constructor; auto|exact Hc0].
Qed.

Lemma l_no_ko cs : Forall FS cs -> failsex cs = false -> forall c e, In c cs -> ~ adm c (Ko e).
Proof.
  induction 1 as [|c0 cs Hc _ IH]; simpl; intros Hf c e Hin; [contradiction|].
  apply orb_false_iff in Hf. destruct Hf as [F1 F2]. destruct Hin as [->|Hin].
  - destruct (proj2 Hc F1) as [_ N]. apply N.
  - eapply IH; eauto.
Qed.

Lemma l_some_outs cs : Forall FS cs -> exists outs, Forall2 (fun c o => adm c o) cs outs.
Proof.
  induction 1 as [|c cs Hc _ IH]; [exists []; constructor|]. destruct IH as (outs & Ho).
  destruct (fails c) eqn:F.
  - destruct (proj1 Hc F) as [(e & He) _]. exists (Ko e :: outs). constructor; auto.
  - destruct (proj2 Hc F) as [(v & Hv) _]. exists (Ok v :: outs). constructor; auto.
Qed.

Lemma outs_all_ok cs outs : Forall2 (fun c o => adm c o) cs outs ->
  existsb (fun o => match o with Ko _ => true | _ => false end) outs = false ->
  exists vs, Forall2 (fun c v => adm c (Ok v)) cs vs.
Proof.
  induction 1 as [|c o cs outs Hc _ IH]; simpl; intros Hx; [exists []; constructor|].
  destruct o as [v|e]; [|discriminate]. destruct (IH Hx) as (vs & Hvs). exists (v :: vs). constructor; auto.
Qed.

Lemma fails_spec s : FS s.
Proof.
  induction s as [z|e|p cs IH|cs IH|c IH|cs IH|cs IH] using spec_ind'; unfold FS.
  - split; [discriminate|]. intros _. split; [eexists; constructor|]. intros e H; inversion H.
  - split; [|discriminate]. intros _. split; [eexists; constructor|]. intros v H; inversion H.
  - rewrite fails_list. split; intros Hf.
    + split.
      * destruct (l_first_fail cs IH Hf) as (pre & c & post & vs & e & -> & _ & Hc).
        exists e. apply (adm_list_ko p _ c e); auto. apply in_or_app. right. now left.
      * intros v H. inversion H as [ | |p0 cs0 vs0 HF| | | | | | | | | ]; subst. eapply l_no_ok; eauto.
    + split.
      * destruct (l_all_ok cs IH Hf) as (vs & Hvs). eexists. apply adm_list_ok. exact Hvs.
      * intros e H. inversion H as [ | | |p0 cs0 c0 e0 Hin Hc| | | | | | | | ]; subst. eapply l_no_ko; eauto.
  - rewrite fails_seq. split; intros Hf.
    + split.
      * destruct (l_first_fail cs IH Hf) as (pre & c & post & vs & e & -> & Hpre & Hc).
        exists e. eapply adm_seq_ko; eauto.
      * intros v H. inversion H as [ | | | |cs0 vs0 HF| | | | | | | ]; subst. eapply l_no_ok; eauto.
    + split.
      * destruct (l_all_ok cs IH Hf) as (vs & Hvs). eexists. apply adm_seq_ok. exact Hvs.
      * intros e H. inversion H as [ | | | | |cs0 pre c0 post vs0 e0 Heq Hpre Hc| | | | | | ]; subst.
        eapply (l_no_ko _ IH Hf c0 e); eauto. apply in_or_app. right. now left.
  - split; [discriminate|]. intros _. split.
    + destruct (fails c) eqn:Fc.
      * destruct (proj1 IH Fc) as [(e & He) _]. eexists. apply adm_catch_ko. exact He.
      * destruct (proj2 IH Fc) as [(v & Hv) _]. eexists. apply adm_catch_ok. exact Hv.
    + intros e H. inversion H.
  - rewrite fails_all. split; intros Hf.
    + split.
      * destruct (l_first_fail cs IH Hf) as (pre & c & post & vs & e & -> & Hpre & Hc).
        exists e. eapply adm_all_ko; eauto.
      * intros v H. inversion H as [ | | | | | | | |cs0 vs0 HF| | | ]; subst. eapply l_no_ok; eauto.
    + split.
      * destruct (l_all_ok cs IH Hf) as (vs & Hvs). eexists. apply adm_all_ok. exact Hvs.
      * intros e H. inversion H as [ | | | | | | | | |cs0 pre c0 post vs0 e0 Heq Hpre Hc| | ]; subst.
        eapply (l_no_ko _ IH Hf c0 e); eauto. apply in_or_app. right. now left.
  - split; [discriminate|]. intros _. split.
    + destruct (l_some_outs cs IH) as (outs & Houts).
      destruct (existsb (fun o => match o with Ko _ => true | _ => false end) outs) eqn:Ex.
      * apply existsb_exists in Ex. destruct Ex as ([v|e] & Hin & Hk); [discriminate|].
        eexists. eapply adm_allrec_rec; eauto.
      * destruct (outs_all_ok cs outs Houts Ex) as (vs & Hvs). eexists. apply adm_allrec_ok. exact Hvs.
    + intros e H. inversion H.
Qed.

Lemma fails_false_no_ko s e : fails s = false -> ~ adm s (Ko e).
Proof. intros H. apply (proj2 (fails_spec s) H). Qed.
Lemma fails_true_no_ok s v : fails s = true -> ~ adm s (Ok v).
Proof. intros H. apply (proj1 (fails_spec s) H). Qed.
Lemma adm_ok_not_fails s v : adm s (Ok v) -> fails s = false.
Proof. intros H. destruct (fails s) eqn:E; auto. exfalso. eapply fails_true_no_ok; eauto. Qed.

(** * admb decides adm *)
Definition DEC (s : spec) : Prop := forall o, admb s o = true <-> adm s o.

Lemma okgo_spec cs : Forall DEC cs -> forall vs, okgo cs vs = true <-> Forall2 (fun c v => adm c (Ok v)) cs vs.
Proof.
  induction 1 as [|c cs Hc _ IH]; intros [|v vs]; simpl; split; intros H; try discriminate; try constructor;
    try (inversion H; fail).
  - apply andb_true_iff in H. apply Hc. tauto.
  - apply andb_true_iff in H. apply IH. tauto.
  - inversion H as [|? ? ? ? Hv Hvs]; subst. apply andb_true_iff. split; [apply Hc; exact Hv|apply IH; exact Hvs].
Qed.

Lemma koex_spec e cs : Forall DEC cs -> koex e cs = true <-> exists c, In c cs /\ adm c (Ko e).
Proof.
  induction 1 as [|c cs Hc _ IH]; simpl; split.
  - discriminate.
  - intros (c & [] & _).
  - intros H. apply orb_true_iff in H. destruct H as [H|H].
    + exists c. split; [now left|apply Hc; exact H].
    + apply IH in H. destruct H as (c0 & Hin & Hc0). exists c0. split; [now right|exact Hc0].
  - intros (c0 & [->|Hin] & Hc0); apply orb_true_iff.
    + left. apply Hc. exact Hc0.
    + right. apply IH. eauto.
Qed.

Lemma kosk_spec e cs : Forall DEC cs -> kosk e cs = true <->
  exists pre c post vs, cs = pre ++ c :: post /\ Forall2 (fun c v => adm c (Ok v)) pre vs /\ adm c (Ko e).
Proof.
  induction 1 as [|c cs Hc _ IH]; simpl; split.
  - discriminate.
  - intros (pre & c & post & vs & E & _). destruct pre; discriminate.
  - intros H. apply orb_true_iff in H. destruct H as [H|H].
    + exists [], c, cs, []. split; [reflexivity|]. split; [constructor|apply Hc; exact H].
    + apply andb_true_iff in H. destruct H as [Hnf H]. apply negb_true_iff in Hnf.
      destruct (proj2 (fails_spec c) Hnf) as [(v & Hv) _].
      apply IH in H. destruct H as (pre & c0 & post & vs & -> & Hpre & Hc0).
      exists (c :: pre), c0, post, (v :: vs). split; [reflexivity|]. split; [constructor; auto|exact Hc0].
  - intros (pre & c0 & post & vs & E & Hpre & Hc0). apply orb_true_iff. destruct pre as [|a pre].
    + simpl in E. injection E as -> ->. left. apply Hc. exact Hc0.
    + simpl in E. injection E as -> ->. inversion Hpre as [|? v ? vs' Hv Hvs]; subst. right.
      apply andb_true_iff. split.
      * apply negb_true_iff. eapply adm_ok_not_fails; eauto.
      * apply IH. eauto 8.
Qed.

Lemma recgo_spec cs : Forall DEC cs -> forall encs,
  recgo cs encs = true <-> exists outs, Forall2 (fun c o => adm c o) cs outs /\ encs = map enc outs.
Proof.
  induction 1 as [|c cs Hc _ IH]; intros encs.
  - destruct encs; simpl; split; intros H; try discriminate.
    + exists []. split; [constructor|reflexivity].
    + reflexivity.
    + destruct H as (outs & Ho & E). inversion Ho; subst. discriminate.
  - split.
    + intros H. destruct encs as [|x r]; [discriminate|]. cbn [recgo] in H.
      destruct x as [z|l|e]; try discriminate. destruct l as [|a l']; try discriminate.
      destruct a as [t|?|?]; try discriminate. destruct l' as [|b [|? ?]]; try discriminate.
      apply andb_true_iff in H. destruct H as [Hh Hr].
      apply IH in Hr. destruct Hr as (outs & Ho & ->).
      destruct (Z.eqb_spec t 0) as [->|N0].
      * exists (Ok b :: outs). split; [constructor; auto; apply Hc; exact Hh|reflexivity].
      * destruct (Z.eqb_spec t 1) as [->|N1]; [|discriminate]. destruct b as [e| |]; try discriminate.
        exists (Ko e :: outs). split; [constructor; auto; apply Hc; exact Hh|reflexivity].
    + intros (outs & Ho & ->). inversion Ho as [|? o ? outs' Hco Hrest]; subst. cbn [map]. destruct o as [v|e]; cbn [enc recgo].
      * rewrite Z.eqb_refl. apply andb_true_iff. split; [apply Hc; exact Hco|apply IH; eauto].
      * change (1 =? 0)%Z with false. rewrite Z.eqb_refl. apply andb_true_iff. split; [apply Hc; exact Hco|apply IH; eauto].
Qed.

Lemma hasko_spec outs : hasko (map enc outs) = true <-> exists e, In (Ko e) outs.
Proof.
  unfold hasko. induction outs as [|o r IH]; simpl; split.
  - discriminate.
  - intros (e & []).
  - intros H. apply orb_true_iff in H. destruct H as [H|H].
    + destruct o as [v|e]; [destruct v; discriminate|]. exists e. now left.
    + apply IH in H. destruct H as (e & He). exists e. now right.
  - intros (e & [->|Hin]); apply orb_true_iff; [left; reflexivity|right; apply IH; eauto].
Qed.

Theorem admb_adm s : DEC s.
Proof.
  induction s as [z|e|p cs IH|cs IH|c IH|cs IH|cs IH] using spec_ind'; intros o.
  - destruct o as [[z'|l0|e']|e']; simpl; split; intros H; try discriminate; try (inversion H; fail).
    + apply Z.eqb_eq in H. subst. constructor.
    + inversion H; subst. apply Z.eqb_refl.
  - destruct o as [[z'|l0|e']|e']; simpl; split; intros H; try discriminate; try (inversion H; fail).
    + apply Z.eqb_eq in H. subst. constructor.
    + inversion H; subst. apply Z.eqb_refl.
  - rewrite admb_list. destruct o as [[z'|l0|e']|e'].
    + split; [discriminate|inversion 1].
    + destruct l0 as [|[z|l1|e1] [|[z2|vs|e2] [|x r]]]; try (split; [discriminate|inversion 1]).
      split; intros H.
      * apply andb_true_iff in H. destruct H as [H1 H2]. apply Z.eqb_eq in H1. subst.
        apply adm_list_ok. apply (okgo_spec cs IH). exact H2.
      * inversion H as [ | |p0 cs0 vs0 HF| | | | | | | | | ]; subst. apply andb_true_iff. split; [apply Z.eqb_refl|].
        apply (okgo_spec cs IH). exact HF.
    + split; [discriminate|inversion 1].
    + rewrite (koex_spec e' cs IH). split.
      * intros (c & Hin & Hc). eapply adm_list_ko; eauto.
      * intros H. inversion H as [ | | |p0 cs0 c0 e0 Hin Hc| | | | | | | | ]; subst. eauto.
  - rewrite admb_seq. destruct o as [[z'|vs|e']|e'].
    + split; [discriminate|inversion 1].
    + rewrite (okgo_spec cs IH). split; intros H; [now apply adm_seq_ok|].
      inversion H as [ | | | |cs0 vs0 HF| | | | | | | ]; subst. exact HF.
    + split; [discriminate|inversion 1].
    + rewrite (kosk_spec e' cs IH). split.
      * intros (pre & c & post & vs & E & Hpre & Hc). eapply adm_seq_ko; eauto.
      * intros H. inversion H as [ | | | | |cs0 pre c0 post vs0 e0 Heq Hpre Hc| | | | | | ]; subst. eauto 8.
  - destruct o as [v|e']; cbn [admb].
    + split; intros H.
      * apply orb_true_iff in H. destruct H as [H|H]; [apply adm_catch_ok; apply IH; exact H|].
        destruct v as [z|l0|e]; try discriminate. apply adm_catch_ko. apply IH. exact H.
      * apply orb_true_iff. inversion H as [ | | | | | |c0 v0 Hc|c0 e0 Hc| | | | ]; subst.
        -- left. apply IH. exact Hc.
        -- right. apply IH. exact Hc.
    + split; [discriminate|inversion 1].
  - rewrite admb_all. destruct o as [[z'|vs|e']|e'].
    + split; [discriminate|inversion 1].
    + rewrite (okgo_spec cs IH). split; intros H; [now apply adm_all_ok|].
      inversion H as [ | | | | | | | |cs0 vs0 HF| | | ]; subst. exact HF.
    + split; [discriminate|inversion 1].
    + rewrite (kosk_spec e' cs IH). split.
      * intros (pre & c & post & vs & E & Hpre & Hc). eapply adm_all_ko; eauto.
      * intros H. inversion H as [ | | | | | | | | |cs0 pre c0 post vs0 e0 Heq Hpre Hc| | ]; subst. eauto 8.
  - rewrite admb_allrec. destruct o as [[z'|vs|e']|e']; try (split; [discriminate|inversion 1]).
    split.
    + intros H. apply orb_true_iff in H. destruct H as [H|H].
      * apply adm_allrec_ok. apply (okgo_spec cs IH). exact H.
      * destruct vs as [|[m|l0|e0] [|[z1|encs|e1] [|? ?]]]; try discriminate.
        apply andb_true_iff in H. destruct H as [H Hk]. apply andb_true_iff in H. destruct H as [Hm Hr].
        apply Z.eqb_eq in Hm. subst m. apply (recgo_spec cs IH) in Hr. destruct Hr as (outs & Ho & ->).
        apply hasko_spec in Hk. destruct Hk as (e & He). exact (adm_allrec_rec cs outs e Ho He).
    + intros H. apply orb_true_iff.
      inversion H as [ | | | | | | | | | |cs0 vs0 HF|cs0 outs e0 Ho He]; subst.
      * left. apply (okgo_spec cs IH). exact HF.
      * right. unfold rec_value. rewrite Z.eqb_refl. cbn [andb].
        apply andb_true_iff. split; [apply (recgo_spec cs IH); eauto|apply hasko_spec; eauto].
Qed.
