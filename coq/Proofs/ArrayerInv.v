(** Invariants of the arrayer thread system (Model/Arrayer.v), for every layout, every
    parameter setting, every job stream and every schedule. *)
From Coq Require Import List ZArith Bool Arith Lia Permutation.
From RV Require Import Model.Arrayer Proofs.ArrayerBase.
Import ListNotations.
Open Scope list_scope.

Lemma run_app : forall L P s a b, run L P s (a ++ b) = run L P (run L P s a) b.
Proof. intros. unfold run. apply fold_left_app. Qed.

Lemma run_inv : forall L P (I : st -> Prop),
  (forall s o, I s -> I (step L P s o)) -> forall sched s, I s -> I (run L P s sched).
Proof. intros L P I H. induction sched as [|o r IH]; simpl; intros s Hs; [assumption|]. apply IH. apply H. assumption. Qed.

Ltac brk := repeat match goal with
  | |- context [match ?x with _ => _ end] => destruct x eqn:?; simpl in *
  end.

(** * 1. the lock is held exactly inside the `with self._lock` regions *)
Definition a_in (a : apc_t) : bool :=
  match a with AGet _ | ATime _ | ATs _ _ | ARd _ | AWr _ _ | AUnlock _ => true | _ => false end.

Definition m_in (L : layout) (m : mpc_t) : bool :=
  match m with
  | MIter _ | MNext _ _ _ _ | MChk _ _ _ _ _ => stale_locked L
  | MGUnlock _ | SPop1 _ _ | SPop2 _ _ _ | SUnlock _ _ _ _ | SExt _ _ _ _ _ | STs _ _ _ _
  | SUnlock2 _ _ | SCUnlock _ | MFailUnlock _ => true
  | SCRd _ _ | SCWr _ _ _ => cnt_locked L
  | _ => false
  end.

Definition pc_wf (L : layout) (m : mpc_t) : Prop :=
  match m with
  | MGLock _ | MGUnlock _ => stale_locked L = true
  | SCLock _ _ | SCUnlock _ => cnt_locked L = true
  | _ => True
  end.

Definition lock_ok (L : layout) (s : st) : Prop :=
  lock s = (if a_in (apc s) then Some TA else if m_in L (mpc s) then Some TM else None)
  /\ (a_in (apc s) && m_in L (mpc s) = false) /\ pc_wf L (mpc s).

Lemma lock_ok_init : forall L jobs, lock_ok L (init jobs).
Proof. intros. repeat split. Qed.

Lemma lock_ok_step : forall L P s o, lock_ok L s -> lock_ok L (step L P s o).
Proof.
  intros [sl cl] P [p ts n lk td a m os] [[|] now]; unfold lock_ok, step; simpl; intros (H1 & H2 & H3).
  - unfold step_adder; simpl. destruct a; simpl in *;
      try (repeat split; solve [assumption | reflexivity]).
    + destruct td as [|j r]; simpl; [repeat split; assumption|].
      destruct (jscript j || (pmin P =? 0)); simpl; [repeat split; assumption|].
      unfold lock_free; simpl. destruct lk; simpl; [repeat split; assumption|].
      destruct (m_in _ m); [discriminate|]. repeat split; assumption.
    + destruct (m_in _ m); [discriminate|]. repeat split; assumption.
    + destruct m; simpl in *; repeat split; try assumption; try reflexivity.
  - unfold step_monitor, acquire, lock_free, fail_at, after_iter, branch_pc, singles_pc, cnt_pc, loop_pc; simpl.
    destruct m; simpl in *; brk; simpl in *; repeat split; try assumption; try reflexivity; try discriminate;
      try congruence; try (subst; simpl in *; congruence).
Qed.

(** * 2. keys: the descriptions the monitor is about to submit are present in both dicts *)
Definition stales_okp (kp kt l : list nat) : Prop :=
  NoDup l /\ forall x, In x l -> In x kp /\ In x kt.
Definition acc_okp (kp kt : list nat) (pos : nat) (acc : list nat) : Prop :=
  NoDup acc /\ forall x, In x acc -> (exists i, i < pos /\ nth_error kp i = Some x) /\ In x kt.

Definition keys_mpc (kp kt : list nat) (m : mpc_t) : Prop :=
  match m with
  | MNext _ _ pos acc => acc_okp kp kt pos acc
  | MChk _ _ pos acc d => acc_okp kp kt pos acc /\ nth_error kp pos = Some d
  | MGUnlock l => stales_okp kp kt l
  | SLock d rest | SPop1 d rest => stales_okp kp kt (d :: rest)
  | SPop2 d rest _ => stales_okp kp kt rest /\ ~ In d rest /\ In d kt
  | SUnlock _ rest _ _ | SSubBig _ rest _ _ _ | SLock2 _ rest _ _ _ | SExt _ rest _ _ _
  | STs _ rest _ _ | SUnlock2 rest _ | SSingle rest _ _ _ | SSubMid rest _ | SCLock rest _
  | SCRd rest _ | SCWr rest _ _ | SCUnlock rest => stales_okp kp kt rest
  | _ => True
  end.

Definition keys_ok (s : st) : Prop :=
  NoDup (keys (pend s)) /\ keys_mpc (keys (pend s)) (keys (stamps s)) (mpc s).

Lemma stales_mono : forall kp kt kp' kt' l,
  (forall x, In x kp -> In x kp') -> (forall x, In x kt -> In x kt') ->
  stales_okp kp kt l -> stales_okp kp' kt' l.
Proof. intros kp kt kp' kt' l A B [N H]. split; [assumption|]. intros x Hx. destruct (H x Hx). auto. Qed.

Lemma nth_in : forall (l : list nat) i x, nth_error l i = Some x -> In x l.
Proof. intros. eapply nth_error_In; eauto. Qed.

Lemma keys_mpc_mono : forall kp kt kp' kt' m,
  (forall i x, nth_error kp i = Some x -> nth_error kp' i = Some x) ->
  (forall x, In x kp -> In x kp') -> (forall x, In x kt -> In x kt') ->
  keys_mpc kp kt m -> keys_mpc kp' kt' m.
Proof.
  intros kp kt kp' kt' m A A' B.
  assert (S : forall l, stales_okp kp kt l -> stales_okp kp' kt' l) by (intros l; apply stales_mono; assumption).
  assert (C : forall pos acc, acc_okp kp kt pos acc -> acc_okp kp' kt' pos acc).
  { intros pos acc [N H]. split; [assumption|]. intros x Hx. destruct (H x Hx) as [(i & Hi & Hn) Ht].
    split; [exists i; auto|auto]. }
  destruct m; simpl; auto.
  - intros [H1 H2]. split; auto.
  - intros (H1 & H2 & H3). auto.
Qed.

Lemma keys_mpc_loop : forall kp kt l, stales_okp kp kt l -> keys_mpc kp kt (loop_pc l).
Proof. intros kp kt [|d r] H; simpl; [exact I|exact H]. Qed.

Lemma stales_tail : forall kp kt d r, stales_okp kp kt (d :: r) -> stales_okp kp kt r /\ ~ In d r.
Proof.
  intros kp kt d r [N H]. inversion N; subst. split; [split; [assumption|]|assumption].
  intros x Hx. apply H. right; assumption.
Qed.

Lemma lookup_some_in : forall {V} d (l : list (nat * V)) v, lookup d l = Some v -> In d (keys l).
Proof.
  induction l as [|[k w] r IH]; simpl; intros v H; [discriminate|].
  deq k d; [left; assumption|right; eapply IH; eauto].
Qed.

Lemma keys_ok_init : forall jobs, keys_ok (init jobs).
Proof. intros. split; simpl; [constructor|exact I]. Qed.

Lemma keys_ok_step : forall L P s o, keys_ok s -> keys_ok (step L P s o).
Proof.
  intros L P [p ts n lk td a m os] [[|] now]; unfold keys_ok, step; simpl; intros [N K].
  - unfold step_adder; simpl. destruct a; simpl; try (split; assumption).
    + destruct td as [|j r]; simpl; [split; assumption|].
      destruct (jscript j || (pmin P =? 0)); simpl; [split; assumption|].
      destruct (lock_free _); simpl; split; assumption.
    + split; [apply NoDup_keys_app_at; assumption|].
      eapply keys_mpc_mono; [| | |exact K]; intros.
      * apply nth_error_keys_app_at; assumption.
      * apply keys_app_at_incl; assumption.
      * assumption.
    + split; [assumption|]. eapply keys_mpc_mono; [| | |exact K]; intros; auto.
      apply keys_set_at_iff. right; assumption.
    + destruct m; simpl in *; split; assumption.
  - unfold step_monitor, acquire, fail_at; simpl.
    destruct m; simpl in *; try (split; assumption);
      try (destruct (lock_free _); simpl; split; assumption).
    + (* MTime *) destruct (stale_locked L); simpl; split; auto.
    + (* MIter *) split; [assumption|]. split; [constructor|intros x []].
    + (* MNext *) destruct (negb _); simpl; [destruct (stale_locked L); simpl; split; auto|].
      destruct (nth_error (keys p) pos) eqn:E; simpl.
      * split; [assumption|]. split; assumption.
      * split; [assumption|]. unfold after_iter.
        assert (S : stales_okp (keys p) (keys ts) acc).
        { destruct K as [K1 K2]. split; [assumption|]. intros x Hx. destruct (K2 x Hx) as [(i & _ & Hn) Ht].
          split; [eapply nth_in; eauto|assumption]. }
        destruct (stale_locked L); simpl; [assumption|apply keys_mpc_loop; assumption].
    + (* MChk *) destruct K as [[K1 K2] K3].
      destruct (lookup d ts) eqn:E; simpl; [|destruct (stale_locked L); simpl; split; auto].
      split; [assumption|]. destruct (pstale P <? cur - z)%Z.
      * split.
        -- rewrite <- (rev_involutive (acc ++ [d])). apply NoDup_rev. rewrite rev_app_distr. simpl.
           constructor; [|apply NoDup_rev; assumption]. rewrite <- in_rev. intros Hd.
           destruct (K2 d Hd) as [(i & Hi & Hn) _].
           assert (i = pos); [|lia].
           apply (proj1 (NoDup_nth_error (keys p)) N); [apply nth_error_Some; congruence|congruence].
        -- intros x Hx. apply in_app_or in Hx. destruct Hx as [Hx|[Hx|[]]].
           ++ destruct (K2 x Hx) as [(i & Hi & Hn) Ht]. split; [exists i; split; [lia|assumption]|assumption].
           ++ subst x. split; [exists pos; split; [lia|assumption]|eapply lookup_some_in; eauto].
      * split; [assumption|]. intros x Hx. destruct (K2 x Hx) as [(i & Hi & Hn) Ht].
        split; [exists i; split; [lia|assumption]|assumption].
    + (* MGUnlock *) split; [assumption|apply keys_mpc_loop; assumption].
    + (* SPop1 *) destruct (pop d p) as [[js p']|] eqn:E; simpl; [|split; auto].
      destruct (pop_NoDup _ _ _ _ E N) as [N' D]. split; [assumption|].
      destruct (stales_tail _ _ _ _ K) as [[K1 K2] K3]. split; [|split; [assumption|]].
      * split; [assumption|]. intros x Hx. destruct (K2 x Hx). split; [|assumption].
        eapply pop_keys_other; eauto. intros ->. tauto.
      * destruct K as [_ K]. apply K. left; reflexivity.
    + (* SPop2 *) destruct (pop d ts) as [[t ts']|] eqn:E; simpl; [|split; auto].
      split; [assumption|]. destruct K as ([K1 K2] & K3 & K4). split; [assumption|].
      intros x Hx. destruct (K2 x Hx). split; [assumption|].
      eapply pop_keys_other; eauto. intros ->. tauto.
    + (* SUnlock *) split; [assumption|]. unfold branch_pc, singles_pc, cnt_pc.
      destruct (pmax P <? length js); simpl; [assumption|].
      destruct (length js <? pmin P); simpl; [|assumption].
      destruct js; simpl; [destruct (cnt_locked L); simpl; assumption|assumption].
    + (* SExt *) split; [apply NoDup_keys_app_at; assumption|].
      eapply stales_mono; [| |exact K]; intros; auto. apply keys_app_at_incl; assumption.
    + (* STs *) split; [assumption|]. eapply stales_mono; [| |exact K]; intros; auto.
      apply keys_set_at_iff. right; assumption.
    + (* SUnlock2 *) split; [assumption|]. unfold cnt_pc. destruct (cnt_locked L); simpl; assumption.
    + (* SSingle *) split; [assumption|]. unfold singles_pc, cnt_pc.
      destruct more; simpl; [destruct (cnt_locked L); simpl; assumption|assumption].
    + (* SSubMid *) split; [assumption|]. unfold cnt_pc. destruct (cnt_locked L); simpl; assumption.
    + (* SCWr *) split; [assumption|]. destruct (cnt_locked L); simpl; [assumption|apply keys_mpc_loop; assumption].
    + (* SCUnlock *) split; [assumption|apply keys_mpc_loop; assumption].
Qed.

(** the two pops of submit_pending_jobs never raise *)
Lemma pop1_ok : forall s d rest, keys_ok s -> mpc s = SPop1 d rest -> pop d (pend s) <> None.
Proof.
  intros s d rest [N K] E H. rewrite E in K. simpl in K. destruct K as [_ K].
  apply pop_none in H. apply H. apply K. left; reflexivity.
Qed.
Lemma pop2_ok : forall s d rest js, keys_ok s -> mpc s = SPop2 d rest js -> pop d (stamps s) <> None.
Proof.
  intros s d rest js [N K] E H. rewrite E in K. simpl in K. destruct K as (_ & _ & K).
  apply pop_none in H. tauto.
Qed.

(** * 3. conservation: every job of the stream is in exactly one place *)
Definition ahold (a : apc_t) : list job := match a with AGet j => [j] | _ => [] end.
Definition mhold (m : mpc_t) : list job :=
  match m with
  | SPop2 _ _ js | SUnlock _ _ js _ | SSubMid _ js => js
  | SSubBig _ _ sub rem _ => sub ++ rem
  | SLock2 _ _ _ rem _ | SExt _ _ _ rem _ => rem
  | SSingle _ j more _ => [j] ++ more
  | _ => []
  end.

Definition places (s : st) : list job :=
  todo s ++ ahold (apc s) ++ flat (pend s) ++ mhold (mpc s) ++ submitted s.
Definition cons_ok (jobs : list job) (s : st) : Prop := Permutation jobs (places s).

Ltac perm_rot n :=
  rewrite <- ?app_assoc;
  lazymatch goal with
  | |- Permutation ?l ?l => apply Permutation_refl
  | |- Permutation (?a ++ ?l) (?a ++ ?r) => apply Permutation_app_head; perm_rot 8
  | |- Permutation ?l (?b ++ ?r) =>
      lazymatch n with
      | S ?m => apply (@Permutation_trans _ l (r ++ b) (b ++ r)); [|apply Permutation_app_comm]; perm_rot m
      end
  end.
Ltac uncons := repeat match goal with
  | |- context [?x :: ?l] => lazymatch l with [] => fail | _ => change (x :: l) with ([x] ++ l) end
  end.
Ltac perm := simpl; rewrite ?app_nil_r; uncons; perm_rot 8.

Lemma mhold_loop : forall l, mhold (loop_pc l) = [].
Proof. destruct l; reflexivity. Qed.
Lemma mhold_cnt : forall L r c, mhold (cnt_pc L r c) = [].
Proof. intros. unfold cnt_pc. destruct (cnt_locked L); reflexivity. Qed.
Lemma mhold_singles : forall L r js c, mhold (singles_pc L r js c) = js.
Proof. intros. destruct js; simpl; [apply mhold_cnt|reflexivity]. Qed.
Lemma mhold_branch : forall L P d r js t, mhold (branch_pc L P d r js t) = js.
Proof.
  intros. unfold branch_pc. destruct (pmax P <? length js); simpl; [apply firstn_skipn|].
  destruct (length js <? pmin P); simpl; [apply mhold_singles|reflexivity].
Qed.

Lemma cons_ok_init : forall jobs, cons_ok jobs (init jobs).
Proof. intros. unfold cons_ok, places. simpl. rewrite app_nil_r. apply Permutation_refl. Qed.

Lemma cons_ok_step : forall L P jobs s o, keys_ok s -> cons_ok jobs s -> cons_ok jobs (step L P s o).
Proof.
  intros L P jobs [p ts n lk td a m os] [[|] now] KO; unfold cons_ok, places, step; simpl; intros H.
  - unfold step_adder; simpl. destruct a; simpl in *; try exact H.
    + destruct td as [|j r]; simpl; [exact H|].
      destruct (jscript j || (pmin P =? 0)); simpl.
      * eapply Permutation_trans; [exact H|]. unfold submitted; simpl. perm.
      * destruct (lock_free _); simpl; [|exact H].
        eapply Permutation_trans; [exact H|]. unfold submitted; simpl. perm.
    + eapply Permutation_trans; [exact H|]. unfold submitted; simpl.
      rewrite (flat_app_at (jd j) [j] p). perm.
    + destruct m; simpl in *; exact H.
  - unfold step_monitor, acquire, fail_at; simpl.
    destruct m; simpl in *; try exact H;
      try (destruct (lock_free _); simpl; exact H).
    + destruct (stale_locked L); exact H.
    + destruct (negb _); simpl; [destruct (stale_locked L); exact H|].
      destruct (nth_error (keys p) pos); simpl; [exact H|].
      unfold after_iter. destruct (stale_locked L); simpl; [exact H|]. rewrite mhold_loop. exact H.
    + destruct (lookup d ts); simpl; [exact H|destruct (stale_locked L); exact H].
    + rewrite mhold_loop. exact H.
    + destruct (pop d p) as [[js p']|] eqn:E; simpl; [|exact H].
      eapply Permutation_trans; [exact H|]. unfold submitted; simpl.
      rewrite (flat_pop _ _ _ _ E). perm.
    + destruct (pop d ts) as [[t ts']|] eqn:E; simpl; [exact H|].
      exfalso. eapply (pop2_ok _ d rest js KO); [reflexivity|exact E].
    + rewrite mhold_branch. exact H.
    + eapply Permutation_trans; [exact H|]. unfold submitted; simpl. perm.
    + eapply Permutation_trans; [exact H|]. unfold submitted; simpl.
      rewrite (flat_app_at d rem p). perm.
    + rewrite mhold_cnt. exact H.
    + rewrite mhold_singles. eapply Permutation_trans; [exact H|]. unfold submitted; simpl. perm.
    + rewrite mhold_cnt. eapply Permutation_trans; [exact H|]. unfold submitted; simpl. perm.
    + destruct (cnt_locked L); simpl; [exact H|]. rewrite mhold_loop. exact H.
    + rewrite mhold_loop. exact H.
Qed.

(** * 4. every batch handed to the callback is well formed *)
Definition params_ok (P : params) : Prop := pmin P <= pmax P.
Definition all_d (d : nat) (js : list job) : Prop := forall j, In j js -> jd j = d.
Definition batch_okP (P : params) (b : list job) : Prop :=
  b <> [] /\ (exists d, all_d d b) /\
  (if pmin P =? 0 then length b = 1 else length b <= pmax P /\ (length b = 1 \/ pmin P <= length b)).

Definition batch_mpc (P : params) (m : mpc_t) : Prop :=
  match m with
  | SPop2 d _ js | SUnlock d _ js _ => all_d d js
  | SSubBig d _ sub rem _ => all_d d sub /\ all_d d rem /\ length sub = pmax P
  | SLock2 d _ _ rem _ | SExt d _ _ rem _ => all_d d rem
  | SSubMid _ js => (exists d, all_d d js) /\ pmin P <= length js /\ length js <= pmax P
  | _ => True
  end.

Definition batch_inv (P : params) (s : st) : Prop :=
  (pmin P = 0 -> mpc s = MDead /\ apc s = AIdle) /\ homog (pend s) /\ batch_mpc P (mpc s)
  /\ Forall (batch_okP P) (batches s).

Lemma batch_single : forall P j, params_ok P -> batch_okP P [j].
Proof.
  intros P j H. split; [discriminate|]. split; [exists (jd j); intros x [<-|[]]; reflexivity|].
  destruct (pmin P =? 0) eqn:E; [reflexivity|]. apply Nat.eqb_neq in E. unfold params_ok in H. simpl. lia.
Qed.

Lemma in_firstn_l : forall {A} n (l : list A) x, In x (firstn n l) -> In x l.
Proof. intros A n l x H. rewrite <- (firstn_skipn n l). apply in_or_app. left; assumption. Qed.
Lemma in_skipn_l : forall {A} n (l : list A) x, In x (skipn n l) -> In x l.
Proof. intros A n l x H. rewrite <- (firstn_skipn n l). apply in_or_app. right; assumption. Qed.

Lemma batch_mpc_loop : forall P l, batch_mpc P (loop_pc l).
Proof. destruct l; exact I. Qed.
Lemma batch_mpc_cnt : forall L P r c, batch_mpc P (cnt_pc L r c).
Proof. intros. unfold cnt_pc. destruct (cnt_locked L); exact I. Qed.
Lemma batch_mpc_singles : forall L P r js c, batch_mpc P (singles_pc L r js c).
Proof. intros. destruct js; simpl; [apply batch_mpc_cnt|exact I]. Qed.

Ltac rs0 := split; [assumption|repeat split; assumption].

Lemma batch_inv_init : forall P jobs, batch_inv P (init jobs).
Proof.
  intros. split; [intros; split; reflexivity|]. split; [apply homog_nil|]. split; [exact I|constructor].
Qed.

Lemma batch_inv_step : forall L P s o, params_ok P -> batch_inv P s -> batch_inv P (step L P s o).
Proof.
  intros L P [p ts n lk td a m os] [[|] now] PO; unfold batch_inv, step; simpl; intros (Z0 & HG & BM & BF).
  - unfold step_adder; simpl. destruct a; simpl in *;
      try (split; [intros E; destruct (Z0 E); discriminate|]; repeat split; assumption).
    + destruct td as [|j r]; simpl; [rs0|].
      destruct (jscript j || (pmin P =? 0)) eqn:D; simpl.
      * split; [assumption|]. repeat split; try assumption.
        unfold batches; simpl. constructor; [apply batch_single; assumption|exact BF].
      * apply orb_false_iff in D. destruct D as [_ D]. apply Nat.eqb_neq in D.
        destruct (lock_free _); simpl; [|rs0]. split; [intros; exfalso; tauto|repeat split; assumption].
    + split; [intros E; destruct (Z0 E); discriminate|]. repeat split; try assumption.
      apply homog_app_at; [assumption|]. intros x [<-|[]]; reflexivity.
    + split; [intros E; destruct (Z0 E); discriminate|].
      destruct m; simpl in *; (split; [exact HG|split; [exact BM|exact BF]]).
  - assert (NZ : m <> MDead -> pmin P <> 0) by (intros A B; destruct (Z0 B); tauto).
    unfold step_monitor, acquire, fail_at, lock_free; simpl.
    destruct m; simpl in *; [rs0|..];
      (split; [intros E; exfalso; apply NZ; [discriminate|assumption]|]);
      try (repeat split; assumption);
      try (destruct lk; simpl; repeat split; assumption).
    + destruct (stale_locked L); repeat split; assumption.
    + destruct (negb _); simpl; [destruct (stale_locked L); repeat split; assumption|].
      destruct (nth_error (keys p) pos); simpl; [repeat split; assumption|].
      unfold after_iter. destruct (stale_locked L); simpl; repeat split; try assumption. apply batch_mpc_loop.
    + destruct (lookup d ts); simpl; [repeat split; assumption|destruct (stale_locked L); repeat split; assumption].
    + repeat split; try assumption. apply batch_mpc_loop.
    + destruct (pop d p) as [[js p']|] eqn:E; simpl; [|repeat split; assumption].
      destruct (homog_pop _ _ _ _ E HG) as [A B]. repeat split; assumption.
    + destruct (pop d ts) as [[t ts']|] eqn:E; simpl; repeat split; assumption.
    + repeat split; try assumption. unfold branch_pc.
      assert (NZ' : pmin P <> 0) by (apply NZ; discriminate).
      destruct (pmax P <? length js) eqn:E1; simpl.
      * apply Nat.ltb_lt in E1. repeat split.
        -- intros x Hx. apply BM. eapply in_firstn_l; eauto.
        -- intros x Hx. apply BM. eapply in_skipn_l; eauto.
        -- apply firstn_length_le. lia.
      * apply Nat.ltb_ge in E1. destruct (length js <? pmin P) eqn:E2; simpl; [apply batch_mpc_singles|].
        apply Nat.ltb_ge in E2. repeat split; try assumption. exists d; assumption.
    + assert (NZ' : pmin P <> 0) by (apply NZ; discriminate).
      destruct BM as (B1 & B2 & B3). repeat split; try assumption.
      unfold batches; simpl. constructor; [|exact BF].
      unfold params_ok in PO. split; [intros ->; simpl in B3; lia|]. split; [exists d; assumption|].
      destruct (pmin P =? 0) eqn:E; [apply Nat.eqb_eq in E; tauto|]. lia.
    + repeat split; try assumption. apply homog_app_at; assumption.
    + repeat split; try assumption. apply batch_mpc_cnt.
    + repeat split; try assumption; [apply batch_mpc_singles|].
      unfold batches; simpl. constructor; [apply batch_single; assumption|exact BF].
    + assert (NZ' : pmin P <> 0) by (apply NZ; discriminate).
      destruct BM as (B1 & B2 & B3). repeat split; try assumption; [apply batch_mpc_cnt|].
      unfold batches; simpl. constructor; [|exact BF].
      split; [intros ->; simpl in B2; lia|]. split; [assumption|].
      destruct (pmin P =? 0) eqn:E; [apply Nat.eqb_eq in E; tauto|]. lia.
    + destruct (cnt_locked L); simpl; repeat split; try assumption. apply batch_mpc_loop.
    + repeat split; try assumption. apply batch_mpc_loop.
Qed.
