(** The machine follows the schedule-free derivation: in every state reached through "good" states
    (every entered job's preprocessed arguments are the first-fork ones), each resolved job's result
    and call node are the meaning ([eval]) of its task applied to its arguments.  Hence any two
    complete good runs return the same value and the same root call node. *)
From Coq Require Import List ZArith Bool Arith Lia.
From RV Require Import Model.Timing Proofs.TimingBase Proofs.TimingSem Proofs.TimingStep.
Import ListNotations.
Open Scope list_scope.

Lemma Forall2_nth {A B} (R : A -> B -> Prop) l1 l2 i x :
  Forall2 R l1 l2 -> nth_error l1 i = Some x -> exists y, nth_error l2 i = Some y /\ R x y.
Proof.
  intro F. revert i. induction F as [|a b l1 l2 Hab F IH]; intros [|i] N; simpl in *; try discriminate.
  - inversion N. subst. eauto.
  - eauto.
Qed.

Lemma Forall2_mono {A B} (R R' : A -> B -> Prop) l1 l2 :
  (forall x y, R x y -> R' x y) -> Forall2 R l1 l2 -> Forall2 R' l1 l2.
Proof. intros H F. induction F; constructor; auto. Qed.

Section Inv.
  Variable c : cfg.
  Variable body : nat -> list value -> expr.
  Variable t0 : nat.
  Variable args0 : list value.

  Notation evalE := (evalE c body).
  Notation evalEs := (evalEs c body).
  Notation eval := (eval c body).
  Notation evalCs := (evalCs c body).

  (** every entered job was given the first-fork arguments *)
  Definition good (s : state) : Prop :=
    forall j jb raw pre, get s j = Some jb -> st_raw (j_st jb) = Some raw -> st_pre (j_st jb) = Some pre ->
      pre = match j_parent jb with None => keys_l c (root_order c) raw | Some _ => pre1 c raw end.

  Definition kid_ok (s : state) (j : nat) (ca : call) (k : nat) : Prop :=
    exists kb, get s k = Some kb /\ j_task kb = fst ca /\ j_argx kb = snd ca /\ j_parent kb = Some j.

  Record Inv (s : state) : Prop := {
    I_root : exists jb0, get s 0 = Some jb0 /\ j_parent jb0 = None /\ j_task jb0 = t0 /\ j_argx jb0 = map EVal args0;
    I_eval : forall j jb raw pre e kids f, get s j = Some jb -> j_st jb = SEval raw pre e kids f ->
        e = post_e (j_task jb) pre (body (j_task jb) pre) /\ Forall2 (kid_ok s j) (calls_of e) kids;
    I_raw : forall j jb raw, get s j = Some jb -> st_raw (j_st jb) = Some raw -> evalEs (j_argx jb) raw;
    I_res : forall j jb raw pre r n kids, get s j = Some jb -> j_st jb = SRes raw pre r n kids ->
        eval (j_task jb) pre r n;
    I_coll : forall j jb raw pre k, get s j = Some jb -> j_st jb = SColl raw pre k ->
        exists kb, get s k = Some kb /\ j_task kb = j_task jb /\ started (j_st kb) = true /\
                   st_pre (j_st kb) = Some pre
  }.

  Lemma Inv_init : Inv (init t0 args0).
  Proof.
    constructor.
    - eexists. split; [reflexivity|]. simpl. auto.
    - intros [|[|j]] jb raw pre e kids f G S; simpl in G; try discriminate. inversion G. subst. discriminate.
    - intros [|[|j]] jb raw G S; simpl in G; try discriminate. inversion G. subst. discriminate.
    - intros [|[|j]] jb raw pre r n kids G S; simpl in G; try discriminate. inversion G. subst. discriminate.
    - intros [|[|j]] jb raw pre k G S; simpl in G; try discriminate. inversion G. subst. discriminate.
  Qed.

  Lemma job_res_SRes s k r n :
    job_res s k = Some (r, n) -> exists kb raw pre kids, get s k = Some kb /\ j_st kb = SRes raw pre r n kids.
  Proof.
    unfold job_res, get. destruct (nth_error s k) as [kb|]; try discriminate.
    destruct (j_st kb) eqn:S; simpl; try discriminate. intro E. inversion E. subst. eauto 6.
  Qed.

  (** the meaning of a resolved child, as a call of its parent *)
  Lemma kid_meaning s j ca k r n :
    Inv s -> good s -> kid_ok s j ca k -> job_res s k = Some (r, n) ->
    exists raws, evalEs (snd ca) raws /\ eval (fst ca) (pre1 c raws) r n.
  Proof.
    intros I Gd (kb & G & T & A & P) JR.
    apply job_res_SRes in JR as (kb' & raw & pre & kids & G' & S). rewrite G in G'. inversion G'. subst kb'.
    exists raw. split.
    - rewrite <- A. eapply I_raw; eauto. rewrite S. reflexivity.
    - rewrite <- T. assert (pre = pre1 c raw).
      { specialize (Gd k kb raw pre G). rewrite S, P in Gd. simpl in Gd. auto. }
      subst. eapply I_res; eauto.
  Qed.

  Lemma env_of_inv s j jb raw pre e kids f :
    Inv s -> good s -> get s j = Some jb -> j_st jb = SEval raw pre e kids f ->
    env_sound c body (calls_of e) (results s kids).
  Proof.
    intros I Gd G S i t a r Nc Nr.
    destruct (I_eval _ I _ _ _ _ _ _ _ G S) as [_ F].
    destruct (Forall2_nth _ _ _ _ _ F Nc) as (k & Nk & KO).
    unfold results in Nr. rewrite (map_nth_error _ _ _ Nk) in Nr. inversion Nr as [E].
    destruct (job_res s k) as [[r' n]|] eqn:JR; simpl in E; try discriminate. inversion E. subst r'.
    destruct (kid_meaning _ _ _ _ _ _ I Gd KO JR) as (raws & E1 & E2). simpl in *.
    econstructor; eauto.
  Qed.

  Lemma kids_nodes s j :
    Inv s -> good s ->
    forall cs kids rns, Forall2 (kid_ok s j) cs kids -> mapM (job_res s) kids = Some rns ->
                        evalCs cs (map snd rns).
  Proof.
    intros I Gd cs kids rns F. revert rns. induction F as [|ca k cs kids KO F IH]; intros rns M; simpl in M.
    - inversion M. constructor.
    - destruct (job_res s k) as [[r n]|] eqn:JR; try discriminate.
      destruct (mapM (job_res s) kids) as [rns'|] eqn:M'; try discriminate. inversion M. subst. simpl.
      destruct (kid_meaning _ _ _ _ _ _ I Gd KO JR) as (raws & E1 & E2).
      destruct ca as [t a]. simpl in *. econstructor; eauto.
  Qed.

  Lemma raw_args_sound s jb raw :
    Inv s -> good s -> raw_args s jb = Some raw -> evalEs (j_argx jb) raw.
  Proof.
    intros I Gd. unfold raw_args. destruct (j_parent jb) as [p|].
    - destruct (nth_error s p) as [pb|] eqn:G; try discriminate.
      destruct (j_st pb) eqn:S; try discriminate.
      apply mapM_subst_sound. eapply env_of_inv; eauto.
    - apply mapM_subst_sound. intros i t a r N. destruct i; discriminate.
  Qed.

  (** a job a collapse points to stays started with the same arguments *)
  Lemma target_stable s o s' k kb pre :
    step_ok c body s o s' -> get s k = Some kb -> started (j_st kb) = true -> st_pre (j_st kb) = Some pre ->
    exists kb', get s' k = Some kb' /\ j_task kb' = j_task kb /\ started (j_st kb') = true /\
                st_pre (j_st kb') = Some pre.
  Proof.
    intros (_ & A & _) G St P. destruct (A _ _ G) as (kb' & G' & (_ & T & _) & [E|JS]).
    - exists kb'. rewrite E. auto.
    - destruct (jstep_started _ _ _ _ _ _ _ JS St) as [S1 S2]. exists kb'. rewrite S1, S2. auto.
  Qed.

  Lemma step_imm s o s' :
    step_ok c body s o s' -> forall k kb, get s k = Some kb -> exists kb', get s' k = Some kb' /\ imm_eq kb kb'.
  Proof. intros (_ & A & _) k kb G. destruct (A _ _ G) as (kb' & G' & Im & _). eauto. Qed.

  Lemma kid_ok_mono s o s' j ca k : step_ok c body s o s' -> kid_ok s j ca k -> kid_ok s' j ca k.
  Proof.
    intros SO (kb & G & T & A & P). destruct (step_imm _ _ _ SO _ _ G) as (kb' & G' & (P' & T' & A')).
    exists kb'. rewrite <- P', <- T', <- A'. auto.
  Qed.

  (** every job of the new state is an old one (same status or one move) or a fresh child *)
  Lemma job_origin s o s' k kb' :
    step_ok c body s o s' -> get s' k = Some kb' ->
    (exists kb, get s k = Some kb /\ imm_eq kb kb' /\ (j_st kb' = j_st kb \/ jstep c body s s' k kb (j_st kb'))) \/
    (length s <= k /\ new_job body s o k kb').
  Proof.
    intros (L & A & B) G. destruct (le_lt_dec (length s) k) as [Lk|Lk].
    - right. split; auto.
    - left. destruct (nth_error s k) as [kb|] eqn:Gk.
      + destruct (A _ _ Gk) as (kb2 & G2 & Im & D). rewrite G in G2. inversion G2. subst kb2. eauto.
      + apply nth_error_None in Gk. lia.
  Qed.

  Ltac inv_jstep JS :=
    inversion JS as [raw0 pre0 st1 Hst Hps Hen Heq
                    | raw0 pre0 e0 kids0 f0 f1 Hst Heq
                    | raw0 pre0 Hst Hnew Heq
                    | raw0 pre0 e0 kids0 f0 r0 rns0 Hst Hsu Hm Heq
                    | raw0 pre0 k0 r0 n0 Hst Hjr Heq].

  Theorem Inv_step s o s' : Inv s -> good s -> step c body s o = Some s' -> Inv s'.
  Proof.
    intros I Gd St. apply step_inv in St. constructor.
    - (* root *)
      destruct (I_root _ I) as (jb0 & G0 & P0 & T0 & A0).
      destruct (step_imm _ _ _ St _ _ G0) as (jb0' & G0' & (P' & T' & A')).
      exists jb0'. rewrite <- P', <- T', <- A'. auto.
    - (* SEval jobs *)
      intros j jb' raw pre e kids f G S.
      destruct (job_origin _ _ _ _ _ St G) as [(jb & Gj & (P & T & A) & [E|JS])|(_ & NJ)].
      + rewrite S in E. destruct (I_eval _ I _ _ _ _ _ _ _ Gj (eq_sym E)) as [E1 F].
        rewrite <- T. split; auto. eapply Forall2_mono; [|exact F]. intros. eapply kid_ok_mono; eauto.
      + inv_jstep JS; rewrite S in Heq.
        * destruct Hen as [Hen|[Hen|(k' & Hen & _)]]; rewrite S in Hen; discriminate.
        * inversion Heq. subst.
          destruct (I_eval _ I _ _ _ _ _ _ _ Gj Hst) as [E1 F].
          rewrite <- T. split; auto. eapply Forall2_mono; [|exact F]. intros. eapply kid_ok_mono; eauto.
        * inversion Heq. subst. rewrite <- T. split; auto.
          (* the fresh children *)
          revert Hnew. generalize (calls_of (post_e (j_task jb) pre (body (j_task jb) pre))). generalize (length s).
          intros n0 cs. revert n0. induction cs as [|ca cs IH]; intros n0 HX; simpl; constructor.
          -- exists (mkJob (Some j) (fst ca) (snd ca) SCreated). split; [|simpl; auto].
             specialize (HX 0 ca eq_refl). now rewrite Nat.add_0_r in HX.
          -- apply IH. intros i ca' N. specialize (HX (Datatypes.S i) ca' N). now rewrite Nat.add_succ_r in HX.
        * discriminate.
        * discriminate.
      + destruct NJ as (j0 & jb0 & raw0 & pre0 & i & ca & _ & _ & _ & _ & _ & ->). discriminate.
    - (* raw arguments *)
      intros j jb' raw G R.
      destruct (job_origin _ _ _ _ _ St G) as [(jb & Gj & (P & T & A) & [E|JS])|(_ & NJ)].
      + rewrite <- A. eapply I_raw; eauto. now rewrite <- E.
      + rewrite <- A. inv_jstep JS; rewrite <- Heq in R.
        * assert (raw0 = raw).
          { rewrite Heq in R. destruct Hen as [Hen|[Hen|(k' & Hen & _)]]; rewrite Hen in R; simpl in R; congruence. }
          subst raw0. destruct Hst as [[Hst RA]|[pre1 Hst]].
          -- eapply raw_args_sound; eauto.
          -- eapply I_raw; eauto. rewrite Hst. reflexivity.
        * simpl in R. eapply I_raw; eauto. rewrite Hst. exact R.
        * simpl in R. eapply I_raw; eauto. rewrite Hst. exact R.
        * simpl in R. eapply I_raw; eauto. rewrite Hst. exact R.
        * simpl in R. eapply I_raw; eauto. rewrite Hst. exact R.
      + destruct NJ as (j0 & jb0 & raw0 & pre0 & i & ca & _ & _ & _ & _ & _ & ->). discriminate.
    - (* resolved jobs *)
      intros j jb' raw pre r n kids G S.
      destruct (job_origin _ _ _ _ _ St G) as [(jb & Gj & (P & T & A) & [E|JS])|(_ & NJ)].
      + rewrite <- T. rewrite E in S. eapply I_res; eauto.
      + rewrite <- T. inv_jstep JS; rewrite S in Heq.
        * destruct Hen as [Hen|[Hen|(k' & Hen & _)]]; rewrite S in Hen; discriminate.
        * discriminate.
        * discriminate.
        * (* resolved from its evaluated result expression *)
          inversion Heq. subst.
          destruct (I_eval _ I _ _ _ _ _ _ _ Gj Hst) as [E1 F]. subst e0.
          constructor.
          -- eapply subst_sound; [|eauto]. eapply env_of_inv; eauto.
          -- eapply kids_nodes; eauto.
        * (* takes the result and call node of the job it collapsed into *)
          inversion Heq. subst.
          destruct (I_coll _ I _ _ _ _ _ Gj Hst) as (kb2 & G2 & T2 & _ & P2).
          apply job_res_SRes in Hjr as (kb3 & raw3 & pre3 & kids3 & G3 & S3).
          rewrite G2 in G3. inversion G3. subst kb3. rewrite S3 in P2. simpl in P2. inversion P2. subst pre3.
          rewrite <- T2. eapply I_res; eauto.
      + destruct NJ as (j0 & jb0 & raw0 & pre0 & i & ca & _ & _ & _ & _ & _ & ->). discriminate.
    - (* collapsed jobs *)
      intros j jb' raw pre k G S.
      destruct (job_origin _ _ _ _ _ St G) as [(jb & Gj & (P & T & A) & [E|JS])|(_ & NJ)].
      + rewrite S in E. destruct (I_coll _ I _ _ _ _ _ Gj (eq_sym E)) as (kb2 & G2 & T2 & S2 & P2).
        destruct (target_stable _ _ _ _ _ _ St G2 S2 P2) as (kb2' & G2' & T2' & S2' & P2').
        exists kb2'. rewrite T2', T2, T. auto.
      + inv_jstep JS; rewrite S in Heq; try discriminate.
        destruct Hen as [Hen|[Hen|(k' & Hen & _ & kb2 & G2 & T2 & S2 & P2)]]; rewrite S in Hen; try discriminate.
        inversion Hen. subst.
        destruct (target_stable _ _ _ _ _ _ St G2 S2 P2) as (kb2' & G2' & T2' & S2' & P2').
        exists kb2'. rewrite T2', T2, T. auto.
      + destruct NJ as (j0 & jb0 & raw0 & pre0 & i & ca & _ & _ & _ & _ & _ & ->). discriminate.
  Qed.

  (** * Runs through good states *)
  Fixpoint good_run (s : state) (ops : list op) : Prop :=
    good s /\
    match ops with
    | [] => True
    | o :: r => match step c body s o with Some s' => good_run s' r | None => True end
    end.

  Lemma Inv_run ops : forall s s', Inv s -> good_run s ops -> run c body s ops = Some s' -> Inv s'.
  Proof.
    induction ops as [|o r IH]; intros s s' I GR R; simpl in *.
    - inversion R. now subst.
    - destruct GR as [Gd GR]. destruct (step c body s o) as [s1|] eqn:St; try discriminate.
      eapply IH; [eapply Inv_step; eauto | exact GR | exact R].
  Qed.

  Lemma good_run_last ops : forall s s', good_run s ops -> run c body s ops = Some s' -> good s'.
  Proof.
    induction ops as [|o r IH]; intros s s' GR R; simpl in *.
    - inversion R. subst. tauto.
    - destruct GR as [Gd GR]. destruct (step c body s o) as [s1|] eqn:St; try discriminate. eauto.
  Qed.

  (** What a complete execution returned and recorded at its root is the meaning of the root call. *)
  Theorem complete_run_meaning ops s r n :
    good_run (init t0 args0) ops -> run c body (init t0 args0) ops = Some s -> outcome s = Some (r, n) ->
    eval t0 (keys_l c (root_order c) args0) r n.
  Proof.
    intros GR R O.
    assert (I : Inv s) by (eapply Inv_run; eauto; apply Inv_init).
    assert (Gd : good s) by (eapply good_run_last; eauto).
    unfold outcome in O. apply job_res_SRes in O as (jb & raw & pre & kids & G & S).
    destruct (I_root _ I) as (jb0 & G0 & P0 & T0 & A0). rewrite G in G0. inversion G0. subst jb0.
    assert (raw = args0).
    { eapply evalEs_vals_inv. rewrite <- A0. eapply I_raw; eauto. rewrite S. reflexivity. }
    assert (pre = keys_l c (root_order c) raw).
    { specialize (Gd 0 jb raw pre G). rewrite S, P0 in Gd. simpl in Gd. auto. }
    subst. rewrite <- T0. eapply I_res; eauto.
  Qed.

  Theorem good_runs_agree ops1 ops2 s1 s2 r1 n1 r2 n2 :
    good_run (init t0 args0) ops1 -> run c body (init t0 args0) ops1 = Some s1 -> outcome s1 = Some (r1, n1) ->
    good_run (init t0 args0) ops2 -> run c body (init t0 args0) ops2 = Some s2 -> outcome s2 = Some (r2, n2) ->
    r1 = r2 /\ n1 = n2.
  Proof.
    intros G1 R1 O1 G2 R2 O2.
    pose proof (complete_run_meaning _ _ _ _ G1 R1 O1) as E1.
    pose proof (complete_run_meaning _ _ _ _ G2 R2 O2) as E2.
    destruct (eval_deterministic c body) as (_ & _ & D & _). eapply D; eauto.
  Qed.
End Inv.
