(** Basic facts for Model/Timing.v: decidable equalities are sound and reflexive, list access /
    update lemmas, [mapM], the fork counter. *)
From Coq Require Import List ZArith Bool Arith Lia.
From RV Require Import Model.Timing.
Import ListNotations.
Open Scope list_scope.

(* ------------------------------------------------------------------------------------------ *)
(** * Induction principles for the nested types *)
Section ValueInd.
  Variable P : value -> Prop.
  Hypothesis HInt : forall n, P (VInt n).
  Hypothesis HList : forall l, Forall P l -> P (VList l).
  Hypothesis HInit : forall n, P (VHInit n).
  Hypothesis HFork : forall h k, P h -> P (VHFork h k).
  Hypothesis HCall : forall n t l, Forall P l -> P (VHCall n t l).
  Fixpoint value_ind' (v : value) : P v :=
    match v with
    | VInt n => HInt n
    | VList l => HList l ((fix go (l : list value) : Forall P l :=
                             match l with
                             | [] => Forall_nil _
                             | x :: r => Forall_cons _ (value_ind' x) (go r)
                             end) l)
    | VHInit n => HInit n
    | VHFork h k => HFork h k (value_ind' h)
    | VHCall n t l => HCall n t l ((fix go (l : list value) : Forall P l :=
                                     match l with
                                     | [] => Forall_nil _
                                     | x :: r => Forall_cons _ (value_ind' x) (go r)
                                     end) l)
    end.
End ValueInd.

Section ExprInd.
  Variable P : expr -> Prop.
  Hypothesis HVal : forall v, P (EVal v).
  Hypothesis HList : forall l, Forall P l -> P (EList l).
  Hypothesis HCall : forall t l, Forall P l -> P (ECall t l).
  Fixpoint expr_ind' (e : expr) : P e :=
    match e with
    | EVal v => HVal v
    | EList l => HList l ((fix go (l : list expr) : Forall P l :=
                             match l with
                             | [] => Forall_nil _
                             | x :: r => Forall_cons _ (expr_ind' x) (go r)
                             end) l)
    | ECall t l => HCall t l ((fix go (l : list expr) : Forall P l :=
                                 match l with
                                 | [] => Forall_nil _
                                 | x :: r => Forall_cons _ (expr_ind' x) (go r)
                                 end) l)
    end.
End ExprInd.

Section CnodeInd.
  Variable P : cnode -> Prop.
  Hypothesis HCN : forall t a r ks, Forall P ks -> P (CN t a r ks).
  Fixpoint cnode_ind' (n : cnode) : P n :=
    match n with
    | CN t a r ks => HCN t a r ks ((fix go (l : list cnode) : Forall P l :=
                                      match l with
                                      | [] => Forall_nil _
                                      | x :: r => Forall_cons _ (cnode_ind' x) (go r)
                                      end) ks)
    end.
End CnodeInd.

(* ------------------------------------------------------------------------------------------ *)
(** * Equality tests *)
Lemma list_eqb_eq {A} (eqb : A -> A -> bool) (l : list A) :
  Forall (fun x => forall y, eqb x y = true -> x = y) l ->
  forall m, list_eqb eqb l m = true -> l = m.
Proof.
  induction 1 as [|x l Hx Hl IH]; intros [|y m] E; simpl in E; try discriminate; auto.
  apply andb_true_iff in E as [E1 E2]. f_equal; auto.
Qed.

Lemma list_eqb_refl {A} (eqb : A -> A -> bool) (l : list A) :
  Forall (fun x => eqb x x = true) l -> list_eqb eqb l l = true.
Proof. induction 1; simpl; auto. rewrite H, IHForall. reflexivity. Qed.

Lemma value_eqb_VList l m : value_eqb (VList l) (VList m) = list_eqb value_eqb l m.
Proof.
  simpl. revert m. induction l as [|x l IH]; intros [|y m]; simpl; auto. now rewrite IH.
Qed.

Lemma value_eqb_VHCall n t l n' t' m :
  value_eqb (VHCall n t l) (VHCall n' t' m) = Nat.eqb n n' && Nat.eqb t t' && list_eqb value_eqb l m.
Proof.
  simpl. f_equal. revert m. induction l as [|x l IH]; intros [|y m]; simpl; auto. now rewrite IH.
Qed.

Lemma value_eqb_eq : forall a b, value_eqb a b = true -> a = b.
Proof.
  induction a as [n|l IH|n|h k IH|n t l IH] using value_ind'; intros b E; destruct b; try discriminate.
  - simpl in E. apply Z.eqb_eq in E. now subst.
  - rewrite value_eqb_VList in E. f_equal. eapply list_eqb_eq; eauto.
  - simpl in E. apply Nat.eqb_eq in E. now subst.
  - simpl in E. apply andb_true_iff in E as [E1 E2]. apply Nat.eqb_eq in E2. f_equal; auto.
  - rewrite value_eqb_VHCall in E. apply andb_true_iff in E as [E E3]. apply andb_true_iff in E as [E1 E2].
    apply Nat.eqb_eq in E1, E2. subst. f_equal. eapply list_eqb_eq; eauto.
Qed.

Lemma value_eqb_refl : forall a, value_eqb a a = true.
Proof.
  induction a as [n|l IH|n|h k IH|n t l IH] using value_ind'.
  - simpl. apply Z.eqb_refl.
  - rewrite value_eqb_VList. now apply list_eqb_refl.
  - simpl. apply Nat.eqb_refl.
  - simpl. rewrite IH, Nat.eqb_refl. reflexivity.
  - rewrite value_eqb_VHCall, !Nat.eqb_refl. simpl. now apply list_eqb_refl.
Qed.

Lemma value_eqb_neq a b : a <> b -> value_eqb a b = false.
Proof. intro N. destruct (value_eqb a b) eqn:E; auto. apply value_eqb_eq in E. contradiction. Qed.

Lemma value_eq_dec (a b : value) : {a = b} + {a <> b}.
Proof.
  destruct (value_eqb a b) eqn:E.
  - left. now apply value_eqb_eq.
  - right. intros ->. rewrite value_eqb_refl in E. discriminate.
Qed.

Lemma values_eqb_eq l m : list_eqb value_eqb l m = true -> l = m.
Proof. apply list_eqb_eq. apply Forall_forall. intros x _ y. apply value_eqb_eq. Qed.

Lemma values_eqb_refl l : list_eqb value_eqb l l = true.
Proof. apply list_eqb_refl. apply Forall_forall. intros x _. apply value_eqb_refl. Qed.

Lemma expr_eqb_EList l m : expr_eqb (EList l) (EList m) = list_eqb expr_eqb l m.
Proof.
  simpl. revert m. induction l as [|x l IH]; intros [|y m]; simpl; auto. now rewrite IH.
Qed.

Lemma expr_eqb_ECall t l t' m : expr_eqb (ECall t l) (ECall t' m) = Nat.eqb t t' && list_eqb expr_eqb l m.
Proof.
  simpl. f_equal. revert m. induction l as [|x l IH]; intros [|y m]; simpl; auto. now rewrite IH.
Qed.

Lemma expr_eqb_eq : forall a b, expr_eqb a b = true -> a = b.
Proof.
  induction a as [v|l IH|t l IH] using expr_ind'; intros b E; destruct b; try discriminate.
  - simpl in E. apply value_eqb_eq in E. now subst.
  - rewrite expr_eqb_EList in E. f_equal. eapply list_eqb_eq; eauto.
  - rewrite expr_eqb_ECall in E. apply andb_true_iff in E as [E1 E2]. apply Nat.eqb_eq in E1. subst.
    f_equal. eapply list_eqb_eq; eauto.
Qed.

Lemma call_eqb_eq (a b : call) : call_eqb a b = true -> a = b.
Proof.
  destruct a as [t l], b as [t' m]. unfold call_eqb. simpl. intro E.
  apply andb_true_iff in E as [E1 E2]. apply Nat.eqb_eq in E1. subst. f_equal.
  eapply list_eqb_eq; eauto. apply Forall_forall. intros x _ y. apply expr_eqb_eq.
Qed.

Lemma index_of_sound ca cs i : index_of ca cs = Some i -> nth_error cs i = Some ca.
Proof.
  revert i. induction cs as [|d r IH]; intros i E; simpl in E; try discriminate.
  destruct (call_eqb d ca) eqn:Ed.
  - inversion E. subst. simpl. f_equal. now apply call_eqb_eq.
  - destruct (index_of ca r) eqn:Er; simpl in E; try discriminate. inversion E. subst. simpl. now apply IH.
Qed.

(* ------------------------------------------------------------------------------------------ *)
(** * Lists: update, mapM *)
Lemma upd_length {A} (l : list A) i x : length (upd l i x) = length l.
Proof. revert i. induction l; intros [|i]; simpl; auto. Qed.

Lemma nth_upd_same {A} (l : list A) i x : i < length l -> nth_error (upd l i x) i = Some x.
Proof. revert i. induction l; intros [|i] H; simpl in *; try lia; auto. apply IHl. lia. Qed.

Lemma nth_upd_other {A} (l : list A) i k x : k <> i -> nth_error (upd l i x) k = nth_error l k.
Proof.
  revert i k. induction l; intros [|i] [|k] H; simpl; auto; try congruence.
Qed.

Lemma mapM_length {A B} (f : A -> option B) l r : mapM f l = Some r -> length r = length l.
Proof.
  revert r. induction l as [|x l IH]; intros r E; simpl in E.
  - inversion E. reflexivity.
  - destruct (f x); try discriminate. destruct (mapM f l); try discriminate. inversion E. simpl. f_equal. now apply IH.
Qed.

Lemma mapM_nth {A B} (f : A -> option B) l r i x :
  mapM f l = Some r -> nth_error l i = Some x -> exists y, f x = Some y /\ nth_error r i = Some y.
Proof.
  revert r i. induction l as [|a l IH]; intros r i E N.
  - destruct i; discriminate.
  - simpl in E. destruct (f a) eqn:Fa; try discriminate. destruct (mapM f l) eqn:M; try discriminate.
    inversion E. subst. destruct i; simpl in *.
    + inversion N. subst. eauto.
    + eapply IH; eauto.
Qed.

Lemma mapM_ext {A B} (f g : A -> option B) l :
  (forall x, In x l -> f x = g x) -> mapM f l = mapM g l.
Proof.
  induction l as [|a l IH]; intro H; simpl; auto.
  rewrite H by (left; reflexivity). rewrite IH; auto. intros. apply H. now right.
Qed.

Lemma mapM_EVal calls rs vs : mapM (subst calls rs) (map EVal vs) = Some vs.
Proof. induction vs; simpl; auto. now rewrite IHvs. Qed.

(* ------------------------------------------------------------------------------------------ *)
(** * Jobs *)
Definition get (s : state) (k : nat) : option job := nth_error s k.

Definition with_st (jb : job) (st : status) : job := mkJob (j_parent jb) (j_task jb) (j_argx jb) st.

Lemma set_st_length s j st : length (set_st s j st) = length s.
Proof. unfold set_st. destruct (nth_error s j); auto. apply upd_length. Qed.

Lemma get_set_st_same s j st jb : get s j = Some jb -> get (set_st s j st) j = Some (with_st jb st).
Proof.
  unfold get, set_st. intro E. rewrite E. apply nth_upd_same. apply nth_error_Some. congruence.
Qed.

Lemma get_set_st_other s j st k : k <> j -> get (set_st s j st) k = get s k.
Proof. unfold get, set_st. intro N. destruct (nth_error s j); auto. now apply nth_upd_other. Qed.

(* ------------------------------------------------------------------------------------------ *)
(** * The fork counter *)
Lemma lookup_incr_same f h : lookup (incr f h) h = S (lookup f h).
Proof.
  induction f as [|[k n] r IH]; simpl.
  - now rewrite value_eqb_refl.
  - destruct (value_eqb k h) eqn:E; simpl; rewrite E; auto.
Qed.

Lemma lookup_incr_other f h h' : h <> h' -> lookup (incr f h) h' = lookup f h'.
Proof.
  intro N. induction f as [|[k n] r IH]; simpl.
  - now rewrite value_eqb_neq.
  - destruct (value_eqb k h) eqn:E; simpl.
    + apply value_eqb_eq in E. subst. now rewrite value_eqb_neq.
    + destruct (value_eqb k h'); auto.
Qed.

Lemma lookup_incr_le f h h' : lookup f h' <= lookup (incr f h) h'.
Proof.
  destruct (value_eq_dec h h') as [->|N].
  - rewrite lookup_incr_same. lia.
  - rewrite lookup_incr_other; auto.
Qed.
