(** Boolean checkers for the hypotheses of the round-trip theorems (used for concrete witnesses). *)
From Coq Require Import List Ascii Bool Arith Lia Permutation.
From RV Require Import Model.Config Proofs.ConfigFacts Proofs.ConfigTree Proofs.ConfigRoundtrip.
Import ListNotations.
Open Scope list_scope.

Fixpoint nodupb (l : list str) : bool :=
  match l with
  | [] => true
  | x :: r => negb (existsb (str_eqb x) r) && nodupb r
  end.

Lemma nodupb_sound l : nodupb l = true -> NoDup l.
Proof.
  induction l as [|x r IH]; simpl; [constructor|]. intros H. apply andb_prop in H. destruct H as [H1 H2].
  constructor; auto. intros Hin. apply negb_true_iff in H1.
  assert (X : existsb (str_eqb x) r = true) by (apply existsb_exists; exists x; split; auto; apply str_eqb_refl).
  congruence.
Qed.

Fixpoint lprefixb (a b : list str) : bool :=
  match a, b with
  | [], _ => true
  | x :: a', y :: b' => str_eqb x y && lprefixb a' b'
  | _ :: _, [] => false
  end.

Lemma lprefixb_complete a b : prefix a b -> lprefixb a b = true.
Proof.
  intros [c ->]. induction a as [|x a IH]; simpl; auto. rewrite str_eqb_refl. auto.
Qed.

Definition guardb (cfg : config_cfg) (names : list str) : bool :=
  forallb (name_ok cfg) names && nodupb names &&
  forallb (fun n => forallb (fun m => implb (lprefixb (split (sep cfg) n) (split (sep cfg) m)) (str_eqb n m)) names) names.

Lemma guardb_sound cfg names : guardb cfg names = true -> guard cfg names.
Proof.
  unfold guardb. intros H. apply andb_prop in H. destruct H as [H H3]. apply andb_prop in H. destruct H as [H1 H2].
  split; [|split].
  - rewrite forallb_forall in H1. auto.
  - apply nodupb_sound; auto.
  - intros n m Hn Hm Hp. rewrite forallb_forall in H3. specialize (H3 n Hn).
    rewrite forallb_forall in H3. specialize (H3 m Hm).
    rewrite (lprefixb_complete _ _ Hp) in H3. simpl in H3. apply str_eqb_eq; auto.
Qed.

Definition wf_parserb (p : parser) : bool :=
  nodupb (map fst (p_sections p)) && negb (existsb (str_eqb DEFAULT) (map fst (p_sections p))) &&
  nodupb (map fst (p_defaults p)) && forallb (fun so => nodupb (map fst (snd so))) (p_sections p).

Lemma wf_parserb_sound p : wf_parserb p = true -> wf_parser p.
Proof.
  unfold wf_parserb. intros H. apply andb_prop in H. destruct H as [H H4]. apply andb_prop in H. destruct H as [H H3].
  apply andb_prop in H. destruct H as [H1 H2].
  split; [apply nodupb_sound; auto|]. split; [|split; [apply nodupb_sound; auto|]].
  - intros Hin. apply negb_true_iff in H2.
    assert (X : existsb (str_eqb DEFAULT) (map fst (p_sections p)) = true)
      by (apply existsb_exists; exists DEFAULT; split; auto).
    congruence.
  - apply Forall_forall. intros so Hso. rewrite forallb_forall in H4. apply nodupb_sound. auto.
Qed.
