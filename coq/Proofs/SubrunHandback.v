(** C38, parts 2 and 3: the result / error handed back through the _subrun_root_task dict and
    subrun's [then] equals what direct evaluation gives, for every outcome; the Job rows of a
    sub-scheduler that extends an execution lie under the calling job, in its execution. *)
From Coq Require Import List ZArith Bool Arith Lia.
From RV Require Import Model.Subrun.
Import ListNotations.

(* ---------------------------------------------------------------------- *)
(** * hand-back                                                             *)

Theorem handback_eq_direct :
  forall new_execution o,
    subrun_observed shipped_handback new_execution o = run_direct shipped_handback o.
Proof. intros [|] [v|e|]; reflexivity. Qed.

(** what direct evaluation gives is the outcome itself *)
Lemma run_direct_shipped :
  forall o, run_direct shipped_handback o
            = match o with OVal v => RetV v | OErr e => Raise e | ODry => RaiseDryRun end.
Proof. intros [v|e|]; reflexivity. Qed.

(** the dict always offers [then] a branch, and the branch finds what it reads *)
Theorem then_never_silent :
  forall new_execution o d,
    root_task shipped_handback new_execution o = TaskReturns d ->
    then_chain (hb_then shipped_handback) d RaiseDryRun <> RetNone /\
    then_chain (hb_then shipped_handback) d RaiseDryRun <> PyError.
Proof.
  intros [|] [v|e|] d H; vm_compute in H; inversion H; subst; split; vm_compute; discriminate.
Qed.

(** the job itself never fails inside the protocol: it returns a dict or fails with the user's
    error (or DryRunResult), nothing else *)
Theorem root_task_outcomes :
  forall new_execution o,
    match root_task shipped_handback new_execution o with
    | TaskReturns d => True
    | TaskRaises (Raise e) => o = OErr e
    | TaskRaises RaiseDryRun => new_execution = true /\ o = ODry
    | TaskRaises _ => False
    end.
Proof. intros [|] [v|e|]; vm_compute; auto. Qed.

(** a failed sub-execution fails the job in both modes; a value (or a dry run of an extending subrun) is a dict
    that names the sub-execution's root job *)
Theorem root_task_fails_iff_inner_fails :
  forall new_execution e, root_task shipped_handback new_execution (OErr e) = TaskRaises (Raise e).
Proof. intros [|] e; reflexivity. Qed.

Theorem extend_returns_dict :
  forall o, (forall e, o <> OErr e) ->
    exists d, root_task shipped_handback false o = TaskReturns d
              /\ dict_get d KJobId = Some DMeta /\ dict_get d KCallHash = Some DMeta.
Proof. intros [v|e|] H; [| exfalso; apply (H e); reflexivity |]; eexists; vm_compute; repeat split. Qed.

(** the hand-back equality also held for the earlier shape (error returned as a value): the difference
    between the two shapes is what a LATER execution does, below *)
Theorem handback_eq_direct_value_shape :
  forall new_execution o, subrun_observed value_handback new_execution o = run_direct value_handback o.
Proof. intros [|] [v|e|]; reflexivity. Qed.

(** ** a second execution on the same backend *)
(** with the failure raised by the job (as the code does now), a later execution behaves as direct
    evaluation does: a value is replayed, a failure is run again -- in both modes, for all outcomes *)
Theorem second_execution_eq_direct :
  forall new_execution o1 o2, o1 <> ODry ->
    second_execution_subrun shipped_handback new_execution o1 o2 = second_execution_direct shipped_handback o1 o2.
Proof.
  intros [|] [v|e|] [v2|e2|] H; try (exfalso; apply H; reflexivity); reflexivity.
Qed.

(** refuted for the earlier shape: the failed sub-execution is a cached value of the job, so the next
    execution replays the old error without running the repaired sub-workflow *)
Theorem value_shape_replays_failure_refuted :
  exists o1 o2,
    second_execution_subrun value_handback false o1 o2 = (Raise 1, false) /\
    second_execution_direct value_handback o1 o2 = (RetV 2, true).
Proof. exists (OErr 1), (OVal 2). split; reflexivity. Qed.

(** replaying the recorded dict (CSE / ultimate hit on the _subrun_root_task job) observes the same:
    [then] is a function of the dict only *)
Theorem replay_same :
  forall new_execution o d,
    root_task shipped_handback new_execution o = TaskReturns d ->
    then_chain (hb_then shipped_handback) d RaiseDryRun = run_direct shipped_handback o.
Proof.
  intros ne o d H. pose proof (handback_eq_direct ne o) as E.
  unfold subrun_observed in E. rewrite H in E. exact E.
Qed.

(* ---------------------------------------------------------------------- *)
(** * Job rows                                                              *)

Lemma rows_from_length : forall w ne ops i, length (rows_from w ne i ops) = length ops.
Proof. induction ops; simpl; intros; auto. Qed.

Lemma rows_from_In :
  forall w ne ops i r, In r (rows_from w ne i ops) ->
    exists n op, nth_error ops n = Some op /\ r = row_of w ne (i + n) op.
Proof.
  induction ops as [|op ops IH]; simpl; intros i r H; [contradiction|].
  destruct H as [<-|H].
  - exists 0, op. rewrite Nat.add_0_r. auto.
  - destruct (IH _ _ H) as [n [op' [Hn ->]]]. exists (S n), op'. split; auto.
    f_equal. lia.
Qed.

Theorem extend_rows_same_execution :
  forall ops r, In r (sub_rows shipped_wiring false ops) -> r_exec r = ECaller.
Proof.
  intros ops r H. destruct (rows_from_In _ _ _ _ _ H) as [n [op [_ ->]]]. reflexivity.
Qed.

Theorem new_rows_fresh_execution :
  forall ops r, In r (sub_rows shipped_wiring true ops) ->
    r_exec r = EFresh /\ r_parent r <> Some JCaller.
Proof.
  intros ops r H. destruct (rows_from_In _ _ _ _ _ H) as [n [op [_ ->]]].
  split; [reflexivity|]. destruct op; simpl; discriminate.
Qed.

Lemma rows_from_nth :
  forall w ne ops i n,
    nth_error (rows_from w ne i ops) n = option_map (row_of w ne (i + n)) (nth_error ops n).
Proof.
  induction ops as [|op ops IH]; intros i [|n]; simpl; auto.
  - rewrite Nat.add_0_r. reflexivity.
  - rewrite IH. replace (S i + n) with (i + S n) by lia. reflexivity.
Qed.

Theorem extend_top_rows_are_children_of_caller :
  forall ops n, nth_error ops n = Some NewTop ->
    nth_error (sub_rows shipped_wiring false ops) n
    = Some (mkRow (JInner n) (Some JCaller) ECaller).
Proof. intros ops n H. unfold sub_rows. rewrite rows_from_nth, H. reflexivity. Qed.

Theorem new_top_rows_have_no_parent :
  forall ops n, nth_error ops n = Some NewTop ->
    nth_error (sub_rows shipped_wiring true ops) n = Some (mkRow (JInner n) None EFresh).
Proof. intros ops n H. unfold sub_rows. rewrite rows_from_nth, H. reflexivity. Qed.

(** lookup of the i-th inner job in the rows *)
Lemma lookup_rows_from :
  forall w ne ops i n op, nth_error ops n = Some op ->
    lookup_row (rows_from w ne i ops) (JInner (i + n)) = Some (row_of w ne (i + n) op).
Proof.
  induction ops as [|o ops IH]; intros i [|n] op H; simpl in *; try discriminate.
  - inversion H; subst. rewrite Nat.add_0_r. unfold row_of at 1; simpl. rewrite Nat.eqb_refl. reflexivity.
  - unfold row_of at 1; simpl.
    destruct (Nat.eqb i (i + S n)) eqn:E; [apply Nat.eqb_eq in E; lia|].
    replace (i + S n) with (S i + n) by lia. apply IH; auto.
Qed.

Lemma wf_from_nth :
  forall ops i n k, wf_from i ops = true -> nth_error ops n = Some (NewChild k) -> k < i + n.
Proof.
  induction ops as [|o ops IH]; intros i [|n] k W H; simpl in *; try discriminate.
  - inversion H; subst. apply andb_prop in W. destruct W as [W _]. apply Nat.ltb_lt in W. lia.
  - destruct o.
    + specialize (IH (S i) n k W H). lia.
    + apply andb_prop in W. destruct W as [_ W]. specialize (IH (S i) n k W H). lia.
Qed.

(** every job created by a sub-scheduler that extends the execution is a descendant of the
    calling job, whatever the (well-formed) sequence of job creations *)
Theorem extend_rows_under_caller :
  forall ops, wf_ops ops = true ->
    forall n, n < length ops ->
      under_caller (sub_rows shipped_wiring false ops) (S n) (JInner n) = true.
Proof.
  intros ops W. unfold sub_rows.
  induction n as [n IH] using lt_wf_ind. intros Hn.
  destruct (nth_error ops n) as [op|] eqn:E; [|apply nth_error_None in E; lia].
  simpl under_caller.
  pose proof (lookup_rows_from shipped_wiring false ops 0 n op E) as L. simpl in L. rewrite L.
  destruct op as [|k]; simpl; [reflexivity|].
  pose proof (wf_from_nth ops 0 n k W E) as Hk. simpl in Hk.
  assert (Hk' : k < length ops) by lia.
  specialize (IH k Hk Hk').
  (* more fuel does not hurt *)
  clear - IH Hk.
  assert (M : forall rows f j, under_caller rows f j = true -> forall g, f <= g -> under_caller rows g j = true).
  { induction f as [|f IHf]; intros j H g Hg; simpl in H; [discriminate|].
    destruct g as [|g]; [lia|]. simpl.
    destruct (lookup_row rows j) as [r|]; [|discriminate].
    destruct (r_parent r) as [[|p]|]; auto; try discriminate.
    apply IHf; auto; lia. }
  apply (M _ _ _ IH). lia.
Qed.

(** non-vacuity: a sub-execution with a root job, two children and a grandchild *)
Example rows_example :
  sub_rows shipped_wiring false [NewTop; NewChild 0; NewChild 0; NewChild 2]
  = [ mkRow (JInner 0) (Some JCaller) ECaller; mkRow (JInner 1) (Some (JInner 0)) ECaller;
      mkRow (JInner 2) (Some (JInner 0)) ECaller; mkRow (JInner 3) (Some (JInner 2)) ECaller ]
  /\ wf_ops [NewTop; NewChild 0; NewChild 0; NewChild 2] = true
  /\ under_caller (sub_rows shipped_wiring false [NewTop; NewChild 0; NewChild 0; NewChild 2]) 4 (JInner 3) = true.
Proof. repeat split. Qed.

(** were extend_run to start the evaluation without the stand-in parent job, the inner root would be detached *)
Definition detached_wiring : wiring :=
  mkW WExecOfParentRow WNoParent true WExecFresh WJobParentId WJobExecutionId WCurrentExecution WParentJobArg.
Example detached_is_not_under_caller :
  under_caller (sub_rows detached_wiring false [NewTop; NewChild 0]) 2 (JInner 1) = false.
Proof. reflexivity. Qed.

(* ---------------------------------------------------------------------- *)
(** * Context forwarding                                                    *)

(** the forwarded context already contains every key of the config-level context *)
Lemma job_context_keeps_defined :
  forall overrides base k, base k <> None -> job_context base overrides k <> None.
Proof.
  induction overrides as [|o r IH]; simpl; intros base k H; auto.
  apply IH. unfold later_wins. destruct (ctx_get o k); [discriminate|exact H].
Qed.

(** with the shipped order the sub-workflow starts from exactly the calling job's context, in both
    modes: for every config-level context, run() context, chain of update_context overrides, key *)
Theorem forwarded_context_is_callers :
  forall (config run : ctx) (overrides : list ctx) (k : nat),
    let fwd := job_context (run_context shipped_ctx_order (ctx_get config) (ctx_get run)) overrides in
    sub_new_context shipped_ctx_order (ctx_get config) fwd k = fwd k /\
    sub_extend_context fwd k = fwd k.
Proof.
  intros config run overrides k fwd. split.
  - unfold sub_new_context, run_context, shipped_ctx_order, later_wins at 1.
    destruct (fwd k) eqn:E; [reflexivity|].
    destruct (ctx_get config k) eqn:C; [|reflexivity].
    exfalso. eapply (job_context_keeps_defined overrides); [|exact E].
    unfold run_context, shipped_ctx_order, later_wins. destruct (ctx_get run k); [discriminate|]. rewrite C. discriminate.
  - unfold sub_extend_context, later_wins. destruct (fwd k); reflexivity.
Qed.

(** with the operands the other way round a caller's override of a config-defined key is lost in a
    new execution (and only there) *)
Example other_order_loses_override :
  let config := [(0, 7%Z)] in
  let fwd := job_context (run_context RunThenConfig (ctx_get config) (ctx_get [])) [[(0, 2%Z)]] in
  fwd 0 = Some 2%Z /\ sub_new_context RunThenConfig (ctx_get config) fwd 0 = Some 7%Z /\ sub_extend_context fwd 0 = Some 2%Z.
Proof. repeat split. Qed.

(* ---------------------------------------------------------------------- *)
(** * Cache identity of the _subrun_root_task call                          *)
(** two calls with the same key agree on the expression and on the mode: a subrun that extends the
    execution is never answered with the recorded result of one that started a new execution *)
Theorem root_key_separates_modes :
  forall a b : rtarg -> Z,
    root_key shipped_config_args a = root_key shipped_config_args b ->
    a AExpr = b AExpr /\ a ANewExecution = b ANewExecution /\ a AExportOptions = b AExportOptions.
Proof. intros a b H. cbv in H. inversion H. auto. Qed.

Example key_with_mode_as_config_arg_confuses_modes :
  let a := fun x => match x with ANewExecution => 1%Z | _ => 0%Z end in
  let b := fun _ : rtarg => 0%Z in
  root_key (ANewExecution :: shipped_config_args) a = root_key (ANewExecution :: shipped_config_args) b
  /\ a ANewExecution <> b ANewExecution.
Proof. split; [reflexivity|discriminate]. Qed.

(* ---------------------------------------------------------------------- *)
(** * Root wrapping                                                         *)
(** an expression left unwrapped creates exactly one job under the (stand-in) parent -- what
    `[job] = parent_job.child_jobs` in extend_run and the root-job bookkeeping of run rely on *)
Theorem unwrapped_root_is_single_job :
  forall is_task is_sched lazy,
    needs_root shipped_root_parts is_task is_sched lazy = false ->
    is_task = true /\ is_sched = false /\ top_jobs_unwrapped lazy = 1.
Proof.
  intros is_task is_sched lazy H. unfold needs_root in H.
  apply Bool.orb_false_elim in H. destruct H as [H L].
  apply Bool.orb_false_elim in H. destruct H as [T S0].
  apply Bool.negb_false_iff in T. repeat split; auto.
  unfold top_jobs_unwrapped, all_parts. simpl in L. simpl filter.
  destruct (lazy CArgs), (lazy CKwargs), (lazy CDefaults), (lazy CTaskOptions), (lazy CExprOptions);
    simpl in *; try discriminate; reflexivity.
Qed.

Example dropping_call_time_options_leaves_two_top_jobs :
  let parts := [CArgs; CKwargs; CDefaults; CTaskOptions] in
  let lazy := fun p => match p with CExprOptions => true | _ => false end in
  needs_root parts true false lazy = false /\ top_jobs_unwrapped lazy = 2.
Proof. split; reflexivity. Qed.
