(** The two repairs: with the staleness scan under the lock the monitor never fails; with the
    counter decrement under the lock num_pending is exact whenever activity has stopped. *)
From Coq Require Import List ZArith Bool Arith Lia Permutation.
From RV Require Import Model.Arrayer Proofs.ArrayerBase Proofs.ArrayerInv.
Import ListNotations.
Open Scope list_scope.

(** * the monitor never fails when get_stale_descrs scans under the lock *)
Definition a_win (d : nat) (a : apc_t) : Prop :=
  match a with ATime j | ATs j _ => jd j = d | _ => False end.
Definition m_win (d : nat) (m : mpc_t) : Prop :=
  match m with STs d' _ _ _ => d' = d | _ => False end.

Definition fm (m : mpc_t) (p : list (nat * list job)) : Prop :=
  match m with
  | MNext _ n _ _ | MChk _ n _ _ _ => n = length p
  | SPop2 d _ _ => ~ In d (keys p)
  | MFailUnlock _ | MFail _ | MExit => False
  | _ => True
  end.

Definition plain (m : mpc_t) : Prop :=
  match m with
  | MNext _ _ _ _ | MChk _ _ _ _ _ | SPop2 _ _ _ | STs _ _ _ _ | MFailUnlock _ | MFail _ | MExit => False
  | _ => True
  end.

Lemma plain_fm : forall m p, plain m -> fm m p.
Proof. destruct m; simpl; tauto. Qed.
Lemma plain_win : forall m d, plain m -> ~ m_win d m.
Proof. destruct m; simpl; tauto. Qed.
Lemma plain_loop : forall l, plain (loop_pc l).
Proof. destruct l; exact I. Qed.
Lemma plain_cnt : forall L r c, plain (cnt_pc L r c).
Proof. intros. unfold cnt_pc. destruct (cnt_locked L); exact I. Qed.
Lemma plain_singles : forall L r js c, plain (singles_pc L r js c).
Proof. intros. destruct js; simpl; [apply plain_cnt|exact I]. Qed.
Lemma plain_branch : forall L P d r js t, plain (branch_pc L P d r js t).
Proof.
  intros. unfold branch_pc. destruct (pmax P <? length js); simpl; [exact I|].
  destruct (length js <? pmin P); simpl; [apply plain_singles|exact I].
Qed.

Definition cover (s : st) : Prop :=
  forall d, In d (keys (pend s)) -> In d (keys (stamps s)) \/ a_win d (apc s) \/ m_win d (mpc s).

Definition fix_inv (s : st) : Prop := cover s /\ fm (mpc s) (pend s) /\ errors s = [].

Lemma fix_inv_init : forall jobs, fix_inv (init jobs).
Proof. intros. split; [intros d []|split; [exact I|reflexivity]]. Qed.

Lemma length_app_at_in : forall d js p, In d (keys p) -> length (app_at d js p) = length p.
Proof. intros. rewrite <- !length_keys. rewrite keys_app_at_in; auto. Qed.

(** a step to a [plain] program counter that leaves both dicts, the adder and the log alone *)
Lemma fix_plain : forall p ts n lk td a m os lk' n' m',
  fix_inv (mkst p ts n lk td a m os) -> (forall d, ~ m_win d m) -> plain m' ->
  fix_inv (mkst p ts n' lk' td a m' os).
Proof.
  intros p ts n lk td a m os lk' n' m' (C & F & E) W Pl. split; [|split; [apply plain_fm; assumption|exact E]].
  intros d Hd. destruct (C d Hd) as [A|[A|A]]; auto. exfalso. exact (W d A).
Qed.

Lemma fix_inv_step : forall L P s o, stale_locked L = true ->
  lock_ok L s -> keys_ok s -> fix_inv s -> fix_inv (step L P s o).
Proof.
  intros [sl cl] P [p ts n lk td a m os] [[|] now] SL LO KO FI; simpl in SL; subst sl; unfold step; simpl.
  - unfold step_adder; simpl. destruct FI as (C & F & E). unfold cover in C; simpl in C.
    destruct LO as (L1 & L2 & L3); simpl in *.
    destruct a; simpl in *.
    + destruct td as [|j r]; simpl; [split; [exact C|split; assumption]|].
      destruct (jscript j || (pmin P =? 0)); simpl; [split; [exact C|split; assumption]|].
      destruct (lock_free _); simpl; split; try exact C; split; assumption.
    + (* AGet *) split; [|split; [|exact E]].
      * intros d Hd. simpl in *. apply keys_app_at_inv in Hd. destruct Hd as [->|Hd]; [right; left; reflexivity|].
        destruct (C d Hd) as [A|[[]|A]]; auto.
      * destruct m; simpl in *; try exact I; try discriminate; try tauto.
    + split; [exact C|split; assumption].
    + (* ATs *) split; [|split; assumption].
      intros d Hd. simpl in *. destruct (C d Hd) as [A|[A|A]]; auto; left; apply keys_set_at_iff; auto.
    + split; [intros d Hd; destruct (C d Hd) as [A|[[]|A]]; auto|split; assumption].
    + split; [exact C|split; assumption].
    + split; [exact C|split; assumption].
    + split; [|split].
      * intros d Hd. destruct m; simpl in *; destruct (C d Hd) as [A|[[]|A]]; auto.
      * destruct m; simpl in *; auto.
      * destruct m; simpl in *; exact E.
  - unfold step_monitor, acquire, fail_at, lock_free; simpl.
    destruct m; simpl in *;
      try (eapply fix_plain; [exact FI|intros d []|exact I]);
      try (destruct lk; simpl; [exact FI|eapply fix_plain; [exact FI|intros d []|exact I]]).
    + (* MIter *) destruct FI as (C & F & E). split; [exact C|split; [reflexivity|exact E]].
    + (* MNext *) destruct FI as (C & F & E). simpl in F. subst n0. rewrite Nat.eqb_refl. simpl.
      destruct (nth_error (keys p) pos); simpl.
      * split; [exact C|split; [reflexivity|exact E]].
      * eapply fix_plain; [split; [exact C|split; [reflexivity|exact E]]|intros d []|exact I].
    + (* MChk *) destruct FI as (C & F & E). destruct KO as [N [K1 K2]]. simpl in *.
      destruct (lookup d ts) eqn:Q; simpl.
      * split; [exact C|split; [exact F|exact E]].
      * exfalso. apply lookup_none in Q. apply nth_in in K2.
        destruct LO as (L1 & L2 & L3); simpl in *.
        destruct (C d K2) as [A|[A|[]]]; [tauto|].
        destruct a; simpl in *; try contradiction; discriminate.
    + (* MGUnlock *) eapply fix_plain; [exact FI|intros d []|apply plain_loop].
    + (* SLock *) destruct lk; simpl; [exact FI|]. eapply fix_plain; [exact FI|intros x []|exact I].
    + (* SPop1 *) destruct FI as (C & F & E). destruct KO as [N K].
      destruct (pop d p) as [[js p']|] eqn:Q; simpl.
      * split; [|split; [|exact E]].
        -- intros x Hx. simpl in *. destruct (C x (pop_keys_sub _ _ _ _ _ Q Hx)) as [A|[A|[]]]; auto.
        -- simpl. apply (pop_NoDup _ _ _ _ Q N).
      * exfalso. apply pop_none in Q. apply Q. apply K. left; reflexivity.
    + (* SPop2 *) destruct FI as (C & F & E). simpl in F.
      destruct (pop d ts) as [[t ts']|] eqn:Q; simpl.
      * split; [|split; [exact I|exact E]].
        intros x Hx. simpl in *. destruct (C x Hx) as [A|[A|[]]]; auto.
        left. eapply pop_keys_other; eauto. intros ->. tauto.
      * exfalso. eapply (pop2_ok _ d rest js KO); [reflexivity|exact Q].
    + (* SUnlock *) eapply fix_plain; [exact FI|intros x []|apply plain_branch].
    + (* SSubBig *) destruct FI as (C & F & E). split; [intros x Hx; destruct (C x Hx) as [A|[A|[]]]; auto|split; [exact I|exact E]].
    + (* SLock2 *) destruct lk; simpl; [exact FI|]. eapply fix_plain; [exact FI|intros x []|exact I].
    + (* SExt *) destruct FI as (C & F & E). split; [|split; [exact I|exact E]].
      intros x Hx. simpl in *. apply keys_app_at_inv in Hx. destruct Hx as [->|Hx]; [right; right; reflexivity|].
      destruct (C x Hx) as [A|[A|[]]]; auto.
    + (* STs *) destruct FI as (C & F & E). split; [|split; [exact I|exact E]].
      intros x Hx. simpl in *.
      destruct (C x Hx) as [A|[A|A]];
        [left; apply keys_set_at_iff; auto | auto | left; apply keys_set_at_iff; left; simpl in A; congruence].
    + (* SUnlock2 *) eapply fix_plain; [exact FI|intros x []|apply plain_cnt].
    + (* SSingle *) destruct FI as (C & F & E).
      split; [intros x Hx; destruct (C x Hx) as [A|[A|[]]]; auto; right; right; exfalso|split; [apply plain_fm; apply plain_singles|exact E]].
    + (* SSubMid *) destruct FI as (C & F & E).
      split; [intros x Hx; destruct (C x Hx) as [A|[A|[]]]; auto|split; [apply plain_fm; apply plain_cnt|exact E]].
    + (* SCWr *) eapply fix_plain; [exact FI|intros x []|]. destruct cl; [exact I|apply plain_loop].
    + (* SCUnlock *) eapply fix_plain; [exact FI|intros x []|apply plain_loop].
    + destruct FI as (_ & [] & _).
    + destruct FI as (_ & [] & _).
Qed.

(** * num_pending is exact when the decrement runs under the lock *)
Definition alag (a : apc_t) : Z :=
  match a with ATime _ | ATs _ _ | ARd _ | AWr _ _ => 1 | _ => 0 end.
Definition mlag (m : mpc_t) : nat :=
  match m with
  | SPop2 _ _ js | SUnlock _ _ js _ | SSubMid _ js => length js
  | SSubBig _ _ sub rem _ => length sub + length rem
  | SLock2 _ _ cnt rem _ | SExt _ _ cnt rem _ => cnt + length rem
  | STs _ _ cnt _ | SUnlock2 _ cnt | SSingle _ _ _ cnt | SCLock _ cnt | SCRd _ cnt | SCWr _ cnt _ => cnt
  | _ => 0
  end.

Definition cnt_inv (s : st) : Prop :=
  (npend s + alag (apc s) = Z.of_nat (length (flat (pend s))) + Z.of_nat (mlag (mpc s)))%Z
  /\ match apc s with AWr _ r => r = npend s | _ => True end
  /\ match mpc s with SCWr _ _ r => r = npend s | _ => True end.

Lemma cnt_inv_init : forall jobs, cnt_inv (init jobs).
Proof. intros. repeat split. Qed.

Lemma mlag_loop : forall l, mlag (loop_pc l) = 0.
Proof. destruct l; reflexivity. Qed.
Lemma mlag_cnt : forall L r c, mlag (cnt_pc L r c) = c.
Proof. intros. unfold cnt_pc. destruct (cnt_locked L); reflexivity. Qed.
Lemma mlag_singles : forall L r js c, mlag (singles_pc L r js c) = c.
Proof. intros. destruct js; simpl; [apply mlag_cnt|reflexivity]. Qed.
Lemma mlag_branch : forall L P d r js t, mlag (branch_pc L P d r js t) = length js.
Proof.
  intros. unfold branch_pc. destruct (pmax P <? length js); simpl.
  - rewrite <- app_length. rewrite firstn_skipn. reflexivity.
  - destruct (length js <? pmin P); simpl; [apply mlag_singles|reflexivity].
Qed.
Definition no_scwr (m : mpc_t) : Prop := match m with SCWr _ _ _ => False | _ => True end.
Lemma no_scwr_loop : forall l, no_scwr (loop_pc l).
Proof. destruct l; exact I. Qed.
Lemma no_scwr_cnt : forall L r c, no_scwr (cnt_pc L r c).
Proof. intros. unfold cnt_pc. destruct (cnt_locked L); exact I. Qed.
Lemma no_scwr_singles : forall L r js c, no_scwr (singles_pc L r js c).
Proof. intros. destruct js; simpl; [apply no_scwr_cnt|exact I]. Qed.
Lemma no_scwr_branch : forall L P d r js t, no_scwr (branch_pc L P d r js t).
Proof.
  intros. unfold branch_pc. destruct (pmax P <? length js); simpl; [exact I|].
  destruct (length js <? pmin P); simpl; [apply no_scwr_singles|exact I].
Qed.
Lemma no_scwr_ok : forall m (n : Z), no_scwr m -> match m with SCWr _ _ r => r = n | _ => True end.
Proof. destruct m; simpl; tauto. Qed.

Lemma cnt_inv_step : forall L P s o, cnt_locked L = true ->
  lock_ok L s -> keys_ok s -> cnt_inv s -> cnt_inv (step L P s o).
Proof.
  intros [sl cl] P [p ts n lk td a m os] [[|] now] CL LO KO (C1 & C2 & C3); simpl in CL; subst cl;
    unfold cnt_inv, step; simpl in *.
  - unfold step_adder; simpl. destruct LO as (L1 & L2 & L3); simpl in *.
    destruct a; simpl in *; try (repeat split; assumption).
    + destruct td as [|j r]; simpl; [repeat split; assumption|].
      destruct (jscript j || (pmin P =? 0)); simpl; [repeat split; assumption|].
      destruct (lock_free _); simpl; repeat split; assumption.
    + split; [|split; [exact I|exact C3]]. rewrite flat_app_at_length. simpl length. lia.
    + subst r. split; [lia|split; [exact I|]].
      destruct m; simpl in *; try exact I. discriminate.
    + destruct m; simpl in *; repeat split; assumption.
  - unfold step_monitor, acquire, fail_at, lock_free; simpl.
    destruct m; simpl in *; try (repeat split; assumption);
      try (destruct lk; simpl; repeat split; assumption).
    + destruct sl; simpl; repeat split; assumption.
    + destruct (negb _); simpl; [destruct sl; simpl; repeat split; assumption|].
      destruct (nth_error (keys p) pos); simpl; [repeat split; assumption|].
      unfold after_iter; simpl. destruct sl; simpl; [repeat split; assumption|].
      rewrite mlag_loop. split; [assumption|split; [assumption|apply no_scwr_ok; apply no_scwr_loop]].
    + destruct (lookup d ts); simpl; [repeat split; assumption|destruct sl; simpl; repeat split; assumption].
    + rewrite mlag_loop. split; [assumption|split; [assumption|apply no_scwr_ok; apply no_scwr_loop]].
    + destruct (pop d p) as [[js p']|] eqn:Q; simpl; [|repeat split; assumption].
      split; [|split; [assumption|exact I]]. rewrite (flat_pop_length _ _ _ _ Q) in C1. lia.
    + destruct (pop d ts) as [[t ts']|] eqn:Q; simpl; [repeat split; assumption|].
      exfalso. eapply (pop2_ok _ d rest js KO); [reflexivity|exact Q].
    + rewrite mlag_branch. split; [assumption|split; [assumption|apply no_scwr_ok; apply no_scwr_branch]].
    + split; [|split; [assumption|exact I]]. rewrite flat_app_at_length. lia.
    + rewrite mlag_singles. split; [assumption|split; [assumption|apply no_scwr_ok; apply no_scwr_singles]].
    + subst r. split; [lia|split; [|exact I]].
      destruct LO as (L1 & L2 & L3); simpl in *.
      destruct a; simpl in *; try exact I. discriminate.
    + rewrite mlag_loop. split; [assumption|split; [assumption|apply no_scwr_ok; apply no_scwr_loop]].
Qed.

Lemma cnt_quiescent : forall s, cnt_inv s -> quiescent s = true ->
  npend s = Z.of_nat (length (flat (pend s))).
Proof.
  intros [p ts n lk td a m os] (C1 & _) Q. unfold quiescent in Q. simpl in *.
  destruct td; [|discriminate]. destruct a; try discriminate.
  destruct m; try discriminate; simpl in *; lia.
Qed.
