(** C23 — what the canonical form keeps, the shallow-cache clause, and the witnesses for the
    shipped configuration. *)
From Coq Require Import List NArith Bool Arith Lia Permutation.
From RV Require Import Model.Transfer Proofs.TransferBase Proofs.TransferWalk Proofs.TransferMain.
Import ListNotations.
Open Scope list_scope.

(** ** what deserialize . serialize keeps *)
Lemma canon_exec : forall cfg i x, canon cfg i (EExec x) = EExec x.
Proof. reflexivity. Qed.
Lemma canon_job : forall cfg i j, canon cfg i (EJob j) = EJob j.
Proof. reflexivity. Qed.
Lemma canon_tag : forall cfg i t,
  canon cfg i (ETag t) = ETag (mkTag (t_etype t) (t_entity t) (t_key t) (t_value t) (t_parents t) true).
Proof. reflexivity. Qed.
Lemma canon_value : forall cfg i v, exists v',
  canon cfg i (EValue v) = EValue v' /\ v_type v' = v_type v /\ v_format v' = v_format v
  /\ v_data v' = v_data v /\ v_subtype v' = v_subtype v /\ Permutation (v_subs v) (v_subs v').
Proof.
  intros cfg i v. eexists. split; [reflexivity|]. simpl. repeat split; try reflexivity. apply sortN_perm.
Qed.

Definition arg_same (a a' : arg) : Prop :=
  a_hash a' = a_hash a /\ a_value a' = a_value a /\ a_loc a' = a_loc a /\ Permutation (a_up a) (a_up a').

Lemma canon_call : forall cfg i c, exists c',
  canon cfg i (ECall c) = ECall c'
  /\ c_name c' = c_name c /\ c_task c' = c_task c /\ c_argsh c' = c_argsh c /\ c_value c' = c_value c
  /\ c_ts c' = c_ts c
  /\ Forall2 arg_same (c_args c) (c_args c')
  /\ Permutation (map snd (c_edges c)) (map snd (c_edges c'))
  /\ c_subtree c' = (if cfg_carry_subtree cfg then sortN (c_subtree c) else []).
Proof.
  intros cfg i c. eexists. split; [reflexivity|]. simpl. repeat split; try reflexivity.
  - induction (c_args c) as [|a t IH]; simpl; constructor; [|exact IH].
    unfold arg_same, deser_arg, ser_arg. simpl. repeat split; try reflexivity.
    + destruct (a_loc a); reflexivity.
    + apply sortN_perm.
  - rewrite enumerate_snd. apply Permutation_map.
    destruct (cfg_child_order cfg); simpl; apply isort_perm.
  - destruct (cfg_carry_subtree cfg); reflexivity.
Qed.

(** with the child edges serialised in call order, the order of the children is kept and
    call_order becomes the position *)
Lemma canon_call_children : forall cfg i c c',
  cfg_child_order cfg = ByCallOrder -> canon cfg i (ECall c) = ECall c' ->
  c_edges c' = enumerate_from 0 (map snd (isort edge_leb_call (c_edges c))).
Proof.
  intros cfg i c c' Hord H. unfold canon in H. simpl in H. rewrite Hord in H. simpl in H.
  inversion H. reflexivity.
Qed.
Lemma canon_call_children_sorted : forall cfg i c c',
  cfg_child_order cfg = ByCallOrder -> sorted edge_leb_call (c_edges c) ->
  canon cfg i (ECall c) = ECall c' -> map snd (c_edges c') = map snd (c_edges c).
Proof.
  intros cfg i c c' Hord Hs H. rewrite (canon_call_children cfg i c c' Hord H).
  rewrite enumerate_snd, sorted_isort_id; [reflexivity|exact Hs].
Qed.

(** ** the shallow cache *)
Lemma newest_In : forall l x, newest l = Some x -> In x l.
Proof.
  induction l as [|y t IH]; simpl; intros x H; [discriminate|].
  destruct (newest t) as [z|] eqn:E.
  - destruct (N.ltb (c_ts (snd y)) (c_ts (snd z))); inversion H; subst; [right; apply IH; reflexivity | left; reflexivity].
  - inversion H. left. reflexivity.
Qed.
Lemma get_call_node_spec : forall cfg r reg t a i,
  get_call_node cfg r reg t a = Some i ->
  exists c, In (i, ECall c) r /\ c_task c = t /\ c_argsh c = a /\ current cfg reg c = true.
Proof.
  intros cfg r reg t a i H. unfold get_call_node in H.
  destruct (newest (candidates cfg r reg t a)) as [[k c]|] eqn:E; [|discriminate].
  simpl in H. inversion H. subst k. apply newest_In in E. unfold candidates in E.
  apply in_flat_map in E. destruct E as [[k e] [Hin Hc]]. simpl in Hc.
  destruct e; try contradiction.
  destruct (N.eqb (c_task c0) t && N.eqb (c_argsh c0) a && current cfg reg c0) eqn:Eb; [|contradiction].
  destruct Hc as [Hc|[]]. inversion Hc. subst.
  apply andb_true_iff in Eb. destruct Eb as [Eb H3]. apply andb_true_iff in Eb. destruct Eb as [H1 H2].
  apply N.eqb_eq in H1. apply N.eqb_eq in H2. exists c. auto.
Qed.

Lemma current_sort : forall cfg reg c c',
  c_task c' = c_task c -> c_subtree c' = sortN (c_subtree c) -> current cfg reg c' = current cfg reg c.
Proof.
  intros cfg reg c c' Ht Hs. unfold current. rewrite Ht, Hs.
  rewrite (memN_ext (c_task c) (sortN (c_subtree c)) (c_subtree c) (sortN_In _)).
  rewrite (subsetN_ext (sortN (c_subtree c)) (c_subtree c) reg (sortN_In _)). reflexivity.
Qed.

(** A call node that arrived by the transfer is current in the destination only if it is
    current in the source, provided the lookup demands the node's own task in the recorded
    subtree set, or the serializer carries the subtree rows. *)
Theorem transferred_current_sound : forall cfg src dst roots d n i c' reg,
  cfg_require_own cfg = true \/ cfg_carry_subtree cfg = true ->
  sync cfg src dst roots = Synced d n -> ~ In i (ids dst) ->
  find d i = Some (ECall c') -> current cfg reg c' = true ->
  exists c, find src i = Some (ECall c) /\ c_task c = c_task c' /\ c_argsh c = c_argsh c'
            /\ c_value c = c_value c' /\ current cfg reg c = true.
Proof.
  intros cfg src dst roots d n i c' reg Hcfg Hs Hn Hf Hcur.
  destruct (sync_unfold _ _ _ _ _ _ Hs) as [l [_ [Hd _]]]. subst d.
  rewrite find_postprocess in Hf.
  destruct (find (dst ++ map deserialize (new_records (ids dst) (get_records cfg src l))) i) as [x|] eqn:E;
    [|discriminate].
  simpl in Hf. inversion Hf as [Hx].
  destruct (find_D_inv cfg src dst l i x E Hn) as [e [_ [He Hxe]]].
  destruct e as [x0|j|c|v|t]; subst x; unfold canon in Hx; simpl in Hx;
    try discriminate; try (destruct (is_parent _ i); discriminate).
  injection Hx as Hc'. subst c'. exists c. split; [exact He|].
  simpl. repeat split.
  destruct (cfg_carry_subtree cfg) eqn:Ecarry.
  - rewrite <- Hcur. symmetry. apply current_sort; reflexivity.
  - destruct Hcfg as [Hown|Hcar]; [|discriminate].
    exfalso. unfold current in Hcur. simpl in Hcur.
    rewrite Hown in Hcur. simpl in Hcur. discriminate.
Qed.

Lemma sync_nodup : forall cfg src dst roots d n,
  NoDup (ids dst) -> sync cfg src dst roots = Synced d n -> NoDup (ids d).
Proof.
  intros cfg src dst roots d n Hnd Hs.
  destruct (sync_unfold _ _ _ _ _ _ Hs) as [l [_ [Hd _]]]. subst d.
  rewrite postprocess_ids. unfold ids. rewrite map_app. apply nodup_app.
  - exact Hnd.
  - apply (new_ids_nodup cfg src dst l).
  - intros x Hx C. apply in_map_iff in C. destruct C as [[k e] [Hk Hin]]. simpl in Hk. subst k.
    destruct (in_new_inv cfg src dst l x e Hin) as [e0 [_ [_ [_ Hnot]]]]. contradiction.
Qed.

Theorem dest_lookup_sound : forall cfg src dst roots d n reg t a i,
  cfg_require_own cfg = true \/ cfg_carry_subtree cfg = true ->
  NoDup (ids dst) -> sync cfg src dst roots = Synced d n ->
  get_call_node cfg d reg t a = Some i -> ~ In i (ids dst) ->
  exists c, find src i = Some (ECall c) /\ c_task c = t /\ c_argsh c = a /\ current cfg reg c = true.
Proof.
  intros cfg src dst roots d n reg t a i Hcfg Hnd Hs Hg Hn.
  destruct (get_call_node_spec _ _ _ _ _ _ Hg) as [c' [Hin [Ht [Ha Hcur]]]].
  pose proof (In_find d i (ECall c') (sync_nodup _ _ _ _ _ _ Hnd Hs) Hin) as Hf.
  destruct (transferred_current_sound _ _ _ _ _ _ _ _ _ Hcfg Hs Hn Hf Hcur) as [c [H1 [H2 [H3 [_ H5]]]]].
  exists c. repeat split; congruence.
Qed.

(** ** a small source repository: one execution, a parent call with two children called in the
       order 12, 11 (the child called first has the larger hash), tags with one edit *)
Definition w_task_main : id := 20%N.
Definition w_task_leaf : id := 21%N.
Definition w_src : repo :=
  [ (1, EExec (mkExec 100 2));
    (2, EJob (mkJob 101 (Some 102) w_task_main false (Some 10) None 1));
    (3, EJob (mkJob 103 (Some 104) w_task_leaf false (Some 12) (Some 2) 1));
    (4, EJob (mkJob 105 (Some 106) w_task_leaf false (Some 11) (Some 2) 1));
    (10, ECall (mkCall 110 w_task_main 40 30 107 [(0%nat, 12); (1%nat, 11)]
                       [mkArg 50 31 (APos 0%nat) []; mkArg 51 32 (AKey 111) [12; 11]] [w_task_leaf; w_task_main]));
    (11, ECall (mkCall 112 w_task_leaf 41 31 108 [] [mkArg 52 31 (APos 0%nat) []] [w_task_leaf]));
    (12, ECall (mkCall 112 w_task_leaf 42 32 109 [] [mkArg 53 32 (APos 0%nat) []] [w_task_leaf]));
    (20, EValue (mkValue 120 121 122 [] (SubTask 123 124 125)));
    (21, EValue (mkValue 120 121 126 [] (SubTask 127 124 128)));
    (30, EValue (mkValue 129 121 130 [32; 31] SubNone));
    (31, EValue (mkValue 131 121 132 [] (SubFile 133)));
    (32, EValue (mkValue 131 121 134 [] SubNone));
    (60, ETag (mkTag 140 1 141 142 [] false));
    (61, ETag (mkTag 140 1 141 143 [60] true)) ]%N.

(** the registry after the leaf task was edited: its old hash 21 is gone *)
Definition w_reg : list id := [w_task_main; 22%N].

Definition synced (cfg : config) (src dst : repo) (roots : list id) : repo :=
  match sync cfg src dst roots with Synced d _ => d | SyncOutOfFuel => [] end.

(** shipped: the destination accepts node 10 for a registry for which the source refuses it *)
Lemma shipped_cache_witness :
  get_call_node shipped w_src w_reg w_task_main 40%N = None
  /\ get_call_node shipped (synced shipped w_src [] [1%N]) w_reg w_task_main 40%N = Some 10%N.
Proof. split; vm_compute; reflexivity. Qed.
Lemma fixed_cache_witness :
  get_call_node fixed (synced fixed w_src [] [1%N]) w_reg w_task_main 40%N = None
  /\ get_call_node fixed w_src [w_task_main; w_task_leaf] w_task_main 40%N = Some 10%N.
Proof. split; vm_compute; reflexivity. Qed.

(** shipped: the children of node 10 arrive in the order 11, 12 *)
Definition children_in_call_order (r : repo) (i : id) : option (list id) :=
  match find r i with
  | Some (ECall c) => Some (map snd (isort edge_leb_call (c_edges c)))
  | _ => None
  end.
Lemma shipped_children_witness :
  children_in_call_order w_src 10%N = Some [12; 11]%N
  /\ children_in_call_order (synced shipped w_src [] [1%N]) 10%N = Some [11; 12]%N.
Proof. split; vm_compute; reflexivity. Qed.
Lemma fixed_children_witness :
  children_in_call_order (synced fixed w_src [] [1%N]) 10%N = Some [12; 11]%N.
Proof. vm_compute. reflexivity. Qed.

(** the witness repository satisfies the premises of the theorems *)
Lemma w_src_nodup : NoDup (ids w_src).
Proof.
  unfold w_src, ids. simpl.
  repeat (constructor; [simpl; intros C; repeat (destruct C as [C|C]; [discriminate|]); exact C|]).
  constructor.
Qed.
