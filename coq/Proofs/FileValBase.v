(** Basic facts for Model/FileVal.v: decidable equalities, the canonical sort of hashes,
    lookups in the association-list filesystem. *)
From Coq Require Import List ZArith Ascii Bool Arith Lia Permutation.
From RV Require Import Base.Decimal Model.Bencode Proofs.BencodeSort Proofs.BencodePy Model.FileVal.
Import ListNotations.
Open Scope list_scope.

(** * Boolean equalities *)
Lemma dpath_eqb_eq a b : dpath_eqb a b = true <-> a = b.
Proof.
  revert b. induction a as [|x a IH]; intros [|y b]; simpl; split; try discriminate; auto.
  - intros [E1 E2]%andb_prop. apply Nat.eqb_eq in E1. apply IH in E2. congruence.
  - intros [= -> ->]. rewrite Nat.eqb_refl. simpl. now apply IH.
Qed.
Lemma dpath_eqb_refl a : dpath_eqb a a = true.
Proof. now apply dpath_eqb_eq. Qed.
Lemma fpath_eqb_eq p q : fpath_eqb p q = true <-> p = q.
Proof.
  destruct p as [d n], q as [e m]. unfold fpath_eqb. simpl. split.
  - intros [E1 E2]%andb_prop. apply dpath_eqb_eq in E1. apply Nat.eqb_eq in E2. congruence.
  - intros [= -> ->]. now rewrite dpath_eqb_refl, Nat.eqb_refl.
Qed.
Lemma fpath_eqb_refl p : fpath_eqb p p = true.
Proof. now apply fpath_eqb_eq. Qed.
Lemma fpath_eqb_neq p q : fpath_eqb p q = false <-> p <> q.
Proof.
  split.
  - intros E ->. now rewrite fpath_eqb_refl in E.
  - intros N. destruct (fpath_eqb p q) eqn:E; auto. now apply fpath_eqb_eq in E.
Qed.
Lemma hash_eqb_eq a b : hash_eqb a b = true <-> a = b.
Proof.
  revert b. induction a as [|x a IH]; intros [|y b]; simpl; split; try discriminate; auto.
  - intros [E1 E2]%andb_prop. apply Ascii.eqb_eq in E1. apply IH in E2. congruence.
  - intros [= -> ->]. rewrite Ascii.eqb_refl. simpl. now apply IH.
Qed.

(** * [sort_bytes] is canonical: it depends only on the multiset *)
Definition ble (a b : bytes) : Prop := bytes_ltb b a = false.

Lemma ltb_tricho a b : bytes_ltb a b = true \/ a = b \/ bytes_ltb b a = true.
Proof.
  destruct (bytes_ltb a b) eqn:E1; auto. destruct (bytes_ltb b a) eqn:E2; auto.
  right. left. now apply ltb_total.
Qed.
Lemma ble_trans a b c : ble a b -> ble b c -> ble a c.
Proof.
  unfold ble. intros H1 H2. destruct (bytes_ltb c a) eqn:E; auto.
  destruct (ltb_tricho a b) as [L|[->|L]]; try congruence.
  generalize (ltb_trans _ _ _ E L). congruence.
Qed.
Lemma ble_antisym a b : ble a b -> ble b a -> a = b.
Proof. unfold ble. intros H1 H2. now apply ltb_total. Qed.

Fixpoint sortedb (l : list bytes) : Prop :=
  match l with
  | [] => True
  | x :: r => Forall (ble x) r /\ sortedb r
  end.

Lemma insert_bytes_perm x l : Permutation (insert_bytes x l) (x :: l).
Proof.
  induction l as [|y l IH]; simpl; auto. destruct (bytes_ltb y x); auto.
  eapply perm_trans; [apply perm_skip, IH|]. apply perm_swap.
Qed.
Lemma sort_bytes_perm l : Permutation (sort_bytes l) l.
Proof.
  induction l as [|x l IH]; simpl; auto. eapply perm_trans; [apply insert_bytes_perm|]. now apply perm_skip.
Qed.
Lemma insert_bytes_sorted x l : sortedb l -> sortedb (insert_bytes x l).
Proof.
  induction l as [|y l IH]; simpl; intros Hs.
  - split; auto.
  - destruct Hs as [Hy Hs]. destruct (bytes_ltb y x) eqn:E; simpl.
    + split; [|now apply IH].
      eapply Permutation_Forall; [apply Permutation_sym, insert_bytes_perm|].
      constructor; auto. unfold ble. now apply ltb_asym.
    + split; [|split; auto]. constructor; [exact E|].
      eapply Forall_impl; [|exact Hy]. intros z Hz. eapply ble_trans; [|exact Hz]. exact E.
Qed.
Lemma sort_bytes_sorted l : sortedb (sort_bytes l).
Proof. induction l as [|x l IH]; simpl; auto. now apply insert_bytes_sorted. Qed.

Lemma sorted_perm_eq : forall l l', sortedb l -> sortedb l' -> Permutation l l' -> l = l'.
Proof.
  induction l as [|x l IH]; intros l' Hs Hs' Hp.
  - apply Permutation_nil in Hp. now subst.
  - destruct l' as [|y l']; [now apply Permutation_sym, Permutation_nil in Hp|].
    destruct Hs as [Hx Hs], Hs' as [Hy Hs'].
    assert (x = y) as ->.
    { assert (In y (x :: l)) as Iy by (eapply Permutation_in; [apply Permutation_sym, Hp|now left]).
      assert (In x (y :: l')) as Ix by (eapply Permutation_in; [apply Hp|now left]).
      destruct Iy as [->|Iy]; auto. destruct Ix as [->|Ix]; auto.
      rewrite Forall_forall in Hx, Hy. apply ble_antisym; auto. }
    f_equal. apply IH; auto. now apply Permutation_cons_inv in Hp.
Qed.
Theorem sort_bytes_canonical l l' : Permutation l l' -> sort_bytes l = sort_bytes l'.
Proof.
  intros Hp. apply sorted_perm_eq; try apply sort_bytes_sorted.
  eapply perm_trans; [apply sort_bytes_perm|]. eapply perm_trans; [exact Hp|]. apply Permutation_sym, sort_bytes_perm.
Qed.

(** * Filesystem lookups *)
Definition wf (fs : fsys) : Prop := NoDup (map fst fs).

Lemma fs_get_in fs p n : fs_get fs p = Some n -> In (p, n) fs.
Proof.
  induction fs as [|[q m] fs IH]; simpl; [discriminate|].
  destruct (fpath_eqb q p) eqn:E.
  - apply fpath_eqb_eq in E. intros [= ->]. subst. now left.
  - intros H. right. auto.
Qed.
Lemma in_fs_get fs p n : wf fs -> In (p, n) fs -> fs_get fs p = Some n.
Proof.
  unfold wf. induction fs as [|[q m] fs IH]; simpl; [tauto|]. intros Hnd [E|Hin].
  - injection E as -> ->. now rewrite fpath_eqb_refl.
  - inversion Hnd as [|? ? Hq Hnd']; subst. destruct (fpath_eqb q p) eqn:E; auto.
    apply fpath_eqb_eq in E. subst. exfalso. apply Hq. change p with (fst (p, n)). now apply in_map.
Qed.
Lemma in_fs_get_some fs p n : In (p, n) fs -> fs_get fs p <> None.
Proof.
  induction fs as [|[q m] fs IH]; simpl; [tauto|]. intros [E|Hin].
  - injection E as -> ->. now rewrite fpath_eqb_refl.
  - destruct (fpath_eqb q p); [discriminate|auto].
Qed.

Lemma fs_set_keys_in fs p n q : In q (map fst (fs_set fs p n)) -> q = p \/ In q (map fst fs).
Proof.
  induction fs as [|[r m] fs IH]; simpl.
  - intros [->|[]]; auto.
  - destruct (fpath_eqb r p) eqn:E; simpl; intros [->|H]; auto. destruct (IH H); auto.
Qed.
Lemma wf_fs_set fs p n : wf fs -> wf (fs_set fs p n).
Proof.
  unfold wf. induction fs as [|[q m] fs IH]; simpl; intros Hnd.
  - constructor; auto; constructor.
  - inversion Hnd as [|? ? Hq Hnd']; subst. destruct (fpath_eqb q p) eqn:E; simpl.
    + constructor; auto.
    + constructor; auto. intros Hin. apply fs_set_keys_in in Hin. destruct Hin as [->|Hin]; auto.
      now rewrite fpath_eqb_refl in E.
Qed.
Lemma wf_filter fs f : wf fs -> wf (filter f fs).
Proof.
  unfold wf. induction fs as [|[q m] fs IH]; simpl; intros Hnd; auto.
  inversion Hnd as [|? ? Hq Hnd']; subst. destruct (f (q, m)); simpl; auto.
  constructor; auto. intros Hin. apply Hq. apply in_map_iff in Hin. destruct Hin as ([q' m'] & <- & Hin).
  apply filter_In in Hin. apply in_map_iff. exists (q', m'). tauto.
Qed.

Lemma fs_get_set_same fs p n : fs_get (fs_set fs p n) p = Some n.
Proof.
  induction fs as [|[q m] fs IH]; simpl.
  - now rewrite fpath_eqb_refl.
  - destruct (fpath_eqb q p) eqn:E; simpl; rewrite E; auto.
Qed.
Lemma fs_get_set_other fs p n q : p <> q -> fs_get (fs_set fs p n) q = fs_get fs q.
Proof.
  intros N. induction fs as [|[r m] fs IH]; simpl.
  - apply fpath_eqb_neq in N. now rewrite N.
  - destruct (fpath_eqb r p) eqn:E; simpl.
    + apply fpath_eqb_eq in E. subst. apply fpath_eqb_neq in N. now rewrite N.
    + destruct (fpath_eqb r q); auto.
Qed.

(** members are exactly the matching entries *)
Lemma members_in fs d r p n : In (p, n) (members fs d r) <-> In (p, n) fs /\ matches d r p = true.
Proof. unfold members. rewrite filter_In. simpl. tauto. Qed.
Lemma members_nil fs d r : (forall p, matches d r p = true -> fs_get fs p = None) -> members fs d r = [].
Proof.
  intros Habs. unfold members. destruct (filter _ fs) as [|[p n] l] eqn:E; auto.
  assert (In (p, n) (filter (fun e => matches d r (fst e)) fs)) as Hin by (rewrite E; now left).
  apply filter_In in Hin. destruct Hin as [Hin Hm]. simpl in Hm.
  exfalso. apply (in_fs_get_some _ _ _ Hin). auto.
Qed.

Lemma all_some_map_some {A B} (f : A -> B) (l : list A) : all_some (map (fun x => Some (f x)) l) = Some (map f l).
Proof. induction l as [|x l IH]; simpl; auto. now rewrite IH. Qed.
Lemma all_some_ext_in {A B} (f g : A -> option B) l : (forall x, In x l -> f x = g x) ->
  all_some (map f l) = all_some (map g l).
Proof.
  induction l as [|x l IH]; simpl; intros Hx; auto. rewrite (Hx x) by auto.
  destruct (g x); auto. rewrite IH; auto.
Qed.
Lemma all_some_total {A B} (f : A -> option B) l : (forall x, In x l -> f x <> None) -> all_some (map f l) <> None.
Proof.
  induction l as [|x l IH]; simpl; intros Hx; [discriminate|].
  destruct (f x) eqn:E; [|exfalso; apply (Hx x); auto].
  destruct (all_some (map f l)) eqn:E2; simpl; [discriminate|]. exfalso. apply IH; auto.
Qed.

Lemma nth_error_set_nth_same {A} (l : list A) i x y : nth_error l i = Some y -> nth_error (set_nth l i x) i = Some x.
Proof. revert i. induction l as [|z l IH]; intros [|i]; simpl; try discriminate; auto. Qed.
Lemma nth_error_set_nth_other {A} (l : list A) i j x : i <> j -> nth_error (set_nth l i x) j = nth_error l j.
Proof.
  revert i j. induction l as [|z l IH]; intros [|i] [|j] N; simpl; auto; try congruence.
Qed.
Lemma set_nth_none {A} (l : list A) j x : nth_error l j = None -> set_nth l j x = l.
Proof.
  revert j. induction l as [|z l IH]; intros [|j]; simpl; try discriminate; auto.
  intros E. now rewrite IH.
Qed.
Lemma nth_error_set_nth_cases {A} (l : list A) i j x y :
  nth_error (set_nth l i x) j = Some y -> (i = j /\ y = x) \/ nth_error l j = Some y.
Proof.
  destruct (Nat.eq_dec i j) as [->|N].
  - destruct (nth_error l j) eqn:E.
    + rewrite (nth_error_set_nth_same _ _ _ _ E). intros [= <-]. auto.
    + rewrite (set_nth_none _ _ _ E). intros E'. congruence.
  - rewrite nth_error_set_nth_other by auto. auto.
Qed.
