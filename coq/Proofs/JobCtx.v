(** C05: results are shared only between calls with the same (task, args, context) key. *)
From Coq Require Import List ZArith Bool Arith Lia.
From RV Require Import Model.JobMachine Proofs.JobBase Proofs.JobOnce Proofs.JobOnce2.
Import ListNotations.
Open Scope list_scope.

(** every recorded call node was recorded by a provenance-recording job with that key *)
Definition RecOK (s : state) : Prop :=
  forall k o, In (k, o) (recorded s) -> exists j x, getj s j = Some x /\ kc x = k /\ jprov x = true.

(** every collapsed job has the key of the job it collapsed into *)
Definition SubsOK (s : state) : Prop :=
  forall t j, In (t, j) (subs s) -> exists xt xj, getj s t = Some xt /\ getj s j = Some xj /\ kc xt = kc xj /\ jprov xt = true.

Definition sframe (s s' : state) : Prop := kframe s s' /\ subs s' = subs s.

Lemma sframe_refl s : sframe s s. Proof. split; [apply kframe_refl|reflexivity]. Qed.
Lemma sframe_trans s1 s2 s3 : sframe s1 s2 -> sframe s2 s3 -> sframe s1 s3.
Proof. intros [A B] [C D]. split; [eapply kframe_trans; eauto|congruence]. Qed.

Lemma kc_of_kv x y : kv x = kv y -> kc x = kc y /\ jprov x = jprov y.
Proof. intros H. apply kv_fields in H. unfold kc. intuition congruence. Qed.

Lemma RecOK_kframe s s' : kframe s s' -> RecOK s -> RecOK s'.
Proof.
  intros F H k o Hin. pose proof (kframe_sym _ _ F) as F'. destruct F as (A & B & C). rewrite C in Hin.
  destruct (H _ _ Hin) as (j & x & Hx & Hk & Hp). destruct (kframe_get _ _ _ _ F' Hx) as (x' & Hx' & E).
  apply kc_of_kv in E. destruct E as [E1 E2]. exists j, x'. repeat split; congruence.
Qed.

Lemma SubsOK_sframe s s' : sframe s s' -> SubsOK s -> SubsOK s'.
Proof.
  intros [F E] H t j Hin. rewrite E in Hin. pose proof (kframe_sym _ _ F) as F'.
  destruct (H _ _ Hin) as (xt & xj & Ht & Hj & Hk & Hp).
  destruct (kframe_get _ _ _ _ F' Ht) as (xt' & Ht' & Et). destruct (kframe_get _ _ _ _ F' Hj) as (xj' & Hj' & Ej).
  apply kc_of_kv in Et. apply kc_of_kv in Ej. exists xt', xj'. repeat split; auto; intuition congruence.
Qed.

Lemma sframe_setj s j x y : getj s j = Some x -> kv y = kv x -> sframe s (setj s j y).
Proof. intros. split; [now apply (kframe_setj s j x)|reflexivity]. Qed.

Lemma sframe_requeue s j : sframe s (requeue s j).
Proof.
  unfold requeue. destruct (getj s j) as [x|] eqn:Hx; [|apply sframe_refl].
  eapply sframe_trans; [apply (sframe_setj s j x (with_phase x PQueued) Hx eq_refl)|repeat split].
Qed.

Lemma sframe_fold {A} (f : state -> A -> state) l :
  (forall s a, sframe s (f s a)) -> forall s, sframe s (fold_left f l s).
Proof.
  intros H. induction l as [|a l IH]; intros s; simpl; [apply sframe_refl|].
  eapply sframe_trans; [apply H|apply IH].
Qed.

Lemma sframe_check_pending c s : sframe s (check_pending_limits c s).
Proof.
  unfold check_pending_limits. destruct (split_ready c s (waiting s) []) as [a b].
  eapply sframe_trans; [|apply sframe_fold; apply sframe_requeue]. repeat split.
Qed.

Lemma sframe_skip c s : sframe s (skip_wakeup c s).
Proof. unfold skip_wakeup. destruct (recheck_on_skip (vr c)); [apply sframe_check_pending|apply sframe_refl]. Qed.

Lemma sframe_maybe_release c s j : sframe s (maybe_release c s j).
Proof.
  unfold maybe_release. destruct (getj s j) as [x|] eqn:Hx; [|apply sframe_refl].
  destruct (if release_if_holds (vr c) then jholds x else negb (jcached x)); [|apply sframe_refl].
  eapply sframe_trans; [|apply sframe_check_pending].
  eapply sframe_trans; [apply (sframe_setj s j x (bump_release x) Hx eq_refl)|repeat split].
Qed.

Section C.
Variable c : config.
Hypothesis Hsafe : pending_owner_safe (vr c) = true.
Local Notation K := (JobOnce.K (ctx_exact (vr c))).

(** settle_one: kv of jobs and subs unchanged; recorded grows by the settling job's own key *)
Lemma settle_one_view s j o :
  map kv (jobs (settle_one c s j o)) = map kv (jobs s) /\ subs (settle_one c s j o) = subs s /\
  (forall e, In e (recorded (settle_one c s j o)) ->
     In e (recorded s) \/ exists x, getj s j = Some x /\ jprov x = true /\ e = (kc x, o)).
Proof.
  unfold settle_one. destruct (getj s j) as [x|] eqn:Hx; [|repeat split; auto].
  set (s1 := if jprov x then add_recorded s (jkey x, jctx x) o else s).
  assert (Hx1 : getj s1 j = Some x) by (unfold s1; destruct (jprov x); exact Hx).
  unfold finalize. rewrite (getj_setj_same _ _ _ _ Hx1). simpl. repeat split.
  - transitivity (map kv (jobs s1)).
    + eapply map_set_nth_same; [exact Hx1|reflexivity].
    + unfold s1. destruct (jprov x); reflexivity.
  - unfold s1. destruct (jprov x); reflexivity.
  - intros e He. unfold s1 in He. destruct (jprov x) eqn:Hp; simpl in He; auto.
    destruct He as [<-|He]; auto. right. exists x. auto.
Qed.

Lemma both_settle_one s j o : RecOK s /\ SubsOK s -> RecOK (settle_one c s j o) /\ SubsOK (settle_one c s j o).
Proof.
  intros [R S]. destruct (settle_one_view s j o) as (A & B & C).
  assert (Hg : forall k z, getj s k = Some z -> exists z', getj (settle_one c s j o) k = Some z' /\ kv z' = kv z).
  { intros k z H. exact (mapkv_get (settle_one c s j o) s k z (eq_sym A) H). }
  split.
  - intros k o' Hin. destruct (C _ Hin) as [Hold|(x & Hx & Hp & E)].
    + destruct (R _ _ Hold) as (j' & x' & Hx' & Hk & Hp'). destruct (Hg _ _ Hx') as (z' & Hz' & E).
      apply kc_of_kv in E. exists j', z'. intuition congruence.
    + injection E as -> ->. destruct (Hg _ _ Hx) as (z' & Hz' & E). apply kc_of_kv in E.
      exists j, z'. intuition congruence.
  - intros t k Hin. rewrite B in Hin. destruct (S _ _ Hin) as (xt & xj & Ht & Hj & Hk & Hp).
    destruct (Hg _ _ Ht) as (xt' & Ht' & Et). destruct (Hg _ _ Hj) as (xj' & Hj' & Ej).
    apply kc_of_kv in Et. apply kc_of_kv in Ej. exists xt', xj'. intuition congruence.
Qed.

Lemma both_sframe s s' : sframe s s' -> RecOK s /\ SubsOK s -> RecOK s' /\ SubsOK s'.
Proof. intros F [R S]. split; [eapply RecOK_kframe; [apply F|exact R]|eapply SubsOK_sframe; eauto]. Qed.

Lemma both_notify o s sub : RecOK s /\ SubsOK s -> RecOK (notify_sub c o s sub) /\ SubsOK (notify_sub c o s sub).
Proof.
  intros H. unfold notify_sub. destruct (getj s sub) as [y|] eqn:Hy; auto. destruct o as [v|e].
  - eapply both_sframe; [|exact H].
    eapply sframe_trans; [apply (sframe_setj s sub y (mark_cached y (Some v) PCacheQ) Hy eq_refl)|repeat split].
  - apply both_settle_one. eapply both_sframe; [|exact H].
    apply (sframe_setj s sub y (mark_cached y None (jphase y)) Hy eq_refl).
Qed.

Lemma both_settle s j o : RecOK s /\ SubsOK s -> RecOK (settle c s j o) /\ SubsOK (settle c s j o).
Proof.
  intros H. unfold settle. destruct (getj s j); auto.
  generalize (both_settle_one s j o H).
  generalize (map snd (filter (fun p : nat * nat => Nat.eqb (fst p) j) (subs (settle_one c s j o)))).
  generalize (settle_one c s j o). intros s0 l. revert s0.
  induction l as [|a l IH]; intros s0 H0; simpl; auto. apply IH. now apply both_notify.
Qed.

Lemma both_exec_job s j co : K s -> RecOK s /\ SubsOK s -> RecOK (exec_job c s j co) /\ SubsOK (exec_job c s j co).
Proof.
  intros Ks H. unfold exec_job. destruct (getj s j) as [x|] eqn:Hx; auto.
  destruct (if jnocse x then None else lookup_pending s (jkey x, jctx x)) as [t|] eqn:Etwin.
  { (* collapse into t: t is registered under this very key *)
    assert (Ht : exists xt, getj s t = Some xt /\ kc xt = kc x /\ jprov xt = true).
    { destruct (jnocse x); [discriminate|]. unfold lookup_pending in Etwin.
      destruct (find (fun p => key_eqb (fst p) (jkey x, jctx x)) (pending s)) as [[k t']|] eqn:Ef; [|discriminate].
      simpl in Etwin. injection Etwin as ->. apply find_some in Ef. destruct Ef as [Hin Hk]. simpl in Hk.
      apply key_eqb_spec in Hk. subst k. destruct (k_pend _ _ Ks _ _ Hin) as (xt & Hxt & Hkc & _ & Hnt).
      exists xt. repeat split; auto. eapply (k_stat _ _ Ks); eauto. }
    destruct Ht as (xt & Hxt & Hkc & Hpt).
    eapply both_sframe; [apply sframe_skip|].
    set (s1 := setj s j (with_phase x (PCollapsed t))).
    assert (F1 : sframe s s1) by (apply (sframe_setj s j x (with_phase x (PCollapsed t)) Hx eq_refl)).
    destruct (both_sframe _ _ F1 H) as [R1 S1]. split.
    - eapply RecOK_kframe; [|exact R1]. repeat split.
    - intros t' j' Hin. simpl in Hin. apply in_app_or in Hin. destruct Hin as [Hin|[[= <- <-]|[]]].
      + apply S1. exact Hin.
      + destruct (Nat.eq_dec j t) as [->|Hne].
        * exists (with_phase x (PCollapsed t)), (with_phase x (PCollapsed t)).
          change (getj (add_sub s1 t t) t) with (getj s1 t). unfold s1. rewrite (getj_setj_same _ _ _ _ Hx).
          repeat split; auto. simpl. rewrite Hx in Hxt. injection Hxt as <-. exact Hpt.
        * exists xt, (with_phase x (PCollapsed t)). change (getj (add_sub s1 t j)) with (getj s1). unfold s1.
          rewrite getj_setj_other by assumption. rewrite (getj_setj_same _ _ _ _ Hx). repeat split; auto. }
  match goal with |- RecOK (match ?h with _ => _ end) /\ _ => destruct h as [[v|e]|] end.
  - eapply both_sframe; [|exact H]. eapply sframe_trans; [|apply sframe_skip].
    eapply sframe_trans; [apply (sframe_setj s j x (mark_cached x v PCacheQ) Hx eq_refl)|repeat split].
  - eapply both_sframe; [|exact H]. eapply sframe_trans; [|apply sframe_skip].
    eapply sframe_trans; [apply (sframe_setj s j x (mark_cached x None PCacheQ) Hx eq_refl)|repeat split].
  - destruct (dryrun c).
    + destruct (jbadexec x).
      * eapply both_sframe; [|exact H].
        eapply sframe_trans; [apply (sframe_setj s j x (with_phase x PReported) Hx eq_refl)|repeat split].
      * eapply both_sframe; [|exact H]. apply (sframe_setj s j x (with_phase x PDryStop) Hx eq_refl).
    + destruct (negb (within c (used s) (jlimits x))).
      * eapply both_sframe; [|exact H].
        eapply sframe_trans; [apply (sframe_setj s j x (with_phase x PWaiting) Hx eq_refl)|repeat split].
      * destruct (jbadexec x).
        -- eapply both_sframe; [|exact H]. eapply sframe_trans; [|repeat split].
           apply (sframe_setj (set_used s (consume (used s) (jlimits x))) j x (mark_holds x PReported) Hx eq_refl).
        -- (* submitted: kc of jobs, recorded and subs unchanged *)
           destruct H as [R S].
           set (s2 := setj (set_used s (consume (used s) (jlimits x))) j (mark_submitted (mark_holds x PSubmitted))).
           assert (Hg : forall k z, getj s k = Some z -> exists z', getj s2 k = Some z' /\ kc z' = kc z /\ jprov z' = jprov z).
           { intros k z Hz. destruct (Nat.eq_dec j k) as [->|Hne].
             - rewrite Hx in Hz. injection Hz as <-. eexists. split; [apply (getj_setj_same _ _ _ _ Hx)|]. auto.
             - exists z. unfold s2. rewrite getj_setj_other by assumption. auto. }
           split.
           ++ intros k o Hin. destruct (R k o Hin) as (j' & x' & Hx' & Hk & Hp).
              destruct (Hg _ _ Hx') as (z' & Hz' & E1 & E2). exists j', z'. repeat split; auto; congruence.
           ++ intros t' j' Hin. destruct (S t' j' Hin) as (xt & xj & Ht & Hj & Hk & Hp).
              destruct (Hg _ _ Ht) as (xt' & Ht' & Et & Ept). destruct (Hg _ _ Hj) as (xj' & Hj' & Ej & _).
              exists xt', xj'. repeat split; auto; congruence.
Qed.

Lemma both_step s o : K s -> RecOK s /\ SubsOK s -> RecOK (step c s o) /\ SubsOK (step c s o).
Proof.
  intros Ks H. destruct o as [key ctx l nocse prov bad|k j0 co|j ok e|j o].
  - cbn [step]. set (nj := new_job key ctx l nocse prov bad). destruct H as [R S].
    assert (Hg' : forall k z, getj s k = Some z -> nth_error (jobs s ++ [nj]) k = Some z).
    { intros k z Hz. unfold getj in Hz. rewrite nth_error_app1; auto. apply nth_error_Some. congruence. }
    split.
    + intros k o Hin. destruct (R k o Hin) as (j & x & Hx & Hk & Hp). exists j, x. split; auto. apply Hg'. exact Hx.
    + intros t j Hin. destruct (S t j Hin) as (xt & xj & Ht & Hj & Hk & Hp). exists xt, xj.
      repeat split; auto; apply Hg'; assumption.
  - cbn [step]. destruct (nth_error (queue s) _) as [[j|j|j e|j v]|]; auto.
    + apply both_exec_job.
      * eapply K_kframe; [|exact Ks]. repeat split.
      * eapply both_sframe; [|exact H]. repeat split.
    + unfold done_job. set (s1 := maybe_release c (pop_queue s _) j).
      assert (H1 : RecOK s1 /\ SubsOK s1).
      { eapply both_sframe; [|exact H]. eapply sframe_trans; [|apply sframe_maybe_release]. repeat split. }
      destruct (getj s1 j) as [x|] eqn:Hx; auto. destruct (jpreset x).
      * eapply both_sframe; [|exact H1].
        eapply sframe_trans; [apply (sframe_setj s1 j x (with_phase x PEvalQ) Hx eq_refl)|repeat split].
      * eapply both_sframe; [|exact H1]. apply (sframe_setj s1 j x (with_phase x PEvaluating) Hx eq_refl).
    + unfold reject_job. apply both_settle. eapply both_sframe; [|exact H].
      eapply sframe_trans; [|apply sframe_maybe_release]. repeat split.
    + unfold resolve_job. apply both_settle. eapply both_sframe; [|exact H]. repeat split.
  - cbn [step]. destruct (phase_is s j _); auto. destruct (getj s j) as [x|] eqn:Hx; auto.
    eapply both_sframe; [|exact H].
    eapply sframe_trans; [apply (sframe_setj s j x (with_phase x PReported) Hx eq_refl)|repeat split].
  - cbn [step]. destruct (phase_is s j _); auto. destruct (getj s j) as [x|] eqn:Hx; auto.
    eapply both_sframe; [|exact H].
    eapply sframe_trans; [apply (sframe_setj s j x (with_phase x PEvalQ) Hx eq_refl)|repeat split].
Qed.

Theorem both_run ops : RecOK (run c ops) /\ SubsOK (run c ops).
Proof.
  enough (K (run c ops) /\ (RecOK (run c ops) /\ SubsOK (run c ops))) by tauto.
  unfold run. rewrite <- fold_left_rev_right. induction (rev ops) as [|o l [IK IH]]; simpl.
  - split; [apply K_init|]. split; intros ? ? [].
  - split; [now apply K_step|now apply both_step].
Qed.

Lemma cse_lookup_strict s key ctx o :
  ctx_strict (vr c) = true -> cse_lookup c s key ctx = Some o -> In ((key, ctx), o) (recorded s).
Proof.
  intros Hs. unfold cse_lookup. rewrite Hs.
  destruct (find _ (recorded s)) as [[[k1 k2] o']|] eqn:E; [|discriminate].
  simpl. intros [= ->]. apply find_some in E. destruct E as [Hin Hk]. simpl in Hk.
  apply andb_true_iff in Hk. destruct Hk as [A B]. apply Nat.eqb_eq in A. apply Nat.eqb_eq in B. subst. exact Hin.
Qed.
End C.
