(** C24: basic facts about the table primitives of Model/Tags.v. *)
From Coq Require Import List Arith Bool PeanoNat Lia.
From RV Require Import Model.Tags.
Import ListNotations.
Open Scope list_scope.

(* ------------------------------------------------------------------ equality tests *)
Lemma jval_eqb_eq a b : jval_eqb a b = true <-> a = b.
Proof.
  destruct a, b; simpl; split; intros H; try discriminate; try reflexivity.
  - apply Nat.eqb_eq in H. now subst.
  - injection H as ->. apply Nat.eqb_refl.
Qed.

Lemma content_eqb_eq a b : content_eqb a b = true <-> a = b.
Proof.
  destruct a, b; simpl; split; intros H; try discriminate; try reflexivity.
  - apply andb_true_iff in H. destruct H as [H H3]. apply andb_true_iff in H. destruct H as [H1 H2].
    apply Nat.eqb_eq in H1. apply Nat.eqb_eq in H2. apply jval_eqb_eq in H3. now subst.
  - injection H as -> -> ->. rewrite !Nat.eqb_refl. simpl. now apply jval_eqb_eq.
Qed.

Lemma content_eqb_refl c : content_eqb c c = true.
Proof. now apply content_eqb_eq. Qed.

Lemma list_eqb_eq l l' : list_eqb l l' = true <-> l = l'.
Proof.
  revert l'. induction l as [|a l IH]; intros [|b l']; simpl; split; intros H; try discriminate; try reflexivity.
  - apply andb_true_iff in H. destruct H as [H1 H2]. apply Nat.eqb_eq in H1. apply IH in H2. now subst.
  - injection H as -> ->. rewrite Nat.eqb_refl. simpl. now apply IH.
Qed.

Lemma mem_In n l : mem n l = true <-> In n l.
Proof.
  unfold mem. rewrite existsb_exists. split.
  - intros [x [H1 H2]]. apply Nat.eqb_eq in H2. now subst.
  - intros H. exists n. split; [assumption|apply Nat.eqb_refl].
Qed.

Lemma mem_false n l : mem n l = false <-> ~ In n l.
Proof.
  rewrite <- mem_In. destruct (mem n l); split; intros H; try discriminate; try reflexivity.
  now elim H.
Qed.

Lemma edit_eqb_eq a b : edit_eqb a b = true <-> a = b.
Proof.
  destruct a, b. unfold edit_eqb. simpl. rewrite andb_true_iff, !Nat.eqb_eq. split.
  - intros [-> ->]. reflexivity.
  - intros [= -> ->]. auto.
Qed.

Lemma mem_edit_In a l : mem_edit a l = true <-> In a l.
Proof.
  unfold mem_edit. rewrite existsb_exists. split.
  - intros [x [H1 H2]]. apply edit_eqb_eq in H2. now subst.
  - intros H. exists a. split; [assumption|now apply edit_eqb_eq].
Qed.

Lemma memc_In c l : memc c l = true <-> In c l.
Proof.
  unfold memc. rewrite existsb_exists. split.
  - intros [x [H1 H2]]. apply content_eqb_eq in H2. now subst.
  - intros H. exists c. split; [assumption|apply content_eqb_refl].
Qed.

Lemma row_is_spec c ps r : row_is c ps r = true <-> r_c r = c /\ r_par r = ps.
Proof. unfold row_is. now rewrite andb_true_iff, content_eqb_eq, list_eqb_eq. Qed.

(* ------------------------------------------------------------------ has_dup / NoDup *)
Lemma has_dup_false_NoDup {A} (eqb : A -> A -> bool) (l : list A) :
  (forall a b, eqb a b = true <-> a = b) -> (has_dup eqb l = false <-> NoDup l).
Proof.
  intros Heq. induction l as [|a l IH]; simpl.
  - split; [constructor|reflexivity].
  - rewrite orb_false_iff, IH. split.
    + intros [H1 H2]. constructor; [|assumption]. intros Hin.
      assert (existsb (eqb a) l = true) as E; [|congruence].
      apply existsb_exists. exists a. split; [assumption|now apply Heq].
    + intros H. inversion H as [|? ? Hn Hd]; subst. split; [|assumption].
      destruct (existsb (eqb a) l) eqn:E; [|reflexivity]. apply existsb_exists in E.
      destruct E as [x [Hx Hx']]. apply Heq in Hx'. subst. contradiction.
Qed.

Lemma NoDup_filter {A} (p : A -> bool) l : NoDup l -> NoDup (filter p l).
Proof.
  induction 1 as [|a l Hn Hd IH]; simpl; [constructor|].
  destruct (p a); [|assumption]. constructor; [|assumption]. rewrite filter_In. tauto.
Qed.

Lemma nodupc_acc_spec seen l :
  NoDup (nodupc_acc seen l) /\ (forall c, In c (nodupc_acc seen l) <-> In c l /\ ~ In c seen).
Proof.
  revert seen. induction l as [|c l IH]; intros seen; simpl.
  - split; [constructor|]. intros c. tauto.
  - destruct (memc c seen) eqn:E.
    + apply memc_In in E. destruct (IH seen) as [H1 H2]. split; [assumption|].
      intros d. rewrite H2. split; [tauto|]. intros [[<-|H] Hn]; [contradiction|tauto].
    + assert (~ In c seen) as Hc. { intros H. apply memc_In in H. congruence. }
      destruct (IH (c :: seen)) as [H1 H2]. split.
      * constructor; [|assumption]. rewrite H2. simpl. tauto.
      * intros d. simpl. rewrite H2. simpl. split.
        -- intros [<-|[H3 H4]]; [tauto|]. split; [tauto|]. tauto.
        -- intros [[<-|H3] H4]; [tauto|]. destruct (content_eqb c d) eqn:Ecd.
           ++ apply content_eqb_eq in Ecd. now left.
           ++ right. split; [assumption|]. intros [<-|H5]; [|tauto].
              rewrite content_eqb_refl in Ecd. discriminate.
Qed.

(* ------------------------------------------------------------------ table primitives *)
Lemma find_from_Some i c ps l j :
  find_from i c ps l = Some j ->
  exists n r, j = i + n /\ nth_error l n = Some r /\ r_c r = c /\ r_par r = ps.
Proof.
  revert i. induction l as [|r l IH]; intros i; simpl; [discriminate|].
  destruct (row_is c ps r) eqn:E.
  - intros [= <-]. apply row_is_spec in E. exists 0, r. rewrite Nat.add_0_r. simpl. tauto.
  - intros H. apply IH in H. destruct H as [n [r' [-> [H1 H2]]]]. exists (S n), r'. simpl. split; [lia|tauto].
Qed.

Lemma find_from_None i c ps l :
  find_from i c ps l = None <-> (forall r, In r l -> ~ (r_c r = c /\ r_par r = ps)).
Proof.
  revert i. induction l as [|r l IH]; intros i; simpl.
  - split; [intros _ r []|reflexivity].
  - destruct (row_is c ps r) eqn:E.
    + split; [discriminate|]. intros H. apply row_is_spec in E. exfalso. apply (H r); tauto.
    + rewrite IH. split.
      * intros H r' [<-|Hr]; [|now apply H]. intros X. apply row_is_spec in X. congruence.
      * intros H r' Hr. apply H. now right.
Qed.

Lemma find_from_app i c ps l l' :
  find_from i c ps (l ++ l') =
  match find_from i c ps l with Some j => Some j | None => find_from (i + length l) c ps l' end.
Proof.
  revert i. induction l as [|r l IH]; intros i; simpl.
  - now rewrite Nat.add_0_r.
  - destruct (row_is c ps r); [reflexivity|]. rewrite IH. now rewrite Nat.add_succ_r.
Qed.

Lemma find_from_lt i c ps l j : find_from i c ps l = Some j -> i <= j < i + length l.
Proof.
  intros H. apply find_from_Some in H. destruct H as [n [r [-> [H _]]]].
  assert (n < length l) by (apply nth_error_Some; congruence). lia.
Qed.

Lemma ids_from_spec i p l j :
  In j (ids_from i p l) <-> exists n r, j = i + n /\ nth_error l n = Some r /\ p r = true.
Proof.
  revert i. induction l as [|r l IH]; intros i; simpl.
  - split; [intros []|]. intros [n [r [_ [H _]]]]. destruct n; discriminate.
  - destruct (p r) eqn:E; simpl; rewrite IH; split.
    + intros [<-|[n [r' [-> [H1 H2]]]]].
      * exists 0, r. rewrite Nat.add_0_r. simpl. tauto.
      * exists (S n), r'. simpl. split; [lia|tauto].
    + intros [[|n] [r' [-> [H1 H2]]]]; simpl in H1.
      * left. lia.
      * right. exists n, r'. split; [lia|tauto].
    + intros [n [r' [-> [H1 H2]]]]. exists (S n), r'. simpl. split; [lia|tauto].
    + intros [[|n] [r' [-> [H1 H2]]]]; simpl in H1.
      * injection H1 as <-. congruence.
      * exists n, r'. split; [lia|tauto].
Qed.

Lemma ids_from_ge i p l j : In j (ids_from i p l) -> i <= j < i + length l.
Proof.
  intros H. apply ids_from_spec in H. destruct H as [n [r [-> [H _]]]].
  assert (n < length l) by (apply nth_error_Some; congruence). lia.
Qed.

Lemma ids_from_NoDup i p l : NoDup (ids_from i p l).
Proof.
  revert i. induction l as [|r l IH]; intros i; simpl; [constructor|].
  destruct (p r); [|apply IH]. constructor; [|apply IH].
  intros H. apply ids_from_ge in H. lia.
Qed.

Lemma inval_from_length i ps l : length (inval_from i ps l) = length l.
Proof. revert i. induction l; intros i; simpl; [reflexivity|now rewrite IHl]. Qed.

Lemma inval_from_nth i ps l n :
  nth_error (inval_from i ps l) n =
  option_map (fun r => if mem (i + n) ps then mkRow (r_c r) (r_par r) false else r) (nth_error l n).
Proof.
  revert i n. induction l as [|r l IH]; intros i [|n]; simpl; try reflexivity.
  - now rewrite Nat.add_0_r.
  - rewrite IH. now rewrite Nat.add_succ_r.
Qed.
