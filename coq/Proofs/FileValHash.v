(** C30: hashes of file values track the filesystem (proofs about Model/FileVal.v). *)
From Coq Require Import List ZArith Ascii Bool Arith Lia Permutation.
From RV Require Import Base.Decimal Base.DecimalFacts Model.Bencode Proofs.BencodeFacts Proofs.BencodeSort
  Proofs.BencodePy Model.FileVal Proofs.FileValBase.
Import ListNotations.
Open Scope list_scope.

Section Hash.
  Variable H : bytes -> hash.

  (** * 1. After write / append / copy / stage the hash is fresh *)
  Definition refreshed (o : op) : option nat :=
    match o with
    | OWrite i _ _ | OAppend i _ _ | OMkdir i | ORmdir i => Some i
    | OCopyFile _ j _ | OCopyDir _ j _ => Some j
    | OStageFile l _ _ | OStageDir l _ _ => Some l
    | OUnstageFile _ r _ | OUnstageDir _ r _ => Some r
    | _ => None
    end.
  Definition is_dir_copy (o : op) : bool :=
    match o with OCopyDir _ _ _ | OStageDir _ _ _ | OUnstageDir _ _ _ => true | _ => false end.
  (** staging between two values with the same path copies nothing ("No staging is needed") *)
  Definition stage_noop (st : state) (o : op) : bool :=
    match o with
    | OStageFile l r _ | OUnstageFile l r _ | OStageDir l r _ | OUnstageDir l r _ =>
        match nth_error (s_objs st) l, nth_error (s_objs st) r with
        | Some a, Some b => target_eqb (vtarget a) (vtarget b)
        | _, _ => false
        end
    | _ => false
    end.

  Lemma do_update_fresh v st fs i ob r st' r' :
    nth_error (s_objs st) i = Some ob -> do_update H v st fs i ob r = ROk st' r' ->
    observed_hash H v st' i = fresh_hash H v st' i.
  Proof.
    intros Hn. unfold do_update. destruct (calc_hash H v fs ob) as [h|] eqn:E; [|discriminate].
    intros [= <- <-]. unfold observed_hash, fresh_hash, set_hash. simpl.
    rewrite (nth_error_set_nth_same _ _ _ _ Hn). simpl. unfold calc_hash in *. simpl. now rewrite E.
  Qed.

  Lemma copy_file_fresh v st i j t st' r :
    copy_file H v st i j t = ROk st' r -> observed_hash H v st' j = fresh_hash H v st' j.
  Proof.
    unfold copy_file. destruct (nth_error (s_objs st) i) as [src|]; [|discriminate].
    destruct (nth_error (s_objs st) j) as [dst|] eqn:Ej; [|discriminate].
    destruct (vtarget src); try discriminate. destruct (vtarget dst); try discriminate.
    destruct (fs_get (s_fs st) p); [|discriminate]. destruct (fpath_eqb p p0); [discriminate|].
    now apply do_update_fresh.
  Qed.
  Lemma copy_dir_fresh v st i j mts st' r : dir_copy_updates v = true ->
    copy_dir H v st i j mts = ROk st' r -> observed_hash H v st' j = fresh_hash H v st' j.
  Proof.
    intros Hv. unfold copy_dir. destruct (nth_error (s_objs st) i) as [src|]; [|discriminate].
    destruct (nth_error (s_objs st) j) as [dst|] eqn:Ej; [|discriminate].
    destruct (vtarget src); try discriminate. destruct (vtarget dst); try discriminate.
    destruct (is_prefix d d0 || is_prefix d0 d); [discriminate|]. rewrite Hv.
    now apply do_update_fresh.
  Qed.
  Lemma stage_gen_copy copy st a b ret st' r :
    match nth_error (s_objs st) a, nth_error (s_objs st) b with
    | Some x, Some y => target_eqb (vtarget x) (vtarget y)
    | _, _ => false
    end = false ->
    stage_gen copy st a b ret = ROk st' r -> copy a b = ROk st' r.
  Proof.
    unfold stage_gen. destruct (nth_error (s_objs st) a); [|discriminate].
    destruct (nth_error (s_objs st) b); [|discriminate]. now intros ->.
  Qed.
  Lemma target_eqb_sym a b : target_eqb a b = target_eqb b a.
  Proof.
    destruct a, b; simpl; auto.
    - destruct (fpath_eqb p p0) eqn:E.
      + apply fpath_eqb_eq in E. subst. now rewrite fpath_eqb_refl.
      + symmetry. apply fpath_eqb_neq. apply fpath_eqb_neq in E. congruence.
    - destruct (dpath_eqb d d0) eqn:E.
      + apply dpath_eqb_eq in E. subst. now rewrite dpath_eqb_refl.
      + destruct (dpath_eqb d0 d) eqn:E'; auto. apply dpath_eqb_eq in E'. subst.
        now rewrite dpath_eqb_refl in E.
  Qed.

  Theorem fresh_after v st o st' r i :
    dir_copy_updates v = true \/ is_dir_copy o = false ->
    stage_noop st o = false -> refreshed o = Some i ->
    step H v st o = ROk st' r -> observed_hash H v st' i = fresh_hash H v st' i.
  Proof.
    intros Hv Hn Hr. destruct o; simpl in Hr; try discriminate; injection Hr as <-; simpl in Hn |- *.
    - (* write *) destruct (nth_error (s_objs st) i0) as [ob|] eqn:E; [|discriminate].
      destruct (vtarget ob); try discriminate. now apply do_update_fresh.
    - destruct (nth_error (s_objs st) i0) as [ob|] eqn:E; [|discriminate].
      destruct (vtarget ob); try discriminate. now apply do_update_fresh.
    - apply copy_file_fresh.
    - destruct Hv as [Hv|Hv]; [|discriminate]. now apply copy_dir_fresh.
    - intros Hs. apply stage_gen_copy in Hs.
      + now apply copy_file_fresh in Hs.
      + destruct (nth_error (s_objs st) r0), (nth_error (s_objs st) l); auto.
        now rewrite target_eqb_sym.
    - intros Hs. apply stage_gen_copy in Hs; auto. now apply copy_file_fresh in Hs.
    - destruct Hv as [Hv|Hv]; [|discriminate]. intros Hs. apply stage_gen_copy in Hs.
      + now apply copy_dir_fresh in Hs.
      + destruct (nth_error (s_objs st) r0), (nth_error (s_objs st) l); auto.
        now rewrite target_eqb_sym.
    - destruct Hv as [Hv|Hv]; [|discriminate]. intros Hs. apply stage_gen_copy in Hs; auto.
      now apply copy_dir_fresh in Hs.
    - destruct (nth_error (s_objs st) i0) as [ob|] eqn:E; [|discriminate].
      destruct (vtarget ob); try discriminate. now apply do_update_fresh.
    - destruct (nth_error (s_objs st) i0) as [ob|] eqn:E; [|discriminate].
      destruct (vtarget ob); try discriminate. now apply do_update_fresh.
  Qed.

  (** reading [hash] of a value that has none yet computes it from the current filesystem *)
  Theorem first_hash_fresh v st i ob st' h :
    nth_error (s_objs st) i = Some ob -> vhash ob = None ->
    step H v st (OHash i) = ROk st' (RHash h) -> calc_hash H v (s_fs st) ob = Some h /\ s_fs st' = s_fs st.
  Proof.
    intros Hn Hh. simpl. rewrite Hn, Hh. destruct (calc_hash H v (s_fs st) ob); [|discriminate].
    intros [= <- <-]. auto.
  Qed.

  (** * 2. Valid exactly when the recorded hash equals the current one *)
  Definition prov v (ob : vobj) : Prop := vhash ob = None \/ exists fs, calc_hash H v fs ob = vhash ob.
  Definition inv v (st : state) : Prop := forall i ob, nth_error (s_objs st) i = Some ob -> prov v ob.

  Inductive objs_step v (objs objs' : list vobj) : Prop :=
  | os_same : objs' = objs -> objs_step v objs objs'
  | os_new f t : objs' = objs ++ [mkV f t None] -> objs_step v objs objs'
  | os_set i ob h fs : nth_error objs i = Some ob -> calc_hash H v fs ob = Some h ->
                       objs' = set_nth objs i (with_hash ob h) -> objs_step v objs objs'.

  Lemma do_update_objs v st fs i ob r : nth_error (s_objs st) i = Some ob ->
    objs_step v (s_objs st) (s_objs (res_state st (do_update H v st fs i ob r))).
  Proof.
    intros Hn. unfold do_update. destruct (calc_hash H v fs ob) as [h|] eqn:E; simpl.
    - eapply os_set; eauto.
    - now apply os_same.
  Qed.
  Lemma copy_file_objs v st i j t : objs_step v (s_objs st) (s_objs (res_state st (copy_file H v st i j t))).
  Proof.
    unfold copy_file. destruct (nth_error (s_objs st) i) as [src|]; [|now apply os_same].
    destruct (nth_error (s_objs st) j) as [dst|] eqn:Ej; [|now apply os_same].
    destruct (vtarget src); try now apply os_same. destruct (vtarget dst); try now apply os_same.
    destruct (fs_get (s_fs st) p); [|now apply os_same]. destruct (fpath_eqb p p0); [now apply os_same|].
    now apply do_update_objs.
  Qed.
  Lemma copy_dir_objs v st i j mts : objs_step v (s_objs st) (s_objs (res_state st (copy_dir H v st i j mts))).
  Proof.
    unfold copy_dir. destruct (nth_error (s_objs st) i) as [src|]; [|now apply os_same].
    destruct (nth_error (s_objs st) j) as [dst|] eqn:Ej; [|now apply os_same].
    destruct (vtarget src); try now apply os_same. destruct (vtarget dst); try now apply os_same.
    destruct (is_prefix d d0 || is_prefix d0 d); [now apply os_same|].
    destruct (dir_copy_updates v); [now apply do_update_objs|now apply os_same].
  Qed.
  Lemma stage_gen_objs v copy st a b ret :
    (forall x y, objs_step v (s_objs st) (s_objs (res_state st (copy x y)))) ->
    objs_step v (s_objs st) (s_objs (res_state st (stage_gen copy st a b ret))).
  Proof.
    intros Hc. unfold stage_gen. destruct (nth_error (s_objs st) a); [|now apply os_same].
    destruct (nth_error (s_objs st) b); [|now apply os_same].
    destruct (target_eqb _ _); [now apply os_same|apply Hc].
  Qed.

  Lemma step_objs v st o : objs_step v (s_objs st) (s_objs (res_state st (step H v st o))).
  Proof.
    destruct o; simpl;
      try (destruct (nth_error (s_objs st) i) as [ob|] eqn:E; [|now apply os_same]);
      try (now apply os_same).
    - eapply os_new. reflexivity.
    - destruct (vhash ob); [now apply os_same|]. destruct (calc_hash H v (s_fs st) ob) eqn:Ec; simpl.
      + eapply os_set; eauto.
      + now apply os_same.
    - now apply do_update_objs.
    - unfold obj_is_valid. destruct (always_valid ob); simpl.
      + apply os_same. simpl. clear -E. revert i E. induction (s_objs st) as [|z l IH]; intros [|i]; simpl; try discriminate.
        * now intros [= ->].
        * intros E. now rewrite IH.
      + destruct (vhash ob) eqn:Eh; destruct (calc_hash H v (s_fs st) ob) eqn:Ec; simpl; try now apply os_same.
        * destruct (hash_eqb h h0); simpl; [|now apply os_same]. apply os_same.
          clear -E. revert i E. induction (s_objs st) as [|z l IH]; intros [|i]; simpl; try discriminate.
          -- now intros [= ->].
          -- intros E. now rewrite IH.
        * eapply os_set; eauto.
    - destruct (vtarget ob); try now apply os_same. now apply do_update_objs.
    - destruct (vtarget ob); try now apply os_same. now apply do_update_objs.
    - destruct (vtarget ob); now apply os_same.
    - destruct (vtarget ob); now apply os_same.
    - apply copy_file_objs.
    - apply copy_dir_objs.
    - apply stage_gen_objs. intros. apply copy_file_objs.
    - apply stage_gen_objs. intros. apply copy_file_objs.
    - apply stage_gen_objs. intros. apply copy_dir_objs.
    - apply stage_gen_objs. intros. apply copy_dir_objs.
    - destruct (vtarget ob); try now apply os_same. now apply do_update_objs.
    - destruct (vtarget ob); try now apply os_same. now apply do_update_objs.
  Qed.

  Lemma objs_step_inv v objs objs' : objs_step v objs objs' ->
    (forall i ob, nth_error objs i = Some ob -> prov v ob) ->
    (forall i ob, nth_error objs' i = Some ob -> prov v ob).
  Proof.
    intros [->|f t ->|j ob0 h fs Hj Hc ->] Hinv i ob Hn; eauto.
    - destruct (Nat.lt_ge_cases i (length objs)) as [L|G].
      + rewrite nth_error_app1 in Hn by auto. eauto.
      + rewrite nth_error_app2 in Hn by auto. destruct (i - length objs) as [|[|k]]; simpl in Hn; try discriminate.
        injection Hn as <-. now left.
    - apply nth_error_set_nth_cases in Hn. destruct Hn as [[-> ->]|Hn]; eauto.
      right. exists fs. unfold calc_hash in *. simpl. exact Hc.
  Qed.
  Lemma step_inv v st o : inv v st -> inv v (res_state st (step H v st o)).
  Proof. intros Hi. unfold inv. eapply objs_step_inv; [apply step_objs|exact Hi]. Qed.
  Lemma reachable_inv v st : reachable H v st -> inv v st.
  Proof.
    induction 1 as [fs|st o Hr IH Hne].
    - intros [|i] ob; discriminate.
    - now apply step_inv.
  Qed.

  Lemma calc_always_valid v fs fs' ob : always_valid ob = true -> calc_hash H v fs ob = calc_hash H v fs' ob.
  Proof. unfold always_valid, calc_hash. destruct (vfam ob), (vtarget ob); try discriminate; reflexivity. Qed.

  Theorem valid_iff v st i ob r st' b :
    reachable H v st -> nth_error (s_objs st) i = Some ob -> vhash ob = Some r ->
    step H v st (OIsValid i) = ROk st' (RBool b) ->
    (b = true <-> calc_hash H v (s_fs st) ob = Some r).
  Proof.
    intros Hr Hn Hh. simpl. rewrite Hn. unfold obj_is_valid. destruct (always_valid ob) eqn:Ea.
    - intros [= <- <-]. split; auto. intros _.
      destruct (reachable_inv _ _ Hr _ _ Hn) as [E|[fs0 E]]; [congruence|].
      rewrite (calc_always_valid v _ fs0) by auto. congruence.
    - rewrite Hh. destruct (calc_hash H v (s_fs st) ob) as [h|]; [|discriminate].
      destruct (hash_eqb r h) eqn:E; intros [= <- <-].
      + apply hash_eqb_eq in E. subst. tauto.
      + split; [discriminate|]. intros [= ->]. assert (hash_eqb r r = true) by now apply hash_eqb_eq. congruence.
  Qed.
  (** a value without recorded hash records the current one and is valid *)
  Theorem valid_unrecorded v st i ob st' b :
    nth_error (s_objs st) i = Some ob -> vhash ob = None ->
    step H v st (OIsValid i) = ROk st' (RBool b) -> b = true.
  Proof.
    intros Hn Hh. simpl. rewrite Hn. unfold obj_is_valid. destruct (always_valid ob).
    - now intros [= <- <-].
    - rewrite Hh. destruct (calc_hash H v (s_fs st) ob); [|discriminate]. now intros [= <- <-].
  Qed.

  (** * 3. Content-hashed values depend on bytes only *)
  Definition in_scope (t : target) (p : fpath) : bool :=
    match t with
    | TFile q => fpath_eqb q p
    | TSet d r => matches d r p
    | TDir d => matches d true p
    end.
  Definition same_bytes (fs fs' : fsys) (p : fpath) : Prop :=
    option_map content (fs_get fs p) = option_map content (fs_get fs' p).

  Lemma content_file v fs fs' p : same_bytes fs fs' p -> hash_file H v FContent fs p = hash_file H v FContent fs' p.
  Proof.
    unfold same_bytes, hash_file. destruct (fs_get fs p) as [n|], (fs_get fs' p) as [n'|]; simpl; try discriminate; auto.
    now intros [= ->].
  Qed.

  Definition pc (e : fpath * fnode) : fpath * bytes := (fst e, content (snd e)).
  Definition chash (x : fpath * bytes) : hash :=
    hash_struct H [BStr (bn_file FContent); BStr (render_f (fst x)); BStr (H (snd x))].

  Lemma member_hashes v fs d r : wf fs ->
    all_some (map (fun e => hash_file H v FContent fs (fst e)) (members fs d r)) = Some (map chash (map pc (members fs d r))).
  Proof.
    intros Hw. rewrite map_map. rewrite <- all_some_map_some. apply all_some_ext_in.
    intros [p n] Hin. apply members_in in Hin. destruct Hin as [Hin _]. simpl.
    unfold hash_file. now rewrite (in_fs_get _ _ _ Hw Hin).
  Qed.

  Lemma members_pc_perm fs fs' d r : wf fs -> wf fs' ->
    (forall p, matches d r p = true -> same_bytes fs fs' p) ->
    Permutation (map pc (members fs d r)) (map pc (members fs' d r)).
  Proof.
    intros Hw Hw' Hs.
    assert (Hnd : forall g, wf g -> NoDup (map pc (members g d r))).
    { intros g Hg. apply (NoDup_map_inv fst). rewrite map_map. simpl.
      change (fun x => fst x) with (@fst fpath fnode). apply (wf_filter g _ Hg). }
    assert (Hdir : forall g g', wf g -> wf g' -> (forall p, matches d r p = true -> same_bytes g g' p) ->
                   forall x, In x (map pc (members g d r)) -> In x (map pc (members g' d r))).
    { intros g g' Hg Hg' Hsb [p c] Hin. apply in_map_iff in Hin. destruct Hin as ([q n] & E & Hin).
      unfold pc in E. simpl in E. injection E as -> <-. apply members_in in Hin. destruct Hin as [Hin Hm].
      specialize (Hsb _ Hm). unfold same_bytes in Hsb. rewrite (in_fs_get _ _ _ Hg Hin) in Hsb. simpl in Hsb.
      destruct (fs_get g' p) as [n'|] eqn:E'; simpl in Hsb; [|discriminate]. injection Hsb as Hc.
      apply in_map_iff. exists (p, n'). unfold pc. simpl. split; [now rewrite Hc|].
      apply members_in. split; auto. now apply fs_get_in. }
    apply NoDup_Permutation; auto. intros x. split; apply Hdir; auto.
    intros p Hm. symmetry. now apply Hs.
  Qed.

  Theorem content_only_bytes v t fs fs' :
    contentdir_by_content v = true \/ (forall d, t <> TDir d) ->
    wf fs -> wf fs' -> (forall p, in_scope t p = true -> same_bytes fs fs' p) ->
    calc_target H v FContent fs t = calc_target H v FContent fs' t.
  Proof.
    intros Hv Hw Hw' Hs. destruct t as [p|d r|d]; cbn [calc_target].
    - apply content_file. apply Hs. simpl. apply fpath_eqb_refl.
    - unfold hash_set. cbv iota. rewrite !member_hashes by auto. simpl. f_equal. unfold set_struct. do 4 f_equal.
      apply sort_bytes_canonical. apply Permutation_map. now apply members_pc_perm.
    - destruct Hv as [Hv|Hv]; [|now destruct (Hv d)]. unfold hash_dir. cbv iota. rewrite Hv.
      rewrite !member_hashes by auto. simpl. f_equal. unfold set_struct. do 4 f_equal.
      apply sort_bytes_canonical. apply Permutation_map. now apply members_pc_perm.
  Qed.

  (** * 4. Hashing a missing path *)
  Definition absent (fs : fsys) (t : target) : Prop := forall p, in_scope t p = true -> fs_get fs p = None.

  Lemma hash_file_member_some v f fs p n : In (p, n) fs -> hash_file H v f fs p <> None.
  Proof.
    intros Hin. unfold hash_file. destruct f; try discriminate.
    destruct (fs_get fs p) eqn:E; [discriminate|]. exfalso. now apply (in_fs_get_some _ _ _ Hin).
  Qed.

  (** the only way [_calc_hash] raises: a ContentFile on a missing path, code as shipped *)
  Theorem calc_none_only_missing_contentfile v f fs t : calc_target H v f fs t = None ->
    content_missing_total v = false /\ f = FContent /\ exists p, t = TFile p /\ fs_get fs p = None.
  Proof.
    destruct t as [p|d r|d]; cbn [calc_target].
    - unfold hash_file. destruct f; try discriminate. destruct (fs_get fs p) eqn:E; [discriminate|].
      destruct (content_missing_total v); [discriminate|]. eauto.
    - unfold hash_set. destruct f; try discriminate;
        (destruct (all_some _) eqn:E; [discriminate|]; exfalso; revert E; apply all_some_total;
         intros [p n] Hin; apply members_in in Hin; destruct Hin as [Hin _]; cbn [fst];
         now apply hash_file_member_some with n).
    - unfold hash_dir. destruct f; try discriminate. destruct (contentdir_by_content v); [|discriminate].
      destruct (all_some _) eqn:E; [discriminate|]. exfalso. revert E. apply all_some_total.
      intros [p n] Hin. apply members_in in Hin. destruct Hin as [Hin _]. cbn [fst].
      now apply hash_file_member_some with n.
  Qed.
  Corollary hash_total v f fs t : content_missing_total v = true -> calc_target H v f fs t <> None.
  Proof. intros Hv E. apply calc_none_only_missing_contentfile in E. destruct E as [E _]. congruence. Qed.

  Theorem missing_deterministic v f t fs fs' : absent fs t -> absent fs' t ->
    calc_target H v f fs t = calc_target H v f fs' t.
  Proof.
    intros Ha Ha'. destruct t as [p|d r|d]; cbn [calc_target].
    - unfold hash_file, hash_file_base. rewrite (Ha p), (Ha' p) by (simpl; apply fpath_eqb_refl). reflexivity.
    - unfold hash_set. now rewrite (members_nil fs d r), (members_nil fs' d r) by auto.
    - unfold hash_dir. now rewrite (members_nil fs d true), (members_nil fs' d true) by auto.
  Qed.
  Theorem missing_total v f t fs : content_missing_total v = true \/ f <> FContent \/ (forall p, t <> TFile p) ->
    absent fs t -> exists h, calc_target H v f fs t = Some h /\ forall fs', absent fs' t -> calc_target H v f fs' t = Some h.
  Proof.
    intros Hv Ha. destruct (calc_target H v f fs t) as [h|] eqn:E.
    - exists h. split; auto. intros fs' Ha'. rewrite <- E. now apply missing_deterministic.
    - apply calc_none_only_missing_contentfile in E. destruct E as (E1 & E2 & p & E3 & _).
      destruct Hv as [Hv|[Hv|Hv]]; [congruence|contradiction|now destruct (Hv p)].
  Qed.

  (** * Refutations for the code as shipped (given that the hash function has no collisions) *)
  Hypothesis H_inj : forall a b, H a = H b -> a = b.

  Lemma hash_struct_inj l l' : hash_struct H l = hash_struct H l' -> l = l'.
  Proof. unfold hash_struct. intros E. apply H_inj, enc_injective in E. now injection E. Qed.

  Definition w_fs : fsys := [(mkF [0] 0, mkN [] 0)]%nat.
  Definition w_st : state :=
    mkS w_fs [mkV FBase (TDir [0%nat]) None;
              mkV FBase (TDir [1%nat]) (Some (set_struct H (bn_dir FBase) (render_d [1%nat]) []))].

  Theorem dir_copy_stale_shipped : exists st o st' r i,
    reachable H shipped st /\ step H shipped st o = ROk st' r /\ refreshed o = Some i /\ stage_noop st o = false /\
    observed_hash H shipped st' i <> fresh_hash H shipped st' i.
  Proof.
    exists w_st, (OCopyDir 0 1 []), (mkS (copy_members w_fs [0%nat] [1%nat] []) (s_objs w_st)), (RObj 1), 1%nat.
    split; [|split; [reflexivity|split; [reflexivity|split; [reflexivity|]]]].
    - pose (s0 := mkS w_fs []).
      assert (R0 : reachable H shipped s0) by constructor.
      assert (R1 : reachable H shipped (res_state s0 (step H shipped s0 (ONew FBase (TDir [0%nat]))))) by (constructor; [auto|discriminate]).
      simpl in R1.
      match type of R1 with reachable _ _ ?s => set (s1 := s) in * end.
      assert (R2 : reachable H shipped (res_state s1 (step H shipped s1 (ONew FBase (TDir [1%nat]))))) by (constructor; [auto|discriminate]).
      simpl in R2.
      match type of R2 with reachable _ _ ?s => set (s2 := s) in * end.
      assert (R3 : reachable H shipped (res_state s2 (step H shipped s2 (OHash 1)))) by (constructor; [auto|discriminate]).
      exact R3.
    - unfold observed_hash, fresh_hash. simpl. intros E. injection E as E. unfold set_struct in E.
      apply hash_struct_inj in E. discriminate E.
  Qed.

  Theorem contentdir_touch_shipped : exists fs fs' d,
    wf fs /\ wf fs' /\ (forall p, same_bytes fs fs' p) /\
    calc_target H shipped FContent fs (TDir d) <> calc_target H shipped FContent fs' (TDir d).
  Proof.
    exists [(mkF [0%nat] 0%nat, mkN [] 0%Z)], [(mkF [0%nat] 0%nat, mkN [] 1%Z)], [0%nat].
    split; [repeat constructor; simpl; tauto|]. split; [repeat constructor; simpl; tauto|]. split.
    - intros p. unfold same_bytes. simpl. destruct (fpath_eqb _ p); reflexivity.
    - simpl. unfold hash_dir. simpl. intros E. injection E as E. unfold set_struct in E.
      apply hash_struct_inj in E. simpl in E. injection E as E. unfold hash_file_base in E. simpl in E.
      apply hash_struct_inj in E. discriminate E.
  Qed.
  (** * The hashing walk of a Dir must cover its listing *)
  Lemma hash_dir_uses_listing v fs d :
    hash_dir H v FBase fs d = Some (dir_hash_with H dir_listing (bn_dir FBase) fs d).
  Proof. reflexivity. Qed.

  Lemma map_BStr_inj l l' : map BStr l = map BStr l' -> l = l'.
  Proof.
    revert l'. induction l as [|x l IH]; intros [|y l']; simpl; try discriminate; auto.
    intros [= -> E]. f_equal. auto.
  Qed.

  (** if the walk covers the listing and the Dir hash is unchanged, the recorded stat-hash of every
      listed member is still the hash of some walked file: no member was deleted or altered *)
  Theorem dir_hash_covers_listing walk bn fs fs' d :
    incl (dir_listing fs d) (walk fs d) ->
    dir_hash_with H walk bn fs d = dir_hash_with H walk bn fs' d ->
    forall e, In e (dir_listing fs d) ->
      In (hash_file_base H fs (fst e)) (map (fun e' => hash_file_base H fs' (fst e')) (walk fs' d)).
  Proof.
    intros Hincl E e Hin. unfold dir_hash_with, set_struct in E. apply hash_struct_inj in E.
    injection E as E. apply map_BStr_inj in E.
    assert (P : Permutation (map (fun e0 => hash_file_base H fs (fst e0)) (walk fs d))
                            (map (fun e' => hash_file_base H fs' (fst e')) (walk fs' d))).
    { eapply perm_trans; [apply Permutation_sym, sort_bytes_perm|]. rewrite E. apply sort_bytes_perm. }
    eapply Permutation_in; [exact P|]. apply in_map_iff. exists e. split; auto.
  Qed.

  (** a walk that does not descend (here: direct children only) misses a change below a sub-directory *)
  Definition walk_flat (fs : fsys) (d : dpath) : list (fpath * fnode) := members fs d false.
  Theorem walk_skipping_refuted : exists fs fs' d e,
    In e (dir_listing fs d) /\ fs_get fs' (fst e) = None /\
    dir_hash_with H walk_flat (bn_dir FBase) fs d = dir_hash_with H walk_flat (bn_dir FBase) fs' d.
  Proof.
    exists [(mkF [0%nat] 0%nat, mkN [] 0%Z); (mkF [0%nat; 1%nat] 0%nat, mkN [] 0%Z)],
           [(mkF [0%nat] 0%nat, mkN [] 0%Z)], [0%nat], (mkF [0%nat; 1%nat] 0%nat, mkN [] 0%Z).
    split; [simpl; auto|]. split; reflexivity.
  Qed.
End Hash.

(** as shipped, a ContentFile on a missing path has no hash (for every hash function) *)
Theorem contentfile_missing_shipped H p : calc_target H shipped FContent [] (TFile p) = None.
Proof. reflexivity. Qed.

(** folding operations keeps states reachable (used by the non-vacuity examples) *)
Fixpoint run_ok (H : bytes -> hash) (v : variant) (st : state) (ops : list op) : bool :=
  match ops with
  | [] => true
  | o :: r => match step H v st o with
              | RUnmodelled => false
              | rs => run_ok H v (res_state st rs) r
              end
  end.
Lemma reachable_fold H v ops : forall st, reachable H v st -> run_ok H v st ops = true ->
  reachable H v (fold_left (fun s o => res_state s (step H v s o)) ops st).
Proof.
  induction ops as [|o ops IH]; simpl; intros st Hr Hok; auto.
  apply IH.
  - apply reach_step; auto. intros E. now rewrite E in Hok.
  - destruct (step H v st o); auto. discriminate.
Qed.
