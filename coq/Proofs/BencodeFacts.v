From Coq Require Import List ZArith Ascii Bool Lia Permutation Arith.
From RV Require Import Base.Decimal Base.DecimalFacts Model.Bencode.
Import ListNotations.
Open Scope list_scope.
Open Scope char_scope.

(** * Induction principle for nested [data] *)
Section DataInd.
  Variable P : data -> Prop.
  Hypothesis HInt : forall z, P (BInt z).
  Hypothesis HStr : forall s, P (BStr s).
  Hypothesis HList : forall l, Forall P l -> P (BList l).
  Hypothesis HDict : forall kvs, Forall (fun kv => P (snd kv)) kvs -> P (BDict kvs).
  Fixpoint data_ind' (d : data) : P d :=
    match d with
    | BInt z => HInt z
    | BStr s => HStr s
    | BList l => HList l ((fix go l := match l return Forall P l with
                                      | [] => Forall_nil _
                                      | x :: r => Forall_cons _ (data_ind' x) (go r)
                                      end) l)
    | BDict kvs => HDict kvs ((fix go l := match l return Forall (fun kv => P (snd kv)) l with
                                          | [] => Forall_nil _
                                          | (k, v) :: r => Forall_cons (k, v) (data_ind' v) (go r)
                                          end) kvs)
    end.
End DataInd.

Lemma enc_dict_items kvs : enc (BDict kvs) = "d" :: enc_items kvs ++ ["e"].
Proof.
  reflexivity.
Qed.

(** * Generic list facts *)
Lemma app_sep_unique (c : ascii) x y r r' :
  ~ In c x -> ~ In c y -> x ++ c :: r = y ++ c :: r' -> x = y /\ r = r'.
Proof.
  revert y. induction x as [|a x IH]; intros [|b y] Hx Hy H; simpl in *.
  - injection H as ->. auto.
  - injection H as <- _. exfalso. apply Hy. now left.
  - injection H as -> _. exfalso. apply Hx. now left.
  - injection H as -> H. destruct (IH y) as [-> ->]; auto.
Qed.

Lemma dec_chars_not (c : ascii) l :
  is_dec_char c = false -> Forall (fun x => is_dec_char x = true) l -> ~ In c l.
Proof.
  intros Hc Hl Hin. rewrite Forall_forall in Hl. apply Hl in Hin. congruence.
Qed.

Lemma digit_chars_not (c : ascii) l :
  is_digit c = false -> Forall (fun x => is_digit x = true) l -> ~ In c l.
Proof.
  intros Hc Hl Hin. rewrite Forall_forall in Hl. apply Hl in Hin. congruence.
Qed.

(** * Heads of encodings *)
Definition head_ok (c : ascii) : bool :=
  Ascii.eqb c "i" || Ascii.eqb c "l" || Ascii.eqb c "d" || is_digit c.

Lemma dec_of_nat_head n : exists c r, dec_of_nat n = c :: r /\ is_digit c = true.
Proof.
  generalize (dec_of_nat_chars n). generalize (dec_of_Z_nonempty (Z.of_nat n)).
  unfold dec_of_nat. destruct (dec_of_Z (Z.of_nat n)) as [|c r]; [congruence|].
  intros _ H. inversion H; subst. eauto.
Qed.

Lemma enc_str_head s : exists c r, enc_str s = c :: r /\ is_digit c = true.
Proof.
  unfold enc_str. destruct (dec_of_nat_head (length s)) as (c & r & -> & H).
  simpl. eauto.
Qed.

Lemma enc_head d : exists c r, enc d = c :: r /\ head_ok c = true.
Proof.
  destruct d.
  - simpl. eauto.
  - destruct (enc_str_head s) as (c & r & E & H). exists c, r. simpl. split; auto.
    unfold head_ok. rewrite H. now rewrite !orb_true_r.
  - simpl. eauto.
  - rewrite enc_dict_items. eauto.
Qed.

Lemma enc_not_end d r r' : enc d ++ r = "e" :: r' -> False.
Proof.
  destruct (enc_head d) as (c & t & -> & H). simpl. intros [= -> _]. discriminate.
Qed.

(** * Prefix-freeness *)
Lemma enc_str_prefix_free s s' r r' :
  enc_str s ++ r = enc_str s' ++ r' -> s = s' /\ r = r'.
Proof.
  unfold enc_str. rewrite <- !app_assoc. simpl. intros H.
  apply app_sep_unique in H.
  - destruct H as [Hn H]. apply dec_of_nat_inj in Hn.
    assert (E : firstn (length s) (s ++ r) = firstn (length s') (s' ++ r')) by (rewrite H, Hn; reflexivity).
    rewrite !firstn_app, !Nat.sub_diag, !firstn_all in E. simpl in E. rewrite !app_nil_r in E.
    subst s'. apply app_inv_head in H. auto.
  - apply digit_chars_not; [reflexivity|apply dec_of_nat_chars].
  - apply digit_chars_not; [reflexivity|apply dec_of_nat_chars].
Qed.

Theorem enc_prefix_free : forall x y r r', enc x ++ r = enc y ++ r' -> x = y /\ r = r'.
Proof.
  induction x as [z|s|l IH|kvs IH] using data_ind'; intros y r r' H.
  - (* int *)
    destruct y as [z'|s'|l'|kvs'].
    + simpl in H. injection H as H. rewrite <- !app_assoc in H. simpl in H.
      apply app_sep_unique in H.
      * destruct H as [Hz ->]. apply dec_of_Z_inj in Hz. subst. auto.
      * apply dec_chars_not; [reflexivity|apply dec_of_Z_chars].
      * apply dec_chars_not; [reflexivity|apply dec_of_Z_chars].
    + exfalso. destruct (enc_str_head s') as (c & t & E & Hc). simpl in H. rewrite E in H.
      simpl in H. injection H as <- _. discriminate.
    + simpl in H. discriminate.
    + rewrite enc_dict_items in H. simpl in H. discriminate.
  - (* str *)
    destruct y as [z'|s'|l'|kvs'].
    + exfalso. destruct (enc_str_head s) as (c & t & E & Hc). simpl in H. rewrite E in H.
      simpl in H. injection H as -> _. discriminate.
    + simpl in H. apply enc_str_prefix_free in H. destruct H as [-> ->]. auto.
    + exfalso. destruct (enc_str_head s) as (c & t & E & Hc). simpl in H. rewrite E in H.
      simpl in H. injection H as -> _. discriminate.
    + exfalso. destruct (enc_str_head s) as (c & t & E & Hc). rewrite enc_dict_items in H.
      simpl in H. rewrite E in H. simpl in H. injection H as -> _. discriminate.
  - (* list *)
    destruct y as [z'|s'|l'|kvs'].
    + simpl in H. discriminate.
    + exfalso. destruct (enc_str_head s') as (c & t & E & Hc). simpl in H. rewrite E in H.
      simpl in H. injection H as <- _. discriminate.
    + simpl in H. injection H as H. rewrite <- !app_assoc in H. simpl in H.
      revert l' H. induction IH as [|x l Hx _ IHl]; intros l' H.
      * destruct l' as [|y l']; simpl in H.
        -- injection H as ->. auto.
        -- exfalso. rewrite <- app_assoc in H. symmetry in H. now apply enc_not_end in H.
      * destruct l' as [|y l']; simpl in H.
        -- exfalso. rewrite <- app_assoc in H. now apply enc_not_end in H.
        -- rewrite <- !app_assoc in H. apply Hx in H. destruct H as [-> H].
           apply IHl in H. destruct H as [E ->]. injection E as ->. auto.
    + rewrite enc_dict_items in H. simpl in H. discriminate.
  - (* dict *)
    destruct y as [z'|s'|l'|kvs'].
    + rewrite enc_dict_items in H. simpl in H. discriminate.
    + exfalso. destruct (enc_str_head s') as (c & t & E & Hc). rewrite enc_dict_items in H.
      simpl in H. rewrite E in H. simpl in H. injection H as <- _. discriminate.
    + rewrite enc_dict_items in H. simpl in H. discriminate.
    + rewrite !enc_dict_items in H. simpl in H. injection H as H. rewrite <- !app_assoc in H.
      simpl in H.
      revert kvs' H. induction IH as [|[k v] kvs Hx _ IHl]; intros kvs' H.
      * destruct kvs' as [|[k' v'] kvs']; simpl in H.
        -- injection H as ->. auto.
        -- exfalso. destruct (enc_str_head k') as (c & t & E & Hc). rewrite E in H. simpl in H.
           injection H as <- _. discriminate.
      * destruct kvs' as [|[k' v'] kvs']; simpl in H.
        -- exfalso. destruct (enc_str_head k) as (c & t & E & Hc). rewrite E in H. simpl in H.
           injection H as -> _. discriminate.
        -- rewrite <- !app_assoc in H. apply enc_str_prefix_free in H. destruct H as [-> H].
           simpl in Hx. apply Hx in H. destruct H as [-> H].
           apply IHl in H. destruct H as [E ->]. injection E as ->. auto.
Qed.

Corollary enc_injective x y : enc x = enc y -> x = y.
Proof.
  intros H. destruct (enc_prefix_free x y [] []) as [-> _]; auto. now rewrite !app_nil_r.
Qed.
