(** C10 — num_pending = jobs held or in flight in the arrayer (locked decrement); lost update otherwise. *)
From Coq Require Import List Bool Arith ZArith Lia.
From RV Require Import Model.ArrCounter.
Import ListNotations.
Open Scope list_scope.

Inductive areach (c : acfg) (s0 : ast) : ast -> Prop :=
| areach_refl : areach c s0 s0
| areach_step : forall s a s', areach c s0 s -> astep c s a = Some s' -> areach c s0 s'.

Lemma arun_areach : forall c sch s0 s, arun c s0 sch = Some s -> forall s00, areach c s00 s0 -> areach c s00 s.
Proof.
  induction sch; simpl; intros s0 s H s00 R.
  - injection H as <-. exact R.
  - destruct (astep c s0 a) eqn:E; [|discriminate]. eapply IHsch; eauto. eapply areach_step; eauto.
Qed.

Definition accounted (js : list job) (s : ast) : Prop :=
  forall j, In j js -> In j (a_todo s) \/ In j (a_held s) \/ In j (inflight (a_pc s)) \/
                        In j (a_tracked s) \/ In j (a_reported s).

Record AInv (js : list job) (s : ast) : Prop := {
  A_count : a_num s = Z.of_nat (length (a_held s) + length (inflight (a_pc s)));
  A_nostore : forall b r, a_pc s <> AStore b r;
  A_acc : accounted js s;
  A_dec : forall b, a_pc s = ADec b -> forall x, In x b -> In x (a_tracked s) \/ In x (a_reported s);
  A_stop : a_stopped s = true -> a_held s = [] /\ inflight (a_pc s) = [] /\ a_tracked s = []
}.

Lemma ainv_init : forall js, AInv js (ainit js).
Proof.
  intros js. constructor; simpl; auto; try discriminate.
  intros j H. left. exact H.
Qed.

Lemma len0_nil : forall A (l : list A), length l = 0 -> l = [].
Proof. intros A [|x l]; simpl; [reflexivity|discriminate]. Qed.

Lemma ainv_step : forall js s a s', AInv js s -> astep arr_locked s a = Some s' -> AInv js s'.
Proof.
  intros js s a s' I H. unfold astep in H.
  destruct (a_stopped s) eqn:Est; [discriminate|].
  pose proof (A_count _ _ I) as Hc. pose proof (A_acc _ _ I) as Ha. pose proof (A_dec _ _ I) as Hd.
  pose proof (A_nostore _ _ I) as Hn. unfold accounted in Ha.
  destruct a.
  - (* XAdd *)
    destruct (a_todo s) as [|j r] eqn:Et; [discriminate|]. injection H as <-.
    constructor; simpl; try discriminate; auto.
    + rewrite Hc, app_length. simpl. lia.
    + intros x Hx. destruct (Ha x Hx) as [H1|[H1|[H1|[H1|H1]]]]; auto.
      * destruct H1 as [<-|H1]; [right; left; apply in_or_app; right; left; reflexivity|auto].
      * right; left. apply in_or_app. auto.
  - (* XArr *)
    destruct (a_pc s) eqn:Ep.
    + destruct (a_held s) as [|h t] eqn:Eh; [discriminate|]. injection H as <-.
      constructor; simpl; try discriminate.
      * rewrite Hc. simpl. lia.
      * intros x Hx. destruct (Ha x Hx) as [H1|[H1|[H1|[H1|H1]]]]; auto; try (simpl in H1; contradiction).
    + injection H as <-. constructor; simpl; try discriminate.
      * rewrite Hc. simpl. reflexivity.
      * intros x Hx. destruct (Ha x Hx) as [H1|[H1|[H1|[H1|H1]]]]; auto.
        right; right; right; left. apply in_or_app. auto.
      * intros b0 [= <-] x Hx. left. apply in_or_app. auto.
    + simpl in H. injection H as <-. constructor; simpl; try discriminate.
      * rewrite Hc. simpl. unfold zlen. lia.
      * intros x Hx. destruct (Ha x Hx) as [H1|[H1|[H1|[H1|H1]]]]; auto.
        simpl in H1. destruct (Hd b eq_refl x H1); auto.
    + exfalso. eapply Hn. reflexivity.
  - (* XPoll *)
    destruct (a_tracked s) as [|h t] eqn:Et; [discriminate|]. injection H as <-.
    constructor; simpl; try discriminate; auto.
    + intros x Hx. destruct (Ha x Hx) as [H1|[H1|[H1|[H1|H1]]]]; auto.
      * right; right; right; right. apply in_or_app. auto.
      * right; right; right; right. apply in_or_app. auto.
    + intros b Eb x Hx. right. destruct (Hd b Eb x Hx) as [H1|H1]; apply in_or_app; auto.
  - (* XExit *)
    destruct (a_tracked s) eqn:Et; [|discriminate].
    destruct (Z.eqb (a_num s) 0) eqn:Ez; [|discriminate]. injection H as <-.
    apply Z.eqb_eq in Ez.
    constructor; simpl.
    + exact Hc.
    + exact Hn.
    + intros x Hx. destruct (Ha x Hx) as [H1|[H1|[H1|[H1|H1]]]]; auto.
    + intros b Eb x Hx. destruct (Hd b Eb x Hx) as [H1|H1]; auto.
    + intros _. rewrite Ez in Hc.
      assert (length (a_held s) = 0 /\ length (inflight (a_pc s)) = 0) as [L1 L2] by lia.
      split; [apply len0_nil; assumption|]. split; [apply len0_nil; assumption|reflexivity].
Qed.

Lemma ainv_reach : forall js s, areach arr_locked (ainit js) s -> AInv js s.
Proof. induction 1; [apply ainv_init|eapply ainv_step; eauto]. Qed.

(** Locked decrement: the counter is exact in every reachable state, for every interleaving. *)
Lemma counter_exact : forall js s, areach arr_locked (ainit js) s ->
  a_num s = Z.of_nat (length (a_held s) + length (inflight (a_pc s))).
Proof. intros js s R. apply (A_count _ _ (ainv_reach _ _ R)). Qed.

(** ... hence when the monitor leaves (pending map empty, num_pending = 0) nothing is left in the
    arrayer: every job that was submitted has been reported. *)
Lemma exit_safe : forall js s, areach arr_locked (ainit js) s -> a_stopped s = true ->
  forall j, In j js -> In j (a_todo s) \/ In j (a_reported s).
Proof.
  intros js s R St j Hj. pose proof (ainv_reach _ _ R) as I.
  destruct (A_stop _ _ I St) as (E1 & E2 & E3).
  destruct (A_acc _ _ I j Hj) as [H1|[H1|[H1|[H1|H1]]]]; auto.
  - rewrite E1 in H1. contradiction.
  - rewrite E2 in H1. contradiction.
  - rewrite E3 in H1. contradiction.
Qed.

(** Unlocked decrement: a lost update makes the counter 0 while the arrayer holds a job; the monitor
    leaves and the job is never submitted nor reported. *)
Definition counter_loses (c : acfg) : Prop :=
  exists js sch s j, NoDup js /\ arun c (ainit js) sch = Some s /\ areach c (ainit js) s /\
    a_stopped s = true /\ (forall a, astep c s a = None) /\
    In j js /\ ~ In j (a_todo s) /\ ~ In j (a_reported s) /\ In j (a_held s) /\ a_num s = 0%Z.

Lemma unlocked_loses : counter_loses arr_unlocked.
Proof.
  exists [0;1], witness_counter. eexists. exists 1.
  split; [repeat (apply NoDup_cons; [simpl; intuition discriminate|]); apply NoDup_nil|].
  split; [vm_compute; reflexivity|].
  split; [eapply (arun_areach _ witness_counter (ainit [0;1])); [vm_compute; reflexivity|apply areach_refl]|].
  split; [reflexivity|].
  split; [intros a; reflexivity|].
  split; [simpl; auto|].
  split; [vm_compute; intuition|].
  split; [vm_compute; intuition discriminate|].
  split; [vm_compute; auto|reflexivity].
Qed.

Lemma locked_never_loses : ~ counter_loses arr_locked.
Proof.
  intros (js & sch & s & j & _ & _ & R & St & _ & Hj & Ht & Hr & _ & _).
  destruct (exit_safe js s R St j Hj); contradiction.
Qed.
