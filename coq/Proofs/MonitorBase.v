(** C10 — list lemmas for the thread table ([upd], sums of weights), quiescence. *)
From Coq Require Import List Bool Arith Lia.
From RV Require Import Model.Monitor.
Import ListNotations.
Open Scope list_scope.

Fixpoint sumf {A} (f : A -> nat) (l : list A) : nat :=
  match l with [] => 0 | x :: r => f x + sumf f r end.

Lemma sumf_app : forall A (f : A -> nat) l r, sumf f (l ++ r) = sumf f l + sumf f r.
Proof. induction l; simpl; intros; [reflexivity | rewrite IHl; lia]. Qed.

Lemma sumf_upd : forall A (f : A -> nat) l i old x,
  nth_error l i = Some old -> sumf f (upd l i x) + f old = sumf f l + f x.
Proof.
  induction l; intros [|i] old x H; simpl in *; try discriminate.
  - injection H as ->. lia.
  - specialize (IHl _ _ x H). lia.
Qed.

Lemma sumf_nth_le : forall A (f : A -> nat) l i p, nth_error l i = Some p -> f p <= sumf f l.
Proof.
  induction l; intros [|i] p H; simpl in *; try discriminate.
  - injection H as ->. lia.
  - specialize (IHl _ _ H). lia.
Qed.

Lemma sumf_unique : forall A (f : A -> nat) l i k p q,
  sumf f l <= 1 -> nth_error l i = Some p -> nth_error l k = Some q -> f p = 1 -> f q = 1 -> i = k.
Proof.
  induction l; intros [|i] [|k] p q Hs Hi Hk Hp Hq; simpl in *; try discriminate; try reflexivity.
  - injection Hi as ->. pose proof (sumf_nth_le _ f _ _ _ Hk). lia.
  - injection Hk as ->. pose proof (sumf_nth_le _ f _ _ _ Hi). lia.
  - f_equal. eapply IHl; eauto. lia.
Qed.

Lemma nth_upd_same : forall A (l : list A) i old x,
  nth_error l i = Some old -> nth_error (upd l i x) i = Some x.
Proof. induction l; intros [|i] old x H; simpl in *; try discriminate; eauto. Qed.

Lemma nth_upd_other : forall A (l : list A) i k x, k <> i -> nth_error (upd l i x) k = nth_error l k.
Proof.
  induction l; intros [|i] [|k] x H; simpl in *; try reflexivity; try congruence.
  apply IHl. congruence.
Qed.

Lemma nth_upd_cases : forall A (l : list A) i k old x p,
  nth_error l i = Some old -> nth_error (upd l i x) k = Some p ->
  (k = i /\ p = x) \/ (k <> i /\ nth_error l k = Some p).
Proof.
  intros A l i k old x p Ho H. destruct (Nat.eq_dec k i) as [->|Hne].
  - rewrite (nth_upd_same _ _ _ _ _ Ho) in H. injection H as <-. left; auto.
  - rewrite nth_upd_other in H by assumption. right; auto.
Qed.

Lemma length_upd : forall A (l : list A) i x, length (upd l i x) = length l.
Proof. induction l; intros [|i] x; simpl; auto. Qed.

(** Quiescence (decidable form) implies that no thread can take a step. *)
Lemma forallb_nth : forall A (f : A -> bool) l i p, forallb f l = true -> nth_error l i = Some p -> f p = true.
Proof.
  intros A f l i p H Hn. rewrite forallb_forall in H. apply H. eapply nth_error_In; eauto.
Qed.

Lemma quiescent_terminal : forall c s, quiescentb s = true -> forall a, step c s a = None.
Proof.
  intros c s H a. unfold quiescentb in H.
  destruct (todo s) eqn:Et; [|discriminate]. destruct (kont s) eqn:Ek; [|discriminate].
  apply andb_true_iff in H as [Hm Hu].
  destruct a as [|i|i]; simpl.
  - unfold sched_step. rewrite Ek, Et. reflexivity.
  - unfold mon_step. destruct (nth_error (mons s) i) eqn:En; [|reflexivity].
    pose proof (forallb_nth _ _ _ _ _ Hm En) as Hd. destruct m; simpl in Hd; try discriminate. reflexivity.
  - unfold sub_step. destruct (nth_error (subs s) i) eqn:En; [|reflexivity].
    pose proof (forallb_nth _ _ _ _ _ Hu En) as Hd. destruct u; simpl in Hd; try discriminate. reflexivity.
Qed.

(** Reachability by any interleaving. *)
Inductive reach (c : cfg) (s0 : st) : st -> Prop :=
| reach_refl : reach c s0 s0
| reach_step : forall s a s', reach c s0 s -> step c s a = Some s' -> reach c s0 s'.

Lemma run_reach : forall c sch s0 s, run c s0 sch = Some s -> forall s00, reach c s00 s0 -> reach c s00 s.
Proof.
  induction sch; simpl; intros s0 s H s00 Hr.
  - injection H as <-. exact Hr.
  - destruct (step c s0 a) eqn:E; [|discriminate]. eapply IHsch; eauto. eapply reach_step; eauto.
Qed.

Definition terminal (c : cfg) (s : st) : Prop := forall a, step c s a = None.
