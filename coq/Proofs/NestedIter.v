(** iter_nested_value (explicit stack loop) yields exactly the leaves, in reverse
    left-to-right order, for every value; fuel = number of pops. *)
From Coq Require Import List ZArith Bool Lia.
From RV Require Import Model.Nested Proofs.NestedSpec.
Import ListNotations.
Open Scope list_scope.

Section Iter.
Variable A : Type.
Notation val := (val A).

Definition item_ok (it : bool * val) : Prop :=
  match it with (true, Leaf _) => True | (true, _) => False | (false, _) => True end.
Definition item_out (it : bool * val) : list A :=
  match it with (true, Leaf a) => [a] | (true, _) => [] | (false, v) => rev (leaves v) end.
Definition item_cost (it : bool * val) : nat :=
  match it with (true, _) => 1 | (false, v) => pops v end.

Lemma pops_pos : forall v : val, 1 <= pops v.
Proof. destruct v; simpl; lia. Qed.

Lemma item_cost_pos : forall it, 1 <= item_cost it.
Proof. intros [[] v]; simpl; [lia|apply pops_pos]. Qed.

Lemma list_sum_rev : forall l, list_sum (rev l) = list_sum l.
Proof.
  induction l; simpl; auto. rewrite list_sum_app. simpl. lia.
Qed.

Lemma flags_ok : forall X (g : X -> val) l, Forall item_ok (map (fun p => flag A (g p)) l).
Proof. intros. apply Forall_forall. intros x H. apply in_map_iff in H as (p & <- & _). exact I. Qed.

Lemma flags_out : forall X (g : X -> val) l,
  flat_map item_out (rev (map (fun p => flag A (g p)) l)) = rev (flat_map (fun p => leaves (g p)) l).
Proof.
  induction l; simpl; auto.
  rewrite flat_map_app, IHl, rev_app_distr. simpl. rewrite app_nil_r. reflexivity.
Qed.

Lemma flags_cost : forall X (g : X -> val) l,
  list_sum (map item_cost (map (fun p => flag A (g p)) l)) = list_sum (map (fun p => pops (g p)) l).
Proof. induction l; simpl; auto. Qed.

Lemma children_shipped : forall s d (v : val), exists ch,
  children A (cfg_of s d) v = Some ch /\ Forall item_ok ch /\
  flat_map item_out (rev ch) = rev (leaves v) /\ S (list_sum (map item_cost ch)) = pops v.
Proof.
  intros s d v. destruct v as [a|l|l|c l|l|kvs|c fs ex].
  - exists [(true, Leaf a)]. split; [reflexivity|]. split; [repeat constructor|]. split; reflexivity.
  - exists (map (fun p => flag A ((fun x => x) p)) l). split; [reflexivity|].
    split; [apply flags_ok|]. split; [apply (flags_out val (fun x => x))|].
    simpl. now rewrite (flags_cost val (fun x => x)).
  - exists (map (fun p => flag A ((fun x => x) p)) l). split; [reflexivity|].
    split; [apply flags_ok|]. split; [apply (flags_out val (fun x => x))|].
    simpl. now rewrite (flags_cost val (fun x => x)).
  - exists (map (fun p => flag A ((fun x => x) p)) l). split; [reflexivity|].
    split; [apply flags_ok|]. split; [apply (flags_out val (fun x => x))|].
    simpl. now rewrite (flags_cost val (fun x => x)).
  - exists (map (fun p => flag A ((fun x => x) p)) l). split; [reflexivity|].
    split; [apply flags_ok|]. split; [apply (flags_out val (fun x => x))|].
    simpl. now rewrite (flags_cost val (fun x => x)).
  - exists (map (fun p => flag A (fst p)) kvs ++ map (fun p => flag A (snd p)) kvs).
    split; [cbn; rewrite ?app_nil_r; reflexivity|].
    split; [apply Forall_app; split; apply flags_ok|].
    split.
    + rewrite rev_app_distr, flat_map_app, !flags_out. simpl. now rewrite rev_app_distr.
    + simpl. rewrite map_app, list_sum_app, !flags_cost. reflexivity.
  - exists (map (fun p => flag A (snd p)) fs). split; [reflexivity|].
    split; [apply flags_ok|]. split; [apply flags_out|].
    simpl. now rewrite flags_cost.
Qed.

Lemma iter_loop_spec : forall s d fuel stack out,
  Forall item_ok stack -> list_sum (map item_cost stack) <= fuel ->
  iter_loop A (cfg_of s d) fuel stack out = IDone (rev out ++ flat_map item_out stack).
Proof.
  intros s d fuel. induction fuel as [|n IH]; intros stack out Hok Hc.
  - destruct stack as [|it st]; [simpl; now rewrite app_nil_r|].
    simpl in Hc. pose proof (item_cost_pos it). lia.
  - destruct stack as [|[b v] st]; [simpl; now rewrite app_nil_r|].
    inversion Hok as [|? ? Hi Hs]; subst. cbn [iter_loop]. destruct b.
    + destruct v; try contradiction. rewrite IH; auto.
      * simpl. now rewrite <- app_assoc.
      * simpl in Hc. lia.
    + destruct (children_shipped s d v) as (ch & -> & Hch & Ho & Hp).
      rewrite IH.
      * now rewrite flat_map_app, Ho.
      * apply Forall_app. split; auto. now apply Forall_rev.
      * rewrite map_app, list_sum_app, map_rev, list_sum_rev. simpl in Hc. lia.
Qed.

(** whatever the fuel: out of fuel, or the same answer *)
Lemma iter_loop_any_fuel : forall s d fuel stack out,
  Forall item_ok stack ->
  iter_loop A (cfg_of s d) fuel stack out = IOutOfFuel \/
  iter_loop A (cfg_of s d) fuel stack out = IDone (rev out ++ flat_map item_out stack).
Proof.
  intros s d fuel. induction fuel as [|n IH]; intros stack out Hok.
  - destruct stack as [|[b v] st]; [right; simpl; now rewrite app_nil_r|left; reflexivity].
  - destruct stack as [|[b v] st]; [right; simpl; now rewrite app_nil_r|].
    inversion Hok as [|? ? Hi Hs]; subst. cbn [iter_loop]. destruct b.
    + destruct v; try contradiction.
      destruct (IH st (a :: out) Hs) as [->| ->]; [now left|right].
      simpl. now rewrite <- app_assoc.
    + destruct (children_shipped s d v) as (ch & -> & Hch & Ho & Hp).
      destruct (IH (rev ch ++ st) out) as [->| ->]; [|now left|right].
      * apply Forall_app. split; auto. now apply Forall_rev.
      * now rewrite flat_map_app, Ho.
Qed.

Theorem iter_nested_leaves : forall s d (v : val) fuel,
  pops v <= fuel -> iter_nested A (cfg_of s d) fuel v = IDone (rev (leaves v)).
Proof.
  intros. unfold iter_nested. rewrite iter_loop_spec.
  - simpl. now rewrite app_nil_r.
  - repeat constructor.
  - simpl. lia.
Qed.

Theorem iter_nested_any_fuel : forall s d (v : val) fuel out,
  iter_nested A (cfg_of s d) fuel v = IDone out -> out = rev (leaves v).
Proof.
  intros s d v fuel out H. unfold iter_nested in H.
  destruct (iter_loop_any_fuel s d fuel [(false, v)] []) as [E|E].
  - repeat constructor.
  - rewrite E in H. discriminate.
  - rewrite E in H. simpl in H. rewrite app_nil_r in H. now inversion H.
Qed.

End Iter.
