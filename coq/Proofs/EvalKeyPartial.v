(** What holds for the key as shipped: on simple calls (no *var parameter, config_args
    naming ordinary parameters, no JobInfo passed positionally) all invariances hold. *)
From Coq Require Import List ZArith Ascii Bool Arith Permutation Lia.
From RV Require Import Base.Decimal Model.Bencode Base.HashSpec Proofs.BencodeFacts Proofs.BencodeSort
     Model.EvalKey Proofs.EvalKeyBase Proofs.EvalKeyDict Proofs.EvalKeyFixed Proofs.EvalKeyInv Proofs.EvalKeyShipped.
Import ListNotations.
Open Scope list_scope.

Lemma simple_call_args sg conf c c' : simple_call sg conf c -> c_args c' = c_args c -> simple_call sg conf c'.
Proof. unfold simple_call. intros [A [B [C [D E]]]] Eq. rewrite Eq. auto. Qed.

Theorem shipped_simple_invariant_sim blank sg conf c c' :
  NoDup (all_names sg) -> NoDup (map fst (c_kwargs c)) ->
  simple_call sg conf c -> simple_call sg conf c' -> calls_sim sg conf c c' ->
  call_args_struct shipped blank sg conf c = call_args_struct shipped blank sg conf c'.
Proof.
  intros N Nk S S' Sim.
  rewrite (shipped_simple_eq_fixed blank blank sg conf c N S), (shipped_simple_eq_fixed blank blank sg conf c' N S').
  now apply fixed_invariant_sim.
Qed.

Theorem shipped_simple_invariant_kworder blank sg conf c kw' :
  NoDup (all_names sg) -> NoDup (map fst (c_kwargs c)) -> simple_call sg conf c ->
  Permutation (c_kwargs c) kw' ->
  call_args_struct shipped blank sg conf c =
  call_args_struct shipped blank sg conf {| c_args := c_args c; c_kwargs := kw' |}.
Proof.
  intros N Nk S P.
  rewrite (shipped_simple_eq_fixed blank blank sg conf c N S).
  rewrite (shipped_simple_eq_fixed blank blank sg conf _ N
             (simple_call_args sg conf c {| c_args := c_args c; c_kwargs := kw' |} S eq_refl)).
  now apply fixed_invariant_kworder.
Qed.

Theorem shipped_simple_invariant_default blank sg conf c nm d :
  NoDup (all_names sg) -> NoDup (map fst (c_kwargs c)) -> simple_call sg conf c ->
  assoc nm (named_params sg) = Some (Some d) ->
  pos_bound sg (length (c_args c)) nm = false ->
  ~ In nm (map fst (c_kwargs c)) ->
  call_args_struct shipped blank sg conf c =
  call_args_struct shipped blank sg conf {| c_args := c_args c; c_kwargs := c_kwargs c ++ [(nm, d)] |}.
Proof.
  intros N Nk S Hd Hp Hn.
  rewrite (shipped_simple_eq_fixed blank blank sg conf c N S).
  rewrite (shipped_simple_eq_fixed blank blank sg conf _ N
             (simple_call_args sg conf c {| c_args := c_args c; c_kwargs := c_kwargs c ++ [(nm, d)] |} S eq_refl)).
  now apply fixed_invariant_default.
Qed.
