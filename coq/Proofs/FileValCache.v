(** C04: cached results with external values are replayed only while valid
    (proofs about is_valid_nested / get_cache / the run-level machine of Model/FileVal.v). *)
From Coq Require Import List ZArith Ascii Bool Arith Lia Permutation.
From RV Require Import Base.Decimal Model.Bencode Proofs.BencodeFacts Model.FileVal Proofs.FileValBase Proofs.FileValHash.
Import ListNotations.
Open Scope list_scope.

Section Cache.
  Variable H : bytes -> hash.
  Variable ev : evariant.      (* which argument containers an expression's is_valid walks *)
  Definition full (e : evariant) : Prop := task_walks_kwargs e = true /\ simple_walks_kwargs e = true.

  Definition pall {A} (P : A -> Prop) : list A -> Prop :=
    fix go (ls : list A) : Prop := match ls with [] => True | x :: r => P x /\ go r end.
  Lemma pall_Forall {A} (P : A -> Prop) ls : pall P ls <-> Forall P ls.
  Proof.
    induction ls as [|x ls IH]; simpl; [split; auto|]. rewrite IH. split; [intros []; now constructor|now inversion 1].
  Qed.

  (** what "still valid" means for one leaf; an expression: its task is known and every value nested
      in its positional AND keyword arguments is still valid *)
  Fixpoint leaf_still_valid (v : variant) (fs : fsys) (l : leaf) : Prop :=
    match l with
    | LPlain => True
    | LHandle b => b = true
    | LExt o => always_valid o = true \/
                exists h, calc_hash H v fs o = Some h /\ (vhash o = None \/ vhash o = Some h)
    | LExpr k known kw args => (k = ETask -> known = true) /\
                               pall (leaf_still_valid v fs) kw /\ pall (leaf_still_valid v fs) args
    end.

  Lemma leaf_ind' (P : leaf -> Prop) :
    P LPlain -> (forall o, P (LExt o)) -> (forall b, P (LHandle b)) ->
    (forall k kn kw args, Forall P kw -> Forall P args -> P (LExpr k kn kw args)) -> forall l, P l.
  Proof.
    intros H1 H2 H3 H4. fix IH 1. intros [|o|b|k kn kw args]; [exact H1|apply H2|apply H3|]. apply H4.
    - revert kw. fix IHl 1. intros [|x kw]; constructor; [apply IH|apply IHl].
    - revert args. fix IHl 1. intros [|x args]; constructor; [apply IH|apply IHl].
  Qed.

  Lemma leaf_valid_expr v fs k known kw args :
    leaf_valid H ev v fs (LExpr k known kw args) =
    if (match k with ETask => known | ESimple => true end)
    then match (if walks_kwargs ev k then vall (leaf_valid H ev v fs) kw else VTrue) with
         | VTrue => vall (leaf_valid H ev v fs) args
         | r => r
         end
    else VFalse.
  Proof. reflexivity. Qed.

  Lemma vall_true {A} (f : A -> vres) (P : A -> Prop) ls :
    Forall (fun x => f x = VTrue <-> P x) ls -> (vall f ls = VTrue <-> pall P ls).
  Proof.
    induction 1 as [|x ls Hx _ IH]; simpl; [tauto|].
    destruct (f x) eqn:E.
    - rewrite IH. split; [intros; split; auto; now apply Hx|tauto].
    - split; [discriminate|]. intros [Px _]. apply Hx in Px. congruence.
    - split; [discriminate|]. intros [Px _]. apply Hx in Px. congruence.
  Qed.
  Lemma vall_no_raise {A} (f : A -> vres) ls : Forall (fun x => f x <> VRaise) ls -> vall f ls <> VRaise.
  Proof.
    induction 1 as [|x ls Hx _ IH]; simpl; [discriminate|]. destruct (f x); auto; discriminate.
  Qed.

  Lemma leaf_valid_true v fs l : full ev -> leaf_valid H ev v fs l = VTrue <-> leaf_still_valid v fs l.
  Proof.
    intros [Ft Fs]. induction l as [|o|b|k kn kw args IHkw IHargs] using leaf_ind'.
    - simpl. tauto.
    - simpl. unfold obj_is_valid. destruct (always_valid o); simpl; [tauto|].
      destruct (vhash o) as [r|]; destruct (calc_hash H v fs o) as [h|]; simpl.
      + destruct (hash_eqb r h) eqn:E.
        * apply hash_eqb_eq in E. subst. split; auto. intros _. right. eauto.
        * split; [discriminate|]. intros [F|(h' & [= <-] & [F|[= ->]])]; try discriminate.
          assert (hash_eqb h h = true) by now apply hash_eqb_eq. congruence.
      + split; [discriminate|]. intros [F|(h' & F & _)]; discriminate.
      + split; auto. intros _. right. eauto.
      + split; [discriminate|]. intros [F|(h' & F & _)]; discriminate.
    - simpl. destruct b; split; auto; discriminate.
    - rewrite leaf_valid_expr. cbn [leaf_still_valid].
      assert (Hw : walks_kwargs ev k = true) by (destruct k; assumption). rewrite Hw.
      pose proof (vall_true _ _ _ IHkw) as Ekw. pose proof (vall_true _ _ _ IHargs) as Eargs.
      destruct k, kn; simpl.
      + destruct (vall (leaf_valid H ev v fs) kw); [rewrite Eargs| |]; intuition (try discriminate; auto).
      + split; [discriminate|]. intros [F _]. now specialize (F eq_refl).
      + destruct (vall (leaf_valid H ev v fs) kw); [rewrite Eargs| |]; intuition (try discriminate; auto).
      + destruct (vall (leaf_valid H ev v fs) kw); [rewrite Eargs| |]; intuition (try discriminate; auto).
  Qed.

  Lemma leaf_valid_no_raise v fs l : content_missing_total v = true -> leaf_valid H ev v fs l <> VRaise.
  Proof.
    intros Hv. induction l as [|o|b|k kn kw args IHkw IHargs] using leaf_ind'; simpl; try discriminate.
    - unfold obj_is_valid. destruct (always_valid o); simpl; [discriminate|].
      generalize (hash_total H v (vfam o) fs (vtarget o) Hv). unfold calc_hash.
      destruct (calc_target H v (vfam o) fs (vtarget o)); [|congruence]. intros _.
      destruct (vhash o); simpl; [destruct (hash_eqb _ _)|]; discriminate.
    - destruct b; discriminate.
    - change (leaf_valid H ev v fs (LExpr k kn kw args) <> VRaise). rewrite leaf_valid_expr.
      pose proof (vall_no_raise _ _ IHkw) as Nkw. pose proof (vall_no_raise _ _ IHargs) as Nargs.
      destruct (match k with ETask => kn | ESimple => true end); [|discriminate].
      destruct (walks_kwargs ev k); [|exact Nargs].
      destruct (vall (leaf_valid H ev v fs) kw); auto; discriminate.
  Qed.

  Lemma all_valid_true v fs ls : full ev -> all_valid H ev v fs ls = VTrue <-> Forall (leaf_still_valid v fs) ls.
  Proof.
    intros Hf. induction ls as [|l ls IH]; simpl.
    - split; auto.
    - destruct (leaf_valid H ev v fs l) eqn:E.
      + rewrite IH. apply (leaf_valid_true _ _ _ Hf) in E. split; [now constructor|now inversion 1].
      + split; [discriminate|]. inversion 1 as [|? ? Hl]; subst. apply (leaf_valid_true _ _ _ Hf) in Hl. congruence.
      + split; [discriminate|]. inversion 1 as [|? ? Hl]; subst. apply (leaf_valid_true _ _ _ Hf) in Hl. congruence.
  Qed.
  Lemma all_valid_no_raise v fs ls : content_missing_total v = true -> all_valid H ev v fs ls <> VRaise.
  Proof.
    intros Hv. induction ls as [|l ls IH]; simpl; [discriminate|].
    destruct (leaf_valid H ev v fs l) eqn:E; auto; [discriminate|]. now apply leaf_valid_no_raise in E.
  Qed.

  Definition backend_hit (ct : cache_type) : Prop := ct = CT_SINGLE \/ ct = CT_ULTIMATE.

  (** replayed only if every external value is still valid -- for the code as shipped too *)
  Theorem replay_only_if_valid v fs ct e r : full ev -> backend_hit ct ->
    get_cache H ev v fs ct e r = GHit -> e = false /\ Forall (leaf_still_valid v fs) (visit r).
  Proof.
    intros Hf [-> | ->]; unfold get_cache, is_valid_nested; simpl; destruct e; try discriminate;
      (destruct (all_valid H ev v fs (visit r)) eqn:E; try discriminate; intros _; split; auto; now apply all_valid_true).
  Qed.

  (** ... and, once a missing content file has a hash, exactly then, without ever raising *)
  Theorem replay_iff_valid v fs ct r : full ev -> content_missing_total v = true -> backend_hit ct ->
    (get_cache H ev v fs ct false r = GHit <-> Forall (leaf_still_valid v fs) (visit r)) /\
    (get_cache H ev v fs ct false r = GMiss <-> ~ Forall (leaf_still_valid v fs) (visit r)).
  Proof.
    intros Hf Hv Hb. rewrite <- (all_valid_true _ _ _ Hf). generalize (all_valid_no_raise v fs (visit r) Hv).
    destruct Hb as [-> | ->]; unfold get_cache, is_valid_nested; simpl;
      destruct (all_valid H ev v fs (visit r)); intros Hn; (split; split; try discriminate; try congruence; auto).
  Qed.
  Theorem get_cache_no_raise v fs ct e r : content_missing_total v = true -> get_cache H ev v fs ct e r <> GRaise.
  Proof.
    intros Hv. generalize (all_valid_no_raise v fs (visit r) Hv). unfold get_cache, is_valid_nested. simpl.
    destruct ct, e, (handles_valid r), (all_valid H ev v fs (visit r)); simpl; congruence.
  Qed.
  (** facts about the other branches: a same-execution (CSE) hit is used iff every Handle in it is
      still valid -- file values are not re-checked there --, errors are never replayed *)
  Theorem cse_checks_handles_only v fs e r :
    get_cache H ev v fs CT_CSE e r = if handles_valid r then GHit else GMiss.
  Proof. unfold get_cache. simpl. destruct (handles_valid r); reflexivity. Qed.
  Lemma handles_valid_spec r : handles_valid r = true <-> Forall (fun l => forall b, l = LHandle b -> b = true) (visit r).
  Proof.
    unfold handles_valid. rewrite forallb_forall, Forall_forall. split; intros Hx l Hin.
    - intros b ->. now apply (Hx _ Hin).
    - destruct l as [|o|b|k kn kw args]; auto. now apply (Hx _ Hin).
  Qed.
  Theorem errors_not_replayed v fs ct r : ct <> CT_CSE -> get_cache H ev v fs ct true r = GMiss.
  Proof. intros N. destruct ct; unfold get_cache; simpl; congruence. Qed.

  (** as shipped: a deleted ContentFile in a cached result makes the lookup raise *)
  Theorem contentfile_deleted_raises_shipped p h :
    get_cache H ev shipped [] CT_SINGLE false (NLeaf (LExt (mkV FContent (TFile p) (Some h)))) = GRaise.
  Proof. reflexivity. Qed.

  (** * The run-level machine *)
  Lemma record_total v fs tk : content_missing_total v = true -> record H v fs tk <> None.
  Proof.
    intros Hv. induction tk as [|s tk IH]; simpl; [discriminate|].
    destruct (record H v fs tk); [|congruence]. destruct (spec_target s) as [[f t]|]; [|discriminate].
    generalize (hash_total H v f fs t Hv). destruct (calc_target H v f fs t); [discriminate|congruence].
  Qed.

  Definition leaf_recorded_now (v : variant) (fs : fsys) (l : leaf) : Prop :=
    match l with
    | LExt o => exists h, vhash o = Some h /\ calc_hash H v fs o = Some h
    | _ => True
    end.
  Lemma record_current v fs tk r : record H v fs tk = Some r ->
    Forall (fun n => exists l, n = NLeaf l /\ leaf_recorded_now v fs l) r.
  Proof.
    revert r. induction tk as [|s tk IH]; simpl; intros r.
    - intros [= <-]. constructor.
    - destruct (record H v fs tk) as [rest|]; [|discriminate]. specialize (IH _ eq_refl).
      destruct (spec_target s) as [[f t]|].
      + destruct (calc_target H v f fs t) as [h|] eqn:E; [|discriminate]. intros [= <-]. constructor; auto.
        eexists. split; [reflexivity|]. simpl. exists h. split; auto.
      + intros [= <-]. constructor; auto. eexists. split; [reflexivity|]. exact I.
  Qed.
  Lemma visit_leaves r : Forall (fun n => exists l, n = NLeaf l) r -> visit (NNode r) = rev (flat_map visit r).
  Proof.
    induction r as [|n r IH]; simpl; auto. inversion 1 as [|? ? [l ->] Hr]; subst. simpl.
    simpl in IH. rewrite IH by auto. reflexivity.
  Qed.
  (** what a run returns describes the filesystem as it is after the run *)
  Theorem executed_reflects_state v tk st mts st' r :
    exec_task H v tk st mts = HExecuted st' r ->
    h_execs st' = S (h_execs st) /\ h_cache st' = Some r /\ h_fs st' = exec_fs (h_fs st) tk mts /\
    Forall (leaf_recorded_now v (h_fs st')) (visit r).
  Proof.
    unfold exec_task. destruct (record H v (exec_fs (h_fs st) tk mts) tk) as [rs|] eqn:E; [|discriminate].
    intros [= <- <-]. cbn [h_execs h_cache h_fs]. repeat split; auto.
    apply record_current in E.
    assert (Hl : Forall (fun n => exists l, n = NLeaf l) rs).
    { eapply Forall_impl; [|exact E]. intros n (l & -> & _). eauto. }
    rewrite (visit_leaves _ Hl). apply Forall_rev. clear Hl.
    induction E as [|n rs (l & -> & Hn) E IH]; simpl; auto.
  Qed.

  (** contents written by the task *)
  Lemma write_all_other fs files mts p : ~ In p (map fst files) -> fs_get (write_all fs files mts) p = fs_get fs p.
  Proof.
    revert fs. induction files as [|[q d] files IH]; intros fs Hn; simpl; auto.
    unfold write_all in *. simpl. rewrite IH by (simpl in Hn; tauto).
    unfold fs_write. apply fs_get_set_other. simpl in Hn. intros ->. tauto.
  Qed.
  Theorem written_contents fs files mts p d : NoDup (map fst files) -> In (p, d) files ->
    option_map content (fs_get (write_all fs files mts) p) = Some d.
  Proof.
    revert fs. induction files as [|[q e] files IH]; intros fs Hnd Hin; simpl in *; [tauto|].
    inversion Hnd as [|? ? Hq Hnd']; subst. destruct Hin as [[= -> ->]|Hin].
    - unfold write_all. simpl. fold (write_all (fs_write fs p d (lookup_mt mts p)) files mts).
      rewrite write_all_other by auto. unfold fs_write. now rewrite fs_get_set_same.
    - unfold write_all. simpl. fold (write_all (fs_write fs q e (lookup_mt mts q)) files mts). now apply IH.
  Qed.

  Theorem run_decides_by_validity v tk st mts r : full ev -> content_missing_total v = true -> h_cache st = Some r ->
    (Forall (leaf_still_valid v (h_fs st)) (visit r) -> hstep H ev v tk st (HRun mts) = HReplayed st r) /\
    (~ Forall (leaf_still_valid v (h_fs st)) (visit r) ->
       exists st' r', hstep H ev v tk st (HRun mts) = HExecuted st' r' /\ exec_task H v tk st mts = HExecuted st' r').
  Proof.
    intros Hfull Hv Hc. simpl. rewrite Hc.
    destruct (replay_iff_valid v (h_fs st) CT_SINGLE r Hfull Hv (or_introl eq_refl)) as [Hh Hm].
    split; intros Hf.
    - apply Hh in Hf. now rewrite Hf.
    - apply Hm in Hf. rewrite Hf. unfold exec_task.
      generalize (record_total v (exec_fs (h_fs st) tk mts) tk Hv).
      destruct (record H v (exec_fs (h_fs st) tk mts) tk); [eauto|congruence].
  Qed.
  Theorem run_never_raises v tk st o st' : content_missing_total v = true -> hstep H ev v tk st o <> HRaised st'.
  Proof.
    intros Hv. destruct o; simpl; try discriminate.
    assert (He : exec_task H v tk st mts <> HRaised st').
    { unfold exec_task. generalize (record_total v (exec_fs (h_fs st) tk mts) tk Hv).
      destruct (record H v (exec_fs (h_fs st) tk mts) tk); [discriminate|congruence]. }
    destruct (h_cache st) as [r|]; auto.
    generalize (get_cache_no_raise v (h_fs st) CT_SINGLE false r Hv).
    destruct (get_cache H ev v (h_fs st) CT_SINGLE false r); intros Hn; [discriminate|exact He|congruence].
  Qed.
  (** whatever a run returns (replayed or recomputed), all its external values are valid now *)
  Theorem run_result_valid v tk st mts : full ev -> content_missing_total v = true ->
    match hstep H ev v tk st (HRun mts) with
    | HReplayed st' r => st' = st /\ Forall (leaf_still_valid v (h_fs st)) (visit r)
    | HExecuted st' r => Forall (leaf_recorded_now v (h_fs st')) (visit r) /\ h_execs st' = S (h_execs st)
    | HRaised _ | HChanged _ => False
    end.
  Proof.
    intros Hf Hv. generalize (run_never_raises v tk st (HRun mts)). simpl.
    assert (He : forall st' r, exec_task H v tk st mts = HExecuted st' r ->
                 Forall (leaf_recorded_now v (h_fs st')) (visit r) /\ h_execs st' = S (h_execs st)).
    { intros st' r E. apply executed_reflects_state in E. tauto. }
    assert (Hx : forall st', exec_task H v tk st mts <> HReplayed st' (NLeaf LPlain) /\ forall r, exec_task H v tk st mts <> HReplayed st' r).
    { intros st'. unfold exec_task. destruct (record _ _ _ _); split; try intros r; discriminate. }
    assert (Hy : forall st', exec_task H v tk st mts <> HChanged st').
    { intros st'. unfold exec_task. destruct (record _ _ _ _); discriminate. }
    destruct (h_cache st) as [r|] eqn:Ec.
    - destruct (get_cache H ev v (h_fs st) CT_SINGLE false r) eqn:Eg.
      + intros _. split; auto. apply (replay_only_if_valid v _ CT_SINGLE false r); auto. now left.
      + destruct (exec_task H v tk st mts) eqn:Ee; intros Hn; auto.
        * exfalso. now apply (proj2 (Hx st0) r0).
        * exfalso. now apply (Hn st0 Hv).
        * exfalso. now apply (Hy st0).
      + intros Hn. exfalso. now apply (Hn st Hv).
    - destruct (exec_task H v tk st mts) eqn:Ee; intros Hn; auto.
      + exfalso. now apply (proj2 (Hx st0) r).
      + exfalso. now apply (Hn st0 Hv).
      + exfalso. now apply (Hy st0).
  Qed.

  (** as shipped: run, delete the ContentFile output, run again -> the second run raises *)
  Definition w_task (p : fpath) (d : bytes) : task := [OutFile FContent p d].
  Theorem run_raises_shipped p d :
    let st0 := mkH [] None 0 in
    let st1 := hrun H ev shipped (w_task p d) st0 [HRun []; HRemove p] in
    h_execs st1 = 1%nat /\ hstep H ev shipped (w_task p d) st1 (HRun []) = HRaised st1.
  Proof.
    simpl. unfold exec_task, exec_fs, write_all. simpl. rewrite fpath_eqb_refl. simpl.
    rewrite fpath_eqb_refl. simpl. split; [reflexivity|].
    unfold get_cache, is_valid_nested. simpl. unfold obj_is_valid. simpl. reflexivity.
  Qed.
  (** * Expressions as cached results: what an args-only validity walk misses *)
  Theorem expr_kwargs_unchecked v fs k kw args : walks_kwargs ev k = false ->
    leaf_valid H ev v fs (LExpr k true kw args) = vall (leaf_valid H ev v fs) args.
  Proof. intros Hw. rewrite leaf_valid_expr, Hw. now destruct k. Qed.

  Lemma hash_eqb_cons_neq c : forall x, hash_eqb (x :: c) c = false.
  Proof.
    induction c as [|y c IH]; intros x; [reflexivity|].
    change (Ascii.eqb x y && hash_eqb (y :: c) c = false). rewrite IH. apply andb_false_r.
  Qed.
  (** a File passed by keyword whose file changed since it was recorded (here: deleted; recorded hash
      differs from the current one for every hash function) is replayed *)
  Definition stale_file (p : fpath) : vobj := mkV FBase (TFile p) (Some ("x"%char :: hash_file_base H [] p)).
  Theorem expr_args_only_refuted v p : task_walks_kwargs ev = false ->
    let r := NLeaf (LExpr ETask true [LExt (stale_file p)] []) in
    get_cache H ev v [] CT_SINGLE false r = GHit /\ ~ Forall (leaf_still_valid v []) (visit r) /\
    leaf_valid H full_ev v [] (LExt (stale_file p)) = VFalse.
  Proof.
    intros Hw. cbn zeta. split; [|split].
    - unfold get_cache, is_valid_nested. cbn [visit all_valid]. rewrite expr_kwargs_unchecked by exact Hw. reflexivity.
    - cbn [visit app]. inversion 1 as [|? ? Hl _]; subst. cbn in Hl. destruct Hl as (_ & (Hk & _) & _).
      destruct Hk as [F|(h & E & [F|F])]; try discriminate. injection E as <-. injection F as F.
      apply (f_equal (@length _)) in F. simpl in F. induction (length _); auto; congruence.
    - unfold stale_file. cbn [leaf_valid]. unfold obj_is_valid.
      cbn [always_valid vfam vtarget vhash calc_hash calc_target hash_file]. now rewrite hash_eqb_cons_neq.
  Qed.
End Cache.
