(** C36 — concrete databases: the refutation witness for the chain as shipped and the
    non-vacuity example (a populated prototype-schema database that upgrades). *)
From Coq Require Import List String ZArith Bool Ascii Lia.
From RV Require Import Model.Migrate Model.MigrateChain Proofs.MigrateBase Proofs.MigratePres Proofs.MigrateChainThm.
Import ListNotations.
Open Scope string_scope.
Open Scope list_scope.

Definition env0 : env := {| e_dialect := Sqlite; e_tz := fun s => s; e_now := VTime 1790000000 0 |}.

Definition with_rows (t : string) (rs : list row) (d : db) : db :=
  match lookup t (d_tables d) with
  | Some T => set_table t {| t_cols := t_cols T; t_rows := rs |} d
  | None => d
  end.

Definition built_or_empty (v : utc_variant) (n : nat) : db :=
  match built env0 (chain v) n with Ok d => d | Err _ => empty_db end.

(* ------------------------------------------------------------------ witness: schema 3.3, one job *)
Definition w_job : row :=
  [("id", VText "j0"); ("start_time", VTime 1700000000 123456); ("end_time", VNull);
   ("task_hash", VText "t0"); ("cached", VInt 0); ("call_hash", VNull); ("parent_id", VNull);
   ("execution_id", VText "e0")].

Definition witness : db :=
  with_rows "job" [w_job]
    (with_rows "execution" [[("id", VText "e0"); ("args", VText "[]"); ("job_id", VText "j0")]]
       (with_rows "task" [[("hash", VText "t0"); ("name", VText "main"); ("namespace", VText ""); ("source", VText "")]]
          (built_or_empty Truncating 9))).

Definition witness_result : db :=
  match upgrade env0 (chain Truncating) db_versions witness with Ok d => d | Err _ => empty_db end.

Lemma witness_rev : d_rev witness = "f68b3aaee9cc".
Proof. vm_compute. reflexivity. Qed.

Lemma witness_upgrades : upgrade env0 (chain Truncating) db_versions witness = Ok witness_result.
Proof. vm_compute. reflexivity. Qed.

Ltac typed_rows :=
  intros r c v Hin Hc Hv; vm_compute in Hin;
  repeat (destruct Hin as [<-|Hin]; [|]); try contradiction;
  unfold job_time_col in Hc; apply orb_true_iff in Hc; destruct Hc as [Hc|Hc];
  apply String.eqb_eq in Hc; subst c; vm_compute in Hv; injection Hv as <-; reflexivity.

Lemma witness_typed : job_times_typed witness.
Proof. typed_rows. Qed.

Lemma witness_not_preserved :
  ~ preserved (expected (e_tz env0) (d_rev witness)) (exempt (d_rev witness)) witness witness_result.
Proof.
  intro P.
  assert (L : exists T, lookup "job" (d_tables witness) = Some T /\ t_rows T = [w_job]).
  { eexists. split; [vm_compute; reflexivity|reflexivity]. }
  destruct L as (T & L & ET).
  destruct (P "job" T L) as (T' & L' & rs & ex & E & F).
  vm_compute in L'. injection L' as <-. simpl in E. rewrite ET in F.
  inversion F as [|a b l l' Hab Hl]; subst. inversion Hl; subst. simpl in E. injection E as <- _.
  specialize (Hab "start_time" (VTime 1700000000 123456) eq_refl).
  rewrite witness_rev in Hab. vm_compute in Hab. specialize (Hab eq_refl). discriminate.
Qed.

(* ------------------------------------------------------------------ non-vacuity: populated 1.0 database *)
Definition nv_db (v : utc_variant) : db :=
  with_rows "job"
    [[("id", VText "j0"); ("start_time", VTime 1600000000 999999); ("end_time", VTime 1600000005 500000);
      ("task_hash", VText "t0"); ("cached", VInt 0); ("call_hash", VText "c0"); ("parent_id", VNull)];
     [("id", VText "j1"); ("start_time", VTime 1600000001 1); ("end_time", VNull);
      ("task_hash", VText "t1"); ("cached", VInt 1); ("call_hash", VNull); ("parent_id", VText "j0")]]
    (with_rows "call_node"
       [[("call_hash", VText "c0"); ("task_name", VText "main"); ("task_hash", VText "t0");
         ("args_hash", VText "a0"); ("value_hash", VText "v0"); ("timestamp", VTime 1600000006 0)]]
       (with_rows "value"
          [[("value_hash", VText "v0"); ("type", VText "builtins.int"); ("format", VText "application/python-pickle");
            ("value", VBlob "x")]]
          (with_rows "task"
             [[("hash", VText "t0"); ("name", VText "main"); ("namespace", VText "wf"); ("source", VText "")];
              [("hash", VText "t1"); ("name", VText "script_task"); ("namespace", VText "redun"); ("source", VText "")]]
             (with_rows "redun_version" [[("id", VText "r0"); ("version", VInt 1); ("timestamp", VTime 1600000000 0)]]
                (built_or_empty v 1))))).

Definition nv_result : db :=
  match upgrade env0 (chain KeepFraction) db_versions (nv_db KeepFraction) with Ok d => d | Err _ => empty_db end.

Lemma nv_upgrades : upgrade env0 (chain KeepFraction) db_versions (nv_db KeepFraction) = Ok nv_result.
Proof. vm_compute. reflexivity. Qed.

Lemma nv_typed : job_times_typed (nv_db KeepFraction).
Proof. typed_rows. Qed.

(** The populated example really is populated and really crosses every data migration. *)
Lemma nv_facts :
  d_rev (nv_db KeepFraction) = "806f5dcb11bf" /\
  crosses utc_rev (d_rev (nv_db KeepFraction)) = true /\ crosses eid_rev (d_rev (nv_db KeepFraction)) = true /\
  List.length (rows_of "job" nv_result) = 2%nat /\
  List.length (rows_of "value" nv_result) = 3%nat /\       (* two companion Task values added *)
  List.length (rows_of "execution" nv_result) = 1%nat /\   (* one stub execution *)
  map (fun r => rget r "execution_id") (rows_of "job" nv_result)
    = [Some (VFresh "stub" (VText "j0")); Some (VFresh "stub" (VText "j0"))] /\
  map (fun r => rget r "start_time") (rows_of "job" nv_result)
    = [Some (VTime 1600000000 999999); Some (VTime 1600000001 1)].
Proof. vm_compute. repeat split; reflexivity. Qed.

(* ------------------------------------------------------------------ 2.3 database with PARTLY labelled job trees *)
Definition pl_job (id : string) (parent eid : val) : row :=
  [("id", VText id); ("start_time", VTime 1600000000 0); ("end_time", VNull); ("task_hash", VText "t0");
   ("cached", VInt 0); ("call_hash", VNull); ("parent_id", parent); ("execution_id", eid)].

(** Tree 1 (execution e0 on root j0): j0 labelled, child j1 NOT, grandchild j2 labelled, j3 (child of j1) NOT.
    Tree 2 (root k0 without execution): k0 and its child k1 unlabelled. *)
Definition pl_db (v : utc_variant) : db :=
  with_rows "job"
    [pl_job "j0" VNull (VText "e0"); pl_job "j1" (VText "j0") VNull; pl_job "j2" (VText "j1") (VText "e0");
     pl_job "j3" (VText "j1") VNull; pl_job "k0" VNull VNull; pl_job "k1" (VText "k0") VNull]
    (with_rows "execution" [[("id", VText "e0"); ("args", VText "[]"); ("job_id", VText "j0")]]
       (with_rows "task" [[("hash", VText "t0"); ("name", VText "main"); ("namespace", VText ""); ("source", VText "")]]
          (built_or_empty v 5))).

Definition job_eids (r : result db) : list (option val * option val) :=
  match r with
  | Ok d => map (fun j => (rget j "id", rget j "execution_id")) (rows_of "job" d)
  | Err _ => []
  end.

(** Every job, labelled or not, ends with the execution of its root; no job row is lost. *)
Lemma pl_facts : forall v,
  d_rev (pl_db v) = "d4af139b6f53" /\
  job_eids (upgrade env0 (chain v) db_versions (pl_db v)) =
    [(Some (VText "j0"), Some (VText "e0")); (Some (VText "j1"), Some (VText "e0"));
     (Some (VText "j2"), Some (VText "e0")); (Some (VText "j3"), Some (VText "e0"));
     (Some (VText "k0"), Some (VFresh "stub" (VText "k0"))); (Some (VText "k1"), Some (VFresh "stub" (VText "k0")))].
Proof. destruct v; vm_compute; split; reflexivity. Qed.

(* ------------------------------------------------------------------ companion-value back-fill variants *)
(** 2.0 database: task t0 was recorded as a PartialTask value, so its companion value row exists
    but has type "redun.PartialTask". *)
Definition pt_value : row :=
  [("value_hash", VText "t0"); ("type", VText "redun.PartialTask"); ("format", VText "application/python-pickle");
   ("value", VBlob "partial(factor=10)")].

Definition pt_db (v : utc_variant) : db :=
  with_rows "value" [pt_value]
    (with_rows "task" [[("hash", VText "t0"); ("name", VText "scale"); ("namespace", VText "wf"); ("source", VText "")]]
       (built_or_empty v 2)).

Definition pt_result (lt : lonely_test) (wm : write_mode) : db :=
  match upgrade env0 (chain_gen lt wm KeepFraction) db_versions (pt_db KeepFraction) with Ok d => d | Err _ => empty_db end.

Lemma pt_upgrades : upgrade env0 (chain_gen TypedValue MergeRow KeepFraction) db_versions (pt_db KeepFraction)
                    = Ok (pt_result TypedValue MergeRow).
Proof. vm_compute. reflexivity. Qed.

Lemma pt_typed : job_times_typed (pt_db KeepFraction).
Proof. intros r c v Hin. vm_compute in Hin. contradiction. Qed.

(** (typed test, merge): the PartialTask row is taken for "lonely" and overwritten. *)
Lemma pt_not_preserved :
  ~ preserved (expected (e_tz env0) (d_rev (pt_db KeepFraction))) (exempt (d_rev (pt_db KeepFraction)))
              (pt_db KeepFraction) (pt_result TypedValue MergeRow).
Proof.
  intro P.
  assert (L : exists T, lookup "value" (d_tables (pt_db KeepFraction)) = Some T /\ t_rows T = [pt_value]).
  { eexists. split; [vm_compute; reflexivity|reflexivity]. }
  destruct L as (T & L & ET).
  destruct (P "value" T L) as (T' & L' & rs & ex & E & F).
  vm_compute in L'. injection L' as <-. simpl in E. rewrite ET in F.
  inversion F as [|a b l l' Hab Hl]; subst. inversion Hl; subst. simpl in E. injection E as <- _.
  specialize (Hab "type" (VText "redun.PartialTask") eq_refl).
  vm_compute in Hab. specialize (Hab eq_refl). discriminate.
Qed.

(** The other three variants on the same database: (any, add) and (any, merge) keep the row;
    (typed, add) makes the upgrade fail with the UNIQUE violation. *)
Lemma pt_other_variants :
  rows_of "value" (pt_result AnyValue AddRow) = [pt_value] /\
  rows_of "value" (pt_result AnyValue MergeRow) = [pt_value] /\
  upgrade env0 (chain_gen TypedValue AddRow KeepFraction) db_versions (pt_db KeepFraction) = Err (EUnique "value" "value_hash").
Proof. vm_compute. repeat split; reflexivity. Qed.
