(** C24: exhaustive check, inside Coq, of the refinement to the key-value model for every
    history up to a bound over a fixed command alphabet (prefix-sharing depth-first sweep,
    evaluated by vm_compute and lifted to a universally quantified statement). *)
From Coq Require Import List Arith Bool PeanoNat Lia.
From RV Require Import Model.Tags Proofs.TagsBase.
Import ListNotations.
Open Scope list_scope.

Definition sw_ents : list nat := [0; 1].
Definition sw_vals : list jval := [VNull; VJ 1; VJ 2].

(** 20 single-pair / single-key commands on entity 0 (2 keys x {null, 1, 2}), commands with two
    pairs (same pair twice, two values of a key, two keys, pair + bare key), and entity 1. *)
Definition alphabet : list op :=
  flat_map (fun k => flat_map (fun v => [TAdd 0 [(k, v)]; TUpdate 0 [(k, v)]; TRm 0 [(k, v)] []]) sw_vals
                     ++ [TRm 0 [] [k]]) [0; 1]
  ++ [TAdd 0 [(0, VJ 1); (0, VJ 1)]; TUpdate 0 [(0, VJ 1); (0, VJ 1)]; TAdd 0 [(0, VJ 1); (0, VJ 2)];
      TUpdate 0 [(0, VJ 1); (0, VJ 2)]; TUpdate 0 [(0, VJ 1); (1, VJ 1)]; TRm 0 [(0, VJ 1)] [1];
      TAdd 0 [(1, VNull); (0, VJ 2); (1, VNull)];
      TAdd 1 [(0, VJ 1)]; TUpdate 1 [(0, VJ 2)]; TRm 1 [] [0]].

(** what a variant needs from a command to behave: no pair named twice unless record_tags
    removes repetitions, no null-valued pair in `rm` unless delete_tags can match it *)
Definition pair_eqb (a b : nat * jval) : bool := (fst a =? fst b) && jval_eqb (snd a) (snd b).
Definition op_okb (g : cfg) (o : op) : bool :=
  match o with
  | TAdd _ tags | TUpdate _ tags => dedupe g || negb (has_dup pair_eqb tags)
  | TRm _ pairs _ => null_match g || negb (existsb (fun kv => jval_eqb (snd kv) VNull) pairs)
  end.

Definition agreeb (strict : bool) (s : state) (Sp : spec_state) : bool :=
  forallb (fun e => forallb (fun kv => spec_has Sp e (fst kv) (snd kv)) (cur_pairs s e)
                    && (negb strict || negb (has_dup pair_eqb (cur_pairs s e)))) sw_ents &&
  forallb (fun t => match t with (e, k, v) => pair_in (cur_pairs s e) k v end) Sp.

Fixpoint sweep (g : cfg) (strict : bool) (n : nat) (s : state) (Sp : spec_state) : bool :=
  agreeb strict s Sp &&
  match n with
  | O => true
  | S n' =>
    forallb (fun o => match step g s o with
                      | Done s' => sweep g strict n' s' (spec_step Sp o)
                      | _ => false
                      end) (filter (op_okb g) alphabet)
  end.

Lemma sweep_0 g strict s Sp : sweep g strict 0 s Sp = agreeb strict s Sp && true.
Proof. reflexivity. Qed.
Lemma sweep_S g strict n s Sp : sweep g strict (S n) s Sp =
  agreeb strict s Sp &&
  forallb (fun o => match step g s o with
                    | Done s' => sweep g strict n s' (spec_step Sp o)
                    | _ => false
                    end) (filter (op_okb g) alphabet).
Proof. reflexivity. Qed.

Lemma sweep_sound g strict n : forall s Sp, sweep g strict n s Sp = true ->
  forall ops, length ops <= n -> Forall (fun o => In o alphabet /\ op_okb g o = true) ops ->
  exists s', run g s ops = Some s' /\ run_log g s ops = repeat 0 (length ops) /\
             agreeb strict s' (fold_left spec_step ops Sp) = true.
Proof.
  induction n as [|n IH]; intros s Sp H ops Hl Hf.
  - destruct ops as [|o ops]; [|cbn [length] in Hl; lia]. rewrite sweep_0, andb_true_r in H.
    exists s. cbn [run run_log length repeat fold_left]. auto.
  - rewrite sweep_S in H. apply andb_true_iff in H. destruct H as [Ha Hs]. destruct ops as [|o ops].
    + exists s. cbn [run run_log length repeat fold_left]. auto.
    + inversion Hf as [|? ? [Ho1 Ho2] Hf']; subst. rewrite forallb_forall in Hs.
      specialize (Hs o ltac:(apply filter_In; tauto)). cbn [run run_log length repeat fold_left].
      destruct (step g s o) as [s1| | |]; try discriminate.
      destruct (IH s1 (spec_step Sp o) Hs ops ltac:(cbn [length] in Hl; lia) Hf') as [s' [H1 [H2 H3]]].
      exists s'. rewrite H2. auto.
Qed.

Lemma agreeb_sound strict s Sp : agreeb strict s Sp = true ->
  forall e, In e sw_ents -> forall k v,
    (In (k, v) (cur_pairs s e) -> spec_has Sp e k v = true) /\
    (In (e, k, v) Sp -> pair_in (cur_pairs s e) k v = true) /\
    (strict = true -> NoDup (cur_pairs s e)).
Proof.
  unfold agreeb. rewrite andb_true_iff, !forallb_forall. intros [H1 H2] e He k v.
  specialize (H1 e He). apply andb_true_iff in H1. destruct H1 as [H1 H3]. rewrite forallb_forall in H1.
  split; [|split].
  - intros H. exact (H1 (k, v) H).
  - intros H. exact (H2 (e, k, v) H).
  - intros ->. simpl in H3. apply negb_true_iff in H3. revert H3. apply has_dup_false_NoDup.
    intros [a b] [c d]. unfold pair_eqb. simpl. rewrite andb_true_iff, Nat.eqb_eq, jval_eqb_eq.
    split; [intros [-> ->]; reflexivity|intros [= -> ->]; auto].
Qed.

Lemma sweep_fixed_4 : sweep fixed true 4 init [] = true.
Proof. vm_compute. reflexivity. Qed.
