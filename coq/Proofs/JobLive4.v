From Coq Require Import List ZArith Bool Arith Lia Permutation.
From RV Require Import Model.JobMachine Proofs.JobBase Proofs.JobRes Proofs.JobRes2 Proofs.JobRes3
  Proofs.JobLive Proofs.JobLive2 Proofs.JobLive3.
Import ListNotations.
Open Scope list_scope.

Section L.
Variable c : config.
Hypothesis Hfix : release_if_holds (vr c) = true.
Hypothesis Hlim : forall r, (0 <= limit_of c r)%Z.

Lemma nth_error_In' {A} (l : list A) n x : nth_error l n = Some x -> In x l.
Proof. apply nth_error_In. Qed.

Lemma live_done_job s i j :
  nth_error (queue s) i = Some (EvDone j) -> Inv c s -> Live s None -> Live (done_job c (pop_queue s i) j) None.
Proof.
  intros Hq I L.
  assert (I0 : Inv c (pop_queue s i)) by (eapply inv_pop_nonexec; eauto).
  pose proof (live_pop s i _ Hq L) as L0. simpl evjob in L0.
  pose proof (live_maybe_release c Hfix _ (Some j) j I0 L0) as L1.
  unfold done_job. set (s1 := maybe_release c (pop_queue s i) j) in *.
  destruct (getj s1 j) as [x|] eqn:Hx.
  2:{ apply (live_close s1 j L1). intros x. rewrite Hx. discriminate. }
  (* the job was good' when its Done event was queued, hence good and not holding now *)
  assert (Hgx : jholds x = false /\ good x).
  { destruct (getj s j) as [x0|] eqn:Hx0.
    - destruct (maybe_release_job c Hfix (pop_queue s i) j x0 x Hx0 Hx) as [A B]. split; auto.
      apply B. eapply (l_done _ _ L); eauto. eapply nth_error_In; eauto.
    - exfalso. unfold s1, maybe_release in Hx. change (getj (pop_queue s i) j) with (getj s j) in Hx.
      rewrite Hx0 in Hx. change (getj (pop_queue s i) j) with (getj s j) in Hx. congruence. }
  destruct Hgx as [Hh Hg].
  destruct (jpreset x) as [v|].
  - apply (live_close _ j).
    + apply live_enqueue; try discriminate.
      * apply live_phase; auto; discriminate.
      * simpl. rewrite (getj_setj_same _ _ _ _ Hx). eauto.
      * intros k v0 z [= <- <-]. change (getj (setj s1 j (with_phase x PEvalQ)) j = Some z -> good z).
        rewrite (getj_setj_same _ _ _ _ Hx). intros [= <-]. exact Hg.
    + intros z. change (getj (enqueue (setj s1 j (with_phase x PEvalQ)) (EvResolve j v)) j)
        with (getj (setj s1 j (with_phase x PEvalQ)) j).
      rewrite (getj_setj_same _ _ _ _ Hx). intros [= <-]. simpl. congruence.
  - apply (live_close _ j).
    + apply live_phase; auto; discriminate.
    + intros z. rewrite (getj_setj_same _ _ _ _ Hx). intros [= <-]. simpl. congruence.
Qed.

Lemma live_reject_job s i j e :
  nth_error (queue s) i = Some (EvReject j e) -> Inv c s -> Live s None ->
  Live (reject_job c (pop_queue s i) j e) None.
Proof.
  intros Hq I L.
  assert (I0 : Inv c (pop_queue s i)) by (eapply inv_pop_nonexec; eauto).
  pose proof (live_pop s i _ Hq L) as L0. simpl evjob in L0.
  pose proof (live_maybe_release c Hfix _ (Some j) j I0 L0) as L1.
  pose proof (inv_maybe_release c Hfix _ j I0) as I1.
  unfold reject_job. set (s1 := maybe_release c (pop_queue s i) j) in *.
  assert (Hn : forall x, getj s1 j = Some x -> jholds x = false).
  { intros x Hx. eapply maybe_release_not_holder; eauto. }
  apply (live_close _ j).
  - apply live_settle; auto.
  - intros z Hz Hh. destruct (settle_holds c _ _ _ _ _ Hz) as (z' & Hz' & E).
    rewrite (Hn _ Hz') in E. congruence.
Qed.

Lemma live_resolve_job s i j v :
  nth_error (queue s) i = Some (EvResolve j v) -> Inv c s -> Live s None ->
  Live (resolve_job c (pop_queue s i) j v) None.
Proof.
  intros Hq I L.
  assert (I0 : Inv c (pop_queue s i)) by (eapply inv_pop_nonexec; eauto).
  pose proof (live_pop s i _ Hq L) as L0. simpl evjob in L0.
  assert (Hn : forall x, getj (pop_queue s i) j = Some x -> jholds x = false).
  { intros x Hx. change (getj (pop_queue s i) j) with (getj s j) in Hx.
    assert (G : good x) by (eapply (l_res _ _ L); eauto; eapply nth_error_In; eauto).
    destruct G as [G|G].
    - eapply (i_cached _ _ I); eauto.
    - destruct (i_rel _ _ I j x Hx) as [R _]. destruct (jholds x); auto. simpl in R. lia. }
  unfold resolve_job. apply (live_close _ j).
  - apply live_settle; auto.
  - intros z Hz Hh. destruct (settle_holds c _ _ _ _ _ Hz) as (z' & Hz' & E).
    rewrite (Hn _ Hz') in E. congruence.
Qed.

Lemma live_exec_job s i j co :
  nth_error (queue s) i = Some (EvExec j) -> Inv c s -> Live s None ->
  Live (exec_job c (pop_queue s i) j co) None.
Proof.
  intros Hq I L. destruct (inv_pop_exec c s i j Hq I) as [I0 HF].
  pose proof (live_pop s i _ Hq L) as L0. simpl evjob in L0.
  set (s0 := pop_queue s i) in *. unfold exec_job.
  destruct (getj s0 j) as [x|] eqn:Hx.
  2:{ apply (live_close s0 j L0). intros x. rewrite Hx. discriminate. }
  assert (F : Free s0 j x) by (apply HF; exact Hx).
  assert (L1 : Live s0 None).
  { apply (live_close s0 j L0). intros z. rewrite Hx. intros [= <-]. rewrite (f_h _ _ _ F). discriminate. }
  clear L0.
  destruct (if jnocse x then None else lookup_pending s0 (jkey x, jctx x)) as [t|].
  { apply live_skip; [now apply inv_free_sub|].
    apply (live_frame (setj s0 j (with_phase x (PCollapsed t)))); [reflexivity|reflexivity|].
    apply live_phase; auto; try discriminate. apply (f_h _ _ _ F). intros [H|H]; discriminate. }
  match goal with |- Live (match ?h with _ => _ end) None => destruct h as [[v|e]|] end.
  - apply live_skip; [apply inv_enqueue_nonexec; [reflexivity|]; now apply inv_free_cached|].
    apply live_enqueue; try discriminate.
    + apply live_mark_cached; auto. apply (f_h _ _ _ F). left. discriminate.
    + simpl. rewrite (getj_setj_same _ _ _ _ Hx). eauto.
    + intros k z [= <-]. change (getj (setj s0 j (mark_cached x v PCacheQ)) j = Some z -> good' z).
      rewrite (getj_setj_same _ _ _ _ Hx). intros [= <-]. left. left. reflexivity.
  - apply live_skip; [apply inv_enqueue_nonexec; [reflexivity|]; now apply inv_free_cached|].
    apply live_enqueue; try discriminate.
    + apply live_mark_cached; auto. apply (f_h _ _ _ F). left. discriminate.
    + simpl. rewrite (getj_setj_same _ _ _ _ Hx). eauto.
  - destruct (dryrun c).
    + destruct (jbadexec x).
      * apply live_enqueue; try discriminate.
        -- apply live_phase; auto; try discriminate. apply (f_h _ _ _ F). intros [H|H]; discriminate.
        -- simpl. rewrite (getj_setj_same _ _ _ _ Hx). eauto.
      * apply live_phase; auto; try discriminate. apply (f_h _ _ _ F). intros [H|H]; discriminate.
    + destruct (negb (within c (used s0) (jlimits x))).
      * apply (live_frame (setj s0 j (with_phase x PWaiting))); [reflexivity|reflexivity|].
        apply live_phase; auto; try discriminate. apply (f_h _ _ _ F). intros [H|H]; discriminate.
      * destruct (jbadexec x).
        -- (* consume, then rejected for an unknown executor: the Reject event is queued *)
           set (u := consume (used s0) (jlimits x)).
           change (enqueue (setj (set_used s0 u) j (mark_holds x PReported)) (EvReject j 0%Z))
             with (set_used (setj (enqueue s0 (EvReject j 0%Z)) j (mark_holds x PReported)) u).
           apply (live_frame (setj (enqueue s0 (EvReject j 0%Z)) j (mark_holds x PReported))); [reflexivity|reflexivity|].
           apply (live_setj (enqueue s0 (EvReject j 0%Z)) None j x); auto; unfold good; simpl; auto; try discriminate.
           ++ apply live_enqueue; auto; try discriminate. simpl. eauto.
           ++ intros [H|H]; discriminate.
           ++ intros _ _. right. right. exists 0%Z. apply in_or_app. right. now left.
        -- set (u := consume (used s0) (jlimits x)).
           apply (live_frame (setj s0 j (mark_submitted (mark_holds x PSubmitted)))); [reflexivity|reflexivity|].
           apply (live_setj s0 None j x); auto; unfold good; simpl; auto; try discriminate.
           intros [H|H]; discriminate.
Qed.

Lemma live_new s key ctx l nocse prov bad :
  Live s None -> Live (step c s (ONew key ctx l nocse prov bad)) None.
Proof.
  intros L. cbn [step]. set (nj := new_job key ctx l nocse prov bad).
  destruct L as [a1 a2 a3 a4 a5 a6].
  assert (Hg : forall k z, nth_error (jobs s ++ [nj]) k = Some z ->
                 (k = length (jobs s) /\ z = nj) \/ (k < length (jobs s) /\ getj s k = Some z)).
  { intros k z. unfold getj. destruct (Nat.lt_ge_cases k (length (jobs s))) as [Hlt|Hge].
    - rewrite nth_error_app1 by assumption. auto.
    - rewrite nth_error_app2 by assumption. destruct (k - length (jobs s)) as [|n] eqn:E; simpl.
      + intros [= <-]. left. split; [lia|reflexivity].
      + destruct n; discriminate. }
  assert (Hnew : forall e, In e (queue s) -> evjob e <> length (jobs s)).
  { intros e He. specialize (a6 e He). lia. }
  constructor; unfold getj; simpl jobs; simpl queue.
  - intros k z Hz Hp. destruct (Hg _ _ Hz) as [[-> ->]|[_ Hz']]; [discriminate|eauto].
  - intros k z Hz Hp. destruct (Hg _ _ Hz) as [[-> ->]|[_ Hz']]; [destruct Hp; discriminate|eauto].
  - intros k z Hz Hin. apply in_app_or in Hin. destruct Hin as [Hin|[E|[]]]; [|discriminate].
    destruct (Hg _ _ Hz) as [[-> ->]|[_ Hz']]; [|eauto]. exfalso. apply (Hnew _ Hin). reflexivity.
  - intros k z v Hz Hin. apply in_app_or in Hin. destruct Hin as [Hin|[E|[]]]; [|discriminate].
    destruct (Hg _ _ Hz) as [[-> ->]|[_ Hz']]; [|eauto]. exfalso. apply (Hnew _ Hin). reflexivity.
  - intros k z Hz Hh _. destruct (Hg _ _ Hz) as [[-> ->]|[_ Hz']]; [discriminate|].
    destruct (a5 _ _ Hz' Hh) as [H|[H|(e0 & H)]]; auto; try discriminate.
    + right. left. apply in_or_app. now left.
    + right. right. exists e0. apply in_or_app. now left.
  - intros e He. rewrite app_length. simpl. apply in_app_or in He. destruct He as [He|[<-|[]]].
    + specialize (a6 e He). lia.
    + simpl. lia.
Qed.

Lemma live_init : Live init None.
Proof.
  constructor; unfold getj; simpl; intros; try (destruct j; discriminate); try contradiction.
Qed.

Lemma live_step s o : wf_op o -> Inv c s -> Live s None -> Live (step c s o) None.
Proof.
  intros Hwf I L. destruct o as [key ctx l nocse prov bad|k j0 co|j ok e|j o].
  - now apply live_new.
  - cbn [step]. set (i := find_event (queue s) k j0 0).
    destruct (nth_error (queue s) i) as [[j|j|j e|j v]|] eqn:Hq; auto.
    + now apply live_exec_job.
    + now apply live_done_job.
    + now apply live_reject_job.
    + now apply live_resolve_job.
  - (* executor reports: phase Submitted -> Reported, completion event queued *)
    cbn [step]. destruct (phase_is s j _) eqn:Hp; auto. destruct (getj s j) as [x|] eqn:Hx; auto.
    assert (Hph : jphase x = PSubmitted).
    { unfold phase_is in Hp. rewrite Hx in Hp. destruct (jphase x); try discriminate. reflexivity. }
    set (e0 := if ok then EvDone j else EvReject j e).
    change (enqueue (setj s j (with_phase x PReported)) e0) with (setj (enqueue s e0) j (with_phase x PReported)).
    assert (L1 : Live (enqueue s e0) None).
    { apply live_enqueue; auto.
      - unfold e0. destruct ok; simpl; eauto.
      - intros k z E Hz. unfold e0 in E. destruct ok; [|discriminate]. injection E as <-.
        rewrite Hx in Hz. injection Hz as <-.
        destruct (l_sub _ _ L j x Hx Hph) as [H|H]; [now right|left; now right].
      - intros k v z E. unfold e0 in E. destruct ok; discriminate. }
    apply (live_setj (enqueue s e0) None j x); auto; simpl; try discriminate.
    + intros [H|H]; discriminate.
    + intros Hh _. right. unfold e0. destruct ok.
      * left. apply in_or_app. right. now left.
      * right. exists e. apply in_or_app. right. now left.
  - (* evaluation of the result finished *)
    cbn [step]. destruct (phase_is s j _) eqn:Hp; auto. destruct (getj s j) as [x|] eqn:Hx; auto.
    assert (Hph : jphase x = PEvaluating).
    { unfold phase_is in Hp. rewrite Hx in Hp. destruct (jphase x); try discriminate. reflexivity. }
    assert (Hg : good x) by (eapply (l_eval _ _ L); eauto).
    assert (Hh : jholds x = false).
    { destruct Hg as [G|G].
      - eapply (i_cached _ _ I); eauto.
      - destruct (i_rel _ _ I j x Hx) as [R _]. destruct (jholds x); auto. simpl in R. lia. }
    apply live_enqueue.
    + apply live_phase; auto; discriminate.
    + simpl. destruct o; simpl; rewrite (getj_setj_same _ _ _ _ Hx); eauto.
    + intros k z E. destruct o; discriminate.
    + intros k v z E Hz. destruct o as [v0|e0]; [|discriminate]. injection E as <- <-.
      change (getj (setj s j (with_phase x PEvalQ)) j = Some z) in Hz.
      rewrite (getj_setj_same _ _ _ _ Hx) in Hz. injection Hz as <-. exact Hg.
Qed.

Theorem live_run ops : Forall wf_op ops -> Live (run c ops) None /\ Inv c (run c ops).
Proof.
  unfold run. intros H. rewrite <- fold_left_rev_right. apply Forall_rev in H.
  induction H as [|o l Ho _ [IH1 IH2]]; simpl.
  - split; [apply live_init|now apply inv_init].
  - split; [now apply live_step|now apply inv_step].
Qed.
End L.
