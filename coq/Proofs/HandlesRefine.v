(** C25: the handle tables refine the reference lineage model [lin] (Model/Handles.v).
    - with the repaired rollback query ([rb_valid_only] = false) exactly, for every history;
    - with the shipped query in one direction only (the tables never invalidate more than the
      reference does) -- the other direction is refuted in Props/C25.v.
    Plus the replay decision of _get_cache. *)
From Coq Require Import List NArith Bool Arith Lia.
From RV Require Import Model.Handles Proofs.HandlesDfs.
Import ListNotations.
Open Scope list_scope.

Definition validr (rs : list (hid * bool)) (i : hid) : bool :=
  match lookup i rs with Some v => v | None => false end.
Definition hasr (rs : list (hid * bool)) (i : hid) : Prop := lookup i rs <> None.

Lemma is_valid_validr : forall d i, is_valid_handle d i = validr (rows d) i.
Proof. reflexivity. Qed.

(* ------------------------------------------------------------------ upsert *)
Lemma validr_upsert : forall dv j rs i, validr (upsert true dv j rs) i = hid_eqb i j || validr rs i.
Proof.
  intros dv j rs i. unfold validr. induction rs as [|[k v] rs IH]; simpl.
  - destruct (hid_eqb i j); reflexivity.
  - destruct (hid_eqb j k) eqn:Hjk; simpl.
    + apply hid_eqb_eq in Hjk. subst k. destruct (hid_eqb i j); reflexivity.
    + destruct (hid_eqb i k) eqn:Hik; [|exact IH].
      apply hid_eqb_eq in Hik. subst k.
      assert (hid_eqb i j = false) as ->; [|reflexivity].
      apply hid_eqb_neq. intros ->. rewrite hid_eqb_refl in Hjk. discriminate.
Qed.

Lemma hasr_upsert : forall u dv j rs i, hasr (upsert u dv j rs) i <-> i = j \/ hasr rs i.
Proof.
  intros u dv j rs i. unfold hasr. induction rs as [|[k v] rs IH]; simpl.
  - destruct (hid_eqb i j) eqn:H; [apply hid_eqb_eq in H | apply hid_eqb_neq in H]; split; intros K;
      try (left; assumption); try discriminate; try congruence. destruct K as [K|K]; congruence.
  - destruct (hid_eqb j k) eqn:Hjk; simpl.
    + apply hid_eqb_eq in Hjk. subst k. destruct (hid_eqb i j) eqn:H.
      * apply hid_eqb_eq in H. split; intros; [left; assumption | discriminate].
      * split; [intros K; right; exact K | intros [K|K]; [subst; rewrite hid_eqb_refl in H; discriminate | exact K]].
    + destruct (hid_eqb i k) eqn:Hik.
      * split; intros; [right|]; discriminate.
      * exact IH.
Qed.

Lemma validr_fold_upsert : forall dv l rs s,
  validr (fold_left (fun rs i => upsert true dv i rs) l rs) s = true <-> In s l \/ validr rs s = true.
Proof.
  intros dv l. induction l as [|a l IH]; intros rs s; simpl.
  - split; [right; assumption | intros [[]|H]; exact H].
  - rewrite IH, validr_upsert, orb_true_iff, hid_eqb_eq. split.
    + intros [H|[H|H]]; [left; right; exact H | left; left; symmetry; exact H | right; exact H].
    + intros [[H|H]|H]; [right; left; symmetry; exact H | left; exact H | right; right; exact H].
Qed.

Lemma hasr_fold_upsert : forall u dv l rs s,
  hasr rs s -> hasr (fold_left (fun rs i => upsert u dv i rs) l rs) s.
Proof.
  intros u dv l. induction l as [|a l IH]; intros rs s H; simpl; [exact H|].
  apply IH. apply hasr_upsert. right. exact H.
Qed.

(* ------------------------------------------------------------------ advance *)
Lemma In_add_edge : forall e e' es, In e (add_edge e' es) <-> e = e' \/ In e es.
Proof.
  intros. unfold add_edge. destruct (mem_edge e' es) eqn:H.
  - apply mem_edge_In in H. split; [right; assumption | intros [->|K]; assumption].
  - rewrite in_app_iff. simpl. split; [intros [K|[K|[]]]; [right|left]; auto | intros [K|K]; [right; left|left]; auto].
Qed.

Definition adv_f (u dv : bool) (ch : hid) (d' : db) (p : hobj) : db :=
  mkDb (upsert u dv (oid p) (rows d')) (add_edge (oid p, ch) (edges d')).

Lemma adv_fold_rows : forall u dv ch ps d,
  rows (fold_left (adv_f u dv ch) ps d) = fold_left (fun rs i => upsert u dv i rs) (map oid ps) (rows d).
Proof. intros u dv ch ps. induction ps as [|p ps IH]; intros; simpl; [reflexivity | rewrite IH; reflexivity]. Qed.

Lemma adv_fold_edges : forall u dv ch ps d x,
  In x (edges (fold_left (adv_f u dv ch) ps d)) <-> (exists p, In p ps /\ x = (oid p, ch)) \/ In x (edges d).
Proof.
  intros u dv ch ps. induction ps as [|p ps IH]; intros; simpl.
  - split; [right; assumption | intros [[p [[] _]]|H]; exact H].
  - rewrite IH. unfold adv_f. cbn [edges]. rewrite In_add_edge. split.
    + intros [[q [H1 H2]]|[H|H]]; [left; exists q; auto | left; exists p; auto | right; exact H].
    + intros [[q [[->|H1] H2]]|H]; [right; left; exact H2 | left; exists q; auto | right; right; exact H].
Qed.

Lemma advance_unfold : forall cf ps c d,
  advance cf ps c d =
  fold_left (adv_f (adv_parent_upd cf) (default_valid cf) (oid c)) ps
    (mkDb (upsert (adv_child_upd cf) (default_valid cf) (oid c)
             (fold_left (fun rs i => upsert (adv_chain_upd cf) (default_valid cf) i rs) (fork_touch ps) (rows d)))
          (edges d)).
Proof. reflexivity. Qed.

Lemma advance_valid : forall vo cse ps c d s,
  is_valid_handle (advance (std_cfg vo cse) ps c d) s = true <->
  s = oid c \/ In s (map oid ps) \/ In s (fork_touch ps) \/ is_valid_handle d s = true.
Proof.
  intros. rewrite advance_unfold. cbn [std_cfg adv_chain_upd adv_child_upd adv_parent_upd default_valid].
  rewrite is_valid_validr, adv_fold_rows. cbn [rows]. rewrite validr_fold_upsert, validr_upsert, orb_true_iff, hid_eqb_eq,
    validr_fold_upsert. unfold is_valid_handle, validr. tauto.
Qed.

Lemma advance_edges : forall cf ps c d a b,
  In (a, b) (edges (advance cf ps c d)) <-> (In a (map oid ps) /\ b = oid c) \/ In (a, b) (edges d).
Proof.
  intros. rewrite advance_unfold, adv_fold_edges. cbn [edges]. rewrite in_map_iff. split.
  - intros [[p [H1 [= -> ->]]]|H]; [left; split; [exists p; auto | reflexivity] | right; exact H].
  - intros [[[p [<- H1]] ->]|H]; [left; exists p; auto | right; exact H].
Qed.

Lemma advance_hasr : forall vo cse ps c d s,
  hasr (rows d) s \/ In s (map oid ps) -> hasr (rows (advance (std_cfg vo cse) ps c d)) s.
Proof.
  intros vo cse ps c d s. rewrite advance_unfold. cbn [std_cfg adv_chain_upd adv_child_upd adv_parent_upd default_valid].
  rewrite adv_fold_rows. cbn [rows]. intros [H|H].
  - apply hasr_fold_upsert. apply hasr_upsert. right. apply hasr_fold_upsert. exact H.
  - revert H. generalize (upsert true true (oid c)
        (fold_left (fun rs i => upsert true true i rs) (fork_touch ps) (rows d))).
    induction (map oid ps) as [|a l IH]; intros r H; [destruct H|]. simpl.
    destruct H as [->|H]; [|apply IH; exact H].
    apply hasr_fold_upsert. apply hasr_upsert. left. reflexivity.
Qed.

(* ------------------------------------------------------------------ rollback *)
Lemma lookup_invalidate : forall vis rs i,
  lookup i (invalidate vis rs) = option_map (fun v => if mem i vis then false else v) (lookup i rs).
Proof.
  intros vis rs i. induction rs as [|[k v] rs IH]; simpl; [reflexivity|].
  destruct (mem k vis) eqn:Hk; simpl; destruct (hid_eqb i k) eqn:Hik; try exact IH;
    apply hid_eqb_eq in Hik; subst k; rewrite Hk; reflexivity.
Qed.
Lemma validr_invalidate : forall vis rs i, validr (invalidate vis rs) i = validr rs i && negb (mem i vis).
Proof.
  intros. unfold validr. rewrite lookup_invalidate. destruct (lookup i rs) as [v|]; simpl; [|reflexivity].
  destruct (mem i vis); simpl; [rewrite andb_false_r | rewrite andb_true_r]; reflexivity.
Qed.
Lemma hasr_invalidate : forall vis rs i, hasr (invalidate vis rs) i <-> hasr rs i.
Proof. intros. unfold hasr. rewrite lookup_invalidate. destruct (lookup i rs); simpl; split; congruence. Qed.

Lemma In_rb_pairs : forall vo cse h d a b,
  In (a, b) (rb_pairs (std_cfg vo cse) h d) <->
  In (a, b) (edges d) /\ fst a = fst h /\ exists v, lookup a (rows d) = Some v /\ (vo = true -> v = true).
Proof.
  intros. unfold rb_pairs. rewrite filter_In. cbn [std_cfg rb_same_name rb_valid_only fst negb orb].
  rewrite andb_true_iff, N.eqb_eq. destruct (lookup a (rows d)) as [v|].
  - destruct vo; simpl.
    + split; [intros [H1 [H2 H3]]; repeat split; auto; exists v; auto
             | intros [H1 [H2 [w [[= <-] H4]]]]; auto].
    + split; [intros [H1 [H2 H3]]; repeat split; auto; exists v; split; auto; discriminate
             | intros [H1 [H2 _]]; auto].
  - split; [intros [_ [_ H]]; discriminate | intros [_ [_ [w [H _]]]]; discriminate].
Qed.

(** What one rollback does, in any standard configuration: it finishes, leaves the edges alone and
    turns invalid exactly the strict descendants over the queried pairs. *)
Lemma rollback_spec : forall vo cse h d, exists d',
  rollback (std_cfg vo cse) h d = Done d' /\ edges d' = edges d /\
  (forall s, hasr (rows d') s <-> hasr (rows d) s) /\
  forall s, is_valid_handle d' s = true <->
            is_valid_handle d s = true /\ ~ tc (erel (rb_pairs (std_cfg vo cse) h d)) h s.
Proof.
  intros. unfold rollback.
  destruct (dfs_spec (rb_pairs (std_cfg vo cse) h d) h) as [res [Hres Hspec]]. rewrite Hres.
  eexists. split; [reflexivity|]. split; [reflexivity|]. split.
  - intros s. apply hasr_invalidate.
  - intros s. rewrite !is_valid_validr. cbn [rows]. rewrite validr_invalidate, andb_true_iff, negb_true_iff,
      mem_false, Hspec. reflexivity.
Qed.

(* ------------------------------------------------------------------ the simulation *)
Record Inv (d : db) (l : lin) : Prop := mkInv {
  inv_valid : forall s, is_valid_handle d s = true <-> V l s;
  inv_edges : forall a b, In (a, b) (edges d) <-> E l a b;
  inv_rows : forall a b, In (a, b) (edges d) -> hasr (rows d) a;
  inv_names : forall a b, In (a, b) (edges d) -> fst a = fst b }.

Lemma Inv0 : Inv db0 lin0.
Proof. split; simpl; intros; try tauto; split; intros; try discriminate; tauto. Qed.

Lemma tc_same_name : forall d l h, Inv d l -> forall cse a x,
  tc (E l) a x -> fst a = fst h -> tc (erel (rb_pairs (std_cfg false cse) h d)) a x.
Proof.
  intros d l h I cse a x T. induction T as [a b R|a b c R T IH]; intros Hn.
  - apply tc_one. unfold erel. apply In_rb_pairs. apply (inv_edges _ _ I) in R. split; [exact R|]. split; [exact Hn|].
    pose proof (inv_rows _ _ I _ _ R) as Hr. unfold hasr in Hr.
    destruct (lookup a (rows d)) as [v|]; [exists v; split; [reflexivity | discriminate] | congruence].
  - apply (inv_edges _ _ I) in R. eapply tc_cons.
    + unfold erel. apply In_rb_pairs. split; [exact R|]. split; [exact Hn|].
      pose proof (inv_rows _ _ I _ _ R) as Hr. unfold hasr in Hr.
      destruct (lookup a (rows d)) as [v|]; [exists v; split; [reflexivity | discriminate] | congruence].
    + apply IH. rewrite <- Hn. symmetry. eapply inv_names; eauto.
Qed.

Lemma step_fixed : forall cse d l o, Inv d l -> wf_op o ->
  exists d', step (std_cfg false cse) d o = Done d' /\ Inv d' (lin_step l o).
Proof.
  intros cse d l o I W. destruct o as [ps c|h]; simpl.
  - eexists. split; [reflexivity|]. split; simpl.
    + intros s. rewrite advance_valid, (inv_valid _ _ I). reflexivity.
    + intros a b. rewrite advance_edges, (inv_edges _ _ I). reflexivity.
    + intros a b H. apply advance_edges in H. apply advance_hasr.
      destruct H as [[H _]|H]; [right; exact H | left; eapply inv_rows; eauto].
    + intros a b H. apply advance_edges in H. destruct H as [[H ->]|H]; [|eapply inv_names; eauto].
      apply in_map_iff in H. destruct H as [p [<- Hp]]. apply W. exact Hp.
  - destruct (rollback_spec false cse (oid h) d) as [d' [Hr [He [Hh Hv]]]].
    exists d'. split; [exact Hr|]. split; simpl.
    + intros s. rewrite Hv, (inv_valid _ _ I). split; intros [A B]; split; auto; intros T; apply B.
      * eapply tc_same_name; eauto.
      * eapply tc_mono; [|exact T]. intros a b K. apply In_rb_pairs in K. apply (inv_edges _ _ I). tauto.
    + intros a b. rewrite He. apply (inv_edges _ _ I).
    + intros a b. rewrite He. intros H. apply Hh. eapply inv_rows; eauto.
    + intros a b. rewrite He. eapply inv_names; eauto.
Qed.

Lemma run_fixed : forall cse hist d l, Inv d l -> Forall wf_op hist ->
  exists d', run_from (std_cfg false cse) d hist = Done d' /\ Inv d' (ref_from l hist).
Proof.
  intros cse hist. induction hist as [|o hist IH]; intros d l I W; simpl.
  - exists d. auto.
  - inversion W as [|? ? Wo Wr]; subst.
    destruct (step_fixed cse d l o I Wo) as [d1 [Hs I1]]. rewrite Hs. apply IH; assumption.
Qed.

Theorem refine_fixed : forall cse hist, Forall wf_op hist ->
  exists d, run (std_cfg false cse) hist = Done d /\
            (forall s, is_valid_handle d s = true <-> V (ref hist) s) /\
            (forall a b, In (a, b) (edges d) <-> E (ref hist) a b).
Proof.
  intros cse hist W. destruct (run_fixed cse hist db0 lin0 Inv0 W) as [d [H I]].
  exists d. split; [exact H|]. split; [apply (inv_valid _ _ I) | apply (inv_edges _ _ I)].
Qed.

(** One direction, for the shipped query too: whatever the reference calls valid is valid in the
    tables; edges are exact; the traversal never runs out of fuel.  No well-formedness needed. *)
Record Inv1 (d : db) (l : lin) : Prop := mkInv1 {
  inv1_valid : forall s, V l s -> is_valid_handle d s = true;
  inv1_edges : forall a b, In (a, b) (edges d) <-> E l a b }.

Lemma step_sound : forall vo cse d l o, Inv1 d l ->
  exists d', step (std_cfg vo cse) d o = Done d' /\ Inv1 d' (lin_step l o).
Proof.
  intros vo cse d l o I. destruct o as [ps c|h]; simpl.
  - eexists. split; [reflexivity|]. split; simpl.
    + intros s H. apply advance_valid. destruct H as [H|[H|[H|H]]]; auto.
      right. right. right. apply (inv1_valid _ _ I). exact H.
    + intros a b. rewrite advance_edges, (inv1_edges _ _ I). reflexivity.
  - destruct (rollback_spec vo cse (oid h) d) as [d' [Hr [He [Hh Hv]]]].
    exists d'. split; [exact Hr|]. split; simpl.
    + intros s [A B]. apply Hv. split; [apply (inv1_valid _ _ I); exact A|].
      intros T. apply B. eapply tc_mono; [|exact T]. intros a b K. apply In_rb_pairs in K.
      apply (inv1_edges _ _ I). tauto.
    + intros a b. rewrite He. apply (inv1_edges _ _ I).
Qed.

Lemma run_sound : forall vo cse hist d l, Inv1 d l ->
  exists d', run_from (std_cfg vo cse) d hist = Done d' /\ Inv1 d' (ref_from l hist).
Proof.
  intros vo cse hist. induction hist as [|o hist IH]; intros d l I; simpl.
  - exists d. auto.
  - destruct (step_sound vo cse d l o I) as [d1 [Hs I1]]. rewrite Hs. apply IH; assumption.
Qed.

Theorem sound_any : forall vo cse hist,
  exists d, run (std_cfg vo cse) hist = Done d /\
            (forall s, V (ref hist) s -> is_valid_handle d s = true) /\
            (forall a b, In (a, b) (edges d) <-> E (ref hist) a b).
Proof.
  intros. destruct (run_sound vo cse hist db0 lin0) as [d [H I]].
  - split; simpl; intros; tauto.
  - exists d. split; [exact H|]. split; [apply (inv1_valid _ _ I) | apply (inv1_edges _ _ I)].
Qed.

(* ------------------------------------------------------------------ the two named clauses *)
Lemma ref_snoc : forall hist o, ref (hist ++ [o]) = lin_step (ref hist) o.
Proof. intros. unfold ref, ref_from. rewrite fold_left_app. reflexivity. Qed.

Lemma run_from_app : forall c h1 h2 d,
  run_from c d (h1 ++ h2) = match run_from c d h1 with Done d1 => run_from c d1 h2 | OutOfFuel => OutOfFuel end.
Proof.
  intros c h1. induction h1 as [|o h1 IH]; intros; simpl; [reflexivity|].
  destruct (step c d o); [apply IH | reflexivity].
Qed.

(** "rolling back to a state invalidates every state derived from it" (repaired query) *)
Theorem rollback_invalidates_descendants : forall cse hist h, Forall wf_op hist ->
  exists d, run (std_cfg false cse) (hist ++ [Rb h]) = Done d /\
            forall s, tc (E (ref hist)) (oid h) s -> is_valid_handle d s = false.
Proof.
  intros cse hist h W.
  destruct (refine_fixed cse (hist ++ [Rb h])) as [d [H [A _]]].
  - apply Forall_app. split; [exact W | repeat constructor].
  - exists d. split; [exact H|]. intros s T. destruct (is_valid_handle d s) eqn:K; [|reflexivity].
    apply A in K. rewrite ref_snoc in K. simpl in K. tauto.
Qed.

(** ... and of nothing else: a state that is not derived from it keeps its validity. *)
Theorem rollback_frame : forall cse hist h, Forall wf_op hist ->
  exists d0 d, run (std_cfg false cse) hist = Done d0 /\ run (std_cfg false cse) (hist ++ [Rb h]) = Done d /\
               forall s, ~ tc (E (ref hist)) (oid h) s -> is_valid_handle d s = is_valid_handle d0 s.
Proof.
  intros cse hist h W.
  destruct (refine_fixed cse hist W) as [d0 [H0 [A0 _]]].
  destruct (refine_fixed cse (hist ++ [Rb h])) as [d [H [A _]]].
  { apply Forall_app. split; [exact W | repeat constructor]. }
  exists d0, d. split; [exact H0|]. split; [exact H|]. intros s N.
  apply eq_true_iff_eq. rewrite A, A0, ref_snoc. simpl. tauto.
Qed.

(** "deriving a state again makes it valid again" (any configuration, any history before it) *)
Theorem rederive_revalidates : forall vo cse hist ps c,
  exists d, run (std_cfg vo cse) (hist ++ [Adv ps c]) = Done d /\
            is_valid_handle d (oid c) = true /\ forall p, In p ps -> is_valid_handle d (oid p) = true.
Proof.
  intros. destruct (sound_any vo cse (hist ++ [Adv ps c])) as [d [H [A _]]].
  exists d. split; [exact H|]. rewrite ref_snoc in A. split.
  - apply A. simpl. left. reflexivity.
  - intros p Hp. apply A. simpl. right. left. apply in_map. exact Hp.
Qed.

(** What the shipped query still guarantees: every state reachable from the handle through
    *currently valid* states (the handle included) of the same name is invalidated. *)
Theorem shipped_rollback_valid_paths : forall cse d h, exists d',
  rollback (std_cfg true cse) h d = Done d' /\
  forall s, tc (fun a b => In (a, b) (edges d) /\ fst a = fst h /\ is_valid_handle d a = true) h s ->
            is_valid_handle d' s = false.
Proof.
  intros. destruct (rollback_spec true cse h d) as [d' [Hr [_ [_ Hv]]]]. exists d'. split; [exact Hr|].
  intros s T. destruct (is_valid_handle d' s) eqn:K; [|reflexivity]. apply Hv in K. destruct K as [_ K].
  exfalso. apply K. eapply tc_mono; [|exact T]. intros a b [H1 [H2 H3]]. unfold erel. apply In_rb_pairs.
  split; [exact H1|]. split; [exact H2|]. unfold is_valid_handle in H3.
  destruct (lookup a (rows d)) as [v|]; [|discriminate]. exists v. split; [reflexivity | intros _; exact H3].
Qed.

(* ------------------------------------------------------------------ replay decision *)
Lemma replay_checked : forall c d t ls i ok,
  (cse_checks_valid c = true \/ t <> CSE) ->
  get_cache c d t (CVal ls) = true -> In (LHandle i ok) ls -> is_valid_handle d i = true.
Proof.
  intros c d t ls i ok Hc Hg Hin. unfold get_cache in Hg.
  assert (handles_valid d ls = true) as Hv.
  { destruct (is_cse t) eqn:Ht.
    - destruct Hc as [Hc|Hc]; [rewrite Hc in Hg; exact Hg | destruct t; try discriminate; congruence].
    - destruct (is_miss t); [discriminate|]. unfold valid_nested in Hg. unfold handles_valid.
      rewrite forallb_forall in *. intros x Hx. specialize (Hg x Hx). destruct x; [exact Hg | reflexivity]. }
  unfold handles_valid in Hv. rewrite forallb_forall in Hv. specialize (Hv _ Hin). simpl in Hv.
  apply andb_true_iff in Hv. tauto.
Qed.

(** "a cached result containing an invalidated handle state is never replayed" (repaired code) *)
Theorem no_invalid_replay_fixed : forall hist, Forall wf_op hist ->
  exists d, run fixed hist = Done d /\
    forall t ls i ok, get_cache fixed d t (CVal ls) = true -> In (LHandle i ok) ls -> V (ref hist) i.
Proof.
  intros hist W. destruct (refine_fixed true hist W) as [d [H [A _]]]. exists d. split; [exact H|].
  intros t ls i ok Hg Hin. apply A. eapply replay_checked; eauto. left. reflexivity.
Qed.

(* ------------------------------------------------------------------ Scheduler._perform_rollbacks *)
Lemma ref_rbs : forall hs l,
  E (ref_from l (map Rb hs)) = E l /\
  forall s, V (ref_from l (map Rb hs)) s -> V l s /\ forall h, In h hs -> ~ tc (E l) (oid h) s.
Proof.
  induction hs as [|h hs IH]; intros l; simpl.
  - split; [reflexivity|]. intros s H. split; [exact H | intros h []].
  - destruct (IH (lin_step l (Rb h))) as [HE HV]. split; [exact HE|].
    intros s H. apply HV in H. simpl in H. destruct H as [[A B] C]. split; [exact A|].
    intros h' [<-|Hin]; [exact B | apply C; exact Hin].
Qed.

(** A job that is about to execute rolls back to every Handle state among its arguments: afterwards
    every state derived from any of them is invalid (repaired query, code as it is: every Handle). *)
Theorem perform_rollbacks_all : forall cse hist hs, Forall wf_op hist ->
  exists d0 d, run (std_cfg false cse) hist = Done d0 /\
               perform_rollbacks (std_cfg false cse) hs d0 = Done d /\
               forall h s, In h hs -> tc (E (ref hist)) (oid h) s -> is_valid_handle d s = false.
Proof.
  intros cse hist hs W.
  destruct (refine_fixed cse hist W) as [d0 [H0 _]].
  destruct (refine_fixed cse (hist ++ map Rb hs)) as [d [H [A _]]].
  { apply Forall_app. split; [exact W|]. apply Forall_forall. intros o Ho. apply in_map_iff in Ho.
    destruct Ho as [h [<- _]]. exact I. }
  exists d0, d. split; [exact H0|]. split.
  - unfold perform_rollbacks, arg_rollbacks. cbn [std_cfg rb_first_per_name].
    unfold run in H, H0. rewrite run_from_app, H0 in H. exact H.
  - intros h s Hin T. destruct (is_valid_handle d s) eqn:K; [|reflexivity].
    apply A in K. unfold ref, ref_from in K. rewrite fold_left_app in K.
    apply (proj2 (ref_rbs hs (fold_left lin_step hist lin0))) in K. destruct K as [_ K].
    exfalso. exact (K h Hin T).
Qed.
