(** Corollary for Scheduler.evaluate: expressions nested anywhere in the supported
    containers are replaced by their results.  What eval_term / resolve_term do to a
    single leaf is a premise (it is the subject of other properties). *)
From Coq Require Import List ZArith Bool.
From RV Require Import Model.Nested Proofs.NestedSpec Proofs.NestedSubst Proofs.NestedMap.
Import ListNotations.
Open Scope list_scope.

Section Eval.
Variable A : Type.
Variable leq : A -> A -> bool.
Variable lhash : A -> bool.
Notation val := (val A).
Variable is_expr : A -> bool.           (* the leaf is an Expression *)
Variables ev rs : A -> val.             (* eval_term, resolve_term *)
Hypothesis H_plain : forall a, is_expr a = false -> ev a = Leaf a /\ rs a = Leaf a.
Hypothesis H_result : forall a, is_expr a = true ->
  forall b, In b (leaves (subst rs (ev a))) -> is_expr b = false.

Definition result_of (a : A) : val := subst rs (ev a).

Lemma result_no_expr : forall (v : val) b, In b (leaves (subst result_of v)) -> is_expr b = false.
Proof.
  intros v b Hb. rewrite leaves_subst in Hb. apply in_flat_map in Hb as (a & Ha & Hb).
  destruct (is_expr a) eqn:E.
  - eapply H_result; eauto.
  - unfold result_of in Hb. destruct (H_plain a E) as [E1 E2]. rewrite E1 in Hb. simpl in Hb.
    rewrite E2 in Hb. simpl in Hb. destruct Hb as [<-|[]]. exact E.
Qed.

Theorem evaluate_replaces : forall v : val,
  collision_free leq lhash ev v = true ->
  collision_free leq lhash rs (subst ev v) = true ->
  exists log,
    evaluate A leq lhash fixed ev rs v = (log, Ok (subst result_of v)) /\
    rebuilt result_of v (subst result_of v) /\
    (forall b, In b (leaves (subst result_of v)) -> is_expr b = false).
Proof.
  intros v H1 H2. eexists. split; [|split].
  - unfold fixed. apply evaluate_ok; auto using dc_ok_fixed.
  - apply subst_rebuilt.
  - apply result_no_expr.
Qed.
End Eval.
