(** What one step of the machine of Model/Timing.v does, job by job: every existing job keeps its
    parent / task / argument expressions and either keeps its status or makes one of five moves
    ([jstep]); only [ODone] adds jobs (the children, [SCreated]). *)
From Coq Require Import List ZArith Bool Arith Lia.
From RV Require Import Model.Timing Proofs.TimingBase.
Import ListNotations.
Open Scope list_scope.

Definition imm_eq (a b : job) : Prop :=
  j_parent a = j_parent b /\ j_task a = j_task b /\ j_argx a = j_argx b.

Lemma imm_eq_refl a : imm_eq a a.
Proof. repeat split. Qed.

Lemma imm_eq_with_st a st : imm_eq a (with_st a st).
Proof. repeat split. Qed.

Section Step.
  Variable c : cfg.
  Variable body : nat -> list value -> expr.

  Definition entered (s : state) (k : nat) (kb : job) (raw pre : list value) (st' : status) : Prop :=
    st' = SWait raw pre \/ st' = SRun raw pre \/
    exists k', st' = SColl raw pre k' /\ k' <> k /\
      exists kb2, get s k' = Some kb2 /\ j_task kb2 = j_task kb /\ started (j_st kb2) = true /\
                  st_pre (j_st kb2) = Some pre.

  (** where the preprocessed arguments of an entering job come from *)
  Definition pre_src (s : state) (kb : job) (raw pre : list value) : Prop :=
    (pre_every_entry c = false /\ j_st kb = SWait raw pre) \/
    (j_parent kb = None /\ pre = keys_l c (root_order c) raw) \/
    (exists q qb praw ppre e kids f,
        (exists p, j_parent kb = Some p /\ q = if forks_per_parent c then p else 0) /\
        get s q = Some qb /\ j_st qb = SEval praw ppre e kids f /\
        pre = snd (prep_l c f raw)).

  Inductive jstep (s s' : state) (k : nat) (kb : job) : status -> Prop :=
  | JS_enter : forall raw pre st',
      (j_st kb = SCreated /\ raw_args s kb = Some raw) \/ (exists pre0, j_st kb = SWait raw pre0) ->
      pre_src s kb raw pre ->
      entered s k kb raw pre st' ->
      jstep s s' k kb st'
  | JS_forks : forall raw pre e kids f f',
      j_st kb = SEval raw pre e kids f -> jstep s s' k kb (SEval raw pre e kids f')
  | JS_done : forall raw pre,
      j_st kb = SRun raw pre ->
      (forall i ca, nth_error (calls_of (post_e (j_task kb) pre (body (j_task kb) pre))) i = Some ca ->
                    get s' (length s + i) = Some (mkJob (Some k) (fst ca) (snd ca) SCreated)) ->
      jstep s s' k kb (SEval raw pre (post_e (j_task kb) pre (body (j_task kb) pre))
                          (seq (length s) (length (calls_of (post_e (j_task kb) pre (body (j_task kb) pre))))) [])
  | JS_resolve : forall raw pre e kids f r rns,
      j_st kb = SEval raw pre e kids f ->
      subst (calls_of e) (results s kids) e = Some r ->
      mapM (job_res s) kids = Some rns ->
      jstep s s' k kb (SRes raw pre r (CN (j_task kb) pre r (map snd rns)) kids)
  | JS_coll : forall raw pre k' r n,
      j_st kb = SColl raw pre k' -> job_res s k' = Some (r, n) ->
      jstep s s' k kb (SRes raw pre r n []).

  Definition new_job (s : state) (o : op) (k : nat) (kb' : job) : Prop :=
    exists j jb raw pre i ca,
      o = ODone j /\ get s j = Some jb /\ j_st jb = SRun raw pre /\ k = length s + i /\
      nth_error (calls_of (post_e (j_task jb) pre (body (j_task jb) pre))) i = Some ca /\
      kb' = mkJob (Some j) (fst ca) (snd ca) SCreated.

  Definition step_ok (s : state) (o : op) (s' : state) : Prop :=
    length s <= length s' /\
    (forall k kb, get s k = Some kb ->
       exists kb', get s' k = Some kb' /\ imm_eq kb kb' /\ (j_st kb' = j_st kb \/ jstep s s' k kb (j_st kb'))) /\
    (forall k kb', length s <= k -> get s' k = Some kb' -> new_job s o k kb').

  Lemma preprocess_spec s jb raw s1 pre :
    preprocess c s jb raw = Some (s1, pre) ->
    (j_parent jb = None /\ s1 = s /\ pre = keys_l c (root_order c) raw) \/
    (exists q qb praw ppre e kids f,
        (exists p, j_parent jb = Some p /\ q = if forks_per_parent c then p else 0) /\
        get s q = Some qb /\ j_st qb = SEval praw ppre e kids f /\
        s1 = set_st s q (SEval praw ppre e kids (fst (prep_l c f raw))) /\ pre = snd (prep_l c f raw)).
  Proof.
    unfold preprocess. destruct (j_parent jb) as [p|] eqn:P.
    - destruct (nth_error s (if forks_per_parent c then p else 0)) as [pb|] eqn:G; try discriminate.
      destruct (j_st pb) eqn:S; try discriminate.
      destruct (prep_l c f raw) as [f' pre'] eqn:PL. intro E. inversion E. subst.
      right. exists (if forks_per_parent c then p else 0), pb, raw0, pre0, e, kids, f. rewrite PL. simpl.
      repeat split; eauto.
    - intro E. inversion E. subst. left. auto.
  Qed.

  Lemma decide_spec s1 j jb raw pre d s' :
    decide s1 j jb raw pre d = Some s' ->
    exists st', s' = set_st s1 j st' /\ entered s1 j jb raw pre st'.
  Proof.
    unfold decide, entered. destruct d as [| |k'].
    - intro E. inversion E. eauto.
    - intro E. inversion E. eauto 6.
    - destruct (nth_error s1 k') as [kb2|] eqn:G; try discriminate.
      destruct (negb (k' =? j) && (j_task kb2 =? j_task jb) && started (j_st kb2) &&
                match st_pre (j_st kb2) with Some p => list_eqb value_eqb p pre | None => false end) eqn:C;
        try discriminate.
      intro E. inversion E. subst. clear E.
      apply andb_true_iff in C as [C C4]. apply andb_true_iff in C as [C C3]. apply andb_true_iff in C as [C1 C2].
      apply negb_true_iff in C1. apply Nat.eqb_neq in C1. apply Nat.eqb_eq in C2.
      destruct (st_pre (j_st kb2)) as [p2|] eqn:SP; try discriminate. apply values_eqb_eq in C4. subst.
      eexists. split; [reflexivity|]. right. right. exists k'. repeat split; auto.
      exists kb2. repeat split; auto.
  Qed.

  (** the state after an entry: parent's counter possibly advanced, the job's status replaced *)
  Lemma enter_ok s j jb raw pre s1 st' :
    get s j = Some jb ->
    (j_st jb = SCreated /\ raw_args s jb = Some raw) \/ (exists pre0, j_st jb = SWait raw pre0) ->
    pre_src s jb raw pre ->
    (s1 = s \/ exists p pb praw ppre e kids f f', get s p = Some pb /\ j_st pb = SEval praw ppre e kids f /\
                                                  s1 = set_st s p (SEval praw ppre e kids f')) ->
    entered s1 j jb raw pre st' ->
    step_ok s (OEnter j DWait) (set_st s1 j st').
  Proof.
    intros G St PS S1 En.
    assert (L1 : length s1 = length s).
    { destruct S1 as [->|(p & pb & praw & ppre & e & kids & f & f' & _ & _ & ->)]; auto. apply set_st_length. }
    (* the entered condition transfers from s1 to s *)
    assert (En' : entered s j jb raw pre st').
    { destruct En as [E|[E|(k' & E & N & kb2 & G2 & T2 & S2 & P2)]]; [left; auto|right; left; auto|].
      right. right. exists k'. repeat split; auto.
      destruct S1 as [->|(p & pb & praw & ppre & e & kids & f & f' & Gp & Sp & ->)]; [eauto|].
      destruct (Nat.eq_dec k' p) as [->|Np].
      - rewrite (get_set_st_same _ _ _ _ Gp) in G2. inversion G2. subst kb2. simpl in *.
        exists pb. rewrite Sp. simpl. auto.
      - rewrite get_set_st_other in G2 by auto. eauto. }
    split; [rewrite set_st_length; lia|]. split.
    - intros k kb Gk. destruct (Nat.eq_dec k j) as [->|Nj].
      + rewrite G in Gk. inversion Gk. subst kb.
        assert (G1 : get s1 j = Some jb).
        { destruct S1 as [->|(p & pb & praw & ppre & e & kids & f & f' & Gp & Sp & ->)]; auto.
          rewrite get_set_st_other; auto. intros ->. rewrite G in Gp. inversion Gp. subst pb.
          destruct St as [[St _]|[pre0 St]]; rewrite St in Sp; discriminate. }
        exists (with_st jb st'). rewrite (get_set_st_same _ _ _ _ G1). split; auto. split; [apply imm_eq_with_st|].
        right. simpl. eapply JS_enter; eauto.
      + rewrite get_set_st_other by auto.
        destruct S1 as [->|(p & pb & praw & ppre & e & kids & f & f' & Gp & Sp & ->)].
        * exists kb. split; auto. split; [apply imm_eq_refl|]. left. reflexivity.
        * destruct (Nat.eq_dec k p) as [->|Np].
          -- rewrite Gp in Gk. inversion Gk. subst kb. rewrite (get_set_st_same _ _ _ _ Gp).
             eexists. split; [reflexivity|]. split; [apply imm_eq_with_st|]. right. simpl. eapply JS_forks; eauto.
          -- rewrite get_set_st_other by auto. exists kb. split; auto. split; [apply imm_eq_refl|]. left. reflexivity.
    - intros k kb' Lk Gk. exfalso. unfold get in Gk.
      assert (k < length (set_st s1 j st')) by (apply nth_error_Some; congruence).
      rewrite set_st_length in H. lia.
  Qed.

  Lemma step_ok_enter_any s j d d' s' : step_ok s (OEnter j d) s' -> step_ok s (OEnter j d') s'.
  Proof.
    intros (L & A & B). split; auto. split; auto.
    intros k kb' Lk Gk. destruct (B k kb' Lk Gk) as (j0 & jb & raw & pre & i & ca & E & _). discriminate.
  Qed.

  Theorem step_inv s o s' : step c body s o = Some s' -> step_ok s o s'.
  Proof.
    destruct o as [j d|j|j]; simpl.
    - (* OEnter *)
      destruct (nth_error s j) as [jb|] eqn:G; try discriminate.
      destruct (j_st jb) eqn:S; try discriminate.
      + (* first entry *)
        destruct (raw_args s jb) as [raw|] eqn:RA; try discriminate.
        destruct (preprocess c s jb raw) as [[s1 pre]|] eqn:PP; try discriminate.
        intro D. apply decide_spec in D as (st' & -> & En).
        apply step_ok_enter_any with (d := DWait).
        apply preprocess_spec in PP as [(P & -> & ->)|(p & pb & praw & ppre & e & kids & f & P & Gp & Sp & -> & ->)].
        * eapply enter_ok; eauto. right. left. auto.
        * eapply enter_ok; eauto.
          -- right. right. exists p, pb, praw, ppre, e, kids, f. auto.
          -- right. exists p, pb, praw, ppre, e, kids, f. eauto.
      + (* re-entry after waiting *)
        destruct (pre_every_entry c) eqn:PE.
        * destruct (preprocess c s jb raw) as [[s1 pre']|] eqn:PP; try discriminate.
          intro D. apply decide_spec in D as (st' & -> & En).
          apply step_ok_enter_any with (d := DWait).
          apply preprocess_spec in PP as [(P & -> & ->)|(p & pb & praw & ppre & e & kids & f & P & Gp & Sp & -> & ->)].
          -- eapply enter_ok; eauto. right. left. auto.
          -- eapply enter_ok; eauto.
             ++ right. right. exists p, pb, praw, ppre, e, kids, f. auto.
             ++ right. exists p, pb, praw, ppre, e, kids, f. eauto.
        * intro D. apply decide_spec in D as (st' & -> & En).
          apply step_ok_enter_any with (d := DWait).
          eapply enter_ok; eauto. left. auto.
    - (* ODone *)
      destruct (nth_error s j) as [jb|] eqn:G; try discriminate.
      destruct (j_st jb) eqn:S; try discriminate.
      intro E. inversion E. subst s'. clear E.
      set (e := post_e (j_task jb) pre (body (j_task jb) pre)).
      split; [rewrite app_length, set_st_length; lia|]. split.
      + intros k kb Gk.
        assert (Lk : k < length s) by (apply nth_error_Some; unfold get in Gk; congruence).
        unfold get. rewrite nth_error_app1 by (rewrite set_st_length; auto).
        destruct (Nat.eq_dec k j) as [->|Nj].
        * unfold get in Gk. rewrite G in Gk. inversion Gk. subst kb.
          fold (get (set_st s j (SEval raw pre e (seq (length s) (length (calls_of e))) [])) j).
          rewrite (get_set_st_same _ _ _ _ G). eexists. split; [reflexivity|]. split; [apply imm_eq_with_st|].
          right. simpl. apply JS_done; auto.
          intros i ca N. unfold get. rewrite nth_error_app2 by (rewrite set_st_length; lia).
          rewrite set_st_length. replace (length s + i - length s) with i by lia.
          now rewrite (map_nth_error _ _ _ N).
        * fold (get (set_st s j (SEval raw pre e (seq (length s) (length (calls_of e))) [])) k).
          rewrite get_set_st_other by auto. exists kb. split; auto. split; [apply imm_eq_refl|]. now left.
      + intros k kb' Lk Gk. unfold get in Gk.
        rewrite nth_error_app2 in Gk by (rewrite set_st_length; auto). rewrite set_st_length in Gk.
        destruct (nth_error (calls_of e) (k - length s)) as [ca|] eqn:N.
        * rewrite (map_nth_error _ _ _ N) in Gk. inversion Gk. subst kb'.
          exists j, jb, raw, pre, (k - length s), ca. repeat split; auto. lia.
        * exfalso. apply nth_error_None in N.
          assert (k - length s < length (map (fun ca : call => mkJob (Some j) (fst ca) (snd ca) SCreated) (calls_of e)))
            by (apply nth_error_Some; congruence).
          rewrite map_length in H. lia.
    - (* OResolve *)
      destruct (nth_error s j) as [jb|] eqn:G; try discriminate.
      assert (Frame : forall st', jstep s (set_st s j st') j jb st' -> step_ok s (OResolve j) (set_st s j st')).
      { intros st' JS. split; [rewrite set_st_length; lia|]. split.
        - intros k kb Gk. destruct (Nat.eq_dec k j) as [->|Nj].
          + unfold get in Gk. rewrite G in Gk. inversion Gk. subst kb.
            rewrite (get_set_st_same _ _ _ _ G). eexists. split; [reflexivity|]. split; [apply imm_eq_with_st|].
            right. auto.
          + rewrite get_set_st_other by auto. exists kb. split; auto. split; [apply imm_eq_refl|]. now left.
        - intros k kb' Lk Gk. exfalso. unfold get in Gk.
          assert (k < length (set_st s j st')) by (apply nth_error_Some; congruence).
          rewrite set_st_length in H. lia. }
      destruct (j_st jb) eqn:S; try discriminate.
      + destruct (subst (calls_of e) (results s kids) e) as [r|] eqn:Su; try discriminate.
        destruct (mapM (job_res s) kids) as [rns|] eqn:M; try discriminate.
        intro E. inversion E. subst s'. apply Frame. eapply JS_resolve; eauto.
      + destruct (job_res s into) as [[r n]|] eqn:JR; try discriminate.
        intro E. inversion E. subst s'. apply Frame. eapply JS_coll; eauto.
  Qed.

  (** * Generic consequences *)
  Lemma jstep_started s s' k kb st' :
    jstep s s' k kb st' -> started (j_st kb) = true -> started st' = true /\ st_pre st' = st_pre (j_st kb).
  Proof.
    intros JS St. inversion JS; subst;
      try (match goal with H : j_st kb = _ |- _ => rewrite H in *; simpl in *; auto end; fail).
    all: try (destruct H as [[H _]|[p0 H]]; rewrite H in St; discriminate).
    all: try (rewrite H in St; discriminate).
  Qed.

  Lemma jstep_res s s' k kb st' : jstep s s' k kb st' -> st_res (j_st kb) = None.
  Proof.
    intros JS. inversion JS; subst;
      try (match goal with H : j_st kb = _ |- _ => rewrite H; reflexivity end).
    destruct H as [[H _]|[p0 H]]; rewrite H; reflexivity.
  Qed.

  Lemma jstep_raw s s' k kb st' raw : jstep s s' k kb st' -> st_raw (j_st kb) = Some raw -> st_raw st' = Some raw.
  Proof.
    intros JS R. inversion JS; subst;
      try (match goal with H : j_st kb = _ |- _ => rewrite H in R; simpl in *; auto end; fail).
    destruct H as [[H _]|[p0 H]]; rewrite H in R; simpl in R; try discriminate. inversion R. subst.
    destruct H1 as [->|[->|(k' & -> & _)]]; reflexivity.
  Qed.

  Definition has_kid (st : status) (j : nat) : Prop :=
    match st with
    | SEval _ _ _ kids _ | SRes _ _ _ _ kids => In j kids
    | _ => False
    end.

  Lemma jstep_has_kid s s' k kb st' j : jstep s s' k kb st' -> has_kid (j_st kb) j -> has_kid st' j.
  Proof.
    intros JS R. inversion JS; subst;
      try (match goal with H : j_st kb = _ |- _ => rewrite H in R; simpl in *; auto end; fail).
    - destruct H as [[H _]|[p0 H]]; rewrite H in R; simpl in R; contradiction.
    - rewrite H in R. simpl in R. contradiction.
  Qed.
End Step.
