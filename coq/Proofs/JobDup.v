(** C06, "every duplicate receives the same result or error": the hand-over steps of the job machine.
    When a job settles, every job that collapsed into it is handed exactly its outcome (a value becomes the
    duplicate's preset result and a Done event is queued; an error settles the duplicate at once); a Done event of
    a job with a preset result queues a Resolve event with that value; a Resolve event settles the job with it. *)
From Coq Require Import List ZArith Bool Arith Lia.
From RV Require Import Model.JobMachine Proofs.JobBase.
Import ListNotations.
Open Scope list_scope.

Section D.
Variable c : config.

Lemma queue_setj s j x : queue (setj s j x) = queue s. Proof. reflexivity. Qed.

(** notifying another job's duplicate leaves job [j] alone and only appends to the queue *)
Lemma notify_other o s k j : k <> j ->
  getj (notify_sub c o s k) j = getj s j /\ (forall e, In e (queue s) -> In e (queue (notify_sub c o s k))).
Proof.
  intros Hne. unfold notify_sub. destruct (getj s k) as [y|] eqn:Hy; [|split; auto]. destruct o as [v|e].
  - split.
    + change (getj (setj s k (mark_cached y (Some v) PCacheQ)) j = getj s j).
      apply getj_setj_other. exact Hne.
    + intros e He. simpl. apply in_or_app. now left.
  - unfold settle_one. set (s0 := setj s k (mark_cached y None (jphase y))).
    assert (H0 : getj s0 k = Some (mark_cached y None (jphase y))) by (apply (getj_setj_same _ _ _ _ Hy)).
    rewrite H0. set (z := mark_cached y None (jphase y)).
    set (s1 := if jprov z then add_recorded s0 (jkey z, jctx z) (Ko e) else s0).
    assert (G1 : forall i, getj s1 i = getj s0 i) by (intros i; unfold s1; destruct (jprov z); reflexivity).
    assert (Q1 : queue s1 = queue s) by (unfold s1; destruct (jprov z); reflexivity).
    unfold finalize. rewrite (getj_setj_same _ _ (with_phase z (PSettled (Ko e))) _ (eq_trans (G1 k) H0)).
    split.
    + change (getj (setj s1 k (with_phase z (PSettled (Ko e)))) j = getj s j).
      rewrite getj_setj_other by exact Hne. rewrite G1. unfold s0. apply getj_setj_other. exact Hne.
    + intros e0 He0. simpl. rewrite Q1. exact He0.
Qed.

Lemma fold_notify_other o l : forall s j, ~ In j l ->
  getj (fold_left (notify_sub c o) l s) j = getj s j /\
  (forall e, In e (queue s) -> In e (queue (fold_left (notify_sub c o) l s))).
Proof.
  induction l as [|k l IH]; intros s j Hn; simpl; [split; auto|].
  assert (Hk : k <> j) by (intros ->; apply Hn; now left).
  destruct (notify_other o s k j Hk) as [G Q]. destruct (IH (notify_sub c o s k) j) as [G' Q'].
  - intros H. apply Hn. now right.
  - split; [rewrite G'; exact G|intros e He; apply Q'; apply Q; exact He].
Qed.

(** * a value is handed over as the duplicate's preset result, with a Done event *)
Lemma fold_notify_ok v l : forall s j xj, In j l -> NoDup l -> getj s j = Some xj ->
  getj (fold_left (notify_sub c (Ok v)) l s) j = Some (mark_cached xj (Some v) PCacheQ) /\
  In (EvDone j) (queue (fold_left (notify_sub c (Ok v)) l s)).
Proof.
  induction l as [|k l IH]; intros s j xj Hin Hnd Hj; [contradiction|]. simpl.
  inversion Hnd as [|? ? Hk Hnd']; subst. destruct (Nat.eq_dec k j) as [->|Hne].
  - set (s1 := notify_sub c (Ok v) s j).
    assert (H1 : getj s1 j = Some (mark_cached xj (Some v) PCacheQ) /\ In (EvDone j) (queue s1)).
    { unfold s1, notify_sub. rewrite Hj. split.
      - change (getj (setj s j (mark_cached xj (Some v) PCacheQ)) j = Some (mark_cached xj (Some v) PCacheQ)).
        apply (getj_setj_same _ _ _ _ Hj).
      - simpl. apply in_or_app. right. now left. }
    destruct (fold_notify_other (Ok v) l s1 j Hk) as [G Q]. split; [rewrite G; apply H1|apply Q; apply H1].
  - destruct Hin as [->|Hin]; [contradiction|].
    destruct (notify_other (Ok v) s k j Hne) as [G _]. apply IH; auto. rewrite G. exact Hj.
Qed.

(** * an error settles the duplicate at once, with that error *)
Lemma fold_notify_ko e l : forall s j xj, In j l -> NoDup l -> getj s j = Some xj ->
  exists y, getj (fold_left (notify_sub c (Ko e)) l s) j = Some y /\ jphase y = PSettled (Ko e).
Proof.
  induction l as [|k l IH]; intros s j xj Hin Hnd Hj; [contradiction|]. simpl.
  inversion Hnd as [|? ? Hk Hnd']; subst. destruct (Nat.eq_dec k j) as [->|Hne].
  - set (s1 := notify_sub c (Ko e) s j).
    assert (H1 : exists y, getj s1 j = Some y /\ jphase y = PSettled (Ko e)).
    { unfold s1, notify_sub. rewrite Hj. unfold settle_one.
      set (s0 := setj s j (mark_cached xj None (jphase xj))).
      assert (H0 : getj s0 j = Some (mark_cached xj None (jphase xj))) by (apply (getj_setj_same _ _ _ _ Hj)).
      rewrite H0. set (z := mark_cached xj None (jphase xj)).
      set (s2 := if jprov z then add_recorded s0 (jkey z, jctx z) (Ko e) else s0).
      assert (G2 : getj s2 j = Some z) by (unfold s2; destruct (jprov z); exact H0).
      unfold finalize. rewrite (getj_setj_same _ _ (with_phase z (PSettled (Ko e))) _ G2).
      exists (with_phase z (PSettled (Ko e))). split; [|reflexivity].
      change (getj (setj s2 j (with_phase z (PSettled (Ko e)))) j = Some (with_phase z (PSettled (Ko e)))).
      apply (getj_setj_same _ _ _ _ G2). }
    destruct H1 as (y & Hy & Hp). destruct (fold_notify_other (Ko e) l s1 j Hk) as [G _].
    exists y. split; [rewrite G; exact Hy|exact Hp].
  - destruct Hin as [->|Hin]; [contradiction|].
    destruct (notify_other (Ko e) s k j Hne) as [G _]. eapply IH; eauto. rewrite G. exact Hj.
Qed.

Definition dups_of (s : state) (t : nat) : list nat := map snd (filter (fun p => Nat.eqb (fst p) t) (subs s)).

Lemma subs_settle_one s t o : subs (settle_one c s t o) = subs s.
Proof.
  unfold settle_one. destruct (getj s t) as [x|]; [|reflexivity]. unfold finalize.
  destruct (getj (setj _ t _) t); destruct (jprov x); reflexivity.
Qed.

Lemma getj_settle_one_other s t o j : j <> t -> getj (settle_one c s t o) j = getj s j.
Proof.
  intros Hne. unfold settle_one. destruct (getj s t) as [x|] eqn:Hx; [|reflexivity].
  set (s1 := if jprov x then add_recorded s (jkey x, jctx x) o else s).
  assert (G1 : forall i, getj s1 i = getj s i) by (intros i; unfold s1; destruct (jprov x); reflexivity).
  unfold finalize. rewrite (getj_setj_same _ _ (with_phase x (PSettled o)) _ (eq_trans (G1 t) Hx)).
  change (getj (setj s1 t (with_phase x (PSettled o))) j = getj s j).
  rewrite getj_setj_other by (intros E; apply Hne; symmetry; exact E). apply G1.
Qed.

(** When job [t] settles with a value, every job that collapsed into it gets that value as its preset result and a
    Done event; when it settles with an error, every such job is settled with that error. *)
Theorem settle_hands_value s t v j xj :
  getj s t <> None -> In j (dups_of s t) -> NoDup (dups_of s t) -> j <> t -> getj s j = Some xj ->
  getj (settle c s t (Ok v)) j = Some (mark_cached xj (Some v) PCacheQ) /\
  In (EvDone j) (queue (settle c s t (Ok v))).
Proof.
  intros Ht Hin Hnd Hne Hj. unfold settle. destruct (getj s t) as [x|]; [|congruence].
  fold (dups_of (settle_one c s t (Ok v)) t). unfold dups_of. rewrite subs_settle_one. fold (dups_of s t).
  apply fold_notify_ok; auto. rewrite getj_settle_one_other by exact Hne. exact Hj.
Qed.

Theorem settle_hands_error s t e j xj :
  getj s t <> None -> In j (dups_of s t) -> NoDup (dups_of s t) -> j <> t -> getj s j = Some xj ->
  exists y, getj (settle c s t (Ko e)) j = Some y /\ jphase y = PSettled (Ko e).
Proof.
  intros Ht Hin Hnd Hne Hj. unfold settle. destruct (getj s t) as [x|]; [|congruence].
  fold (dups_of (settle_one c s t (Ko e)) t). unfold dups_of. rewrite subs_settle_one. fold (dups_of s t).
  eapply fold_notify_ko; eauto. rewrite getj_settle_one_other by exact Hne. exact Hj.
Qed.

(** * Done with a preset result queues Resolve with that result *)
Definition presets (s : state) : list (option Z) := map jpreset (jobs s).

Lemma presets_setj s j x y : getj s j = Some x -> jpreset y = jpreset x -> presets (setj s j y) = presets s.
Proof.
  unfold presets, getj, setj. simpl. generalize (jobs s). intros l. revert j.
  induction l as [|a l IH]; intros [|j]; simpl; intros H E; try discriminate.
  - injection H as ->. now rewrite E.
  - f_equal. apply IH; auto.
Qed.

Lemma presets_requeue s k : presets (requeue s k) = presets s.
Proof.
  unfold requeue. destruct (getj s k) as [x|] eqn:Hx; [|reflexivity].
  change (presets (setj s k (with_phase x PQueued)) = presets s). apply (presets_setj _ _ x); auto.
Qed.

Lemma presets_fold_requeue l : forall s, presets (fold_left requeue l s) = presets s.
Proof. induction l as [|k l IH]; intros s; simpl; [reflexivity|]. rewrite IH. apply presets_requeue. Qed.

Lemma presets_check_pending s : presets (check_pending_limits c s) = presets s.
Proof.
  unfold check_pending_limits. destruct (split_ready c s (waiting s) []) as [a b]. rewrite presets_fold_requeue. reflexivity.
Qed.

Lemma presets_maybe_release s j : presets (maybe_release c s j) = presets s.
Proof.
  unfold maybe_release. destruct (getj s j) as [x|] eqn:Hx; [|reflexivity].
  destruct (if release_if_holds (vr c) then jholds x else negb (jcached x)); [|reflexivity].
  rewrite presets_check_pending. change (presets (setj s j (bump_release x)) = presets s).
  apply (presets_setj _ _ x); auto.
Qed.

Lemma preset_of s s' j x : presets s' = presets s -> getj s j = Some x ->
  exists y, getj s' j = Some y /\ jpreset y = jpreset x.
Proof.
  unfold presets, getj. generalize (jobs s) (jobs s'). intros l l'. revert l' j.
  induction l as [|a l IH]; intros [|a' l'] [|j]; simpl; intros E H; try discriminate.
  - injection H as ->. injection E as E1 _. eauto.
  - injection E as _ E2. eapply IH; eauto.
Qed.

Theorem done_hands_preset s j x v :
  getj s j = Some x -> jpreset x = Some v -> In (EvResolve j v) (queue (done_job c s j)).
Proof.
  intros Hx Hp. unfold done_job.
  destruct (preset_of s (maybe_release c s j) j x (presets_maybe_release s j) Hx) as (y & Hy & Ey).
  rewrite Hy, Ey, Hp. simpl. apply in_or_app. right. now left.
Qed.

(** * Resolve settles the job with the value it carries *)
Theorem resolve_settles s j x v :
  getj s j = Some x -> ~ In j (dups_of s j) ->
  exists y, getj (resolve_job c s j v) j = Some y /\ jphase y = PSettled (Ok v).
Proof.
  intros Hx Hn. unfold resolve_job, settle. rewrite Hx.
  fold (dups_of (settle_one c s j (Ok v)) j). unfold dups_of at 1. rewrite subs_settle_one. fold (dups_of s j).
  destruct (fold_notify_other (Ok v) (dups_of s j) (settle_one c s j (Ok v)) j Hn) as [G _]. rewrite G.
  unfold settle_one. rewrite Hx.
  set (s1 := if jprov x then add_recorded s (jkey x, jctx x) (Ok v) else s).
  assert (G1 : getj s1 j = Some x) by (unfold s1; destruct (jprov x); exact Hx).
  unfold finalize. rewrite (getj_setj_same _ _ (with_phase x (PSettled (Ok v))) _ G1).
  exists (with_phase x (PSettled (Ok v))). split; [|reflexivity].
  change (getj (setj s1 j (with_phase x (PSettled (Ok v)))) j = Some (with_phase x (PSettled (Ok v)))).
  apply (getj_setj_same _ _ _ _ G1).
Qed.

(** * a same-execution hit hands over the recorded outcome *)
Lemma presets_skip s : presets (skip_wakeup c s) = presets s.
Proof. unfold skip_wakeup. destruct (recheck_on_skip (vr c)); [apply presets_check_pending|reflexivity]. Qed.

Theorem exec_cse_hit_hands_value s j x co v :
  getj s j = Some x -> jnocse x = false -> lookup_pending s (jkey x, jctx x) = None ->
  cse_eff c s (jkey x) (jctx x) = Some (Ok v) ->
  exists y, getj (exec_job c s j co) j = Some y /\ jpreset y = Some v.
Proof.
  intros Hx Hn Hl Hc. unfold exec_job. rewrite Hx, Hn, Hl, Hc.
  set (s1 := setj s j (mark_cached x (Some v) PCacheQ)).
  assert (H1 : getj s1 j = Some (mark_cached x (Some v) PCacheQ)) by (apply (getj_setj_same _ _ _ _ Hx)).
  assert (P : presets (skip_wakeup c (enqueue s1 (EvDone j))) = presets s1).
  { rewrite presets_skip. reflexivity. }
  destruct (preset_of s1 _ j _ P H1) as (y & Hy & Ey). exists y. split; [exact Hy|exact Ey].
Qed.
End D.
