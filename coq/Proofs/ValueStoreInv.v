(** C31 — the state invariant of the value table / value store / FileCache files, and
    read soundness: whatever was recorded, lost or recorded again, [get h] is either absent or
    a value whose hash is [h]. *)
From Coq Require Import List ZArith Bool Ascii Lia.
From RV Require Import Base.Decimal Base.Lit Model.ValueStore Proofs.ValueStoreBase.
Import ListNotations.
Open Scope list_scope.

(** Premise about the hash functions, stated once: two values with the same value hash have the
    same deserializer, serializations of the same length, and — for FileCache values, whose
    serialization is the content-addressed file name — the same serialization.  It follows from
    collision resistance of [H] for content-hashed values; for own-hash values (File, Set, Task)
    it asks only that type and serialized length agree. *)
Definition hash_compat (V : Type) (pickle : V -> bytes) (kind_of : V -> kind) (H Hb : bytes -> bytes) : Prop :=
  forall v w, rhash V pickle kind_of H Hb v = rhash V pickle kind_of H Hb w ->
    tag_of V kind_of v = tag_of V kind_of w
    /\ length (ser_data V pickle kind_of Hb v) = length (ser_data V pickle kind_of Hb w)
    /\ (tag_of V kind_of v = TFileCache -> ser_data V pickle kind_of Hb v = ser_data V pickle kind_of Hb w).

Section Inv.
  Variable V : Type.
  Variable pickle : V -> bytes.
  Variable unpickle : bytes -> option V.
  Variable kind_of : V -> kind.
  Variables H Hb : bytes -> bytes.

  Notation ser_data := (ser_data V pickle kind_of Hb).
  Notation ser_files := (ser_files V pickle kind_of Hb).
  Notation rhash := (rhash V pickle kind_of H Hb).
  Notation tag_of := (tag_of V kind_of).
  Notation fc_path := (fc_path V pickle Hb).
  Notation record := (record V pickle kind_of H Hb).
  Notation get := (get V unpickle).
  Notation step := (step V pickle unpickle kind_of H Hb).
  Notation run := (run V pickle unpickle kind_of H Hb).
  Notation deserialize := (deserialize V unpickle).

  Hypothesis roundtrip : forall v, unpickle (pickle v) = Some v.
  Hypothesis pickle_nonempty : forall v, pickle v <> [].
  Hypothesis Hb_nonempty : forall d, Hb d <> [].
  Hypothesis compat : hash_compat V pickle kind_of H Hb.

  Lemma ser_data_nonempty v : ser_data v <> [].
  Proof.
    unfold ValueStore.ser_data. destruct (kind_of v); auto.
    unfold ValueStore.fc_path. apply join_path_nonempty. apply Hb_nonempty.
  Qed.

  (** the result of a read of [h] that the property allows *)
  Definition good (h : bytes) (r : result V) : Prop :=
    match r with RValue v => rhash v = h | RAbsent => True | _ => False end.

  Definition files_ok (fs : list (bytes * bytes)) : Prop :=
    forall p c, In (p, c) fs -> exists u bs, kind_of u = KFileCache bs /\ p = fc_path bs u /\ c = pickle u.

  (** [b] : is a value store configured (constant over the history) *)
  Record Inv (b : bool) (s : state) : Prop := {
    inv_rows : forall h r, In (h, r) (rows s) ->
      exists w, rhash w = h /\ r_tag r = tag_of w /\ (r_value r = ser_data w \/ (r_value r = [] /\ b = true));
    inv_store : forall h d, In (h, d) (store s) -> exists u, d = ser_data u /\ rhash u = h;
    inv_files : files_ok (files s)
  }.

  Lemma Inv_init b : Inv b init.
  Proof. split; simpl; try red; intros; contradiction. Qed.

  Lemma files_ok_ser v fs : files_ok fs -> files_ok (ser_files v fs).
  Proof.
    intros F. unfold ValueStore.ser_files. destruct (kind_of v) eqn:K; auto.
    intros p c I. apply In_set_kv in I. destruct I as [[-> ->]|I]; [|now apply F].
    exists v, base. auto.
  Qed.

  Lemma In_store_put h d st h' d' :
    In (h', d') (store_put shipped h d st) -> (h' = h /\ d' = d) \/ In (h', d') st.
  Proof.
    unfold store_put. simpl. destruct (lookup h st); auto. apply In_set_kv.
  Qed.

  Lemma offload_has_store cf d : offload shipped cf d = true -> has_store cf = true.
  Proof. unfold offload. intros E. apply andb_true_iff in E. tauto. Qed.

  Lemma Inv_record b cf s v : Inv b s -> has_store cf = b -> Inv b (fst (record shipped cf s v)).
  Proof.
    intros [I1 I2 I3] Hb'. unfold ValueStore.record.
    destruct (too_large shipped cf (ser_data v)); simpl.
    - split; simpl; auto. now apply files_ok_ser.
    - split; simpl.
      + intros h r I.
        assert (New : forall h r, In (h, r) (set_kv (rhash v)
                   {| r_tag := tag_of v;
                      r_value := if offload shipped cf (ser_data v) then [] else ser_data v |} (rows s)) ->
                 exists w, rhash w = h /\ r_tag r = tag_of w /\
                           (r_value r = ser_data w \/ (r_value r = [] /\ b = true))).
        { intros h0 r0 I0. apply In_set_kv in I0. destruct I0 as [[-> ->]|I0]; [|now apply I1].
          exists v. simpl. split; auto. split; auto.
          destruct (offload shipped cf (ser_data v)) eqn:O; auto.
          right. split; auto. rewrite <- Hb'. now apply offload_has_store in O. }
        destruct (lookup (rhash v) (rows s)); auto.
      + intros h d I. destruct (offload shipped cf (ser_data v)); [|now apply I2].
        apply In_store_put in I. destruct I as [[-> ->]|I]; [|now apply I2]. exists v. auto.
      + now apply files_ok_ser.
  Qed.

  Lemma Inv_step b cf s e : Inv b s -> has_store cf = b -> Inv b (fst (step shipped cf s e)).
  Proof.
    intros I Hb'. destruct e; simpl; auto.
    - now apply Inv_record.
    - destruct I as [I1 I2 I3]. split; simpl; auto. intros h0 d I. apply In_remove_k in I. auto.
    - destruct I as [I1 I2 I3]. split; simpl; auto. intros p0 c I. apply In_remove_k in I. auto.
  Qed.

  (** states reachable from the empty database by any events, with ANY thresholds at each
      event; only the presence of a value store is constant *)
  Inductive reach (b : bool) : state -> Prop :=
  | reach_init : reach b init
  | reach_step s cf e : reach b s -> has_store cf = b -> reach b (fst (step shipped cf s e)).

  Lemma reach_Inv b s : reach b s -> Inv b s.
  Proof. induction 1; [apply Inv_init|now apply Inv_step]. Qed.

  Lemma reach_run b cf evs s : has_store cf = b -> reach b s -> reach b (run shipped cf evs s).
  Proof.
    intros Hb'. revert s. induction evs as [|e evs IH]; simpl; auto.
    intros s R. apply IH. now constructor.
  Qed.

  (** deserializing the serialization of [u] under [u]'s own tag *)
  Lemma deserialize_good fs u : files_ok fs -> good (rhash u) (deserialize (tag_of u) (ser_data u) fs).
  Proof.
    intros F. unfold ValueStore.deserialize, ValueStore.tag_of, ValueStore.ser_data.
    destruct (kind_of u) eqn:K.
    - rewrite roundtrip. simpl. reflexivity.
    - rewrite roundtrip. simpl. reflexivity.
    - destruct (lookup (fc_path base u) fs) as [c|] eqn:L; simpl; auto.
      apply lookup_In in L. apply F in L. destruct L as [u' [bs' [K' [P ->]]]].
      rewrite roundtrip. simpl. unfold ValueStore.rhash, ValueStore.ser_data. rewrite K, K'. now rewrite P.
  Qed.

  Lemma in_value_store_nil r : in_value_store shipped r = true <-> r_value r = [].
  Proof. unfold in_value_store. simpl. rewrite Z.eqb_eq. apply blen_nil. Qed.

  Theorem get_good b cf s h : Inv b s -> has_store cf = b -> good h (get shipped cf s h).
  Proof.
    intros [I1 I2 I3] Hb'. unfold ValueStore.get.
    destruct (lookup h (rows s)) as [r|] eqn:L; simpl; auto.
    apply lookup_In in L. destruct (I1 _ _ L) as [w [Hw [Tw Dw]]].
    destruct (in_value_store shipped r) eqn:P.
    - apply in_value_store_nil in P. destruct Dw as [Dw|[_ Bt]].
      { exfalso. apply (ser_data_nonempty w). congruence. }
      rewrite Hb', Bt. destruct (lookup h (store s)) as [d|] eqn:Ls; simpl; auto.
      apply lookup_In in Ls. destruct (I2 _ _ Ls) as [u [-> Hu]].
      destruct (compat u w) as [T _]; [congruence|]. rewrite Tw, <- T, <- Hu. now apply deserialize_good.
    - destruct Dw as [Dw|[Dw _]].
      + rewrite Dw, Tw, <- Hw. now apply deserialize_good.
      + apply in_value_store_nil in Dw. congruence.
  Qed.

  Theorem read_sound b s cf h : reach b s -> has_store cf = b -> good h (get shipped cf s h).
  Proof. intros R. apply get_good. now apply reach_Inv. Qed.
End Inv.
