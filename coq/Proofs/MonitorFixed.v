(** C10 — the repaired discipline never loses a job: invariant, quiescent states, step bound. *)
From Coq Require Import List Bool Arith Lia.
From RV Require Import Model.Monitor Proofs.MonitorBase.
Import ListNotations.
Open Scope list_scope.

Definition loopn (p : mpc) : nat :=
  match p with MGuard | MSnap | MProc _ => 1 | _ => 0 end.

Record Inv (js : list job) (s : st) : Prop := {
  I_kont : kont s = [];
  I_one : sumf loopn (mons s) = if flag s then 1 else 0;
  I_idle : flag s = false -> tracked s = [];
  I_proc : forall i l, nth_error (mons s) i = Some (MProc l) -> l <> [] /\ exists ex, tracked s = l ++ ex;
  I_snap : forall i, nth_error (mons s) i = Some MSnap -> tracked s <> [];
  I_fifo : reported s ++ tracked s ++ todo s = js;
  I_err : err s = false;
  I_nostop : forall i p, nth_error (mons s) i = Some p -> p <> MStop /\ p <> MJoin;
  I_subs : subs s = []
}.

Lemma inv_init : forall js, Inv js (init js).
Proof.
  intros js. constructor; simpl; auto; try (intros [|i]; simpl; intros; discriminate).
Qed.

Lemma nth_app_one : forall A (l : list A) x i p,
  nth_error (l ++ [x]) i = Some p -> nth_error l i = Some p \/ p = x.
Proof.
  intros A l x i p H. destruct (Nat.lt_ge_cases i (length l)) as [Hl|Hl].
  - rewrite nth_error_app1 in H by assumption. auto.
  - rewrite nth_error_app2 in H by assumption.
    destruct (i - length l) as [|[|n]]; simpl in H; try discriminate. injection H as <-. auto.
Qed.

Lemma fixed_sched : forall s j r, kont s = [] -> todo s = j :: r ->
  sched_step fixed_cfg s =
  Some (if flag s
        then set_kont (insert fixed_cfg s j r) []
        else set_kont (set_mons (set_kont (set_flag (set_kont (insert fixed_cfg s j r) [OSetFlag; OSpawn Mon]) true) [OSpawn Mon])
                                (mons s ++ [MGuard])) []).
Proof.
  intros s j r Hk Ht. unfold sched_step. rewrite Hk, Ht. cbn.
  destruct (flag s); reflexivity.
Qed.

Lemma inv_sched : forall js s s', Inv js s -> sched_step fixed_cfg s = Some s' -> Inv js s'.
Proof.
  intros js s s' I H. destruct (todo s) as [|j r] eqn:Et.
  { unfold sched_step in H. rewrite (I_kont _ _ I), Et in H. discriminate. }
  rewrite (fixed_sched s j r (I_kont _ _ I) Et) in H. injection H as <-.
  pose proof (I_fifo _ _ I) as Hf. rewrite Et in Hf.
  destruct (flag s) eqn:Ef.
  - constructor; cbn; rewrite ?Ef; auto.
    + apply (I_one _ _ I) || (rewrite (I_one _ _ I), Ef; reflexivity).
    + discriminate.
    + intros i l Hn. destruct (I_proc _ _ I _ _ Hn) as [Hne [ex Hex]]. split; [assumption|].
      exists (ex ++ [j]). rewrite Hex, app_assoc. reflexivity.
    + intros i _ Hc. apply app_eq_nil in Hc as [_ Hc]. discriminate.
    + rewrite <- Hf. rewrite <- !app_assoc. reflexivity.
    + apply (I_err _ _ I).
    + apply (I_nostop _ _ I).
    + apply (I_subs _ _ I).
  - constructor; cbn; auto.
    + rewrite sumf_app, (I_one _ _ I), Ef. reflexivity.
    + discriminate.
    + intros i l Hn. apply nth_app_one in Hn as [Hn|Hn]; [|discriminate].
      destruct (I_proc _ _ I _ _ Hn) as [Hne [ex Hex]]. split; [assumption|].
      exists (ex ++ [j]). rewrite Hex, app_assoc. reflexivity.
    + intros i _ Hc. apply app_eq_nil in Hc as [_ Hc]. discriminate.
    + rewrite <- Hf. rewrite <- !app_assoc. reflexivity.
    + apply (I_err _ _ I).
    + intros i p Hn. apply nth_app_one in Hn as [Hn|Hn]; [apply (I_nostop _ _ I _ _ Hn)|].
      subst p. split; discriminate.
    + apply (I_subs _ _ I).
Qed.

Lemma sum_le_one : forall js s, Inv js s -> sumf loopn (mons s) <= 1.
Proof. intros js s I. rewrite (I_one _ _ I). destruct (flag s); lia. Qed.

Lemma in_loop_flag : forall js s i p, Inv js s -> nth_error (mons s) i = Some p -> loopn p = 1 -> flag s = true.
Proof.
  intros js s i p I Hn Hp. pose proof (sumf_nth_le _ loopn _ _ _ Hn) as Hle.
  rewrite (I_one _ _ I) in Hle. destruct (flag s); [reflexivity|lia].
Qed.

(** Generic shape of a monitor step that only changes the pc of monitor [i]. *)
Lemma inv_pc_only : forall js s i old new,
  Inv js s -> nth_error (mons s) i = Some old ->
  loopn new = loopn old ->
  (forall l, new = MProc l -> l <> [] /\ exists ex, tracked s = l ++ ex) ->
  (new = MSnap -> tracked s <> []) ->
  new <> MStop -> new <> MJoin ->
  Inv js (set_mons s (upd (mons s) i new)).
Proof.
  intros js s i old new I Hn Hl Hp Hs Hns Hnj.
  constructor; cbn; try apply I.
  - pose proof (sumf_upd _ loopn _ _ _ new Hn) as E. rewrite <- (I_one _ _ I). lia.
  - intros k l Hk. destruct (nth_upd_cases _ _ _ _ _ _ _ Hn Hk) as [[-> <-]|[_ Hk']]; [apply Hp; reflexivity|].
    apply (I_proc _ _ I _ _ Hk').
  - intros k Hk. destruct (nth_upd_cases _ _ _ _ _ _ _ Hn Hk) as [[-> E]|[_ Hk']]; [apply Hs; auto|].
    apply (I_snap _ _ I _ Hk').
  - intros k p Hk. destruct (nth_upd_cases _ _ _ _ _ _ _ Hn Hk) as [[-> ->]|[_ Hk']]; [split; assumption|].
    apply (I_nostop _ _ I _ _ Hk').
Qed.

Lemma nonempty_true : forall A (l : list A), nonempty l = true -> l <> [].
Proof. intros A [|x l] H; [discriminate|discriminate]. Qed.
Lemma nonempty_false : forall A (l : list A), nonempty l = false -> l = [].
Proof. intros A [|x l] H; [reflexivity|discriminate]. Qed.

Lemma inv_mon : forall js s i s', Inv js s -> mon_step fixed_cfg s i = Some s' -> Inv js s'.
Proof.
  intros js s i s' I H. unfold mon_step in H.
  destruct (nth_error (mons s) i) as [p|] eqn:Hn; [|discriminate].
  destruct p.
  - (* MGuard *)
    unfold guard in H. cbn [use_queue fixed_cfg locked andb orb] in H.
    rewrite Bool.orb_false_r in H.
    pose proof (in_loop_flag _ _ _ _ I Hn eq_refl) as Ef. rewrite Ef in H. cbn [andb] in H.
    destruct (nonempty (tracked s)) eqn:Ene; injection H as <-.
    + eapply inv_pc_only; eauto; try discriminate. intros _. apply nonempty_true; assumption.
    + apply nonempty_false in Ene.
      constructor; cbn; try apply I; auto.
      * pose proof (sumf_upd _ loopn _ _ _ MExit Hn) as E. rewrite (I_one _ _ I), Ef in E. cbn in E. lia.
      * intros k l Hk. destruct (nth_upd_cases _ _ _ _ _ _ _ Hn Hk) as [[_ E]|[_ Hk']]; [discriminate|].
        apply (I_proc _ _ I _ _ Hk').
      * intros k Hk. destruct (nth_upd_cases _ _ _ _ _ _ _ Hn Hk) as [[_ E]|[_ Hk']]; [discriminate|].
        apply (I_snap _ _ I _ Hk').
      * intros k p Hk. destruct (nth_upd_cases _ _ _ _ _ _ _ Hn Hk) as [[_ ->]|[_ Hk']]; [split; discriminate|].
        apply (I_nostop _ _ I _ _ Hk').
  - (* MSnap *)
    destruct (tracked s) as [|a t] eqn:Et; injection H as <-.
    + eapply inv_pc_only; eauto; try discriminate.
    + eapply inv_pc_only; eauto; try discriminate.
      intros l [= <-]. split; [discriminate|]. exists []. rewrite Et, app_nil_r. reflexivity.
  - (* MProc *)
    destruct (I_proc _ _ I _ _ Hn) as [Hne [ex Hex]].
    destruct l as [|j l]; [congruence|].
    assert (Hm : memb j (tracked s) = true) by (rewrite Hex; cbn; rewrite Nat.eqb_refl; reflexivity).
    rewrite Hm in H. injection H as <-.
    assert (Hrm : remove1 j (tracked s) = l ++ ex) by (rewrite Hex; cbn; rewrite Nat.eqb_refl; reflexivity).
    pose proof (sum_le_one _ _ I) as Hle.
    constructor; cbn; try apply I; auto.
    + pose proof (sumf_upd _ loopn _ _ _ (match l with [] => MGuard | _ :: _ => MProc l end) Hn) as E.
      rewrite <- (I_one _ _ I). destruct l; cbn in E; lia.
    + intros Ef. pose proof (in_loop_flag _ _ _ _ I Hn eq_refl). congruence.
    + intros k l' Hk. destruct (nth_upd_cases _ _ _ _ _ _ _ Hn Hk) as [[-> E]|[Hne' Hk']].
      * destruct l; [discriminate|]. injection E as ->. split; [discriminate|]. exists ex. exact Hrm.
      * exfalso. apply Hne'. eapply (sumf_unique _ loopn); eauto.
    + intros k Hk. destruct (nth_upd_cases _ _ _ _ _ _ _ Hn Hk) as [[-> E]|[Hne' Hk']].
      * destruct l; discriminate.
      * exfalso. apply Hne'. eapply (sumf_unique _ loopn); eauto.
    + rewrite Hrm. rewrite <- (I_fifo _ _ I), Hex. rewrite <- !app_assoc. reflexivity.
    + intros k p Hk. destruct (nth_upd_cases _ _ _ _ _ _ _ Hn Hk) as [[_ ->]|[_ Hk']].
      * destruct l; split; discriminate.
      * apply (I_nostop _ _ I _ _ Hk').
  - destruct (I_nostop _ _ I _ _ Hn) as [E _]. congruence.
  - destruct (I_nostop _ _ I _ _ Hn) as [_ E]. congruence.
  - (* MExit *) injection H as <-. eapply inv_pc_only; eauto; discriminate.
  - discriminate.
Qed.

Lemma inv_step : forall js s a s', Inv js s -> step fixed_cfg s a = Some s' -> Inv js s'.
Proof.
  intros js s [|i|i] s' I H; simpl in H.
  - eapply inv_sched; eauto.
  - eapply inv_mon; eauto.
  - unfold sub_step in H. rewrite (I_subs _ _ I) in H. destruct i; discriminate.
Qed.

Lemma inv_reach : forall js s, reach fixed_cfg (init js) s -> Inv js s.
Proof. induction 1; [apply inv_init | eapply inv_step; eauto]. Qed.

(** A state in which no thread can move has reported every job, once, in submission order. *)
Lemma terminal_all_dead : forall s, terminal fixed_cfg s -> sumf loopn (mons s) = 0.
Proof.
  intros s T. assert (H : forall i p, nth_error (mons s) i = Some p -> loopn p = 0).
  { intros i p Hn. specialize (T (AMon i)). simpl in T. unfold mon_step in T. rewrite Hn in T.
    destruct p; try reflexivity; exfalso.
    - destruct (guard fixed_cfg s); discriminate.
    - destruct (tracked s); discriminate.
    - destruct l; [discriminate|]. cbn in T. destruct (memb j (tracked s)); discriminate. }
  revert H. generalize (mons s). induction l as [|a l IH]; intros H; [reflexivity|].
  cbn. rewrite (H 0 a eq_refl). apply IH. intros i p Hn. apply (H (S i) p Hn).
Qed.

Lemma fixed_terminal_reported : forall js s,
  reach fixed_cfg (init js) s -> terminal fixed_cfg s ->
  reported s = js /\ tracked s = [] /\ err s = false /\ flag s = false.
Proof.
  intros js s R T. pose proof (inv_reach _ _ R) as I.
  pose proof (terminal_all_dead _ T) as Hz. rewrite (I_one _ _ I) in Hz.
  destruct (flag s) eqn:Ef; [discriminate|].
  pose proof (I_idle _ _ I Ef) as Et.
  assert (Htodo : todo s = []).
  { specialize (T ASched). simpl in T. unfold sched_step in T. rewrite (I_kont _ _ I) in T.
    destruct (todo s) as [|j r] eqn:E; [reflexivity|].
    pose proof (fixed_sched s j r (I_kont _ _ I) E) as F. unfold sched_step in F.
    rewrite (I_kont _ _ I), E in F. rewrite F in T. discriminate. }
  pose proof (I_fifo _ _ I) as Hf. rewrite Et, Htodo, !app_nil_r in Hf.
  repeat split; auto. apply (I_err _ _ I).
Qed.

(** Every interleaving is finite: a weight that strictly decreases with every step. *)
Definition w (p : mpc) : nat :=
  match p with MGuard => 4 | MSnap => 3 | MProc _ => 2 | MStop => 3 | MJoin => 2 | MExit => 1 | MDead => 0 end.
Definition mu (s : st) : nat := 10 * length (todo s) + 5 * length (tracked s) + sumf w (mons s).

Lemma mu_step : forall js s a s', Inv js s -> step fixed_cfg s a = Some s' -> mu s' < mu s.
Proof.
  intros js s [|i|i] s' I H; simpl in H.
  - destruct (todo s) as [|j r] eqn:Et.
    { unfold sched_step in H. rewrite (I_kont _ _ I), Et in H. discriminate. }
    rewrite (fixed_sched s j r (I_kont _ _ I) Et) in H. injection H as <-.
    unfold mu. rewrite Et. destruct (flag s); cbn; rewrite ?app_length, ?sumf_app; cbn; lia.
  - unfold mon_step in H. destruct (nth_error (mons s) i) as [p|] eqn:Hn; [|discriminate].
    unfold mu. destruct p.
    + destruct (guard fixed_cfg s); cbn in H; injection H as <-; cbn;
        [pose proof (sumf_upd _ w _ _ _ MSnap Hn) | pose proof (sumf_upd _ w _ _ _ MExit Hn)]; cbn in *; lia.
    + pose proof (I_snap _ _ I _ Hn) as Hne.
      destruct (tracked s) as [|a t] eqn:Et; [congruence|]. injection H as <-. cbn. rewrite Et.
      pose proof (sumf_upd _ w _ _ _ (MProc (a :: t)) Hn). cbn in *. lia.
    + destruct (I_proc _ _ I _ _ Hn) as [Hne [ex Hex]].
      destruct l as [|j l]; [congruence|].
      assert (Hm : memb j (tracked s) = true) by (rewrite Hex; cbn; rewrite Nat.eqb_refl; reflexivity).
      rewrite Hm in H. injection H as <-. cbn.
      assert (Hrm : remove1 j (tracked s) = l ++ ex) by (rewrite Hex; cbn; rewrite Nat.eqb_refl; reflexivity).
      rewrite Hrm, Hex. cbn. rewrite !app_length.
      pose proof (sumf_upd _ w _ _ _ (match l with [] => MGuard | _ :: _ => MProc l end) Hn) as E.
      destruct l; cbn in *; lia.
    + destruct (I_nostop _ _ I _ _ Hn) as [E _]. congruence.
    + destruct (I_nostop _ _ I _ _ Hn) as [_ E]. congruence.
    + injection H as <-. cbn. pose proof (sumf_upd _ w _ _ _ MDead Hn). cbn in *. lia.
    + discriminate.
  - unfold sub_step in H. rewrite (I_subs _ _ I) in H. destruct i; discriminate.
Qed.

Lemma fixed_run_bound : forall js sch s0 s,
  Inv js s0 -> run fixed_cfg s0 sch = Some s -> length sch + mu s <= mu s0.
Proof.
  intros js. induction sch as [|a sch IH]; simpl; intros s0 s I H.
  - injection H as <-. lia.
  - destruct (step fixed_cfg s0 a) as [s1|] eqn:E; [|discriminate].
    pose proof (mu_step _ _ _ _ I E). pose proof (IH _ _ (inv_step _ _ _ _ I E) H). lia.
Qed.

Lemma fixed_bounded : forall js sch s, run fixed_cfg (init js) sch = Some s -> length sch <= 10 * length js.
Proof.
  intros js sch s H. pose proof (fixed_run_bound js sch _ _ (inv_init js) H) as B.
  unfold mu at 2 in B. cbn in B. lia.
Qed.

(** While something is unreported some thread can move (no deadlock short of completion). *)
Lemma fixed_progress : forall js s, reach fixed_cfg (init js) s ->
  reported s <> js -> exists a s', step fixed_cfg s a = Some s'.
Proof.
  intros js s R Hne. pose proof (inv_reach _ _ R) as I.
  destruct (todo s) as [|j r] eqn:Et.
  - destruct (flag s) eqn:Ef.
    + (* a monitor is in its loop *)
      assert (exists i p, nth_error (mons s) i = Some p /\ loopn p = 1) as (i & p & Hn & Hp).
      { pose proof (I_one _ _ I) as H1. rewrite Ef in H1. revert H1. generalize (mons s).
        induction l as [|a l IH]; cbn; intros H1; [discriminate|].
        destruct (loopn a) eqn:Ea.
        - destruct (IH H1) as (i & p & Hn & Hp). exists (S i), p. auto.
        - exists 0, a. split; [reflexivity|]. destruct a; cbn in *; try discriminate; reflexivity. }
      exists (AMon i). simpl. unfold mon_step. rewrite Hn. destruct p; try discriminate.
      * destruct (guard fixed_cfg s); cbn; eauto.
      * destruct (tracked s); eauto.
      * destruct l; [eauto|]. cbn. destruct (memb j (tracked s)); eauto.
    + exfalso. apply Hne. pose proof (I_fifo _ _ I) as Hf.
      rewrite (I_idle _ _ I Ef), Et, !app_nil_r in Hf. exact Hf.
  - exists ASched. simpl. rewrite (fixed_sched s j r (I_kont _ _ I) Et). eauto.
Qed.
