(** C10 — the shipped start/monitor/stop protocols lose a job: concrete interleavings. *)
From Coq Require Import List Bool Arith Lia.
From RV Require Import Model.Monitor Proofs.MonitorBase.
Import ListNotations.
Open Scope list_scope.

(** "Some interleaving of submitting [js] ends with every thread finished and a job
    that was submitted but never reported." *)
Definition loses_job (c : cfg) : Prop :=
  exists js sch s j,
    NoDup js /\ run c (init js) sch = Some s /\ reach c (init js) s /\
    terminal c s /\ quiescentb s = true /\ In j js /\ ~ In j (reported s).

Ltac witness js sch j :=
  exists js, sch; eexists; exists j;
  split; [repeat (apply NoDup_cons; [simpl; intuition discriminate|]); apply NoDup_nil|];
  split; [vm_compute; reflexivity|];
  split; [eapply (run_reach _ sch (init js)); [vm_compute; reflexivity|apply reach_refl]|];
  split; [unfold terminal; apply quiescent_terminal; vm_compute; reflexivity|];
  split; [vm_compute; reflexivity|];
  split; [simpl; auto|];
  vm_compute; intuition discriminate.

(** Job 0 is submitted and completes; the monitor evaluates its loop guard (nothing pending) and
    is about to call stop().  Job 1 is inserted and _start() still sees is_running = True.  The
    monitor clears the flag and exits.  Job 1 stays in the pending map for ever. *)
Definition sch_submit_flag : list action := [ASched; ASched; ASched; ASched].
Definition sch_mon_round : list action := [AMon 0; AMon 0; AMon 0; AMon 0].

Definition witness_docker : list action :=
  sch_submit_flag ++ sch_mon_round ++ [ASched; ASched] ++ [AMon 0; AMon 0; AMon 0].
Definition witness_k8s : list action :=
  sch_submit_flag ++ sch_mon_round ++ [ASched; ASched] ++ [AMon 0; AMon 0].
(** GCP tests thread liveness instead of the flag: same window (and it stays open until the
    thread object is really dead). *)
Definition witness_gcp : list action := witness_docker.
(** Glue, two jobs: the new submission thread started for job 1 sees is_running = False. *)
Definition witness_glue2 : list action :=
  [ASched; ASched; ASched; ASched; ASched; ASched; ASched] ++
  [ASub 0; ASub 0; ASub 0; ASub 0; ASub 0; ASub 0] ++
  sch_mon_round ++
  [ASched; ASched; ASched; ASched; ASched] ++
  [AMon 0; AMon 0] ++ [ASub 1; ASub 1].
(** Glue, one job: the submission thread has popped the job from pending_glue_jobs and not yet
    stored it in running_glue_jobs when the monitor evaluates its guard. *)
Definition witness_glue1 : list action :=
  [ASched; ASched; ASched; ASched; ASched; ASched; ASched] ++
  [ASub 0; ASub 0] ++ [AMon 0; AMon 0; AMon 0] ++ [ASub 0; ASub 0; ASub 0; ASub 0].

Lemma docker_loses : loses_job shipped_docker.
Proof. witness [0;1] witness_docker 1. Qed.
Lemma aws_batch_loses : loses_job shipped_aws_batch.
Proof. witness [0;1] witness_docker 1. Qed.
Lemma k8s_loses : loses_job shipped_k8s.
Proof. witness [0;1] witness_k8s 1. Qed.
Lemma gcp_batch_loses : loses_job shipped_gcp_batch.
Proof. witness [0;1] witness_gcp 1. Qed.
Lemma aws_glue_loses : loses_job shipped_aws_glue.
Proof. witness [0;1] witness_glue2 1. Qed.
Lemma aws_glue_loses_single : loses_job shipped_aws_glue.
Proof. witness [0] witness_glue1 0. Qed.

(** What the final states look like (used by the harness as the expected observation). *)
Example docker_final :
  option_map obs (run shipped_docker (init [0;1]) witness_docker)
  = Some (false, [], [1], [0], false, [false], []).
Proof. vm_compute. reflexivity. Qed.
Example glue1_final :
  option_map obs (run shipped_aws_glue (init [0]) witness_glue1)
  = Some (false, [], [0], [], false, [false], [false]).
Proof. vm_compute. reflexivity. Qed.
